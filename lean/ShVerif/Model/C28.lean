import ShVerif.Base.Hex
/-
  C28 — models of the argument-handling code of the interpreter, with an explicit `panic`
  outcome for every slice / index expression and every explicit `panic(` of the modelled Go code.

    interp/builtin.go   shift, break/continue, exit/return, wait, getopts (+ type getopts, next),
                        flagParser (more/flag/value/args), pushd/popd/dirs (dirStack)
    interp/api.go       Params (the `set` builtin and the option to New)
    expand/param.go     string slicing `${s:o:l}`, varInd/assignElem on associative arrays
    expand/expand.go    sliceElems `${a[@]:o:l}`, `${@:o:l}`
    expand/arith.go     Inc/Dec/assignment l-values (`X.(*syntax.Word).Lit()`), interp/vars.go lookupVar

  Conventions: `Res.panic` is a Go run-time panic.  Lists model Go slices and strings; every Go
  index `x[i]` is `getN`/`getI`, every slice expression is `sliceFromN`/`sliceToN`/…; the guards
  written in the Go code are written here as the same `if`s, *not* assumed by the helpers.
  Runes are natural numbers (the harness only sends valid UTF-8, so `[]rune(s)` is the rune list).
-/
namespace ShVerif.C28

/-- Outcome of a modelled Go function. -/
inductive Res (α : Type) where
  | ok (a : α)
  | panic
  deriving DecidableEq, Repr

def Res.bind {α β : Type} (x : Res α) (f : α → Res β) : Res β :=
  match x with
  | .ok a => f a
  | .panic => .panic

/-- `x[i]` with a natural index. -/
def getN {α : Type} (l : List α) (i : Nat) : Res α :=
  match l[i]? with
  | some a => .ok a
  | none => .panic

/-- `x[i]` with a Go `int` index. -/
def getI {α : Type} (l : List α) (i : Int) : Res α :=
  if i < 0 then .panic else getN l i.toNat

/-- `x[i:]`. -/
def sliceFromN {α : Type} (l : List α) (i : Nat) : Res (List α) :=
  if i ≤ l.length then .ok (l.drop i) else .panic

def sliceFromI {α : Type} (l : List α) (i : Int) : Res (List α) :=
  if i < 0 then .panic else sliceFromN l i.toNat

/-- `x[:j]` (bounded by the length: stricter than Go's capacity bound for slices). -/
def sliceToN {α : Type} (l : List α) (j : Nat) : Res (List α) :=
  if j ≤ l.length then .ok (l.take j) else .panic

def sliceToI {α : Type} (l : List α) (j : Int) : Res (List α) :=
  if j < 0 then .panic else sliceToN l j.toNat

/-- `x[i] = v`. -/
def setI {α : Type} (l : List α) (i : Int) (v : α) : Res (List α) :=
  if i < 0 then .panic else if i.toNat < l.length then .ok (l.set i.toNat v) else .panic

/-! ### strconv.Atoi and interp.atoi -/

def digitVal (b : UInt8) : Option Nat :=
  if 48 ≤ b ∧ b ≤ 57 then some (b.toNat - 48) else none

def parseDigits : Bytes → Nat → Option Nat
  | [], acc => some acc
  | b :: r, acc =>
    match digitVal b with
    | some d => parseDigits r (acc * 10 + d)
    | none => none

def two63 : Nat := 9223372036854775808

/-- Sign split shared by `strconv.Atoi` and `strconv.ParseInt`. -/
def splitSign : Bytes → Bool × Bytes
  | 45 :: r => (true, r)
  | 43 :: r => (false, r)
  | s => (false, s)

/-- `strconv.Atoi` on a 64-bit platform: `none` is a non-nil error. -/
def goAtoi (s : Bytes) : Option Int :=
  let (neg, ds) := splitSign s
  if ds.isEmpty then none else
  match parseDigits ds 0 with
  | none => none
  | some n =>
    if neg then (if n ≤ two63 then some (-(n : Int)) else none)
    else (if n < two63 then some (n : Int) else none)

def isAsciiSpace (b : UInt8) : Bool :=
  b = 32 || b = 9 || b = 10 || b = 11 || b = 12 || b = 13

def trimLeft : Bytes → Bytes
  | [] => []
  | b :: r => if isAsciiSpace b then trimLeft r else b :: r

def trimSpace (s : Bytes) : Bytes := (trimLeft (trimLeft s).reverse).reverse

/-- `interp.atoi`: `strings.TrimSpace` (ASCII part) then `strconv.ParseInt(s, 10, 64)` with the
    error ignored: a syntax error gives 0, a range error gives the clamped value. -/
def atoiLoose (s : Bytes) : Int :=
  let (neg, ds) := splitSign (trimSpace s)
  if ds.isEmpty then 0 else
  match parseDigits ds 0 with
  | none => 0
  | some n =>
    if neg then (if n ≤ two63 then -(n : Int) else -(two63 : Int))
    else (if n < two63 then (n : Int) else (two63 : Int) - 1)

/-! ### shift -/

inductive ShiftRes where
  | usage                 -- "usage: shift [n]", status 2
  | outOfRange            -- "shift count out of range", status 1 (n < 0)
  | ok (nparams : Nat)    -- number of positional parameters left
  | panic
  deriving DecidableEq, Repr

/-- The count: `n := 1`, or `strconv.Atoi(args[0])`; `none` is the usage error. -/
def shiftCount : List Bytes → Option Int
  | [] => some 1
  | [a] => goAtoi a
  | _ => none

/-- `if n < 0 { fail } if n >= len(r.Params) { r.Params = nil } else { r.Params = r.Params[n:] }`. -/
def shiftBy (params : List Bytes) (n : Int) : ShiftRes :=
  if n < 0 then .outOfRange
  else if n ≥ (params.length : Int) then .ok 0
  else match sliceFromI params n with      -- r.Params[n:]
    | .ok rest => .ok rest.length
    | .panic => .panic

/-- `case "shift"` of `Runner.builtin`. -/
def shift (params : List Bytes) (args : List Bytes) : ShiftRes :=
  match shiftCount args with
  | none => .usage
  | some n => shiftBy params n

/-! ### break / continue -/

inductive LoopRes where
  | notInLoop            -- message, status 0
  | usage                -- status 2
  | set (n : Int)        -- *enclosing = n
  deriving DecidableEq, Repr

def breakContinue (inLoop : Bool) (args : List Bytes) : Res LoopRes :=
  if !inLoop then .ok .notInLoop else
  match args with
  | [] => .ok (.set 1)
  | [a] => match goAtoi a with
    | some n => .ok (.set n)
    | none => .ok .usage
  | _ => .ok .usage

/-- The counters test of `loopStmtsBroken` after one statement: new (contn, break) counters and
    whether the loop body is left (`some broken`) or goes on (`none`). -/
def loopAfterStmt (contn brk : Int) : Int × Int × Option Bool :=
  if contn > 0 then (contn - 1, brk, some (contn - 1 > 0))
  else if brk > 0 then (contn, brk - 1, some true)
  else (contn, brk, none)

/-- Simulation of
      for i in 1 2; do for j in 1 2; do echo $i$j; CMD ARGS; echo a; done; echo m; done; echo e
    where CMD is `break` or `continue`: the tokens printed.  Tokens: 10*i+j, 100 (`a`),
    200 (`m`), 300 (`e`). -/
def innerBody (isBreak : Bool) (args : List Bytes) (i j : Nat) (contn brk : Int) :
    List Nat × Int × Int × Bool :=
  -- stmt 1: echo $i$j ; counters unchanged, test after it
  let out1 := [10 * i + j]
  match loopAfterStmt contn brk with
  | (c, b, some broken) => (out1, c, b, broken)
  | (c, b, none) =>
    -- stmt 2: break/continue ARGS
    let (c, b) := match breakContinue true args with
      | .ok (.set n) => if isBreak then (c, n) else (n, b)
      | _ => (c, b)
    match loopAfterStmt c b with
    | (c, b, some broken) => (out1, c, b, broken)
    | (c, b, none) =>
      -- stmt 3: echo a
      match loopAfterStmt c b with
      | (c, b, some broken) => (out1 ++ [100], c, b, broken)
      | (c, b, none) => (out1 ++ [100], c, b, false)

def innerLoop (isBreak : Bool) (args : List Bytes) (i : Nat) : List Nat → Int → Int → List Nat × Int × Int
  | [], c, b => ([], c, b)
  | j :: js, c, b =>
    let (o, c, b, broken) := innerBody isBreak args i j c b
    if broken then (o, c, b) else
    let (o2, c, b) := innerLoop isBreak args i js c b
    (o ++ o2, c, b)

def outerLoop (isBreak : Bool) (args : List Bytes) : List Nat → Int → Int → List Nat × Int × Int
  | [], c, b => ([], c, b)
  | i :: is, c, b =>
    -- outer body stmt 1: the inner for
    let (o, c, b) := innerLoop isBreak args i [1, 2] c b
    match loopAfterStmt c b with
    | (c, b, some broken) =>
      if broken then (o, c, b) else
      let (o2, c, b) := outerLoop isBreak args is c b
      (o ++ o2, c, b)
    | (c, b, none) =>
      -- outer body stmt 2: echo m
      let o := o ++ [200]
      match loopAfterStmt c b with
      | (c, b, some broken) =>
        if broken then (o, c, b) else
        let (o2, c, b) := outerLoop isBreak args is c b
        (o ++ o2, c, b)
      | (c, b, none) =>
        let (o2, c, b) := outerLoop isBreak args is c b
        (o ++ o2, c, b)

def loopSim (isBreak : Bool) (args : List Bytes) : List Nat :=
  (outerLoop isBreak args [1, 2] 0 0).1 ++ [300]

/-! ### exit / return status parsing -/

inductive ExitRes where
  | code (c : Nat)       -- uint8(n)
  | invalid              -- "invalid exit status code", status 2
  | tooMany
  | last                 -- no argument: r.lastExit / 0
  deriving DecidableEq, Repr

def exitArgs (args : List Bytes) : Res ExitRes :=
  match args with
  | [] => .ok .last
  | [a] => match goAtoi a with
    | some n => .ok (.code (n % 256).toNat)
    | none => .ok .invalid
  | _ => .ok .tooMany

/-! ### flagParser -/

structure FP where
  current : Bytes
  remaining : List Bytes
  isNil : Bool              -- `p.remaining == nil`
  deriving DecidableEq, Repr

def FP.init (args : List Bytes) : FP := ⟨[], args, args.isEmpty⟩

def FP.more (p : FP) : Res (Bool × FP) :=
  if p.current ≠ [] then .ok (true, p) else
  if p.remaining.length = 0 then .ok (false, { p with remaining := [], isNil := true }) else
  match getN p.remaining 0 with
  | .panic => .panic
  | .ok arg =>
    if arg = [45, 45] then
      match sliceFromN p.remaining 1 with
      | .ok r => .ok (false, { p with remaining := r, isNil := false })
      | .panic => .panic
    else if arg.length = 0 then .ok (false, p)
    else match getN arg 0 with
      | .panic => .panic
      | .ok c => if c ≠ 45 ∧ c ≠ 43 then .ok (false, p) else .ok (true, p)

def FP.flag (p : FP) : Res (Bytes × FP) :=
  let first : Res (Bytes × FP) :=
    if p.current = [] then
      match getN p.remaining 0, sliceFromN p.remaining 1 with
      | .ok a, .ok r => .ok (a, { p with remaining := r, isNil := false })
      | _, _ => .panic
    else .ok (p.current, { p with current := [] })
  match first with
  | .panic => .panic
  | .ok (arg, p) =>
    if arg.length > 2 then
      match sliceToN arg 1, sliceFromN arg 2, sliceToN arg 2 with
      | .ok h, .ok t, .ok f => .ok (f, { p with current := h ++ t })
      | _, _, _ => .panic
    else .ok (arg, p)

def FP.value (p : FP) : Res (Bytes × FP) :=
  if p.remaining.length = 0 then .ok ([], p) else
  match getN p.remaining 0, sliceFromN p.remaining 1 with
  | .ok a, .ok r => .ok (a, { p with remaining := r, isNil := false })
  | _, _ => .panic

/-- Script operations of a flagParser client (the hook `VerifC28FlagParser`). -/
inductive FOp where
  | more | flag | value | args
  deriving DecidableEq, Repr

inductive FEv where
  | more (b : Bool)
  | flag (f : Bytes)
  | value (v : Bytes)
  | args (isNil : Bool) (a : List Bytes)
  deriving DecidableEq, Repr

/-- Raw execution of a script; `(trace, panicked)`. -/
def fpRun : FP → List FOp → List FEv × Bool
  | _, [] => ([], false)
  | p, .more :: ops =>
    match p.more with
    | .panic => ([], true)
    | .ok (b, p') => let (t, k) := fpRun p' ops; (.more b :: t, k)
  | p, .flag :: ops =>
    match p.flag with
    | .panic => ([], true)
    | .ok (f, p') => let (t, k) := fpRun p' ops; (.flag f :: t, k)
  | p, .value :: ops =>
    match p.value with
    | .panic => ([], true)
    | .ok (v, p') => let (t, k) := fpRun p' ops; (.value v :: t, k)
  | p, .args :: ops =>
    let (t, k) := fpRun p ops; (.args p.isNil p.remaining :: t, k)

/-- The client protocol every caller in `interp` follows: `flag()` is only called when the call
    immediately before it was a `more()` that returned true.  `last` says whether that is the
    case at this point of the script. -/
def fpObeys : FP → Bool → List FOp → Bool
  | _, _, [] => true
  | p, _, .more :: ops =>
    match p.more with
    | .panic => true
    | .ok (b, p') => fpObeys p' b ops
  | p, last, .flag :: ops =>
    last && match p.flag with
      | .panic => true
      | .ok (_, p') => fpObeys p' false ops
  | p, _, .value :: ops =>
    match p.value with
    | .panic => true
    | .ok (_, p') => fpObeys p' false ops
  | p, _, .args :: ops => fpObeys p false ops

/-! ### interp.Params (the `set` builtin, and the option to `New`) -/

/-- `posixOptsTable`: one-character flags (a space for pipefail) and names. -/
def posixFlags : List UInt8 := [97, 101, 110, 102, 117, 120, 32]

def posixNames : List Bytes :=
  ["allexport", "errexit", "noexec", "noglob", "nounset", "xtrace", "pipefail"].map bytesOfString

def findIdx {α : Type} [DecidableEq α] : List α → α → Nat → Option Nat
  | [], _, _ => none
  | x :: xs, a, i => if x = a then some i else findIdx xs a (i + 1)

structure PState where
  opts : List Bool                  -- the seven POSIX options
  params : Option (List Bytes)      -- `some` when r.Params was assigned
  listings : Nat                    -- number of option listings printed
  deriving DecidableEq, Repr

inductive PRes where
  | ok (s : PState)
  | err (what : Bytes)              -- "invalid option: %q"
  | panic
  | outOfFuel
  deriving DecidableEq, Repr

/-- The loop of `Params`.  `stdoutSet` is `r.stdout != nil`: printing through a nil writer would be
    a nil-pointer panic (it was reachable through `New(Params("-o"))` before fix a1547ff). -/
def paramsLoop : Nat → Bool → FP → PState → PRes
  | 0, _, _, _ => .outOfFuel
  | fuel + 1, stdoutSet, fp, st =>
    match fp.more with
    | .panic => .panic
    | .ok (false, fp) =>
      -- after the loop: `if args := fp.args(); args != nil { r.Params = args }`
      if fp.isNil then .ok st else .ok { st with params := some fp.remaining }
    | .ok (true, fp) =>
      match fp.flag with
      | .panic => .panic
      | .ok (flag, fp) =>
        if flag = [45] ∨ flag = [43] then
          if fp.remaining.length > 0 then .ok { st with params := some fp.remaining } else .ok st
        else
        match getN flag 0, getN flag 1 with        -- flag[0], flag[1]
        | .ok f0, .ok f1 =>
          let enable := f0 = 45
          if f1 ≠ 111 then
            match findIdx posixFlags f1 0 with
            | none => .err flag
            | some i => paramsLoop fuel stdoutSet fp { st with opts := st.opts.set i enable }
          else
            match fp.value with
            | .panic => .panic
            | .ok (value, fp) =>
              if value = [] then
                if stdoutSet then paramsLoop fuel stdoutSet fp { st with listings := st.listings + 1 }
                else .panic
              else
                match findIdx posixNames value 0 with
                | none => .err value
                | some i => paramsLoop fuel stdoutSet fp { st with opts := st.opts.set i enable }
        | _, _ => .panic

def argsSize (l : List Bytes) : Nat := (l.map fun a => a.length + 1).sum

def fpSize (fp : FP) : Nat := fp.current.length + argsSize fp.remaining

/-- `Params(args...)` on a Runner made by `New`: `r.stdout` is never nil there (New presets
    `io.Discard` before it applies its options — fix a1547ff — and `StdIO` maps nil to `io.Discard`),
    so `stdoutSet` is true.  (`paramsLoop … false …` only describes a `Runner` literal that did not
    come from `New`, which the package documents as misuse.) -/
def params (opts : List Bool) (args : List Bytes) : PRes :=
  paramsLoop (argsSize args + 1) true (FP.init args) ⟨opts, none, 0⟩

/-! ### wait -/

inductive WaitRes where
  | badFlag                 -- status 2
  | all                     -- no arguments: wait for everything, status 0
  | notChild (k : Nat)      -- k-th argument is not a child; status 1
  | waited (pids : List Nat)
  deriving DecidableEq, Repr

def cutPrefixG : Bytes → Option Bytes
  | 103 :: r => some r
  | _ => none

/-- `arg, ok := strings.CutPrefix(arg, "g")`. -/
def waitCut (a : Bytes) : Bool × Bytes :=
  match cutPrefixG a with
  | some r => (true, r)
  | none => (false, a)

def waitArgs (nprocs : Nat) : List Bytes → Nat → List Nat → Res WaitRes
  | [], _, acc => .ok (.waited acc.reverse)
  | a :: rest, k, acc =>
    if !(waitCut a).1 ∨ atoiLoose (waitCut a).2 ≤ 0 ∨ atoiLoose (waitCut a).2 > (nprocs : Int) then
      .ok (.notChild k)
    else match getI (List.range nprocs) (atoiLoose (waitCut a).2 - 1) with      -- r.bgProcs[pid-1]
      | .panic => .panic
      | .ok i => waitArgs nprocs rest (k + 1) (i :: acc)

def wait (nprocs : Nat) (args : List Bytes) : Res WaitRes :=
  match (FP.init args).more with
  | .panic => .panic
  | .ok (true, _) => .ok .badFlag        -- every flag is rejected
  | .ok (false, _) =>
    if args.length = 0 then .ok .all else waitArgs nprocs args 0 []

/-! ### getopts -/

structure GState where
  argidx : Nat
  runeidx : Nat
  deriving DecidableEq, Repr

structure GOut where
  opt : Nat
  optarg : List Nat
  done : Bool
  deriving DecidableEq, Repr

def indexRune : List Nat → Nat → Nat → Option Nat
  | [], _, _ => none
  | x :: xs, r, i => if x = r then some i else indexRune xs r (i + 1)

def gDone : GOut := ⟨63, [], true⟩

/-- `i >= 0 && i+1 < len(optstr) && optstr[i+1] == ':'` with `i := strings.IndexRune(optstr, opt)`.
    Go tests the *byte* after the first byte of the rune, so a multi-byte option rune never takes
    an argument. -/
def needsArg (optstr : List Nat) (opt : Nat) : Bool :=
  match indexRune optstr opt 0 with
  | some i => decide (opt < 128) && decide (i + 1 < optstr.length) && (optstr[i + 1]? == some 58)
  | none => false

/-- `if g.runeidx >= len(opts) { g.runeidx = 0 }`: a stale rune cursor (the argument vector changed
    since the previous call) starts the word over. -/
def gRuneIdx (runeidx : Nat) (opts : List Nat) : Nat :=
  if runeidx ≥ opts.length then 0 else runeidx

/-- The part of `getopts.next` after the cursor repair: `opt = opts[g.runeidx]` and the rest. -/
def gstep (g : GState) (optstr : List Nat) (args : List (List Nat)) (opts : List Nat) :
    Res (GState × GOut) :=
  match getN opts g.runeidx with               -- opts[g.runeidx]
  | .panic => .panic
  | .ok opt =>
    if needsArg optstr opt then
      if g.runeidx + 1 < opts.length then
        match sliceFromN opts (g.runeidx + 1) with
        | .panic => .panic
        | .ok oa => .ok (⟨g.argidx + 1, 0⟩, ⟨opt, oa, false⟩)
      else if g.argidx + 1 < args.length then
        match getN args (g.argidx + 1) with
        | .panic => .panic
        | .ok oa => .ok (⟨g.argidx + 2, 0⟩, ⟨opt, oa, false⟩)
      else .ok (⟨g.argidx + 1, 0⟩, ⟨58, [opt], false⟩)
    else
      let g' : GState :=
        if g.runeidx + 1 < opts.length then ⟨g.argidx, g.runeidx + 1⟩ else ⟨g.argidx + 1, 0⟩
      if (indexRune optstr opt 0).isNone then .ok (g', ⟨63, [opt], false⟩)
      else .ok (g', ⟨opt, [], false⟩)

/-- `getopts.next`. -/
def gnext (g : GState) (optstr : List Nat) (args : List (List Nat)) : Res (GState × GOut) :=
  if args.length = 0 ∨ g.argidx ≥ args.length then .ok (g, gDone) else
  match getN args g.argidx with
  | .panic => .panic
  | .ok arg =>
    if arg.length < 2 then .ok (g, gDone) else
    match getN arg 0 with
    | .panic => .panic
    | .ok a0 =>
    if a0 ≠ 45 then .ok (g, gDone) else
    match getN arg 1 with
    | .panic => .panic
    | .ok a1 =>
    if a1 = 45 then .ok (g, gDone) else
    match sliceFromN arg 1 with
    | .panic => .panic
    | .ok opts =>
    gstep ⟨g.argidx, gRuneIdx g.runeidx opts⟩ optstr args opts

/-- The cursor synchronisation of `case "getopts"` with the shell variable OPTIND. -/
def gsync (g : GState) (optind : Int) : GState :=
  if optind - 1 ≠ (g.argidx : Int) then
    ⟨((if optind < 1 then 1 else optind) - 1).toNat, 0⟩
  else g

structure GCall where
  optind : Int               -- value of $OPTIND when the builtin runs
  optstr : List Nat
  args : List (List Nat)
  deriving DecidableEq, Repr

def gcall (g : GState) (c : GCall) : Res (GState × GOut) :=
  gnext (gsync g c.optind) c.optstr c.args

/-- A sequence of `getopts` calls; the final cursor, or a panic. -/
def grun : GState → List GCall → Res GState
  | g, [] => .ok g
  | g, c :: cs =>
    match gcall g c with
    | .panic => .panic
    | .ok (g', _) => grun g' cs

/-- The local `optind` of `case "getopts"` after the first `if` (clamped only inside it). -/
def optindLocal (g : GState) (optind : Int) : Int :=
  if optind - 1 ≠ (g.argidx : Int) ∧ optind < 1 then 1 else optind

/-- The value `case "getopts"` leaves in OPTIND (`g` before, `g'` after the call). -/
def optindAfter (g : GState) (optind : Int) (g' : GState) : Int :=
  if optindLocal g optind - 1 ≠ (g'.argidx : Int) then (g'.argidx : Int) + 1 else optind

/-! ### pushd / popd / dirs -/

structure DState where
  dir : Bytes                -- r.Dir
  stack : List Bytes         -- r.dirStack (bottom first)
  deriving DecidableEq, Repr

inductive DOp where
  | pushd (n : Bool) (args : List Bytes)     -- after stripping a leading "-n"
  | popd (n : Bool) (args : List Bytes)
  | cd (path : Bytes)
  | dirs
  deriving DecidableEq, Repr

/-- `changeDir` on a file system given by the set of existing (absolute, clean) directories;
    every path the harness uses is absolute or exists nowhere. -/
def changeDir (fs : List Bytes) (path : Bytes) : Option Bytes :=
  if path = [] then none else if fs.contains path then some path else none

def dirsLine (stack : List Bytes) : Bytes :=
  let rec go : List Bytes → Bytes
    | [] => []
    | [d] => d
    | d :: rest => d ++ [32] ++ go rest
  go stack.reverse ++ [10]

/-- `swap()` of `pushd`. -/
def swapTop (stack : List Bytes) : Res (List Bytes × Bytes) :=
  let n : Int := stack.length
  match getI stack (n - 1), getI stack (n - 2) with
  | .ok oldtop, .ok top =>
    match setI stack (n - 1) top with
    | .panic => .panic
    | .ok s1 =>
      match setI s1 (n - 2) oldtop with
      | .panic => .panic
      | .ok s2 => .ok (s2, top)
  | _, _ => .panic

/-- One directory-stack builtin: new state, exit code, output. -/
def dstep (fs : List Bytes) (s : DState) : DOp → Res (DState × Nat × Bytes)
  | .dirs => .ok (s, 0, dirsLine s.stack)
  | .cd path =>
    match changeDir fs path with
    | none => .ok (s, 1, [])
    | some d => .ok ({ s with dir := d }, 0, [])
  | .pushd n args =>
    let change := !n
    match args with
    | [] =>
      if !change then .ok (s, 0, []) else
      if s.stack.length < 2 then .ok (s, 1, []) else
      match swapTop s.stack with
      | .panic => .panic
      | .ok (st, newtop) =>
        match changeDir fs newtop with
        | none => .ok ({ s with stack := st }, 1, [])
        | some d => .ok (⟨d, st⟩, 0, dirsLine st)
    | [a] =>
      if change then
        match changeDir fs a with
        | none => .ok (s, 1, [])
        | some d => let st := s.stack ++ [d]; .ok (⟨d, st⟩, 0, dirsLine st)
      else
        match swapTop (s.stack ++ [a]) with
        | .panic => .panic
        | .ok (st, _) => .ok ({ s with stack := st }, 0, dirsLine st)
    | _ => .ok (s, 2, [])
  | .popd n args =>
    let change := !n
    match args with
    | [] =>
      if s.stack.length < 2 then .ok (s, 1, []) else
      let len : Int := s.stack.length
      match getI s.stack (len - 1), sliceToI s.stack (len - 1) with
      | .ok oldtop, .ok st =>
        let len' : Int := st.length
        if change then
          match getI st (len' - 1) with
          | .panic => .panic
          | .ok newtop =>
            match changeDir fs newtop with
            | none => .ok ({ s with stack := st }, 1, [])
            | some d => .ok (⟨d, st⟩, 0, dirsLine st)
        else
          match setI st (len' - 1) oldtop with
          | .panic => .panic
          | .ok st' => .ok ({ s with stack := st' }, 0, dirsLine st')
      | _, _ => .panic
    | _ => .ok (s, 2, [])

def drun (fs : List Bytes) : DState → List DOp → Res (DState × List (Nat × Bytes))
  | s, [] => .ok (s, [])
  | s, op :: ops =>
    match dstep fs s op with
    | .panic => .panic
    | .ok (s', code, out) =>
      match drun fs s' ops with
      | .panic => .panic
      | .ok (s'', tr) => .ok (s'', (code, out) :: tr)

/-! ### `${s:o:l}` and `${a[@]:o:l}` -/

/-- `slicePos` of `paramExp` / `sliceElems`. -/
def slicePos (len : Nat) (n : Int) : Int :=
  if n < 0 then
    let m := (len : Int) + n
    if m < 0 then (len : Int) else m
  else if n > (len : Int) then (len : Int) else n

/-- `if pe.Slice.Offset != nil { rs = rs[slicePos(sliceOffset):] }`. -/
def sliceOff {α : Type} (l : List α) : Option Int → Res (List α)
  | none => .ok l
  | some o => sliceFromI l (slicePos l.length o)

/-- `if pe.Slice.Length != nil { rs = rs[:slicePos(sliceLen)] }` (on the already shortened list). -/
def sliceLen {α : Type} (l : List α) : Option Int → Res (List α)
  | none => .ok l
  | some n => sliceToI l (slicePos l.length n)

/-- String slicing in `paramExp` (`callVarInd` branch): runes of the value, optional offset and
    length as already evaluated integers.  `none` is the error "substring expression < 0"
    (`sliceLen < 0 && len(rs)+sliceLen < 0`, tested after the offset was applied). -/
def sliceStr (rs : List Nat) (off len : Option Int) : Res (Option (List Nat)) :=
  match sliceOff rs off with
  | .panic => .panic
  | .ok rs1 =>
    match len with
    | some l =>
      if l < 0 ∧ (rs1.length : Int) + l < 0 then .ok none
      else match sliceLen rs1 len with
        | .panic => .panic
        | .ok r => .ok (some r)
    | none => .ok (some rs1)

/-- Go's `slices.BinarySearch` loop on an ascending list: smallest position whose element is
    not less than the target. -/
def bsearch (x : List Int) (target : Int) : Nat → Nat → Nat → Res Nat
  | 0, i, _ => .ok i
  | fuel + 1, i, j =>
    if i < j then
      let h := (i + j) / 2
      match getN x h with
      | .panic => .panic
      | .ok xh => if xh < target then bsearch x target fuel (h + 1) j else bsearch x target fuel i h
    else .ok i

/-- The sparse-array offset adjustment of `sliceElems` (`last` = the maximum index). -/
def sparseOffset (o last : Int) : Int :=
  if o < 0 then (if o + (last + 1) < 0 then last + 1 else o + (last + 1)) else o

/-- The offset half of `sliceElems`. -/
def sliceElemsOff {α : Type} (elems : List α) (indexes : List Int) : Option Int → Res (List α)
  | none => .ok elems
  | some o =>
    if indexes.length > 0 then
      match getI indexes ((indexes.length : Int) - 1) with
      | .panic => .panic
      | .ok last =>
        match bsearch indexes (sparseOffset o last) (indexes.length + 1) 0 indexes.length with
        | .panic => .panic
        | .ok pos => sliceFromN elems pos
    else sliceFromI elems (slicePos elems.length o)

/-- `sliceElems` after the optional `$0` has been prepended (`positional`): `indexes` is empty for
    dense arrays and positional parameters, else it has one ascending entry per element. -/
def sliceElems {α : Type} (elems : List α) (indexes : List Int) (off len : Option Int) : Res (List α) :=
  match sliceElemsOff elems indexes off with
  | .panic => .panic
  | .ok e1 => sliceLen e1 len

/-! ### arithmetic l-values and associative subscripts -/

/-- The shapes of word parts that matter to `Word.Lit()` and `isArithName`. -/
inductive Part where
  | lit (v : Bytes)
  | nakedIndex (name : Bytes)      -- `a[i]` inside arithmetic: ParamExp{Short, Param, Index}
  | other
  deriving DecidableEq, Repr

inductive AExpr where
  | word (parts : List Part)
  | binary | unary | paren | flags
  deriving DecidableEq, Repr

def isNameStart (b : UInt8) : Bool :=
  (65 ≤ b && b ≤ 90) || (97 ≤ b && b ≤ 122) || b = 95

def isNameChar (b : UInt8) : Bool := isNameStart b || (48 ≤ b && b ≤ 57)

/-- `syntax.ValidName`. -/
def validName : Bytes → Bool
  | [] => false
  | b :: r => isNameStart b && r.all isNameChar

/-- `syntax.isArithName`: what the parser accepts to the left of `++ -- = += …`. -/
def isArithName : AExpr → Bool
  | .word [.lit v] => validName v
  | .word [.nakedIndex _] => true
  | _ => false

/-- What the parser accepts as operand of a *prefix* `++`/`--`: it only checks that a literal
    token follows; the operand is then whatever `arithmExprValue` returns — a literal word, `a[i]`,
    or either of them with a postfix `++`/`--` (a `UnaryArithm`). -/
def isPrefixOperand : AExpr → Bool
  | .word [.lit v] => !v.isEmpty
  | .word [.nakedIndex _] => true
  | .unary => true
  | _ => false

def litOf : Part → Option Bytes
  | .lit v => some v
  | _ => none

/-- `Word.Lit()`: the concatenation of the parts when all are literals, else "". -/
def wordLit : List Part → Bytes
  | [] => []
  | p :: rest =>
    match litOf p with
    | none => []
    | some v => if rest.all (fun q => (litOf q).isSome) then v ++ wordLit rest else []

/-- `nodeLit(expr.X)`: the literal of a `*syntax.Word`, "" for any other node. -/
def nodeLit : AExpr → Bytes
  | .word parts => wordLit parts
  | _ => []

/-- The l-value of `++ -- = op=` in `expand.Arithm` / `assgnArit`: `name := nodeLit(X)`; an empty
    name (`a[1]++`, `++x++`) is the error "unsupported assignment target" (`none`), otherwise the
    variable is looked up and set by name.  (`Runner.lookupVar("")` no longer panics either: it
    returns the unset variable.) -/
def arithLvalue (x : AExpr) : Res (Option Bytes) :=
  let name := nodeLit x
  if name = [] then .ok none else .ok (some name)

/-- `varInd` / `assignElem` / `assignVal` on an associative array with a subscript that is not
    `@`/`*`: `word, ok := idx.(*syntax.Word)`; a subscript the parser read as arithmetic (or a
    missing one, as in `declare -A m=(a b c)`) is the error "unsupported associative array
    subscript" (`false`), never a failed assertion (fix 443024b). -/
def assocIndex (idx : AExpr) : Res Bool :=
  match idx with
  | .word _ => .ok true
  | _ => .ok false

/-! ### namerefs: `expand.Variable.Resolve` and the `Kind` switch of `Runner.assignVal` -/

/-- `expand.ValueKind`. -/
inductive VKind where
  | unknown | string | nameRef | indexed | assoc | keepValue
  deriving DecidableEq, Repr

/-- The part of `expand.Variable` that `Resolve` looks at. -/
structure Var where
  kind : VKind
  str : Bytes
  deriving DecidableEq, Repr

/-- `maxNameRefDepth`. -/
def maxNameRefDepth : Nat := 100

/-- The loop of `Variable.Resolve`: follow namerefs at most `fuel` times; a non-nameref is returned
    at once, and when the budget is used up (cycle, self reference, chain of 100 or more) the result
    is the zero `Variable{}`, **not** the nameref last looked at. -/
def resolveLoop (env : Bytes → Var) : Nat → Bytes → Var → Bytes × Var
  | 0, name, _ => (name, ⟨.unknown, []⟩)
  | fuel + 1, name, v =>
    if v.kind ≠ .nameRef then (name, v) else resolveLoop env fuel v.str (env v.str)

def resolve (env : Bytes → Var) (v : Var) : Bytes × Var :=
  resolveLoop env maxNameRefDepth [] v

/-- How the callers use it (`Runner.cmd`, `assignVal`, `unsetElem`, `paramExp`):
    `if n, v := prev.Resolve(env); n != "" { name, prev = n, v }` — with an empty resolved name the
    *unresolved* variable is kept. -/
def prevFor (env : Bytes → Var) (v : Var) : Var :=
  if (resolve env v).1 ≠ [] then (resolve env v).2 else v

/-- The `switch prev.Kind` of `Runner.assignVal` for an appending array assignment `a+=(…)`: its
    `default:` branch is `panic("unexpected conversion of kind %d")`.  `prev` is `prevFor env v`; a
    nameref that did not resolve (empty target) is treated like an unset variable. -/
def appendKind : VKind → Res Unit
  | .unknown | .nameRef | .string | .indexed | .assoc => .ok ()   -- NameRef arm: fix 3a8d3f5
  | .keepValue => .panic

end ShVerif.C28
