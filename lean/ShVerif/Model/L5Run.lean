/-
  L5 — interpreter skeleton ("ShRun").  Core Lean only.

  A big-step, fuel-indexed model of the control-flow machinery of mvdan/sh's `interp.Runner`:
  `Runner.stmt`, `stmtSync`, `cmd` (every command kind of the skeleton), `stmts`,
  `loopStmtsBroken`, `call`, `trapCallback`, `subshell`, `Run` and the builtins
  `true false : exit return break continue set trap echo [` of `interp/builtin.go`.

  Expansions and external commands are opaque: words are literals, `$x` and `$?`; the only command
  substitution is `x=$(prog)`; loop conditions are ordinary commands (usually `[ "$x" = lit ]`).

  The model mirrors the Go code *branch by branch, including its quirks* (fields that `subshell`
  does not copy, `break` taking effect only when control is back in `loopStmtsBroken`, `stop()`
  being disabled while a trap runs …).  What bash does is
  the business of `ShVerif.Model.L5Bash`, not of this file.
-/
namespace ShVerif.L5

/-- Byte strings (names, literals, output) as lists of byte values. -/
abbrev Str := List Nat

/-- Decimal rendering of an exit status (always < 256) as bytes. -/
def decStr (n : Nat) : Str :=
  if n < 10 then [48 + n]
  else if n < 100 then [48 + n / 10, 48 + n % 10]
  else [48 + n / 100, 48 + (n / 10) % 10, 48 + n % 10]

/-- A word part: literal text, `$x`, `$?`. -/
inductive Part
  | lit (s : Str)
  | var (x : Str)
  | status
  deriving DecidableEq, Repr, Inhabited

abbrev Word := List Part

/-- `case` item terminators `;;`, `;&`, `;;&`. -/
inductive CaseOp
  | brk | fall | resume
  deriving DecidableEq, Repr, Inhabited

/-- `case` patterns of the skeleton: a literal or `*`. -/
inductive Pat
  | lit (s : Str)
  | star
  deriving DecidableEq, Repr, Inhabited

mutual
  /-- Commands (the `syntax.Command` kinds of the skeleton; simple commands are already
      classified by their first word, as `Runner.call` would). -/
  inductive Cmd
    | tru                                   -- `true`, `:`
    | fls                                   -- `false`
    | exit (n : Option Nat)                 -- `exit`, `exit n`
    | ret (n : Option Nat)                  -- `return`, `return n`
    | brk (n : Option Int)                  -- `break`, `break n`
    | cont (n : Option Int)                 -- `continue`, `continue n`
    | setE (on : Bool)                      -- `set -e` / `set +e`
    | setPF (on : Bool)                     -- `set -o pipefail` / `set +o pipefail`
    | trapExit (body : Prog)                -- `trap 'body' EXIT`   (empty body: `trap - EXIT`, `trap '' EXIT`)
    | trapErr (body : Prog)                 -- `trap 'body' ERR`
    | echo (w : Word)                       -- `echo "word"`
    | test (x : Str) (neg : Bool) (s : Str) -- `[ "$x" = s ]` / `[ "$x" != s ]`
    | assign (x : Str) (w : Word)           -- `x=word`
    | assignSub (x : Str) (p : Prog)        -- `x=$(prog)`
    | echoSub (w1 : Word) (p : Prog) (w2 : Word)  -- `echo "w1$(prog)w2"`: a substitution in an argument
    | call (f : Str)                        -- `f` (function if defined, else command not found)
    | block (p : Prog)                      -- `{ p; }`
    | subsh (p : Prog)                      -- `( p )`
    | and (x y : Stmt)                      -- `x && y`
    | or (x y : Stmt)                       -- `x || y`
    | pipe (x y : Stmt)                     -- `x | y`
    | ifc (c t : Prog) (e : Else)           -- `if c; then t; …; fi`
    | whl (u : Bool) (c b : Prog)           -- `while`/`until c; do b; done`
    | forc (x : Str) (items : List Str) (b : Prog)  -- `for x in items; do b; done`
    | case (w : Word) (items : Items)       -- `case w in … esac`
    | fn (f : Str) (body : Stmt)            -- `f() body`
  /-- Statements: optional `!` and a command (no redirections, no `&`). -/
  inductive Stmt
    | mk (neg : Bool) (c : Cmd)
  /-- Statement lists. -/
  inductive Prog
    | nil
    | cons (s : Stmt) (rest : Prog)
  /-- The `Else` chain of an `if`. -/
  inductive Else
    | none
    | els (p : Prog)
    | elif (c t : Prog) (e : Else)
  /-- `case` items. -/
  inductive Items
    | nil
    | cons (pats : List Pat) (body : Prog) (op : CaseOp) (rest : Items)
end

instance : Inhabited Prog := ⟨.nil⟩
instance : Inhabited Cmd := ⟨.tru⟩
instance : Inhabited Stmt := ⟨.mk false .tru⟩

def Prog.isNil : Prog → Bool
  | .nil => true
  | _ => false

def Prog.ofList : List Stmt → Prog
  | [] => .nil
  | s :: r => .cons s (Prog.ofList r)

def Cmd.isAndOr : Cmd → Bool
  | .and _ _ => true
  | .or _ _ => true
  | _ => false

/-- `exitStatus` of `interp/api.go` (the `fatalExit`/`err` fields are never set on the skeleton:
    no handler errors, no context cancellation). `code` is a `uint8`. -/
structure Exit where
  code : Nat := 0
  returning : Bool := false
  exiting : Bool := false
  deriving DecidableEq, Repr, Inhabited

def Exit.ok (e : Exit) : Bool := e.code == 0

/-- `exitStatus.clear`. -/
def Exit.clear (e : Exit) : Exit :=
  if e.returning || e.exiting then e else { e with code := 0 }

/-- The `Runner` fields the skeleton touches. -/
structure St where
  exit : Exit := {}
  lastExit : Exit := {}
  lastExpandExit : Exit := {}
  noErrExit : Bool := false
  inLoop : Bool := false
  inFunc : Bool := false
  handlingTrap : Bool := false
  breakEnclosing : Int := 0
  contnEnclosing : Int := 0
  errexit : Bool := false
  pipefail : Bool := false
  callbackExit : Prog := .nil
  callbackErr : Prog := .nil
  vars : List (Str × Str) := []
  funcs : List (Str × Stmt) := []
  out : Str := []

instance : Inhabited St := ⟨{}⟩

def lookupVar (vs : List (Str × Str)) (x : Str) : Str :=
  match vs with
  | [] => []
  | (k, v) :: r => if k = x then v else lookupVar r x

def lookupFn (fs : List (Str × Stmt)) (f : Str) : Option Stmt :=
  match fs with
  | [] => none
  | (k, v) :: r => if k = f then some v else lookupFn r f

def expandPart (vars : List (Str × Str)) (last : Nat) : Part → Str
  | .lit s => s
  | .var x => lookupVar vars x
  | .status => decStr last

def expandWord (vars : List (Str × Str)) (last : Nat) : Word → Str
  | [] => []
  | p :: r => expandPart vars last p ++ expandWord vars last r

/-- Command substitution strips all trailing newlines. -/
def stripNl (s : Str) : Str :=
  (s.reverse.dropWhile (· = 10)).reverse

def patMatches (str : Str) : Pat → Bool
  | .lit s => s = str
  | .star => true

/-- `Runner.stop` (no context cancellation, no `noexec`). -/
def stop (s : St) : Bool :=
  !s.handlingTrap && (s.exit.returning || s.exit.exiting)

/-- `Runner.subshell`: what is copied (`exit`, `lastExit`, options, functions, variables) and —
    by omission — what is *not* (`noErrExit`, `inLoop`, `inFunc`, `breakEnclosing`,
    `contnEnclosing`, `handlingTrap`, the trap callbacks). -/
def subshellOf (s : St) (out : Str) : St :=
  { exit := s.exit, lastExit := s.lastExit, errexit := s.errexit, pipefail := s.pipefail,
    vars := s.vars, funcs := s.funcs, out := out }

def uint8 (n : Nat) : Nat := n % 256

/-- The builtins (`Runner.builtin`) on the skeleton's argument shapes. -/
def builtinExit (s : St) (n : Option Nat) : Exit :=
  match n with
  | none => { s.lastExit with exiting := true }
  | some k => { code := uint8 k, exiting := true }

def builtinRet (s : St) (n : Option Nat) : Exit :=
  if !s.inFunc then { code := 1 }
  else match n with
    | none => { returning := true }
    | some k => { code := uint8 k, returning := true }

def optInt (n : Option Int) : Int :=
  match n with
  | none => 1
  | some k => k

/-- `Runner.stmts`: `for _, stmt := range stmts { r.stmt(ctx, stmt) }` — a Go loop, so all
    statements of one list run at the same recursion depth. -/
def foldStmts (f : Stmt → St → Option St) : Prog → St → Option St
  | .nil, s => some s
  | .cons st rest, s =>
    match f st s with
    | none => none
    | some s1 => foldStmts f rest s1

/-- The loop inside `Runner.loopStmtsBroken`; the boolean is its result. -/
def foldBody (f : Stmt → St → Option St) : Prog → St → Option (St × Bool)
  | .nil, s => some (s, false)
  | .cons st rest, s =>
    match f st s with
    | none => none
    | some s1 =>
      if s1.contnEnclosing > 0 then
        some ({ s1 with contnEnclosing := s1.contnEnclosing - 1 }, s1.contnEnclosing - 1 > 0)
      else if s1.breakEnclosing > 0 then
        some ({ s1 with breakEnclosing := s1.breakEnclosing - 1 }, true)
      else foldBody f rest s1

/-- `Runner.loopStmtsBroken`: `inLoop` is set and restored by `defer`. -/
def loopStmtsBroken (f : Stmt → St → Option St) (b : Prog) (s : St) : Option (St × Bool) :=
  match foldBody f b { s with inLoop := true } with
  | none => none
  | some (s1, br) => some ({ s1 with inLoop := s.inLoop }, br)

/-- The `for _, field := range items` loop of `ForClause`/`WordIter`, with its `r.stop(ctx)` check
    at the top of each iteration. -/
def forLoop (f : Stmt → St → Option St) (x : Str) (b : Prog) : List Str → St → Option St
  | [], s => some s
  | it :: rest, s =>
    if stop s then some s else
    match loopStmtsBroken f b { s with vars := (x, it) :: s.vars } with
    | none => none
    | some (s1, br) => if br then some s1 else forLoop f x b rest s1

/-- The loop over `cm.Items` of `CaseClause`. -/
def caseLoop (f : Stmt → St → Option St) (str : Str) : Bool → Items → St → Option St
  | _, .nil, s => some s
  | runNext, .cons pats bodyp op rest, s =>
    if !runNext && !pats.any (patMatches str) then caseLoop f str runNext rest s
    else
      match foldStmts f bodyp s with
      | none => none
      | some s1 =>
        match op with
        | .fall => caseLoop f str true rest s1
        | .resume => caseLoop f str false rest s1
        | .brk => some s1

/-- What the model runs by recursion on the fuel: one constructor per recursive Go function
    (and the unbounded `while` loop). -/
inductive Task
  | stmt (s : Stmt)                -- `Runner.stmt` + `stmtSync`
  | cmd (c : Cmd)                  -- `Runner.cmd`
  | whl (u : Bool) (c b : Prog)    -- the `for !r.stop(ctx)` loop of `WhileClause`
  | trap (body : Prog)             -- `Runner.trapCallback`

/-- Big-step function; the fuel bounds the nesting depth of Go calls plus the number of `while`
    iterations; `none` = out of fuel. -/
def run : Nat → Task → St → Option St
  | 0, _, _ => none
  | n + 1, .stmt (.mk neg c), s =>
    if stop s then some s else
    -- `r.exit = exitStatus{}`; stmtSync: no redirections; `r.exit.ok() && st.Cmd != nil`
    match run n (.cmd c) { s with exit := {} } with
    | none => none
    | some s1 =>
      if neg then
        if s1.exit.ok then
          some { s1 with exit := { s1.exit with code := 1 }, lastExit := { s1.exit with code := 1 } }
        else some { s1 with exit := s1.exit.clear, lastExit := s1.exit.clear }
      else if c.isAndOr then some { s1 with lastExit := s1.exit }
      else if !s1.exit.ok && !s1.noErrExit then
        match run n (.trap s1.callbackErr) s1 with
        | none => none
        | some s2 =>
          if s2.errexit then
            some { s2 with exit := { s2.exit with exiting := true },
                           lastExit := { s2.exit with exiting := true } }
          else some { s2 with lastExit := s2.exit }
      else some { s1 with lastExit := s1.exit }
  | n + 1, .trap body, s =>
    if body.isNil then some s
    else if s.handlingTrap then some s
    else
      match foldStmts (fun st => run n (.stmt st)) body
              { s with handlingTrap := true, lastExit := s.exit } with
      | none => none
      | some s1 => some { s1 with exit := s.exit, lastExit := s.lastExit, handlingTrap := false }
  | n + 1, .whl u c b, s =>
    if stop s then some s else
    match foldStmts (fun st => run n (.stmt st)) c { s with noErrExit := true } with
    | none => none
    | some s1 =>
      let stopL := s1.exit.ok == u
      let s3 := { s1 with noErrExit := s.noErrExit, exit := s1.exit.clear }
      if stopL then some s3 else
      match loopStmtsBroken (fun st => run n (.stmt st)) b s3 with
      | none => none
      | some (s4, br) => if br then some s4 else run n (.whl u c b) s4
  | n + 1, .cmd c, s =>
    if stop s then some s else
    match c with
    | .block p => foldStmts (fun st => run n (.stmt st)) p s
    | .subsh p =>
      match foldStmts (fun st => run n (.stmt st)) p (subshellOf s s.out) with
      | none => none
      | some r2 => some { s with exit := { r2.exit with exiting := false }, out := r2.out }
    -- simple commands: `CallExpr` → `r.lastExpandExit = exitStatus{}` → `Runner.call` → builtin
    | .tru => some { s with lastExpandExit := {}, exit := {} }
    | .fls => some { s with lastExpandExit := {}, exit := { code := 1 } }
    | .exit k => some { s with lastExpandExit := {}, exit := builtinExit s k }
    | .ret k => some { s with lastExpandExit := {}, exit := builtinRet s k }
    | .brk k =>
      if !s.inLoop then some { s with lastExpandExit := {}, exit := {} }
      else some { s with lastExpandExit := {}, exit := {}, breakEnclosing := optInt k }
    | .cont k =>
      if !s.inLoop then some { s with lastExpandExit := {}, exit := {} }
      else some { s with lastExpandExit := {}, exit := {}, contnEnclosing := optInt k }
    | .setE on => some { s with lastExpandExit := {}, exit := {}, errexit := on }
    | .setPF on => some { s with lastExpandExit := {}, exit := {}, pipefail := on }
    | .trapExit b => some { s with lastExpandExit := {}, exit := {}, callbackExit := b }
    | .trapErr b => some { s with lastExpandExit := {}, exit := {}, callbackErr := b }
    | .echo w =>
      some { s with lastExpandExit := {}, exit := {},
                    out := s.out ++ (expandWord s.vars s.lastExit.code w ++ [10]) }
    | .test x neg v =>
      some { s with lastExpandExit := {},
                    exit := { code := if (lookupVar s.vars x == v) != neg then 0 else 1 } }
    | .assign x w =>
      -- no fields: assignments are applied; `if r.exit.ok() { r.exit = r.lastExpandExit }`
      some { s with lastExpandExit := {}, exit := {},
                    vars := (x, expandWord s.vars s.lastExit.code w) :: s.vars }
    | .assignSub x p =>
      match foldStmts (fun st => run n (.stmt st)) p (subshellOf s []) with
      | none => none
      | some r2 =>
        some { s with lastExpandExit := { r2.exit with exiting := false },
                      exit := { r2.exit with exiting := false },
                      vars := (x, stripNl r2.out) :: s.vars }
    | .echoSub w1 p w2 =>
      -- `r.fields(args...)` runs the substitution (→ `lastExpandExit`), then the `echo` builtin
      match foldStmts (fun st => run n (.stmt st)) p (subshellOf s []) with
      | none => none
      | some r2 =>
        some { s with lastExpandExit := { r2.exit with exiting := false }, exit := {},
                      out := s.out ++ (expandWord s.vars s.lastExit.code w1 ++ (stripNl r2.out ++
                        (expandWord s.vars s.lastExit.code w2 ++ [10]))) }
    | .call f =>
      match lookupFn s.funcs f with
      | some bodyS =>
        match run n (.stmt bodyS) { s with lastExpandExit := {}, inFunc := true } with
        | none => none
        | some s1 => some { s1 with inFunc := s.inFunc, exit := { s1.exit with returning := false } }
      | none => some { s with lastExpandExit := {}, exit := { code := 127 } }
    | .fn f bodyS => some { s with funcs := (f, bodyS) :: s.funcs }
    | .and x y =>
      match run n (.stmt x) { s with noErrExit := true } with
      | none => none
      | some s1 =>
        if s1.exit.ok then run n (.stmt y) { s1 with noErrExit := s.noErrExit }
        else some { s1 with noErrExit := s.noErrExit }
    | .or x y =>
      match run n (.stmt x) { s with noErrExit := true } with
      | none => none
      | some s1 =>
        if !s1.exit.ok then run n (.stmt y) { s1 with noErrExit := s.noErrExit }
        else some { s1 with noErrExit := s.noErrExit }
    | .pipe x y =>
      -- sequentialised: the left side runs in `r.subshell(true)` writing into a pipe nobody
      -- reads (skeleton stages never read stdin); the right side runs in the runner itself.
      match run n (.stmt x) (subshellOf s []) with
      | none => none
      | some r2 =>
        match run n (.stmt y) s with
        | none => none
        | some s1 =>
          if s1.pipefail && r2.exit.code != 0 && s1.exit.ok then
            some { s1 with exit := { r2.exit with exiting := false } }
          else some s1
    | .ifc c t e =>
      match foldStmts (fun st => run n (.stmt st)) c { s with noErrExit := true } with
      | none => none
      | some s1 =>
        let s2 := { s1 with noErrExit := s.noErrExit }
        if s2.exit.ok then foldStmts (fun st => run n (.stmt st)) t s2
        else
          let s3 := { s2 with exit := s2.exit.clear }
          match e with
          | .none => some s3
          -- `r.cmd(ctx, cm.Else)`: an `IfClause` with an empty condition for `else`
          | .els p => run n (.cmd (.ifc .nil p .none)) s3
          | .elif c2 t2 e2 => run n (.cmd (.ifc c2 t2 e2)) s3
    | .whl u c b => run n (.whl u c b) s
    | .forc x items b => forLoop (fun st => run n (.stmt st)) x b items s
    | .case w is =>
      caseLoop (fun st => run n (.stmt st)) (expandWord s.vars s.lastExit.code w) false is s

/-- `Runner.Run` on a whole file with a fresh runner: statements, `lastExit = exit`, the EXIT
    trap, and the returned status. -/
def runFile (fuel : Nat) (p : Prog) : Option (Str × Nat) :=
  match foldStmts (fun st => run fuel (.stmt st)) p {} with
  | none => none
  | some s =>
    let s1 := { s with lastExit := s.exit }
    match run fuel (.trap s1.callbackExit) s1 with
    | none => none
    | some s2 => some (s2.out, s2.exit.code)

end ShVerif.L5
