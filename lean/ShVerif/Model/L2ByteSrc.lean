/-
  L2 — the byte source of the mvdan/sh lexer (syntax/lexer.go: `Parser.rune`, `fill`, `peek`,
  `peekTwo`, `zshNumRange`, the `stopAt` prefix test of `next`, `newLit`, `endLit`;
  syntax/parser.go: `nextPos`, `errPass`, `reset`) over *chunk schedules*.

  Shared by C06 / C07 / C09 / C10.  Core Lean only.

  Representation.  Go's `(p.bs, p.bsp)` is kept as a zipper plus the two numbers Go itself keeps:
      p.bs        = back.reverse ++ front            len(p.bs) = blen
      p.bsp       = bsp      (normally = back.length; it exceeds len(p.bs) by one in exactly the two
                              states Go creates on purpose: the EOF position of `rune` (`p.bsp = len(p.bs)+1`) and `errPass`)
  so that `p.bs[p.bsp]` is the head of `front`, `p.bs[p.bsp:]` is `front`, and the bytes just
  before the cursor are the first elements of `back`.  `p.litBs` is kept reversed in `lit` (`none` = nil slice).
  The representation invariant is part of the refinement relation `R` of Proofs/C07.lean.

  The reader.  `pending` are the bytes the `io.Reader` has not delivered yet, `sched` the chunk
  lengths it will return on the next `Read` calls (each capped by the free buffer space and by the
  remaining data; `0` is a legal `(0, nil)` read; when the list is exhausted the reader returns as
  much as fits), `eofWith` says whether `io.EOF` is returned *together with* the last bytes
  (`iotest.DataErrReader`) or by a separate `(0, io.EOF)` read.  Only `io.EOF` is modelled as a
  read error.

  Every slice / index expression of the Go code that can go out of range returns `Fault.oob`.
-/
import ShVerif.Base.Hex
namespace ShVerif.L2

abbrev Byte := UInt8

def bufSize : Nat := 1024
def runeSelf : Nat := 0x80
def runeError : Nat := 0xFFFD
/-- `runeEOF = utf8.MaxRune + 1`, `escNewl = utf8.MaxRune + 2` -/
def runeEOF : Nat := 0x110000
def escNewl : Nat := 0x110001

inductive Fault where
  | oob (site : Nat)  -- Go run-time panic: index / slice bounds out of range (site = number below)
  | hang              -- `Read` on a zero-length buffer keeps answering `(0, nil)`: `fill` never returns
  | fuel              -- the model's own recursion budget ran out (proved unreachable)
deriving DecidableEq, Repr

abbrev M := Except Fault

/-! ## unicode/utf8 -/

/-- `first[b] & 7` and the accept range of the second byte; `none` for ASCII and invalid leads. -/
def lead (x : Nat) : Option (Nat × Nat × Nat) :=
  if 0xC2 ≤ x ∧ x ≤ 0xDF then some (2, 0x80, 0xBF)
  else if x = 0xE0 then some (3, 0xA0, 0xBF)
  else if x = 0xED then some (3, 0x80, 0x9F)
  else if 0xE1 ≤ x ∧ x ≤ 0xEF then some (3, 0x80, 0xBF)
  else if x = 0xF0 then some (4, 0x90, 0xBF)
  else if x = 0xF4 then some (4, 0x80, 0x8F)
  else if 0xF1 ≤ x ∧ x ≤ 0xF3 then some (4, 0x80, 0xBF)
  else none

def isCont (b : Byte) : Bool := 0x80 ≤ b.toNat && b.toNat ≤ 0xBF

/-- `utf8.DecodeRune` : rune and width. -/
def decodeRune : List Byte → Nat × Nat
  | [] => (runeError, 0)
  | b0 :: rest =>
    let x := b0.toNat
    if x < 0x80 then (x, 1) else
    match lead x with
    | none => (runeError, 1)
    | some (sz, lo, hi) =>
      match rest with
      | [] => (runeError, 1)
      | b1 :: rest2 =>
        if b1.toNat < lo ∨ hi < b1.toNat then (runeError, 1)
        else if sz = 2 then ((x % 32) * 64 + b1.toNat % 64, 2)
        else match rest2 with
          | [] => (runeError, 1)
          | b2 :: rest3 =>
            if !isCont b2 then (runeError, 1)
            else if sz = 3 then ((x % 16) * 4096 + (b1.toNat % 64) * 64 + b2.toNat % 64, 3)
            else match rest3 with
              | [] => (runeError, 1)
              | b3 :: _ =>
                if !isCont b3 then (runeError, 1)
                else ((x % 8) * 262144 + (b1.toNat % 64) * 4096 + (b2.toNat % 64) * 64
                        + b3.toNat % 64, 4)

/-- `utf8.FullRune` -/
def fullRune : List Byte → Bool
  | [] => false
  | b0 :: rest =>
    match lead b0.toNat with
    | none => true
    | some (sz, lo, hi) =>
      match rest with
      | [] => false
      | b1 :: rest2 =>
        if sz ≤ 2 then true
        else if b1.toNat < lo ∨ hi < b1.toNat then true
        else match rest2 with
          | [] => false
          | b2 :: rest3 =>
            if sz ≤ 3 then true
            else if !isCont b2 then true
            else match rest3 with
              | [] => false
              | _ :: _ => true

/-- `utf8.RuneLen` (−1 for surrogates and values above `utf8.MaxRune`, hence for both sentinels). -/
def runeLen (r : Nat) : Int :=
  if r < 0x80 then 1
  else if r < 0x800 then 2
  else if 0xD800 ≤ r ∧ r ≤ 0xDFFF then -1
  else if r < 0x10000 then 3
  else if r ≤ 0x10FFFF then 4
  else -1

/-- `utf8.EncodeRune` for `0 ≤ r ≤ utf8.MaxRune` (surrogates are written as U+FFFD) -/
def encodeRune (r : Nat) : List Byte :=
  if r < 0x80 then [UInt8.ofNat r]
  else if r < 0x800 then [UInt8.ofNat (0xC0 + r / 64), UInt8.ofNat (0x80 + r % 64)]
  else if 0xD800 ≤ r ∧ r ≤ 0xDFFF then [0xEF, 0xBF, 0xBD]
  else if r < 0x10000 then
    [UInt8.ofNat (0xE0 + r / 4096), UInt8.ofNat (0x80 + r / 64 % 64), UInt8.ofNat (0x80 + r % 64)]
  else
    [UInt8.ofNat (0xF0 + r / 262144), UInt8.ofNat (0x80 + r / 4096 % 64),
     UInt8.ofNat (0x80 + r / 64 % 64), UInt8.ofNat (0x80 + r % 64)]

/-- `utf8.AppendRune(nil, r)`: values above `utf8.MaxRune` are written as U+FFFD as well -/
def appendRune (r : Nat) : List Byte :=
  if r ≤ 0x10FFFF then encodeRune r else [0xEF, 0xBF, 0xBD]

/-! ## the reader -/

/-- The `readAgain` loop of `fill`: call `src.Read(buf)` with `len(buf) = cap` until it returns
    `n > 0` or an error.  Result: the chunk, whether `io.EOF` came with it, the undelivered
    bytes and the rest of the schedule.  One schedule entry is used per `Read` call. -/
def readLoop (cap : Nat) (eofWith : Bool) (pending : List Byte) :
    List Nat → M (List Byte × Bool × List Byte × List Nat)
  | [] =>
    match pending with
    | [] => pure ([], true, [], [])
    | _ :: _ =>
      if cap = 0 then throw .hang
      else
        let c := pending.take cap
        let rest := pending.drop cap
        pure (c, eofWith && rest.isEmpty, rest, [])
  | e :: es =>
    match pending with
    | [] => pure ([], true, [], es)
    | _ :: _ =>
      let k := min e cap
      if k = 0 then readLoop cap eofWith pending es
      else
        let c := pending.take k
        let rest := pending.drop k
        pure (c, eofWith && rest.isEmpty, rest, es)

/-! ## state -/

inductive Err where
  | utf8 (offs : Int) (line col : Nat)  -- "invalid UTF-8 encoding" raised inside `rune`
  | client                               -- any `posErr` / `checkLang` of the parser above
deriving DecidableEq, Repr

structure St where
  back : List Byte
  front : List Byte
  bsp : Nat
  blen : Nat
  pending : List Byte
  sched : List Nat
  eofWith : Bool
  offs : Nat
  line : Nat
  col : Nat
  r : Nat
  w : Nat
  readEOF : Bool
  readErr : Bool
  lit : Option (List Byte)
  openBq : Nat
  openBqDbl : Nat
  lastBqEsc : Nat
  err : Option Err
  stopPat : List Byte
  /-- ghost: upper bound of the number of unread bytes (recursion budget of `rune`) -/
  total : Nat
deriving Repr

/-- `Parser.reset()` followed by `p.src = r` -/
def init (input : List Byte) (sched : List Nat) (eofWith : Bool) (stopPat : List Byte := []) : St :=
  { back := [], front := [], bsp := 0, blen := 0, pending := input, sched, eofWith,
    offs := 0, line := 1, col := 1, r := 0, w := 0, readEOF := false, readErr := false,
    lit := none, openBq := 0, openBqDbl := 0, lastBqEsc := 0, err := none, stopPat,
    total := input.length }

namespace St

/-- `p.bsp++` -/
def advance (s : St) : St :=
  match s.front with
  | b :: f => { s with back := b :: s.back, front := f, bsp := s.bsp + 1 }
  | [] => { s with bsp := s.bsp + 1 }

def advanceN : Nat → St → St
  | 0, s => s
  | n + 1, s => advanceN n s.advance

/-- `p.litBs = append(p.litBs, bs...)` when `p.litBs != nil` (`bs` in source order) -/
def litPush (s : St) (bs : List Byte) : St :=
  match s.lit with
  | none => s
  | some l => { s with lit := some (bs.reverse ++ l) }

/-- `Parser.fill`: number of bytes read and the new state. -/
def fill (s : St) : M (Nat × St) :=
  if s.readEOF || s.r == runeEOF then pure (0, s)
  else if s.bsp > s.blen then throw (.oob 5)          -- left < 0 : p.readBuf[:left]
  else
    let offs := s.offs + s.bsp
    let left := s.front
    if s.readErr then
      -- n, err := 0, p.readErr (= io.EOF); p.bs = p.readBuf[:left] or nil
      pure (0, { s with offs, back := [], bsp := 0, blen := left.length })
    else do
      let (chunk, eof, pending, sched) ← readLoop (bufSize - left.length) s.eofWith s.pending s.sched
      pure (chunk.length,
        { s with offs, back := [], bsp := 0, front := left ++ chunk,
                 blen := left.length + chunk.length, pending, sched,
                 readErr := eof, readEOF := eof })

/-- `Parser.peek`; `runeSelf` when there is nothing more. -/
def peek (s : St) : M (Nat × St) := do
  let s ← if s.front.isEmpty then (fun x => x.2) <$> s.fill else pure s
  match s.front with
  | [] => pure (runeSelf, s)
  | b :: _ => pure (b.toNat, s)

/-- the loop of `Parser.peekTwo`: `for int(p.bsp+1) >= len(p.bs) { if p.fill() == 0 { break } }` -/
def peekTwoFill : Nat → St → M St
  | 0, _ => throw .fuel
  | fuel + 1, s =>
    match s.front with
    | _ :: _ :: _ => pure s
    | _ => do
      let (n, s') ← s.fill
      if n == 0 then pure s' else peekTwoFill fuel s'

/-- `Parser.peekTwo` -/
def peekTwo (s : St) : M (Nat × Nat × St) := do
  let s ← peekTwoFill 3 s
  match s.front with
  | [] => pure (runeSelf, runeSelf, s)
  | [b] => pure (b.toNat, runeSelf, s)
  | b :: c :: _ => pure (b.toNat, c.toNat, s)

def isDigit (b : Byte) : Bool := 48 ≤ b.toNat && b.toNat ≤ 57

/-- outcome of one scan of `zshNumRange` over the buffered bytes -/
inductive Scan where
  | yes | no | more
deriving DecidableEq, Repr

/-- digits, `-`, digits, `>`; `more` when the bytes run out before a decision -/
def zshScan (rest : List Byte) : Scan :=
  match rest.dropWhile isDigit with
  | [] => .more
  | c :: rest =>
    if c != 45 then .no
    else match rest.dropWhile isDigit with
      | [] => .more
      | d :: _ => if d == 62 then .yes else .no

/-- the `for` loop of `Parser.zshNumRange` -/
def zshLoop : Nat → St → M (Bool × St)
  | 0, _ => throw .fuel
  | fuel + 1, s =>
    if s.bsp > s.blen then throw (.oob 9)             -- p.bs[p.bsp:]
    else match zshScan s.front with
      | .yes => pure (true, s)
      | .no => pure (false, s)
      | .more =>
        if s.front.length ≥ 64 then pure (false, s)
        else do
          let (n, s') ← s.fill
          if n == 0 then pure (false, s') else zshLoop fuel s'

/-- `Parser.zshNumRange` -/
def zshNum (s : St) : M (Bool × St) := zshLoop 66 s

/-- `Parser.errPass` -/
def errPass (s : St) (e : Err) : St :=
  match s.err with
  | some _ => s
  | none =>
    { s with err := some e, bsp := s.blen + 1, back := s.front.reverse ++ s.back, front := [],
             r := runeEOF, w := 1 }

/-- raw `p.offs + p.bsp - p.w` (before the clamps of `nextPos`), `p.line`, `p.col` -/
def nextPos (s : St) : Int × Nat × Nat :=
  (((s.offs + s.bsp : Nat) : Int) - (s.w : Int), s.line, s.col)

def bquoteEscaped (b : Byte) : Bool := b == 36 || b == 96 || b == 92

/-- the `decodeRune:` loop of `rune`: decode at the cursor, refilling while the bytes at hand are
    an incomplete encoding.  Returns the width; `p.r` is stored in the state. -/
def decodeLoop : Nat → St → M (Nat × St)
  | 0, _ => throw .fuel
  | fuel + 1, s =>
    if s.bsp > s.blen then throw (.oob 3) else       -- p.bs[p.bsp:]
    let (r, w) := decodeRune s.front
    let s := { s with r }
    if r == runeError && !fullRune s.front then do
      let (n, s') ← s.fill
      if n > 0 then decodeLoop fuel s' else pure (w, s')
    else pure (w, s)

/-- outcome of one pass through the body of `rune` after the `retry:` label -/
inductive Step where
  | done (s : St)                -- `return p.r`
  | retry (bq : Nat) (s : St)    -- `goto retry` with the local `bquotes = bq`

/-- the common end of the ASCII branch: `lastBquoteEsc`, literal buffer, `p.w, p.r = 1, rune(b)` -/
def runeTail (b : Byte) (bq : Nat) (s : St) : St :=
  let s := if b == 96 then { s with lastBqEsc := bq } else s
  let s := s.litPush [b]
  { s with w := 1, r := b.toNat }

/-- after the escaped-newline tests of `case '\\'`: `p.readEOF = false` and the backquote test,
    which reads `p.bs[p.bsp]` without `fill` -/
def runeAfterEsc (b : Byte) (bq : Nat) (s : St) : Step :=
  let s := { s with readEOF := false }
  match s.front with
  | c :: _ =>
    if s.openBq > 0 && ((bq < s.openBq && bquoteEscaped c) || (bq < s.openBqDbl && c == 34)) then
      .retry (bq + 1) { s with col := s.col + 1 }
    else .done (runeTail b bq s)
  | [] => .done (runeTail b bq s)

/-- `case '\\'` (the backslash has been consumed) -/
def runeBackslash (b : Byte) (bq : Nat) (s : St) : M Step :=
  if s.r == 92 then do
    let (_, s) ← s.peek         -- only to have the next byte buffered
    pure (runeAfterEsc b bq s)
  else do
    let (pk, s) ← s.peek
    if pk == 10 then
      pure (.done { s.advance with w := 1, r := escNewl })
    else do
      let (p1, p2, s) ← s.peekTwo
      if p1 == 13 && p2 == 10 then
        pure (.done { (s.advanceN 2) with col := s.col + 1, w := 2, r := escNewl })
      else pure (runeAfterEsc b bq s)

/-- `if b := p.bs[p.bsp]; b < utf8.RuneSelf { p.bsp++; switch b {…} … }` (b not yet consumed) -/
def runeAscii (b : Byte) (bq : Nat) (s : St) : M Step :=
  let s := s.advance
  if b == 0 then pure (.retry bq { s with col := s.col + 1 })
  else if b == 13 then do
    let (pk, s) ← s.peek
    if pk == 10 then pure (.retry bq { s with col := s.col + 1 })
    else pure (.done (runeTail b bq s))
  else if b == 92 then runeBackslash b bq s
  else pure (.done (runeTail b bq s))

/-- the `decodeRune:` part of `rune`; `p.w = w` is stored before the invalid-encoding error is
    raised, so that the error is reported at the offending byte's own offset -/
def runeDecode (s : St) : M St := do
  let (w, s) ← decodeLoop 4 s
  let s := s.litPush (s.front.take w)
  let s := s.advanceN w
  let s := { s with w }
  let s := if s.r == runeError && w == 1 then
      let (o, l, c) := s.nextPos
      s.errPass (.utf8 o l c)
    else s
  pure s

/-- `return runeEOF` branch -/
def runeAtEOF (s : St) : St :=
  { s with bsp := s.blen + 1, r := runeEOF, w := 1 }

/-- `b := p.bs[p.bsp]` is at the cursor -/
def runeBody (b : Byte) (bq : Nat) (s : St) : M Step :=
  if b.toNat < 0x80 then runeAscii b bq s
  else do let s ← runeDecode s; pure (.done s)

/-- one pass from `retry:` -/
def runeStep (bq : Nat) (s0 : St) : M Step := do
  -- if p.bsp >= uint(len(p.bs)) && p.fill() == 0 { … return runeEOF }
  let (atEOF, s) ←
    if s0.front.isEmpty then (do let (n, s') ← s0.fill; pure (n == 0, s')) else pure (false, s0)
  if atEOF then pure (.done (runeAtEOF s))
  else
    match s.front with
    | [] => throw (.oob 1)                            -- p.bs[p.bsp]
    | b :: _ => runeBody b bq s

/-- `retry:` … of `Parser.rune`; `bq` is the local `bquotes`. -/
def runeLoop : Nat → Nat → St → M St
  | 0, _, _ => throw .fuel
  | fuel + 1, bq, s => do
    match ← runeStep bq s with
    | .done s => pure s
    | .retry bq s => runeLoop fuel bq s

/-- the line / column bookkeeping at the start of `rune` -/
def runePre (s : St) : St :=
  let s := if s.r == 10 || s.r == escNewl then { s with line := s.line + 1, col := 0 } else s
  { s with col := s.col + s.w }

/-- `Parser.rune`; the returned rune is the new `p.r`. -/
def rune (s : St) : M (Nat × St) := do
  let s := s.runePre
  let s ← runeLoop (s.total + 2) 0 s
  pure (s.r, s)

/-- `Parser.newLit`: the literal starts with the encoding of `r` (not with bytes copied out of the
    read buffer, which a look-ahead may have refilled) -/
def newLit (s : St) (r : Nat) : M St :=
  if r < 0x80 then pure { s with lit := some [UInt8.ofNat r] }
  else if r == runeEOF || r == escNewl then pure { s with lit := some [] }
  else pure { s with lit := some (appendRune r).reverse }

/-- `Parser.endLit` -/
def endLit (s : St) : M (List Byte × St) :=
  let l := s.lit.getD []
  if s.r == runeEOF || s.r == escNewl then pure (l.reverse, { s with lit := none })
  else if s.w > l.length then throw (.oob 11)          -- p.litBs[:len(p.litBs)-p.w]
  else pure ((l.drop s.w).reverse, { s with lit := none })

/-- `for len(p.bs)-int(p.bsp) < need && int(p.bsp) <= len(p.bs) { if p.fill() == 0 { break } }` -/
def stopFill : Nat → Nat → St → M St
  | 0, _, _ => throw .fuel
  | fuel + 1, need, s =>
    if s.front.length < need ∧ s.bsp ≤ s.blen then do
      let (n, s') ← s.fill
      if n == 0 then pure s' else stopFill fuel need s'
    else pure s

/-- the stop-word test of `Parser.next` for the rune `r` just read: the encoding of `r` must be the
    head of the stop word and the rest of the stop word must follow in the input -/
def stopAt (s : St) (r : Nat) : M (Bool × St) :=
  let enc := if r ≤ 0x10FFFF then encodeRune r else []
  let k := enc.length
  if k > 0 ∧ s.stopPat.length ≥ k ∧ s.stopPat.take k = enc then do
    let need := s.stopPat.length - k
    let s ← stopFill (need + 1) need s
    if s.bsp ≤ s.blen ∧ (s.stopPat.drop k).isPrefixOf s.front then
      pure (true, { s with r := runeEOF, w := 1 })
    else pure (false, s)
  else pure (false, s)

end St

/-! ## client programs

  The lexer / parser above the byte source, abstracted as a free monad over the primitives: a
  client can do nothing to the buffer fields except through these operations. -/

inductive Prog (α : Type) where
  | ret (a : α)
  | rune (k : Nat → Prog α)
  | peek (k : Nat → Prog α)
  | peekTwo (k : Nat → Nat → Prog α)
  | zshNum (k : Bool → Prog α)
  | stopAt (r : Nat) (k : Bool → Prog α)
  | newLit (r : Nat) (k : Prog α)
  | endLit (k : List Byte → Prog α)
  | pos (k : Int → Nat → Nat → Prog α)
  | setBquotes (openBq dbl : Nat) (k : Prog α)
  | getRW (k : Nat → Nat → Prog α)              -- reads of p.r, p.w
  | lastBq (k : Nat → Prog α)                   -- read of p.lastBquoteEsc
  | litGet (k : Option (List Byte) → Prog α)    -- reads of p.litBs (source order)
  | litAppend (bs : List Byte) (k : Prog α)     -- p.litBs = append(p.litBs, bs...)
  | litDrop (k : Prog α)                        -- p.litBs = nil
  | errPass (k : Prog α)                        -- posErr / checkLang of the parser
  | errGet (k : Bool → Prog α)                  -- p.err != nil

def Prog.run {α : Type} : Prog α → St → M (α × St)
  | .ret a, s => pure (a, s)
  | .rune k, s => do let (r, s) ← s.rune; (k r).run s
  | .peek k, s => do let (b, s) ← s.peek; (k b).run s
  | .peekTwo k, s => do let (a, b, s) ← s.peekTwo; (k a b).run s
  | .zshNum k, s => do let (b, s) ← s.zshNum; (k b).run s
  | .stopAt r k, s => do let (b, s) ← s.stopAt r; (k b).run s
  | .newLit r k, s => do let s ← s.newLit r; k.run s
  | .endLit k, s => do let (l, s) ← s.endLit; (k l).run s
  | .pos k, s => let (o, l, c) := s.nextPos; (k o l c).run s
  | .setBquotes o d k, s => k.run { s with openBq := o, openBqDbl := d }
  | .getRW k, s => (k s.r s.w).run s
  | .lastBq k, s => (k s.lastBqEsc).run s
  | .litGet k, s => (k (s.lit.map List.reverse)).run s
  | .litAppend bs k, s => k.run { s with lit := some (bs.reverse ++ s.lit.getD []) }
  | .litDrop k, s => k.run { s with lit := none }
  | .errPass k, s => k.run (s.errPass .client)
  | .errGet k, s => (k s.err.isSome).run s

end ShVerif.L2
