/-
  C12 — token-level model of the statement parser of syntax/parser.go
  (`stmts`, `getStmt`, `gotStmtPipe`, `callExpr`, `followStmts`, `block`, `subshell`, `ifClause`,
  `whileClause`, `forClause`/`wordIter`, `caseClause`/`caseItems`, `funcDecl`, `doRedirect`).

  Tokens are the *classes* the parser distinguishes; the Go harness renders a token list to source
  text (tokens separated by one blank) and the real lexer turns it back into these classes:
    word    a plain literal word (`_LitWord`, a valid name, not reserved)      e.g. `a`
    qword   a word that is not a single literal (`sglQuote`, `dblQuote`, `dollar`, `_Lit`…) `'q'`
    assign  `_LitWord` with `eqlOffs > 0` and a valid name before `=`           `x=1`
    io      a redirection operator that takes a word (`>` `<` `>>` `>|`)
    the sixteen reserved words, which the lexer delivers as `_LitWord` as well,
    the operators `( ) ; & && || | ;;` and newline.
  Not modelled: here-documents, comments, `((`, `[[`, `function`, `time`, `select`, `coproc`,
  declaration builtins, arrays, `{…}`-redirections, fd numbers glued to an operator.

  Errors are sticky in the Go parser (`errPass` sets `tok = _EOF`, every later error is dropped), so
  for acceptance an error is a short-circuit: `R.err`.  A `nil` statement (no command found) always
  ends in an error at the caller inside this fragment, so it is `R.err` too.

  The parser is parametrised by the *rule variants* `Cfg` in which syntax/parser.go and the real
  shells differ; `goCfg` is the Go code, `shCfg` the shells (bash for Bash, dash for POSIX).
  Core Lean only.
-/
namespace ShVerif.C12

inductive Tok
  | word | qword | assign | io
  | kIf | kThen | kElif | kElse | kFi | kWhile | kUntil | kDo | kDone | kFor | kIn | kCase | kEsac
  | lbrace | rbrace | bang
  | lparen | rparen | semi | amp | andIf | orIf | pipe | dsemi | nl
  deriving DecidableEq, Repr, Inhabited

open Tok

inductive Lang | bash | posix
  deriving DecidableEq, Repr

/-- `p.quote` as far as the statement parser looks at it. -/
inductive Q | none | sub | case
  deriving DecidableEq, Repr

/-- What a function body may be (`funcDecl`). -/
inductive FnBody
  | andOr      -- syntax/parser.go: `getStmt(false, false, true)`, any and-or list
  | command    -- dash: one command
  | compound   -- bash: a compound command
  deriving DecidableEq, Repr

/-- The rule variants. -/
structure Cfg where
  /-- LangPOSIX: `invalid func name`, no `for … {`. -/
  posix : Bool
  /-- `else` and `in` are accepted as command names when they are not a stop word
      (they are missing from the error list in `gotStmtPipe`). -/
  elseInCmd : Bool
  /-- after a redirection prefix reserved words are still reserved
      (the real shells take them as plain words there). -/
  rsrvAfterIO : Bool
  /-- bash: `!` may be repeated and may stand alone before `;`, newline or end of input. -/
  bangAlone : Bool
  /-- an assignment-looking word is accepted as a `for` variable. -/
  forAssign : Bool
  fnBody : FnBody
  /-- `for x; { …; }`. -/
  forBrace : Bool
  /-- a closing reserved word is recognised directly after the redirections of a compound command
      (`{ { a; } >f }`); the real shells are no longer at command position there. -/
  closerAfterRedir : Bool
  deriving DecidableEq, Repr

/-- syntax/parser.go as it is. -/
def goCfg : Lang → Cfg
  | .bash  => { posix := false, elseInCmd := true, rsrvAfterIO := true, bangAlone := false,
                forAssign := true, fnBody := .andOr, forBrace := true, closerAfterRedir := true }
  | .posix => { posix := true, elseInCmd := true, rsrvAfterIO := true, bangAlone := false,
                forAssign := true, fnBody := .andOr, forBrace := false, closerAfterRedir := true }

/-- The real shells: bash 5.2 for `Lang.bash`, dash for `Lang.posix` (validated by `bash -n` /
    `dash -n` on every run of the check). -/
def shCfg : Lang → Cfg
  | .bash  => { posix := false, elseInCmd := false, rsrvAfterIO := false, bangAlone := true,
                forAssign := true, fnBody := .compound, forBrace := true, closerAfterRedir := false }
  | .posix => { posix := true, elseInCmd := false, rsrvAfterIO := false, bangAlone := false,
                forAssign := false, fnBody := .command, forBrace := false, closerAfterRedir := false }

/-! ### token classes -/

/-- `p.tok == _LitWord`. -/
def isLitWord : Tok → Bool
  | word | assign | kIf | kThen | kElif | kElse | kFi | kWhile | kUntil | kDo | kDone | kFor | kIn
  | kCase | kEsac | lbrace | rbrace | bang => true
  | _ => false

/-- `getWord` succeeds (and consumes exactly this token). -/
def wordLike (t : Tok) : Bool := isLitWord t || t == qword

/-- Reserved words (`_LitWord`s with a special meaning at command position). -/
def isRsrv (t : Tok) : Bool := isLitWord t && t != word && t != assign

/-- `callExpr`'s `break loop` tokens, end of input aside. -/
def callStop : Tok → Bool
  | nl | semi | amp | pipe | andIf | orIf | dsemi => true
  | _ => false

/-- `stopToken`, end of input aside. -/
def stopTok (t : Tok) : Bool := callStop t || t == rparen

/-- What may follow when the shell is not at command position: end of input, a command terminator
    or `)`. -/
def followsOpen : Option Tok → Bool
  | none => true
  | some t => callStop t || t == rparen

/-- `p.got(_Newl)`: the lexer merges consecutive newlines into one `_Newl` token. -/
def skipNL : List Tok → List Tok
  | nl :: r => skipNL r
  | ts => ts

inductive R (α : Type)
  | oof          -- out of fuel
  | err          -- parse error
  | ok (a : α)
  deriving Repr, DecidableEq

@[inline] def R.bind {α β} (x : R α) (f : α → R β) : R β :=
  match x with
  | .oof => .oof
  | .err => .err
  | .ok a => f a

def ofOpt {α} : Option α → R α
  | some a => .ok a
  | none => .err

/-- `gotRsrv`/`got` followed by an error when absent (`followRsrv`, `stmtEnd`, `matched`). -/
def expect (t : Tok) : List Tok → R (List Tok)
  | t' :: r => if t' = t then .ok r else .err
  | [] => .err

/-! ### the token-list loops that do not recurse into statements -/

/-- `for p.peekRedir() { p.doRedirect(s) }`: returns whether a redirection was read. -/
def redirs : List Tok → Option (Bool × List Tok)
  | io :: w :: r =>
    if wordLike w then
      match redirs r with
      | some (_, r') => some (true, r')
      | none => none
    else none
  | io :: [] => none
  | ts => some (false, ts)

/-- The loop of `callExpr` after the first word or assignment. -/
def callExpr (q : Q) : List Tok → Option (List Tok)
  | [] => some []
  | io :: w :: r => if wordLike w then callExpr q r else none
  | io :: [] => none
  | t :: r =>
    if callStop t then some (t :: r)
    else if wordLike t then callExpr q r
    else if t = rparen then (if q = .sub then some (t :: r) else none)
    else none            -- `(`

/-- The word loop of `wordIter` after `in`: stops at a `stopToken`. -/
def forWords : List Tok → Option (List Tok)
  | [] => some []
  | t :: r =>
    if stopTok t then some (t :: r)
    else if wordLike t then forWords r
    else none            -- "word list can only contain words"

/-- The pattern loop of `caseItems`, after the optional `(`: returns the input after `)`. -/
def patterns : List Tok → Option (List Tok)
  | w :: rparen :: r => if wordLike w then some r else none
  | w :: pipe :: r => if wordLike w then patterns r else none
  | _ => none

/-- `wordIter` after the variable name: `;`, or `in words` with its terminator, or nothing
    (then `do` must follow). -/
def forIter : List Tok → Option (List Tok)
  | semi :: r' => some (skipNL r')
  | r =>
    match skipNL r with
    | kIn :: r'' =>
      match forWords r'' with
      | some (semi :: r3) => some (skipNL r3)
      | some r3 => some (skipNL r3)
      | none => none
    | kDo :: r'' => some (kDo :: r'')
    | _ => none       -- "`for foo` must be followed by `in`, `do`, `;`, or a newline"

/-- The `{`/`do` choice of `forClause`: returns the closing word and the input after the opener. -/
def forOpen (c : Cfg) : List Tok → Option (Tok × List Tok)
  | lbrace :: r2 => if c.forBrace then some (rbrace, r2) else none
  | kDo :: r2 => some (kDone, r2)
  | _ => none

/-- `forClause` after `for`, up to and including `do` / `{`. -/
def forHead (c : Cfg) : List Tok → Option (Tok × List Tok)
  | [] => none
  | nm :: r =>
    if isLitWord nm && (nm != assign || c.forAssign) then (forIter r).bind (forOpen c)
    else none            -- "`for` must be followed by a literal"

/-- `caseClause` up to and including `in`. -/
def caseHead : List Tok → Option (List Tok)
  | w :: r =>
    if wordLike w then
      match skipNL r with
      | kIn :: r' => some (skipNL r')
      | _ => none        -- includes `case x {`, a mksh feature
    else none
  | [] => none

def isCompoundStart : Tok → Bool
  | lbrace | lparen | kIf | kWhile | kUntil | kFor | kCase => true
  | _ => false

/-! ### the mutually recursive part, on fuel -/

mutual

/-- `stmts`: one loop iteration per unit of fuel.  `any` = a statement has been read. -/
def stmts (c : Cfg) (q : Q) (stops : List Tok) : Nat → (gotEnd any : Bool) → List Tok → R (Bool × List Tok)
  | 0, _, _, _ => .oof
  | f+1, gotEnd, any, ts =>
    match ts with
    | [] => .ok (any, [])
    | t0 :: _ =>
      let newLine := t0 == nl
      match skipNL ts with
      | [] => .ok (any, [])
      | t :: r =>
        if stops.contains t then .ok (any, t :: r)
        else if t = rbrace then .err
        else if t = rparen && q == .sub then .ok (any, t :: r)
        else if t = dsemi then (if q = .case then .ok (any, t :: r) else .err)
        else if !newLine && !gotEnd then .err
        else
          match getStmt c q true false f (t :: r) with
          | .ok (sm, r') => stmts c q stops f sm true r'
          | .err => .err
          | .oof => .oof

/-- `followStmts`: a non-empty statement list.  (Its `p.got(semicolon)` error is subsumed: a `;`
    is no statement start.) -/
def followStmts (c : Cfg) (q : Q) (stops : List Tok) : Nat → List Tok → R (List Tok)
  | 0, _ => .oof
  | f+1, ts =>
    match stmts c q stops f true false ts with
    | .ok (true, r) => .ok r
    | .ok (false, _) => .err
    | .err => .err
    | .oof => .oof

/-- `getStmt(readEnd, binCmd, _)`: returns whether `;`/`&` was consumed. -/
def getStmt (c : Cfg) (q : Q) (readEnd binCmd : Bool) : Nat → List Tok → R (Bool × List Tok)
  | 0, _ => .oof
  | f+1, ts =>
    match ts with
    | bang :: r =>
      if c.bangAlone then
        let r' := r.dropWhile (· == bang)
        match r' with
        | [] => .ok (false, [])
        | nl :: _ => .ok (false, r')
        | semi :: r'' => if readEnd then .ok (true, r'') else .ok (false, r')
        | t :: _ =>
          if stopTok t then .err
          else (pipeline c q true false f r').bind (andOrTail c q readEnd binCmd f)
      else
        match r with
        | [] => .err                                  -- "`!` cannot form a statement alone"
        | t :: _ =>
          if stopTok t || t == bang then .err         -- … / "cannot negate a command multiple times"
          else (pipeline c q true false f r).bind (andOrTail c q readEnd binCmd f)
    | _ => (pipeline c q false false f ts).bind (andOrTail c q readEnd binCmd f)

/-- The `&&`/`||` loop of `getStmt` and its `readEnd` switch. -/
def andOrTail (c : Cfg) (q : Q) (readEnd binCmd : Bool) : Nat → List Tok → R (Bool × List Tok)
  | 0, _ => .oof
  | f+1, ts =>
    match ts with
    | andIf :: r | orIf :: r =>
      if binCmd then .ok (false, ts)
      else
        match getStmt c q false true f (skipNL r) with
        | .ok (_, r') => andOrTail c q readEnd binCmd f r'
        | .err => .err
        | .oof => .oof
    | semi :: r | amp :: r => if readEnd then .ok (true, r) else .ok (false, ts)
    | _ => .ok (false, ts)

/-- `gotStmtPipe(s, binCmd)` with `neg = s.Negated`. -/
def pipeline (c : Cfg) (q : Q) (neg binCmd : Bool) : Nat → List Tok → R (List Tok)
  | 0, _ => .oof
  | f+1, ts =>
    match redirs ts with
    | none => .err
    | some (pre, ts1) =>
      ((command c q neg pre f ts1).bind fun r =>
        match redirs r with
        | none => .err
        | some (post, r') =>
          -- only a compound command leaves redirections to read here
          if post && !c.closerAfterRedir && !followsOpen r'.head? then .err else .ok r').bind
        (pipeTail c q binCmd f)

/-- The `|` loop of `gotStmtPipe`. -/
def pipeTail (c : Cfg) (q : Q) (binCmd : Bool) : Nat → List Tok → R (List Tok)
  | 0, _ => .oof
  | f+1, ts =>
    match ts with
    | pipe :: r =>
      if binCmd then .ok ts
      else (pipeline c q false true f (skipNL r)).bind (pipeTail c q binCmd f)
    | _ => .ok ts

/-- The `switch p.tok` of `gotStmtPipe`, after the redirection prefix (`pre` = one was read),
    including the final `s.Cmd == nil && len(s.Redirs) == 0` and
    `redirects before compound commands` checks. -/
def command (c : Cfg) (q : Q) (neg pre : Bool) : Nat → List Tok → R (List Tok)
  | 0, _ => .oof
  | f+1, ts =>
    match ts with
    | [] => if pre then .ok [] else .err
    | t :: r =>
      if pre && !c.rsrvAfterIO && isLitWord t && t != assign then
        -- the real shells: no reserved word (and no function definition) after a redirection
        match r with
        | lparen :: _ => .err
        | _ => ofOpt (callExpr q r)
      else
      match t with
      | lbrace =>
        if pre then .err      -- parsed, then "redirects before compound commands"
        else (followStmts c q [rbrace] f r).bind (expect rbrace)
      | lparen =>
        if pre then .err
        else (followStmts c .sub [] f r).bind (expect rparen)
      | kIf =>
        if pre then .err
        else ((followStmts c q [kThen] f r).bind (expect kThen)).bind fun r1 =>
          (followStmts c q [kFi, kElif, kElse] f r1).bind (ifTail c q f)
      | kWhile | kUntil =>
        if pre then .err
        else ((followStmts c q [kDo] f r).bind (expect kDo)).bind fun r1 =>
          (followStmts c q [kDone] f r1).bind (expect kDone)
      | kFor =>
        if pre then .err
        else
          match forHead c r with
          | some (close, r1) => (followStmts c q [close] f r1).bind (expect close)
          | none => .err
      | kCase =>
        if pre then .err
        else
          match caseHead r with
          | some r1 => caseItems c f r1
          | none => .err
      | rbrace | kThen | kElif | kFi | kDo | kDone | kEsac => .err
      | bang => if neg then name c q pre f t r else .err
      | kElse | kIn => if c.elseInCmd then name c q pre f t r else .err
      | word => name c q pre f t r
      | assign => ofOpt (callExpr q r)
      | qword =>
        match r with
        | lparen :: _ => .err                    -- "invalid func name"
        | _ => ofOpt (callExpr q r)
      | _ => if pre then .ok ts else .err        -- no command: only redirections, or nothing

/-- A literal word at command position: function declaration or simple command. -/
def name (c : Cfg) (q : Q) (pre : Bool) : Nat → Tok → List Tok → R (List Tok)
  | 0, _, _ => .oof
  | f+1, t, r =>
    match r with
    | lparen :: rparen :: r2 =>
      if c.posix && t == bang then .err          -- "invalid func name"
      else if pre then .err                      -- "redirects before compound commands"
      else
        let r3 := skipNL r2
        match c.fnBody with
        | .andOr => (getStmt c q false false f r3).bind fun x => .ok x.2
        | .command => pipeline c q false true f r3
        | .compound =>
          match r3 with
          | t3 :: _ => if isCompoundStart t3 then pipeline c q false true f r3 else .err
          | [] => .err
    | lparen :: _ => .err                        -- "`foo(` must be followed by `)`"
    | _ => ofOpt (callExpr q r)

/-- The `elif` loop, `else` and `fi` of `ifClause`. -/
def ifTail (c : Cfg) (q : Q) : Nat → List Tok → R (List Tok)
  | 0, _ => .oof
  | f+1, ts =>
    match ts with
    | kElif :: r =>
      ((followStmts c q [kThen] f r).bind (expect kThen)).bind fun r1 =>
        (followStmts c q [kFi, kElif, kElse] f r1).bind (ifTail c q f)
    | kElse :: r => (followStmts c q [kFi] f r).bind (expect kFi)
    | kFi :: r => .ok r
    | _ => .err

/-- `caseItems` (newlines already skipped) and the closing `esac`. -/
def caseItems (c : Cfg) : Nat → List Tok → R (List Tok)
  | 0, _ => .oof
  | f+1, ts =>
    match ts with
    | [] => .err
    | kEsac :: r => .ok r
    | t :: r =>
      let ps := if t = lparen then r else t :: r
      match patterns ps with
      | none => .err
      | some r1 =>
        match stmts c .case [kEsac] f true false r1 with
        | .ok (_, dsemi :: r2) => caseItems c f (skipNL r2)
        | .ok (_, r2) => expect kEsac r2
        | .err => .err
        | .oof => .oof

end

/-- Enough fuel for every token list (`complete` proves it). -/
def fuelFor (ts : List Tok) : Nat := 8 * ts.length + 8

def parseWith (c : Cfg) (fuel : Nat) (ts : List Tok) : Bool :=
  match stmts c .none [] fuel true false ts with
  | .ok (_, []) => true
  | _ => false

/-- The model of `Parser.Parse` returning no error, with rule variants `c`. -/
def parse (c : Cfg) (ts : List Tok) : Bool := parseWith c (fuelFor ts) ts

/-- `syntax.NewParser(Variant(l)).Parse` accepts the rendering of `ts`. -/
def accepts (l : Lang) (ts : List Tok) : Bool := parse (goCfg l) ts

/-- The recogniser of the shells' grammar `Derives (shCfg l)`. -/
def shellAccepts (l : Lang) (ts : List Tok) : Bool := parse (shCfg l) ts



/-! ## The specification: the shell grammar on tokens

  POSIX XCU 2.10.2 restricted to the token alphabet, written with the left recursions of
  `and_or`, `pipe_sequence`, `term`, `case_list` turned into tails (`aoTail`, `pipeTail`, the
  `list` rules, `caseItems`), and with the one context dependency of the shell language made
  explicit: reserved words are only recognised where a command may start, so what may *follow*
  a derived string depends on how it ends (`End`).  Every rule variant of `Cfg` appears as a
  side condition of one rule.
-/

/-- How a derived string ends, i.e. what may follow it. -/
inductive End
  | closed        -- a compound command (and its redirections) or a separator: anything but a redirection
  | «open»        -- inside a simple command: only a command terminator (a closing reserved word would be an argument)
  | bare          -- bash's lone `!`: only `;`, newline or end of input
  | sealedClosed  -- function definition whose body is an and-or list (Go): as `closed`, but no `|` `&&` `||`
  | sealedOpen    -- … as `open`, but no `|` `&&` `||`
  deriving DecidableEq, Repr

def End.seal : End → End
  | .closed => .sealedClosed
  | .open => .sealedOpen
  | e => e

def notCont : Option Tok → Bool
  | some pipe | some andIf | some orIf => false
  | _ => true

def openOK (q : Q) : Option Tok → Bool
  | none => true
  | some t => callStop t || (t == rparen && q == .sub)

/-- `allows q e next`: a string ending like `e` may be followed by `next` (`none` = end of input). -/
def allows (q : Q) : End → Option Tok → Bool
  | .closed, n => n != some io
  | .open, n => openOK q n
  | .bare, n => n == none || n == some nl || n == some semi
  | .sealedClosed, n => n != some io && notCont n
  | .sealedOpen, n => openOK q n && notCont n

def nls (k : Nat) : List Tok := List.replicate k nl
def bangs (k : Nat) : List Tok := List.replicate k bang

/-- `io_redirect*`. -/
inductive Redirs : List Tok → Prop
  | nil : Redirs []
  | cons {w r} : wordLike w = true → Redirs r → Redirs (io :: w :: r)

/-- `cmd_suffix`: words (any word-like token, reserved or not) and redirections. -/
inductive Items : List Tok → Prop
  | nil : Items []
  | arg {t r} : wordLike t = true → Items r → Items (t :: r)
  | redir {w r} : wordLike w = true → Items r → Items (io :: w :: r)

/-- `wordlist`. -/
inductive Words : List Tok → Prop
  | nil : Words []
  | cons {t r} : wordLike t = true → Words r → Words (t :: r)

/-- `pattern : WORD | pattern '|' WORD`, then `)`. -/
inductive Pats : List Tok → Prop
  | one {w} : wordLike w = true → Pats [w, rparen]
  | more {w r} : wordLike w = true → Pats r → Pats (w :: pipe :: r)

/-- The first word of a simple command (`cmd_name` / `cmd_word` / an assignment): not a reserved
    word, except (rule variants) after a redirection, `else`/`in`, and the second `!` of
    `! >f ! a`. -/
def firstOK (c : Cfg) (neg pre : Bool) (t : Tok) : Bool :=
  t == word || t == qword || t == assign
  || (pre && !c.rsrvAfterIO && isRsrv t)
  || (t == bang && neg)
  || ((t == kElse || t == kIn) && c.elseInCmd)

/-- `fname`. -/
def fnNameOK (c : Cfg) (neg : Bool) (t : Tok) : Bool :=
  t == word || ((t == kElse || t == kIn) && c.elseInCmd) || (t == bang && neg && !c.posix)

def startsCompound : List Tok → Bool
  | t :: _ => isCompoundStart t
  | [] => false

/-- `[linebreak in wordlist] sequential_sep?` after the loop variable; the flag says whether
    bash's `{` may follow (only after `;` or a word list). -/
inductive ForIter : List Tok → Bool → Prop
  | semi {k} : ForIter (semi :: nls k) true
  | plain {k} : ForIter (nls k) false
  | inSemi {k ws j} : Words ws → ForIter (nls k ++ kIn :: ws ++ semi :: nls j) true
  | inNl {k ws j} : Words ws → ForIter (nls k ++ kIn :: ws ++ nl :: nls j) true

/-- `for name … do` / `for name … {` as a token list after `for`, with the closing word. -/
inductive ForHead (c : Cfg) : List Tok → Tok → Prop
  | doLoop {nm it b} : isLitWord nm = true → (nm ≠ assign ∨ c.forAssign = true) → ForIter it b →
      ForHead c (nm :: it ++ [kDo]) kDone
  | brace {nm it} : c.forBrace = true → isLitWord nm = true → (nm ≠ assign ∨ c.forAssign = true) →
      ForIter it true → ForHead c (nm :: it ++ [lbrace]) rbrace

inductive NT
  | program
  /-- `compound_list` / `term` with the reserved words that end it; `any`: it contains a command. -/
  | list (q : Q) (stops : List Tok) (any : Bool)
  /-- `and_or`. -/
  | stmt (q : Q)
  /-- `! pipeline` / `pipeline`, one element of an `and_or`. -/
  | bpipe (q : Q)
  | aoTail (q : Q) (e0 : End)
  /-- `pipe_sequence`. -/
  | pipeline (q : Q) (neg : Bool)
  | pipeTail (q : Q) (e0 : End)
  /-- `command` with its redirections. -/
  | command (q : Q) (neg : Bool)
  | compound (q : Q)
  | ifTail (q : Q) (e0 : End)
  | caseItems

/-- A statement may not start with a word that ends the enclosing list (only `else` can, under
    `elseInCmd`). -/
def startOK (stops : List Tok) (s : List Tok) : Prop :=
  match s.head? with
  | some t => stops.contains t = false
  | none => True

inductive Derives (c : Cfg) : NT → End → List Tok → Prop
  | program {a e ts} : Derives c (.list .none [] a) e ts → Derives c .program .closed ts
  -- list
  | l_nil {q stops} : Derives c (.list q stops false) .closed []
  | l_nl {q stops a e ts} : Derives c (.list q stops a) e ts → Derives c (.list q stops a) e (nl :: ts)
  | l_last {q stops e s} : Derives c (.stmt q) e s → startOK stops s → Derives c (.list q stops true) e s
  | l_sep {q stops e0 s sep a e ts} : Derives c (.stmt q) e0 s → startOK stops s →
      (sep = semi ∨ sep = amp) → allows q e0 (some sep) = true →
      Derives c (.list q stops a) e ts → Derives c (.list q stops true) e (s ++ sep :: ts)
  | l_newl {q stops e0 s a e ts} : Derives c (.stmt q) e0 s → startOK stops s →
      allows q e0 (some nl) = true →
      Derives c (.list q stops a) e ts → Derives c (.list q stops true) e (s ++ nl :: ts)
  -- and_or
  | stmt {q e0 p e t} : Derives c (.bpipe q) e0 p → Derives c (.aoTail q e0) e t → Derives c (.stmt q) e (p ++ t)
  | t_nil {q e0} : Derives c (.aoTail q e0) e0 []
  | t_op {q e0 op k e1 p e t} : (op = andIf ∨ op = orIf) → allows q e0 (some op) = true →
      Derives c (.bpipe q) e1 p → Derives c (.aoTail q e1) e t →
      Derives c (.aoTail q e0) e (op :: nls k ++ p ++ t)
  | b_plain {q e p} : Derives c (.pipeline q false) e p → Derives c (.bpipe q) e p
  | b_bang {q e p} : c.bangAlone = false → Derives c (.pipeline q true) e p → p.head? ≠ some bang →
      Derives c (.bpipe q) e (bang :: p)
  | b_bangs {q e p k} : c.bangAlone = true → Derives c (.pipeline q true) e p → p.head? ≠ some bang →
      Derives c (.bpipe q) e (bang :: bangs k ++ p)
  | b_bare {q k} : c.bangAlone = true → Derives c (.bpipe q) .bare (bang :: bangs k)
  -- pipe_sequence
  | pipeline {q neg e0 cm e t} : Derives c (.command q neg) e0 cm → Derives c (.pipeTail q e0) e t →
      Derives c (.pipeline q neg) e (cm ++ t)
  | p_nil {q e0} : Derives c (.pipeTail q e0) e0 []
  | p_pipe {q e0 k e1 cm e t} : allows q e0 (some pipe) = true →
      Derives c (.command q false) e1 cm → Derives c (.pipeTail q e1) e t →
      Derives c (.pipeTail q e0) e (pipe :: nls k ++ cm ++ t)
  -- command
  | c_simple {q neg pre t its} : Redirs pre → firstOK c neg (!pre.isEmpty) t = true → Items its →
      Derives c (.command q neg) .open (pre ++ t :: its)
  | c_redir {q neg w r} : wordLike w = true → Redirs r → Derives c (.command q neg) .open (io :: w :: r)
  | c_compound {q neg body post} : Derives c (.compound q) .closed body → Redirs post →
      Derives c (.command q neg) (if post.isEmpty || c.closerAfterRedir then .closed else .open)
        (body ++ post)
  | f_andor {q neg nm k e body} : c.fnBody = .andOr → fnNameOK c neg nm = true →
      Derives c (.stmt q) e body → Derives c (.command q neg) e.seal (nm :: lparen :: rparen :: nls k ++ body)
  | f_command {q neg nm k e body} : c.fnBody = .command → fnNameOK c neg nm = true →
      Derives c (.command q false) e body → Derives c (.command q neg) e (nm :: lparen :: rparen :: nls k ++ body)
  | f_compound {q neg nm k e body} : c.fnBody = .compound → fnNameOK c neg nm = true →
      Derives c (.command q false) e body → startsCompound body = true →
      Derives c (.command q neg) e (nm :: lparen :: rparen :: nls k ++ body)
  -- compound commands
  | block {q e l} : Derives c (.list q [rbrace] true) e l → allows q e (some rbrace) = true →
      Derives c (.compound q) .closed (lbrace :: l ++ [rbrace])
  | subshell {q e l} : Derives c (.list .sub [] true) e l → allows .sub e (some rparen) = true →
      Derives c (.compound q) .closed (lparen :: l ++ [rparen])
  | ifc {q e1 cond e2 thn e t} : Derives c (.list q [kThen] true) e1 cond → allows q e1 (some kThen) = true →
      Derives c (.list q [kFi, kElif, kElse] true) e2 thn → Derives c (.ifTail q e2) e t →
      Derives c (.compound q) .closed (kIf :: cond ++ kThen :: thn ++ t)
  | i_fi {q e0} : allows q e0 (some kFi) = true → Derives c (.ifTail q e0) .closed [kFi]
  | i_else {q e0 e l} : allows q e0 (some kElse) = true → Derives c (.list q [kFi] true) e l →
      allows q e (some kFi) = true → Derives c (.ifTail q e0) .closed (kElse :: l ++ [kFi])
  | i_elif {q e0 e1 cond e2 thn e t} : allows q e0 (some kElif) = true →
      Derives c (.list q [kThen] true) e1 cond → allows q e1 (some kThen) = true →
      Derives c (.list q [kFi, kElif, kElse] true) e2 thn → Derives c (.ifTail q e2) e t →
      Derives c (.ifTail q e0) .closed (kElif :: cond ++ kThen :: thn ++ t)
  | loop {q kw e1 cond e2 body} : (kw = kWhile ∨ kw = kUntil) →
      Derives c (.list q [kDo] true) e1 cond → allows q e1 (some kDo) = true →
      Derives c (.list q [kDone] true) e2 body → allows q e2 (some kDone) = true →
      Derives c (.compound q) .closed (kw :: cond ++ kDo :: body ++ [kDone])
  | forc {q hd close e body} : ForHead c hd close →
      Derives c (.list q [close] true) e body → allows q e (some close) = true →
      Derives c (.compound q) .closed (kFor :: hd ++ body ++ [close])
  | casec {q w k j e items} : wordLike w = true → Derives c .caseItems e items →
      Derives c (.compound q) .closed (kCase :: w :: nls k ++ kIn :: nls j ++ items)
  -- case_list: every item but the last ends with `;;`
  | ci_esac : Derives c .caseItems .closed [kEsac]
  | ci_last {lp pat a e l} : (lp = [] ∨ lp = [lparen]) → Pats pat → (lp = [] → pat.head? ≠ some kEsac) →
      Derives c (.list .case [kEsac] a) e l → allows .case e (some kEsac) = true →
      Derives c .caseItems .closed (lp ++ pat ++ l ++ [kEsac])
  | ci_item {lp pat a e l k e' rest} : (lp = [] ∨ lp = [lparen]) → Pats pat → (lp = [] → pat.head? ≠ some kEsac) →
      Derives c (.list .case [kEsac] a) e l → allows .case e (some dsemi) = true →
      Derives c .caseItems e' rest →
      Derives c .caseItems .closed (lp ++ pat ++ l ++ dsemi :: nls k ++ rest)

end ShVerif.C12
