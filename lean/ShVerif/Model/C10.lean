import ShVerif.Base.Hex
/-
  C10 — model of how the parser decides `ParseError.Incomplete` for a here-document body that
  reaches the end of the input (syntax/parser.go doHeredocs + posErr, syntax/lexer.go
  quotedHdocWord / the unquoted body path).  A body is a list of lines; the scanner compares each
  line with the stop word.  `tok`, `litLen`, `openNodes` are the three pieces of parser state that
  `posErr` reads: Incomplete := tok == _EOF && (openNodes > 0 || litLen > 0).
-/
namespace ShVerif.C10

inductive Tok | newl | eof | other
  deriving DecidableEq, Repr

structure PState where
  tok : Tok
  openNodes : Nat
  litLen : Nat
  deriving DecidableEq, Repr

/-- `Parser.Incomplete()` -/
def PState.incomplete (s : PState) : Bool := s.openNodes > 0 || s.litLen > 0

inductive Outcome
  | closed (body : List Bytes)        -- stop word found; body lines before it
  | unclosedErr (incomplete : Bool)   -- "unclosed here-document" error and its Incomplete flag
  deriving DecidableEq, Repr

/-- strip leading tabs (`<<-`) -/
def stripTabs : Bytes → Bytes
  | 9 :: r => stripTabs r
  | l => l

/-- Quoted-delimiter scanner (quotedHdocWord): a literal is started before the loop, every byte
    read is appended to it, and at EOF the function returns nil — since the fix, after setting
    `tok` to EOF.  `fixed = false` reproduces the pinned behaviour (tok stays at the newline). -/
def scanQuoted (fixed : Bool) (tabs : Bool) (stop : Bytes) (s : PState) :
    List Bytes → List Bytes → Outcome
  | [], acc =>
    -- runeEOF: the unterminated literal keeps litLen > 0 unless nothing was read at all
    let s' := { s with tok := if fixed then .eof else s.tok,
                        litLen := s.litLen + (acc.map (fun (l : Bytes) => l.length + 1)).sum + 1 }
    .unclosedErr (s'.tok == .eof && s'.incomplete)
  | line :: rest, acc =>
    let l := if tabs then stripTabs line else line
    if l = stop then .closed acc.reverse else scanQuoted fixed tabs stop s rest (l :: acc)

/-- Unquoted-delimiter path: `p.next(); p.getWord()` lexes the body as a word; at EOF the lexer
    sets tok = _EOF itself, with the word still open (`openNodes` was incremented by wordParts). -/
def scanUnquoted (tabs : Bool) (stop : Bytes) (s : PState) : List Bytes → List Bytes → Outcome
  | [], _ =>
    let s' := { s with tok := .eof, openNodes := s.openNodes + 1 }
    .unclosedErr (s'.tok == .eof && s'.incomplete)
  | line :: rest, acc =>
    let l := if tabs then stripTabs line else line
    if l = stop then .closed acc.reverse else scanUnquoted tabs stop s rest (l :: acc)

def scan (fixed quoted tabs : Bool) (stop : Bytes) (s : PState) (lines : List Bytes) : Outcome :=
  if quoted then scanQuoted fixed tabs stop s lines [] else scanUnquoted tabs stop s lines []

end ShVerif.C10
