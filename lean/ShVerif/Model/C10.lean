import ShVerif.Base.Hex
/-
  C10 — model of how the parser decides `ParseError.Incomplete` (syntax/parser.go posErr,
  Parser.Incomplete) and of the one mechanism whose incompleteness is not a consequence of the
  `openNodes` bracket alone: here-document bodies (doHeredocs, lexer.go quotedHdocWord /
  advanceLitHdoc, and the `len(p.heredocs) > p.buriedHdocs` test in Parser.next).

  Three layers, smallest first:
   1. the decision itself:   Incomplete := tok == _EOF && (openNodes > 0 || len(litBs) > 0)
   2. reading one body:      a body is a list of lines compared with the stop word
   3. scheduling:            which token makes the parser read the pending bodies — the newline
                             that ends the `<<` line, or, when that newline was lexed while the
                             pending here-documents were "buried" by preNested (`[[ … ]]`,
                             `let …`), the postNested that follows it (since a243c26)
-/
namespace ShVerif.C10

/-! ### 1. the decision -/

inductive Tok | newl | eof | other
  deriving DecidableEq, Repr

/-- the three pieces of parser state `posErr` reads -/
structure PState where
  tok : Tok
  openNodes : Nat
  litLen : Nat
  deriving DecidableEq, Repr

/-- `Parser.Incomplete()` -/
def PState.incomplete (s : PState) : Bool := s.openNodes > 0 || s.litLen > 0

/-- the `Incomplete` field `posErr` gives a new ParseError -/
def PState.errIncomplete (s : PState) : Bool := s.tok == .eof && s.incomplete

/-- `stmts` and `wordParts` bracket every statement / word part with `openNodes++ … openNodes--`;
    the parser state inside `depth` such brackets, entered from a state with none open. -/
def inBrackets (tok : Tok) (depth litLen : Nat) : PState := { tok := tok, openNodes := depth, litLen := litLen }

/-! ### 2. reading one here-document body -/

inductive Outcome
  | closed (body : List Bytes)        -- stop word found; body lines before it
  | unclosedErr (incomplete : Bool)   -- "unclosed here-document" error and its Incomplete flag
  deriving DecidableEq, Repr

/-- strip leading tabs (`<<-`) -/
def stripTabs : Bytes → Bytes
  | 9 :: r => stripTabs r
  | l => l

/-- bytes the scanner has appended to `litBs` after reading these complete lines -/
def litBytes (ls : List Bytes) : Nat := (ls.map (fun (l : Bytes) => l.length + 1)).sum

/-- Quoted-delimiter scanner (quotedHdocWord): a literal is started before the loop (`newLit`),
    every byte read is appended to it and it is never ended before the stop line; at EOF the
    function returns nil — since the fix, after setting `tok` to EOF.  `fixed = false` reproduces
    the pinned behaviour (tok stays what it was, a newline).  `s` is the state of the caller
    (`openNodes` is not touched by this path). -/
def scanQuoted (fixed : Bool) (tabs : Bool) (stop : Bytes) (s : PState) :
    List Bytes → List Bytes → Outcome
  | [], acc =>
    let s' := { s with tok := if fixed then .eof else s.tok, litLen := litBytes acc }
    .unclosedErr s'.errIncomplete
  | line :: rest, acc =>
    let l := if tabs then stripTabs line else line
    if l = stop then .closed acc.reverse else scanQuoted fixed tabs stop s rest (l :: acc)

/-- Unquoted-delimiter path: `p.next(); p.getWord()` lexes the body as a word; at EOF the lexer
    sets tok = _EOF; the literal has been ended (`endLit`) and `wordParts` has closed its own
    `openNodes` bracket again when `doHeredocs` raises the error: only the caller's brackets count. -/
def scanUnquoted (tabs : Bool) (stop : Bytes) (s : PState) : List Bytes → List Bytes → Outcome
  | [], _ =>
    let s' := { s with tok := .eof, litLen := 0 }
    .unclosedErr s'.errIncomplete
  | line :: rest, acc =>
    let l := if tabs then stripTabs line else line
    if l = stop then .closed acc.reverse else scanUnquoted tabs stop s rest (l :: acc)

def scan (fixed quoted tabs : Bool) (stop : Bytes) (s : PState) (lines : List Bytes) : Outcome :=
  if quoted then scanQuoted fixed tabs stop s lines [] else scanUnquoted tabs stop s lines []

/-- `doHeredocs` since a243c26: it brackets itself with `openNodes++ … openNodes--` while it reads
    the bodies, so that an unclosed here-document at EOF is Incomplete whoever the caller is — also
    the entry point (`Parse`, `StmtsSeq`) calling it after `stmts` has returned. -/
def readBody (quoted tabs : Bool) (stop : Bytes) (s : PState) (lines : List Bytes) : Outcome :=
  scan true quoted tabs stop { s with openNodes := s.openNodes + 1 } lines

/-! ### 3. which token reads the bodies -/

/-- The tokens of the line that holds the `<<` operator, as far as here-documents care. -/
inductive Item
  | hdoc    -- a `<<`/`<<-` redirection: `p.heredocs = append(p.heredocs, r)`
  | enter   -- preNested: `buriedHdocs = len(heredocs)`
  | leave   -- postNested: `buriedHdocs` restored; reads the bodies if the current token is a buried newline
  | newl    -- a newline token is lexed (Parser.next)
  | tok     -- any other token
  deriving DecidableEq, Repr

structure LSt where
  pending : Nat            -- len(p.heredocs)
  buried : Nat             -- p.buriedHdocs
  saved : List Nat         -- the saveState values of the enclosing preNested calls
  atNewl : Bool            -- p.tok == _Newl
  fired : Bool             -- doHeredocs has run for the pending bodies
  deriving DecidableEq, Repr

def LSt.init : LSt := { pending := 0, buried := 0, saved := [], atNewl := false, fired := false }

/-- `Parser.next` at a newline: `if p.quote != hdocWord && len(p.heredocs) > p.buriedHdocs { p.doHeredocs() }` -/
def LSt.newlineFires (s : LSt) : Bool := s.pending > s.buried

def step (s : LSt) : Item → LSt
  | .hdoc => { s with pending := s.pending + 1, atNewl := false }
  | .enter => { s with saved := s.buried :: s.saved, buried := s.pending }
  | .leave =>
    -- postNested (since a243c26): `p.quote, p.buriedHdocs = s.quote, s.buriedHdocs;
    --   if p.tok == _Newl && … len(p.heredocs) > p.buriedHdocs { p.doHeredocs() }`
    match s.saved with
    | b :: r =>
      if s.atNewl && s.pending > b then { s with buried := b, saved := r, fired := true, pending := b }
      else { s with buried := b, saved := r }
    | [] => s
  | .newl =>
    if s.newlineFires then { s with fired := true, pending := s.buried, atNewl := true }
    else { s with atNewl := true }
  | .tok => { s with atNewl := false }

def runLine (items : List Item) : LSt := items.foldl step LSt.init

/-- The outcome of parsing `<line>\n<n body lines>` + EOF, none of the lines being the stop word,
    where the body lines are themselves valid simple commands (what the harness generates):
    * doHeredocs ran on the line (at its newline token, or at the postNested that follows a buried
      newline): the bodies are read inside the statement bracket and doHeredocs' own;
    * it did not although a here-document is pending (the buried newline is not followed by a
      postNested on this line): the following lines are parsed as commands; the newline ending the
      first of them reads the bodies from inside that command's statement bracket; with no
      following line, the entry point itself calls doHeredocs after `stmts` has returned — only
      doHeredocs' own bracket is open. -/
def prefixFlag (items : List Item) (quoted : Bool) (stop : Bytes) (bodyLines : List Bytes) : Option Bool :=
  let s := runLine items
  if s.fired then
    match readBody quoted false stop (inBrackets .newl 1 0) bodyLines with
    | .unclosedErr b => some b
    | .closed _ => none
  else if s.pending = 0 then none   -- no here-document on the line
  else
    match bodyLines with
    | [] =>
      match readBody quoted false stop (inBrackets .eof 0 0) [] with
      | .unclosedErr b => some b
      | .closed _ => none
    | _ :: rest =>
      match readBody quoted false stop (inBrackets .newl 1 0) rest with
      | .unclosedErr b => some b
      | .closed _ => none

/-- doHeredocs runs while the line that holds the `<<` is lexed -/
def lineFires (items : List Item) : Bool := (runLine items).fired

end ShVerif.C10
