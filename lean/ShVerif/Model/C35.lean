import ShVerif.Base.Hex
/-
  C35 — `shfmt -w` replaces files atomically.

  A tiny file-system model and the system-call script `shfmt -w` performs for one file:
  `formatBytes` (cmd/shfmt/main.go:567–579: Lstat, regular-file check, `maybeio.WriteFile`) and
  `renameio.WriteFile` (v2.0.2: `NewPendingFile` with `WithPermissions`+`WithExistingPermissions`,
  `tempDir` probing `$TMPDIR`, `openTempFile`, `Write`, `CloseAtomicallyReplace` = fsync, close,
  rename).

  Paths are a small enumerated type: the target, the two probe files of `renameio.tempDir` and the
  temporary file (random names in the real run; the harness canonicalises them).  `rename` is atomic
  *by definition of this model* (that is the kernel's guarantee, assumed); durability (`fsync`) is
  outside the model.  Core Lean only.
-/
namespace ShVerif.C35

inductive Path
  | target      -- the file being formatted
  | probeTmp    -- `os.CreateTemp($TMPDIR, "."+base)`  (renameio.tempDir)
  | probeDir    -- `os.CreateTemp(dir(target), "."+base)`
  | temp        -- the pending file written by renameio
  deriving DecidableEq, Repr, Inhabited

inductive FKind | reg | dir | symlink | fifo | other
  deriving DecidableEq, Repr, Inhabited

structure Inode where
  bytes : Bytes
  mode : Nat            -- permission bits (0..0o777)
  kind : FKind
  deriving DecidableEq, Repr, Inhabited

/-- Directory entries, inodes, open descriptors. -/
structure FS where
  names : Path → Option Nat       -- path ↦ inode number
  inodes : Nat → Option Inode
  fds : Nat → Option Nat          -- descriptor ↦ inode number
  nextIno : Nat
  nextFd : Nat
  umask : Nat

inductive Op
  | lstat (p : Path)
  | openExcl (p : Path) (mode : Nat)   -- openat(O_RDWR|O_CREAT|O_EXCL, mode); the new fd is `nextFd`
  | fstat (fd : Nat)
  | fchmod (fd : Nat) (mode : Nat)
  | write (fd : Nat) (data : Bytes)
  | fsync (fd : Nat)
  | close (fd : Nat)
  | rename (a b : Path)
  | renameXdev (a b : Path)            -- rename(2) failing with EXDEV: no effect
  | unlink (p : Path)
  deriving DecidableEq, Repr, Inhabited

def upd {α : Type} [DecidableEq α] {β : Type} (f : α → β) (a : α) (b : β) : α → β :=
  fun x => if x = a then b else f x

/-- `perm & ^umask` for 9-bit modes. -/
def maskMode (perm umask : Nat) : Nat := perm &&& (511 ^^^ (umask &&& 511))

/-- One system call; `none` = the call fails (never happens on the scripts below: `script_runs`). -/
def step (fs : FS) : Op → Option FS
  | .lstat _ => some fs
  | .openExcl p mode =>
    match fs.names p with
    | some _ => none                          -- EEXIST
    | none =>
      some { fs with
        names := upd fs.names p (some fs.nextIno)
        inodes := upd fs.inodes fs.nextIno (some { bytes := [], mode := maskMode mode fs.umask, kind := .reg })
        fds := upd fs.fds fs.nextFd (some fs.nextIno)
        nextIno := fs.nextIno + 1
        nextFd := fs.nextFd + 1 }
  | .fstat fd => (fs.fds fd).map fun _ => fs
  | .fchmod fd mode =>
    match fs.fds fd with
    | none => none
    | some i =>
      match fs.inodes i with
      | none => none
      | some ino => some { fs with inodes := upd fs.inodes i (some { ino with mode := mode }) }
  | .write fd data =>
    match fs.fds fd with
    | none => none
    | some i =>
      match fs.inodes i with
      | none => none
      | some ino => some { fs with inodes := upd fs.inodes i (some { ino with bytes := ino.bytes ++ data }) }
  | .fsync fd => (fs.fds fd).map fun _ => fs
  | .close fd => (fs.fds fd).map fun _ => { fs with fds := upd fs.fds fd none }
  | .rename a b =>
    match fs.names a with
    | none => none
    | some i => some { fs with names := upd (upd fs.names b (some i)) a none }
  | .renameXdev a _ => (fs.names a).map fun _ => fs
  | .unlink p => (fs.names p).map fun _ => { fs with names := upd fs.names p none }

def run : List Op → FS → Option FS
  | [], fs => some fs
  | o :: os, fs => (step fs o).bind (run os)

/-- Where `renameio.tempDir` ends up putting the pending file. -/
inductive TmpCfg
  | sameFs     -- $TMPDIR usable and on the target's file system: temp file lives in $TMPDIR
  | crossDev   -- $TMPDIR usable but on another file system (probe rename fails, EXDEV): target's directory
  | noTmp      -- creating a file in $TMPDIR fails: target's directory, no probing
  deriving DecidableEq, Repr, Inhabited

/-- `renameio.tempDir("", path)`: the probing calls. -/
def probe : TmpCfg → List Op
  | .sameFs =>
    [.openExcl .probeTmp 0o600, .close 0, .openExcl .probeDir 0o600, .close 1,
     .lstat .probeDir, .rename .probeTmp .probeDir, .unlink .probeDir]
  | .crossDev =>
    [.openExcl .probeTmp 0o600, .close 0, .openExcl .probeDir 0o600, .close 1,
     .lstat .probeDir, .renameXdev .probeTmp .probeDir, .unlink .probeDir, .unlink .probeTmp]
  | .noTmp => []

/-- Descriptor number of the pending file (descriptors are numbered in order of opening). -/
def tempFd : TmpCfg → Nat
  | .noTmp => 0
  | _ => 2

/-- The calls `shfmt -w` makes for one regular file whose formatted bytes `new` differ (the
    read-only open/read/close of the file itself is left out): Lstat (filepath.WalkDir),
    Lstat (formatBytes), Lstat (NewPendingFile, permission copy), the probe, then the pending file:
    create with the file's permissions (subject to the umask), fstat, fchmod only if the umask took
    bits away, one write, fsync, close, Lstat (os.Rename), rename. -/
def writeScript (c : TmpCfg) (perm umask : Nat) (new : Bytes) : List Op :=
  [.lstat .target, .lstat .target, .lstat .target] ++ probe c ++
  [.openExcl .temp perm, .fstat (tempFd c)] ++
  (if maskMode perm umask ≠ perm then [.fchmod (tempFd c) perm] else []) ++
  [.write (tempFd c) new, .fsync (tempFd c), .close (tempFd c), .lstat .target, .rename .temp .target]

/-- What `shfmt -w <path>` does to a path whose `Lstat` says `kind`.  A symlink (to a regular
    file) is read through the link and refused on formatBytes' own Lstat (`refusing to atomically
    replace …`); a FIFO, directory or other non-regular file is decided on WalkDir's Lstat (a FIFO is
    never opened, a directory is walked).  Neither makes a call that could change the directory. -/
def shfmtW (kind : FKind) (c : TmpCfg) (perm umask : Nat) (new : Bytes) : List Op :=
  match kind with
  | .reg => writeScript c perm umask new
  | .symlink => [.lstat .target, .lstat .target]
  | _ => [.lstat .target]

/-- Where the atomic path gives up when a temporary file cannot be created (name too long for the
    random suffix, immutable or read-only directory, …): `shfmt -w` then reports the error and
    must leave the file alone. -/
inductive FailAt
  | probeTmp   -- `os.CreateTemp($TMPDIR, …)` fails: no probe, pending file attempted next to the target, fails too
  | probeDir   -- the probe file next to the target cannot be created: the `$TMPDIR` probe is removed again
  | temp       -- probing went through, creating the pending file itself fails
  deriving DecidableEq, Repr, Inhabited

/-- The calls of a `shfmt -w` run whose atomic replace fails (failed calls are not part of the
    script: they change nothing). -/
def failScript (c : TmpCfg) (at_ : FailAt) : List Op :=
  [.lstat .target, .lstat .target, .lstat .target] ++
  match c, at_ with
  | .noTmp, _ => []
  | _, .probeTmp => []
  | _, .probeDir => [.openExcl .probeTmp 0o600, .close 0, .unlink .probeTmp]
  | c, .temp => probe c

/-- The alphabet of calls a `shfmt -w` run may make *on the target's name*: `lstat`, and a rename
    of the complete pending file onto it.  Nothing that creates, truncates, writes, chmods or
    removes the target in place (descriptors only ever come from `openExcl` of a fresh name). -/
def allowedOnTarget : Op → Bool
  | .lstat _ => true
  | .openExcl p _ => p != .target
  | .rename a b => a != .target && (b != .target || a == .temp)
  | .renameXdev a _ => a != .target
  | .unlink p => p != .target
  | _ => true

/-- Initial state: only the target exists (inode 0), nothing open. -/
def init (old : Bytes) (perm umask : Nat) (kind : FKind := .reg) : FS :=
  { names := fun p => if p = .target then some 0 else none
    inodes := fun i => if i = 0 then some { bytes := old, mode := perm, kind := kind } else none
    fds := fun _ => none
    nextIno := 1, nextFd := 0, umask := umask }

/-- Reading the file at a path. -/
def lookup (fs : FS) (p : Path) : Option Inode := (fs.names p).bind fs.inodes

def allPaths : List Path := [.target, .probeTmp, .probeDir, .temp]

/-- The names that exist (directory listing of the two directories involved). -/
def listing (fs : FS) : List Path := allPaths.filter fun p => (fs.names p).isSome

/-- The target holds exactly `old` or exactly `new`, is a regular file and has mode `perm`. -/
def TargetOK (fs : FS) (old new : Bytes) (perm : Nat) : Prop :=
  ∃ ino, lookup fs .target = some ino ∧ (ino.bytes = old ∨ ino.bytes = new) ∧
    ino.mode = perm ∧ ino.kind = .reg

end ShVerif.C35
