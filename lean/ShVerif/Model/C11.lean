/-
  C11 — record types and decision procedures for the language-guard tables regenerated from
  /repo/syntax/{parser,lexer,parser_arithm}.go (ShVerif/Gen/C11.lean).  Core Lean only.
-/
namespace ShVerif.C11

/-- a `checkLang(pos, S, feature)` call or a `<x>.lang.in(S)` test, with S resolved -/
structure Guard where
  kind : String          -- "checkLang" | "in"
  file : String
  func : String
  set : List String      -- resolved variant names; ["?"] when S is not a constant expression
  negated : Bool
  feature : String
  deriving Repr, DecidableEq

/-- a composite literal of a syntax node struct, with the guard sets that dominate it -/
structure Site where
  type : String
  func : String
  flags : List String
  via : String                   -- "own" | "callers" | "none"
  effective : List (List String) -- one POSIX-free guard set per path reaching the site
  deriving Repr, DecidableEq

structure RecoverSite where
  func : String
  shape : String   -- "if-cond": `if p.recoverError() {…}`
  orElse : String  -- "error": the alternative raises a parse error
  deriving Repr, DecidableEq

def resolved (g : Guard) : Bool := !g.set.contains "?"

/-- Bash and Bats are gated together. -/
def bashBatsTogether (g : Guard) : Bool :=
  g.set.contains "LangBash" == g.set.contains "LangBats"

/-- every path to the site passes a guard set that excludes POSIX -/
def siteGuarded (s : Site) : Bool :=
  s.via != "none" && !s.effective.isEmpty && s.effective.all fun set => !set.contains "LangPOSIX" && !set.isEmpty

end ShVerif.C11
