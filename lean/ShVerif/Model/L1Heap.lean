/-
  L1 — GoSlice heap (shared by C27, C29, C32).  Core Lean only.

  A Go slice value is a header `(arr, off, len, cap)` into a heap of backing arrays; a heap of
  arrays is a list of cell lists indexed by array id (`ArrId = Nat`, allocation appends).  The
  operations mirror the Go semantics that matter for aliasing:

  * index-assign writes the (possibly shared) backing array;
  * `append` writes in place when `len < cap`, otherwise allocates a fresh array whose capacity
    is `max needed (g id oldCap needed)` for an *arbitrary* oracle `g : Grow`, so every theorem
    holds for every growth policy of the Go runtime;
  * `slices.Clone`, `slices.Insert`, `slices.Delete` (in-place shift + clear of the tail);
  * Go maps are heap objects too (`MapHeap`), `maps.Clone` allocates.

  Go panics (index out of range) are `none`.
-/
namespace ShVerif.L1

/-- Heap of backing arrays: array id ↦ cells. -/
abbrev ArrHeap (α : Type) := List (List α)

/-- A Go slice header.  `isNil` distinguishes `nil` from an empty non-nil slice. -/
structure Slice where
  arr : Nat := 0
  off : Nat := 0
  len : Nat := 0
  cap : Nat := 0
  isNil : Bool := false
deriving DecidableEq, Repr, Inhabited

/-- Go `nil`. -/
def Slice.nil : Slice := { isNil := true }
/-- Go `S{}`: non-nil, zero capacity (no storage). -/
def Slice.empty : Slice := {}

/-- Growth oracle: allocation id, old capacity, needed length ↦ proposed capacity. -/
abbrev Grow := Nat → Nat → Nat → Nat

/-- The capacity actually used: never less than what is needed. -/
def newCap (g : Grow) (id old need : Nat) : Nat := max need (g id old need)

/-- The whole backing array of an id (empty when dangling). -/
def arrOf (h : ArrHeap α) (id : Nat) : List α := h[id]?.getD []

/-- The visible cells of a slice. -/
def cells (h : ArrHeap α) (s : Slice) : List α := ((arrOf h s.arr).drop s.off).take s.len

/-- The single in-place write primitive: replace array `id` by `f` of it. -/
def updArr (h : ArrHeap α) (id : Nat) (f : List α → List α) : ArrHeap α :=
  h.set id (f (arrOf h id))

/-- Allocation appends a new array; its id is the old heap size. -/
def alloc (h : ArrHeap α) (c : List α) : ArrHeap α × Nat := (h ++ [c], h.length)

/-- Overwrite `vals` at position `off` of an array. -/
def overwrite (a : List α) (off : Nat) (vals : List α) : List α :=
  a.take off ++ vals ++ a.drop (off + vals.length)

def padTo [Inhabited α] (l : List α) (n : Nat) : List α := l ++ List.replicate (n - l.length) default

/-- `s[i]`. -/
def sliceGet? (h : ArrHeap α) (s : Slice) (i : Nat) : Option α :=
  if i < s.len then (arrOf h s.arr)[s.off + i]? else none

/-- `s[i] = v`: writes the backing array in place. -/
def sliceSet (h : ArrHeap α) (s : Slice) (i : Nat) (v : α) : Option (ArrHeap α) :=
  if i < s.len then some (updArr h s.arr fun a => a.set (s.off + i) v) else none

/-- `append(s, v)`. -/
def sliceAppend [Inhabited α] (g : Grow) (h : ArrHeap α) (s : Slice) (v : α) : ArrHeap α × Slice :=
  if s.len < s.cap then
    (updArr h s.arr fun a => a.set (s.off + s.len) v, { s with len := s.len + 1 })
  else
    let c := newCap g h.length s.cap (s.len + 1)
    (h ++ [padTo (cells h s ++ [v]) c], { arr := h.length, off := 0, len := s.len + 1, cap := c })

/-- `append(s, vs...)` one element at a time (the loops in the modelled code append singly). -/
def sliceAppendList [Inhabited α] (g : Grow) (h : ArrHeap α) (s : Slice) : List α → ArrHeap α × Slice
  | [] => (h, s)
  | v :: vs => let r := sliceAppend g h s v; sliceAppendList g r.1 r.2 vs

/-- `append(s, vs...)` in one call. -/
def sliceAppendMany [Inhabited α] (g : Grow) (h : ArrHeap α) (s : Slice) (vs : List α) : ArrHeap α × Slice :=
  if vs.isEmpty then (h, s)
  else if s.len + vs.length ≤ s.cap then
    (updArr h s.arr fun a => overwrite a (s.off + s.len) vs, { s with len := s.len + vs.length })
  else
    let c := newCap g h.length s.cap (s.len + vs.length)
    (h ++ [padTo (cells h s ++ vs) c], { arr := h.length, off := 0, len := s.len + vs.length, cap := c })

/-- `make([]T, len, cap)` filled with the given cells (exact capacity). -/
def sliceMake [Inhabited α] (h : ArrHeap α) (cs : List α) (cap : Nat) : ArrHeap α × Slice :=
  let c := max cap cs.length
  if c = 0 then (h, Slice.empty)
  else (h ++ [padTo cs c], { arr := h.length, off := 0, len := cs.length, cap := c })

/-- `slices.Clone(s)` = `append(S{}, s...)`, nil-preserving. -/
def sliceClone [Inhabited α] (g : Grow) (h : ArrHeap α) (s : Slice) : ArrHeap α × Slice :=
  if s.isNil then (h, Slice.nil)
  else if s.len = 0 then (h, Slice.empty)
  else
    let c := newCap g h.length 0 s.len
    (h ++ [padTo (cells h s) c], { arr := h.length, off := 0, len := s.len, cap := c })

/-- `slices.Insert(s, i, v)` for one value. -/
def sliceInsert [Inhabited α] (g : Grow) (h : ArrHeap α) (s : Slice) (i : Nat) (v : α) :
    Option (ArrHeap α × Slice) :=
  if s.len < i then none
  else if i = s.len then some (sliceAppend g h s v)
  else
    let cs := cells h s
    let new := cs.take i ++ [v] ++ cs.drop i
    if s.cap < s.len + 1 then
      let c := newCap g h.length s.cap (s.len + 1)
      some (h ++ [padTo new c], { arr := h.length, off := 0, len := s.len + 1, cap := c })
    else
      some (updArr h s.arr fun a => overwrite a s.off new, { s with len := s.len + 1 })

/-- `slices.Delete(s, i, j)`: in-place shift, clears the tail. -/
def sliceDelete [Inhabited α] (h : ArrHeap α) (s : Slice) (i j : Nat) : Option (ArrHeap α × Slice) :=
  if j < i ∨ s.len < j then none
  else if i = j then some (h, s)
  else
    let cs := cells h s
    let new := cs.take i ++ cs.drop j ++ List.replicate (j - i) default
    some (updArr h s.arr fun a => overwrite a s.off new, { s with len := s.len - (j - i) })

/-- `s[:k]` (k ≤ cap). -/
def sliceTo (s : Slice) (k : Nat) : Option Slice :=
  if k ≤ s.cap then some { s with len := k } else none

/-- `s[n:]` (n ≤ len). -/
def sliceFrom (s : Slice) (n : Nat) : Option Slice :=
  if n ≤ s.len then some { s with off := s.off + n, len := s.len - n, cap := s.cap - n } else none

/-! ### Go maps as heap objects -/

abbrev MapHeap (κ ν : Type) := List (List (κ × ν))

def alookup [DecidableEq κ] : List (κ × ν) → κ → Option ν
  | [], _ => none
  | (k, v) :: rest, x => if k = x then some v else alookup rest x

/-- `m[k] = v`: replace in place or add. -/
def aset [DecidableEq κ] : List (κ × ν) → κ → ν → List (κ × ν)
  | [], x, v => [(x, v)]
  | (k, w) :: rest, x, v => if k = x then (k, v) :: rest else (k, w) :: aset rest x v

def aerase [DecidableEq κ] : List (κ × ν) → κ → List (κ × ν)
  | [], _ => []
  | (k, w) :: rest, x => if k = x then rest else (k, w) :: aerase rest x

def mapOf (h : MapHeap κ ν) (id : Nat) : List (κ × ν) := h[id]?.getD []

/-- In-place update of map object `id`. -/
def updMap (h : MapHeap κ ν) (id : Nat) (f : List (κ × ν) → List (κ × ν)) : MapHeap κ ν :=
  h.set id (f (mapOf h id))

def mapAlloc (h : MapHeap κ ν) (m : List (κ × ν)) : MapHeap κ ν × Nat := (h ++ [m], h.length)

/-- `maps.Clone(m)`; `none` is the nil map. -/
def mapClone (h : MapHeap κ ν) : Option Nat → MapHeap κ ν × Option Nat
  | none => (h, none)
  | some id => (h ++ [mapOf h id], some h.length)

/-! ### Frames

`ListFr n l l'`: the first `n` objects of the heap component are untouched (and still there). -/

def ListFr (n : Nat) (l l' : List α) : Prop := n ≤ l'.length ∧ l'.take n = l.take n

/-- A slice whose storage cannot be written below the bound `n`: it has no storage at all, or its
    array was allocated at or after `n`. -/
def Owned (n : Nat) (s : Slice) : Prop := (s.len = 0 ∧ s.cap = 0) ∨ n ≤ s.arr

end ShVerif.L1
