/-
  C09 — Source positions point at the source they describe.

  (1) `Pos`: bit-exact model of syntax.Pos (nodes.go): two uint32 words, 18/14-bit line/column
      packing, clamps, `posAddCol` with its int64 arithmetic, `After`.
  (2) The expression language in which the extractor renders every node type's `Pos()`/`End()`
      body (ShVerif/Gen/C09.lean, regenerated on every run) and its evaluator over dumped trees.
  (3) Schema-erased position trees and the local / global ordering facts.
  (4) The specification of line/column: recomputed from the source bytes.
  Core Lean only.
-/
namespace ShVerif.C09

/-! ## 1. Pos -/

def offsetRecovered : Nat := 4294967295 - 10   -- math.MaxUint32 - 10
def offsetMax : Nat := 4294967295 - 11         -- math.MaxUint32 - 11
def lineBitSize : Nat := 18
def lineMax : Nat := (1 <<< lineBitSize) - 1
def colBitSize : Nat := 32 - lineBitSize
def colMax : Nat := (1 <<< colBitSize) - 1
def colBitMask : Nat := colMax

/-- conversion to uint32 -/
def u32 (n : Nat) : Nat := n % 4294967296

/-- `type Pos struct { offs, lineCol uint32 }` -/
structure Pos where
  offs : Nat
  lineCol : Nat
  deriving DecidableEq, Repr, Inhabited

/-- both words fit in 32 bits (an invariant of every Go value) -/
def Pos.wf (p : Pos) : Prop := p.offs < 4294967296 ∧ p.lineCol < 4294967296

/-- `NewPos(offset, line, column uint)`; the arguments are Go `uint`s (any natural number here). -/
def newPos (offset line column : Nat) : Pos :=
  let offset := min offset offsetMax
  let line := if line > lineMax then 0 else line
  let column := if column > colMax then 0 else column
  { offs := u32 offset, lineCol := u32 (u32 line <<< colBitSize) ||| u32 column }

def Pos.offset (p : Pos) : Nat := if p.offs > offsetMax then 0 else p.offs
def Pos.line (p : Pos) : Nat := p.lineCol >>> colBitSize
def Pos.col (p : Pos) : Nat := p.lineCol &&& colBitMask
def Pos.isValid (p : Pos) : Bool := p.offs ≤ offsetMax && p.lineCol != 0
def recoveredPos : Pos := { offs := offsetRecovered, lineCol := 0 }
def Pos.isRecovered (p : Pos) : Bool := p == recoveredPos

/-- `p.After(p2)` -/
def Pos.after (p p2 : Pos) : Bool :=
  if !p.isValid then false else decide (p.offs > p2.offs)

/-- two's complement wrap of an int64 result -/
def wrap64 (x : Int) : Int := (x + 9223372036854775808) % 18446744073709551616 - 9223372036854775808

/-- `p.lineCol &^ colBitMask` on uint32 -/
def clearCol (lc : Nat) : Nat := lc &&& (4294967295 ^^^ colBitMask)

/-- `posAddCol(p, n)`; `n` is a Go `int` (int64). -/
def posAddCol (p : Pos) (n : Int) : Pos :=
  if !p.isValid then p else
  let offs : Int := min (max (wrap64 ((p.offs : Int) + n)) 0) (offsetMax : Int)
  let col : Int := (p.col : Int)
  let col : Int :=
    if col > 0 then
      let c := wrap64 (col + n)
      if c < 1 ∨ c > (colMax : Int) then 0 else c
    else col
  { offs := u32 offs.toNat, lineCol := clearCol p.lineCol ||| u32 col.toNat }

/-- `posMax(p1, p2)` -/
def posMax (p1 p2 : Pos) : Pos := if p2.after p1 then p2 else p1

/-! ## 2. Pos()/End() bodies as expression trees -/

/-- a reference to a node, a list of nodes or a scalar field, relative to the receiver -/
inductive Ref
  | self
  | param (name : String)
  | fld (r : Ref) (name : String)
  | first (r : Ref)   -- r[0]
  | last (r : Ref)    -- r[len(r)-1]
  deriving DecidableEq, Repr, Inhabited

/-- the `n` of `posAddCol(e, n)` -/
inductive KExpr
  | const (n : Int)
  | lenTok (s : String)     -- len("done")
  | lenField (r : Ref)      -- len(c.Text)
  | lenOp (r : Ref)         -- len(c.Op.String())
  | add (a b : KExpr)
  deriving DecidableEq, Repr, Inhabited

inductive Atom
  | ref (r : Ref)     -- a Pos-typed field
  | pos (r : Ref)     -- r.Pos()
  | end_ (r : Ref)    -- r.End()
  deriving DecidableEq, Repr, Inhabited

inductive Cond
  | valid (a : Atom)
  | after (a b : Atom)
  | nonNil (r : Ref)
  | isNil (r : Ref)
  | flag (r : Ref)
  | nonEmpty (r : Ref)
  | empty (r : Ref)
  | not (c : Cond)
  | or (a b : Cond)
  | and (a b : Cond)
  | unknown
  deriving DecidableEq, Repr, Inhabited

inductive PExpr
  | atom (a : Atom)
  | addCol (e : PExpr) (n : KExpr)
  | ite (c : Cond) (a b : PExpr)
  | zero                                   -- Pos{}
  | call (fn : String) (args : List Ref)   -- stmtsPos(x.Stmts, x.Last) …
  | max (a b : PExpr)                      -- posMax
  | unknown
  deriving Repr, Inhabited

def PExpr.beq : PExpr → PExpr → Bool
  | .atom a, .atom b => a == b
  | .addCol e n, .addCol e' n' => PExpr.beq e e' && n == n'
  | .ite c a b, .ite c' a' b' => c == c' && PExpr.beq a a' && PExpr.beq b b'
  | .zero, .zero => true
  | .call f as, .call f' as' => f == f' && as == as'
  | .max a b, .max a' b' => PExpr.beq a a' && PExpr.beq b b'
  | .unknown, .unknown => true
  | _, _ => false

instance : BEq PExpr := ⟨PExpr.beq⟩

/-- constants folded: `len("done")` is 4, sums of constants are constants -/
def KExpr.norm : KExpr → KExpr
  | .lenTok s => .const s.length
  | .add a b =>
    match a.norm, b.norm with
    | .const x, .const y => .const (x + y)
    | a', b' => .add a' b'
  | k => k

def PExpr.norm : PExpr → PExpr
  | .addCol e n => .addCol e.norm n.norm
  | .ite c a b => .ite c a.norm b.norm
  | .max a b => .max a.norm b.norm
  | e => e

def PExpr.hasUnknown : PExpr → Bool
  | .addCol e _ => e.hasUnknown
  | .ite c a b => c == .unknown || a.hasUnknown || b.hasUnknown
  | .max a b => a.hasUnknown || b.hasUnknown
  | .unknown => true
  | _ => false

structure Entry where
  name : String
  pos : PExpr
  end_ : PExpr
  deriving Repr, Inhabited

structure Helper where
  name : String
  params : List String
  body : PExpr
  deriving Repr, Inhabited

def Entry.same (a b : Entry) : Bool :=
  a.name == b.name && a.pos.norm == b.pos.norm && a.end_.norm == b.end_.norm

def Helper.same (a b : Helper) : Bool :=
  a.name == b.name && a.params == b.params && a.body.norm == b.body.norm

def sameTable : List Entry → List Entry → Bool
  | [], [] => true
  | a :: as, b :: bs => a.same b && sameTable as bs
  | _, _ => false

def sameHelpers : List Helper → List Helper → Bool
  | [], [] => true
  | a :: as, b :: bs => a.same b && sameHelpers as bs
  | _, _ => false

/-! ### Dumped trees and the evaluator -/

inductive Scalar
  | pos (p : Pos)
  | flag (b : Bool)
  | len (n : Nat)      -- len of a string field, or of Op.String()
  deriving Repr, Inhabited

/-- A dumped syntax node: type index, id, the name of the parent's field it sits in, the values
    the real `Pos()`/`End()` returned, its scalar fields, its children in field order. -/
inductive VTree
  | node (ty id : Nat) (slot : String) (pos end_ : Pos) (scalars : List (String × Scalar)) (kids : List VTree)
  deriving Repr, Inhabited

def VTree.ty : VTree → Nat | .node t _ _ _ _ _ _ => t
def VTree.id : VTree → Nat | .node _ i _ _ _ _ _ => i
def VTree.slot : VTree → String | .node _ _ s _ _ _ _ => s
def VTree.pos : VTree → Pos | .node _ _ _ p _ _ _ => p
def VTree.end_ : VTree → Pos | .node _ _ _ _ e _ _ => e
def VTree.scalars : VTree → List (String × Scalar) | .node _ _ _ _ _ s _ => s
def VTree.kids : VTree → List VTree | .node _ _ _ _ _ _ k => k

abbrev Env := List (String × List VTree)

/-- `none`: the Go code would panic (nil pointer dereference, index out of range). -/
def evalRef (self : VTree) (env : Env) : Ref → Option (List VTree)
  | .self => some [self]
  | .param n => env.lookup n
  | .fld r name =>
    match evalRef self env r with
    | some [x] => some (x.kids.filter (fun k => k.slot == name))
    | _ => none
  | .first r =>
    match evalRef self env r with
    | some (x :: _) => some [x]
    | _ => none
  | .last r =>
    match evalRef self env r with
    | some (x :: xs) => some [(x :: xs).getLast (List.cons_ne_nil x xs)]
    | _ => none

def evalScalar (self : VTree) (env : Env) : Ref → Option Scalar
  | .fld r name =>
    match evalRef self env r with
    | some [x] => x.scalars.lookup name
    | _ => none
  | _ => none

def evalAtom (self : VTree) (env : Env) : Atom → Option Pos
  | .ref r => match evalScalar self env r with
    | some (.pos p) => some p
    | _ => none
  | .pos r => match evalRef self env r with
    | some [x] => some x.pos
    | _ => none
  | .end_ r => match evalRef self env r with
    | some [x] => some x.end_
    | _ => none

def evalK (self : VTree) (env : Env) : KExpr → Option Int
  | .const n => some n
  | .lenTok s => some s.length
  | .lenField r => match evalScalar self env r with
    | some (.len n) => some n
    | _ => none
  | .lenOp r => match evalScalar self env r with
    | some (.len n) => some n
    | _ => none
  | .add a b => match evalK self env a, evalK self env b with
    | some x, some y => some (wrap64 (x + y))
    | _, _ => none

def evalCond (self : VTree) (env : Env) : Cond → Option Bool
  | .valid a => (evalAtom self env a).map (·.isValid)
  | .after a b => match evalAtom self env a, evalAtom self env b with
    | some x, some y => some (x.after y)
    | _, _ => none
  | .nonNil r => (evalRef self env r).map (fun l => !l.isEmpty)
  | .isNil r => (evalRef self env r).map (fun l => l.isEmpty)
  | .flag r => match evalScalar self env r with
    | some (.flag b) => some b
    | _ => none
  | .nonEmpty r => (evalRef self env r).map (fun l => !l.isEmpty)
  | .empty r => (evalRef self env r).map (fun l => l.isEmpty)
  | .not c => (evalCond self env c).map (!·)
  | .or a b => match evalCond self env a with
    | some true => some true
    | some false => evalCond self env b
    | none => none
  | .and a b => match evalCond self env a with
    | some false => some false
    | some true => evalCond self env b
    | none => none
  | .unknown => none

def bindArgs (self : VTree) (env : Env) : List String → List Ref → Option Env
  | [], [] => some []
  | p :: ps, a :: as =>
    match evalRef self env a, bindArgs self env ps as with
    | some v, some rest => some ((p, v) :: rest)
    | _, _ => none
  | _, _ => none

/-- `fuel` bounds the nesting of helper calls (helpers do not call helpers in the real code). -/
def evalP (helpers : List Helper) (self : VTree) : Nat → Env → PExpr → Option Pos
  | _, env, .atom a => evalAtom self env a
  | f, env, .addCol e n =>
    match evalP helpers self f env e, evalK self env n with
    | some p, some k => some (posAddCol p k)
    | _, _ => none
  | f, env, .ite c a b =>
    match evalCond self env c with
    | some true => evalP helpers self f env a
    | some false => evalP helpers self f env b
    | none => none
  | _, _, .zero => some { offs := 0, lineCol := 0 }
  | f, env, .max a b =>
    match evalP helpers self f env a, evalP helpers self f env b with
    | some x, some y => some (posMax x y)
    | _, _ => none
  | 0, _, .call _ _ => none
  | f + 1, env, .call fn args =>
    match helpers.find? (fun h => h.name == fn) with
    | some h =>
      match bindArgs self env h.params args with
      | some env' => evalP helpers self f env' h.body
      | none => none
    | none => none
  | _, _, .unknown => none

mutual
  /-- ids of the nodes whose reported `Pos()`/`End()` differ from the table's expression evaluated
      on the node's own fields and its children's reported values -/
  def posEndDiffs (table : List Entry) (helpers : List Helper) : VTree → List Nat
    | .node ty id slot p e sc kids =>
      let self := VTree.node ty id slot p e sc kids
      (match table[ty]? with
       | some ent =>
         if evalP helpers self 2 [] ent.pos == some p && evalP helpers self 2 [] ent.end_ == some e then [] else [id]
       | none => [id]) ++ posEndDiffsList table helpers kids
  def posEndDiffsList (table : List Entry) (helpers : List Helper) : List VTree → List Nat
    | [] => []
    | k :: ks => posEndDiffs table helpers k ++ posEndDiffsList table helpers ks
end

/-! ## 3. Schema-erased position trees -/

/-- `slot` is the index of the parent's field the node sits in; `pos`/`end_` are byte offsets;
    `toks` are the node's own tokens (offset, length) — keywords, operators, quotes; `kids` are the
    children that the node's source text contains, in field order (elements of one list field
    are adjacent and in list order). -/
inductive PTree
  | node (id slot pos end_ : Nat) (toks : List (Nat × Nat)) (kids : List PTree)
  deriving Repr, Inhabited

def PTree.id : PTree → Nat | .node i _ _ _ _ _ => i
def PTree.slot : PTree → Nat | .node _ s _ _ _ _ => s
def PTree.pos : PTree → Nat | .node _ _ p _ _ _ => p
def PTree.end_ : PTree → Nat | .node _ _ _ e _ _ => e
def PTree.toks : PTree → List (Nat × Nat) | .node _ _ _ _ t _ => t
def PTree.kids : PTree → List PTree | .node _ _ _ _ _ k => k

/-- `r a b` for every `a` listed before `b` -/
def pairwiseB (r : PTree → PTree → Bool) : List PTree → Bool
  | [] => true
  | a :: rest => rest.all (r a) && pairwiseB r rest

/-- elements of the same list field start in source order -/
def startsBefore (a b : PTree) : Bool := a.slot != b.slot || decide (a.pos ≤ b.pos)
/-- … and do not overlap -/
def endsBefore (a b : PTree) : Bool := a.slot != b.slot || decide (a.end_ ≤ b.pos)

def tokWithin (t : PTree) (tk : Nat × Nat) : Bool := decide (t.pos ≤ tk.1) && decide (tk.1 + tk.2 ≤ t.end_)
def kidWithin (t k : PTree) : Bool := decide (t.pos ≤ k.pos) && decide (k.end_ ≤ t.end_)

/-- The facts about one node that only mention the node itself and its direct children. -/
def localNode (t : PTree) : Bool :=
  decide (t.pos ≤ t.end_) && t.toks.all (tokWithin t) && t.kids.all (kidWithin t) &&
  pairwiseB startsBefore t.kids

mutual
  def localOk : PTree → Bool
    | .node id s p e toks kids => localNode (.node id s p e toks kids) && localOkList kids
  def localOkList : List PTree → Bool
    | [] => true
    | k :: ks => localOk k && localOkList ks
end

mutual
  /-- additionally: elements of one list field do not overlap (no here-document around) -/
  def localDisjoint : PTree → Bool
    | .node _ _ _ _ _ kids => pairwiseB endsBefore kids && localDisjointList kids
  def localDisjointList : List PTree → Bool
    | [] => true
    | k :: ks => localDisjoint k && localDisjointList ks
end

mutual
  /-- all nodes of the tree, parent first -/
  def PTree.nodes : PTree → List PTree
    | .node id s p e toks kids => .node id s p e toks kids :: PTree.nodesList kids
  def PTree.nodesList : List PTree → List PTree
    | [] => []
    | k :: ks => k.nodes ++ PTree.nodesList ks
end

/-- The global statement, executed directly (quadratic): every node has `pos ≤ end`, all its tokens
    and all its descendants (and their tokens) lie within it, and the elements of each of its list
    fields start in source order. -/
def globalOk (t : PTree) : Bool :=
  t.nodes.all fun a =>
    decide (a.pos ≤ a.end_) &&
    a.nodes.all (fun d => kidWithin a d && decide (d.pos ≤ d.end_) && d.toks.all (tokWithin a)) &&
    pairwiseB startsBefore a.kids

/-- The stronger order statement: whatever lies inside an earlier element of a list field ends
    before anything inside a later element of that field starts. -/
def globalDisjoint (t : PTree) : Bool :=
  t.nodes.all fun a =>
    pairwiseB (fun k1 k2 => k1.slot != k2.slot ||
      k1.nodes.all (fun d1 => k2.nodes.all (fun d2 => decide (d1.end_ ≤ d2.pos)))) a.kids

/-! ## 4. Line and column of a byte offset, from the source bytes -/

/-- (line, col) of offset `off`, scanning `src` from its start: `line` is 1 + the number of newline
    bytes before `off`, `col` is 1 + the number of bytes since the last newline (or the start). -/
def lineColFrom (line col : Nat) : List UInt8 → Nat → Nat × Nat
  | _, 0 => (line, col)
  | [], _ + 1 => (line, col)
  | b :: rest, off + 1 =>
    if b = 10 then lineColFrom (line + 1) 1 rest off else lineColFrom line (col + 1) rest off

def lineColAt (src : List UInt8) (off : Nat) : Nat × Nat := lineColFrom 1 1 src off

end ShVerif.C09
