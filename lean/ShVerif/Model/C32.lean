import ShVerif.Base.Hex
import ShVerif.Model.L1Heap
/-
  C32 — Concurrent shell features are race-free.  Executable model, core Lean only.

  Part A: the `wait` protocol of background jobs as an interleaving system — the parent goroutine
  appends jobs to `r.bgProcs` and spawns their goroutines, each child does `*bg.exit = r2.exit;
  close(bg.done)`, `wait gN` does `<-bg.done; exit = *bg.exit` on `r.bgProcs[N-1]`; a schedule picks
  which goroutine moves next.  The happens-before edge of the model is Go's: a receive on a closed
  channel observes everything before the `close`.

  Part B: the ownership discipline of variable storage after `subshell(background=true)` on the L1
  heap of Go slices: parent and child hold *private* variable tables (the background overlay is a
  flat copy into a new map) whose `List`/`Indexes`/`Map` values initially share storage; the
  operations of interp/vars.go on either side; an interleaving of operations of the two sides.

  Part C: vocabulary of the regenerated tables (`Gen/C32.lean`).
-/
namespace ShVerif.C32
open ShVerif ShVerif.L1

/-! ## Part A — jobs and `wait` -/

/-- One background job: the cells shared by the job's goroutine and its parent (`bgProc.exit`,
    `bgProc.done`), the goroutine's program counter (0: still running the job; 1: has written
    `*bg.exit`; 2: has closed `bg.done`), and the exit status `r2.exit` the job ends with. -/
structure Job where
  exitCell : Nat := 0     -- `exit: new(exitStatus)`: zero until the child writes it
  closed : Bool := false
  pc : Nat := 0
  status : Nat := 0
deriving DecidableEq, Repr, Inhabited

/-- What the parent goroutine does. -/
inductive POp
  | spawn (status : Nat)   -- `bg := bgProc{…}; r.bgProcs = append(r.bgProcs, bg); go func(){…}()`
  | waitJob (pid : Nat)    -- `wait g<pid>`
  | waitAll                -- `wait`
  | peek (pid : Nat)       -- NOT in the code: reads `*bg.exit` without the receive (for the non-vacuity example)
deriving DecidableEq, Repr, Inhabited

/-- Result of one `wait g<pid>`: not a child, or the status read. -/
inductive WaitRes
  | notChild (pid : Nat)
  | status (pid : Nat) (read : Nat) (childPc : Nat)   -- childPc: where the job's goroutine was at the read
deriving DecidableEq, Repr, Inhabited

structure PState where
  jobs : List Job := []          -- r.bgProcs (with the cells they point to)
  prog : List POp := []          -- what the parent still has to do
  waitAllAt : Nat := 0           -- progress of a `wait` without arguments through r.bgProcs
  results : List WaitRes := []
deriving DecidableEq, Repr, Inhabited

/-- One step of job `i`'s goroutine, if it can move. -/
def childStep (st : PState) (i : Nat) : PState :=
  match st.jobs[i]? with
  | none => st
  | some j =>
    if j.pc = 0 then { st with jobs := st.jobs.set i { j with exitCell := j.status, pc := 1 } }   -- *bg.exit = r2.exit
    else if j.pc = 1 then { st with jobs := st.jobs.set i { j with closed := true, pc := 2 } }    -- close(bg.done)
    else st

/-- One step of the parent goroutine, if it can move (`<-bg.done` blocks until the channel is closed). -/
def parentStep (st : PState) : PState :=
  match st.prog with
  | [] => st
  | .spawn v :: rest => { st with jobs := st.jobs ++ [{ status := v }], prog := rest }
  | .waitJob pid :: rest =>
    if pid = 0 ∨ st.jobs.length < pid then
      { st with prog := rest, results := st.results ++ [.notChild pid] }
    else
      match st.jobs[pid - 1]? with
      | none => st
      | some j =>
        if j.closed then   -- the receive returns; then `exit = *bg.exit`
          { st with prog := rest, results := st.results ++ [.status pid j.exitCell j.pc] }
        else st            -- blocked
  | .waitAll :: rest =>
    if st.jobs.length ≤ st.waitAllAt then { st with prog := rest, waitAllAt := 0 }
    else
      match st.jobs[st.waitAllAt]? with
      | none => st
      | some j => if j.closed then { st with waitAllAt := st.waitAllAt + 1 } else st
  | .peek pid :: rest =>
    match st.jobs[pid - 1]? with
    | none => { st with prog := rest }
    | some j => { st with prog := rest, results := st.results ++ [.status pid j.exitCell j.pc] }

/-- A schedule names the goroutine that moves next: 0 the parent, i+1 the goroutine of job i.
    A goroutine that cannot move (blocked, finished, not yet spawned) leaves the state alone. -/
def exec : PState → List Nat → PState
  | st, [] => st
  | st, 0 :: rest => exec (parentStep st) rest
  | st, (i + 1) :: rest => exec (childStep st i) rest

/-- the status given to the `pid`-th spawn of a parent program -/
def spawnStatus : List POp → Nat → Option Nat
  | [], _ => none
  | .spawn v :: rest, pid => if pid = 1 then some v else spawnStatus rest (pid - 1)
  | _ :: rest, pid => spawnStatus rest pid

def usesPeek : List POp → Bool
  | [] => false
  | .peek _ :: _ => true
  | _ :: rest => usesPeek rest

/-! ## Part B — variable storage after `subshell(true)` -/

inductive Kind | unknown | string | indexed | associative
deriving DecidableEq, Repr, Inhabited

/-- `expand.Variable` as far as storage goes. -/
structure Var where
  set : Bool := false
  kind : Kind := .unknown
  str : Bytes := []
  list : Slice := Slice.nil        -- into `strs`
  indexes : Slice := Slice.nil     -- into `ints`
  map : Option Nat := none         -- a map object
deriving DecidableEq, Repr, Inhabited

/-- The storage both goroutines can reach. -/
structure Heap where
  strs : ArrHeap Bytes := []
  ints : ArrHeap Nat := []
  maps : MapHeap Bytes Bytes := []
deriving DecidableEq, Repr, Inhabited

structure Grows where
  strs : Grow
  ints : Grow

/-- One Runner's private state: its variable table (for the child the new flat overlay's map; for
    the parent the view through its own overlays), `Params`, and `dirStack`. -/
structure Side where
  vars : List (Bytes × Var) := []
  params : Slice := Slice.nil
  dirStack : Slice := Slice.nil
deriving DecidableEq, Repr, Inhabited

def Side.get (s : Side) (name : Bytes) : Var := (alookup s.vars name).getD {}
def Side.put (s : Side) (name : Bytes) (v : Var) : Side := { s with vars := aset s.vars name v }

/-! ### internal/sparse.go (as in the C27 model) -/

def searchIdx (cs : List Nat) (k : Nat) : Nat × Bool :=
  let pos := (cs.takeWhile (· < k)).length
  (pos, cs[pos]? == some k)

def isCanonical : List Nat → Nat → Bool
  | [], _ => true
  | k :: rest, i => k == i && isCanonical rest (i + 1)

def canonicalIndexes (h : Heap) (indexes : Slice) : Slice :=
  if isCanonical (cells h.ints indexes) 0 then Slice.nil else indexes

def setIndexedSparse (g : Grows) (h : Heap) (list indexes : Slice) (k : Nat) (val : Bytes) :
    Option (Heap × Slice × Slice) :=
  let r := searchIdx (cells h.ints indexes) k
  if r.2 then
    match sliceSet h.strs list r.1 val with
    | none => none
    | some s => some ({ h with strs := s }, list, indexes)
  else
    match sliceInsert g.strs h.strs list r.1 val with
    | none => none
    | some a =>
      match sliceInsert g.ints h.ints indexes r.1 k with
      | none => none
      | some b =>
        some ({ h with strs := a.1, ints := b.1 }, a.2, canonicalIndexes { h with strs := a.1, ints := b.1 } b.2)

/-- `SetIndexedElem(list, indexes, k, val)`. -/
def setIndexedElem (g : Grows) (h : Heap) (list indexes : Slice) (k : Nat) (val : Bytes) :
    Option (Heap × Slice × Slice) :=
  if indexes.isNil then
    if k < list.len then
      match sliceSet h.strs list k val with
      | none => none
      | some s => some ({ h with strs := s }, list, Slice.nil)
    else if k = list.len then
      some ({ h with strs := (sliceAppend g.strs h.strs list val).1 }, (sliceAppend g.strs h.strs list val).2, Slice.nil)
    else
      setIndexedSparse g { h with ints := (sliceMake h.ints (List.range list.len) (list.len + 1)).1 } list
        (sliceMake h.ints (List.range list.len) (list.len + 1)).2 k val
  else setIndexedSparse g h list indexes k val

def deleteIndexedSparse (h : Heap) (list indexes : Slice) (k : Nat) : Option (Heap × Slice × Slice) :=
  let r := searchIdx (cells h.ints indexes) k
  if !r.2 then some (h, list, indexes)
  else
    match sliceDelete h.strs list r.1 (r.1 + 1) with
    | none => none
    | some a =>
      match sliceDelete h.ints indexes r.1 (r.1 + 1) with
      | none => none
      | some b =>
        some ({ h with strs := a.1, ints := b.1 }, a.2, canonicalIndexes { h with strs := a.1, ints := b.1 } b.2)

/-- `DeleteIndexedElem(list, indexes, k)` with `k ≥ 0`. -/
def deleteIndexedElem (h : Heap) (list indexes : Slice) (k : Nat) : Option (Heap × Slice × Slice) :=
  if indexes.isNil then
    if list.len ≤ k then some (h, list, Slice.nil)
    else if k = list.len - 1 then
      match sliceTo list k with
      | none => none
      | some l => some (h, l, Slice.nil)
    else
      deleteIndexedSparse { h with ints := (sliceMake h.ints (List.range list.len) list.len).1 } list
        (sliceMake h.ints (List.range list.len) list.len).2 k
  else deleteIndexedSparse h list indexes k

/-! ### the operations of interp/vars.go that touch variable storage -/

/-- `slices.Clone(prev.List)`, `slices.Clone(prev.Indexes)`. -/
def cloneBoth (g : Grows) (h : Heap) (list indexes : Slice) : Heap × Slice × Slice :=
  let a := sliceClone g.strs h.strs list
  let b := sliceClone g.ints h.ints indexes
  ({ h with strs := a.1, ints := b.1 }, a.2, b.2)

/-- What either Runner can do to its variables (the index arguments are already evaluated,
    non-negative). -/
inductive Op
  | setStr (name val : Bytes)                    -- `name=val`
  | appendStr (name val : Bytes)                 -- `name+=val` (on an array: element 0)
  | setElem (name : Bytes) (k : Nat) (val : Bytes)   -- `name[k]=val` on a scalar/indexed variable
  | setKey (name key val : Bytes)                -- `name[key]=val` on an associative array
  | unsetElem (name : Bytes) (k : Nat)           -- `unset 'name[k]'`
  | unsetKey (name key : Bytes)                  -- `unset 'name[key]'`
  | arrayLit (name : Bytes) (append : Bool) (vals : List Bytes)   -- `name=(…)`, `name+=(…)`
  | mapLit (name : Bytes) (kvs : List (Bytes × Bytes))            -- `declare -A name=([k]=v …)`
  | unset (name : Bytes)
  | shift (n : Nat)                              -- `r.Params = r.Params[n:]`
  | setParams (vals : List Bytes)                -- `set -- …`
  | pushdN (dir : Bytes)                         -- `pushd -n dir`: append, then swap the top two in place
  | popdN                                        -- `popd -n`: reslice, then overwrite the new top in place
deriving DecidableEq, Repr, Inhabited

/-- `assignVal` for `name+=val`. -/
def appendStrOp (g : Grows) (h : Heap) (prev : Var) (s : Bytes) : Option (Heap × Var) :=
  match prev.kind with
  | .string | .unknown => some (h, { prev with set := true, kind := .string, str := prev.str ++ s })
  | .associative => some (h, { prev with set := true })      -- `// TODO`
  | .indexed =>
    let c := cloneBoth g h prev.list prev.indexes
    let firstIsZero : Bool := c.2.2.isNil || sliceGet? c.1.ints c.2.2 0 == some 0
    if c.2.1.len > 0 && firstIsZero then
      match sliceGet? c.1.strs c.2.1 0 with
      | none => none
      | some old =>
        match sliceSet c.1.strs c.2.1 0 (old ++ s) with     -- prev.List[0] += s, on the clone
        | none => none
        | some strs => some ({ c.1 with strs := strs }, { prev with set := true, list := c.2.1, indexes := c.2.2 })
    else
      match setIndexedElem g c.1 c.2.1 c.2.2 0 s with
      | none => none
      | some r => some (r.1, { prev with set := true, list := r.2.1, indexes := r.2.2 })

/-- `setVarWithIndex` with an integer index. -/
def setElemOp (g : Grows) (h : Heap) (prev : Var) (k : Nat) (val : Bytes) : Option (Heap × Var) :=
  match prev.kind with
  | .associative => some (h, prev)     -- not this operation's case
  | .string =>
    -- `list = append(list, prev.Str)` on a nil list
    let a := sliceAppend g.strs h.strs Slice.nil prev.str
    match setIndexedElem g { h with strs := a.1 } a.2 Slice.nil k val with
    | none => none
    | some r => some (r.1, { prev with set := true, kind := .indexed, list := r.2.1, indexes := r.2.2 })
  | .indexed =>
    let c := cloneBoth g h prev.list prev.indexes
    match setIndexedElem g c.1 c.2.1 c.2.2 k val with
    | none => none
    | some r => some (r.1, { prev with set := true, kind := .indexed, list := r.2.1, indexes := r.2.2 })
  | .unknown =>
    match setIndexedElem g h Slice.nil Slice.nil k val with
    | none => none
    | some r => some (r.1, { prev with set := true, kind := .indexed, list := r.2.1, indexes := r.2.2 })

/-- `setVarWithIndex` on an associative array: `prev.Map = maps.Clone(prev.Map)` (made when nil),
    then `prev.Map[k] = v`. -/
def setKeyOp (h : Heap) (prev : Var) (key val : Bytes) : Heap × Var :=
  let c := mapClone h.maps prev.map
  let r : MapHeap Bytes Bytes × Nat :=
    match c.2 with
    | some id => (c.1, id)
    | none => (c.1 ++ [[]], c.1.length)
  ({ h with maps := updMap r.1 r.2 fun m => aset m key val }, { prev with set := true, map := some r.2 })

/-- `unsetElem` on an indexed array. -/
def unsetElemOp (g : Grows) (h : Heap) (vr : Var) (k : Nat) : Option (Heap × Var) :=
  let c := cloneBoth g h vr.list vr.indexes
  match deleteIndexedElem c.1 c.2.1 c.2.2 k with
  | none => none
  | some r => some (r.1, { vr with list := r.2.1, indexes := r.2.2 })

/-- `unsetElem` on an associative array: `vr.Map = maps.Clone(vr.Map); delete(vr.Map, sub)`. -/
def unsetKeyOp (h : Heap) (vr : Var) (key : Bytes) : Heap × Var :=
  let c := mapClone h.maps vr.map
  match c.2 with
  | none => (h, vr)
  | some id => ({ h with maps := updMap c.1 id fun m => aerase m key }, { vr with map := some id })

/-- the element loop of an array assignment: `list, indexes = SetIndexedElem(list, indexes, index, val); index++` -/
def assignElems (g : Grows) : Heap → Slice → Slice → Nat → List Bytes → Option (Heap × Slice × Slice)
  | h, list, indexes, _, [] => some (h, list, indexes)
  | h, list, indexes, index, v :: vs =>
    match setIndexedElem g h list indexes index v with
    | none => none
    | some r => assignElems g r.1 r.2.1 r.2.2 (index + 1) vs

/-- `IndexedMax(list, indexes) + 1` -/
def nextIndex (h : Heap) (list indexes : Slice) : Nat :=
  if indexes.len > 0 then
    match sliceGet? h.ints indexes (indexes.len - 1) with
    | some k => k + 1
    | none => 0
  else list.len

/-- `assignVal` for `name=(…)` / `name+=(…)` (indexed). -/
def arrayLitOp (g : Grows) (h : Heap) (prev : Var) (append : Bool) (vals : List Bytes) : Option (Heap × Var) :=
  let base : Option (Heap × Slice × Slice) :=
    if !append then some (h, Slice.nil, Slice.nil)
    else match prev.kind with
      | .unknown => some (h, Slice.nil, Slice.nil)
      | .string =>
        let a := sliceMake h.strs [prev.str] 1       -- `list = []string{prev.Str}`
        some ({ h with strs := a.1 }, a.2, Slice.nil)
      | .indexed => some (cloneBoth g h prev.list prev.indexes)
      | .associative => none
  match base with
  | none => some (h, { prev with set := true })      -- `// TODO` for associative
  | some b =>
    match assignElems g b.1 b.2.1 b.2.2 (nextIndex b.1 b.2.1 b.2.2) vals with
    | none => none
    | some r =>
      let list := if r.2.1.isNil then Slice.empty else r.2.1     -- `if list == nil { list = []string{} }`
      some (r.1, { prev with set := true, kind := .indexed, list := list, indexes := r.2.2 })

/-- One operation on one side.  The side's table, `Params` and `dirStack` are its own; the heap is
    shared with the other goroutine. -/
def step (g : Grows) (h : Heap) (s : Side) : Op → Option (Heap × Side)
  | .setStr name val =>
    -- `name=val` on an indexed array is `name[0]=val` (setVarWithIndex falls back to index 0)
    if (s.get name).kind = .indexed then
      (setElemOp g h (s.get name) 0 val).map fun r => (r.1, s.put name r.2)
    else if (s.get name).kind = .associative then some (h, s)      -- not generated (sets the key "")
    else some (h, s.put name { (s.get name) with set := true, kind := .string, str := val })
  | .appendStr name val =>
    (appendStrOp g h (s.get name) val).map fun r => (r.1, s.put name r.2)
  | .setElem name k val =>
    (setElemOp g h (s.get name) k val).map fun r => (r.1, s.put name r.2)
  | .setKey name key val =>
    if (s.get name).kind = .associative then
      let r := setKeyOp h (s.get name) key val
      some (r.1, s.put name r.2)
    else some (h, s)
  | .unsetElem name k =>
    if (s.get name).kind = .indexed then
      (unsetElemOp g h (s.get name) k).map fun r => (r.1, s.put name r.2)
    else some (h, s)
  | .unsetKey name key =>
    if (s.get name).kind = .associative then
      let r := unsetKeyOp h (s.get name) key
      some (r.1, s.put name r.2)
    else some (h, s)
  | .arrayLit name append vals =>
    (arrayLitOp g h (s.get name) append vals).map fun r => (r.1, s.put name r.2)
  | .mapLit name kvs =>
    -- `amap := make(map[string]string, len(elems))` filled, then `prev.Map = amap`
    let id := h.maps.length
    let m := kvs.foldl (fun m kv => aset m kv.1 kv.2) []
    some ({ h with maps := h.maps ++ [m] }, s.put name { (s.get name) with set := true, kind := .associative, map := some id })
  | .unset name => some (h, s.put name {})
  | .shift n =>
    -- `if n >= len(r.Params) { r.Params = nil } else { r.Params = r.Params[n:] }`
    if s.params.len ≤ n then some (h, { s with params := Slice.nil })
    else
      match sliceFrom s.params n with
      | some p => some (h, { s with params := p })
      | none => none
  | .setParams vals =>
    let a := sliceMake h.strs vals vals.length
    some ({ h with strs := a.1 }, { s with params := a.2 })
  | .pushdN dir =>
    let a := sliceAppend g.strs h.strs s.dirStack dir
    let ds := a.2
    -- swap()
    match sliceGet? a.1 ds (ds.len - 1), sliceGet? a.1 ds (ds.len - 2) with
    | some oldtop, some top =>
      if ds.len < 2 then none
      else
        match sliceSet a.1 ds (ds.len - 1) top with
        | none => none
        | some s1 =>
          match sliceSet s1 ds (ds.len - 2) oldtop with
          | none => none
          | some s2 => some ({ h with strs := s2 }, { s with dirStack := ds })
    | _, _ => none
  | .popdN =>
    if s.dirStack.len < 2 then some (h, s)
    else
      match sliceGet? h.strs s.dirStack (s.dirStack.len - 1), sliceTo s.dirStack (s.dirStack.len - 1) with
      | some oldtop, some ds =>
        match sliceSet h.strs ds (ds.len - 1) oldtop with
        | none => none
        | some s1 => some ({ h with strs := s1 }, { s with dirStack := ds })
      | _, _ => none

/-- `Runner.subshell(true)`: the child's variables are copies of the parent's (`oenv.Set(name, vr)`
    for every variable: the `List`/`Indexes`/`Map` fields are shared), `Params: r.Params` shares the
    slice, `dirStack` is copied into the child's own `dirBootstrap` array. -/
def fork (g : Grows) (h : Heap) (p : Side) : Heap × Side :=
  let boot := sliceMake h.strs [] 1
  let boot0 : Slice := { boot.2 with len := 0 }                         -- r2.dirBootstrap[:0]
  let ds := sliceAppendMany g.strs boot.1 boot0 (cells h.strs p.dirStack)
  ({ h with strs := ds.1 }, { vars := p.vars, params := p.params, dirStack := ds.2 })

/-- Who moves: `false` the parent, `true` the child. -/
abbrev Sched := List Bool

structure Two where
  h : Heap
  parent : Side
  child : Side
deriving DecidableEq, Repr, Inhabited

/-- An interleaving of parent and child operations (a side whose turn it is with nothing left to
    do is skipped). -/
def interleave (g : Grows) : Two → List Op → List Op → Sched → Option Two
  | t, _, _, [] => some t
  | t, pops, cops, false :: rest =>
    match pops with
    | [] => interleave g t [] cops rest
    | op :: pops' =>
      match step g t.h t.parent op with
      | none => none
      | some r => interleave g { t with h := r.1, parent := r.2 } pops' cops rest
  | t, pops, cops, true :: rest =>
    match cops with
    | [] => interleave g t pops [] rest
    | op :: cops' =>
      match step g t.h t.child op with
      | none => none
      | some r => interleave g { t with h := r.1, child := r.2 } pops cops' rest

/-- The objects a side can reach: through its variables, its Params and its dirStack. -/
structure Reach where
  strs : List Nat
  ints : List Nat
  maps : List Nat
deriving DecidableEq, Repr, Inhabited

/-- the array a slice header points to, unless it has no storage at all -/
def sliceArr (s : Slice) : List Nat := if s.len = 0 ∧ s.cap = 0 then [] else [s.arr]

def reach (s : Side) : Reach :=
  { strs := s.vars.flatMap (fun nv => sliceArr nv.2.list) ++ sliceArr s.params ++ sliceArr s.dirStack,
    ints := s.vars.flatMap (fun nv => sliceArr nv.2.indexes),
    maps := s.vars.flatMap (fun nv => nv.2.map.toList) }

/-! ### the separation property -/

/-- what the *other* side can reach is unchanged by a step of the mover -/
structure UnchangedFor (h h' : Heap) (R : Reach) : Prop where
  strs : ∀ id ∈ R.strs, h'.strs[id]? = h.strs[id]?
  ints : ∀ id ∈ R.ints, h'.ints[id]? = h.ints[id]?
  maps : ∀ id ∈ R.maps, h'.maps[id]? = h.maps[id]?


/-- Separation of a whole interleaving: at every step, nothing that the side which does *not*
    move can reach — through its variables, its Params, its dirStack — is changed. -/
def Separated (g : Grows) : Two → List Op → List Op → Sched → Prop
  | _, _, _, [] => True
  | t, pops, cops, false :: rest =>
    match pops with
    | [] => Separated g t [] cops rest
    | op :: pops' =>
      match step g t.h t.parent op with
      | none => True
      | some r => UnchangedFor t.h r.1 (reach t.child) ∧ Separated g { t with h := r.1, parent := r.2 } pops' cops rest
  | t, pops, cops, true :: rest =>
    match cops with
    | [] => Separated g t pops [] rest
    | op :: cops' =>
      match step g t.h t.child op with
      | none => True
      | some r => UnchangedFor t.h r.1 (reach t.parent) ∧ Separated g { t with h := r.1, child := r.2 } pops cops' rest


/-- A well-formed parent at the moment of the fork: its slices point to existing arrays and maps,
    and no variable or `Params` shares the `dirStack` array (the interpreter never stores the
    `DIRSTACK` pseudo-variable's list). -/
structure WFp (h : Heap) (p : Side) : Prop where
  strs : ∀ id ∈ (reach p).strs, id < h.strs.length
  ints : ∀ id ∈ (reach p).ints, id < h.ints.length
  maps : ∀ id ∈ (reach p).maps, id < h.maps.length
  dirPrivate : ∀ id ∈ p.vars.flatMap (fun nv => sliceArr nv.2.list) ++ sliceArr p.params, id ∉ sliceArr p.dirStack

/-! ## Part C — vocabulary of the regenerated tables -/

/-- A field of `interp.Runner` and what `Runner.subshell` does with it. -/
structure FieldFact where
  name : String
  type : String
  how : String     -- literal:<expr> | assign:<expr> | call:<method>(…) | zero
deriving DecidableEq, Repr, Inhabited

/-- A syntactic site: function, kind, source text, whether it is inside a goroutine body. -/
structure Site where
  func : String
  kind : String
  expr : String
  inGo : Bool
deriving DecidableEq, Repr, Inhabited

/-- A goroutine start: function, form, the selectors of the enclosing method's receiver (the
    *parent* Runner) used inside the goroutine, and the variables it captures. -/
structure Spawn where
  func : String
  form : String
  parentUses : List String
  captures : List String
deriving DecidableEq, Repr, Inhabited

end ShVerif.C32
