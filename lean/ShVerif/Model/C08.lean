/-
  C08 — Streaming, interactive and reused parsers agree with Parse.

  Three small models, core Lean only:

  1. `StructTable` + `Class`: the shape of the facts regenerated from /repo/syntax/{parser,printer}.go
     about `Parser`/`Printer` and their `reset()` (ShVerif/Gen/C08.lean) and of the hand-written
     classification of every field (ShVerif/Expect/C08Scratch.lean); `covered` is the per-field
     obligation, `snapshot` the expected field values right after `reset()`.
  2. `stmtsLoop`/`parse`/`stmtsSeq`: the two statement entry points over an abstract list of loop
     iterations; both run the same loop (the call-structure fact keeps that honest).
  3. `run`: `wrappedReader.Read` + the `InteractiveSeq` glue over an abstract parser event trace.
-/
namespace ShVerif.C08

/-! ## 1. reset tables -/

structure Assign where
  field : String
  rhs : String
  deriving DecidableEq, Repr

structure Write where
  func : String
  field : String
  kind : String      -- assign | incdec | addr | literal
  deriving DecidableEq, Repr

/-- an exported method of the struct -/
structure Entry where
  name : String
  resetFirst : Bool            -- its first statement is `recv.reset()`
  assigned : List String       -- fields assigned by its top-level statements
  calls : List String          -- unexported receiver methods it calls (closures included)
  exportedCalls : List String
  fieldCalls : List String     -- method calls on receiver fields, e.g. "w.Reset"
  writes : List String         -- every field it writes anywhere in its body
  reads : List String          -- every field it mentions anywhere in its body
  deriving DecidableEq, Repr

/-- what one function does with a pointer-typed field, in source order: "read", "write-literal"
    (`&T{…}`), "write-new", "write-nil", "write-addr", "write-other" -/
structure PtrUse where
  field : String
  func : String
  events : List String
  deriving DecidableEq, Repr

structure StructTable where
  type : String
  fields : List (String × String)      -- name, Go type, in declaration order
  resetFound : Bool
  reset : List Assign                  -- the assignments of reset(), in order
  resetOther : List String             -- statements of reset() that are not field assignments
  optionFuncs : List String
  optionWrites : List Write            -- writes inside the `func(p *T)` literals of option constructors
  ctorWrites : List Write              -- keys of composite literals of the type
  otherWrites : List Write             -- every other write, outside reset()
  entries : List Entry
  ptrUses : List PtrUse                -- reads/writes of the pointer-typed fields, per function
  deriving Repr

def StructTable.fieldNames (t : StructTable) : List String := t.fields.map (·.1)

/-- the right-hand side reset() finally leaves in a field (the last assignment wins) -/
def StructTable.resetRhs (t : StructTable) (f : String) : Option String :=
  ((t.reset.filter (·.field == f)).getLast?).map (·.rhs)

/-- How a field survives reuse. -/
inductive Class
  | reset                  -- assigned a constant (or a function of configuration) by reset()
  | truncated              -- reset() assigns `f[:0]`: a reused object keeps the backing array; only
                           -- len/append/range are used, so nil (fresh) and empty (reused) agree
  | config                 -- written only by option functions and constructors
  | entry                  -- assigned/initialised by every entry point right after reset()
  | fresh                  -- pointer field: every function that touches it first assigns it the address of
                           -- a new composite literal and never assigns anything else, so no object
                           -- reachable through it survives from an earlier use
  | scratch (why : String) -- not reset; always written before it is read after a reset (hand-justified)
  | defect (id : String)   -- not reset and NOT always written before read: a recorded finding
  deriving DecidableEq, Repr

def Class.isCovered : Class → Bool
  | .defect _ => false
  | _ => true

/-- entry-point initialisation: either every reset-first method assigns the field directly
    (`assign`), or every reset-first method calls the given method on the field (`call`). -/
inductive EntryInit
  | assign
  | call (method : String)
  deriving DecidableEq, Repr

structure Expect where
  classes : List (String × Class)
  /-- how `.entry` fields are initialised -/
  entryInit : List (String × EntryInit)
  /-- (function, config field): writes of a configuration field outside options/constructors that
      are saved and restored around a nested call -/
  transientConfigWrites : List (String × String)
  /-- constructors: functions whose composite literals build a new object -/
  constructors : List String
  /-- canonical values of the constant right-hand sides of reset() -/
  consts : List (String × String)
  deriving Repr

def Expect.classOf (e : Expect) (f : String) : Option Class := e.classes.lookup f

def isTruncRhs (f rhs : String) : Bool :=
  rhs == "p." ++ f ++ "[:0]"

/-- the field a right-hand side `!p.X` reads -/
def negatedField (rhs : String) : Option String :=
  if rhs.startsWith "!p." then some (rhs.drop 3).toString else none

/-- a right-hand side the model understands: `!p.X` for a configuration field X, `&p.X` (a
    pointer into the object itself), or a constant of the table -/
def rhsKnown (e : Expect) (rhs : String) : Bool :=
  match negatedField rhs with
  | some g => e.classOf g == some .config
  | none => rhs.startsWith "&p." || (e.consts.lookup rhs).isSome

/-- the per-field obligation -/
def fieldOk (t : StructTable) (e : Expect) (f : String) : Bool :=
  match e.classOf f with
  | none => false
  | some .reset =>
    match t.resetRhs f with
    | some rhs => !isTruncRhs f rhs && rhsKnown e rhs
    | none => false
  | some .truncated =>
    match t.resetRhs f with
    | some rhs => isTruncRhs f rhs
    | none => false
  | some .config =>
    (t.resetRhs f).isNone &&
    (t.otherWrites.all fun w => w.field != f || e.transientConfigWrites.contains (w.func, f))
  | some .entry =>
    (t.resetRhs f).isNone &&
    match e.entryInit.lookup f with
    | some .assign => t.entries.all fun en => !en.resetFirst || en.assigned.contains f
    | some (.call m) => t.entries.all fun en => !en.resetFirst || en.fieldCalls.contains (f ++ "." ++ m)
    | none => false
  | some .fresh =>
    (t.resetRhs f).isNone &&
    (t.ptrUses.any fun u => u.field == f) &&
    (t.ptrUses.all fun u => u.field != f ||
      (u.events.head? == some "write-literal" && u.events.all fun ev => ev == "write-literal" || ev == "read"))
  | some (.scratch _) => (t.resetRhs f).isNone
  | some (.defect _) => true   -- recorded finding: tolerated by `coversExcept` only, never by `covers`

/-- `reset_covers` for one struct: every field is classified, and its classification is backed by
    the regenerated facts; no field is a recorded defect. -/
def covers (t : StructTable) (e : Expect) : Bool :=
  t.fieldNames.all fun f => fieldOk t e f && ((e.classOf f).map Class.isCovered).getD false

/-- the same, tolerating exactly the recorded defects -/
def coversExcept (t : StructTable) (e : Expect) (open_ : List String) : Bool :=
  t.fieldNames.all fun f => fieldOk t e f && (((e.classOf f).map Class.isCovered).getD false || open_.contains f)

/-- State reachable through pointer fields must not outlive a call: every field of pointer type is
    re-pointed by reset(), (re-)initialised by every entry point, or fresh at every use — never
    plain scratch or configuration. -/
def pointerFieldsOk (t : StructTable) (e : Expect) : Bool :=
  t.fields.all fun (f, ty) =>
    !ty.startsWith "*" ||
    (match e.classOf f with
     | some .reset | some .entry | some .fresh => true
     | _ => false)

/-- A state invariant probed on the real object through the snapshot hook: the field, when it must
    hold its idle value, and which correspondence stream / search leg probes it. -/
structure Invariant where
  field : String
  idle : String
  probedBy : String
  deriving DecidableEq, Repr

/-- The fields `Incomplete()` looks at are exactly the fields with a probed idle invariant, and
    each of them is reset by reset(). -/
def incompleteFieldsOk (t : StructTable) (e : Expect) (invs : List Invariant) : Bool :=
  (match t.entries.find? (·.name == "Incomplete") with
   | some en => en.reads == invs.map (·.field) && en.writes.isEmpty && en.calls.isEmpty
   | none => false) &&
  invs.all fun i => e.classOf i.field == some .reset

/-- every exported method starts with reset(), or touches the object only through other exported
    methods (no unexported calls, no writes) -/
def entriesOk (t : StructTable) : Bool :=
  t.entries.all fun en => en.resetFirst || (en.calls.isEmpty && en.writes.isEmpty)

/-- the frame of reset(): found, and nothing but field assignments -/
def resetFrameOk (t : StructTable) : Bool := t.resetFound && t.resetOther.isEmpty

/-- classification and struct list the same fields in the same order -/
def classifiedExactly (t : StructTable) (e : Expect) : Bool :=
  t.fieldNames == e.classes.map (·.1)

/-- option functions write configuration (or fields re-initialised by every entry point) only -/
def optionsWriteConfigOnly (t : StructTable) (e : Expect) : Bool :=
  t.optionWrites.all fun w =>
    match e.classOf w.field with
    | some .config => true
    | some .entry => true
    | some (.scratch _) => true
    | _ => false

/-! ### expected values right after reset() -/

/-- canonical rendering (as the Go hook prints it) of a right-hand side of reset(), given the
    current values of the fields it may read (configuration) -/
def rhsValue (consts : List (String × String)) (cur : String → Option String) (f rhs : String) : Option String :=
  if isTruncRhs f rhs then some "len=0"
  else if rhs.startsWith "&p." then some ("self." ++ (rhs.drop 3).toString)
  else
    match negatedField rhs with
    | some g =>
      match cur g with
      | some "true" => some "false"
      | some "false" => some "true"
      | _ => none
    | none => consts.lookup rhs

/-- the value of field `f` right after reset(), as a function of the state `s` before it -/
def resetSem (t : StructTable) (e : Expect) (s : String → Option String) (f : String) : Option String :=
  match t.resetRhs f with
  | some rhs => rhsValue e.consts s f rhs
  | none => s f

/-- `name=value` for every field that is reset (computed from the regenerated right-hand sides) or
    configuration (echoed), in declaration order; entry/scratch/defect fields are skipped -/
def snapshot (t : StructTable) (e : Expect) (cfg : List (String × String)) : List String :=
  t.fieldNames.filterMap fun f =>
    match e.classOf f with
    | some .reset | some .truncated | some .config =>
      some (f ++ "=" ++ ((resetSem t e (fun g => List.lookup g cfg) f).getD "?"))
    | _ => none

/-! ### call structure of the statement entry points -/

structure Call where
  name : String
  guard : String
  args : List String
  inClosure : Bool
  deriving DecidableEq, Repr

structure Flow where
  func : String
  found : Bool
  calls : List Call
  closures : List (String × List String)   -- named function literals and their return expressions
  deriving DecidableEq, Repr

/-- the calls with closure placement erased -/
def Flow.skeleton (f : Flow) : List (String × String × List String) :=
  f.calls.map fun c => (c.name, c.guard, c.args)

/-! ## 2. the statement loop and its two entry points -/

/-- One iteration of the loop of `Parser.stmts` at top level: `getStmt` returned `stmt`
    (`none`: nil, so `invalidStmtStart` raises an error and the loop breaks) and `p.err` is
    (non-)nil afterwards.  After an error the token is `_EOF`, so a well-formed list has its
    erroring iteration last. -/
structure Step where
  stmt : Option Nat
  err : Bool
  deriving DecidableEq, Repr

structure Yield where
  stmt : Option Nat
  err : Bool
  deriving DecidableEq, Repr

structure LoopRes where
  yields : List Yield   -- calls of the yield function, in order
  err : Bool            -- p.err ≠ nil when the loop returns
  stopped : Bool        -- yield returned false
  deriving DecidableEq, Repr

/-- `p.stmts(yield)` with no stop words, entered with `p.err == nil`.  `cont k` is what the k-th
    call (0-based) of `yield` returns. -/
def stmtsLoop (cont : Nat → Bool) : List Step → Nat → LoopRes
  | [], _ => { yields := [], err := false, stopped := false }
  | s :: rest, k =>
    match s.stmt with
    | none =>
      -- `if s == nil { p.invalidStmtStart(); break }` (or an error raised before getStmt)
      { yields := [], err := true, stopped := false }
    | some id =>
      let y : Yield := { stmt := some id, err := s.err }
      if !cont k then { yields := [y], err := s.err, stopped := true }
      else if s.err then
        -- the token is _EOF after an error: the loop condition fails
        { yields := [y], err := true, stopped := false }
      else
        let r := stmtsLoop cont rest (k + 1)
        { r with yields := y :: r.yields }

structure ParseRes where
  stmts : List Nat
  err : Bool
  deriving DecidableEq, Repr

/-- `Parser.Parse`: `stmtList` runs the loop with a collecting yield that always returns true;
    `doHeredocs` runs only when there is no error (`hdocErr`: it raises one). -/
def parse (steps : List Step) (hdocErr : Bool) : ParseRes :=
  let r := stmtsLoop (fun _ => true) steps 0
  { stmts := r.yields.filterMap (·.stmt), err := r.err || hdocErr }

/-- `Parser.StmtsSeq`: the same loop with the consumer's yield (wrapped to remember a stop);
    nothing more is yielded after a stop; a final error is yielded once more with a nil statement. -/
def stmtsSeq (cont : Nat → Bool) (steps : List Step) (hdocErr : Bool) : List Yield :=
  let r := stmtsLoop cont steps 0
  if r.stopped then r.yields
  else if r.err || hdocErr then r.yields ++ [{ stmt := none, err := true }] else r.yields

/-! ## 3. wrappedReader.Read + InteractiveSeq over a parser event trace -/

/-- What the glue observes of the parser.
    `read`: `wrappedReader.Read` is entered (the parser needs more bytes): `nl` = `p.r` is a newline
    or an escaped newline, `line` = `p.line`, `openN` = `p.openNodes`, `lit` = `len(p.litBs)`,
    `err` = `p.err ≠ nil`; `inStmt` is a ghost: a top-level statement is in progress.
    `stmt`: `StmtsSeq` yields `(s, err)`: `id` = the statement (`none`: nil), `tokNewl` = the
    current token is `_Newl`, and the same state fields sampled at that instant. -/
inductive Ev
  | read (nl : Bool) (line openN lit : Nat) (err : Bool) (inStmt : Bool)
  | stmt (id : Option Nat) (err : Bool) (tokNewl : Bool) (line openN lit : Nat)
  deriving DecidableEq, Repr

/-- one call of the consumer's function -/
structure Cb where
  stmts : List (Option Nat)
  inc : Bool        -- what `Parser.Incomplete()` answers during the callback
  err : Bool
  fromRead : Bool   -- made by wrappedReader.Read (else by the InteractiveSeq loop)
  inStmt : Bool     -- ghost of the read event (false for loop callbacks)
  deriving DecidableEq, Repr

structure G where
  lastLine : Nat := 0
  acc : List (Option Nat) := []
  cbs : List Cb := []          -- callbacks so far, in order
  stopped : Bool := false      -- the consumer has returned false
  wstopped : Bool := false     -- wrappedReader.stopped: the consumer returned false inside Read
  done : Bool := false         -- the StmtsSeq loop was left by `break`
  panic : Bool := false        -- yield was called after it had returned false (Go runtime panic)
  deriving DecidableEq, Repr

/-- the consumer is called; `stopAt = some k`: it returns false at its k-th call (0-based).
    `yieldOk`: what it returns; `yielded`: the state afterwards.  Calling it again after it has
    returned false is the Go runtime panic "range function continued iteration after function for
    loop body returned false". -/
def G.yieldOk (g : G) (stopAt : Option Nat) : Bool :=
  !g.stopped && stopAt != some g.cbs.length

def G.yielded (g : G) (stopAt : Option Nat) (cb : Cb) : G :=
  if g.stopped then { g with panic := true }
  else { g with cbs := g.cbs ++ [cb], stopped := stopAt == some g.cbs.length }

def incomplete (openN lit : Nat) : Bool := openN > 0 || lit > 0

/-- `wrappedReader.Read` up to the call of the underlying reader -/
def readTail (stopAt : Option Nat) (g : G) (nl : Bool) (line openN lit : Nat) (err inStmt : Bool) : G :=
  if nl && line > g.lastLine then
    if incomplete openN lit then
      let g' := g.yielded stopAt { stmts := g.acc, inc := true, err := err, fromRead := true, inStmt := inStmt }
      -- `w.stopped = true; return 0, io.EOF` before lastLine is updated when the consumer stops
      if g.yieldOk stopAt then { g' with lastLine := line } else { g' with wstopped := true }
    else if g.acc.isEmpty then
      let g' := g.yielded stopAt { stmts := [], inc := false, err := err, fromRead := true, inStmt := inStmt }
      if g.yieldOk stopAt then { g' with lastLine := line } else { g' with wstopped := true }
    else { g with lastLine := line }
  else g

/-- the body of the `for stmts, err := range p.StmtsSeq(&w)` loop after the append -/
def stmtTail (stopAt : Option Nat) (g : G) (err tokNewl : Bool) (line openN lit : Nat) : G :=
  if err then
    let g' := g.yielded stopAt { stmts := g.acc, inc := incomplete openN lit, err := true, fromRead := false, inStmt := false }
    -- `if !yield(…) { w.stopped = true; break }`
    if g'.panic || g.yieldOk stopAt then g' else { g' with done := true, wstopped := true }
  else if tokNewl then
    let g' := g.yielded stopAt { stmts := g.acc, inc := incomplete openN lit, err := false, fromRead := false, inStmt := false }
    if g'.panic then g'
    else if g.yieldOk stopAt then { g' with acc := [], lastLine := line + 1 } else { g' with done := true, wstopped := true }
  else g

def step (stopAt : Option Nat) (g : G) : Ev → G
  | .read nl line openN lit err inStmt =>
    if g.done || g.panic then g else readTail stopAt g nl line openN lit err inStmt
  | .stmt id err tokNewl line openN lit =>
    if g.done || g.panic then g
    else if g.wstopped then { g with done := true }   -- `if w.stopped { break }`
    else stmtTail stopAt { g with acc := g.acc ++ [id] } err tokNewl line openN lit

def Ev.isRead : Ev → Bool
  | .read .. => true
  | .stmt .. => false

/-- trace hypothesis A3 (a property of `Parser.fill`: a read error, here the io.EOF returned to a
    stopping consumer, is sticky): once wrappedReader.Read has returned EOF because the consumer
    stopped, the parser never calls Read again -/
def noReadAfterStop (stopAt : Option Nat) : G → List Ev → Bool
  | _, [] => true
  | g, e :: r => (!(g.wstopped && !g.done && e.isRead)) && noReadAfterStop stopAt (step stopAt g e) r

def runFrom (stopAt : Option Nat) (g : G) (tr : List Ev) : G := tr.foldl (step stopAt) g

def run (stopAt : Option Nat) (tr : List Ev) : G := runFrom stopAt {} tr

/-- after the loop: `if !w.stopped && p.err == nil && len(w.accumulated) > 0 { yield(w.accumulated, nil) }`
    — the statements of a last line without a newline token are handed over at EOF.
    `err`, `openN`, `lit`: the parser state when StmtsSeq has finished. -/
def finish (stopAt : Option Nat) (g : G) (err : Bool) (openN lit : Nat) : G :=
  if g.panic then g
  else if !g.wstopped && !err && !g.acc.isEmpty then
    { g.yielded stopAt { stmts := g.acc, inc := incomplete openN lit, err := false, fromRead := false, inStmt := false }
      with done := true }
  else { g with done := true }

/-- the whole of InteractiveSeq over a trace and the final parser state -/
def runAll (stopAt : Option Nat) (tr : List Ev) (err : Bool) (openN lit : Nat) : G :=
  finish stopAt (run stopAt tr) err openN lit

/-- the statements a client like gosh runs: those of the callbacks that are neither incomplete nor
    erroring -/
def ranOf (cbs : List Cb) : List Nat :=
  (cbs.filter fun cb => !cb.inc && !cb.err).flatMap fun cb => cb.stmts.filterMap id

def ran (g : G) : List Nat := ranOf g.cbs

/-- the specification: every statement the parser produced, in order -/
def allStmts : List Ev → List Nat
  | [] => []
  | .stmt (some id) _ _ _ _ _ :: r => id :: allStmts r
  | _ :: r => allStmts r

/-! ### trace hypotheses (validated on real traces by the harness, not proved of the parser) -/

def Ev.noErr : Ev → Bool
  | .read _ _ _ _ err _ => !err
  | .stmt id err _ _ _ _ => !err && id.isSome

/-- decidable checks (also run by the driver on real traces) -/
def checkNoErr (tr : List Ev) : Bool := tr.all Ev.noErr

def checkA0 (tr : List Ev) : Bool :=
  tr.all fun | .stmt _ _ _ _ openN lit => openN == 0 && lit == 0 | _ => true

def checkA2 (tr : List Ev) : Bool :=
  tr.all fun | .read true _ openN lit _ inStmt => !incomplete openN lit || inStmt | _ => true

def checkA2conv (tr : List Ev) : Bool :=
  tr.all fun | .read true _ openN lit _ inStmt => !inStmt || incomplete openN lit | _ => true

/-- `last`: whether the most recent statement event saw a newline token -/
def checkA1 : Option Bool → List Ev → Bool
  | _, [] => true
  | last, .read true _ _ _ _ false :: r => last != some false && checkA1 last r
  | last, .read _ _ _ _ _ _ :: r => checkA1 last r
  | _, .stmt _ _ tokNewl _ _ _ :: r => checkA1 (some tokNewl) r

def lastTokNewl : Option Bool → List Ev → Option Bool
  | last, [] => last
  | last, .read _ _ _ _ _ _ :: r => lastTokNewl last r
  | _, .stmt _ _ tokNewl _ _ _ :: r => lastTokNewl (some tokNewl) r

/-- no error anywhere: the program parses -/
def NoErr (tr : List Ev) : Prop := checkNoErr tr = true

/-- A0: when `StmtsSeq` yields, no node is open and no literal is being built -/
def A0 (tr : List Ev) : Prop := checkA0 tr = true

/-- A1: whenever the parser blocks after a newline between statements (`inStmt = false`), the most
    recent statement event — if there is one — saw a newline token: a statement's event follows
    the read of its last byte and of the newline that ends its line, before the next blocked read -/
def A1 (tr : List Ev) : Prop := checkA1 none tr = true

/-- A2 (the direction the property needs): at a blocked read after a newline, an open node or a
    literal under construction means that a statement is in progress -/
def A2 (tr : List Ev) : Prop := checkA2 tr = true

/-- A2 converse (prompt quality; not needed by the property) -/
def A2conv (tr : List Ev) : Prop := checkA2conv tr = true

/-- the last statement event, if any, saw a newline token: the program's last line is terminated -/
def EndsNewl (tr : List Ev) : Prop := lastTokNewl none tr ≠ some false

instance (tr : List Ev) : Decidable (NoErr tr) := inferInstanceAs (Decidable (_ = true))
instance (tr : List Ev) : Decidable (A0 tr) := inferInstanceAs (Decidable (_ = true))
instance (tr : List Ev) : Decidable (A1 tr) := inferInstanceAs (Decidable (_ = true))
instance (tr : List Ev) : Decidable (A2 tr) := inferInstanceAs (Decidable (_ = true))
instance (tr : List Ev) : Decidable (A2conv tr) := inferInstanceAs (Decidable (_ = true))
instance (tr : List Ev) : Decidable (EndsNewl tr) := inferInstanceAs (Decidable (_ ≠ _))

end ShVerif.C08
