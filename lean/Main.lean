import ShVerif.Driver.Dispatch
/-
  Line-protocol driver: one operation per line on stdin (`<prop> <op> <args…>`), one canonical
  result line on stdout.  Executes the *model's own definitions*; the Go harness runs the real
  implementation on the same lines and the check diffs the two streams.
-/
partial def loop (h : IO.FS.Stream) (out : IO.FS.Stream) : IO Unit := do
  let line ← h.getLine
  if line.isEmpty then return ()
  let l := (line.dropEndWhile (fun c => c = '\n' || c = '\r')).toString
  let toks := (l.splitOn " ").filter (· ≠ "")
  match toks with
  | [] => out.putStrLn "bad-op empty"
  | p :: args => out.putStrLn (ShVerif.Drv.dispatch p args)
  loop h out

def main : IO Unit := do
  let out ← IO.getStdout
  loop (← IO.getStdin) out
  out.flush
