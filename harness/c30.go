//go:build c30 || all

package main

import (
	"bytes"
	"context"
	"fmt"
	"os"
	"path/filepath"
	"sort"
	"strconv"
	"strings"
	"sync"
	"time"

	"mvdan.cc/sh/v3/expand"
	"mvdan.cc/sh/v3/interp"
	"mvdan.cc/sh/v3/syntax"
)

// C30 — Runner reuse is equivalent to a fresh runner.
//
// Streams
//   fields                     regenerated Runner field list vs reflection (ties the extractor)
//   file / incr                tiny statement language: real whole-file Run / one Run per statement
//                              vs the Lean model (Model/C30.lean part 3)
//   specincr                   the property itself on the tiny language: real statement-at-a-time
//                              run vs "whole-file semantics minus the end-of-file EXIT trap"
// Search legs (independent of Lean, on the real Runner, c.Fail on a difference)
//   reset   history of 1–6 generated programs, Reset, P   vs   P on a new Runner
//           (stdout, stderr, error, Exited, r.Vars, a state-dump script, hook snapshot of all fields)
//   incr    generated program whole vs one Run per top-level statement
//           (stdout must agree up to one trailing "TRAP:" line printed by an EXIT trap)
func init() { register("C30", c30) }

// ---- plumbing -------------------------------------------------------------------------------

type c30Writer struct {
	mu sync.Mutex
	w  *bytes.Buffer
}

func (s *c30Writer) Write(p []byte) (int, error) {
	s.mu.Lock()
	defer s.mu.Unlock()
	if s.w != nil {
		s.w.Write(p)
	}
	return len(p), nil
}

func (s *c30Writer) swap(b *bytes.Buffer) {
	s.mu.Lock()
	s.w = b
	s.mu.Unlock()
}

type c30Runner struct {
	r        *interp.Runner
	out, err *c30Writer
}

// c30Config is everything that distinguishes two Runners at construction time.
type c30Config struct {
	dir    string
	params []string // argument of interp.Params
}

func c30New(c *Ctx, cfg c30Config) (*c30Runner, error) {
	rr := &c30Runner{out: &c30Writer{}, err: &c30Writer{}}
	opts := []interp.RunnerOption{
		interp.StdIO(nil, rr.out, rr.err),
		interp.Dir(cfg.dir),
		interp.Env(expand.ListEnviron("PATH="+stubDir(c), "HOME="+cfg.dir, "TMPDIR="+cfg.dir, "LC_ALL=C.utf8", "EV=env")),
	}
	if len(cfg.params) > 0 {
		opts = append(opts, interp.Params(cfg.params...))
	}
	r, err := interp.New(opts...)
	if err != nil {
		return nil, err
	}
	rr.r = r
	return rr, nil
}

type c30Result struct {
	Stdout, Stderr string
	Err            string
	Exited         bool
	Panic          string
	TimedOut       bool
}

func (a c30Result) String() string {
	return fmt.Sprintf("stdout=%q stderr=%q err=%q exited=%v panic=%q timeout=%v", a.Stdout, a.Stderr, a.Err, a.Exited, a.Panic, a.TimedOut)
}

func c30ErrString(err error) string {
	if err == nil {
		return ""
	}
	return err.Error()
}

// runNodes executes the nodes one Run call after the other on rr, with one pair of output buffers
// and one context for the whole sequence (a background job started by one call may still write,
// and must not be cancelled, while a later call waits for it); it stops once Exited reports true.
// A watchdog context bounds the sequence.
func (rr *c30Runner) runNodes(nodes ...syntax.Node) (res c30Result, ran int) {
	var o, e bytes.Buffer
	rr.out.swap(&o)
	rr.err.swap(&e)
	ctx, cancel := context.WithTimeout(context.Background(), 5*time.Second)
	defer cancel()
	for _, node := range nodes {
		res.Panic = safely(func() {
			err := rr.r.Run(ctx, node)
			res.Err = c30ErrString(err)
			res.Exited = rr.r.Exited()
		})
		ran++
		if res.Exited || res.Panic != "" || ctx.Err() != nil {
			break
		}
	}
	if ctx.Err() != nil {
		res.TimedOut = true
	}
	rr.out.swap(nil)
	rr.err.swap(nil)
	res.Stdout, res.Stderr = o.String(), e.String()
	return res, ran
}

func (rr *c30Runner) run(node syntax.Node) c30Result {
	res, _ := rr.runNodes(node)
	return res
}

func c30Parse(src, name string) (*syntax.File, error) {
	return syntax.NewParser(syntax.Variant(syntax.LangBash)).Parse(strings.NewReader(src), name)
}

// runSrc runs a whole file.
func (rr *c30Runner) runSrc(src, name string) c30Result {
	f, err := c30Parse(src, name)
	if err != nil {
		return c30Result{Err: "parse: " + err.Error()}
	}
	return rr.run(f)
}

// runIncr runs the top-level statements one Run call at a time, stopping once Exited.
func (rr *c30Runner) runIncr(src, name string) (c30Result, int) {
	f, err := c30Parse(src, name)
	if err != nil {
		return c30Result{Err: "parse: " + err.Error()}, 0
	}
	nodes := make([]syntax.Node, len(f.Stmts))
	for i, st := range f.Stmts {
		nodes[i] = st
	}
	return rr.runNodes(nodes...)
}

// vars renders the declared variables of r.Vars canonically (tombstones of unset variables are
// not variables).
func c30Vars(r *interp.Runner) string {
	var ks []string
	for k, v := range r.Vars {
		if !v.Declared() {
			continue
		}
		val := ""
		switch v.Kind {
		case expand.Indexed:
			val = fmt.Sprintf("%q", v.List)
			if v.Indexes != nil {
				val += fmt.Sprint(v.Indexes)
			}
		case expand.Associative:
			var mk []string
			for a, b := range v.Map {
				mk = append(mk, fmt.Sprintf("%q:%q", a, b))
			}
			sort.Strings(mk)
			val = strings.Join(mk, ",")
		default:
			val = fmt.Sprintf("%q", v.Str)
		}
		ks = append(ks, fmt.Sprintf("%s=%v/%s/%v/%s", k, v.Kind, v.Flags(), v.Set, val))
	}
	sort.Strings(ks)
	return strings.Join(ks, " ")
}

// snapshot of all Runner fields through the hook; the backing-store annotation is dropped.
func c30Snap(r *interp.Runner) map[string]string {
	m := interp.VerifC30RunnerFields(r)
	// dirBootstrap is only the backing array of dirStack's first element: once pushd has made
	// dirStack grow, the stack lives elsewhere and the array stays zero (storage, not behaviour)
	delete(m, "dirBootstrap")
	for k, v := range m {
		if i := strings.Index(v, " usesBootstrap="); i >= 0 {
			m[k] = v[:i]
		}
	}
	return m
}

func c30SnapDiff(a, b map[string]string) string {
	var ks []string
	for k := range a {
		ks = append(ks, k)
	}
	for k := range b {
		if _, ok := a[k]; !ok {
			ks = append(ks, k)
		}
	}
	sort.Strings(ks)
	var out []string
	for _, k := range ks {
		if a[k] != b[k] {
			out = append(out, fmt.Sprintf("%s: %s ≠ %s", k, a[k], b[k]))
		}
	}
	return strings.Join(out, "; ")
}

// the state dump run after P on both runners: everything a script can observe about the shell
const c30Dump = `echo "params:$#:$*"
echo "flags:$-"
echo "status:$?"
echo "vars:${x-U}:${y-U}:${z-U}:${EV-U}:${IFS@Q}:$OPTIND:${arr[*]-U}:${m[k]-U}:${ref-U}:${opt-U}"
pwd
dirs
echo "oldpwd:${OLDPWD-U}"
shopt -o
shopt dotglob expand_aliases extglob globstar nocaseglob nullglob
trap
type f g ll
alias
f a b
getopts ab: o2 -a; echo "getopts:$o2:$OPTIND"
`

func c30SortAliases(s string) string {
	lines := strings.Split(s, "\n")
	var al []int
	for i, l := range lines {
		if strings.HasPrefix(l, "alias ") {
			al = append(al, i)
		}
	}
	vals := make([]string, len(al))
	for i, j := range al {
		vals[i] = lines[j]
	}
	sort.Strings(vals)
	for i, j := range al {
		lines[j] = vals[i]
	}
	return strings.Join(lines, "\n")
}

// ---- generator of stateful programs -----------------------------------------------------------

type c30Gen struct {
	R     *Rand
	NoArg bool // never mention $0 (statement-at-a-time leg: the known $0 divergence is excluded there)
	depth int
}

var c30Names = []string{"x", "y", "z"}
var c30Vals = []string{"1", "22", "a b", "", "v*", "$x", "${y:-d}", "$((x+1))", "$?", "$#", "q"}

func (g *c30Gen) word() string {
	r := g.R
	switch r.Intn(12) {
	case 0:
		return "$" + r.Pick(c30Names)
	case 1:
		return "\"$" + r.Pick(c30Names) + "\""
	case 2:
		return "$?"
	case 3:
		return "${" + r.Pick(c30Names) + r.Pick([]string{":-d", ":+s", "#*a", "%b*", "/a/b", ":1", "^^", "@Q"}) + "}"
	case 4:
		return "$((" + r.Pick(c30Names) + r.Pick([]string{"+1", "*2", "", "-3"}) + "))"
	case 5:
		return r.Pick([]string{"\"$@\"", "$#", "$*", "$1", "$-", "${arr[1]}", "${#arr[@]}", "${m[k]}", "$EV", "$OPTIND", "$PWD", "~", "$ref", "*"})
	case 6:
		if g.depth < 2 {
			g.depth++
			s := "$(" + g.simple() + ")"
			g.depth--
			return s
		}
	case 7:
		if !g.NoArg && r.Chance(30) {
			return "$0"
		}
	}
	return r.Pick([]string{"a", "b", "w", "1", "x y", "'q r'", "-n"})
}

func (g *c30Gen) echo() string {
	n := 1 + g.R.Intn(3)
	ws := make([]string, n)
	for i := range ws {
		ws[i] = g.word()
	}
	return "echo " + strings.Join(ws, " ")
}

// simple returns one simple command (one line, no trailing newline).
func (g *c30Gen) simple() string {
	r := g.R
	switch k := r.Intn(46); k {
	case 0, 1, 2:
		return r.Pick(c30Names) + "=" + strconv.Quote(r.Pick(c30Vals))
	case 3:
		return "export " + r.Pick(c30Names) + r.Pick([]string{"", "=e1"})
	case 4:
		return "readonly " + r.Pick(c30Names) + r.Pick([]string{"", "=r1"})
	case 5:
		return "unset " + r.Pick([]string{"x", "y", "z", "arr", "m", "-f f", "ref", "IFS", "arr[1]"})
	case 6:
		return r.Pick([]string{"arr=(1 2 3)", "arr+=(z)", "arr[5]=five", "declare -a arr=(p q)", "declare -A m=([k]=v)", "m[k]=w", "declare -n ref=x", "declare -i x=3", "declare -x y", "declare -r z=ro", "declare -p x"})
	case 7:
		// braces around the definition: in `f() { …; } && f` the parser takes the whole and-or list as
		// the function body (bash does not), which makes f call itself without end — a parser
		// matter, not a reuse matter
		return "{ " + r.Pick([]string{"f() { echo f:$1:$#; return 3; }", "f() { local x=loc; echo $x; }", "g() { f sub; x=gx; }", "f() { exit 6; }", "f() { set -- fa fb; shift; echo $1; }"}) + "; }"
	case 8:
		return r.Pick([]string{"f", "f a", "g", "f a b c", "type f", "declare -f f"})
	case 9:
		return r.Pick([]string{"alias ll='echo aliased'", "alias ll='echo '", "alias x2=ll", "unalias ll", "alias", "ll", "ll x2", "shopt -s expand_aliases", "shopt -u expand_aliases"})
	case 10, 11:
		return "set " + r.Pick([]string{"-e", "+e", "-u", "+u", "-o pipefail", "+o pipefail", "-f", "+f", "-a", "+a", "-eu", "-o errexit", "-o", "+o"})
	case 12:
		if r.Chance(12) {
			return "set -n"
		}
		return "set -x; : traced; set +x"
	case 13:
		return "shopt " + r.Pick([]string{"-s", "-u"}) + " " + r.Pick([]string{"globstar", "nullglob", "extglob", "dotglob", "nocaseglob", "expand_aliases"})
	case 14, 15:
		return r.Pick([]string{"trap 'echo TRAP:a $?' EXIT", "trap 'echo TRAP:b' EXIT", "trap - EXIT", "trap 'echo ERRTRAP $?' ERR", "trap - ERR", "trap", "trap '' EXIT"})
	case 16, 17:
		return r.Pick([]string{"cd /", "cd a", "cd a/b", "cd ..", "cd -", "cd", "cd nosuch", "pushd a", "pushd /", "popd", "dirs", "pwd", "cd \"$HOME\"", "pushd a/b"})
	case 18:
		return r.Pick([]string{"exit 3", "exit", "exit 0", "exit 300"})
	case 19:
		return r.Pick([]string{"false", "true", "(exit 4)", "! true", "! false", "nosuchcmd", "return 2", "break", "continue"})
	case 20:
		return r.Pick([]string{"set -- p q r", "set --", "shift", "shift 2", "set -- \"$x\" b", "set -- 'a b' c"})
	case 21:
		// every background job is waited for in the same snippet: under `A || B &` the whole list
		// runs in the background, and output of a job that nobody waits for may arrive after Run
		// has returned (inherent to background jobs, not to reuse)
		return r.Pick([]string{": & wait", "(exit 3) & wait", "y=5 & wait", "wait", "wait; echo $?", "{ :; } & wait $!", "wait g1", "wait g9", "echo bg & wait; echo $?"})
	case 22:
		return r.Pick([]string{"getopts ab: opt -a -b v; echo $opt $OPTIND", "getopts ab: opt -a x", "getopts ab: opt", "OPTIND=1", "OPTIND=3"}) // no grouped flags (`-ab`): a stale getopts cursor panics (C28's finding)
	case 23:
		return r.Pick([]string{"read v <<< \"in put\"; echo $v", "read x y <<< 'a b c'", "IFS=:", "IFS=", "read -r z <<EOF\nhe\\re\nEOF", "mapfile -t arr <<< $'l1\\nl2'"})
	case 24:
		return r.Pick([]string{"exec 2>/dev/null", "exec >/dev/null", "echo hidden >/dev/null", "echo e >&2"})
	case 25:
		return "eval " + strconv.Quote(r.Pick([]string{"x=9", "echo ev $x", "set -e", "exit 5", "f() { echo evf; }"}))
	case 26:
		return r.Pick([]string{"x=1 f", "y=tmp echo $y", "EV=changed", "unset EV", "export EV=exp", "HOME=/", "PWD=/fake", "OLDPWD=/o"})
	case 27:
		return r.Pick([]string{"echo ${nope?msg}", "echo ${x:?need}", "echo $((1/0))", "echo ${#x}", "let x++", "((x+=2))", "[[ $x == 1* ]]", "[ -n \"$y\" ]", "test -d a"})
	case 28:
		return "printf '%s|' " + g.word() + " " + g.word() + "; echo"
	case 29:
		return "echo x | read " + r.Pick(c30Names) + "; echo p:$?"
	case 30:
		return "false | true; echo $? ${PIPESTATUS[0]-}"
	case 31:
		return "command " + r.Pick([]string{"echo c", "-v f", "-v echo", "nosuch"})
	case 32:
		return "hash; umask >/dev/null 2>&1; times >/dev/null"
	default:
		return g.echo()
	}
}

// stmt returns one top-level statement (possibly compound, possibly several lines).
func (g *c30Gen) stmt() string {
	r := g.R
	if g.depth >= 2 {
		return g.simple()
	}
	g.depth++
	defer func() { g.depth-- }()
	switch r.Intn(22) {
	case 0:
		return "if " + g.simple() + "; then " + g.simple() + "; else " + g.simple() + "; fi"
	case 1:
		return "for i in 1 2 " + g.word() + "; do " + g.simple() + "; " + r.Pick([]string{":", "break", "continue", "echo $i", "break 3", "continue 2", "break 2"}) + "; done"
	case 2:
		return "n=0; while [ $n -lt 3 ]; do n=$((n+1)); " + g.simple() + "; done"
	case 3:
		return "{ " + g.simple() + "; " + g.simple() + "; }"
	case 4:
		return "( " + g.simple() + "; " + g.simple() + " )"
	case 5:
		return g.simple() + " && " + g.simple()
	case 6:
		return g.simple() + " || " + g.simple()
	case 7:
		return "case " + g.word() + " in a*) " + g.simple() + ";; *) " + g.simple() + ";; esac"
	case 8:
		return "for ((i=0;i<2;i++)); do " + g.simple() + "; done"
	case 9:
		return "{ " + g.simple() + "; } &\nwait"
	case 10:
		return g.simple() + "; " + g.simple()
	case 11, 12:
		// loop-control counts beyond the loop depth: the leftover levels stay in the Runner and act
		// on the next loop — state other than variables that must carry across top-level statements
		// the same way in a whole-file run and in one Run call per statement
		return r.Pick([]string{
			"for i in 1 2; do break 3; done",
			"for i in 1 2; do echo i$i; continue 3; done",
			"while true; do break 2; done",
			"for i in 1 2; do for k in x y; do break 4; done; done",
			"until false; do continue 2; break; done",
			"for ((i=0;i<3;i++)); do break 2; done",
			"lf() { for i in 1 2; do break 5; done; }; lf",
		})
	case 13, 14:
		// a loop with several statements per iteration, which leftover break/continue levels,
		// options, traps, parameters … of earlier statements show up in
		return r.Pick([]string{
			"for j in a b; do echo $j; echo after-$j; done",
			"for j in a b c; do echo $j $?; " + g.simple() + "; echo after-$j; done",
			"n=0; while [ $n -lt 2 ]; do n=$((n+1)); echo w$n; echo after-w$n; done",
			"for ((q=0;q<2;q++)); do echo q$q; echo after-q$q; done",
			"for j in \"$@\"; do echo p:$j; done; echo $# $?",
			"lg() { for j in a b; do echo $j; echo after-$j; done; }; lg",
		})
	default:
		return g.simple()
	}
}

func (g *c30Gen) program(maxStmts int) string {
	n := 1 + g.R.Intn(maxStmts)
	var sb strings.Builder
	for i := 0; i < n; i++ {
		sb.WriteString(g.stmt())
		sb.WriteString("\n")
	}
	return sb.String()
}

// ---- search leg 1: history, Reset, P  vs  P on a new Runner -----------------------------------

type c30ResetCase struct {
	hist   []string
	modes  string // per history program: 'f' whole file, 's' statement at a time, 'r' Reset before it
	p      string
	params []string
}

func (k c30ResetCase) witness() string {
	hs := make([]string, len(k.hist))
	for i, h := range k.hist {
		hs[i] = hx(h)
	}
	return fmt.Sprintf("reset params=%s modes=%s hist=%s p=%s", hx(strings.Join(k.params, "\x00")), k.modes, strings.Join(hs, ","), hx(k.p))
}

func c30ParseResetWitness(line string) (c30ResetCase, bool) {
	var k c30ResetCase
	fs := strings.Fields(line)
	if len(fs) != 5 || fs[0] != "reset" {
		return k, false
	}
	get := func(s, p string) string { return strings.TrimPrefix(s, p) }
	if ps := unhx(get(fs[1], "params=")); ps != "" {
		k.params = strings.Split(ps, "\x00")
	}
	k.modes = get(fs[2], "modes=")
	for _, h := range strings.Split(get(fs[3], "hist="), ",") {
		if h != "" {
			k.hist = append(k.hist, unhx(h))
		}
	}
	k.p = unhx(get(fs[4], "p="))
	return k, true
}

func c30Dir(c *Ctx) string {
	d := scratchDir(c)
	os.MkdirAll(filepath.Join(d, "a", "b"), 0o755)
	return d
}

// c30ResetCheck runs the case; it returns "" when the property holds, else what differs.
func c30ResetCheck(c *Ctx, k c30ResetCase) (what string, tags []string) {
	dir := c30Dir(c)
	defer os.RemoveAll(dir)
	cfg := c30Config{dir: dir, params: k.params}
	used, err := c30New(c, cfg)
	if err != nil {
		return "", []string{"new-error"}
	}
	fresh, _ := c30New(c, cfg)
	timedOut := false
	for i, h := range k.hist {
		mode := byte('f')
		if i < len(k.modes) {
			mode = k.modes[i]
		}
		var res c30Result
		switch mode {
		case 's':
			res, _ = used.runIncr(h, "")
		case 'r':
			used.r.Reset()
			res = used.runSrc(h, "")
		case 'n':
			res = used.runSrc(h, "hist.sh")
		default:
			res = used.runSrc(h, "")
		}
		if res.Panic != "" {
			tags = append(tags, "hist-panic")
		}
		if res.TimedOut {
			timedOut = true
		}
		if res.Exited {
			tags = append(tags, "hist-exited")
		}
	}
	if timedOut {
		return "", append(tags, "hist-timeout")
	}
	used.r.Reset()
	fresh.r.Reset()
	if d := c30SnapDiff(c30Snap(used.r), c30Snap(fresh.r)); d != "" {
		return "fields after Reset differ from a fresh Runner's (reused ≠ fresh): " + d, tags
	}
	a := used.runSrc(k.p, "")
	b := fresh.runSrc(k.p, "")
	if a.TimedOut || b.TimedOut {
		return "", append(tags, "p-timeout")
	}
	if a.Panic != "" && b.Panic != "" {
		return "", append(tags, "panic-both-skipped")
	}
	if a != b {
		return "running P differs: reused " + a.String() + " ≠ fresh " + b.String(), tags
	}
	if va, vb := c30Vars(used.r), c30Vars(fresh.r); va != vb {
		return "final variables differ: reused " + va + " ≠ fresh " + vb, tags
	}
	if d := c30SnapDiff(c30Snap(used.r), c30Snap(fresh.r)); d != "" {
		return "fields after P differ (reused ≠ fresh): " + d, tags
	}
	da := used.runSrc(c30Dump, "")
	db := fresh.runSrc(c30Dump, "")
	da.Stdout, db.Stdout = c30SortAliases(da.Stdout), c30SortAliases(db.Stdout)
	if da.TimedOut || db.TimedOut || (da.Panic != "" && db.Panic != "") {
		return "", append(tags, "dump-timeout-or-panic")
	}
	if da != db {
		return "state dump after P differs: reused " + da.String() + " ≠ fresh " + db.String(), tags
	}
	if a.Exited {
		tags = append(tags, "p-exited")
	}
	if a.Err != "" {
		tags = append(tags, "p-failed")
	}
	return "", tags
}

func c30GenResetCase(r *Rand) c30ResetCase {
	g := &c30Gen{R: r}
	var k c30ResetCase
	n := 1 + r.Intn(6)
	for i := 0; i < n; i++ {
		k.hist = append(k.hist, g.program(5))
		k.modes += r.Pick([]string{"f", "f", "f", "s", "r", "n"})
	}
	k.p = g.program(6)
	switch r.Intn(6) {
	case 0:
		k.params = []string{"--", "p1", "p 2"}
	case 1:
		k.params = []string{"-u"}
	case 2:
		k.params = []string{"-e", "--", "only"}
	case 3:
		k.params = []string{"-o", "pipefail", "-f"}
	}
	return k
}

// ---- search leg 2: whole file vs one Run per top-level statement ------------------------------

func c30IncrWitness(name, src string) string {
	n := name
	if n == "" {
		n = "-"
	}
	return fmt.Sprintf("incr name=%s src=%s", n, hx(src))
}

func c30ParseIncrWitness(line string) (name, src string, ok bool) {
	fs := strings.Fields(line)
	if len(fs) != 3 || fs[0] != "incr" {
		return "", "", false
	}
	name = strings.TrimPrefix(fs[1], "name=")
	if name == "-" {
		name = ""
	}
	return name, unhx(strings.TrimPrefix(fs[2], "src=")), true
}

// c30IncrCheck: same output, variables and final status, except for the EXIT trap, which only the
// whole-file run triggers (the generator's EXIT traps print exactly one line starting "TRAP:").
func c30IncrCheck(c *Ctx, name, src string) (what string, tags []string) {
	if _, err := c30Parse(src, name); err != nil {
		return "", []string{"parse-error"}
	}
	dir := c30Dir(c)
	defer os.RemoveAll(dir)
	cfg := c30Config{dir: dir, params: []string{"--", "p1", "p2"}}
	wr, err := c30New(c, cfg)
	if err != nil {
		return "", []string{"new-error"}
	}
	ir, _ := c30New(c, cfg)
	w := wr.runSrc(src, name)
	i, nrun := ir.runIncr(src, name)
	if w.TimedOut || i.TimedOut {
		return "", []string{"timeout"}
	}
	if w.Panic != "" && i.Panic != "" {
		// a Go panic in both runs is property C28's business; what Run "returned" is undefined
		return "", []string{"panic-both-skipped"}
	}
	tags = append(tags, fmt.Sprintf("runs=%d", min(nrun, 6)))
	if i.Exited {
		tags = append(tags, "exited")
	}
	// the whole-file output is the incremental output plus, when the shell did not exit by
	// itself, at most the EXIT trap's line
	rest, ok := strings.CutPrefix(w.Stdout, i.Stdout)
	trapLine := ok && rest != "" && strings.HasPrefix(rest, "TRAP:") && strings.Count(rest, "\n") == 1 && strings.HasSuffix(rest, "\n")
	if !ok || (rest != "" && (!trapLine || i.Exited)) {
		return fmt.Sprintf("stdout differs: whole file %q, statement at a time %q", w.Stdout, i.Stdout), tags
	}
	if trapLine {
		tags = append(tags, "exit-trap-at-eof")
	}
	if w.Stderr != i.Stderr {
		// the EXIT trap, which only the whole-file run triggers, is exempt on stderr as well: when it
		// ran at the end of the file (its TRAP: line is on stdout) and xtrace happened to be on, the
		// whole-file run additionally traces the trap's command ("+ echo 'TRAP:…'")
		extra, isPrefix := strings.CutPrefix(w.Stderr, i.Stderr)
		trapTrace := trapLine && isPrefix && strings.HasPrefix(extra, "+ echo ") && strings.Contains(extra, "TRAP:") && strings.Count(extra, "\n") == 1
		if !trapTrace {
			return fmt.Sprintf("stderr differs: whole file %q, statement at a time %q", w.Stderr, i.Stderr), tags
		}
		tags = append(tags, "exit-trap-xtrace")
	}
	if w.Err != i.Err || w.Exited != i.Exited || w.Panic != i.Panic {
		return fmt.Sprintf("final status differs: whole file err=%q exited=%v panic=%q, statement at a time err=%q exited=%v panic=%q", w.Err, w.Exited, w.Panic, i.Err, i.Exited, i.Panic), tags
	}
	if va, vb := c30Vars(wr.r), c30Vars(ir.r); va != vb {
		return "final variables differ: whole file " + va + " ≠ statement at a time " + vb, tags
	}
	return "", tags
}

// ---- tiny statement language (model tie + spec) ----------------------------------------------

var c30TinyWords = []string{"a", "b", "w1", "zz"}

func c30TinySimple(r *Rand, allowArg0 bool) (tok, sh string) {
	x := r.Pick(c30Names)
	switch k := r.Intn(20); {
	case k < 3:
		v := r.Pick(c30TinyWords)
		return "A." + x + "." + v, x + "=" + v
	case k < 4:
		return "U." + x, "unset " + x
	case k < 7:
		w := r.Pick(c30TinyWords)
		return "E." + w, "echo " + w
	case k < 9:
		return "V." + x, "echo \"$" + x + "\""
	case k < 12:
		return "Q", "echo $?"
	case k < 13 && allowArg0:
		return "Z", "echo $0"
	case k < 15:
		n := r.Pick([]string{"0", "1", "2", "7", "255"})
		return "S." + n, "(exit " + n + ")"
	case k < 16:
		if r.Bool() {
			return "X", "exit"
		}
		n := r.Pick([]string{"0", "3", "9", "256", "300"})
		return "X." + n, "exit " + n
	case k < 18:
		if r.Bool() {
			return "e+", "set -e"
		}
		return "e-", "set +e"
	case k < 19 && r.Chance(25):
		return "N", "set -n"
	}
	w := r.Pick(c30TinyWords)
	return "E." + w, "echo " + w
}

func c30TinyProgram(r *Rand, allowArg0 bool) (toks []string, src string) {
	n := r.Intn(7)
	var lines []string
	for i := 0; i < n; i++ {
		if r.Chance(18) {
			m := r.Intn(4)
			var bt, bs []string
			for j := 0; j < m; j++ {
				t, s := c30TinySimple(r, allowArg0)
				bt = append(bt, t)
				bs = append(bs, s)
			}
			if m == 0 {
				toks = append(toks, "T")
				lines = append(lines, "trap - EXIT")
			} else {
				toks = append(toks, "T:"+strings.Join(bt, ":"))
				lines = append(lines, "trap '"+strings.Join(bs, "; ")+"' EXIT")
			}
			continue
		}
		t, s := c30TinySimple(r, allowArg0)
		toks = append(toks, t)
		lines = append(lines, s)
	}
	return toks, strings.Join(lines, "\n") + "\n"
}

// canonical answer of a real run in the driver's format
func c30TinyObs(rr *c30Runner, res c30Result) string {
	if res.Panic != "" {
		return "panic " + hx(res.Panic)
	}
	lines := strings.Split(res.Stdout, "\n")
	if len(lines) > 0 && lines[len(lines)-1] == "" {
		lines = lines[:len(lines)-1]
	}
	var vs []string
	for _, x := range c30Names {
		if v, ok := rr.r.Vars[x]; ok && v.IsSet() && v.Kind == expand.String {
			vs = append(vs, x+"="+v.Str)
		}
	}
	status := 0
	if res.Err != "" {
		if n, ok := strings.CutPrefix(res.Err, "exit status "); ok {
			status, _ = strconv.Atoi(n)
		} else {
			status = -1
		}
	}
	ex := "0"
	if res.Exited {
		ex = "1"
	}
	return fmt.Sprintf("out=%d:%s vars=%s status=%d exited=%s", len(lines), strings.Join(lines, ","), strings.Join(vs, ","), status, ex)
}

func c30Tiny(c *Ctx, toks []string, src, name string, spec bool) {
	dir := c30Dir(c)
	defer os.RemoveAll(dir)
	cfg := c30Config{dir: dir}
	n := name
	if n == "" {
		n = "-"
	}
	args := ""
	if len(toks) > 0 {
		args = " " + strings.Join(toks, " ")
	}
	if wr, err := c30New(c, cfg); err == nil {
		res := wr.runSrc(src, name)
		c.Op("file "+n+args, c30TinyObs(wr, res))
	}
	if ir, err := c30New(c, cfg); err == nil {
		res, _ := ir.runIncr(src, name)
		obs := c30TinyObs(ir, res)
		c.Op("incr"+args, obs)
		if spec {
			// the spec has no Exited observation
			c.Op("specincr "+n+args, strings.TrimSuffix(strings.TrimSuffix(obs, "exited=1"), "exited=0")+"exited=0")
		}
	}
}

// ---- main ----------------------------------------------------------------------------------------

func c30(c *Ctx) {
	c.Rule = "reset: the history ran ≥1 program and P produced output, failed or exited; incr: the file has ≥2 top-level statements; tiny: program non-empty"
	if c.Shard == 0 {
		c.Op("fields", strings.Join(interp.VerifC30FieldNames(), " "))
	}
	// corpus first: `reset …` and `incr …` witnesses
	for _, line := range c.CorpusLines() {
		if k, ok := c30ParseResetWitness(line); ok {
			what, tags := c30ResetCheck(c, k)
			c.Case(line, true, append(tags, "corpus", "leg=reset")...)
			if what != "" {
				c.Fail(k.witness(), what)
			}
			continue
		}
		if name, src, ok := c30ParseIncrWitness(line); ok {
			what, tags := c30IncrCheck(c, name, src)
			c.Case(line, true, append(tags, "corpus", "leg=incr")...)
			if what != "" {
				c.Fail(c30IncrWitness(name, src), what)
			}
		}
	}
	for it := 0; it < c.N; it++ {
		r := c.R.Fork(fmt.Sprintf("case%d", it))
		switch it % 4 {
		case 0: // reset leg
			k := c30GenResetCase(r)
			what, tags := c30ResetCheck(c, k)
			c.Case(k.witness(), true, append(tags, "leg=reset", fmt.Sprintf("hist=%d", len(k.hist)))...)
			if what != "" {
				c.Fail(k.witness(), what)
			}
		case 1: // incremental leg; $0 in a named file is the known divergence, excluded here
			name := r.Pick([]string{"", "", "f.sh", "/abs/dir/prog"})
			g := &c30Gen{R: r, NoArg: name != ""}
			src := g.program(7)
			what, tags := c30IncrCheck(c, name, src)
			c.Case(c30IncrWitness(name, src), strings.Count(src, "\n") >= 2, append(tags, "leg=incr", "named="+strconv.FormatBool(name != ""))...)
			if what != "" {
				c.Fail(c30IncrWitness(name, src), what)
			}
		default: // tiny language: model tie and spec
			name := r.Pick([]string{"", "", "f.sh"})
			toks, src := c30TinyProgram(r, name == "")
			c30Tiny(c, toks, src, name, true)
			c.Case("tiny "+name+" "+strings.Join(toks, " "), len(toks) > 0, "leg=tiny", fmt.Sprintf("stmts=%d", len(toks)))
		}
	}
}
