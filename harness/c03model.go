//go:build c03 || all

package main

import (
	"bytes"
	"fmt"
	"strings"

	"mvdan.cc/sh/v3/syntax"
)

// Correspondence streams of the concrete C03 model (lean/ShVerif/Model/C03.lean): programs of the
// intersection of the L4 syntax fragment F0 and the L5 interpreter skeleton — builtins true : false
// exit echo set, lists, && || | !, ( ) and { } — written with layout noise and single quotes.
//
//   run <lang> <hexsrc>             tie: interp.Runner on the text  vs  L4 parse → toL5 → L5 runFile
//   specfmt <opts> <lang> <hexsrc>  spec: format with <opts>, run original and formatted, "same"

type c03Frag struct {
	r     *Rand
	depth int
}

func (g *c03Frag) blank() string {
	return g.r.Pick([]string{" ", " ", " ", "  ", "\t", "   "})
}

// quoteNoise writes a word with random single-quoted pieces; the field value stays w.
func (g *c03Frag) quoteNoise(w string) string {
	if w == "" {
		return "''"
	}
	switch g.r.Intn(6) {
	case 0:
		return "'" + w + "'"
	case 1:
		k := g.r.Intn(len(w) + 1)
		return w[:k] + "'" + w[k:] + "'"
	case 2:
		k := g.r.Intn(len(w) + 1)
		return "'" + w[:k] + "'" + w[k:]
	case 3:
		k := g.r.Intn(len(w) + 1)
		return w[:k] + "''" + w[k:]
	}
	return w
}

func (g *c03Frag) arg() string {
	r := g.r
	switch r.Intn(8) {
	case 0:
		return "'" + r.Pick([]string{"a b", "x  y", " lead", "trail ", "$HOME", "a;b", "p|q", "(", "#c", "two\nlines", "*", "\"q\""}) + "'"
	case 1:
		return r.Pick([]string{"a", "b"}) + "'" + r.Pick([]string{" ", "  ", "&"}) + "'" + r.Pick([]string{"c", "d"})
	case 2:
		return r.Pick([]string{"0", "1", "42", "007"})
	default:
		return g.quoteNoise(r.Pick([]string{"a", "bb", "foo", "x-y", "A.B", "1/2", "k:v", "u_v", "n@m", "p%q", "+x", "e,f", "c^d"}))
	}
}

func (g *c03Frag) simple() string {
	r := g.r
	b := g.blank
	switch r.Intn(16) {
	case 0, 1:
		s := g.quoteNoise("true")
		if r.Chance(25) {
			s += b() + g.arg()
		}
		return s
	case 2:
		return ":" + func() string {
			if r.Chance(30) {
				return b() + g.arg()
			}
			return ""
		}()
	case 3, 4:
		return g.quoteNoise("false")
	case 5:
		if r.Chance(50) {
			return "exit"
		}
		return "exit" + b() + r.Pick([]string{"0", "1", "2", "3", "7", "42", "255", "256", "300", "0007"})
	case 6:
		return "set" + b() + r.Pick([]string{"-e", "+e", "-e", "-o pipefail", "+o pipefail", "-o" + b() + "pipefail"})
	case 7:
		return "echo"
	default:
		s := g.quoteNoise("echo")
		for i, n := 0, 1+r.Intn(3); i < n; i++ {
			a := g.arg()
			if i == 0 && strings.HasPrefix(strings.Trim(a, "'"), "-") {
				a = "x"
			}
			s += b() + a
		}
		return s
	}
}

func (g *c03Frag) pipeline() string {
	r := g.r
	s := ""
	if r.Chance(15) {
		s = "!" + g.blank()
	}
	s += g.cmd()
	for r.Chance(15) {
		s += r.Pick([]string{" | ", "|", " |\n", " | "}) + g.cmd()
	}
	return s
}

func (g *c03Frag) andOr() string {
	s := g.pipeline()
	for g.r.Chance(30) {
		s += g.r.Pick([]string{" && ", " || ", "&&", "||", " &&\n", " ||\n\t"}) + g.pipeline()
	}
	return s
}

func (g *c03Frag) list(n int, closing bool) string {
	var sb strings.Builder
	for i := 0; i < n; i++ {
		sb.WriteString(g.andOr())
		last := i == n-1
		switch {
		case last && !closing:
			sb.WriteString(g.r.Pick([]string{"\n", "\n", ";\n", " ;\n", "\n\n"}))
		case last:
			sb.WriteString(g.r.Pick([]string{";", " ;", "\n", ";\n", "\n\n"}))
		default:
			sb.WriteString(g.r.Pick([]string{"; ", ";", "\n", "\n\n", " ;  ", "\n\t", ";\n"}))
		}
	}
	return sb.String()
}

func (g *c03Frag) cmd() string {
	r := g.r
	if g.depth <= 0 || r.Chance(70) {
		return g.simple()
	}
	g.depth--
	defer func() { g.depth++ }()
	if r.Bool() {
		return "(" + r.Pick([]string{"", " ", "\n"}) + g.list(1+r.Intn(3), true) + r.Pick([]string{"", " "}) + ")"
	}
	return "{" + r.Pick([]string{" ", "\n", "\t"}) + g.list(1+r.Intn(3), true) + r.Pick([]string{"", " "}) + "}"
}

func c03FragProgram(r *Rand) string {
	g := &c03Frag{r: r, depth: 3}
	src := g.list(1+r.Intn(6), false)
	// `((` would open an arithmetic command
	for strings.Contains(src, "((") {
		src = strings.ReplaceAll(src, "((", "( (")
	}
	return src
}

var c03ModelOpts = []struct {
	name string
	opts []syntax.PrinterOption
}{
	{"i0", nil},
	{"i0,mn", []syntax.PrinterOption{syntax.Minify(true)}},
	{"i0,sl", []syntax.PrinterOption{syntax.SingleLine(true)}},
	{"i2,bn,ci", []syntax.PrinterOption{syntax.Indent(2), syntax.BinaryNextLine(true), syntax.SwitchCaseIndent(true)}},
	{"i8,sr,fn", []syntax.PrinterOption{syntax.Indent(8), syntax.SpaceRedirects(true), syntax.FunctionNextLine(true)}},
	{"i4,bn,mn", []syntax.PrinterOption{syntax.Indent(4), syntax.BinaryNextLine(true), syntax.Minify(true)}},
	{"i0,mn,sl", []syntax.PrinterOption{syntax.Minify(true), syntax.SingleLine(true)}},
	{"i3,sl", []syntax.PrinterOption{syntax.Indent(3), syntax.SingleLine(true)}},
}

func c03RunAnswer(c *Ctx, lang syntax.LangVariant, src string) string {
	res := runInterp(c, lang, src)
	switch {
	case res.TimedOut:
		return "timeout"
	case res.Panic != "":
		return "panic"
	case res.Err != "":
		return "error"
	}
	return fmt.Sprintf("ran %s %d", hx(res.Stdout), res.Status)
}

func c03SpecFmtAnswer(c *Ctx, lang syntax.LangVariant, opts []syntax.PrinterOption, src string) string {
	file, err, pn := parseIn(src, lang)
	if pn != "" || err != nil {
		return "noparse-src"
	}
	var b bytes.Buffer
	var perr error
	if p := safely(func() { perr = syntax.NewPrinter(opts...).Print(&b, file) }); p != "" {
		return "panic"
	}
	if perr != nil {
		return "refused"
	}
	if _, err, pn := parseIn(b.String(), lang); pn != "" || err != nil {
		return "reparse-fail"
	}
	for try := 0; ; try++ {
		o1 := runInterp(c, lang, src)
		o2 := runInterp(c, lang, b.String())
		if o1.TimedOut || o2.TimedOut {
			if try < 2 {
				continue
			}
			return "timeout"
		}
		if c03Same(o1, o2) {
			return "same"
		}
		if try >= 2 {
			return "differ"
		}
	}
}

// c03ModelStreams emits n programs of the intersection fragment.
func c03ModelStreams(c *Ctx, n int) {
	type job struct {
		src  string
		lang syntax.LangVariant
		oi   int
	}
	langs := []syntax.LangVariant{syntax.LangBash, syntax.LangBash, syntax.LangPOSIX, syntax.LangMirBSDKorn}
	var jobs []job
	for _, l := range c.CorpusLines() {
		f := strings.Fields(l)
		if len(f) >= 2 && f[0] == "frag" {
			for oi := range c03ModelOpts {
				jobs = append(jobs, job{unhx(f[1]), syntax.LangBash, oi})
			}
		}
	}
	for i := 0; i < n; i++ {
		jobs = append(jobs, job{c03FragProgram(c.R), langs[c.R.Intn(len(langs))], c.R.Intn(len(c03ModelOpts))})
	}
	type ans struct{ run, spec string }
	res := parallelMap(len(jobs), 8, func(i int) ans {
		j := jobs[i]
		return ans{c03RunAnswer(c, j.lang, j.src), c03SpecFmtAnswer(c, j.lang, c03ModelOpts[j.oi].opts, j.src)}
	})
	for i, j := range jobs {
		ln := langName(j.lang)
		if res[i].run == "timeout" || res[i].spec == "timeout" {
			c.Case("frag-timeout:"+j.src, false, "frag=timeout")
			continue
		}
		c.Op(fmt.Sprintf("run %s %s", ln, hx(j.src)), res[i].run)
		c.Op(fmt.Sprintf("specfmt %s %s %s", c03ModelOpts[j.oi].name, ln, hx(j.src)), res[i].spec)
		c.Case("frag:"+c03ModelOpts[j.oi].name+":"+j.src, strings.Count(j.src, "\n") >= 2, "frag="+strings.Fields(res[i].run)[0], "fragopts="+c03ModelOpts[j.oi].name)
	}
}
