//go:build c29 || all

package main

import (
	"bytes"
	"context"
	"fmt"
	"io"
	"sort"
	"strings"
	"time"
	"unsafe"

	"mvdan.cc/sh/v3/expand"
	"mvdan.cc/sh/v3/interp"
	"mvdan.cc/sh/v3/syntax"
)

// C29 — Running a program leaves the tree and Env untouched.
//
// Correspondence streams (model op lines, answered by the real code)
//   chain    free-form overlayEnviron chains through the hook (VerifC29Overlay / VerifC29NewOverlay):
//            Set / Get / Each answers and the Sets received by a recording root Environ
//   run      Runner-level: generated nests of function calls, ( ), `&`, handler calls and
//            assignments run as a real program; at every `__snap` the overlay chain's shape and the
//            variables seen through HandlerContext.Env; at the end the Sets the root received
//   specenv  the specification on the same programs: the root Environ received no Set
//   sb       expand.FieldsSeq's header copy + syntax.SplitBraces on generated words whose Parts
//            slice has spare capacity: result structure and "original header and array unchanged"
//   alias    the alias splice loop of Runner.cmd: final argument list
//   hdoc     the <<- line splitter of Runner.hdocString: output text
//   selftest sensitivity of the snapshot detector used by the search leg
// Search leg (c29_search.go): the property itself on generated programs.
func init() { register("C29", c29) }

func c29(c *Ctx) {
	c.Rule = "tie cases: non-trivial when a Set was forwarded / a brace was split / an alias was spliced / a line was flushed; search cases: the program produced output"
	n := c.N
	c29SelfTest(c)
	r := c.R.Fork("tie")
	for i := 0; i < n; i++ {
		switch i % 5 {
		case 0:
			c29ChainCase(c, r)
		case 1:
			c29RunCase(c, r)
		case 2:
			c29SBCase(c, r)
		case 3:
			c29AliasCase(c, r)
		default:
			c29HdocCase(c, r)
		}
	}
	sn := n / 4
	if c.Thorough() {
		sn = n / 8
	}
	if n == 0 {
		sn = 0
	}
	c29Search(c, sn)
}

// ---- recording root --------------------------------------------------------------------------

type c29Root struct {
	names []string
	vars  map[string]expand.Variable
	sets  []string
}

func (e *c29Root) Get(name string) expand.Variable { return e.vars[name] }
func (e *c29Root) Each(f func(string, expand.Variable) bool) {
	for _, n := range e.names {
		if !f(n, e.vars[n]) {
			return
		}
	}
}

type c29WRoot struct{ *c29Root }

func (e c29WRoot) Set(name string, vr expand.Variable) error {
	e.sets = append(e.sets, name)
	return nil
}

func c29ShowVar(v expand.Variable) string {
	val := v.Str
	return fmt.Sprintf("v%s%s%s%sk%d:%s", b01(v.Set), b01(v.Local), b01(v.Exported), b01(v.ReadOnly), int(v.Kind), hx(val))
}

func b01(b bool) string {
	if b {
		return "1"
	}
	return "0"
}

type c29VarSpec struct {
	name                           string
	set, loc, exported, readOnly bool
	kind                           int
	val                            string
}

func (v c29VarSpec) tok() string {
	return fmt.Sprintf("%s:%s%s%s%s:%d:%s", hx(v.name), b01(v.set), b01(v.loc), b01(v.exported), b01(v.readOnly), v.kind, hx(v.val))
}

func (v c29VarSpec) variable() expand.Variable {
	return expand.Variable{Set: v.set, Local: v.loc, Exported: v.exported, ReadOnly: v.readOnly, Kind: expand.ValueKind(v.kind), Str: v.val}
}

func c29RootTok(root *c29Root) string {
	hs := make([]string, len(root.sets))
	for i, s := range root.sets {
		hs[i] = hx(s)
	}
	return "root=" + strings.Join(hs, ",")
}

var c29VarNames = []string{"a", "b", "E0", "E1"}

func c29GenVar(r *Rand) c29VarSpec {
	v := c29VarSpec{name: r.Pick(c29VarNames)}
	switch r.Intn(10) {
	case 0: // unset
	case 1: // attribute change
		v.kind = 5
		v.exported = r.Bool()
		v.readOnly = r.Chance(30)
		v.loc = r.Chance(30)
	default:
		v.set = true
		v.kind = 1
		v.val = r.Pick([]string{"", "x", "yy", "z z"})
		v.loc = r.Chance(35)
		v.exported = r.Chance(20)
		v.readOnly = r.Chance(10)
	}
	return v
}

// ---- chain ---------------------------------------------------------------------------------------

func c29ChainCase(c *Ctx, r *Rand) {
	rw := r.Chance(70)
	root := &c29Root{vars: map[string]expand.Variable{}}
	var toks []string
	for _, n := range []string{"E0", "E1"} {
		if r.Chance(80) {
			v := c29VarSpec{name: n, set: true, exported: true, kind: 1, val: "e" + n, readOnly: n == "E1" && r.Bool()}
			root.names = append(root.names, n)
			root.vars[n] = v.variable()
			toks = append(toks, "B:"+v.tok())
		}
	}
	var rootEnv expand.Environ = root
	if rw {
		rootEnv = c29WRoot{root}
	}
	var ovs []expand.WriteEnviron
	var answers []string
	forwarded := false
	panicked := false
	parentOf := func(p string) expand.Environ {
		switch p {
		case "n":
			return nil
		case "b":
			return rootEnv
		}
		var i int
		fmt.Sscan(p, &i)
		return ovs[i]
	}
	pickParent := func(allowNil bool) string {
		k := r.Intn(10)
		switch {
		case k == 0 && allowNil:
			return "n"
		case k < 4 || len(ovs) == 0:
			return "b"
		default:
			return fmt.Sprint(r.Intn(len(ovs)))
		}
	}
	nops := 3 + r.Intn(12)
	for i := 0; i < nops && !panicked; i++ {
		k := r.Intn(10)
		if len(ovs) == 0 {
			k = 0
		}
		switch {
		case k < 2:
			p := pickParent(true)
			fs := r.Chance(45)
			toks = append(toks, fmt.Sprintf("mk:%s:%s", p, b01(fs)))
			ovs = append(ovs, interp.VerifC29Overlay(parentOf(p), fs))
			answers = append(answers, fmt.Sprintf("#%d", len(ovs)-1))
		case k == 2:
			p := pickParent(false)
			toks = append(toks, "bg:"+p)
			var o expand.WriteEnviron
			if pn := safely(func() { o = interp.VerifC29NewOverlay(parentOf(p), true) }); pn != "" {
				answers = append(answers, "panic")
				panicked = true
				break
			}
			ovs = append(ovs, o)
			answers = append(answers, fmt.Sprintf("#%d", len(ovs)-1))
		case k < 7:
			o := r.Intn(len(ovs))
			v := c29GenVar(r)
			toks = append(toks, fmt.Sprintf("set:%d:%s", o, v.tok()))
			before := len(root.sets)
			var err error
			if pn := safely(func() { err = ovs[o].Set(v.name, v.variable()) }); pn != "" {
				answers = append(answers, "panic")
				panicked = true
				forwarded = true
				break
			}
			if len(root.sets) > before {
				forwarded = true
			}
			if err != nil {
				answers = append(answers, "err")
			} else {
				answers = append(answers, "ok")
			}
		case k < 9:
			o := r.Intn(len(ovs))
			n := r.Pick(c29VarNames)
			toks = append(toks, fmt.Sprintf("get:%d:%s", o, hx(n)))
			answers = append(answers, c29ShowVar(ovs[o].Get(n)))
		default:
			o := r.Intn(len(ovs))
			toks = append(toks, fmt.Sprintf("each:%d", o))
			var items []string
			ovs[o].Each(func(n string, v expand.Variable) bool {
				items = append(items, hx(n)+"="+c29ShowVar(v))
				return true
			})
			sort.Strings(items)
			answers = append(answers, "["+strings.Join(items, ",")+"]")
		}
	}
	if !panicked {
		answers = append(answers, c29RootTok(root))
	}
	line := "chain " + b01(rw) + " " + strings.Join(toks, " ")
	c.Op(line, strings.Join(answers, " "))
	tags := []string{"tie:chain"}
	if forwarded {
		tags = append(tags, "chain:root-reached")
	}
	if panicked {
		tags = append(tags, "chain:assert-panic")
	}
	c.Case(line, forwarded || len(root.sets) > 0 || panicked, tags...)
}

// ---- run: Runner-level nests ---------------------------------------------------------------------

type c29Node struct {
	kind string // assign local export unset readonly hset snap call sub0 sub1
	name string
	val  string
	body []*c29Node
}

func c29GenNest(r *Rand, depth int, inFunc bool, budget *int) []*c29Node {
	var out []*c29Node
	n := 1 + r.Intn(4)
	for i := 0; i < n && *budget > 0; i++ {
		*budget--
		k := r.Intn(20)
		name := r.Pick(c29VarNames)
		val := r.Pick([]string{"x", "yy", "q"})
		switch {
		case k < 4:
			out = append(out, &c29Node{kind: "assign", name: name, val: val})
		case k < 7:
			out = append(out, &c29Node{kind: "local", name: name, val: val})
		case k == 7:
			out = append(out, &c29Node{kind: "export", name: name})
		case k == 8:
			out = append(out, &c29Node{kind: "unset", name: name})
		case k == 9:
			out = append(out, &c29Node{kind: "readonly", name: r.Pick([]string{"a", "b"}), val: val})
		case k == 10:
			out = append(out, &c29Node{kind: "hset", name: name, val: val})
		case k < 14:
			out = append(out, &c29Node{kind: "snap"})
		case k < 17 && depth < 4:
			out = append(out, &c29Node{kind: "call", body: c29GenNest(r, depth+1, true, budget)})
		case k < 19 && depth < 4:
			out = append(out, &c29Node{kind: "sub0", body: c29GenNest(r, depth+1, false, budget)})
		case depth < 4:
			out = append(out, &c29Node{kind: "sub1", body: c29GenNest(r, depth+1, false, budget)})
		}
	}
	out = append(out, &c29Node{kind: "snap"})
	return out
}

var c29SnapNames = "a,b,E0,E1"

func c29SnapTok() string {
	var hs []string
	for _, n := range strings.Split(c29SnapNames, ",") {
		hs = append(hs, hx(n))
	}
	return "snap:" + strings.Join(hs, ",")
}

// c29NestSrc renders the nest as a shell program and as model tokens.
func c29NestSrc(nodes []*c29Node, nfunc *int, src *strings.Builder, toks *[]string) {
	for _, nd := range nodes {
		switch nd.kind {
		case "assign":
			fmt.Fprintf(src, "%s=%s\n", nd.name, nd.val)
			*toks = append(*toks, fmt.Sprintf("assign:%s:%s", hx(nd.name), hx(nd.val)))
		case "local":
			fmt.Fprintf(src, "local %s=%s\n", nd.name, nd.val)
			*toks = append(*toks, fmt.Sprintf("local:%s:%s", hx(nd.name), hx(nd.val)))
		case "readonly":
			fmt.Fprintf(src, "readonly %s=%s\n", nd.name, nd.val)
			*toks = append(*toks, fmt.Sprintf("readonly:%s:%s", hx(nd.name), hx(nd.val)))
		case "export":
			fmt.Fprintf(src, "export %s\n", nd.name)
			*toks = append(*toks, "export:"+hx(nd.name))
		case "unset":
			fmt.Fprintf(src, "unset %s\n", nd.name)
			*toks = append(*toks, "unset:"+hx(nd.name))
		case "hset":
			fmt.Fprintf(src, "__hset %s %s\n", nd.name, nd.val)
			*toks = append(*toks, fmt.Sprintf("hset:%s:%s", hx(nd.name), hx(nd.val)))
		case "snap":
			src.WriteString("__snap\n")
			*toks = append(*toks, c29SnapTok())
		case "call":
			*nfunc++
			fn := fmt.Sprintf("fn%d", *nfunc)
			fmt.Fprintf(src, "%s() {\n", fn)
			*toks = append(*toks, "call")
			c29NestSrc(nd.body, nfunc, src, toks)
			fmt.Fprintf(src, "}\n%s\n", fn)
			*toks = append(*toks, "ret")
		case "sub0":
			src.WriteString("(\n")
			*toks = append(*toks, "sub0")
			c29NestSrc(nd.body, nfunc, src, toks)
			src.WriteString(")\n")
			*toks = append(*toks, "end")
		case "sub1":
			src.WriteString("{\n")
			*toks = append(*toks, "sub1")
			c29NestSrc(nd.body, nfunc, src, toks)
			src.WriteString("} &\nwait\n")
			*toks = append(*toks, "end")
		}
	}
}

func c29RunCase(c *Ctx, r *Rand) {
	rw := r.Chance(70)
	root := &c29Root{vars: map[string]expand.Variable{}}
	var toks []string
	for _, n := range []string{"E0", "E1"} {
		if r.Chance(85) {
			v := c29VarSpec{name: n, set: true, exported: true, kind: 1, val: "e" + n, readOnly: n == "E1" && r.Chance(30)}
			root.names = append(root.names, n)
			root.vars[n] = v.variable()
			toks = append(toks, "B:"+v.tok())
		}
	}
	// HOME and TMPDIR are looked up by Reset; give them so that nothing else is written
	var rootEnv expand.Environ = root
	if rw {
		rootEnv = c29WRoot{root}
	}
	budget := 14
	nest := c29GenNest(r, 0, false, &budget)
	var src strings.Builder
	nfunc := 0
	c29NestSrc(nest, &nfunc, &src, &toks)

	file, err := syntax.NewParser().Parse(strings.NewReader(src.String()), "")
	if err != nil {
		panic("c29 run: generated program does not parse: " + err.Error() + "\n" + src.String())
	}
	var answers []string
	mw := func(next interp.ExecHandlerFunc) interp.ExecHandlerFunc {
		return func(ctx context.Context, args []string) error {
			hc := interp.HandlerCtx(ctx)
			switch args[0] {
			case "__snap":
				fs, end := interp.VerifC29Chain(hc.Env)
				var sb strings.Builder
				sb.WriteString("chain=")
				for _, f := range fs {
					sb.WriteString(b01(f))
				}
				sb.WriteString("/" + end)
				answers = append(answers, sb.String())
				for _, n := range strings.Split(c29SnapNames, ",") {
					answers = append(answers, hx(n)+"="+c29ShowVar(hc.Env.Get(n)))
				}
				return nil
			case "__hset":
				if we, ok := hc.Env.(expand.WriteEnviron); ok {
					we.Set(args[1], expand.Variable{Set: true, Kind: expand.String, Str: args[2]})
				}
				return nil
			}
			return interp.ExitStatus(127)
		}
	}
	dir := scratchDir(c)
	runner, err := interp.New(interp.StdIO(nil, io.Discard, io.Discard), interp.Dir(dir), interp.Env(rootEnv), interp.ExecHandlers(mw))
	if err != nil {
		panic(err)
	}
	ctx, cancel := context.WithTimeout(context.Background(), 10*time.Second)
	defer cancel()
	pn := safely(func() { runner.Run(ctx, file) })
	if ctx.Err() != nil {
		c.Case("", false, "tie:run-timeout")
		return
	}
	if pn != "" {
		answers = append(answers, "panic")
	} else {
		answers = append(answers, c29RootTok(root))
	}
	line := "run " + b01(rw) + " " + strings.Join(toks, " ")
	c.Op(line, strings.Join(answers, " "))
	// the specification itself: whatever the program did, the root received no Set
	if pn == "" {
		c.Op("specenv "+b01(rw)+" "+strings.Join(toks, " "), c29RootTok(root))
	}
	depth := strings.Count(src.String(), "() {") + strings.Count(src.String(), "(\n") + strings.Count(src.String(), "} &")
	c.Case(line, depth > 0, "tie:run", fmt.Sprintf("run:nests<%d", bucket(depth)))
}

// ---- sb: FieldsSeq copy + SplitBraces -------------------------------------------------------------

var c29LitAlphabet = []string{"{", "}", ",", "..", ".", "\\", "a", "b", "1", "2", "10", "-", "+", "x", "{a,b}", "{1..3}", "{a..c}", "0"}

func c29RenderWord(w *syntax.Word, others map[syntax.WordPart]int) string {
	var parts []string
	for _, p := range w.Parts {
		switch p := p.(type) {
		case *syntax.Lit:
			parts = append(parts, "l"+hx(p.Value))
		case *syntax.BraceExp:
			var es []string
			for _, e := range p.Elems {
				es = append(es, c29RenderWord(e, others))
			}
			parts = append(parts, "B"+b01(p.Sequence)+"["+strings.Join(es, ";")+"]")
		case nil:
			parts = append(parts, "nil")
		default:
			parts = append(parts, fmt.Sprintf("o%d", others[p]))
		}
	}
	return "(" + strings.Join(parts, ",") + ")"
}

func c29SBCase(c *Ctx, r *Rand) {
	n := r.Intn(5)
	spare := r.Intn(4)
	backing := make([]syntax.WordPart, n, n+spare)
	others := map[syntax.WordPart]int{}
	var toks []string
	for i := 0; i < n; i++ {
		if r.Chance(25) {
			var p syntax.WordPart
			if r.Bool() {
				p = &syntax.SglQuoted{Value: "q"}
			} else {
				p = &syntax.ParamExp{Param: &syntax.Lit{Value: "x"}, Short: true}
			}
			others[p] = i + 1
			backing[i] = p
			toks = append(toks, fmt.Sprintf("o%d", i+1))
		} else {
			v := genFrom(r, c29LitAlphabet, 7)
			backing[i] = &syntax.Lit{Value: v}
			toks = append(toks, "l"+hx(v))
		}
	}
	if n == 0 && spare == 0 {
		backing = nil
	}
	orig := &syntax.Word{Parts: backing}
	// what must not change: the header and every cell of the backing array, spare capacity included
	full := backing[:cap(backing)]
	before := append([]syntax.WordPart{}, full...)
	hdrData, hdrLen, hdrCap := unsafe.SliceData(orig.Parts), len(orig.Parts), cap(orig.Parts)
	litVals := map[*syntax.Lit]string{}
	for _, p := range backing {
		if l, ok := p.(*syntax.Lit); ok {
			litVals[l] = l.Value
		}
	}

	word := *orig // expand.FieldsSeq: `word := *word`
	var res bool
	pn := safely(func() { res = syntax.SplitBraces(&word) })
	var ans string
	if pn != "" {
		ans = "panic"
	} else {
		same := unsafe.SliceData(orig.Parts) == hdrData && len(orig.Parts) == hdrLen && cap(orig.Parts) == hdrCap
		for i := range full {
			if full[i] != before[i] {
				same = false
			}
		}
		for l, v := range litVals {
			if l.Value != v {
				same = false
			}
		}
		ans = b01(res) + " " + c29RenderWord(&word, others) + " orig=" + map[bool]string{true: "same", false: "changed"}[same]
	}
	line := fmt.Sprintf("sb %d %s", cap(backing), strings.Join(toks, " "))
	line = strings.TrimRight(line, " ")
	c.Op(line, ans)
	// the property itself for this site, independent of the model
	if pn == "" && !strings.HasSuffix(ans, "orig=same") {
		c.Fail(line, "syntax.SplitBraces on a copied Word header changed the original header or its backing array")
	}
	// and through the public entry point: expand.Fields on the original word
	if pn == "" {
		cfg := &expand.Config{Env: expand.ListEnviron("x=v")}
		safely(func() { expand.Fields(cfg, orig) })
		same := unsafe.SliceData(orig.Parts) == hdrData && len(orig.Parts) == hdrLen && cap(orig.Parts) == hdrCap
		for i := range full {
			if full[i] != before[i] {
				same = false
			}
		}
		if !same {
			c.Fail(line+" (expand.Fields)", "expand.Fields changed the word it was given")
		}
	}
	c.Case(line, res, "tie:sb", fmt.Sprintf("sb:split=%v", res))

	// bs: the same word through SplitBraces + bracesSeqRec (expand.Braces is its eager wrapper)
	if pn != "" || !c29SmallSeqs(toks) {
		return
	}
	word2 := *orig
	var words []*syntax.Word
	pn2 := safely(func() {
		if syntax.SplitBraces(&word2) {
			words = expand.Braces(&word2)
		} else {
			words = []*syntax.Word{&word2}
		}
	})
	if len(words) > 400 {
		return
	}
	ans2 := "panic"
	if pn2 == "" {
		var rs []string
		for _, w := range words {
			rs = append(rs, c29RenderWord(w, others))
		}
		same := unsafe.SliceData(orig.Parts) == hdrData && len(orig.Parts) == hdrLen && cap(orig.Parts) == hdrCap
		for i := range full {
			if full[i] != before[i] {
				same = false
			}
		}
		ans2 = strings.Join(rs, " ") + " orig=" + map[bool]string{true: "same", false: "changed"}[same]
		if !same {
			c.Fail("bs"+line[2:], "SplitBraces + Braces on a copied Word header changed the original header or its backing array")
		}
	}
	c.Op("bs"+line[2:], ans2)
	c.Case("bs"+line[2:], len(words) > 1, "tie:bs", fmt.Sprintf("bs:words<%d", bucket(len(words))))
}

// c29SmallSeqs: every run of digits in the literal parts is at most two digits long, so that a
// sequence expression stays small.
func c29SmallSeqs(toks []string) bool {
	for _, t := range toks {
		if !strings.HasPrefix(t, "l") {
			continue
		}
		run := 0
		for _, b := range []byte(unhx(t[1:])) {
			if b >= '0' && b <= '9' {
				run++
				if run > 2 {
					return false
				}
			} else {
				run = 0
			}
		}
	}
	return true
}

// ---- alias ---------------------------------------------------------------------------------------

var c29AliasWords = []string{"a0", "a1", "a2", "a3", "x", "y", "z"} // ids 0..6; a0..a3 may be aliases

func c29AliasCase(c *Ctx, r *Rand) {
	nargs := 1 + r.Intn(4)
	args := make([]int, nargs)
	for i := range args {
		args[i] = r.Intn(len(c29AliasWords))
	}
	args[0] = r.Intn(4) // start with a possible alias
	type entry struct {
		name  int
		words []int
		blank bool
	}
	var entries []entry
	var src strings.Builder
	src.WriteString("shopt -s expand_aliases\n")
	var etoks []string
	for name := 0; name < 4; name++ {
		if !r.Chance(60) {
			continue
		}
		e := entry{name: name, blank: r.Chance(55)}
		for k := r.Intn(4); k > 0; k-- {
			e.words = append(e.words, r.Intn(len(c29AliasWords)))
		}
		entries = append(entries, e)
		var ws []string
		for _, w := range e.words {
			ws = append(ws, c29AliasWords[w])
		}
		val := strings.Join(ws, " ")
		if e.blank {
			val += " "
		}
		fmt.Fprintf(&src, "alias %s='%s'\n", c29AliasWords[name], val)
		etoks = append(etoks, fmt.Sprintf("%d=%s:%s", name, joinInts(e.words), b01(e.blank)))
	}
	var aw []string
	for _, a := range args {
		aw = append(aw, c29AliasWords[a])
	}
	src.WriteString(strings.Join(aw, " ") + "\n")

	file, err := syntax.NewParser().Parse(strings.NewReader(src.String()), "")
	if err != nil {
		panic("c29 alias: " + err.Error())
	}
	call := file.Stmts[len(file.Stmts)-1].Cmd.(*syntax.CallExpr)
	argsBefore := append([]*syntax.Word{}, call.Args[:cap(call.Args)]...)
	var got []string
	called := false
	mw := func(next interp.ExecHandlerFunc) interp.ExecHandlerFunc {
		return func(ctx context.Context, a []string) error {
			got = append([]string{}, a...)
			called = true
			return nil
		}
	}
	runner, _ := interp.New(interp.StdIO(nil, io.Discard, io.Discard), interp.Env(expand.ListEnviron("PATH=/nonexistent")), interp.ExecHandlers(mw))
	ctx, cancel := context.WithTimeout(context.Background(), 10*time.Second)
	defer cancel()
	pn := safely(func() { runner.Run(ctx, file) })
	ans := "panic"
	if pn == "" {
		ids := []int{}
		for _, w := range got {
			for i, aw := range c29AliasWords {
				if aw == w {
					ids = append(ids, i)
				}
			}
		}
		same := true
		for i, w := range call.Args[:cap(call.Args)] {
			if w != argsBefore[i] {
				same = false
			}
		}
		_ = called
		ans = "args=" + joinInts(ids) + " orig=" + map[bool]string{true: "same", false: "changed"}[same]
	}
	line := fmt.Sprintf("alias %d %s %s", cap(call.Args), joinInts(args), strings.Join(etoks, " "))
	line = strings.TrimRight(line, " ")
	c.Op(line, ans)
	if pn == "" && !strings.HasSuffix(ans, "orig=same") {
		c.Fail(line, "alias expansion wrote the argument slice of the CallExpr")
	}
	c.Case(line, len(got) != len(args) || len(entries) > 0, "tie:alias")
}

// ---- hdoc ---------------------------------------------------------------------------------------

func c29HdocCase(c *Ctx, r *Rand) {
	// parts alternate literal / parameter runs; the body ends with a literal ending in a newline
	var toks []string
	var body strings.Builder
	var env []string
	nparts := 1 + r.Intn(5)
	tag := 0
	lastLit := false
	flushed := 0
	for i := 0; i < nparts; i++ {
		tag++
		final := i == nparts-1
		if lastLit || (!final && r.Chance(45)) { // two literals in a row would be one Lit for the parser
			if final {
				nparts++ // the body still has to end with a literal
			}
			fmt.Fprintf(&body, "${p%d}", tag)
			env = append(env, fmt.Sprintf("p%d=P%d", tag, tag))
			toks = append(toks, fmt.Sprintf("p%d", tag))
			lastLit = false
			continue
		}
		nseg := 1 + r.Intn(3)
		if final && nseg < 2 {
			nseg = 2
		}
		var segs, hsegs []string
		for k := 0; k < nseg; k++ {
			s := fmt.Sprintf("L%ds%d", tag, k)
			if final && k == nseg-1 {
				s = "" // the body's last newline
			}
			segs = append(segs, strings.Repeat("\t", r.Intn(3))+s)
			hsegs = append(hsegs, hx(s))
		}
		// a literal directly after a parameter must not start with a name character… it starts with L or a tab: use ${}
		body.WriteString(strings.Join(segs, "\n"))
		toks = append(toks, fmt.Sprintf("l%d:%s", tag, strings.Join(hsegs, ";")))
		flushed += nseg - 1
		lastLit = true
	}
	src := "cat <<-EOF\n" + body.String() + "EOF\n"
	file, err := syntax.NewParser().Parse(strings.NewReader(src), "")
	if err != nil {
		panic("c29 hdoc: " + err.Error() + "\n" + src)
	}
	var out bytes.Buffer
	runner, _ := interp.New(interp.StdIO(nil, &out, io.Discard), interp.Env(expand.ListEnviron(env...)), interp.ExecHandlers(c29ExecHandler))
	ctx, cancel := context.WithTimeout(context.Background(), 10*time.Second)
	defer cancel()
	rd := file.Stmts[0].Redirs[0]
	partsBefore := append([]syntax.WordPart{}, rd.Hdoc.Parts[:cap(rd.Hdoc.Parts)]...)
	pn := safely(func() { runner.Run(ctx, file) })
	if ctx.Err() != nil {
		c.Case("", false, "tie:hdoc-timeout")
		return
	}
	ans := "panic"
	if pn == "" {
		ans = "out=" + hx(out.String())
	}
	line := "hdoc " + strings.Join(toks, " ")
	c.Op(line, ans)
	for i, p := range rd.Hdoc.Parts[:cap(rd.Hdoc.Parts)] {
		if p != partsBefore[i] {
			c.Fail(line, "the <<- splitter wrote the Parts slice of the here-document word")
		}
	}
	c.Case(line, flushed > 0, "tie:hdoc")
}

// ---- selftest ------------------------------------------------------------------------------------

// c29SelfTest checks that the detector of the search leg sees the kinds of write it is there for.
func c29SelfTest(c *Ctx) {
	parse := func() *syntax.File {
		f, err := syntax.NewParser().Parse(strings.NewReader("echo a b c; x=1 y=2 foo {a,b}"), "")
		if err != nil {
			panic(err)
		}
		return f
	}
	det := func(d string) string {
		if d != "" {
			return "detected"
		}
		return "missed"
	}
	var res []string
	// 1. a write into the spare capacity of a slice of the tree
	{
		f := parse()
		call := f.Stmts[0].Cmd.(*syntax.CallExpr)
		args := make([]*syntax.Word, len(call.Args), len(call.Args)+2)
		copy(args, call.Args)
		call.Args = args
		s0 := c29Observe(f)
		_ = append(call.Args, call.Args[0]) // in place: lands in the spare capacity
		res = append(res, "spare-capacity="+det(c29TreeDiff(s0, c29Observe(f))))
	}
	// 2. a node replaced by an equal copy
	{
		f := parse()
		call := f.Stmts[0].Cmd.(*syntax.CallExpr)
		s0 := c29Observe(f)
		cp := *call.Args[1]
		call.Args[1] = &cp
		res = append(res, "pointer-swap="+det(c29TreeDiff(s0, c29Observe(f))))
	}
	// 3. an in-place write of an array held by the Environ, beyond its length
	{
		e := c29NewEnv("/d", "/s", true)
		s0 := c29EnvState(e)
		l := e.vars["ea"].List
		_ = append(l, "Q")
		res = append(res, "env-array="+det(c29SnapDiff(s0, c29EnvState(e))))
	}
	// 4. a Set on the Environ
	{
		e := c29NewEnv("/d", "/s", true)
		c29WEnv{e}.Set("x", expand.Variable{})
		d := ""
		if len(e.sets) > 0 {
			d = "set"
		}
		res = append(res, "env-set="+det(d))
	}
	// 5. no false alarm: observing twice gives the same
	{
		f := parse()
		if d := c29TreeDiff(c29Observe(f), c29Observe(f)); d == "" {
			res = append(res, "unchanged=same")
		} else {
			res = append(res, "unchanged=differs:"+strings.ReplaceAll(d, " ", "_"))
		}
	}
	c.Op("selftest", strings.Join(res, " "))
}
