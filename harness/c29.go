//go:build c29 || all

package main

func init() { register("C29", c29) }

func c29(c *Ctx) {
	c.Rule = "a search case is non-trivial when the program produced output"
	n := c.N
	c29Search(c, n)
}
