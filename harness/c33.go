//go:build c33 || all

package main

import (
	"bytes"
	"context"
	"fmt"
	"io"
	"os"
	"slices"
	"sort"
	"strconv"
	"strings"
	"time"

	"mvdan.cc/sh/v3/expand"
	"mvdan.cc/sh/v3/interp"
	"mvdan.cc/sh/v3/syntax"
	"mvdan.cc/sh/v3/verifhook"
)

// C33 — Indexed arrays behave like a map from indices to values.
//
// Streams (see lean/ShVerif/Driver/C33.lean):
//   unit level, through the hooks: set del canon max val keys slice  (model = code, incl. malformed
//     representations and panics) and specset specdel specval speckeys specmax speccount specslice
//     (the map specification run on the abstraction of the real result; well-formed inputs only);
//   program level: `prog <tokens>` (model) and `specprog <tokens>` (map specification) against the
//     stdout of the real interpreter running the rendered bash program.
// Search leg (independent of Lean): a Go map oracle with bash's semantics for both levels, and
// real bash for a share of the programs.
func init() { register("C33", c33) }

// ---------------------------------------------------------------- unit level

func c33ShowIdx(idx []int) string {
	if idx == nil {
		return "nil"
	}
	if len(idx) == 0 {
		return "[]"
	}
	p := make([]string, len(idx))
	for i, k := range idx {
		p[i] = strconv.Itoa(k)
	}
	return strings.Join(p, ",")
}

func c33Join(toks ...string) string {
	var out []string
	for _, t := range toks {
		if t != "" {
			out = append(out, t)
		}
	}
	return strings.Join(out, " ")
}

func c33ShowArr(list []string, idx []int) string {
	return c33Join("ok", c33ShowIdx(idx), hxs(list))
}

// c33Abs is the map an array representation stands for (nil when the representation is not
// well-formed: lengths differ, indices not strictly increasing or negative, non-canonical).
func c33Abs(list []string, idx []int) (map[int]string, bool) {
	m := map[int]string{}
	if idx == nil {
		for i, v := range list {
			m[i] = v
		}
		return m, true
	}
	if len(idx) != len(list) {
		return nil, false
	}
	dense := true
	for i, k := range idx {
		if k < 0 || (i > 0 && idx[i-1] >= k) {
			return nil, false
		}
		if k != i {
			dense = false
		}
		m[k] = list[i]
	}
	if dense {
		return nil, false // a dense array must have nil indexes
	}
	return m, true
}

func c33Keys(m map[int]string) []int {
	ks := make([]int, 0, len(m))
	for k := range m {
		ks = append(ks, k)
	}
	sort.Ints(ks)
	return ks
}

func c33ShowMap(m map[int]string) string {
	parts := []string{"M"}
	for _, k := range c33Keys(m) {
		parts = append(parts, strconv.Itoa(k)+":"+hx(m[k]))
	}
	return strings.Join(parts, " ")
}

func c33MapMax(m map[int]string) int {
	mx := -1
	for k := range m {
		if k > mx {
			mx = k
		}
	}
	return mx
}

var c33Vals = []string{"", "x", "y", "ab", "0", "p q", "*", "é", "zz", "Q"}

// c33GenArr draws a representation: mostly well-formed (dense or sparse), sometimes malformed.
func c33GenArr(r *Rand) (list []string, idx []int, shape string) {
	n := r.Intn(7)
	if r.Chance(10) {
		n = 7 + r.Intn(12)
	}
	list = make([]string, n)
	for i := range list {
		list[i] = r.Pick(c33Vals)
	}
	switch k := r.Intn(100); {
	case k < 35:
		return list, nil, "dense"
	case k < 85:
		idx = make([]int, n)
		cur := 0
		for i := range idx {
			switch g := r.Intn(10); {
			case g < 5:
			case g < 8:
				cur += 1 + r.Intn(3)
			case g < 9:
				cur += 10 + r.Intn(100)
			default:
				cur += 1 << (10 + r.Intn(25))
			}
			idx[i] = cur
			cur++
		}
		if _, ok := c33Abs(list, idx); !ok {
			return list, nil, "dense" // came out as 0,1,2…: canonical form is nil
		}
		return list, idx, "sparse"
	default:
		// malformed: unsorted / duplicate / negative indices, length mismatch, non-canonical
		m := n
		switch r.Intn(4) {
		case 0:
			m = n + 1
		case 1:
			if n > 0 {
				m = n - 1
			}
		}
		idx = make([]int, m)
		if r.Chance(30) {
			for i := range idx {
				idx[i] = i // dense but non-nil
			}
		} else {
			for i := range idx {
				idx[i] = r.Intn(9) - 2
			}
			if r.Chance(50) {
				sort.Ints(idx)
			}
		}
		return list, idx, "malformed"
	}
}

func c33PickIndex(r *Rand, list []string, idx []int) int {
	mx := verifhook.IndexedMax(slices.Clone(list), slices.Clone(idx))
	switch k := r.Intn(20); {
	case k < 6 && len(idx) > 0:
		return idx[r.Intn(len(idx))] + r.Intn(3) - 1
	case k < 10:
		return r.Intn(len(list) + 2)
	case k < 12:
		return mx + r.Intn(3)
	case k < 14:
		return -1 - r.Intn(4)
	case k < 15:
		return 1 << (8 + r.Intn(30))
	default:
		return r.Intn(12)
	}
}

func c33Unit(c *Ctx, list []string, idx []int, shape string, op string, k int, val string, off, length *int) {
	r := c.R
	_ = r
	cl := func() ([]string, []int) { return slices.Clone(list), slices.Clone(idx) }
	arrToks := c33Join(c33ShowIdx(idx), hxs(list))
	m0, wf := c33Abs(list, idx)
	tags := []string{"unit:" + op, "shape:" + shape}
	nontrivial := len(list) >= 2
	switch op {
	case "set":
		var out string
		var rl []string
		var ri []int
		p := safely(func() {
			l, i := cl()
			rl, ri = verifhook.SetIndexedElem(l, i, k, val)
			out = c33ShowArr(rl, ri)
		})
		if p != "" {
			out = "panic"
		}
		c.Op(c33Join("set", strconv.Itoa(k), hx(val), arrToks), out)
		if wf && k >= 0 {
			if idx == nil && ri != nil {
				tags = append(tags, "dense->sparse")
			}
			if idx != nil && ri == nil && p == "" {
				tags = append(tags, "sparse->dense")
			}
			line := c33Join("specset", strconv.Itoa(k), hx(val), arrToks)
			want := maps33Clone(m0)
			want[k] = val
			got := "panic"
			if p == "" {
				if m1, ok := c33Abs(rl, ri); ok {
					got = c33ShowMap(m1)
				} else {
					got = "not-wf " + out
				}
			}
			c.Op(line, got)
			if got != c33ShowMap(want) {
				c.Fail(line, fmt.Sprintf("SetIndexedElem(%q,%v,%d,%q) = %s, map oracle says %s", list, idx, k, val, got, c33ShowMap(want)))
			}
		} else if k < 0 {
			tags = append(tags, "negative-k")
		}
	case "del":
		var out string
		var rl []string
		var ri []int
		p := safely(func() {
			l, i := cl()
			rl, ri = verifhook.DeleteIndexedElem(l, i, k)
			out = c33ShowArr(rl, ri)
		})
		if p != "" {
			out = "panic"
		}
		c.Op(c33Join("del", strconv.Itoa(k), arrToks), out)
		if wf {
			if idx == nil && ri != nil {
				tags = append(tags, "dense->sparse")
			}
			if idx != nil && ri == nil && p == "" {
				tags = append(tags, "sparse->dense")
			}
			line := c33Join("specdel", strconv.Itoa(k), arrToks)
			want := maps33Clone(m0)
			delete(want, k)
			got := "panic"
			if p == "" {
				if m1, ok := c33Abs(rl, ri); ok {
					got = c33ShowMap(m1)
				} else {
					got = "not-wf " + out
				}
			}
			c.Op(line, got)
			if got != c33ShowMap(want) {
				c.Fail(line, fmt.Sprintf("DeleteIndexedElem(%q,%v,%d) = %s, map oracle says %s", list, idx, k, got, c33ShowMap(want)))
			}
		}
	case "canon":
		i := slices.Clone(idx)
		c.Op("canon "+c33ShowIdx(idx), c33ShowIdx(verifhook.CanonicalIndexes(i)))
	case "max":
		l, i := cl()
		got := strconv.Itoa(verifhook.IndexedMax(l, i))
		c.Op(c33Join("max", arrToks), got)
		if wf {
			line := c33Join("specmax", arrToks)
			c.Op(line, got)
			if want := strconv.Itoa(c33MapMax(m0)); got != want {
				c.Fail(line, "IndexedMax = "+got+", map oracle says "+want)
			}
			line = c33Join("speccount", arrToks)
			c.Op(line, strconv.Itoa(len(list)))
		}
	case "val":
		var out string
		p := safely(func() {
			l, i := cl()
			s, ok := expand.VerifIndexedVal(expand.Variable{Set: true, Kind: expand.Indexed, List: l, Indexes: i}, k)
			if ok {
				out = "some " + hx(s)
			} else {
				out = "none"
				if s != "" {
					out = "none-but-" + hx(s)
				}
			}
		})
		if p != "" {
			out = "panic"
		}
		c.Op(c33Join("val", strconv.Itoa(k), arrToks), out)
		if wf && k >= 0 {
			line := c33Join("specval", strconv.Itoa(k), arrToks)
			c.Op(line, out)
			want := "none"
			if v, ok := m0[k]; ok {
				want = "some " + hx(v)
			}
			if out != want {
				c.Fail(line, "indexedVal = "+out+", map oracle says "+want)
			}
		}
	case "keys":
		var out string
		p := safely(func() {
			l, i := cl()
			ks := expand.VerifIndexedKeys(expand.Variable{Set: true, Kind: expand.Indexed, List: l, Indexes: i})
			out = c33Join(append([]string{"ok"}, ks...)...)
		})
		if p != "" {
			out = "panic"
		}
		c.Op(c33Join("keys", arrToks), out)
		if wf {
			line := c33Join("speckeys", arrToks)
			c.Op(line, out)
			want := []string{"ok"}
			for _, k := range c33Keys(m0) {
				want = append(want, strconv.Itoa(k))
			}
			if out != strings.Join(want, " ") {
				c.Fail(line, "indexedKeys = "+out+", map oracle says "+strings.Join(want, " "))
			}
		}
	case "slice":
		var out string
		p := safely(func() {
			l, i := cl()
			res, err := expand.VerifC33SliceElems(l, i, off, length)
			if err != nil {
				out = "hook-error " + hx(err.Error())
				return
			}
			out = c33Join("ok", hxs(res))
		})
		if p != "" {
			out = "panic"
		}
		so, sl := "_", "_"
		if off != nil {
			so = strconv.Itoa(*off)
		}
		if length != nil {
			sl = strconv.Itoa(*length)
		}
		c.Op(c33Join("slice", so, sl, arrToks), out)
		if length != nil && *length < 0 {
			tags = append(tags, "slice:negative-length")
		}
		if wf && (length == nil || *length >= 0) {
			line := c33Join("specslice", so, sl, arrToks)
			c.Op(line, out)
			want := c33Join("ok", hxs(c33OracleSlice(m0, off, length)))
			if out != want {
				c.Fail(line, "sliceElems = "+out+", map oracle says "+want)
			}
		}
	}
	c.Case("u|"+op+"|"+strconv.Itoa(k)+"|"+arrToks, nontrivial, tags...)
}

func maps33Clone(m map[int]string) map[int]string {
	out := make(map[int]string, len(m)+1)
	for k, v := range m {
		out[k] = v
	}
	return out
}

// c33OracleSlice: the elements whose index is at least the offset (negative: counted from one
// past the largest index; still negative: nothing), the first `length` of them.
func c33OracleSlice(m map[int]string, off, length *int) []string {
	ks := c33Keys(m)
	var vals []string
	o := 0
	if off != nil {
		o = *off
		if o < 0 {
			o += c33MapMax(m) + 1
			if o < 0 {
				o = c33MapMax(m) + 1
			}
		}
	}
	for _, k := range ks {
		if k >= o {
			vals = append(vals, m[k])
		}
	}
	if length != nil && *length < len(vals) {
		vals = vals[:*length]
	}
	return vals
}

// ---------------------------------------------------------------- program level

type c33Elem struct {
	at  bool
	i   int
	v   string
}

type c33Cmd struct {
	x     string // "a" or "b"
	kind  string // as ap da se ae ss sa ue ua cp ca ra mf lo ln d ( )
	es    []c33Elem
	vals  []string // ra mf: the fields / lines
	vnt   int      // ra mf: rendering variant
	i     int
	v     string
	items []string
	blk   string // sub cs fn
}

func (cm c33Cmd) token() string {
	elems := func() string {
		p := make([]string, len(cm.es))
		for i, e := range cm.es {
			if e.at {
				p[i] = "i" + strconv.Itoa(e.i) + "=" + hx(e.v)
			} else {
				p[i] = "p" + hx(e.v)
			}
		}
		return strings.Join(p, ",")
	}
	switch cm.kind {
	case "(":
		return "(" + cm.blk
	case ")":
		return ")"
	case "as", "ap", "lo", "da":
		return cm.x + ":" + cm.kind + ":" + elems()
	case "ra", "mf":
		p := make([]string, len(cm.vals))
		for i, v := range cm.vals {
			p[i] = hx(v)
		}
		return cm.x + ":" + cm.kind + ":" + strconv.Itoa(cm.vnt) + ":" + strings.Join(p, ",")
	case "se", "ae":
		return cm.x + ":" + cm.kind + ":" + strconv.Itoa(cm.i) + ":" + hx(cm.v)
	case "ss", "sa":
		return cm.x + ":" + cm.kind + ":" + hx(cm.v)
	case "ue":
		return cm.x + ":ue:" + strconv.Itoa(cm.i)
	case "d":
		return cm.x + ":d:" + strings.Join(cm.items, ",")
	default: // ua cp ca ln
		return cm.x + ":" + cm.kind
	}
}

func c33ParseElems(s string) ([]c33Elem, bool) {
	if s == "" {
		return nil, true
	}
	var out []c33Elem
	for _, p := range strings.Split(s, ",") {
		switch {
		case strings.HasPrefix(p, "p"):
			out = append(out, c33Elem{v: unhx(p[1:])})
		case strings.HasPrefix(p, "i"):
			is, vs, ok := strings.Cut(p[1:], "=")
			i, err := strconv.Atoi(is)
			if !ok || err != nil {
				return nil, false
			}
			out = append(out, c33Elem{at: true, i: i, v: unhx(vs)})
		default:
			return nil, false
		}
	}
	return out, true
}

func c33ParseToken(tok string) (c33Cmd, bool) {
	switch tok {
	case "(sub", "(cs", "(fn":
		return c33Cmd{kind: "(", blk: tok[1:]}, true
	case ")":
		return c33Cmd{kind: ")"}, true
	}
	f := strings.Split(tok, ":")
	if len(f) < 2 || (f[0] != "a" && f[0] != "b") {
		return c33Cmd{}, false
	}
	cm := c33Cmd{x: f[0], kind: f[1]}
	var err error
	switch {
	case (cm.kind == "ra" || cm.kind == "mf") && len(f) == 4:
		cm.vnt, err = strconv.Atoi(f[2])
		if f[3] != "" {
			for _, h := range strings.Split(f[3], ",") {
				cm.vals = append(cm.vals, unhx(h))
			}
		}
		return cm, err == nil && cm.vnt >= 0 && cm.vnt < 4
	case (cm.kind == "as" || cm.kind == "ap" || cm.kind == "lo" || cm.kind == "da") && len(f) == 3:
		var ok bool
		cm.es, ok = c33ParseElems(f[2])
		return cm, ok
	case (cm.kind == "se" || cm.kind == "ae") && len(f) == 4:
		cm.i, err = strconv.Atoi(f[2])
		cm.v = unhx(f[3])
		return cm, err == nil
	case (cm.kind == "ss" || cm.kind == "sa") && len(f) == 3:
		cm.v = unhx(f[2])
		return cm, true
	case cm.kind == "ue" && len(f) == 3:
		cm.i, err = strconv.Atoi(f[2])
		return cm, err == nil
	case cm.kind == "d" && len(f) == 3:
		cm.items = strings.Split(f[2], ",")
		return cm, true
	case (cm.kind == "ua" || cm.kind == "cp" || cm.kind == "ca" || cm.kind == "ln") && len(f) == 2:
		return cm, true
	}
	return cm, false
}

func c33Quote(s string) string { return "'" + s + "'" } // the value alphabet has no single quote

func c33RenderElems(es []c33Elem) string {
	p := make([]string, len(es))
	for i, e := range es {
		if e.at {
			p[i] = "[" + strconv.Itoa(e.i) + "]=" + c33Quote(e.v)
		} else {
			p[i] = c33Quote(e.v)
		}
	}
	return strings.Join(p, " ")
}

func c33ItemParts(it string) (kind byte, i int, off int, length *int, ok bool) {
	if it == "" {
		return 0, 0, 0, nil, false
	}
	kind = it[0]
	rest := it[1:]
	switch kind {
	case 'V', 'K', 'N', 'J', 'Z':
		return kind, 0, 0, nil, rest == ""
	case 'E', 'L':
		n, err := strconv.Atoi(rest)
		return kind, n, 0, nil, err == nil
	case 'S':
		o, l, found := strings.Cut(rest, "_")
		if !found {
			return kind, 0, 0, nil, false
		}
		on, err := strconv.Atoi(o)
		if err != nil {
			return kind, 0, 0, nil, false
		}
		if l == "" {
			return kind, 0, on, nil, true
		}
		ln, err := strconv.Atoi(l)
		return kind, 0, on, &ln, err == nil
	}
	return kind, 0, 0, nil, false
}

// c33Render turns the command list into a bash program; one command per line.
func c33Render(cmds []c33Cmd) string {
	var sb strings.Builder
	fn := 0
	blk := ""
	for _, cm := range cmds {
		x := cm.x
		y := "b"
		if x == "b" {
			y = "a"
		}
		switch cm.kind {
		case "(":
			blk = cm.blk
			switch blk {
			case "sub":
				sb.WriteString("(\n")
			case "cs":
				sb.WriteString("echo \"$(\n")
			case "fn":
				fn++
				fmt.Fprintf(&sb, "f%d() {\n", fn)
			}
		case ")":
			switch blk {
			case "sub":
				sb.WriteString(")\n")
			case "cs":
				sb.WriteString(")\"\n")
			case "fn":
				fmt.Fprintf(&sb, ":\n}\nf%d\n", fn)
			}
			blk = ""
		case "as":
			fmt.Fprintf(&sb, "%s=(%s)\n", x, c33RenderElems(cm.es))
		case "da":
			// declare -a x=(…): inside a function -g keeps it the global variable
			flag := "-a"
			if blk == "fn" {
				flag = "-ga"
			}
			fmt.Fprintf(&sb, "declare %s %s=(%s)\n", flag, x, c33RenderElems(cm.es))
		case "ra":
			// read -a replaces the array by the fields of one line
			switch cm.vnt {
			case 0:
				fmt.Fprintf(&sb, "read -a %s <<< '%s'\n", x, strings.Join(cm.vals, " "))
			case 1:
				fmt.Fprintf(&sb, "read -ra %s <<< '%s'\n", x, strings.Join(cm.vals, " "))
			case 2:
				fmt.Fprintf(&sb, "IFS=, read -ra %s <<< '%s'\n", x, strings.Join(cm.vals, ","))
			default:
				fmt.Fprintf(&sb, "IFS=: read -a %s <<< '%s'\n", x, strings.Join(cm.vals, ":"))
			}
		case "mf":
			// mapfile / readarray replace the array by the lines of the input
			name := "mapfile"
			if cm.vnt%2 == 1 {
				name = "readarray"
			}
			if len(cm.vals) == 0 {
				fmt.Fprintf(&sb, "%s -t %s < /dev/null\n", name, x)
			} else {
				fmt.Fprintf(&sb, "%s -t %s <<< $'%s'\n", name, x, strings.Join(cm.vals, "\\n"))
			}
		case "ap":
			fmt.Fprintf(&sb, "%s+=(%s)\n", x, c33RenderElems(cm.es))
		case "lo":
			fmt.Fprintf(&sb, "local %s=(%s)\n", x, c33RenderElems(cm.es))
		case "ln":
			fmt.Fprintf(&sb, "local %s\n", x)
		case "se":
			fmt.Fprintf(&sb, "%s[%d]=%s\n", x, cm.i, c33Quote(cm.v))
		case "ae":
			fmt.Fprintf(&sb, "%s[%d]+=%s\n", x, cm.i, c33Quote(cm.v))
		case "ss":
			fmt.Fprintf(&sb, "%s=%s\n", x, c33Quote(cm.v))
		case "sa":
			fmt.Fprintf(&sb, "%s+=%s\n", x, c33Quote(cm.v))
		case "ue":
			fmt.Fprintf(&sb, "unset '%s[%d]'\n", x, cm.i)
		case "ua":
			fmt.Fprintf(&sb, "unset %s\n", x)
		case "cp":
			fmt.Fprintf(&sb, "%s=(\"${%s[@]}\")\n", x, y)
		case "ca":
			fmt.Fprintf(&sb, "%s+=(\"${%s[@]}\")\n", x, y)
		case "d":
			fmt.Fprintf(&sb, "printf '%s:'", x)
			for _, it := range cm.items {
				kind, i, off, length, _ := c33ItemParts(it)
				switch kind {
				case 'V':
					fmt.Fprintf(&sb, "; printf ' V'; printf '<%%s>' \"${%s[@]}\"", x)
				case 'K':
					fmt.Fprintf(&sb, "; printf ' K'; printf '<%%s>' \"${!%s[@]}\"", x)
				case 'N':
					fmt.Fprintf(&sb, "; printf ' N%%s' \"${#%s[@]}\"", x)
				case 'J':
					fmt.Fprintf(&sb, "; printf ' J<%%s>' \"${%s[*]}\"", x)
				case 'Z':
					fmt.Fprintf(&sb, "; printf ' Z<%%s>' \"$%s\"", x)
				case 'E':
					fmt.Fprintf(&sb, "; printf ' E<%%s>' \"${%s[%d]+S}${%s[%d]}\"", x, i, x, i)
				case 'L':
					fmt.Fprintf(&sb, "; printf ' L%%s' \"${#%s[%d]}\"", x, i)
				case 'S':
					if length == nil {
						fmt.Fprintf(&sb, "; printf ' S'; printf '<%%s>' \"${%s[@]:%s}\"", x, c33SliceNum(off))
					} else {
						fmt.Fprintf(&sb, "; printf ' S'; printf '<%%s>' \"${%s[@]:%s:%s}\"", x, c33SliceNum(off), c33SliceNum(*length))
					}
				}
			}
			sb.WriteString("; echo\n")
		}
	}
	return sb.String()
}

func c33SliceNum(n int) string {
	if n < 0 {
		return " " + strconv.Itoa(n) // `${a[@]: -1}`: the space keeps it from being `:-`
	}
	return strconv.Itoa(n)
}

// ---- the Go map oracle: bash's semantics, written independently of the Lean specification ----

type c33OVar struct {
	kind int // 0 unset, 1 scalar, 2 array
	m    map[int]string
}

func (v c33OVar) clone() c33OVar { return c33OVar{v.kind, maps33Clone(v.m)} }

func (v c33OVar) max() int { return c33MapMax(v.m) }

func (v *c33OVar) lit(es []c33Elem, index int) {
	for _, e := range es {
		if e.at {
			j := e.i
			if j < 0 {
				j += v.max() + 1
			}
			if j < 0 {
				continue // bash: "bad array subscript", element skipped
			}
			index = j
		}
		v.m[index] = e.v
		index++
	}
}

// apply returns false when bash reports an error for the command (the array is left alone).
func (v *c33OVar) apply(cm c33Cmd, other c33OVar) bool {
	if v.m == nil {
		v.m = map[int]string{}
	}
	resolve := func(i int) int {
		if i < 0 {
			return i + v.max() + 1
		}
		return i
	}
	switch cm.kind {
	case "ra", "mf":
		v.m = map[int]string{}
		v.kind = 2
		for i, s := range cm.vals {
			v.m[i] = s
		}
		return true
	}
	switch cm.kind {
	case "as", "lo", "da":
		v.m = map[int]string{}
		v.kind = 2
		v.lit(cm.es, 0)
	case "ap":
		v.kind = 2
		v.lit(cm.es, v.max()+1)
	case "cp", "ca":
		if cm.kind == "cp" {
			v.m = map[int]string{}
		}
		v.kind = 2
		idx := v.max() + 1
		for _, k := range c33Keys(other.m) {
			v.m[idx] = other.m[k]
			idx++
		}
	case "ln":
		v.m = map[int]string{}
		v.kind = 0
	case "se":
		j := resolve(cm.i)
		if j < 0 {
			return false
		}
		v.m[j] = cm.v
		v.kind = 2
	case "ae":
		j := resolve(cm.i)
		if j < 0 {
			return false
		}
		v.m[j] += cm.v
		v.kind = 2
	case "ss":
		v.m[0] = cm.v
		if v.kind != 2 {
			v.m = map[int]string{0: cm.v}
			v.kind = 1
		}
	case "sa":
		v.m[0] += cm.v
		if v.kind == 0 {
			v.kind = 1
		}
	case "ue":
		switch v.kind {
		case 2:
			j := resolve(cm.i)
			if j < 0 {
				return false
			}
			delete(v.m, j)
		case 1:
			if cm.i == 0 {
				v.m = map[int]string{}
				v.kind = 0
			} else {
				return false
			}
		}
	case "ua":
		v.m = map[int]string{}
		v.kind = 0
	}
	return true
}

func c33Angle(l []string) string {
	if len(l) == 0 {
		return "<>"
	}
	var sb strings.Builder
	for _, s := range l {
		sb.WriteString("<" + s + ">")
	}
	return sb.String()
}

func (v c33OVar) dump(x string, items []string) string {
	var sb strings.Builder
	sb.WriteString(x + ":")
	ks := c33Keys(v.m)
	vals := make([]string, len(ks))
	for i, k := range ks {
		vals[i] = v.m[k]
	}
	for _, it := range items {
		kind, i, off, length, _ := c33ItemParts(it)
		sb.WriteString(" ")
		switch kind {
		case 'V':
			sb.WriteString("V" + c33Angle(vals))
		case 'K':
			kk := make([]string, len(ks))
			for i, k := range ks {
				kk[i] = strconv.Itoa(k)
			}
			sb.WriteString("K" + c33Angle(kk))
		case 'N':
			sb.WriteString("N" + strconv.Itoa(len(ks)))
		case 'J':
			sb.WriteString("J<" + strings.Join(vals, " ") + ">")
		case 'Z':
			sb.WriteString("Z<" + v.m[0] + ">")
		case 'E', 'L':
			j := i
			if j < 0 {
				j += v.max() + 1
			}
			s, ok := v.m[j]
			if kind == 'L' {
				sb.WriteString("L" + strconv.Itoa(len(s)))
			} else if ok {
				sb.WriteString("E<S" + s + ">")
			} else {
				sb.WriteString("E<>")
			}
		case 'S':
			o := off
			sb.WriteString("S" + c33Angle(c33OracleSlice(v.m, &o, length)))
		}
	}
	return sb.String()
}

type c33OState struct {
	a, b   c33OVar
	sa, sb c33OVar
	blk    string
	la, lb bool
}

func (s *c33OState) v(x string) *c33OVar {
	if x == "b" {
		return &s.b
	}
	return &s.a
}

func (s *c33OState) step(cm c33Cmd, out *strings.Builder) {
	switch cm.kind {
	case "(":
		s.blk = cm.blk
		s.sa, s.sb = s.a.clone(), s.b.clone()
		s.la, s.lb = false, false
	case ")":
		if s.blk == "fn" {
			if s.la {
				s.a = s.sa
			}
			if s.lb {
				s.b = s.sb
			}
		} else {
			s.a, s.b = s.sa, s.sb
		}
		s.blk = ""
	case "d":
		out.WriteString(s.v(cm.x).dump(cm.x, cm.items) + "|")
	default:
		if cm.kind == "lo" || cm.kind == "ln" {
			if cm.x == "a" {
				s.la = true
			} else {
				s.lb = true
			}
		}
		other := s.b
		if cm.x == "b" {
			other = s.a
		}
		s.v(cm.x).apply(cm, other)
	}
}

func c33Oracle(cmds []c33Cmd) (string, *c33OState) {
	var out strings.Builder
	s := &c33OState{}
	for _, cm := range cmds {
		s.step(cm, &out)
	}
	return out.String(), s
}

// c33ShowVar renders the final expand.Variable of a program (Runner.Vars) like the Lean driver's
// showVar, and reports a representation that breaks the documented invariant of Indexes.
func c33ShowVar(vars map[string]expand.Variable, name string) (rep string, kind int, m map[int]string, problem string) {
	vr, ok := vars[name]
	b01 := func(b bool) string {
		if b {
			return "1"
		}
		return "0"
	}
	switch {
	case !ok || vr.Kind == expand.Unknown:
		return "unset", 0, map[int]string{}, ""
	case vr.Kind == expand.String:
		return "str:" + b01(vr.Set) + ":" + hx(vr.Str), 1, map[int]string{0: vr.Str}, ""
	case vr.Kind == expand.Indexed:
		p := make([]string, len(vr.List))
		for i, v := range vr.List {
			p[i] = hx(v)
		}
		ls := strings.Join(p, ";")
		if vr.List == nil {
			ls = "nil"
		}
		rep = "arr:" + b01(vr.Set) + ":" + hx(vr.Str) + ":" + c33ShowIdx(vr.Indexes) + ":" + ls
		m, wf := c33Abs(vr.List, vr.Indexes)
		if !wf {
			return rep, 2, nil, fmt.Sprintf("%s: List %q / Indexes %v break the invariant (unique, non-negative, sorted, as many as elements, nil iff dense)", name, vr.List, vr.Indexes)
		}
		return rep, 2, m, ""
	}
	return fmt.Sprintf("kind%d", vr.Kind), 3, nil, ""
}

// c33RunInterp is runInterp plus the final variables of the runner.
func c33RunInterp(c *Ctx, script string) (ShellResult, map[string]expand.Variable) {
	dir := scratchDir(c)
	defer os.RemoveAll(dir)
	var res ShellResult
	var vars map[string]expand.Variable
	res.Panic = safely(func() {
		f, err := syntax.NewParser(syntax.Variant(syntax.LangBash)).Parse(strings.NewReader(script), "")
		if err != nil {
			res.Err = "parse: " + err.Error()
			return
		}
		var out bytes.Buffer
		r, err := interp.New(interp.StdIO(nil, &out, io.Discard), interp.Dir(dir),
			interp.Env(expand.ListEnviron(shellEnv(c, dir)...)), interp.Params("--"))
		if err != nil {
			res.Err = "new: " + err.Error()
			return
		}
		ctx, cancel := context.WithTimeout(context.Background(), 10*time.Second)
		defer cancel()
		err = r.Run(ctx, f)
		res.Stdout = out.String()
		if ctx.Err() != nil {
			res.TimedOut = true
			return
		}
		if err != nil {
			var es interp.ExitStatus
			if asExit(err, &es) {
				res.Status = int(es)
			} else {
				res.Err = err.Error()
			}
		}
		vars = r.Vars
	})
	return res, vars
}

// ---- generator ----

var c33ProgVals = []string{"", "x", "y", "ab", "0", "p q", "*", "zz", "Q", "7"}

func c33GenIndex(r *Rand, v c33OVar, allowNeg bool) int {
	mx := v.max()
	switch k := r.Intn(20); {
	case k < 8:
		return r.Intn(7)
	case k < 11:
		return max(0, mx+r.Intn(3))
	case k < 13 && len(v.m) > 0:
		ks := c33Keys(v.m)
		return ks[r.Intn(len(ks))]
	case k < 16 && allowNeg && mx >= 0:
		// in range: -1 … -(max+1)
		n := 1 + r.Intn(4)
		if n > mx+1 {
			n = mx + 1
		}
		return -n
	case k < 17:
		return 7 + r.Intn(20)
	case k < 18:
		return []int{100, 1000, 65536, 1 << 32, 1 << 40}[r.Intn(5)]
	default:
		return r.Intn(4)
	}
}

// c33GenElems builds the elements of an array literal applied to base `v` (nil map = fresh).
// Now and then an explicit negative subscript is out of range: both shells report it, skip that
// element and carry on with the counter unchanged (fixed finding C33-literal-bad-subscript).
func c33GenElems(r *Rand, v c33OVar, fresh bool) []c33Elem {
	sim := v.clone()
	if fresh {
		sim = c33OVar{kind: 2, m: map[int]string{}}
	}
	n := r.Intn(5)
	if r.Chance(10) {
		n = 5 + r.Intn(6)
	}
	var es []c33Elem
	idx := sim.max() + 1
	for j := 0; j < n; j++ {
		e := c33Elem{v: r.Pick(c33ProgVals)}
		if r.Chance(30) {
			e.at = true
			e.i = c33GenIndex(r, sim, true)
			k := e.i
			if k < 0 {
				k += sim.max() + 1
			}
			if k < 0 || r.Chance(6) {
				e.i = -(sim.max() + 2) - r.Intn(3) // out of range: element skipped
				es = append(es, e)
				continue
			}
			idx = k
		}
		sim.m[idx] = e.v
		idx++
		es = append(es, e)
	}
	return es
}

func c33GenItems(r *Rand, v c33OVar) []string {
	items := []string{"V", "N"}
	if v.kind == 2 {
		items = append(items, "K")
	}
	n := 1 + r.Intn(4)
	for j := 0; j < n; j++ {
		switch k := r.Intn(10); {
		case k < 3:
			i := c33GenIndex(r, v, v.kind == 2)
			items = append(items, "E"+strconv.Itoa(i))
		case k < 4:
			i := c33GenIndex(r, v, v.kind == 2)
			items = append(items, "L"+strconv.Itoa(i))
		case k < 8:
			var off int
			switch r.Intn(4) {
			case 0:
				off = -1 - r.Intn(8)
			case 1:
				off = v.max() - 2 + r.Intn(5)
			default:
				off = r.Intn(8)
			}
			if r.Bool() {
				items = append(items, fmt.Sprintf("S%d_", off))
			} else {
				items = append(items, fmt.Sprintf("S%d_%d", off, r.Intn(5)))
			}
		case k < 9:
			items = append(items, "J")
		default:
			items = append(items, "Z")
		}
	}
	return items
}

// c33GenProg generates a command list, tracking bash's semantics with the oracle so that the
// documented exclusions can be applied exactly (see props/C33.notes.md):
//   * out-of-range negative `x[i]=v` only at top level     (bash aborts the enclosing function /
//     subshell on an assignment error; error handling, not array semantics)
//   * reads only on arrays and unset variables, `${!x[@]}` only on arrays, `${x[-n]}` only in
//     range, no negative slice length (expansion-level differences, C21's business)
//   * `local x` without a value only while x is unset      (interp keeps the outer value: C26)
func c33GenProg(r *Rand, thorough bool) ([]c33Cmd, []string) {
	var cmds []c33Cmd
	tagset := map[string]bool{}
	s := &c33OState{}
	var sink strings.Builder
	emit := func(cm c33Cmd) {
		cmds = append(cmds, cm)
		s.step(cm, &sink)
	}
	two := r.Chance(40)
	pickVar := func() string {
		if two && r.Chance(40) {
			return "b"
		}
		return "a"
	}
	nops := 3 + r.Intn(10)
	if thorough || r.Chance(15) {
		nops = 5 + r.Intn(18)
	}
	ctxPlan := r.Intn(10) // 0-3 top only, 4-5 fn, 6 fn+local, 7 sub, 8 cs, 9 mixed
	blockAt := -1
	blockLen := 0
	blkKind := ""
	switch {
	case ctxPlan >= 4:
		blockAt = r.Intn(nops)
		blockLen = 1 + r.Intn(6)
		blkKind = []string{"fn", "fn", "fn", "sub", "cs", "sub"}[ctxPlan-4]
		if ctxPlan == 9 && r.Bool() {
			blkKind = "fn"
		}
	}
	tagset["ctx:"+map[string]string{"": "top", "fn": "function", "sub": "subshell", "cs": "cmdsubst"}[blkKind]] = true
	inBlk := ""
	remaining := 0
	dumpsInBlk := 0
	genOp := func() {
		x := pickVar()
		v := s.v(x)
		for try := 0; try < 8; try++ {
			k := r.Intn(100)
			// builtins that REPLACE the array wholesale (on whatever dense/sparse/scalar/unset
			// state x is in): read -a, mapfile/readarray, declare -a x=(…)
			if pre := r.Intn(100); pre < 16 {
				switch {
				case pre < 7:
					vnt := r.Intn(4)
					alpha := []string{"x", "y", "ab", "0", "*", "zz", "Q", "7"}
					if vnt >= 2 {
						alpha = append(alpha, "p q") // only the IFS character splits
					}
					n := r.Intn(5)
					if r.Chance(15) {
						n = 5 + r.Intn(6)
					}
					vals := make([]string, n)
					for j := range vals {
						vals[j] = r.Pick(alpha)
					}
					emit(c33Cmd{x: x, kind: "ra", vnt: vnt, vals: vals})
					tagset["op:read-a"] = true
					if v.kind == 2 && len(v.m) > 0 {
						tagset["replace-existing-array"] = true
					}
				case pre < 12:
					n := r.Intn(5)
					if r.Chance(15) {
						n = 5 + r.Intn(6)
					}
					vals := make([]string, n)
					for j := range vals {
						vals[j] = r.Pick(c33ProgVals) // lines may be empty or contain spaces
					}
					emit(c33Cmd{x: x, kind: "mf", vnt: r.Intn(2), vals: vals})
					tagset["op:mapfile"] = true
					if v.kind == 2 && len(v.m) > 0 {
						tagset["replace-existing-array"] = true
					}
				default:
					if inBlk == "fn" && ((x == "a" && s.la) || (x == "b" && s.lb)) {
						continue // declare -g would go past the local
					}
					emit(c33Cmd{x: x, kind: "da", es: c33GenElems(r, *v, true)})
					tagset["op:declare-a"] = true
				}
				break
			}
			switch {
			case k < 14:
				emit(c33Cmd{x: x, kind: "as", es: c33GenElems(r, *v, true)})
				tagset["op:assign"] = true
			case k < 26:
				if v.kind == 1 && r.Chance(50) {
					tagset["scalar->array"] = true
				}
				emit(c33Cmd{x: x, kind: "ap", es: c33GenElems(r, *v, false)})
				tagset["op:append"] = true
			case k < 48:
				i := c33GenIndex(r, *v, true)
				if inBlk == "" && v.kind == 2 && r.Chance(4) {
					i = -(v.max() + 2) - r.Intn(3) // out of range: both shells report and go on
					tagset["neg-out-of-range-set"] = true
				}
				if i < 0 {
					tagset["neg-index"] = true
				}
				emit(c33Cmd{x: x, kind: "se", i: i, v: r.Pick(c33ProgVals)})
				tagset["op:set"] = true
			case k < 52:
				i := c33GenIndex(r, *v, true)
				if inBlk == "" && v.kind == 2 && r.Chance(4) {
					i = -(v.max() + 2) - r.Intn(3) // out of range: both shells report and go on
					tagset["neg-out-of-range-set"] = true
				}
				if i < 0 {
					tagset["neg-index"] = true
				}
				emit(c33Cmd{x: x, kind: "ae", i: i, v: r.Pick(c33ProgVals)})
				tagset["op:elem-append"] = true
			case k < 58:
				if v.kind == 0 && !r.Chance(20) {
					continue // would make a scalar; keep that rare
				}
				emit(c33Cmd{x: x, kind: "ss", v: r.Pick(c33ProgVals)})
				tagset["op:set-string"] = true
			case k < 66:
				if v.kind == 0 && !r.Chance(20) {
					continue
				}
				emit(c33Cmd{x: x, kind: "sa", v: r.Pick(c33ProgVals)})
				tagset["op:append-string"] = true
			case k < 84:
				if v.kind == 0 {
					continue
				}
				i := c33GenIndex(r, *v, v.kind == 2)
				if v.kind == 2 && r.Chance(4) {
					i = -(v.max() + 2) - r.Intn(3)
					tagset["neg-out-of-range-unset"] = true
				}
				if i < 0 {
					tagset["neg-index"] = true
				}
				emit(c33Cmd{x: x, kind: "ue", i: i})
				tagset["op:unset-elem"] = true
			case k < 88:
				emit(c33Cmd{x: x, kind: "ua"})
				tagset["op:unset-all"] = true
			case k < 94:
				if !two {
					continue
				}
				y := s.v(map[string]string{"a": "b", "b": "a"}[x])
				if y.kind == 1 {
					continue
				}
				kind := "cp"
				if r.Bool() {
					kind = "ca"
				}
				emit(c33Cmd{x: x, kind: kind})
				tagset["op:copy"] = true
			default:
				continue
			}
			break
		}
		v = s.v(x)
		if v.kind != 1 && r.Chance(55) {
			emit(c33Cmd{x: x, kind: "d", items: c33GenItems(r, *v)})
			if inBlk != "" {
				dumpsInBlk++
			}
		}
		if len(v.m) > 0 && v.kind == 2 {
			ks := c33Keys(v.m)
			if ks[len(ks)-1] != len(ks)-1 {
				tagset["sparse-state"] = true
			}
		}
	}
	finalDump := func(x string) {
		v := s.v(x)
		if v.kind != 1 {
			emit(c33Cmd{x: x, kind: "d", items: c33GenItems(r, *v)})
			if inBlk != "" {
				dumpsInBlk++
			}
		}
	}
	for i := 0; i < nops; i++ {
		if i == blockAt {
			inBlk = blkKind
			remaining = blockLen
			dumpsInBlk = 0
			emit(c33Cmd{kind: "(", blk: blkKind})
			if blkKind == "fn" && (ctxPlan == 6 || r.Chance(30)) {
				for _, x := range []string{"a", "b"} {
					if x == "b" && !two {
						continue
					}
					if !r.Chance(70) {
						continue
					}
					if s.v(x).kind == 0 && r.Chance(30) {
						emit(c33Cmd{x: x, kind: "ln"})
						tagset["local-naked"] = true
					} else {
						emit(c33Cmd{x: x, kind: "lo", es: c33GenElems(r, *s.v(x), true)})
						tagset["local-array"] = true
					}
				}
			}
		}
		genOp()
		if inBlk != "" {
			remaining--
			if remaining == 0 || i == nops-1 {
				finalDump("a")
				if two {
					finalDump("b")
				}
				if dumpsInBlk == 0 {
					// a block must print something (`echo "$( )"` of nothing would print a bare newline)
					if s.a.kind == 1 {
						emit(c33Cmd{x: "a", kind: "ap"}) // a+=() turns the scalar into an array; scalars are not dumped
					}
					emit(c33Cmd{x: "a", kind: "d", items: []string{"N"}})
				}
				emit(c33Cmd{kind: ")"})
				inBlk = ""
			}
		}
	}
	finalDump("a")
	if two {
		finalDump("b")
	}
	if two {
		tagset["two-arrays"] = true
	}
	var tags []string
	for t := range tagset {
		tags = append(tags, t)
	}
	sort.Strings(tags)
	return cmds, tags
}

func c33Tokens(cmds []c33Cmd) string {
	toks := make([]string, len(cmds))
	for i, cm := range cmds {
		toks[i] = cm.token()
	}
	return strings.Join(toks, " ")
}

func c33Canon(res ShellResult) string {
	if res.Panic != "" {
		return "panic: " + strings.ReplaceAll(res.Panic, "\n", " ")
	}
	if res.TimedOut {
		return "timeout"
	}
	out := strings.ReplaceAll(res.Stdout, "\n", "|")
	if res.Err != "" {
		out += " err: " + strings.ReplaceAll(res.Err, "\n", " ")
	}
	return out
}

type c33ProgCase struct {
	cmds   []c33Cmd
	tags   []string
	corpus bool
	bash   bool
}

func c33RunProgs(c *Ctx, cases []c33ProgCase) {
	type result struct {
		interp, bash string
		vars         map[string]expand.Variable
	}
	results := parallelMap(len(cases), 4, func(i int) result {
		script := c33Render(cases[i].cmds)
		var res result
		// A timeout can only come from a starved machine (the programs have no loops): retry.
		for try := 0; try < 8; try++ {
			r, vars := c33RunInterp(c, script)
			res.interp = c33Canon(r)
			res.vars = vars
			if !r.TimedOut {
				break
			}
		}
		if cases[i].bash {
			for try := 0; try < 4; try++ {
				r := runShell(c, "bash", script)
				res.bash = c33Canon(r)
				if !r.TimedOut && r.Status != -1 {
					break
				}
				res.bash = "unavailable"
			}
		}
		return res
	})
	nbash := 0
	for i, pc := range cases {
		toks := c33Tokens(pc.cmds)
		got := results[i].interp
		c.Op("prog "+toks, got)
		c.Op("specprog "+toks, got)
		want, final := c33Oracle(pc.cmds)
		witness := "specprog " + toks
		if got != want {
			c.Fail(witness, fmt.Sprintf("interp prints %q, the map oracle (bash semantics) says %q; program:\n%s", got, want, c33Render(pc.cmds)))
		}
		// List/Indexes probe on the variables the runner ends with: representation = model
		// (`progrep`), invariant, and abstraction = the oracle's final map.
		if results[i].vars != nil {
			repA, kindA, mA, probA := c33ShowVar(results[i].vars, "a")
			repB, kindB, mB, probB := c33ShowVar(results[i].vars, "b")
			c.Op("progrep "+toks, "a="+repA+" b="+repB)
			for _, pr := range []struct {
				prob string
				kind int
				m    map[int]string
				o    c33OVar
				name string
			}{{probA, kindA, mA, final.a, "a"}, {probB, kindB, mB, final.b, "b"}} {
				if pr.prob != "" {
					c.Fail(witness, "after the program, "+pr.prob+"; program:\n"+c33Render(pc.cmds))
				} else if pr.kind != pr.o.kind || c33ShowMap(pr.m) != c33ShowMap(pr.o.m) {
					c.Fail(witness, fmt.Sprintf("after the program %s is kind %d %s, the map oracle says kind %d %s; program:\n%s",
						pr.name, pr.kind, c33ShowMap(pr.m), pr.o.kind, c33ShowMap(pr.o.m), c33Render(pc.cmds)))
				}
			}
		}
		if pc.bash && results[i].bash == "unavailable" {
			c.Hist["bash-unavailable"]++ // bash could not be run in time (starved machine); not a verdict
		} else if pc.bash {
			nbash++
			if results[i].bash != got {
				c.Fail(witness, fmt.Sprintf("interp prints %q, bash prints %q; program:\n%s", got, results[i].bash, c33Render(pc.cmds)))
			} else if results[i].bash != want {
				c.Fail(witness, fmt.Sprintf("map oracle says %q but bash and interp print %q", want, got))
			}
		}
		tags := append([]string{"prog", fmt.Sprintf("prog-cmds=%d", len(pc.cmds)/5*5)}, pc.tags...)
		if pc.corpus {
			tags = append(tags, "corpus")
		}
		c.Case("p|"+toks, len(pc.cmds) >= 3, tags...)
	}
	n, _ := c.Extra["bash_runs"].(int)
	c.Extra["bash_runs"] = n + nbash
	n, _ = c.Extra["programs"].(int)
	c.Extra["programs"] = n + len(cases)
}

func c33(c *Ctx) {
	c.Rule = "unit: random (list, indexes) representations (35% dense, 50% sparse incl. large gaps, 15% malformed) × " +
		"{set,del,val,keys,max,canon,slice} with indices at/around existing ones, len, len+1, negative, huge; " +
		"programs: 3–22 array statements on one or two arrays (a=(…) with [i]=, a+=(…), a[i]=v incl. negative, a=v, a+=v, " +
		"unset a[i], unset a, copies, read -a / IFS=… read -ra, mapfile/readarray -t, declare -a a=(…)), optionally inside a function (with local), ( ) or $( ), printing values, keys, count, " +
		"elements, slices after most statements; non-trivial = list of ≥2 elements / ≥3 commands; distinct by exact input"
	// corpus first
	var progs []c33ProgCase
	for _, l := range c.CorpusLines() {
		f := strings.Fields(l)
		if len(f) < 2 {
			continue
		}
		switch f[0] {
		case "prog", "specprog":
			var cmds []c33Cmd
			ok := true
			for _, t := range f[1:] {
				cm, good := c33ParseToken(t)
				if !good {
					ok = false
					break
				}
				cmds = append(cmds, cm)
			}
			if ok {
				progs = append(progs, c33ProgCase{cmds: cmds, corpus: true, bash: true})
			}
		}
	}
	if len(progs) > 0 {
		c33RunProgs(c, progs)
	}
	r := c.R
	nprog := c.N / 6
	nbash := nprog * 2 / 5
	// unit level
	ops := []string{"set", "set", "set", "del", "del", "del", "val", "keys", "max", "canon", "slice", "slice"}
	for i := 0; i < c.N; i++ {
		list, idx, shape := c33GenArr(r)
		op := ops[r.Intn(len(ops))]
		k := c33PickIndex(r, list, idx)
		val := r.Pick(c33Vals)
		var off, length *int
		if op == "slice" {
			if !r.Chance(8) {
				o := k
				if r.Chance(30) {
					o = -r.Intn(10)
				}
				off = &o
				if r.Bool() {
					l := r.Intn(6)
					if r.Chance(12) {
						l = -1 - r.Intn(8)
					}
					length = &l
				}
			}
		}
		c33Unit(c, list, idx, shape, op, k, val, off, length)
	}
	// program level
	cases := make([]c33ProgCase, 0, nprog)
	for i := 0; i < nprog; i++ {
		cmds, tags := c33GenProg(r, c.Thorough())
		cases = append(cases, c33ProgCase{cmds: cmds, tags: tags, bash: i < nbash})
	}
	for len(cases) > 0 {
		n := min(len(cases), 500)
		c33RunProgs(c, cases[:n])
		cases = cases[n:]
	}
}
