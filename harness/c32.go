//go:build c32 || all

package main

import (
	"bytes"
	"context"
	"fmt"
	"io"
	"os"
	"sort"
	"strconv"
	"strings"
	"sync"
	"time"

	"mvdan.cc/sh/v3/expand"
	"mvdan.cc/sh/v3/interp"
	"mvdan.cc/sh/v3/syntax"
)

// C32 — Concurrent shell features are race-free.
//
// Correspondence streams (lean/ShVerif/Driver/C32.lean)
//   growtab s|i N  the Go runtime's slice growth policy = the oracle the driver instantiates
//   wait …         generated parent programs of `( __delay d; exit k ) &` and `wait g<pid>` / `wait`
//                  run on the real Runner: the statuses `wait` returns = the interleaving model's
//                  under a fair schedule
//   specwait …     the specification: `wait g<pid>` gives the pid-th started job's status
//   sep …          parent Runner + `Runner.Subshell()` copy, generated operations on either side in
//                  a generated order (run as parsed statements); after the fork and after every
//                  operation the heap-shape dump (hook interp.VerifC27Dump: len/cap/identity class
//                  of List/Indexes/Map of every variable, Params, dirStack) of both = the model's
// Search leg (c32_search.go): generated concurrent programs under the race detector, in worker
// processes of this binary (built with -race by ./check), with seeded scheduling perturbation.
func init() {
	register("C32", c32)
	if os.Getenv("VERIF_C32_WORKER") != "" {
		c32Worker()
		os.Exit(0)
	}
}

func c32(c *Ctx) {
	c.Rule = "tie cases: non-trivial when a job was waited for / when storage was shared at an operation; search cases: the program started a goroutine"
	if c.Shard == 0 {
		c.Op("growtab s 24", c32GrowTab("s", 24))
		c.Op("growtab i 24", c32GrowTab("i", 24))
	}
	r := c.R.Fork("tie")
	n := c.N
	for i := 0; i < n; i++ {
		if i%3 == 0 {
			c32WaitCase(c, r)
		} else {
			c32SepCase(c, r)
		}
	}
	sn := n / 4
	if c.Thorough() {
		sn = n / 6
	}
	c32Search(c, sn)
}

var c32Sink any

func c32GrowTab(kind string, n int) string {
	clone := make([]string, n+1)
	app := make([]string, n+1)
	for i := 0; i <= n; i++ {
		if kind == "s" {
			src := make([]string, i)
			cl := append([]string{}, src...)
			clone[i] = strconv.Itoa(cap(cl))
			full := make([]string, i, i)
			full = append(full, "v")
			app[i] = strconv.Itoa(cap(full))
			c32Sink = full
		} else {
			src := make([]int, i)
			cl := append([]int{}, src...)
			clone[i] = strconv.Itoa(cap(cl))
			full := make([]int, i, i)
			full = append(full, 1)
			app[i] = strconv.Itoa(cap(full))
			c32Sink = full
		}
	}
	return strings.Join(clone, ",") + ";" + strings.Join(app, ",")
}

// ---- wait ---------------------------------------------------------------------------------------

func c32DelayHandler(next interp.ExecHandlerFunc) interp.ExecHandlerFunc {
	return func(ctx context.Context, args []string) error {
		hc := interp.HandlerCtx(ctx)
		switch args[0] {
		case "__delay":
			if len(args) > 1 {
				if us, err := strconv.Atoi(args[1]); err == nil {
					time.Sleep(time.Duration(us) * time.Microsecond)
				}
			}
			return nil
		case "cat":
			if len(args) == 1 {
				if hc.Stdin != nil {
					io.Copy(hc.Stdout, hc.Stdin)
				}
				return nil
			}
			for _, a := range args[1:] {
				f, err := os.Open(a)
				if err != nil {
					fmt.Fprintf(hc.Stderr, "cat: %v\n", err)
					return interp.ExitStatus(1)
				}
				io.Copy(hc.Stdout, f)
				f.Close()
			}
			return nil
		case "rm":
			for _, a := range args[1:] {
				os.Remove(a)
			}
			return nil
		}
		fmt.Fprintf(hc.Stderr, "%s: not found\n", args[0])
		return interp.ExitStatus(127)
	}
}

func c32WaitCase(c *Ctx, r *Rand) {
	nops := 2 + r.Intn(7)
	var toks []string
	var src strings.Builder
	started := 0
	waits := 0
	for i := 0; i < nops; i++ {
		switch k := r.Intn(10); {
		case k < 5 || started == 0:
			st := r.Pick([]string{"0", "1", "2", "7", "42", "127", "255"})
			fmt.Fprintf(&src, "( __delay %d; exit %s ) &\n", r.Intn(3)*300, st)
			toks = append(toks, "s"+st)
			started++
		case k < 9:
			pid := 1 + r.Intn(started+1) // sometimes one too many: not a child
			if r.Chance(10) {
				pid = 0
			}
			if pid == started && r.Bool() {
				src.WriteString("wait $!; echo \"ST $?\"\n")
			} else {
				fmt.Fprintf(&src, "wait g%d; echo \"ST $?\"\n", pid)
			}
			toks = append(toks, fmt.Sprintf("w%d", pid))
			waits++
		default:
			src.WriteString("wait\n")
			toks = append(toks, "W")
		}
	}
	src.WriteString("wait\n")
	toks = append(toks, "W")
	file, err := syntax.NewParser().Parse(strings.NewReader(src.String()), "")
	if err != nil {
		panic("c32 wait: " + err.Error())
	}
	var out c32SyncBuf
	runner, _ := interp.New(interp.StdIO(nil, &out, io.Discard), interp.Env(expand.ListEnviron("PATH=/nonexistent")), interp.ExecHandlers(c32DelayHandler))
	ctx, cancel := context.WithTimeout(context.Background(), 20*time.Second)
	defer cancel()
	pn := safely(func() { runner.Run(ctx, file) })
	if ctx.Err() != nil {
		c.Case("", false, "tie:wait-timeout")
		return
	}
	var ans []string
	if pn != "" {
		ans = append(ans, "panic")
	} else {
		// statuses in program order; pair them with the wait tokens
		var sts []string
		for _, l := range strings.Split(out.String(), "\n") {
			if s, ok := strings.CutPrefix(l, "ST "); ok {
				sts = append(sts, s)
			}
		}
		wi := 0
		startedSoFar := 0
		for _, t := range toks {
			switch t[0] {
			case 's':
				startedSoFar++
			case 'w':
				pid, _ := strconv.Atoi(t[1:])
				got := "?"
				if wi < len(sts) {
					got = sts[wi]
				}
				wi++
				if pid <= 0 || pid > startedSoFar {
					// "not a child": exit status 1
					if got == "1" {
						ans = append(ans, fmt.Sprintf("g%d:notchild", pid))
					} else {
						ans = append(ans, fmt.Sprintf("g%d:status-%s-for-non-child", pid, got))
					}
				} else {
					ans = append(ans, fmt.Sprintf("g%d:%s", pid, got))
				}
			}
		}
		ans = append(ans, "done")
	}
	prog := strings.Join(toks, ",")
	c.Op("wait "+prog+" rr", strings.Join(ans, " "))
	c.Op("specwait "+prog, strings.Join(ans, " "))
	c.Case("wait "+prog, waits > 0, "tie:wait", fmt.Sprintf("wait:jobs<%d", bucket(started)))
}

// ---- sep ----------------------------------------------------------------------------------------

type c32Op struct {
	tok string // model token
	src string // shell statement
}

// c32SepGen tracks the kind of a, b (m is always associative) so that only statements whose
// dispatch in interp/vars.go is the modelled one are generated.
type c32SepGen struct {
	r     *Rand
	kind  map[string]string // unknown | string | indexed
	nparm int
	ndirs int
}

func c32Word(r *Rand) string { return r.Pick([]string{"x", "yy", "z1", "q", "w0"}) }

func (g *c32SepGen) op() c32Op {
	r := g.r
	name := r.Pick([]string{"a", "b"})
	switch k := r.Intn(20); {
	case k < 2:
		v := c32Word(r)
		if g.kind[name] != "indexed" {
			g.kind[name] = "string"
		}
		return c32Op{fmt.Sprintf("ss:%s:%s", hx(name), hx(v)), name + "=" + v}
	case k < 5:
		v := c32Word(r)
		if g.kind[name] == "unknown" {
			g.kind[name] = "string"
		}
		return c32Op{fmt.Sprintf("as:%s:%s", hx(name), hx(v)), name + "+=" + v}
	case k < 8:
		v := c32Word(r)
		idx := r.Pick([]string{"0", "1", "2", "3", "5", "9"})
		g.kind[name] = "indexed"
		return c32Op{fmt.Sprintf("se:%s:%s:%s", hx(name), idx, hx(v)), fmt.Sprintf("%s[%s]=%s", name, idx, v)}
	case k < 10:
		if g.kind[name] != "indexed" {
			return g.op()
		}
		idx := r.Pick([]string{"0", "1", "2", "3", "5"})
		return c32Op{fmt.Sprintf("ue:%s:%s", hx(name), idx), fmt.Sprintf("unset '%s[%s]'", name, idx)}
	case k < 13:
		n := r.Intn(4)
		vs := make([]string, n)
		hs := make([]string, n)
		for i := range vs {
			vs[i] = c32Word(r)
			hs[i] = hx(vs[i])
		}
		app := r.Bool()
		g.kind[name] = "indexed"
		h := strings.Join(hs, ",")
		if n == 0 {
			h = "-"
		}
		op := "="
		if app {
			op = "+="
		}
		return c32Op{fmt.Sprintf("al:%s:%s:%s", hx(name), b01c32(app), h), fmt.Sprintf("%s%s(%s)", name, op, strings.Join(vs, " "))}
	case k == 13:
		g.kind[name] = "unknown"
		return c32Op{"un:" + hx(name), "unset " + name}
	case k == 14:
		key, v := r.Pick([]string{"k", "j", "n"}), c32Word(r)
		return c32Op{fmt.Sprintf("sk:%s:%s:%s", hx("m"), hx(key), hx(v)), fmt.Sprintf("m[%s]=%s", key, v)}
	case k == 15:
		key := r.Pick([]string{"k", "j", "n"})
		return c32Op{fmt.Sprintf("uk:%s:%s", hx("m"), hx(key)), fmt.Sprintf("unset 'm[%s]'", key)}
	case k == 16:
		n := r.Intn(3)
		return c32Op{fmt.Sprintf("sh:%d", n), fmt.Sprintf("shift %d", n)}
	case k == 17:
		n := r.Intn(4)
		vs := make([]string, n)
		hs := make([]string, n)
		for i := range vs {
			vs[i] = c32Word(r)
			hs[i] = hx(vs[i])
		}
		h := strings.Join(hs, ",")
		if n == 0 {
			h = "-"
		}
		return c32Op{"sp:" + h, "set -- " + strings.Join(vs, " ")}
	case k == 18:
		d := r.Pick([]string{"/d1", "/d2"})
		return c32Op{"pu:" + hx(d), "pushd -n " + d}
	default:
		return c32Op{"po", "popd -n"}
	}
}

func b01c32(b bool) string {
	if b {
		return "1"
	}
	return "0"
}

// c32RenderDump converts the hook's dump of (parent, child) to the driver's format.
func c32RenderDump(d []interp.VerifC27Runner) string {
	strs, ints, maps := map[int]int{}, map[int]int{}, map[int]int{}
	cls := func(m map[int]int, c int) int {
		if v, ok := m[c]; ok {
			return v
		}
		m[c] = len(m) + 1
		return m[c]
	}
	slice := func(m map[int]int, isNil bool, ln, cp, class int, hide bool) string {
		switch {
		case isNil:
			return "nil"
		case cp == 0 || (hide && ln == 0):
			return fmt.Sprintf("%d/%d/0", ln, cp)
		}
		return fmt.Sprintf("%d/%d/%d", ln, cp, cls(m, class))
	}
	commaSep := func(l []string) string {
		if len(l) == 0 {
			return "-"
		}
		return strings.Join(l, ",")
	}
	side := func(r interp.VerifC27Runner) string {
		var parts []string
		for _, name := range []string{"a", "b", "m"} {
			var v interp.VerifC27Var
			found := false
			for _, sc := range r.Scopes { // innermost first
				for _, x := range sc.Vars {
					if x.Name == name {
						v, found = x, true
						break
					}
				}
				if found {
					break
				}
			}
			kind := v.Kind
			l := slice(strs, !found || v.ListNil, v.ListLen, v.ListCap, v.ListClass, false)
			i := slice(ints, !found || v.IdxNil, v.IdxLen, v.IdxCap, v.IdxClass, false)
			m := "nil"
			if found && !v.MapNil {
				var kvs []string
				for j, k := range v.MapKeys {
					kvs = append(kvs, hx(k)+"="+hx(v.MapVals[j]))
				}
				sort.Strings(kvs)
				m = fmt.Sprintf("%d{%s}", cls(maps, v.MapClass), strings.Join(kvs, ","))
			}
			var lv, iv []string
			for _, s := range v.List {
				lv = append(lv, hx(s))
			}
			for _, k := range v.Idx {
				iv = append(iv, strconv.Itoa(k))
			}
			parts = append(parts, fmt.Sprintf("%s:%s:%d:%s:L%s[%s]:I%s[%s]:M%s", hx(name), b01c32(v.Set), kind, hx(v.Str), l, commaSep(lv), i, commaSep(iv), m))
		}
		var pv, dv []string
		for _, s := range r.Params.Vals {
			pv = append(pv, hx(s))
		}
		for _, s := range r.DirStack.Vals {
			dv = append(dv, hx(s))
		}
		pc := 0
		if r.Params.Len > 0 {
			pc = 1
		}
		p := slice(strs, r.Params.Nil, r.Params.Len, pc, r.Params.Class, true)
		ds := slice(strs, r.DirStack.Nil, r.DirStack.Len, r.DirStack.Cap, r.DirStack.Class, false)
		return strings.Join(parts, " ") + fmt.Sprintf(" P%s[%s] D%s[%s]", p, commaSep(pv), ds, commaSep(dv))
	}
	return "{" + side(d[0]) + " | " + side(d[1]) + "}"
}

func c32SepCase(c *Ctx, r *Rand) {
	g := &c32SepGen{r: r, kind: map[string]string{"a": "unknown", "b": "unknown"}}
	dir := "/S"
	var setup []c32Op
	// the associative array exists from the start, so that every m[...] statement is a key write
	setup = append(setup, c32Op{fmt.Sprintf("ml:%s:%s=%s", hx("m"), hx("k"), hx("v")), "declare -A m=([k]=v)"})
	for i := r.Intn(5); i > 0; i-- {
		setup = append(setup, g.op())
	}
	var inter []c32Op
	var sides []bool
	for i := 1 + r.Intn(6); i > 0; i-- {
		inter = append(inter, g.op())
		sides = append(sides, r.Bool())
	}
	// Each side has its own idea of a's and b's kind after the fork; the generator's single map is
	// only right while both sides agree, so `ue` (which needs an indexed array) is re-checked on the
	// real Runner below: a statement whose dispatch would differ is dropped from the case.
	parse := func(s string) *syntax.File {
		f, err := syntax.NewParser().Parse(strings.NewReader(s), "")
		if err != nil {
			panic("c32 sep: " + err.Error() + ": " + s)
		}
		return f
	}
	parent, err := interp.New(interp.StdIO(nil, io.Discard, io.Discard), interp.Dir("/"), interp.Env(expand.ListEnviron("HOME=/")))
	if err != nil {
		panic(err)
	}
	ctx := context.Background()
	// Dir "/" is what the Runner starts with: the model gets it as the first dirStack entry
	dir = "/"
	var setupToks []string
	pn := ""
	for _, op := range setup {
		if pn = safely(func() { parent.Run(ctx, parse(op.src)) }); pn != "" {
			break
		}
		setupToks = append(setupToks, op.tok)
	}
	if pn != "" {
		c.Case("", false, "tie:sep-setup-panic")
		return
	}
	child := parent.Subshell()
	var answers []string
	answers = append(answers, c32RenderDump(interp.VerifC27Dump(parent, child)))
	var interToks []string
	shared := false
	kindOf := func(rn *interp.Runner, name string) int {
		d := interp.VerifC27Dump(rn)
		for _, sc := range d[0].Scopes {
			for _, x := range sc.Vars {
				if x.Name == name {
					return x.Kind
				}
			}
		}
		return 0
	}
	for i, op := range inter {
		rn := parent
		tag := "P:"
		if sides[i] {
			rn, tag = child, "C:"
		}
		// re-check the dispatch assumptions on the side that runs the statement
		f := strings.Split(op.tok, ":")
		if len(f) > 1 && (f[0] == "ss" || f[0] == "as" || f[0] == "se" || f[0] == "ue" || f[0] == "al" || f[0] == "un") {
			k := kindOf(rn, unhx(f[1]))
			if f[0] == "ue" && k != int(expand.Indexed) {
				continue
			}
			if k == int(expand.Associative) || k == int(expand.NameRef) {
				continue
			}
		}
		shared = true
		if pn = safely(func() { rn.Run(ctx, parse(op.src)) }); pn != "" {
			interToks = append(interToks, tag+op.tok)
			answers = append(answers, "panic")
			break
		}
		interToks = append(interToks, tag+op.tok)
		answers = append(answers, c32RenderDump(interp.VerifC27Dump(parent, child)))
	}
	line := "sep " + hx(dir) + " " + strings.Join(setupToks, " ") + " | " + strings.Join(interToks, " ")
	c.Op(line, strings.Join(answers, " "))
	c.Case(line, shared && len(interToks) > 0, "tie:sep", fmt.Sprintf("sep:ops<%d", bucket(len(interToks))))
}

// c32SyncBuf is a writer safe for concurrent use (the Runner documents that Stdout/Stderr may be
// written concurrently by background commands).
type c32SyncBuf struct {
	mu sync.Mutex
	b  bytes.Buffer
}

func (s *c32SyncBuf) Write(p []byte) (int, error) {
	s.mu.Lock()
	defer s.mu.Unlock()
	if s.b.Len() < 1<<16 {
		s.b.Write(p)
	}
	return len(p), nil
}

func (s *c32SyncBuf) String() string {
	s.mu.Lock()
	defer s.mu.Unlock()
	return s.b.String()
}
