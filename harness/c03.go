//go:build c03 || all

package main

import (
	"bytes"
	"fmt"
	"strings"

	"mvdan.cc/sh/v3/syntax"
)

// C03 — Formatting never changes what a script does.
// Search leg: original vs formatted text run by the same engine (interp in-process, real bash).
func init() { register("C03", c03) }

type c03Fmt struct {
	name string
	opts []syntax.PrinterOption
}

var c03Fmts = []c03Fmt{
	{"default", nil},
	{"minify", []syntax.PrinterOption{syntax.Minify(true)}},
	{"single", []syntax.PrinterOption{syntax.SingleLine(true)}},
	{"i2-bn-ci", []syntax.PrinterOption{syntax.Indent(2), syntax.BinaryNextLine(true), syntax.SwitchCaseIndent(true)}},
	{"sr-fn", []syntax.PrinterOption{syntax.SpaceRedirects(true), syntax.FunctionNextLine(true), syntax.Indent(8)}},
	{"kp", []syntax.PrinterOption{syntax.KeepPadding(true)}},
}

func c03Format(src string, lang syntax.LangVariant, f c03Fmt, simplify bool) (string, bool) {
	file, err, pn := parseIn(src, lang, syntax.KeepComments(true))
	if pn != "" || err != nil {
		return "", false
	}
	if simplify {
		syntax.Simplify(file)
	}
	var b bytes.Buffer
	ok := true
	if p := safely(func() {
		if err := syntax.NewPrinter(f.opts...).Print(&b, file); err != nil {
			ok = false
		}
	}); p != "" {
		return "", false
	}
	return b.String(), ok
}

func c03Same(a, b ShellResult) bool {
	return a.Stdout == b.Stdout && a.Status == b.Status && a.Panic == b.Panic
}

func c03(c *Ctx) {
	c.Rule = "runnable programs: generated deterministic builtin-only programs (control flow, functions, here-docs, case, arithmetic, pipelines into read, [[ ]] and arrays for bash) and the repository's interpreter test programs without time/pid/randomness/background jobs; each formatted with a sampled printer option set (default, Minify, SingleLine, indent/binary-next-line/case-indent, space-redirects/function-next-line, KeepPadding) and run before/after by interp (in-process) and, for a sample, by real bash; " +
		"non-trivial = the original prints ≥ 2 lines under the engine and formatting changed the text; distinct by (program, option set). " +
		"Model streams: 4n programs of the fragment F0 ∩ L5 (builtins true : false exit echo set, lists, && || | !, ( ), { }, single-quote and layout noise; bash/posix/mksh) — `run`: interp.Runner vs L4 parse → toL5 → L5 runFile; `specfmt`: format with one of 8 option sets and compare the runs, on both sides; non-trivial there = ≥ 3 lines of source"
	seeds := repoSeeds()
	type job struct {
		src  string
		lang syntax.LangVariant
		f    c03Fmt
		bash bool
	}
	var jobs []job
	for _, l := range c.CorpusLines() {
		f := strings.Fields(l)
		if len(f) < 2 || f[0] == "frag" {
			continue
		}
		if f[0] == "known" && len(f) == 3 {
			// `known <id> <hexsrc>`: a recorded finding, replayed under bash with every option set; reported once
			// under a witness that does not depend on the option set (see known-findings.jsonl)
			src := unhx(f[2])
			for _, ff := range c03Fmts {
				out, ok := c03Format(src, syntax.LangBash, ff, false)
				if !ok {
					continue
				}
				b1, b2 := runShell(c, "bash", src), runShell(c, "bash", out)
				if !b1.TimedOut && !b2.TimedOut && !c03Same(b1, b2) {
					c.Fail("known "+f[1]+" "+f[2], fmt.Sprintf("bash: original gives status %d stdout %q; formatted (%s) gives status %d stdout %q; formatted text: %q", b1.Status, clip(b1.Stdout), ff.name, b2.Status, clip(b2.Stdout), clip(out)))
					break
				}
			}
			continue
		}
		for _, ff := range c03Fmts {
			jobs = append(jobs, job{unhx(f[len(f)-1]), syntax.LangBash, ff, true})
		}
	}
	nBash := 0
	maxBash := c.N / 8
	for i := 0; i < c.N; i++ {
		r := c.R
		var src string
		lang := syntax.LangBash
		if r.Chance(35) {
			src = seeds[r.Intn(len(seeds))]
			if nondeterministic(src) || !strings.Contains(src, " ") {
				continue
			}
		} else {
			bash := r.Chance(60)
			if !bash {
				lang = syntax.LangPOSIX
			}
			src = newRunGen(r, bash).Program()
		}
		ff := c03Fmts[r.Intn(len(c03Fmts))]
		useBash := nBash < maxBash && r.Chance(25)
		if useBash {
			nBash++
		}
		jobs = append(jobs, job{src, lang, ff, useBash})
	}
	type res struct {
		skipped string
		fails   []Failure
		nontriv bool
	}
	results := parallelMap(len(jobs), 8, func(i int) res {
		j := jobs[i]
		out, ok := c03Format(j.src, j.lang, j.f, false)
		if !ok {
			return res{skipped: "unformattable"}
		}
		if _, err, _ := parseIn(out, j.lang); err != nil {
			// The round trip is C01's property, but text that no longer parses also no longer does what the
			// script did: ask bash, which runs whatever it is given (seeded change C03-3: a `<<-` delimiter
			// written with spaces swallows the rest of the file).  Equal behaviour under bash = C01's business only.
			if strings.Contains(j.src, "\r") {
				return res{skipped: "formatted-output-does-not-parse (C01), CR in source: no bash verdict"}
			}
			b1 := runShell(c, "bash", j.src)
			b2 := runShell(c, "bash", out)
			for retry := 0; retry < 2 && !b1.TimedOut && !b2.TimedOut && !c03Same(b1, b2); retry++ {
				b1 = runShell(c, "bash", j.src)
				b2 = runShell(c, "bash", out)
			}
			if !b1.TimedOut && !b2.TimedOut && !c03Same(b1, b2) {
				w := fmt.Sprintf("%s %s %s", j.f.name, langName(j.lang), hx(j.src))
				return res{fails: []Failure{{Witness: "bash " + w, What: fmt.Sprintf("the formatted text (%s) no longer parses (%v) and bash runs it differently: original gives status %d stdout %q; formatted gives status %d stdout %q; formatted text: %q", j.f.name, err, b1.Status, clip(b1.Stdout), b2.Status, clip(b2.Stdout), clip(out))}}}
			}
			return res{skipped: "formatted-output-does-not-parse (C01), same under bash"}
		}
		var r res
		o1 := runInterp(c, j.lang, j.src)
		o2 := runInterp(c, j.lang, out)
		if o1.TimedOut || o2.TimedOut {
			return res{skipped: "timeout"}
		}
		r.nontriv = strings.Count(o1.Stdout, "\n") >= 2 && out != j.src
		w := fmt.Sprintf("%s %s %s", j.f.name, langName(j.lang), hx(j.src))
		for retry := 0; retry < 2 && !c03Same(o1, o2); retry++ {
			// under heavy machine load an external command's output can be cut short; a real
			// formatting defect is deterministic, so re-run before judging
			o1 = runInterp(c, j.lang, j.src)
			o2 = runInterp(c, j.lang, out)
		}
		if !o1.TimedOut && !o2.TimedOut && !c03Same(o1, o2) {
			r.fails = append(r.fails, Failure{Witness: "interp " + w, What: fmt.Sprintf("interp: original gives status %d stdout %q; formatted (%s) gives status %d stdout %q; formatted text: %q", o1.Status, clip(o1.Stdout), j.f.name, o2.Status, clip(o2.Stdout), clip(out))})
		}
		// bash does not take CR LF line ends (mvdan/sh accepts them on purpose): no bash verdict for such sources
		// known finding C03-singleline-alias-same-line: SingleLine joins an alias definition and its use on one line
		aliasJoin := j.f.name == "single" && (strings.Contains(j.src, "alias") || strings.Contains(j.src, "shopt")) // also C03-singleline-extglob-same-line
		if j.bash && j.lang == syntax.LangBash && !strings.Contains(j.src, "\r") && !aliasJoin {
			b1 := runShell(c, "bash", j.src)
			b2 := runShell(c, "bash", out)
			for retry := 0; retry < 2 && !c03Same(b1, b2); retry++ {
				b1 = runShell(c, "bash", j.src)
				b2 = runShell(c, "bash", out)
			}
			if !b1.TimedOut && !b2.TimedOut && !c03Same(b1, b2) {
				r.fails = append(r.fails, Failure{Witness: "bash " + w, What: fmt.Sprintf("bash: original gives status %d stdout %q; formatted (%s) gives status %d stdout %q; formatted text: %q", b1.Status, clip(b1.Stdout), j.f.name, b2.Status, clip(b2.Stdout), clip(out))})
			}
		}
		return r
	})
	for i, r := range results {
		j := jobs[i]
		if r.skipped != "" {
			c.Hist["skipped:"+r.skipped]++
			continue
		}
		tags := []string{"fmt=" + j.f.name, "lang=" + langName(j.lang)}
		if j.bash {
			tags = append(tags, "bash-leg")
		}
		c.Case(j.f.name+"\x00"+j.src, r.nontriv, tags...)
		for _, f := range r.fails {
			c.Fail(f.Witness, f.What)
		}
	}
	// the concrete model: L4 parse → toL5 → L5 run, tied to interp.Runner; C03's statement as a spec op
	c03ModelStreams(c, c.N*4)
}

func clip(s string) string {
	if len(s) > 300 {
		return s[:300] + "…"
	}
	return s
}
