//go:build c34 || all

package main

import (
	"fmt"
	"sort"
	"strings"

	"mvdan.cc/sh/v3/expand"
)

// C34 — ListEnviron / FuncEnviron.
// Streams: `get` (model of listEnviron_ + Get), `spec` (left-to-right map spec: the property
// itself), `each`.  Search leg: Go map oracle computed here, independent of Lean.
func init() { register("C34", c34) }

func c34Get(pairs []string, name string) string {
	var out string
	p := safely(func() {
		env := expand.ListEnviron(pairs...)
		v := env.Get(name)
		if !v.IsSet() {
			out = "unset"
		} else {
			if !v.Exported || v.Kind != expand.String {
				out = "bad-attrs"
				return
			}
			out = "val " + hx(v.Str)
		}
	})
	if p != "" {
		return "panic"
	}
	return out
}

func c34Each(pairs []string) (string, []string) {
	var parts []string
	var names []string
	p := safely(func() {
		env := expand.ListEnviron(pairs...)
		env.Each(func(name string, vr expand.Variable) bool {
			parts = append(parts, hx(name)+":"+hx(vr.Str))
			names = append(names, name)
			return true
		})
	})
	if p != "" {
		return "panic", nil
	}
	return strings.Join(append([]string{"each"}, parts...), " "), names
}

// c34CaseCI drives the caseInsensitive = true mode (what ListEnviron uses on Windows) through the
// verif hook, with ASCII names: Get vs the folded model (`ciget`), vs the case-insensitive map
// (`specci`, and a Go oracle), and Each vs the model (`cieach`).
func c34CaseCI(c *Ctx, pairs []string, names []string) {
	up := strings.ToUpper
	m := map[string]string{}
	for _, p := range pairs {
		n, v, ok := strings.Cut(p, "=")
		if !ok || n == "" {
			continue
		}
		m[up(n)] = v
	}
	c.Case("ci\x00"+strings.Join(pairs, "\x00"), len(m) >= 2, fmt.Sprintf("cipairs=%d", len(pairs)), "mode=case-insensitive")
	for _, name := range names {
		got := "unset"
		if p := safely(func() {
			v := expand.VerifListEnviron(true, pairs...).Get(name)
			if v.IsSet() {
				got = "val " + hx(v.Str)
			}
		}); p != "" {
			got = "panic"
		}
		c.Op("ciget "+hx(name)+" "+hxs(pairs), got)
		c.Op("specci "+hx(name)+" "+hxs(pairs), got)
		want := "unset"
		if v, ok := m[up(name)]; ok && !strings.Contains(name, "=") {
			want = "val " + hx(v)
		}
		if got != want {
			c.Fail("ciget "+hx(name)+" "+hxs(pairs), fmt.Sprintf("listEnviron_(true, %q).Get(%q) = %s, case-insensitive map oracle says %s", pairs, name, got, want))
		}
	}
	var parts, eachNames []string
	ep := safely(func() {
		expand.VerifListEnviron(true, pairs...).Each(func(name string, vr expand.Variable) bool {
			parts = append(parts, hx(name)+":"+hx(vr.Str))
			eachNames = append(eachNames, up(name))
			return true
		})
	})
	got := strings.Join(append([]string{"each"}, parts...), " ")
	if ep != "" {
		got = "panic"
	}
	c.Op("cieach "+hxs(pairs), got)
	want := []string{}
	for n := range m {
		want = append(want, n)
	}
	sort.Strings(want)
	// Each yields every surviving name exactly once (the order, by `NAME=` keys, is the model's business)
	sort.Strings(eachNames)
	if got == "panic" || strings.Join(eachNames, "\x00") != strings.Join(want, "\x00") {
		c.Fail("cieach "+hxs(pairs), fmt.Sprintf("Each names (folded) %q, oracle %q", eachNames, want))
	}
}

func c34Case(c *Ctx, pairs []string, names []string) {
	// Go map oracle (the property's own words).
	m := map[string]string{}
	for _, p := range pairs {
		n, v, ok := strings.Cut(p, "=")
		if !ok || n == "" {
			continue
		}
		m[n] = v
	}
	dup := len(m) > 0 && func() bool {
		seen := map[string]bool{}
		for _, p := range pairs {
			n, _, ok := strings.Cut(p, "=")
			if ok && n != "" {
				if seen[n] {
					return true
				}
				seen[n] = true
			}
		}
		return false
	}()
	tags := []string{fmt.Sprintf("pairs=%d", len(pairs))}
	if dup {
		tags = append(tags, "has-duplicate")
	}
	c.Case(strings.Join(pairs, "\x00"), len(m) >= 2 || dup, tags...)
	for _, name := range names {
		got := c34Get(pairs, name)
		c.Op("get "+hx(name)+" "+hxs(pairs), got)
		c.Op("spec "+hx(name)+" "+hxs(pairs), got)
		want := "unset"
		if v, ok := m[name]; ok {
			want = "val " + hx(v)
		}
		if got != want {
			c.Fail("get "+hx(name)+" "+hxs(pairs), fmt.Sprintf("ListEnviron(%q).Get(%q) = %s, map oracle says %s", pairs, name, got, want))
		}
	}
	got, eachNames := c34Each(pairs)
	c.Op("each "+hxs(pairs), got)
	// Each yields every surviving name exactly once.
	wantNames := []string{}
	for n := range m {
		wantNames = append(wantNames, n)
	}
	sort.Strings(wantNames)
	gotSorted := append([]string{}, eachNames...)
	sort.Strings(gotSorted)
	if got == "panic" || strings.Join(gotSorted, "\x00") != strings.Join(wantNames, "\x00") {
		c.Fail("each "+hxs(pairs), fmt.Sprintf("Each names %q, oracle %q", eachNames, wantNames))
	}
	// FuncEnviron: empty means unset.
	fe := expand.FuncEnviron(func(n string) string { return m[n] })
	for _, name := range names {
		v := fe.Get(name)
		if v.IsSet() != (m[name] != "") || v.Str != m[name] {
			c.Fail("funcenv "+hx(name), "FuncEnviron set/empty mismatch")
		}
	}
}

func c34(c *Ctx) {
	c.Rule = "random pair lists over names {A,AB,A1,a,B,_x,'',A+,é} × values with '=' and empty, plus pairs without '='; " +
		"queried names: every given name, prefixes/extensions, absent names; non-trivial = ≥2 surviving names or a duplicate name; distinct by exact pair list"
	// names on both sides of '=' (0x3d) in byte order, at every position: the sort key is `name=`
	nameAlpha := []string{"A", "B", "AB", "A1", "a", "_x", "A+", "é", "ABC", "Z", "A B",
		"1", "1A", "-x", ".", "+", "<", ">", " ", "<A", "A<", "A>", "0", "9z", "~", "\x00", "\xff", "A\x00", "#", ";"}
	valAlpha := []string{"", "1", "x=y", "=", "v", "é", " ", "A", "B=c"}
	// names containing '=' are excluded from *queried* names: known finding C34-get-name-with-eq
	// (fixed entries do not need the exclusion; see known-findings.jsonl).
	for _, l := range c.CorpusLines() {
		f := strings.Fields(l)
		if len(f) < 2 {
			continue
		}
		var pairs []string
		for _, h := range f[2:] {
			pairs = append(pairs, unhx(h))
		}
		c34Case(c, pairs, []string{unhx(f[1])})
	}
	for i := 0; i < c.N; i++ {
		r := c.R
		n := r.Intn(9)
		if c.Thorough() {
			n = r.Intn(14)
		}
		var pairs []string
		if r.Intn(6) == 0 {
			// long lists with many duplicated names and pairwise distinct values: "last value wins" depends on
			// the sort being stable, and library sorts only become unstable past their small-slice cut-off
			// (12 elements in Go's pdqsort); seeded change C34-2
			n = 13 + r.Intn(70)
			sub := make([]string, 2+r.Intn(6))
			for k := range sub {
				sub[k] = r.Pick(nameAlpha)
			}
			for j := 0; j < n; j++ {
				if r.Intn(12) == 0 {
					pairs = append(pairs, r.Pick(nameAlpha)+"="+r.Pick(valAlpha))
				} else {
					pairs = append(pairs, r.Pick(sub)+"="+fmt.Sprint(j))
				}
			}
			n = 0
		}
		for j := 0; j < n; j++ {
			switch k := r.Intn(20); {
			case k == 0:
				pairs = append(pairs, r.Pick(nameAlpha)) // no '='
			case k == 1:
				pairs = append(pairs, "="+r.Pick(valAlpha)) // empty name
			case k == 2:
				pairs = append(pairs, "")
			default:
				pairs = append(pairs, r.Pick(nameAlpha)+"="+r.Pick(valAlpha))
			}
		}
		names := []string{}
		seen := map[string]bool{}
		add := func(s string) {
			if !seen[s] {
				seen[s] = true
				names = append(names, s)
			}
		}
		for _, p := range pairs {
			nm, _, _ := strings.Cut(p, "=")
			add(nm)
		}
		add(r.Pick(nameAlpha))
		add(r.Pick(nameAlpha) + r.Pick(nameAlpha))
		add("")
		if c34QueryNamesWithEq {
			add(r.Pick(nameAlpha) + "=" + r.Pick(valAlpha))
			if len(pairs) > 0 {
				add(pairs[r.Intn(len(pairs))])
			}
		}
		c34Case(c, pairs, names)
		if i%4 == 0 {
			// case-insensitive mode: ASCII names that differ in case only, prefixes of each other, short pairs
			// next to long looked-up names (seeded change C34-3 broke Get's too-short branch there)
			ciAlpha := []string{"a", "A", "ab", "Ab", "AB", "aB", "abc", "ABC", "Path", "PATH", "path", "PATHEXT", "PathExtensions", "PATHEXTENSIONS",
				"z", "Z", "_x", "_X", "a1", "A1", "a_", "A+", "b", "B", "Ba", "bA", "X9z", "x9Z"}
			n := r.Intn(10)
			if r.Intn(5) == 0 {
				n = 13 + r.Intn(30)
			}
			var cp []string
			for j := 0; j < n; j++ {
				switch k := r.Intn(16); {
				case k == 0:
					cp = append(cp, r.Pick(ciAlpha))
				case k == 1:
					cp = append(cp, "="+r.Pick(valAlpha))
				default:
					cp = append(cp, r.Pick(ciAlpha)+"="+r.Pick([]string{"", "v", "V", "x=y", "/bin", ".EXE", "b", "B", fmt.Sprint(j)}))
				}
			}
			var cn []string
			for _, p := range cp {
				nm, _, _ := strings.Cut(p, "=")
				cn = append(cn, nm, strings.ToUpper(nm), strings.ToLower(nm))
			}
			cn = append(cn, r.Pick(ciAlpha), r.Pick(ciAlpha)+r.Pick(ciAlpha), "", r.Pick(ciAlpha)+"=v")
			seenN := map[string]bool{}
			var cn2 []string
			for _, x := range cn {
				if !seenN[x] {
					seenN[x] = true
					cn2 = append(cn2, x)
				}
			}
			c34CaseCI(c, cp, cn2)
		}
	}
}

// c34QueryNamesWithEq: query names containing '='.  The unchanged tree panics / returns a bogus
// value there (finding C34-get-name-with-eq); set to true once the fix: commit is in.
var c34QueryNamesWithEq = true
