//go:build c34 || all

package main

import (
	"fmt"
	"sort"
	"strings"

	"mvdan.cc/sh/v3/expand"
)

// C34 — ListEnviron / FuncEnviron.
// Streams: `get` (model of listEnviron_ + Get), `spec` (left-to-right map spec: the property
// itself), `each`.  Search leg: Go map oracle computed here, independent of Lean.
func init() { register("C34", c34) }

func c34Get(pairs []string, name string) string {
	var out string
	p := safely(func() {
		env := expand.ListEnviron(pairs...)
		v := env.Get(name)
		if !v.IsSet() {
			out = "unset"
		} else {
			if !v.Exported || v.Kind != expand.String {
				out = "bad-attrs"
				return
			}
			out = "val " + hx(v.Str)
		}
	})
	if p != "" {
		return "panic"
	}
	return out
}

func c34Each(pairs []string) (string, []string) {
	var parts []string
	var names []string
	p := safely(func() {
		env := expand.ListEnviron(pairs...)
		env.Each(func(name string, vr expand.Variable) bool {
			parts = append(parts, hx(name)+":"+hx(vr.Str))
			names = append(names, name)
			return true
		})
	})
	if p != "" {
		return "panic", nil
	}
	return strings.Join(append([]string{"each"}, parts...), " "), names
}

func c34Case(c *Ctx, pairs []string, names []string) {
	// Go map oracle (the property's own words).
	m := map[string]string{}
	for _, p := range pairs {
		n, v, ok := strings.Cut(p, "=")
		if !ok || n == "" {
			continue
		}
		m[n] = v
	}
	dup := len(m) > 0 && func() bool {
		seen := map[string]bool{}
		for _, p := range pairs {
			n, _, ok := strings.Cut(p, "=")
			if ok && n != "" {
				if seen[n] {
					return true
				}
				seen[n] = true
			}
		}
		return false
	}()
	tags := []string{fmt.Sprintf("pairs=%d", len(pairs))}
	if dup {
		tags = append(tags, "has-duplicate")
	}
	c.Case(strings.Join(pairs, "\x00"), len(m) >= 2 || dup, tags...)
	for _, name := range names {
		got := c34Get(pairs, name)
		c.Op("get "+hx(name)+" "+hxs(pairs), got)
		c.Op("spec "+hx(name)+" "+hxs(pairs), got)
		want := "unset"
		if v, ok := m[name]; ok {
			want = "val " + hx(v)
		}
		if got != want {
			c.Fail("get "+hx(name)+" "+hxs(pairs), fmt.Sprintf("ListEnviron(%q).Get(%q) = %s, map oracle says %s", pairs, name, got, want))
		}
	}
	got, eachNames := c34Each(pairs)
	c.Op("each "+hxs(pairs), got)
	// Each yields every surviving name exactly once.
	wantNames := []string{}
	for n := range m {
		wantNames = append(wantNames, n)
	}
	sort.Strings(wantNames)
	gotSorted := append([]string{}, eachNames...)
	sort.Strings(gotSorted)
	if got == "panic" || strings.Join(gotSorted, "\x00") != strings.Join(wantNames, "\x00") {
		c.Fail("each "+hxs(pairs), fmt.Sprintf("Each names %q, oracle %q", eachNames, wantNames))
	}
	// FuncEnviron: empty means unset.
	fe := expand.FuncEnviron(func(n string) string { return m[n] })
	for _, name := range names {
		v := fe.Get(name)
		if v.IsSet() != (m[name] != "") || v.Str != m[name] {
			c.Fail("funcenv "+hx(name), "FuncEnviron set/empty mismatch")
		}
	}
}

func c34(c *Ctx) {
	c.Rule = "random pair lists over names {A,AB,A1,a,B,_x,'',A+,é} × values with '=' and empty, plus pairs without '='; " +
		"queried names: every given name, prefixes/extensions, absent names; non-trivial = ≥2 surviving names or a duplicate name; distinct by exact pair list"
	// names on both sides of '=' (0x3d) in byte order, at every position: the sort key is `name=`
	nameAlpha := []string{"A", "B", "AB", "A1", "a", "_x", "A+", "é", "ABC", "Z", "A B",
		"1", "1A", "-x", ".", "+", "<", ">", " ", "<A", "A<", "A>", "0", "9z", "~", "\x00", "\xff", "A\x00", "#", ";"}
	valAlpha := []string{"", "1", "x=y", "=", "v", "é", " ", "A", "B=c"}
	// names containing '=' are excluded from *queried* names: known finding C34-get-name-with-eq
	// (fixed entries do not need the exclusion; see known-findings.jsonl).
	for _, l := range c.CorpusLines() {
		f := strings.Fields(l)
		if len(f) < 2 {
			continue
		}
		var pairs []string
		for _, h := range f[2:] {
			pairs = append(pairs, unhx(h))
		}
		c34Case(c, pairs, []string{unhx(f[1])})
	}
	for i := 0; i < c.N; i++ {
		r := c.R
		n := r.Intn(9)
		if c.Thorough() {
			n = r.Intn(14)
		}
		var pairs []string
		if r.Intn(6) == 0 {
			// long lists with many duplicated names and pairwise distinct values: "last value wins" depends on
			// the sort being stable, and library sorts only become unstable past their small-slice cut-off
			// (12 elements in Go's pdqsort); seeded change C34-2
			n = 13 + r.Intn(70)
			sub := make([]string, 2+r.Intn(6))
			for k := range sub {
				sub[k] = r.Pick(nameAlpha)
			}
			for j := 0; j < n; j++ {
				if r.Intn(12) == 0 {
					pairs = append(pairs, r.Pick(nameAlpha)+"="+r.Pick(valAlpha))
				} else {
					pairs = append(pairs, r.Pick(sub)+"="+fmt.Sprint(j))
				}
			}
			n = 0
		}
		for j := 0; j < n; j++ {
			switch k := r.Intn(20); {
			case k == 0:
				pairs = append(pairs, r.Pick(nameAlpha)) // no '='
			case k == 1:
				pairs = append(pairs, "="+r.Pick(valAlpha)) // empty name
			case k == 2:
				pairs = append(pairs, "")
			default:
				pairs = append(pairs, r.Pick(nameAlpha)+"="+r.Pick(valAlpha))
			}
		}
		names := []string{}
		seen := map[string]bool{}
		add := func(s string) {
			if !seen[s] {
				seen[s] = true
				names = append(names, s)
			}
		}
		for _, p := range pairs {
			nm, _, _ := strings.Cut(p, "=")
			add(nm)
		}
		add(r.Pick(nameAlpha))
		add(r.Pick(nameAlpha) + r.Pick(nameAlpha))
		add("")
		if c34QueryNamesWithEq {
			add(r.Pick(nameAlpha) + "=" + r.Pick(valAlpha))
			if len(pairs) > 0 {
				add(pairs[r.Intn(len(pairs))])
			}
		}
		c34Case(c, pairs, names)
	}
}

// c34QueryNamesWithEq: query names containing '='.  The unchanged tree panics / returns a bogus
// value there (finding C34-get-name-with-eq); set to true once the fix: commit is in.
var c34QueryNamesWithEq = true
