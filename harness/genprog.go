package main

import (
	"fmt"
	"strings"
)

// ProgGen is a small grammar-based generator of shell programs.  Feature flags select the
// constructs; all choices come from the run's PRNG.
type ProgGen struct {
	R        *Rand
	Bash     bool // bash-only constructs ([[ ]], (( )), arrays, procsubst, $'', extglob …)
	Comments bool
	Heredocs bool
	Depth    int
	hdocN    int
	pending  []string // heredoc bodies to flush at the next newline
	// Extra, when set, is consulted first by stmt (below the depth limit); it may return a
	// replacement production (used by C05 to put comments into every attachment field).
	// No PRNG draw happens for it when nil.
	Extra func(g *ProgGen, ind int) (string, bool)
}

var genWords = []string{"a", "b", "foo", "bar", "x", "1", "22", "-n", "a.b", "/tmp/x", "~", "=", "a=b"}
var genVars = []string{"a", "b", "x", "y", "foo", "HOME", "1", "@", "*", "#", "?"}

func (g *ProgGen) word() string {
	r := g.R
	var sb strings.Builder
	n := 1 + r.Intn(2)
	if r.Chance(15) {
		n = 3
	}
	for i := 0; i < n; i++ {
		switch k := r.Intn(22); {
		case k < 8:
			sb.WriteString(r.Pick(genWords))
		case k < 10:
			sb.WriteString("'" + r.Pick([]string{"", "a b", "x;y", "$a", "\"", "#c"}) + "'")
		case k < 13:
			sb.WriteString("\"" + g.dqBody() + "\"")
		case k < 15:
			sb.WriteString("$" + r.Pick(genVars))
		case k < 17:
			sb.WriteString(g.paramExp())
		case k == 17 && g.Depth > 0:
			g.Depth--
			if r.Bool() {
				sb.WriteString("$(" + g.inline() + ")")
			} else {
				sb.WriteString("`" + g.simple() + "`")
			}
			g.Depth++
		case k == 18:
			sb.WriteString("$((" + g.arith(2) + "))")
		case k == 19:
			sb.WriteString(r.Pick([]string{"\\ ", "\\$", "\\\\", "\\\"", "\\n", "*", "?", "[ab]", "{a,b}", "{1..3}"}))
		case k == 20 && g.Bash:
			sb.WriteString(r.Pick([]string{"$'a\\nb'", "$\"x\"", "@(a|b)", "+(x)", "<(echo x)", "${a[1]}", "${a[@]}", "${#a[@]}", "${!a}", "${a/x/y}", "${a:1:2}", "${a^^}", "${a,,}", "${a@Q}"}))
		default:
			sb.WriteString(r.Pick(genWords))
		}
	}
	return sb.String()
}

func (g *ProgGen) dqBody() string {
	r := g.R
	var sb strings.Builder
	for i, n := 0, r.Intn(3); i <= n; i++ {
		switch r.Intn(6) {
		case 0:
			sb.WriteString("$" + r.Pick(genVars))
		case 1:
			sb.WriteString(g.paramExp())
		case 2:
			sb.WriteString(r.Pick([]string{"a b", " ", "x'y", "\\\"", "\\$", "\\\\", "#", "${a}bin", "${a}\\\nbin", "${a}_x", "${a}\\\n_", "$a\\\nb"}))
		case 3:
			if g.Depth > 0 {
				g.Depth--
				sb.WriteString("$(" + g.simple() + ")")
				g.Depth++
			}
		default:
			sb.WriteString(r.Pick(genWords))
		}
	}
	return sb.String()
}

func (g *ProgGen) paramExp() string {
	r := g.R
	v := r.Pick([]string{"a", "b", "x", "foo", "1", "@", "*"})
	switch r.Intn(8) {
	case 0:
		return "${" + v + "}"
	case 1:
		return "${#" + v + "}"
	case 2:
		return "${" + v + r.Pick([]string{":-", "-", ":=", "=", ":?", "?", ":+", "+"}) + r.Pick([]string{"", "w", "$b", "a b", "'q'"}) + "}"
	case 3:
		return "${" + v + r.Pick([]string{"#", "##", "%", "%%"}) + r.Pick([]string{"*", "a*", "?", "[ab]", ""}) + "}"
	default:
		return "${" + v + "}"
	}
}

func (g *ProgGen) arith(d int) string {
	r := g.R
	if d <= 0 || r.Chance(40) {
		return r.Pick([]string{"1", "2", "0", "x", "a", "$a", "10", "0x1f", "07"})
	}
	switch r.Intn(8) {
	case 0:
		return "(" + g.arith(d-1) + ")"
	case 1:
		return r.Pick([]string{"-", "!", "~", "+"}) + g.arith(d-1)
	case 2:
		return g.arith(d-1) + " ? " + g.arith(d-1) + " : " + g.arith(d-1)
	case 3:
		return r.Pick([]string{"x", "a"}) + r.Pick([]string{" = ", " += ", " -= ", " *= "}) + g.arith(d-1)
	case 4:
		return r.Pick([]string{"x++", "x--", "++x", "--a"})
	default:
		return g.arith(d-1) + " " + r.Pick([]string{"+", "-", "*", "/", "%", "<", ">", "<=", "==", "!=", "&&", "||", "&", "|", "^", "<<", ">>", ","}) + " " + g.arith(d-1)
	}
}

func (g *ProgGen) redir() string {
	r := g.R
	switch k := r.Intn(10); {
	case k < 4:
		return r.Pick([]string{">", ">>", "<", "2>", ">|", "<>"}) + r.Pick([]string{"", " "}) + g.word()
	case k < 6:
		return r.Pick([]string{"2>&1", ">&2", "<&-", "1>&2"})
	case k == 6 && g.Bash:
		return r.Pick([]string{"&>", "&>>", "<<<"}) + " " + g.word()
	case k == 7 && g.Heredocs:
		g.hdocN++
		delim := fmt.Sprintf("EOF%d", g.hdocN)
		op := r.Pick([]string{"<<", "<<-"})
		q := r.Pick([]string{"", "'", "\""})
		body := ""
		for i, n := 0, r.Intn(3); i < n; i++ {
			if op == "<<-" && r.Bool() {
				body += "\t"
			}
			body += r.Pick([]string{"line", "$a text", "a 'b' \"c\"", "", "  indented", "$(echo x)", "\\$x"}) + "\n"
		}
		g.pending = append(g.pending, body+delim+"\n")
		return op + q + delim + q
	default:
		return ">" + g.word()
	}
}

func (g *ProgGen) simple() string {
	r := g.R
	var parts []string
	if r.Chance(15) {
		parts = append(parts, r.Pick([]string{"x", "a", "foo"})+"="+r.Pick([]string{"", g.word()}))
	}
	n := r.Intn(4)
	if len(parts) == 0 && n == 0 {
		n = 1
	}
	cmds := []string{"echo", "printf", "true", "false", ":", "foo", "cd", "set", "export", "read", "test", "["}
	for i := 0; i < n; i++ {
		if i == 0 {
			parts = append(parts, r.Pick(cmds))
		} else {
			parts = append(parts, g.word())
		}
	}
	if len(parts) > 0 && parts[len(parts)-1] == "[" {
		parts = append(parts, "a", "=", "b", "]")
	} else if n > 0 && parts[len(parts)-n] == "[" {
		parts = append(parts, "]")
	}
	if r.Chance(20) {
		parts = append(parts, g.redir())
	}
	return strings.Join(parts, " ")
}

// inline is a statement list on one line (no heredocs, no comments).
func (g *ProgGen) inline() string {
	h, c := g.Heredocs, g.Comments
	g.Heredocs, g.Comments = false, false
	defer func() { g.Heredocs, g.Comments = h, c }()
	n := 1 + g.R.Intn(2)
	var ss []string
	for i := 0; i < n; i++ {
		ss = append(ss, g.stmtInline())
	}
	return strings.Join(ss, "; ")
}

func (g *ProgGen) stmtInline() string {
	s := g.stmt(0)
	return strings.TrimRight(strings.ReplaceAll(s, "\n", "; "), "; ")
}

func (g *ProgGen) nl() string {
	s := "\n"
	if len(g.pending) > 0 {
		s += strings.Join(g.pending, "")
		g.pending = nil
	}
	return s
}

func (g *ProgGen) comment() string {
	if g.Comments && g.R.Chance(25) {
		return " # " + g.R.Pick([]string{"c", "note", "a b ", "#!", "x;y"})
	}
	return ""
}

func (g *ProgGen) block(ind int) string {
	var sb strings.Builder
	n := 1 + g.R.Intn(2)
	for i := 0; i < n; i++ {
		if g.Comments && g.R.Chance(15) {
			sb.WriteString(strings.Repeat("\t", ind) + "# " + g.R.Pick([]string{"lead", "before stmt"}) + "\n")
		}
		sb.WriteString(strings.Repeat("\t", ind) + g.stmt(ind) + g.comment() + g.nl())
	}
	return sb.String()
}

// stmt returns one statement; compound bodies span lines, indented by ind tabs.
func (g *ProgGen) stmt(ind int) string {
	r := g.R
	if g.Depth <= 0 {
		return g.simple()
	}
	g.Depth--
	defer func() { g.Depth++ }()
	if g.Extra != nil {
		if s, ok := g.Extra(g, ind); ok {
			return s
		}
	}
	tabs := strings.Repeat("\t", ind)
	switch k := r.Intn(30); {
	case k < 10:
		return g.simple()
	case k < 12:
		return g.simple() + " " + r.Pick([]string{"&&", "||", "|"}) + " " + g.simple()
	case k == 12:
		return "! " + g.simple()
	case k == 13:
		return g.simple() + " &"
	case k == 14:
		return "(" + g.inline() + ")"
	case k == 15:
		return "{ " + g.inline() + "; }"
	case k == 16:
		s := "if " + g.simple() + "; then" + g.nl() + g.block(ind+1)
		if r.Chance(30) {
			s += tabs + "elif " + g.simple() + "; then" + g.nl() + g.block(ind+1)
		}
		if r.Chance(40) {
			s += tabs + "else" + g.nl() + g.block(ind+1)
		}
		return s + tabs + "fi"
	case k == 17:
		return r.Pick([]string{"while", "until"}) + " " + g.simple() + "; do" + g.nl() + g.block(ind+1) + tabs + "done"
	case k == 18:
		items := ""
		for i, n := 0, r.Intn(3); i < n; i++ {
			items += " " + g.word()
		}
		in := " in" + items
		if items == "" && r.Bool() {
			in = ""
		}
		return "for " + r.Pick([]string{"i", "x"}) + in + "; do" + g.nl() + g.block(ind+1) + tabs + "done"
	case k == 19:
		s := "case " + g.word() + " in" + g.nl()
		for i, n := 0, r.Intn(3); i < n; i++ {
			pat := r.Pick([]string{"a", "*", "a|b", "[xy]", "?", "\"q\""})
			if r.Chance(30) {
				pat = "(" + pat
			}
			term := ";;"
			if g.Bash && r.Chance(20) {
				term = r.Pick([]string{";&", ";;&"})
			}
			s += tabs + pat + ")" + g.comment() + g.nl() + g.block(ind+1) + tabs + "\t" + term + g.nl()
		}
		return s + tabs + "esac"
	case k == 20:
		name := r.Pick([]string{"f", "g", "fn_1"})
		if g.Bash && r.Chance(30) {
			return "function " + name + " { " + g.inline() + "; }"
		}
		return name + "() { " + g.inline() + "; }"
	case k == 21 && g.Bash:
		return "[[ " + r.Pick([]string{"-n $a", "$a == b*", "a = b", "! -z $x", "$a =~ ^x+$", "( -f x ) && -d y", "a -lt 2", "\"$a\" != \"b c\""}) + " ]]"
	case k == 22 && g.Bash:
		return "((" + g.arith(2) + "))"
	case k == 23 && g.Bash:
		return r.Pick([]string{"a=(1 2 3)", "a=([2]=x y)", "a+=(z)", "a[1]=x", "declare -a b=(x y)", "local x=1", "declare -A m=([k]=v)", "let x+=1", "readonly r=1", "export E=v"})
	case k == 24 && g.Bash:
		return "for ((i = 0; i < 3; i++)); do" + g.nl() + g.block(ind+1) + tabs + "done"
	case k == 25 && g.Bash:
		return r.Pick([]string{"time ", "coproc ", "time -p "}) + g.simple()
	case k == 26 && g.Bash:
		return "select x in a b; do" + g.nl() + g.block(ind+1) + tabs + "done"
	case k == 27:
		return g.simple() + " | " + g.simple() + " | " + g.simple()
	default:
		return g.simple()
	}
}

// Program returns a whole program of n top-level statements.
func (g *ProgGen) Program(n int) string {
	var sb strings.Builder
	if g.Comments && g.R.Chance(30) {
		sb.WriteString("#!/bin/sh\n")
	}
	for i := 0; i < n; i++ {
		if g.Comments && g.R.Chance(20) {
			sb.WriteString("# " + g.R.Pick([]string{"top", "section", "x"}) + "\n")
		}
		if g.R.Chance(10) {
			sb.WriteString("\n")
		}
		sb.WriteString(g.stmt(0) + g.comment() + g.nl())
	}
	return sb.String()
}

func newProgGen(r *Rand, bash bool) *ProgGen {
	return &ProgGen{R: r, Bash: bash, Comments: true, Heredocs: true, Depth: 3}
}
