//go:build c10 || all

package main

import (
	"errors"
	"fmt"
	"strings"

	"mvdan.cc/sh/v3/syntax"
)

// C10 — Parse errors are well-formed and incompleteness is reported.
// Search leg: (1) every line-boundary prefix of every valid program parses or fails with an
// IsIncomplete error; (2) every error position lies inside the input.
func init() { register("C10", c10) }

func c10ErrPos(err error) (syntax.Pos, bool) {
	var pe syntax.ParseError
	if errors.As(err, &pe) {
		return pe.Pos, true
	}
	var le syntax.LangError
	if errors.As(err, &le) {
		return le.Pos, true
	}
	return syntax.Pos{}, false
}

// c10Class names the construct that is open at the cut, for class witnesses of known findings.
func c10Class(prefix string) string {
	// quoted here-document still open: a `<<'X'`, `<<"X"` or `<<\X` operator whose body has not ended
	lines := strings.Split(prefix, "\n")
	for i, l := range lines {
		for _, op := range []string{"<<-", "<<"} {
			idx := strings.Index(l, op)
			if idx < 0 || strings.HasPrefix(l[idx:], "<<<") {
				continue
			}
			rest := strings.TrimLeft(l[idx+len(op):], " \t")
			if rest == "" || !strings.ContainsAny(rest[:1], "'\"\\") {
				continue
			}
			delim := strings.Trim(strings.FieldsFunc(rest, func(r rune) bool { return r == ' ' || r == ';' || r == '|' || r == ')' || r == '&' || r == '>' || r == '<' })[0], "'\"\\")
			closed := false
			for _, b := range lines[i+1:] {
				if strings.TrimLeft(b, "\t") == delim {
					closed = true
				}
			}
			if !closed {
				return "quoted-heredoc-open"
			}
		}
	}
	return ""
}

func c10(c *Ctx) {
	c.Rule = "valid programs (the repository's own test inputs that parse, grammar-generated programs with heredocs/quotes/compound commands) × every variant they parse in × every line-boundary cut; plus invalid inputs (mutations) for the error-position clause; " +
		"non-trivial = program with ≥ 2 lines; distinct by (variant, source)"
	seeds := repoSeeds()
	var srcs []string
	for _, l := range c.CorpusLines() {
		f := strings.Fields(l)
		srcs = append(srcs, unhx(f[len(f)-1]))
	}
	for i := 0; i < c.N/2; i++ {
		srcs = append(srcs, seeds[c.R.Intn(len(seeds))])
	}
	for i := 0; i < c.N/2; i++ {
		g := newProgGen(c.R, c.R.Chance(70))
		srcs = append(srcs, g.Program(1+c.R.Intn(4)))
	}
	cuts := 0
	for _, src := range srcs {
		for _, lang := range allLangs {
			f, err, pn := parseIn(src, lang, syntax.KeepComments(true))
			if pn != "" {
				continue // C06's business
			}
			if err != nil || f == nil {
				// clause 1: error position inside the input
				if pos, ok := c10ErrPos(err); ok {
					c.Hist["error-positions-checked"]++
					if pos.IsValid() && int(pos.Offset()) > len(src) {
						c.Fail("errpos "+langName(lang)+" "+hx(src), fmt.Sprintf("error position offset %d is outside the %d-byte input: %v", pos.Offset(), len(src), err))
					}
					if !pos.IsValid() {
						c.Hist["error-with-invalid-position"]++
					}
				}
				continue
			}
			nl := strings.Count(src, "\n")
			c.Case(langName(lang)+"\x00"+src, nl >= 2, "lang="+langName(lang))
			// clause 2: every cut after a newline
			for i := 0; i < len(src); i++ {
				if src[i] != '\n' {
					continue
				}
				prefix := src[:i+1]
				cuts++
				_, perr, pn := parseIn(prefix, lang, syntax.KeepComments(true))
				if pn != "" {
					continue
				}
				if perr == nil || syntax.IsIncomplete(perr) {
					if perr != nil {
						c.Hist["prefix-incomplete"]++
					} else {
						c.Hist["prefix-ok"]++
					}
					continue
				}
				w := fmt.Sprintf("prefix %s %d %s", langName(lang), i+1, hx(src))
				if cl := c10Class(prefix); cl != "" {
					w = "prefix-class " + cl
				}
				c.Fail(w, fmt.Sprintf("prefix of a valid program cut after line ending at byte %d fails with a non-incomplete error: %v", i+1, perr))
			}
		}
	}
	// invalid inputs for clause 1
	for i := 0; i < c.N; i++ {
		src := c06MutateLite(c.R, seeds[c.R.Intn(len(seeds))])
		lang := allLangs[c.R.Intn(len(allLangs))]
		_, err, pn := parseIn(src, lang)
		if pn != "" || err == nil {
			continue
		}
		if pos, ok := c10ErrPos(err); ok {
			c.Hist["error-positions-checked"]++
			if pos.IsValid() && int(pos.Offset()) > len(src) {
				c.Fail("errpos "+langName(lang)+" "+hx(src), fmt.Sprintf("error position offset %d is outside the %d-byte input: %v", pos.Offset(), len(src), err))
			}
		}
	}
	c.Extra["cuts"] = cuts
	// ---- tie for the here-document incompleteness model (Model/C10.lean) ----
	words := []string{"foo", "a b", "EOF", "E", " x", "x ", "", "EOFX", "eof", "12", "\tq"}
	for i := 0; i < c.N/2; i++ {
		r := c.R
		quoted, tabs := r.Bool(), r.Bool()
		stop := r.Pick([]string{"EOF", "E", "X1"})
		nl := r.Intn(4)
		var lines []string
		for j := 0; j < nl; j++ {
			l := r.Pick(words)
			l = strings.ReplaceAll(l, "\\t", "\t")
			if tabs && r.Bool() {
				l = "\t" + l
			}
			lines = append(lines, l)
		}
		if r.Chance(50) {
			pre := ""
			if tabs && r.Bool() {
				pre = "\t\t"
			}
			lines = append(lines, pre+stop)
			if r.Bool() {
				lines = append(lines, "after")
			}
		}
		op, q := "<<", ""
		if tabs {
			op = "<<-"
		}
		if quoted {
			q = r.Pick([]string{"'", "\""})
		}
		src := "cat " + op + q + stop + q + "\n"
		for _, l := range lines {
			src += l + "\n"
		}
		f, err, pn := parseIn(src, syntax.LangBash)
		got := ""
		switch {
		case pn != "":
			got = "panic"
		case err == nil:
			n := -1
			syntax.Walk(f, func(nd syntax.Node) bool {
				if rd, ok := nd.(*syntax.Redirect); ok && n < 0 {
					n = 0
					if rd.Hdoc != nil {
						n = strings.Count(rd.Hdoc.Lit(), "\n")
					}
				}
				return true
			})
			got = fmt.Sprintf("closed %d", n)
		case strings.Contains(err.Error(), "unclosed here-document"):
			got = fmt.Sprintf("unclosed %v", syntax.IsIncomplete(err))
		default:
			got = "other-error " + err.Error()
		}
		bq, bt := "0", "0"
		if quoted {
			bq = "1"
		}
		if tabs {
			bt = "1"
		}
		c.Op(strings.TrimSpace("hdoc "+bq+" "+bt+" "+hx(stop)+" "+hxs(lines)), got)
	}
}

func c06MutateLite(r *Rand, s string) string {
	b := []byte(s)
	for k, n := 0, 1+r.Intn(2); k < n && len(b) > 0; k++ {
		i := r.Intn(len(b))
		switch r.Intn(4) {
		case 0:
			b = append(b[:i], b[i+1:]...)
		case 1:
			meta := "'\"`$(){}[]<>|&;\\\n#"
			b[i] = meta[r.Intn(len(meta))]
		case 2:
			b = b[:i]
		case 3:
			toks := []string{"$(", "${", "((", "[[", "`", "\"", "'", "fi", "done", "}", ")", "esac", ";;", "&&"}
			b = append(b[:i], append([]byte(toks[r.Intn(len(toks))]), b[i:]...)...)
		}
	}
	return string(b)
}
