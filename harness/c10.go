//go:build c10 || all

package main

import (
	"errors"
	"fmt"
	"regexp"
	"strings"

	"mvdan.cc/sh/v3/syntax"
)

// C10 — Parse errors are well-formed and incompleteness is reported.
// Search leg: (1) every line-boundary prefix of every valid program parses or fails with an
// IsIncomplete error; (2) every error position lies inside the input, line/column agreeing with
// the offset.  Tie: the here-document incompleteness model (Model/C10.lean): `hdoc` (one body),
// `sched` (which newline reads the bodies).
func init() { register("C10", c10) }

func c10ErrPos(err error) (syntax.Pos, string, bool) {
	var pe syntax.ParseError
	if errors.As(err, &pe) {
		return pe.Pos, "ParseError", true
	}
	var le syntax.LangError
	if errors.As(err, &le) {
		return le.Pos, "LangError", true
	}
	return syntax.Pos{}, "", false
}

// ---------------------------------------------------------------------------------------------
// multi-line programs: every construct that can be open at a line boundary

var c10Templates = []string{
	// here-documents in every position
	"cat <<E\nbody\nE\n", "cat <<E <<F\nbody\nE\nb2\nF\n", "cat <<E | foo\nbody\nE\n", "cat <<E &&\nbody\nE\nfoo\n",
	"cat <<E && foo\nbody\nE\n", "cat <<'E' && foo\nbody $x\nE\n", "cat <<-E\n\tbody\n\tE\n", "cat <<-'E'\n\tbody\n\t\tmore\n\tE\n",
	"cat <<\"E\"\n$(foo\nE\n", "cat <<\\E\nbody\nE\n", "echo $(cat <<E\nbody\nE\n)\n", "echo \"$(cat <<E\nbody\nE\n)\"\n",
	"echo `cat <<E\nbody\nE\n`\n", "f() {\ncat <<E\nbody\nE\n}\n", "if true; then\ncat <<E\nbody\nE\nfi\n", "{ cat <<E; }\nbody\nE\n",
	"( cat <<E )\nbody\nE\n", "(cat <<E\nbody\nE\n)\n", "cat <<E; echo \"a\nb\"\nbody\nE\n", "cat <<E; echo 'a\nb'\nbody\nE\n",
	"cat <<E; x=$(echo\n)\nbody\nE\n", "cat <<E # comment\nbody\nE\n", "cat <<E \\\n-n\nbody\nE\n", "cat <<E\nbo\\\ndy\nE\n",
	"cat <<E\n$(foo\n)\nE\n", "cat <<E\n${x:-a\nb}\nE\n", "cat <<E\n`foo\n`\nE\n", "cat <<E\n$((1+\n2))\nE\n", "cat <<E\n\nE\n", "cat <<E\nE\n",
	"cat <<E; (( x ))\nbody\nE\n", "cat <<E; echo $(( 1 ))\nbody\nE\n", "cat <<E; a=(1 2)\nbody\nE\n", "cat <<E; echo ${x:-1}\nbody\nE\n",
	"cat <<E; case x in x) ;; esac\nbody\nE\n", "cat <<E; for ((;;)); do :; done\nbody\nE\n", "while read l; do echo $l; done <<E\nbody\nE\n",
	"cat <<E; [[ a = b ]]\nbody\nE\n", "cat <<E; let x=1\nbody\nE\n", "cat <<'E'; [[ a = b ]]\nbody\nE\n", "cat <<E && [[ -n x ]]\nbody\nE\n",
	"cat <<E; { [[ a ]]; }\nbody\nE\n", "cat <<E; [[ a ]] # c\nbody\nE\n", "cat <<E; [[ a ]] >x\nbody\nE\n", "cat <<E; let x=1;\nbody\nE\n",
	// quotes
	"echo \"a\nb\"\n", "echo 'a\nb'\n", "echo $'a\nb'\n", "echo $\"a\nb\"\n", "x=\"a\nb\" foo\n", "export x=\"a\nb\"\n", "echo \"${x:-\"a\nb\"}\"\n",
	"echo \"$(echo \"a\nb\")\"\n", "echo \"$(echo 'a\nb')\"\n", "echo \"`echo \"a\nb\"`\"\n", "eval \"foo\nbar\"\n", "foo <<<\"a\nb\"\n",
	// substitutions and expansions
	"echo $(foo\nbar)\n", "echo `foo\nbar`\n", "echo ${x:-a\nb}\n", "echo ${x/a\nb/c}\n", "echo ${x#a\nb}\n", "echo $((1 +\n2))\n", "echo $((\n1))\n",
	"x=$(\nfoo\n)\n", "x=`\nfoo\n`\n", "$(\n)\n", "\"$(\n)\"\n", "`\n`\n", "echo $(echo `a\nb`)\n", "echo \"a $(b \"c $(d\ne)\")\"\n", "echo <(foo\nbar)\n",
	"echo >(foo\n)\n", "echo ${x:-$(foo\nbar)}\n", "echo ${x:-`foo\nbar`}\n", "foo <<<$(a\nb)\n", "local x=$(\nfoo)\n", "echo $[1+\n2]\n",
	// arithmetic, tests, arrays
	"((1 +\n2))\n", "(( x = (1 +\n2) ))\n", "let x=1 \\\n y=2\n", "[[ a &&\nb ]]\n", "[[ a ||\nb ]]\n", "[[ (a &&\nb) ]]\n", "[[\na ]]\n", "[[ a\n]]\n",
	"[[ a == b\n&& c ]]\n", "[[ ! a\n]]\n", "a=(\n1 2\n)\n", "a=(1\n2)\n", "a=([1]=x\n[2]=y)\n", "declare -a a=(\n1\n)\n", "a+=(\n1)\n", "declare x=(\n1)\n",
	"a=(\n# c\n1 # d\n)\n",
	// lists and pipelines
	"foo &&\nbar\n", "foo ||\nbar\n", "foo |\nbar\n", "foo |&\nbar\n", "foo | \n\n bar\n", "foo && # c\nbar\n", "! foo |\nbar\n", "foo 2>&1 |\nbar\n",
	"time foo |\nbar\n", "foo &\nbar &\n", "foo;\nbar;\n",
	// compound commands
	"if foo\nthen\nbar\nfi\n", "if foo; then\nbar\nelif x\nthen y\nelse\nz\nfi\n", "while foo\ndo\nbar\ndone\n", "until foo\ndo\nbar\ndone\n",
	"for i\ndo\nbar\ndone\n", "for i in a b\ndo\nbar\ndone\n", "for i in a \\\nb\ndo\nbar\ndone\n", "for ((i=0;\ni<1;\ni++))\ndo\nbar\ndone\n",
	"for ((;;)) {\nbar\n}\n", "select i in a\ndo\nbar\ndone\n", "case x in\nesac\n", "case x\nin\na) foo;;\nesac\n", "case x in\na)\nfoo\n;;\nb|c)\n;;\nesac\n",
	"case x in\n(a) foo\nesac\n", "case x in a) foo ;&\nb) bar ;;&\nc) ;;\nesac\n", "case x in\n# c\na) ;; # d\nesac\n",
	"f()\n{\nfoo\n}\n", "f() (\nfoo\n)\n", "function f\n{\nfoo\n}\n", "function f()\n{\nfoo\n}\n", "f() if a; then\nb\nfi\n", "{\nfoo\n}\n", "(\nfoo\n)\n",
	"{ foo\n} >x\n", "coproc foo {\nbar\n}\n", "coproc {\nbar\n}\n", "@test \"x\" {\nfoo\n}\n", "f() {\n# only a comment\n:\n}\n",
	// line continuations, comments, blank lines
	"echo \\\nfoo\n", "echo foo\\\nbar\n", "echo \"foo\\\nbar\"\n", "echo foo \\\n\n", "foo >x \\\n2>y\n", "foo > \\\nx\n", "x=1 \\\ny=2 foo\n", "test a -a \\\nb\n",
	"foo; # c\n# d\nbar\n", "#!/bin/sh\n\n\nfoo\n", "foo # a \\\nbar\n", "\n\n\n", "# only\n# comments\n",
}

var c10Wrappers = [][2]string{
	{"", ""}, {"", ""}, {"if true; then\n", "fi\n"}, {"f() {\n", "}\n"}, {"while x; do\n", "done\n"}, {"(\n", ")\n"}, {"{\n", "}\n"},
	{"x=$(\n", ")\n"}, {"case y in\nq)\n", ";;\nesac\n"}, {"for i in 1; do\n", "done\n"}, {"if a; then :\nelse\n", "fi\n"}, {"until a; do\n", "done &\n"},
	{"echo \"$(\n", ")\"\n"}, {"{\n", "} | cat\n"}, {"function g {\n", "}\n"},
}

// c10Multi composes 1–3 templates (or generated here-document lines), optionally wrapped.
func c10Multi(r *Rand) string {
	var sb strings.Builder
	for i, n := 0, 1+r.Intn(3); i < n; i++ {
		var t string
		if r.Chance(30) {
			t = c10HdocProgram(r)
		} else {
			t = c10Templates[r.Intn(len(c10Templates))]
		}
		w := c10Wrappers[r.Intn(len(c10Wrappers))]
		if strings.HasPrefix(t, "#!") || strings.HasPrefix(t, "@test") {
			w = c10Wrappers[0]
		}
		sb.WriteString(w[0] + t + w[1])
	}
	return sb.String()
}

// c10Tails: what may follow the here-document word on its line; `items` is how the tie's model
// sees it (t token, e preNested, l postNested, N "the token after this piece is lexed before the
// postNested that follows").  From reading the parser: testClause and letClause lex the token
// after them while the pending here-documents are still buried (when it is the newline, the
// postNested that follows reads the bodies — since a243c26); arithmEnd, cmdSubst, subshell, arrays,
// process substitutions restore first.
var c10Tails = []struct{ text, items string }{
	{"", ""},
	{"; echo x", "ttt"},
	{" | foo", "tt"},
	{" -n", "t"},
	{" >out", "tt"},
	{"; [[ a = b ]]", "ttettttNl"},
	{" && [[ -n x ]]", "ttetttNl"},
	{"; let x=1", "ttetNl"},
	{"; let x=1 y=2", "ttettNl"},
	{"; (( x ))", "ttetl"},
	{"; echo $(( 1 ))", "tttetl"},
	{"; echo $(echo)", "tttettl"},
	{"; a=(1 2)", "ttetttl"},
	{"; ( foo )", "ttettl"},
	{"; echo <(foo)", "tttettl"},
	{"; echo `foo`", "tttettl"},
	{"; { [[ a ]]; }", "tttettNltt"},
	{"; [[ a ]] >x", "ttettNltt"},
	{"; [[ a ]] # c", "ttettNl"},
	{"; let x=1;", "ttetNlt"},
	{"; echo \"x\"", "ttt"},
}

type c10HdocLine struct {
	src    string // the whole program
	line   string // first line without newline
	items  string // model items of the first line including the final newline
	quoted bool
	stop   string
	body   []string
}

// c10HdocGen builds `head <<[-]delim tail… \n body… delim\n`.
func c10HdocGen(r *Rand, forTie bool) c10HdocLine {
	var h c10HdocLine
	heads := []struct{ text, items string }{{"cat ", "t"}, {"foo | cat ", "ttt"}, {"! cat ", "tt"}, {"x=1 cat ", "tt"}, {"{ cat ", "tt"}}
	hd := heads[r.Intn(len(heads)-1)]
	h.stop = r.Pick([]string{"E", "EOF", "X1"})
	q := ""
	if r.Chance(40) {
		h.quoted = true
		q = r.Pick([]string{"'", "\""})
	}
	items := hd.items + "h"
	line := hd.text + "<<" + q + h.stop + q
	for i, n := 0, r.Intn(3); i < n; i++ {
		t := c10Tails[r.Intn(len(c10Tails))]
		if t.text == " -n" && i > 0 {
			continue
		}
		if strings.HasSuffix(line, "# c") || strings.HasSuffix(line, ";") {
			break
		}
		if strings.HasPrefix(t.text, " ") && !strings.HasPrefix(t.text, " &&") && !strings.HasPrefix(t.text, " |") && i > 0 {
			continue // arguments and redirections only directly after the word
		}
		line += t.text
		items += t.items
	}
	items += "n"
	// "N l X" → "X l": the token after the piece is lexed before postNested
	for strings.Contains(items, "Nl") {
		i := strings.Index(items, "Nl")
		items = items[:i] + string(items[i+2]) + "l" + items[i+3:]
	}
	h.line, h.items = line, items
	words := []string{"body", "foo bar", "x", "echo hi", "a b c"}
	for i, n := 0, r.Intn(3); i < n; i++ {
		h.body = append(h.body, r.Pick(words))
	}
	h.src = line + "\n"
	for _, b := range h.body {
		h.src += b + "\n"
	}
	h.src += h.stop + "\n"
	return h
}

func c10HdocProgram(r *Rand) string {
	h := c10HdocGen(r, false)
	if r.Chance(30) {
		return h.src + "echo after\n"
	}
	return h.src
}

// ---------------------------------------------------------------------------------------------

// c10CutKind names what was open at an incomplete cut, from the error text.
func c10CutKind(prefix string, err error) string {
	t := err.Error()
	switch {
	case strings.Contains(t, "unclosed here-document"):
		if regexp.MustCompile(`<<-?\s*['"\\]`).MatchString(prefix) {
			return "heredoc-quoted"
		}
		return "heredoc"
	case strings.Contains(t, "without closing quote `'`"):
		return "squote"
	case strings.Contains(t, "without closing quote `\"`"):
		return "dquote"
	case strings.Contains(t, "without closing quote"):
		return "backquote"
	case strings.Contains(t, "without matching `$((`"), strings.Contains(t, "without matching `((`"), strings.Contains(t, "without matching `$[`"):
		return "arith"
	case strings.Contains(t, "without matching `$(`"), strings.Contains(t, "without matching `<(`"), strings.Contains(t, "without matching `>(`"):
		return "cmdsubst"
	case strings.Contains(t, "without matching `${`"):
		return "paramexp"
	case strings.Contains(t, "without matching `[[`"), strings.Contains(t, "`[[` must be followed"):
		return "test"
	case strings.Contains(t, "without matching `(`"):
		return "paren-or-array"
	case strings.Contains(t, "without matching `{`"):
		return "block"
	case strings.Contains(t, "`case`"), strings.Contains(t, "case "):
		return "case"
	case strings.Contains(t, "`if`"), strings.Contains(t, "`then`"), strings.Contains(t, "`elif`"), strings.Contains(t, "`else`"):
		return "if"
	case strings.Contains(t, "`for`"), strings.Contains(t, "`while`"), strings.Contains(t, "`until`"), strings.Contains(t, "`do`"), strings.Contains(t, "`select`"), strings.Contains(t, "for foo"):
		return "loop"
	case strings.Contains(t, "`&&`"), strings.Contains(t, "`||`"), strings.Contains(t, "`|`"), strings.Contains(t, "`|&`"):
		return "binary-cmd"
	case strings.Contains(t, "foo()"), strings.Contains(t, "function"):
		return "funcdecl"
	}
	return "other"
}

type c10CutFail struct {
	cut int
	err error
}

// c10Cuts checks clause 2 on one valid program; returns the failing cuts and updates the histogram.
func c10Cuts(src string, lang syntax.LangVariant, hist map[string]int) (fails []c10CutFail, cuts int) {
	for i := 0; i < len(src); i++ {
		if src[i] != '\n' {
			continue
		}
		prefix := src[:i+1]
		cuts++
		_, perr, pn := parseIn(prefix, lang, syntax.KeepComments(true))
		if pn != "" {
			continue // C06's business
		}
		switch {
		case perr == nil:
			if hist != nil {
				hist["prefix-ok"]++
				if strings.HasSuffix(prefix, "\\\n") {
					hist["cut:line-continuation"]++
				}
			}
		case syntax.IsIncomplete(perr):
			if hist != nil {
				hist["prefix-incomplete"]++
				hist["cut:"+c10CutKind(prefix, perr)]++
			}
		default:
			fails = append(fails, c10CutFail{i + 1, perr})
		}
	}
	return fails, cuts
}

// c10Minimize shrinks a valid program that has a failing cut, keeping both properties.
func c10Minimize(src string, lang syntax.LangVariant) string {
	bad := func(s string) bool {
		f, err, pn := parseIn(s, lang, syntax.KeepComments(true))
		if pn != "" || err != nil || f == nil {
			return false
		}
		fails, _ := c10Cuts(s, lang, nil)
		return len(fails) > 0
	}
	evals := 0
	for chunk := len(src) / 2; chunk >= 1; chunk /= 2 {
		for i := 0; i+chunk <= len(src) && evals < 600; {
			cand := src[:i] + src[i+chunk:]
			evals++
			if bad(cand) {
				src = cand
			} else {
				i += chunk
			}
		}
	}
	return src
}

// c10LineCol computes the 1-based line and byte column of an offset.
func c10LineCol(src string, off int) (line, col int) {
	line, col = 1, 1
	for i := 0; i < off && i < len(src); i++ {
		if src[i] == '\n' {
			line++
			col = 1
		} else {
			col++
		}
	}
	return
}

// c10PlainForCols: sources on which line/column can be judged independently of the position
// defects already recorded under C09 (K1 backslash-CR-LF, K2 positions taken on an escaped
// newline, K4 dropped NUL bytes, K8 final backslash) and of the documented column skew of
// escapes inside backquotes (TestPosEdgeCases).
func c10PlainForCols(src string) bool {
	if strings.ContainsAny(src, "\x00\r") || strings.Contains(src, "\\\n") || strings.HasSuffix(src, "\\") {
		return false
	}
	if strings.Contains(src, "`") && strings.Contains(src, "\\") {
		return false
	}
	return true
}

// c10CheckPos is clause 1 on one error.
func c10CheckPos(c *Ctx, where, src string, lang syntax.LangVariant, err error) {
	pos, kind, ok := c10ErrPos(err)
	if !ok {
		c.Hist["error-not-ParseError-or-LangError"]++
		return
	}
	c.Hist["error-positions-checked"]++
	c.Hist["error-kind:"+kind]++
	if p := safely(func() { _ = err.Error() }); p != "" {
		c.Fail(fmt.Sprintf("errpos %s %s %s", where, langName(lang), hx(src)), "Error() panics: "+p)
	}
	if !pos.IsValid() {
		c.Hist["error-with-invalid-position"]++
		c.Fail(fmt.Sprintf("errpos %s %s %s", where, langName(lang), hx(src)), fmt.Sprintf("error carries an invalid position: %v", err))
		return
	}
	off := int(pos.Offset())
	if off > len(src) {
		c.Fail(fmt.Sprintf("errpos %s %s %s", where, langName(lang), hx(src)), fmt.Sprintf("error position offset %d is outside the %d-byte input: %v", off, len(src), err))
		return
	}
	if off == len(src) {
		c.Hist["error-at-end-of-input"]++
	}
	if c10PlainForCols(src) {
		l, col := c10LineCol(src, off)
		c.Hist["error-linecol-checked"]++
		if int(pos.Line()) != l || int(pos.Col()) != col {
			c.Fail(fmt.Sprintf("errpos %s %s %s", where, langName(lang), hx(src)), fmt.Sprintf("error position %d:%d does not agree with its offset %d (= %d:%d): %v", pos.Line(), pos.Col(), off, l, col, err))
		}
	}
}

func c10(c *Ctx) {
	c.Rule = "valid programs (the repository's own test inputs that parse, grammar-generated programs, ~190 multi-line templates covering every construct that can be open at a line end, composed and wrapped, generated here-document lines) × every variant they parse in × every line-boundary cut; invalid inputs (mutations, truncations at arbitrary bytes, random bytes; all entry points) for the error-position clause; " +
		"non-trivial = program with ≥ 2 lines; distinct by (variant, source)"
	seeds := repoSeeds()
	type prog struct {
		src  string
		kind string
	}
	var srcs []prog
	var corpusInvalid []string
	for _, l := range c.CorpusLines() {
		f := strings.Fields(l)
		if f[0] == "errpos" { // an invalid input for the position clause, every variant
			corpusInvalid = append(corpusInvalid, unhx(f[len(f)-1]))
			continue
		}
		srcs = append(srcs, prog{unhx(f[len(f)-1]), "corpus"})
	}
	if c.Shard == 0 {
		for _, t := range c10Templates {
			srcs = append(srcs, prog{t, "template"})
		}
	}
	for i := 0; i < c.N/4; i++ {
		srcs = append(srcs, prog{seeds[c.R.Intn(len(seeds))], "repo-seed"})
	}
	for i := 0; i < c.N/4; i++ {
		g := newProgGen(c.R, c.R.Chance(70))
		srcs = append(srcs, prog{g.Program(1 + c.R.Intn(4)), "grammar"})
	}
	for i := 0; i < c.N/2; i++ {
		srcs = append(srcs, prog{c10Multi(c.R), "multi"})
	}
	type res struct {
		valid  []syntax.LangVariant
		fails  map[syntax.LangVariant][]c10CutFail
		hist   map[string]int
		cuts   int
		errs   map[syntax.LangVariant]error
		seqDif string
	}
	results := parallelMap(len(srcs), 4, func(i int) res {
		src := srcs[i].src
		out := res{fails: map[syntax.LangVariant][]c10CutFail{}, hist: map[string]int{}, errs: map[syntax.LangVariant]error{}}
		for _, lang := range allLangs {
			f, err, pn := parseIn(src, lang, syntax.KeepComments(true))
			if pn != "" {
				continue // C06's business
			}
			if err != nil || f == nil {
				out.errs[lang] = err
				continue
			}
			out.valid = append(out.valid, lang)
			fl, n := c10Cuts(src, lang, out.hist)
			out.cuts += n
			if len(fl) > 0 {
				out.fails[lang] = fl
			}
		}
		return out
	})
	cuts := 0
	for i, r := range results {
		src := srcs[i].src
		cuts += r.cuts
		for k, v := range r.hist {
			c.Hist[k] += v
		}
		for lang, err := range r.errs {
			c10CheckPos(c, "Parse", src, lang, err)
		}
		for _, lang := range r.valid {
			nl := strings.Count(src, "\n")
			tags := []string{"lang=" + langName(lang), "src=" + srcs[i].kind}
			if strings.Contains(src, "<<") && !strings.Contains(src, "<<<") {
				tags = append(tags, "has-heredoc")
			}
			c.Case(langName(lang)+"\x00"+src, nl >= 2, tags...)
		}
		for lang, fl := range r.fails {
			for _, f := range fl {
				w := fmt.Sprintf("prefix %s %d %s", langName(lang), f.cut, hx(src))
				what := fmt.Sprintf("prefix of a valid program cut after the line ending at byte %d fails with a non-incomplete error: %v", f.cut, f.err)
				// (no open class of failing cuts: the three classes found while this package was
				// built — buried newline, line continuation, invalid UTF-8 offset — are fixed and
				// replayed from corpus/C10-fixed.txt)
				if len(c.Failures) < 5 {
					if m := c10Minimize(src, lang); m != src {
						if mf, _ := c10Cuts(m, lang, nil); len(mf) > 0 {
							w = fmt.Sprintf("prefix %s %d %s", langName(lang), mf[0].cut, hx(m))
							what = fmt.Sprintf("prefix of a valid program cut after the line ending at byte %d fails with a non-incomplete error: %v [minimised from a %d-byte program]", mf[0].cut, mf[0].err, len(src))
						}
					}
				}
				c.Fail(w, what)
			}
		}
	}
	c.Extra["cuts"] = cuts

	// ---- clause 1 on invalid inputs, every entry point ----
	type job struct {
		src   string
		lang  syntax.LangVariant
		entry int
	}
	var jobs []job
	for _, src := range corpusInvalid {
		for _, lang := range allLangs {
			jobs = append(jobs, job{src, lang, 0})
		}
	}
	for i := 0; i < c.N; i++ {
		r := c.R
		var src string
		switch k := r.Intn(10); {
		case k < 4:
			src = c10MutateLite(r, seeds[r.Intn(len(seeds))])
		case k < 6:
			s := c10Multi(r)
			src = s[:r.Intn(len(s)+1)] // truncated at an arbitrary byte
		case k < 8:
			src = c10MutateLite(r, c10Multi(r))
		case k < 9:
			b := make([]byte, r.Intn(24))
			for j := range b {
				b[j] = c10Alphabet[r.Intn(len(c10Alphabet))]
			}
			src = string(b)
		default:
			src = c10MutateLite(r, newProgGen(r, true).Program(1+r.Intn(3)))
		}
		e := 0
		if r.Chance(40) {
			e = 1 + r.Intn(5)
		}
		jobs = append(jobs, job{src, allLangs[r.Intn(len(allLangs))], e})
	}
	type perr struct {
		err error
		pn  string
	}
	entries := []string{"Parse", "StmtsSeq", "WordsSeq", "InteractiveSeq", "Document", "Arithmetic"}
	errs := parallelMap(len(jobs), 4, func(i int) perr {
		j := jobs[i]
		var out perr
		out.pn = safely(func() {
			ps := syntax.NewParser(syntax.Variant(j.lang))
			rd := strings.NewReader(j.src)
			switch j.entry {
			case 0:
				_, out.err = ps.Parse(rd, "")
			case 1:
				for _, err := range ps.StmtsSeq(rd) {
					if err != nil {
						out.err = err
						break
					}
				}
			case 2:
				for _, err := range ps.WordsSeq(rd) {
					if err != nil {
						out.err = err
						break
					}
				}
			case 3:
				for _, err := range ps.InteractiveSeq(rd) {
					if err != nil {
						out.err = err
						break
					}
				}
			case 4:
				_, out.err = ps.Document(rd)
			case 5:
				_, out.err = ps.Arithmetic(rd)
			}
		})
		return out
	})
	for i, e := range errs {
		if e.pn != "" || e.err == nil {
			continue
		}
		c10CheckPos(c, entries[jobs[i].entry], jobs[i].src, jobs[i].lang, e.err)
	}

	// ---- tie 1: one here-document body (Model/C10.lean scan) ----
	words := []string{"foo", "a b", "EOF", "E", " x", "x ", "", "EOFX", "eof", "12", "\tq"}
	for i := 0; i < c.N/2; i++ {
		r := c.R
		quoted, tabs := r.Bool(), r.Bool()
		stop := r.Pick([]string{"EOF", "E", "X1"})
		nl := r.Intn(4)
		var lines []string
		for j := 0; j < nl; j++ {
			l := r.Pick(words)
			if tabs && r.Bool() {
				l = "\t" + l
			}
			lines = append(lines, l)
		}
		if r.Chance(50) {
			pre := ""
			if tabs && r.Bool() {
				pre = "\t\t"
			}
			lines = append(lines, pre+stop)
			if r.Bool() {
				lines = append(lines, "after")
			}
		}
		op, q := "<<", ""
		if tabs {
			op = "<<-"
		}
		if quoted {
			q = r.Pick([]string{"'", "\""})
		}
		src := "cat " + op + q + stop + q + "\n"
		for _, l := range lines {
			src += l + "\n"
		}
		f, err, pn := parseIn(src, syntax.LangBash)
		got := ""
		switch {
		case pn != "":
			got = "panic"
		case err == nil:
			n := -1
			syntax.Walk(f, func(nd syntax.Node) bool {
				if rd, ok := nd.(*syntax.Redirect); ok && n < 0 {
					n = 0
					if rd.Hdoc != nil {
						n = strings.Count(rd.Hdoc.Lit(), "\n")
					}
				}
				return true
			})
			got = fmt.Sprintf("closed %d", n)
		case strings.Contains(err.Error(), "unclosed here-document"):
			got = fmt.Sprintf("unclosed %v", syntax.IsIncomplete(err))
		default:
			got = "other-error " + err.Error()
		}
		bq, bt := "0", "0"
		if quoted {
			bq = "1"
		}
		if tabs {
			bt = "1"
		}
		// the body is read from inside the statement: one bracket open
		c.Op(strings.TrimSpace("hdoc "+bq+" "+bt+" 1 "+hx(stop)+" "+hxs(lines)), got)
	}
	// ---- tie 2: which newline reads the bodies (Model/C10.lean prefixFlag) ----
	for i := 0; i < c.N/2; i++ {
		h := c10HdocGen(c.R, true)
		// the prefix: the `<<` line and the body lines, no stop line
		src := h.line + "\n"
		for _, b := range h.body {
			src += b + "\n"
		}
		_, err, pn := parseIn(src, syntax.LangBash)
		got := ""
		switch {
		case pn != "":
			got = "panic"
		case err == nil:
			got = "none"
		case strings.Contains(err.Error(), "unclosed here-document"):
			got = fmt.Sprintf("unclosed %v", syntax.IsIncomplete(err))
		default:
			got = "other-error " + err.Error()
		}
		bq := "0"
		if h.quoted {
			bq = "1"
		}
		c.Hist["sched-items:"+strings.NewReplacer("t", "").Replace(h.items)]++
		c.Op(strings.TrimSpace("sched "+bq+" "+h.items+" "+hx(h.stop)+" "+hxs(h.body)), got)
	}
}

const c10Alphabet = "'\"`$(){}[]<>|&;\\\n#ab =!*?~\t\x00\xc3\xa9\xff"

func c10MutateLite(r *Rand, s string) string {
	b := []byte(s)
	for k, n := 0, 1+r.Intn(2); k < n && len(b) > 0; k++ {
		i := r.Intn(len(b))
		switch r.Intn(5) {
		case 0:
			b = append(b[:i], b[i+1:]...)
		case 1:
			meta := "'\"`$(){}[]<>|&;\\\n#"
			b[i] = meta[r.Intn(len(meta))]
		case 2:
			b = b[:i]
		case 3:
			toks := []string{"$(", "${", "((", "[[", "`", "\"", "'", "fi", "done", "}", ")", "esac", ";;", "&&", "$((", "a=(", "<<E\n", "${a[", "\xff", "é"}
			b = append(b[:i], append([]byte(toks[r.Intn(len(toks))]), b[i:]...)...)
		case 4:
			j := r.Intn(len(b))
			b[i], b[j] = b[j], b[i]
		}
	}
	return string(b)
}
