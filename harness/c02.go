//go:build c02 || all

package main

import (
	"fmt"
	"os"

	"mvdan.cc/sh/v3/syntax"
)

// C02 — Formatting is idempotent.
//
// Search leg: Print(Parse(Print(Parse(src)))) == Print(Parse(src)) byte for byte, for every
// option set without KeepPadding (and without the refused Minify+SingleLine), with and without
// Simplify, comments kept (as shfmt does).  When the first output does not re-parse the case
// belongs to C01 and is only counted here.
func init() { register("C02", c02) }

// c02Check returns the two outputs and whether the statement could be evaluated.
func c02Check(tc l4Case) (b1, b2 string, fl *l4Fail) {
	f, ok := tc.tree()
	if !ok {
		return "", "", nil
	}
	b1, err, pan := tc.Opts.printNode(f)
	if pan != "" || err != nil {
		return "", "", nil // C01's business
	}
	f2, err2, pan2 := tc.parse(b1)
	if err2 != nil || pan2 != "" || f2 == nil {
		return b1, "", &l4Fail{"c01-reparse", "file", "first output does not re-parse"}
	}
	if tc.Simplify {
		// shfmt -s applies Simplify on every run
		if p := safely(func() { syntax.Simplify(f2) }); p != "" {
			return b1, "", nil
		}
	}
	b2, err, pan = tc.Opts.printNode(f2)
	if pan != "" {
		return b1, "", &l4Fail{"print-panic", "file", pan}
	}
	if err != nil {
		return b1, "", &l4Fail{"print-error", "file", err.Error()}
	}
	if b1 != b2 {
		return b1, b2, &l4Fail{"not-idempotent", "file", fmt.Sprintf("first pass %q, second pass %q", clip(b1, 300), clip(b2, 300))}
	}
	return b1, b2, nil
}

func c02(c *Ctx) {
	c.Rule = "inputs that parse in the variant, options without KeepPadding and without Minify+SingleLine; non-trivial = ≥ 2 statements or a compound command; distinct by (lang, options, simplify, source)"
	st := newL4Stats()
	for _, line := range c.CorpusLines() {
		mode, tc, ok := parseWitness(line)
		if !ok || mode != "file" {
			continue
		}
		if _, _, fl := c02Check(tc); fl != nil && fl.Kind != "c01-reparse" {
			c.Fail(line, fl.String())
			if f, ok := tc.tree(); ok {
				if id := c02Excluded(tc, f, shapeOf(f)); id == "" {
					if prev, ok := c.Extra["corpus_witness_outside_exclusions"].(string); ok {
						c.Extra["corpus_witness_outside_exclusions"] = prev + " | " + line
					} else {
						c.Extra["corpus_witness_outside_exclusions"] = line
					}
				} else {
					st.excluded["corpus:"+id]++
				}
			}
		}
		c.Case("corpus:"+line, true, "corpus")
	}
	var tieCand []l4Case
	run := func(tc l4Case, kind string) {
		if (len(tieCand) < 800 || c.Thorough() && len(tieCand) < 6000) && len(tc.Src) < 200 && !tc.Simplify && tc.Opts == l4DefaultOpts {
			tieCand = append(tieCand, tc)
		}
		tc.Opts.KeepPad = false
		if tc.Opts.Minify && tc.Opts.Single {
			tc.Opts.Single = false
		}
		f, ok := tc.tree()
		if !ok {
			st.unparseable++
			return
		}
		sh := shapeOf(f)
		c.Case(tc.witness("file"), len(f.Stmts) >= 2 || len(sh.types) > 6, "lang="+tc.Lang.String(), "opts="+tc.Opts.class(), "src="+kind, "simplify="+b01(tc.Simplify))
		if id := c02Excluded(tc, f, sh); id != "" {
			st.excluded[id]++
			return
		}
		_, _, fl := c02Check(tc)
		if fl == nil {
			return
		}
		if fl.Kind == "c01-reparse" {
			st.failKinds["first-output-does-not-reparse(C01)"]++
			return
		}
		c02Report(c, tc, fl, st)
	}
	if os.Getenv("VERIF_L4_CORPUS_ONLY") != "" {
		st.export(c)
		return
	}
	seeds := repoSeeds()
	nOpt := 1
	if c.Thorough() {
		nOpt = 6
	}
	for i, s := range seeds {
		if i%c.Shards != c.Shard {
			continue
		}
		if !c.Thorough() && (i/c.Shards+int(c.Seed))%2 != 0 {
			continue // the quick tier replays every other seed string; VERIF_SEED alternates the half
		}
		for _, lang := range allLangs {
			base := l4Case{Lang: lang, Comments: true, Src: s}
			if _, ok := base.tree(); !ok {
				continue
			}
			run(base, "seed")
			for k := 0; k < nOpt; k++ {
				tc := base
				tc.Opts = randOpts(c.R, true)
				tc.Simplify = c.R.Chance(25)
				run(tc, "seed")
			}
			if c.R.Chance(50) {
				tc := base
				tc.Src = layoutMutate(c.R, s)
				tc.Opts = randOpts(c.R, true)
				run(tc, "seed+layout")
			}
		}
	}
	for i := 0; i < c.N; i++ {
		lang := allLangs[c.R.Intn(len(allLangs))]
		src, kind := l4Program(c.R, lang)
		tc := l4Case{Lang: lang, Comments: true, Src: src, Simplify: c.R.Chance(20)}
		if !c.R.Chance(15) {
			tc.Opts = randOpts(c.R, true)
		}
		run(tc, kind)
	}
	// correspondence with the Lean L4 model (fragment F0)
	l4Tie(c, c.N/4+50, tieCand, true)
	st.export(c)
}

func c02Report(c *Ctx, tc l4Case, fl *l4Fail, st *l4Stats) {
	st.failKinds[fl.Kind+"/"+tc.Opts.class()]++
	if len(c.Failures) >= 150 {
		return
	}
	fails := func(t l4Case) *l4Fail {
		f, ok := t.tree()
		if !ok {
			return nil
		}
		if c02Excluded(t, f, shapeOf(f)) != "" {
			return nil
		}
		if _, _, r := c02Check(t); r != nil && r.Kind == fl.Kind {
			return r
		}
		return nil
	}
	t2 := tc
	t2.Src = ddmin(tc.Src, func(s string) bool { t := tc; t.Src = s; return fails(t) != nil }, 600)
	for _, drop := range []func(t *l4Case){
		func(t *l4Case) { t.Opts.Indent = 0 }, func(t *l4Case) { t.Opts.BinNext = false }, func(t *l4Case) { t.Opts.SwitchCase = false },
		func(t *l4Case) { t.Opts.SpaceRedir = false }, func(t *l4Case) { t.Opts.FuncNext = false },
		func(t *l4Case) { t.Opts.Minify = false }, func(t *l4Case) { t.Opts.Single = false },
		func(t *l4Case) { t.Simplify = false },
	} {
		t3 := t2
		drop(&t3)
		if t3 != t2 && fails(t3) != nil {
			t2 = t3
		}
	}
	base := t2
	t2.Src = ddmin(base.Src, func(s string) bool { t := base; t.Src = s; return fails(t) != nil }, 300)
	r := fails(t2)
	if r == nil {
		r, t2 = fl, tc
	}
	w := t2.witness("file")
	if st.reported[w] {
		return
	}
	st.reported[w] = true
	c.Fail(w, fmt.Sprintf("[%s %s] source %q: %s", t2.Lang, t2.Opts, clip(t2.Src, 200), r.String()))
}

// Recorded printer defects for C02 (known-findings.jsonl): exclusion predicates on (options,
// tree shape); see c01Excluded for the conventions.
func c02Excluded(tc l4Case, f *syntax.File, sh *shape) string {
	o := tc.Opts
	// cases whose first output does not mean the same program are C01's findings
	if id := c01Excluded(tc, f, sh); id != "" {
		return id
	}
	// C02-select-header-comment: selectClause (unlike forClause) leaves a comment between the word
	// list and `do` to the first statement of the body; it is printed after that statement and
	// pushes `done` to the next line, so the second pass sees `do stmt # c` NEWLINE `done` and
	// moves the statement to a line of its own.
	if !o.Minify && sh.any(func(n syntax.Node) bool {
		fc, ok := n.(*syntax.ForClause)
		if !ok || !fc.Select {
			return false
		}
		before := func(cs []syntax.Comment) bool {
			for _, cm := range cs {
				if cm.Pos().Offset() < fc.DoPos.Offset() {
					return true
				}
			}
			return false
		}
		for _, st := range fc.Do {
			if before(st.Comments) {
				return true
			}
		}
		return before(fc.DoLast)
	}) {
		return "C02-select-header-comment"
	}
	// C02-single-loop-header-comment: SingleLine joins a nested for/while/until/if clause to the
	// line of its opener (`{ for i # c`), so the printer's line counter is behind the source line
	// of the header comment and the comment is flushed before `do`/`then` (which moves to the next
	// line); in the output clause and comment share a line and the second pass prints
	// `for i; do # c`.  Over-approximated: SingleLine ∧ a comment between the clause keyword and
	// its `do`/`then` ∧ (the clause is not a top-level statement of the file ∨ the comment is on a
	// later line than the keyword).
	if o.Single && hasComments(f) {
		top := map[syntax.Node]bool{}
		for _, st := range f.Stmts {
			if st.Cmd != nil {
				top[st.Cmd] = true
			}
		}
		// nested: the clause is joined to its opener's line; otherwise the comment has to sit on a
		// later line than the keyword (a newline inside the header was dropped)
		type span struct {
			from, to, line uint
			nested         bool
		}
		var spans []span
		var coms []syntax.Pos
		syntax.Walk(f, func(n syntax.Node) bool {
			switch x := n.(type) {
			case *syntax.Comment:
				coms = append(coms, x.Pos())
			case *syntax.ForClause:
				if !x.Select {
					spans = append(spans, span{x.ForPos.Offset(), x.DoPos.Offset(), x.ForPos.Line(), !top[n]})
				}
			case *syntax.WhileClause:
				spans = append(spans, span{x.WhilePos.Offset(), x.DoPos.Offset(), x.WhilePos.Line(), !top[n]})
			case *syntax.IfClause:
				if x.ThenPos.IsValid() {
					spans = append(spans, span{x.Position.Offset(), x.ThenPos.Offset(), x.Position.Line(), !top[n]})
				}
			}
			return true
		})
		for _, cm := range coms {
			for _, sp := range spans {
				if cm.Offset() > sp.from && cm.Offset() < sp.to && (sp.nested || cm.Line() > sp.line) {
					return "C02-single-loop-header-comment"
				}
			}
		}
	}
	// C02-semi-far-continuation: a `;`/`&` two or more lines below the end of its command (escaped
	// newlines in between): the printer moves it one continuation line down only, its line counter
	// stays behind the source, and a closing `}`/`)` on the terminator's source line is then
	// judged to be on a later line; the second pass sees the closer right below and moves the
	// statement to a line of its own.
	if !o.Single && !o.Minify && sh.any(func(n syntax.Node) bool {
		st, ok := n.(*syntax.Stmt)
		if !ok || !st.Semicolon.IsValid() || st.Cmd == nil {
			return false
		}
		end := st.Cmd.End().Line()
		for _, r := range st.Redirs {
			if l := r.End().Line(); l > end {
				end = l
			}
		}
		return st.Semicolon.Line() > end+1
	}) {
		return "C02-semi-far-continuation"
	}
	// C02-subshell-trailing-blank: `( (a)` NEWLINE `)` — the inner command starts with a parenthesis
	// on the line of the outer `(`, so a blank is written, and then the closing parenthesis on a
	// later line forces a newline right after it: `( ` NEWLINE.  The second pass sees the inner
	// command on its own line and prints `(` NEWLINE.
	if !o.Single && !o.Minify && sh.any(func(n syntax.Node) bool {
		s, ok := n.(*syntax.Subshell)
		if !ok || len(s.Stmts) != 1 || !startsWithLparenH(s.Stmts[0]) || s.Lparen.Line() != s.Stmts[0].Pos().Line() {
			return false
		}
		return s.Rparen.Line() > s.Lparen.Line() || len(s.Last) > 0 || len(s.Stmts[0].Comments) > 0 || hasHeredoc(s.Stmts[0])
	}) {
		return "C02-subshell-trailing-blank"
	}
	// C02-closing-paren-space: `((a;b))` in POSIX mode (two subshells) or `$( (a;b))`: the closing
	// parentheses are separated by a blank only while both are on the source line of the opening
	// one; the first pass moves them to a later line, the second pass then drops the blank.
	if !o.Single && sh.any(func(n syntax.Node) bool {
		var stmts []*syntax.Stmt
		var open, close syntax.Pos
		switch x := n.(type) {
		case *syntax.Subshell:
			stmts, open, close = x.Stmts, x.Lparen, x.Rparen
		case *syntax.CmdSubst:
			stmts, open, close = x.Stmts, x.Left, x.Right
		default:
			return false
		}
		if len(stmts) != 1 || !endsWithRparenH(stmts[0]) {
			return false
		}
		if open.Line() == close.Line() {
			return forcesNewline(stmts[0], o)
		}
		// the source has the parentheses on different lines because of a newline the printer does
		// not keep (inside $(( )) / (( ))): the output is one line and the next pass adds the blank
		if stmts[0].Pos().Line() == open.Line() && !forcesNewline(stmts[0], o) {
			return true
		}
		// or because the printer's line counter is already past these lines, so none of the line
		// breaks in between is kept: a comment was flushed early, or the construct sits in a
		// redirection that is printed after arguments which come later in the source
		if hasComments(f) {
			return true
		}
		return sh.any(func(m syntax.Node) bool {
			st, ok := m.(*syntax.Stmt)
			if !ok {
				return false
			}
			call, ok := st.Cmd.(*syntax.CallExpr)
			if !ok {
				return false
			}
			for _, r := range st.Redirs {
				if r.Word == nil || !nodeWithin(r.Word, n) {
					continue
				}
				for _, a := range call.Args {
					if a.Pos().After(r.Pos()) {
						return true
					}
				}
			}
			return false
		})
	}) {
		return "C02-closing-paren-space"
	}
	// C02-minify-closing-paren-space: the Minify face of the same rule: the source has the two
	// closing parentheses on a later line than the opening one (no blank), Minify joins the lines,
	// and the second pass adds the blank.
	if o.Minify && sh.any(func(n syntax.Node) bool {
		var stmts []*syntax.Stmt
		var open, close syntax.Pos
		switch x := n.(type) {
		case *syntax.Subshell:
			stmts, open, close = x.Stmts, x.Lparen, x.Rparen
		case *syntax.CmdSubst:
			stmts, open, close = x.Stmts, x.Left, x.Right
		default:
			return false
		}
		return len(stmts) == 1 && endsWithRparenH(stmts[0]) && open.Line() != close.Line()
	}) {
		return "C02-minify-closing-paren-space"
	}
	// C02-minify-stale-wantnewline: under Minify stmtList skips newlines() for the first statement
	// after `)` / `(` / `$(`, so the wantNewline set by nestedStmts survives and is consumed by the
	// `do`/`then` of a compound first statement (`a)for x` NEWLINE `do`); the second pass has other
	// line numbers and prints `;do`.
	if o.Minify && sh.any(func(n syntax.Node) bool {
		var stmts []*syntax.Stmt
		var open, close syntax.Pos
		switch x := n.(type) {
		case *syntax.CaseItem:
			stmts = x.Stmts
		case *syntax.Subshell:
			stmts, open, close = x.Stmts, x.Lparen, x.Rparen
		case *syntax.CmdSubst:
			stmts, open, close = x.Stmts, x.Left, x.Right
		case *syntax.ProcSubst:
			stmts, open, close = x.Stmts, x.OpPos, x.Rparen
		default:
			return false
		}
		if len(stmts) == 0 {
			return false
		}
		if close.IsValid() && open.IsValid() && close.Line() != open.Line() {
			// a substitution spanning source lines: stmtList's `sep` keeps wantNewline, and
			// rightParen does not call newlines() under Minify either: `for i in $(c` NEWLINE `); do`
			return true
		}
		c := stmts[0].Cmd
		for {
			b, ok := c.(*syntax.BinaryCmd)
			if !ok {
				break
			}
			c = b.X.Cmd
		}
		switch c.(type) {
		case *syntax.ForClause, *syntax.WhileClause, *syntax.IfClause:
			return true
		}
		return false
	}) {
		return "C02-minify-stale-wantnewline"
	}
	// C02-single-heredoc-comment: SingleLine with a here-document and a comment: the comment forces
	// the newline at which the body is flushed, and the second pass attaches the comment elsewhere.
	if o.Single && hasHeredoc(f) && hasComments(f) {
		return "C02-single-heredoc-comment"
	}
	// C02-binnext-heredoc-comment: BinaryNextLine with a here-document pending and a comment
	// attached to the right operand writes an indented empty line that the second pass drops.
	if o.BinNext && sh.any(func(n syntax.Node) bool {
		b, ok := n.(*syntax.BinaryCmd)
		return ok && len(b.Y.Comments) > 0 && hasHeredoc(b)
	}) {
		return "C02-binnext-heredoc-comment"
	}
	// C02-binnext-heredoc-indent: BinaryNextLine with a here-document pending on the left operand:
	// the operator stays on the line (no backslash-newline is written) but the extra indentation
	// level of the multi-line path is still taken; the second pass sees both operands on one line
	// and indents the right operand's lines one level less.
	if o.BinNext && sh.any(func(n syntax.Node) bool {
		b, ok := n.(*syntax.BinaryCmd)
		return ok && hasHeredoc(b.X) && b.Y.Pos().Line() > b.X.Pos().Line() && b.Y.End().Line() > b.Y.Pos().Line()
	}) {
		return "C02-binnext-heredoc-indent"
	}
	// C02-test-close-line: `[[ y` NEWLINE `]]` is printed on one line but the printer's line
	// counter stays on the line of `y`, so what follows `]]` on its source line (`;;`, `&&` …)
	// looks like it is on a later line and gets a line break the second pass does not make.
	if !o.Single && sh.any(func(n syntax.Node) bool {
		switch t := n.(type) {
		case *syntax.TestClause:
			return t.X != nil && t.Right.Line() > t.X.End().Line()
		case *syntax.ArithmCmd:
			// the same for `((1` NEWLINE `))`
			return t.X != nil && t.Right.Line() > t.X.End().Line()
		}
		return false
	}) {
		return "C02-test-close-line"
	}
	// C02-heredoc-comment-into-body: a comment after a here-document operator is pending when the
	// body is written; if the body holds a command substitution the comment is flushed at the first
	// newline inside it and stays there.
	if hasComments(f) && sh.any(func(n syntax.Node) bool {
		r, ok := n.(*syntax.Redirect)
		return ok && r.Hdoc != nil && (containsType(r.Hdoc, "CmdSubst") || containsType(r.Hdoc, "ProcSubst"))
	}) {
		return "C02-heredoc-comment-into-body"
	}
	// C02-backquote-comment-close: a comment right before a closing backquote (`…#c` CLOSE) forces
	// the `)` of the rewritten `$( )` onto the next line; the second pass then also breaks after `$(`.
	if !o.Minify && sh.any(func(n syntax.Node) bool {
		cs, ok := n.(*syntax.CmdSubst)
		return ok && cs.Backquotes && len(cs.Stmts) > 0 && hasComments(cs)
	}) {
		return "C02-backquote-comment-close"
	}
	// C02-backquote-heredoc-close: `…<<EOF NEWLINE body NEWLINE EOF` CLOSE with the closing backquote
	// on the delimiter's line: the first pass prints `$(<<EOF … EOF` NEWLINE `)`, and now that the
	// parenthesis is below the last statement the second pass breaks after `$(`.
	if !o.Single && sh.any(func(n syntax.Node) bool {
		cs, ok := n.(*syntax.CmdSubst)
		if !ok || len(cs.Stmts) == 0 || !hasHeredoc(cs.Stmts[len(cs.Stmts)-1]) {
			return false
		}
		return cs.Stmts[len(cs.Stmts)-1].End().Line() >= cs.Right.Line() && cs.Right.Line() > cs.Left.Line()
	}) {
		return "C02-backquote-heredoc-close"
	}
	return ""
}

func startsWithLparenH(n syntax.Node) bool {
	switch n := n.(type) {
	case *syntax.Stmt:
		return n.Cmd != nil && startsWithLparenH(n.Cmd)
	case *syntax.BinaryCmd:
		return startsWithLparenH(n.X)
	case *syntax.Subshell, *syntax.ArithmCmd:
		return true
	case *syntax.FuncDecl:
		// zsh anonymous function `() { … }` (printer.go startsWithLparen since 9a4486a)
		return !n.RsrvWord && n.Name == nil && len(n.Names) == 0
	}
	return false
}

func endsWithRparenH(n syntax.Node) bool {
	switch n := n.(type) {
	case *syntax.Stmt:
		if n.Background || n.Coprocess || n.Disown || len(n.Redirs) > 0 || n.Cmd == nil {
			return false
		}
		return endsWithRparenH(n.Cmd)
	case *syntax.BinaryCmd:
		return endsWithRparenH(n.Y)
	case *syntax.Subshell, *syntax.ArithmCmd:
		return true
	}
	return false
}

// forcesNewline over-approximates "printing n writes a newline although n is on one source
// line": a nested list of two or more statements, a here-document, a comment, a function body
// under FunctionNextLine.
func forcesNewline(n syntax.Node, o l4Opts) bool {
	multi := false
	stmtLists(n, func(stmts []*syntax.Stmt) {
		if len(stmts) > 1 {
			multi = true
		}
	})
	return multi || hasHeredoc(n) || hasComments(n) || (o.FuncNext && containsType(n, "FuncDecl"))
}

func hasComments(n syntax.Node) bool { return containsType(n, "Comment") }
