//go:build c28 || all

package main

// C28 search leg, part 1: the worker subprocess (the harness re-executes itself with
// VERIF_C28_WORKER=1), the pool that feeds it, and the attribution of panics to known findings.

import (
	"bufio"
	"bytes"
	"context"
	"fmt"
	"io"
	"io/fs"
	"os"
	"os/exec"
	"path/filepath"
	"regexp"
	"runtime"
	"runtime/debug"
	"sort"
	"strconv"
	"strings"
	"sync"
	"syscall"
	"time"

	"mvdan.cc/sh/v3/expand"
	"mvdan.cc/sh/v3/interp"
	"mvdan.cc/sh/v3/syntax"
)

var c28Langs = map[string]syntax.LangVariant{
	"bash": syntax.LangBash, "posix": syntax.LangPOSIX, "mksh": syntax.LangMirBSDKorn,
	"zsh": syntax.LangZsh, "bats": syntax.LangBats,
}

// c28Frames extracts the mvdan.cc/sh function names of a Go stack trace, innermost first.
func c28Frames(stack string) string {
	var fr []string
	for _, l := range strings.Split(stack, "\n") {
		l = strings.TrimSpace(l)
		if !strings.HasPrefix(l, "mvdan.cc/sh/v3/") {
			continue
		}
		l = strings.TrimPrefix(l, "mvdan.cc/sh/v3/")
		if i := strings.LastIndex(l, "("); i > 0 {
			l = l[:i]
		}
		if len(fr) > 0 && fr[len(fr)-1] == l {
			continue
		}
		fr = append(fr, l)
		if len(fr) >= 12 {
			break
		}
	}
	return strings.Join(fr, ">")
}

// ---------------------------------------------------------------------------------------------
// worker side

type c28Sandbox struct {
	dir string
}

func (s c28Sandbox) inside(path string) bool {
	p := filepath.Clean(path)
	return p == s.dir || strings.HasPrefix(p, s.dir+string(filepath.Separator))
}

// openHandler: the default handler, but nothing outside the scratch directory is written, and of
// /dev, /proc, /sys only /dev/null is opened (no unbounded reads).
func (s c28Sandbox) open(ctx context.Context, path string, flag int, perm os.FileMode) (io.ReadWriteCloser, error) {
	hc := interp.HandlerCtx(ctx)
	abs := path
	if !filepath.IsAbs(abs) {
		abs = filepath.Join(hc.Dir, abs)
	}
	abs = filepath.Clean(abs)
	deny := func() (io.ReadWriteCloser, error) {
		return nil, &os.PathError{Op: "open", Path: path, Err: syscall.EACCES}
	}
	if abs != "/dev/null" {
		for _, p := range []string{"/dev", "/proc", "/sys"} {
			if abs == p || strings.HasPrefix(abs, p+"/") {
				return deny()
			}
		}
		if flag&(os.O_WRONLY|os.O_RDWR|os.O_CREATE|os.O_TRUNC|os.O_APPEND) != 0 && !s.inside(abs) {
			return deny()
		}
		if fi, err := os.Stat(abs); err == nil && fi.Mode()&fs.ModeNamedPipe != 0 {
			return deny() // a FIFO made by a process substitution: opening it by name may block
		}
	}
	return interp.DefaultOpenHandler()(ctx, path, flag, perm)
}

// exec middleware: look the command up like the default handler would, but never start a process.
func c28NoExec(next interp.ExecHandlerFunc) interp.ExecHandlerFunc {
	return func(ctx context.Context, args []string) error {
		hc := interp.HandlerCtx(ctx)
		if _, err := interp.LookPathDir(hc.Dir, hc.Env, args[0]); err != nil {
			fmt.Fprintln(hc.Stderr, err)
			return interp.ExitStatus(127)
		}
		fmt.Fprintln(hc.Stderr, "c28: refusing to execute", args[0])
		return interp.ExitStatus(126)
	}
}

// c28UnblockFifos opens every FIFO left in dir non-blocking in both directions so that goroutines
// blocked in os.OpenFile on them return.
func c28UnblockFifos(dir string) {
	ents, _ := os.ReadDir(dir)
	for _, e := range ents {
		if e.Type()&fs.ModeNamedPipe == 0 {
			continue
		}
		p := filepath.Join(dir, e.Name())
		if fd, err := syscall.Open(p, syscall.O_RDWR|syscall.O_NONBLOCK, 0); err == nil {
			time.Sleep(2 * time.Millisecond)
			syscall.Close(fd)
		}
	}
}

type c28Result struct {
	kind   string // ok parse newerr timeout panic hang
	status int
	msg    string
	frames string
	ran    bool
}

func (r c28Result) line() string {
	switch r.kind {
	case "panic":
		return "panic " + hx(r.msg) + " " + hx(r.frames)
	case "invariant":
		return "invariant " + hx(r.msg)
	case "ok":
		return "ok " + strconv.Itoa(r.status)
	}
	return r.kind
}

func c28WorkerProg(base string, n int, timeout time.Duration, f []string) (res c28Result) {
	lang := c28Langs[f[0]]
	stdinMode := f[1]
	script := unhx(f[2])
	var params []string
	for _, h := range f[3:] {
		params = append(params, unhx(h))
	}
	dir := filepath.Join(base, fmt.Sprintf("d%d", n))
	os.RemoveAll(dir)
	os.MkdirAll(filepath.Join(dir, "sub"), 0o755)
	os.MkdirAll(filepath.Join(dir, ".nopath"), 0o755)
	os.WriteFile(filepath.Join(dir, "file"), []byte("line1\nline 2\n\nlast"), 0o644)
	defer func() {
		c28UnblockFifos(dir)
		os.RemoveAll(dir)
	}()
	defer func() {
		if rec := recover(); rec != nil {
			res = c28Result{kind: "panic", msg: fmt.Sprint(rec), frames: c28Frames(string(debug.Stack()))}
		}
	}()
	file, err := syntax.NewParser(syntax.Variant(lang)).Parse(strings.NewReader(script), "")
	if err != nil {
		return c28Result{kind: "parse"}
	}
	var out, errb limitedBuf
	var in io.Reader
	switch stdinMode {
	case "s":
		in = strings.NewReader("first line\nsecond\\\nline\n-x y z\n1 2 3\n\n")
	case "e":
		in = strings.NewReader("")
	}
	sb := c28Sandbox{dir}
	r, err := interp.New(
		interp.StdIO(in, &out, &errb),
		interp.Dir(dir),
		interp.Env(expand.ListEnviron("PATH="+filepath.Join(dir, ".nopath"), "HOME="+dir, "TMPDIR="+dir, "LC_ALL=C.utf8", "FOO=bar")),
		interp.Params(append([]string{"--"}, params...)...),
		interp.OpenHandler(sb.open),
		interp.ExecHandlers(c28NoExec),
	)
	if err != nil {
		return c28Result{kind: "newerr"}
	}
	ctx, cancel := context.WithTimeout(context.Background(), timeout)
	defer cancel()
	err = r.Run(ctx, file)
	if ctx.Err() != nil {
		return c28Result{kind: "timeout", ran: true}
	}
	res = c28Result{kind: "ok", ran: true}
	if err != nil {
		var es interp.ExitStatus
		if asExit(err, &es) {
			res.status = int(es)
		} else {
			res.status = 1
		}
	}
	if bad := c28ProbeVars(r); bad != "" {
		return c28Result{kind: "invariant", msg: bad, ran: true}
	}
	return res
}

type c28VarsEnv map[string]expand.Variable

func (e c28VarsEnv) Get(name string) expand.Variable { return e[name] }
func (e c28VarsEnv) Each(f func(string, expand.Variable) bool) {
	for n, v := range e {
		if !f(n, v) {
			return
		}
	}
}

// c28ProbeVars checks, on the variables Run leaves in r.Vars, the representation invariant that
// every keyed array access relies on (Variable.indexedVal / indexedKeys index List by positions found
// in Indexes): Indexes is nil, or has one strictly increasing non-negative entry per List element.
// A violation is a latent index-out-of-range panic even if this program did not touch the variable
// again.
func c28ProbeVars(r *interp.Runner) string {
	names := make([]string, 0, len(r.Vars))
	for n := range r.Vars {
		names = append(names, n)
	}
	sort.Strings(names)
	for _, n := range names {
		v := r.Vars[n]
		if v.Kind == expand.NameRef {
			// Resolve never returns a variable that is still a nameref (cycles, self references and
			// over-long chains resolve to the zero Variable): the Kind switches after a Resolve rely on it
			if _, res := v.Resolve(c28VarsEnv(r.Vars)); res.Kind == expand.NameRef {
				return fmt.Sprintf("nameref %s (-> %s): Variable.Resolve returned a variable whose Kind is still NameRef (-> %s)", n, v.Str, res.Str)
			}
		}
		if v.Kind != expand.Indexed || v.Indexes == nil {
			continue
		}
		if len(v.Indexes) != len(v.List) {
			return fmt.Sprintf("variable %s: len(List)=%d but len(Indexes)=%d (%v)", n, len(v.List), len(v.Indexes), v.Indexes)
		}
		for i, k := range v.Indexes {
			if k < 0 || (i > 0 && k <= v.Indexes[i-1]) {
				return fmt.Sprintf("variable %s: Indexes not strictly increasing and non-negative: %v", n, v.Indexes)
			}
		}
	}
	return ""
}

// c28WorkerOpts: tokens P:<hex,hex…>  D:<hex>  E:nil|func|list:<hex,…>  S:<in><out><err>  I:0|1
// H:call|exec|execs|open|readdir|readdir2|stat|access  R:<hex script>; applied in order to New.
func c28WorkerOpts(base string, n int, timeout time.Duration, f []string) (res c28Result) {
	dir := filepath.Join(base, fmt.Sprintf("o%d", n))
	os.RemoveAll(dir)
	os.MkdirAll(filepath.Join(dir, "sub"), 0o755)
	os.WriteFile(filepath.Join(dir, "file"), []byte("x\n"), 0o644)
	defer os.RemoveAll(dir)
	defer func() {
		if r := recover(); r != nil {
			res = c28Result{kind: "panic", msg: fmt.Sprint(r), frames: c28Frames(string(debug.Stack()))}
		}
	}()
	var opts []interp.RunnerOption
	script := ":"
	var files []*os.File
	defer func() {
		for _, f := range files {
			f.Close()
		}
	}()
	sb := c28Sandbox{dir}
	haveExec := false
	for _, t := range f {
		k, v, _ := strings.Cut(t, ":")
		switch k {
		case "P":
			var args []string
			if v != "" {
				for _, h := range strings.Split(v, ",") {
					args = append(args, unhx(h))
				}
			}
			opts = append(opts, interp.Params(args...))
		case "D":
			p := unhx(v)
			p = strings.ReplaceAll(p, "@", dir)
			opts = append(opts, interp.Dir(p))
		case "E":
			switch {
			case v == "nil":
				opts = append(opts, interp.Env(nil))
			case v == "func":
				opts = append(opts, interp.Env(expand.FuncEnviron(func(name string) string {
					if name == "PATH" {
						return filepath.Join(dir, "sub")
					}
					return "v-" + name
				})))
			default:
				var pairs []string
				if l := strings.TrimPrefix(v, "list:"); l != "" {
					for _, h := range strings.Split(l, ",") {
						pairs = append(pairs, strings.ReplaceAll(unhx(h), "@", dir))
					}
				}
				opts = append(opts, interp.Env(expand.ListEnviron(pairs...)))
			}
		case "S":
			mk := func(c byte, rd bool) any {
				switch c {
				case 'b':
					if rd {
						return strings.NewReader("in\n")
					}
					return &limitedBuf{}
				case 'f':
					fl, err := os.OpenFile(filepath.Join(dir, "file"), os.O_RDWR, 0)
					if err != nil {
						return nil
					}
					files = append(files, fl)
					return fl
				}
				return nil
			}
			var in io.Reader
			var o, e io.Writer
			if x, ok := mk(v[0], true).(io.Reader); ok {
				in = x
			}
			if x, ok := mk(v[1], false).(io.Writer); ok {
				o = x
			}
			if x, ok := mk(v[2], false).(io.Writer); ok {
				e = x
			}
			opts = append(opts, interp.StdIO(in, o, e))
		case "I":
			opts = append(opts, interp.Interactive(v == "1"))
		case "H":
			switch v {
			case "call":
				opts = append(opts, interp.CallHandler(func(ctx context.Context, args []string) ([]string, error) {
					return args, nil
				}))
			case "exec":
				if !haveExec { // mixing ExecHandler and ExecHandlers is a documented, deliberate panic
					opts = append(opts, interp.ExecHandler(func(ctx context.Context, args []string) error {
						return interp.ExitStatus(3)
					}))
					haveExec = true
				}
			case "open":
				opts = append(opts, interp.OpenHandler(sb.open))
			case "readdir":
				opts = append(opts, interp.ReadDirHandler(func(ctx context.Context, p string) ([]fs.FileInfo, error) {
					return nil, os.ErrNotExist
				}))
			case "readdir2":
				opts = append(opts, interp.ReadDirHandler2(interp.DefaultReadDirHandler2()))
			case "stat":
				opts = append(opts, interp.StatHandler(interp.DefaultStatHandler()))
			case "access":
				opts = append(opts, interp.AccessHandler(interp.DefaultAccessHandler()))
			}
		case "R":
			script = unhx(v)
		}
	}
	if !haveExec {
		opts = append(opts, interp.ExecHandlers(c28NoExec))
	}
	r, err := interp.New(opts...)
	if err != nil {
		return c28Result{kind: "newerr", ran: true}
	}
	file, err := syntax.NewParser().Parse(strings.NewReader(script), "")
	if err != nil {
		return c28Result{kind: "parse"}
	}
	ctx, cancel := context.WithTimeout(context.Background(), timeout)
	defer cancel()
	err = r.Run(ctx, file)
	r.Reset()
	r.Run(ctx, file)
	if ctx.Err() != nil {
		return c28Result{kind: "timeout", ran: true}
	}
	return c28Result{kind: "ok", ran: true}
}

func c28WorkerMain() {
	base := os.Getenv("VERIF_C28_SCRATCH")
	os.MkdirAll(base, 0o755)
	ms, _ := strconv.Atoi(os.Getenv("VERIF_C28_TIMEOUT_MS"))
	if ms <= 0 {
		ms = 500
	}
	timeout := time.Duration(ms) * time.Millisecond
	in := bufio.NewReaderSize(os.Stdin, 1<<20)
	out := bufio.NewWriter(os.Stdout)
	n := 0
	for {
		line, err := in.ReadString('\n')
		if line == "" && err != nil {
			return
		}
		f := strings.Fields(line)
		n++
		var res c28Result
		done := make(chan c28Result, 1)
		go func() {
			switch {
			case len(f) >= 4 && f[0] == "prog":
				done <- c28WorkerProg(base, n, timeout, f[1:])
			case len(f) >= 1 && f[0] == "opts":
				done <- c28WorkerOpts(base, n, timeout, f[1:])
			default:
				done <- c28Result{kind: "parse"}
			}
		}()
		hung := false
		deadline := time.After(timeout + 3*time.Second)
		tick := time.NewTicker(100 * time.Millisecond)
	waitLoop:
		for {
			select {
			case res = <-done:
				break waitLoop
			case <-deadline:
				// Run did not come back after its context expired (e.g. `wait` on a blocked process
				// substitution): report, and exit so that the parent starts a fresh worker.
				res = c28Result{kind: "hang"}
				hung = true
				break waitLoop
			case <-tick.C:
				// a memory bomb such as {0..9999999999}: resource exhaustion is not this property
				var ms runtime.MemStats
				runtime.ReadMemStats(&ms)
				if ms.HeapAlloc > 1<<30 {
					res = c28Result{kind: "hang"}
					hung = true
					break waitLoop
				}
			}
		}
		tick.Stop()
		out.WriteString(res.line() + "\n")
		out.Flush()
		if hung {
			c28UnblockFifos(filepath.Join(base, fmt.Sprintf("d%d", n)))
			os.RemoveAll(base)
			os.Exit(0)
		}
		if err != nil {
			return
		}
	}
}

// ---------------------------------------------------------------------------------------------
// parent side

type c28Worker struct {
	id      int
	base    string
	timeout time.Duration
	cmd     *exec.Cmd
	in      io.WriteCloser
	out     *bufio.Reader
	errb    *bytes.Buffer
	served  int
}

func (w *c28Worker) start() error {
	exe, err := os.Executable()
	if err != nil {
		return err
	}
	w.cmd = exec.Command(exe)
	w.cmd.Env = append(os.Environ(), "VERIF_C28_WORKER=1",
		"VERIF_C28_SCRATCH="+filepath.Join(w.base, fmt.Sprintf("w%d", w.id)),
		fmt.Sprintf("VERIF_C28_TIMEOUT_MS=%d", w.timeout.Milliseconds()), "GOTRACEBACK=all", "GOMAXPROCS=2")
	w.in, _ = w.cmd.StdinPipe()
	so, _ := w.cmd.StdoutPipe()
	w.out = bufio.NewReaderSize(so, 1<<20)
	w.errb = &bytes.Buffer{}
	w.cmd.Stderr = w.errb
	w.served = 0
	return w.cmd.Start()
}

func (w *c28Worker) stop() {
	if w.cmd == nil {
		return
	}
	w.in.Close()
	done := make(chan struct{})
	go func() { w.cmd.Wait(); close(done) }()
	select {
	case <-done:
	case <-time.After(2 * time.Second):
		w.cmd.Process.Kill()
		<-done
	}
	w.cmd = nil
	os.RemoveAll(filepath.Join(w.base, fmt.Sprintf("w%d", w.id)))
}

var c28PanicLine = regexp.MustCompile(`(?m)^panic: (.*)$`)

// do sends one request; a dead worker is a panic in a goroutine of the interpreter (its stderr has
// the trace), a silent worker a hang.
func (w *c28Worker) do(req string) c28Result {
	if w.cmd == nil || w.served >= 400 {
		w.stop()
		if err := w.start(); err != nil {
			return c28Result{kind: "hang", msg: "cannot start worker: " + err.Error()}
		}
	}
	w.served++
	if _, err := io.WriteString(w.in, req+"\n"); err != nil {
		w.stop()
		return c28Result{kind: "hang", msg: "worker write failed"}
	}
	type rd struct {
		line string
		err  error
	}
	ch := make(chan rd, 1)
	go func() {
		l, err := w.out.ReadString('\n')
		ch <- rd{l, err}
	}()
	select {
	case r := <-ch:
		if r.err != nil || r.line == "" {
			// the child died
			w.cmd.Wait()
			st := w.errb.String()
			w.cmd = nil
			os.RemoveAll(filepath.Join(w.base, fmt.Sprintf("w%d", w.id)))
			msg := "worker died"
			if m := c28PanicLine.FindStringSubmatch(st); m != nil {
				msg = strings.TrimSuffix(m[1], " [recovered]")
			} else if i := strings.Index(st, "fatal error: "); i >= 0 {
				msg = strings.SplitN(st[i:], "\n", 2)[0]
			}
			// frames of the first goroutine printed (the panicking one)
			body := st
			if i := strings.Index(st, "goroutine "); i >= 0 {
				body = st[i:]
				if j := strings.Index(body, "\n\n"); j >= 0 {
					body = body[:j]
				}
			}
			return c28Result{kind: "panic", msg: msg, frames: "goroutine:" + c28Frames(body), ran: true}
		}
		f := strings.Fields(r.line)
		switch f[0] {
		case "ok":
			st, _ := strconv.Atoi(f[1])
			return c28Result{kind: "ok", status: st, ran: true}
		case "panic":
			return c28Result{kind: "panic", msg: unhx(f[1]), frames: unhx(f[2]), ran: true}
		case "invariant":
			return c28Result{kind: "invariant", msg: unhx(f[1]), ran: true}
		case "timeout":
			return c28Result{kind: "timeout", ran: true}
		case "hang":
			w.stop()
			return c28Result{kind: "hang", ran: true}
		}
		return c28Result{kind: f[0]}
	case <-time.After(w.timeout + 45*time.Second):
		w.cmd.Process.Kill()
		w.cmd.Wait()
		w.cmd = nil
		os.RemoveAll(filepath.Join(w.base, fmt.Sprintf("w%d", w.id)))
		return c28Result{kind: "hang", ran: true}
	}
}

// c28RunAll runs the requests on `workers` subprocesses, results in order.
func c28RunAll(base string, workers int, timeout time.Duration, reqs []string) []c28Result {
	out := make([]c28Result, len(reqs))
	var wg sync.WaitGroup
	next := make(chan int)
	for k := 0; k < workers; k++ {
		wg.Add(1)
		go func(k int) {
			defer wg.Done()
			w := &c28Worker{id: k, base: base, timeout: timeout}
			defer w.stop()
			for i := range next {
				out[i] = w.do(reqs[i])
			}
		}(k)
	}
	for i := range reqs {
		next <- i
	}
	close(next)
	wg.Wait()
	return out
}

// ---------------------------------------------------------------------------------------------
// attribution of a panic to an open known finding: message class + functions on the stack.
// Everything else is a new failure.

type c28Sig struct {
	id     string
	msg    *regexp.Regexp
	frames []string // each must occur in the frame list
	anyOf  []string // and, when non-empty, at least one of these
}

var c28Known = []c28Sig{
	{"C28-extglob-unterminated", regexp.MustCompile(`regexp: Compile\(.*\\x00`), nil, nil},
}

func c28Classify(msg, frames string) string {
	for _, s := range c28Known {
		if !s.msg.MatchString(msg) {
			continue
		}
		ok := true
		for _, f := range s.frames {
			if !strings.Contains(frames, f) {
				ok = false
			}
		}
		if len(s.anyOf) > 0 {
			any := false
			for _, f := range s.anyOf {
				if strings.Contains(frames, f) {
					any = true
				}
			}
			ok = ok && any
		}
		if ok {
			return s.id
		}
	}
	return ""
}
