package main

import (
	"bytes"
	"context"
	"fmt"
	"io"
	"os"
	"os/exec"
	"path/filepath"
	"strings"
	"sync"
	"time"

	"mvdan.cc/sh/v3/expand"
	"mvdan.cc/sh/v3/interp"
	"mvdan.cc/sh/v3/syntax"
)

// ShellResult is what the shell oracles and the in-process interpreter report.
type ShellResult struct {
	Stdout   string
	Status   int
	TimedOut bool
	Panic    string // in-process interpreter only
	Err      string // in-process: parse error or non-exit-status error text
}

var scratchMu sync.Mutex
var scratchN int

// scratchDir returns a fresh empty directory under $VERIF_WORK (never /tmp).
func scratchDir(c *Ctx) string {
	scratchMu.Lock()
	scratchN++
	n := scratchN
	scratchMu.Unlock()
	base := os.Getenv("VERIF_WORK")
	if base == "" {
		base = c.Out
	}
	base, _ = filepath.Abs(base)
	d := filepath.Join(base, "scratch", fmt.Sprintf("d%d", n))
	os.RemoveAll(d)
	os.MkdirAll(d, 0o755)
	return d
}

// stubDir holds failing stubs for the short command names the repository's own tests shadow, so
// that a program mentioning `a`, `foo` … behaves the same under bash and interp.
func stubDir(c *Ctx) string {
	base := os.Getenv("VERIF_WORK")
	if base == "" {
		base = c.Out
	}
	base, _ = filepath.Abs(base)
	d := filepath.Join(base, "stubs")
	if _, err := os.Stat(d); err == nil {
		return d
	}
	os.MkdirAll(d, 0o755)
	return d
}

func shellEnv(c *Ctx, dir string) []string {
	return []string{
		"PATH=" + stubDir(c) + ":/usr/bin:/bin",
		"HOME=" + dir,
		"LC_ALL=C.utf8",
		"TMPDIR=" + dir,
	}
}

// runShell runs script with `bash --norc --noprofile -c`/`dash -c` style oracles in a fresh scratch
// directory with a minimal environment; stdin is /dev/null; 2 s timeout (Appendix D of DESIGN.md).
func runShell(c *Ctx, shell string, script string, args ...string) ShellResult {
	dir := scratchDir(c)
	defer os.RemoveAll(dir)
	return runShellIn(c, shell, dir, script, args...)
}

func runShellIn(c *Ctx, shell, dir, script string, args ...string) ShellResult {
	ctx, cancel := context.WithTimeout(context.Background(), 10*time.Second)
	defer cancel()
	var argv []string
	switch shell {
	case "bash":
		argv = []string{"bash", "--norc", "--noprofile", "-c", script, "sh"}
	case "dash":
		argv = []string{"dash", "-c", script, "sh"}
	default:
		argv = []string{shell, "-c", script, "sh"}
	}
	argv = append(argv, args...)
	cmd := exec.CommandContext(ctx, argv[0], argv[1:]...)
	cmd.Dir = dir
	cmd.Env = shellEnv(c, dir)
	// stdout goes to a file, not a pipe: no copy goroutine that could lag behind under load
	scratchMu.Lock()
	scratchN++
	outPath := filepath.Join(filepath.Dir(dir), fmt.Sprintf("out%d.txt", scratchN))
	scratchMu.Unlock()
	outF, ferr := os.Create(outPath)
	if ferr != nil {
		return ShellResult{Status: -1, Err: ferr.Error(), TimedOut: true}
	}
	defer os.Remove(outPath)
	cmd.Stdout = outF
	cmd.Stderr = nil
	cmd.Stdin = nil
	cmd.WaitDelay = 2 * time.Second
	err := cmd.Run()
	outF.Close()
	ob, _ := os.ReadFile(outPath)
	res := ShellResult{Stdout: string(ob)}
	if ctx.Err() != nil {
		res.TimedOut = true
		return res
	}
	if err != nil {
		if ee, ok := err.(*exec.ExitError); ok {
			res.Status = ee.ExitCode()
		} else {
			// the oracle could not be started (e.g. a NUL byte in the script cannot travel in argv):
			// no verdict, callers treat it like a timeout
			res.Status = -1
			res.Err = err.Error()
			res.TimedOut = true
		}
	}
	return res
}

// runInterp parses script in the given variant and runs it in-process with interp.Runner in a
// fresh scratch directory with the same minimal environment as the shell oracles.
func runInterp(c *Ctx, lang syntax.LangVariant, script string, args ...string) ShellResult {
	dir := scratchDir(c)
	defer os.RemoveAll(dir)
	return runInterpIn(c, lang, dir, script, args...)
}

func runInterpIn(c *Ctx, lang syntax.LangVariant, dir, script string, args ...string) ShellResult {
	var res ShellResult
	p := safely(func() {
		f, err := syntax.NewParser(syntax.Variant(lang)).Parse(strings.NewReader(script), "")
		if err != nil {
			res.Err = "parse: " + err.Error()
			res.Status = 2
			return
		}
		var out bytes.Buffer
		r, err := interp.New(
			interp.StdIO(nil, &out, io.Discard),
			interp.Dir(dir),
			interp.Env(expand.ListEnviron(shellEnv(c, dir)...)),
			interp.Params(append([]string{"--"}, args...)...),
		)
		if err != nil {
			res.Err = "new: " + err.Error()
			return
		}
		ctx, cancel := context.WithTimeout(context.Background(), 10*time.Second)
		defer cancel()
		err = r.Run(ctx, f)
		res.Stdout = out.String()
		if ctx.Err() != nil {
			res.TimedOut = true
			return
		}
		if err != nil {
			var es interp.ExitStatus
			if asExit(err, &es) {
				res.Status = int(es)
			} else {
				res.Err = err.Error()
				res.Status = 1
			}
		}
	})
	res.Panic = p
	return res
}

func asExit(err error, es *interp.ExitStatus) bool {
	for err != nil {
		if e, ok := err.(interp.ExitStatus); ok {
			*es = e
			return true
		}
		u, ok := err.(interface{ Unwrap() error })
		if !ok {
			return false
		}
		err = u.Unwrap()
	}
	return false
}
