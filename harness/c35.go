//go:build c35 || all

package main

import (
	"bytes"
	"crypto/sha256"
	"fmt"
	"os"
	"os/exec"
	"path/filepath"
	"regexp"
	"sort"
	"strconv"
	"strings"
	"sync"
	"syscall"
	"time"
)

// C35 — shfmt -w replaces files atomically.
//
// The harness builds the real shfmt binary from /repo's current tree on every run and drives it
// under strace in scratch directories below $VERIF_WORK.
//
// Tie (c.Op):
//
//	script  — `strace -f` of an undisturbed `shfmt -w <target>`, canonicalised (temp names → P1/P2/X,
//	          descriptors → order of opening, restricted to calls on the target, the temp names and
//	          their descriptors; the read-only open/read/close of the target is left out)
//	          = the model's `shfmtW` script.
//	prefix  — after a kill on entering a system call (`strace -e inject=<syscall>:signal=KILL:when=k`),
//	          the observed state (target old/new, mode, which temp names exist, pending file's bytes and
//	          mode) = the model's state after that many calls of the script.
//	speckill— the property's own words evaluated by Lean on the observed post-kill state.
//
// Search (c.Fail): after every kill the target must hold exactly the old or the new bytes, be a regular
//
//	file with the original permission bits, and nothing but `.<name><digits>` leftovers may appear;
//	a completed run must leave no temporary file in either directory; symlink/FIFO/directory targets
//	must be left untouched.
func init() { register("C35", c35) }

var c35BinOnce sync.Once
var c35Bin, c35BinErr string

func c35WorkDir(c *Ctx) string {
	base := os.Getenv("VERIF_WORK")
	if base == "" {
		base = c.Out
	}
	base, _ = filepath.Abs(base)
	return base
}

func c35Build(c *Ctx) string {
	c35BinOnce.Do(func() {
		w := c35WorkDir(c)
		os.MkdirAll(w, 0o755)
		bin := filepath.Join(w, "shfmt")
		cmd := exec.Command("go", "build", "-o", bin, "./cmd/shfmt")
		cmd.Dir = repoDir()
		cmd.Env = append(os.Environ(), "GOFLAGS=-mod=mod", "GOPROXY=off")
		if out, err := cmd.CombinedOutput(); err != nil {
			c35BinErr = fmt.Sprintf("go build ./cmd/shfmt failed: %v\n%s", err, out)
			return
		}
		c35Bin = bin
		os.MkdirAll(filepath.Join(w, "c35"), 0o755)
		// keep EditorConfig lookups inside the scratch area
		os.WriteFile(filepath.Join(w, "c35", ".editorconfig"), []byte("root = true\n"), 0o644)
	})
	return c35BinErr
}

const c35Syscalls = "openat,renameat,renameat2,rename,unlinkat,unlink,write,fsync,close,fchmod,fchmodat,chmod,newfstatat,fstat,lstat,stat,ftruncate,truncate,linkat,symlinkat,fdatasync,pwrite64,writev"

// one scenario
type c35Case struct {
	name   string // target file name
	kind   string // reg symlink fifo dir
	perm   os.FileMode
	umask  int
	cfg    string // same xdev notmp
	old    string
	sample bool // sample the kill points instead of trying all of them
	imm    bool // the target's directory is immutable (chattr +i): no temporary file can be created or renamed into it
}

func (cs c35Case) witness() string {
	cfg := cs.cfg
	if cs.imm {
		cfg += "!imm"
	}
	return fmt.Sprintf("w %s %s %o %o %s %s", cfg, cs.kind, cs.perm, cs.umask, hx(cs.name), hx(cs.old))
}

func c35ParseCase(line string) (c35Case, bool) {
	t := strings.Fields(line)
	if len(t) != 7 || t[0] != "w" {
		return c35Case{}, false
	}
	p, err1 := strconv.ParseUint(t[3], 8, 32)
	u, err2 := strconv.ParseUint(t[4], 8, 32)
	var cs c35Case
	bad := safely(func() {
		cs = c35Case{cfg: strings.TrimSuffix(t[1], "!imm"), imm: strings.HasSuffix(t[1], "!imm"), kind: t[2], perm: os.FileMode(p), umask: int(u), name: unhx(t[5]), old: unhx(t[6])}
	})
	return cs, err1 == nil && err2 == nil && bad == ""
}

type c35Env struct {
	dir    string // the target's directory (cwd of shfmt)
	tmpdir string // $TMPDIR
	target string // absolute
	link   string // a hard link to the target's original inode, outside the watched directories
	imm    bool
}

var c35N struct {
	sync.Mutex
	n int
}

// c35Setup creates a fresh directory with the target in its initial state.
func c35Setup(c *Ctx, cs c35Case) (c35Env, error) {
	c35N.Lock()
	c35N.n++
	n := c35N.n
	c35N.Unlock()
	root := filepath.Join(c35WorkDir(c), "c35", fmt.Sprintf("r%d", n))
	os.RemoveAll(root)
	env := c35Env{dir: filepath.Join(root, "d"), tmpdir: filepath.Join(root, "tmp")}
	if err := os.MkdirAll(env.dir, 0o755); err != nil {
		return env, err
	}
	switch cs.cfg {
	case "same":
		os.MkdirAll(env.tmpdir, 0o755)
	case "notmp":
		// $TMPDIR does not exist: os.CreateTemp fails, renameio falls back to the target's directory
	case "xdev":
		env.tmpdir = filepath.Join("/dev/shm", fmt.Sprintf("verif-c35-%d-%d", os.Getpid(), n))
		if err := os.MkdirAll(env.tmpdir, 0o755); err != nil {
			return env, err
		}
	}
	env.target = filepath.Join(env.dir, cs.name)
	switch cs.kind {
	case "reg":
		if err := os.WriteFile(env.target, []byte(cs.old), 0o600); err != nil {
			return env, err
		}
		os.Chmod(env.target, cs.perm)
		env.link = filepath.Join(root, "hl", "link")
		os.MkdirAll(filepath.Dir(env.link), 0o755)
		if err := os.Link(env.target, env.link); err != nil {
			return env, err
		}
	case "symlink":
		real := filepath.Join(env.dir, "real-"+cs.name)
		os.WriteFile(real, []byte(cs.old), 0o600)
		os.Chmod(real, cs.perm)
		if err := os.Symlink("real-"+cs.name, env.target); err != nil {
			return env, err
		}
	case "fifo":
		if err := syscall.Mkfifo(env.target, uint32(cs.perm)); err != nil {
			return env, err
		}
		os.Chmod(env.target, cs.perm)
	case "dir":
		os.Mkdir(env.target, 0o755)
		os.WriteFile(filepath.Join(env.target, "notes.txt"), []byte(cs.old), 0o644)
	}
	if cs.imm {
		if out, err := exec.Command("chattr", "+i", env.dir).CombinedOutput(); err != nil {
			return env, fmt.Errorf("chattr +i: %v %s", err, out)
		}
		env.imm = true
	}
	return env, nil
}

func c35ImmUsable(c *Ctx) bool {
	d := filepath.Join(c35WorkDir(c), "c35", "immprobe")
	os.MkdirAll(d, 0o755)
	defer os.RemoveAll(d)
	if exec.Command("chattr", "+i", d).Run() != nil {
		return false
	}
	err := os.WriteFile(filepath.Join(d, "x"), nil, 0o600)
	exec.Command("chattr", "-i", d).Run()
	return err != nil
}

func (e c35Env) cleanup() {
	if e.imm {
		exec.Command("chattr", "-i", e.dir).Run()
	}
	os.RemoveAll(filepath.Dir(e.dir))
	if strings.HasPrefix(e.tmpdir, "/dev/shm/verif-c35-") {
		os.RemoveAll(e.tmpdir)
	}
}

func c35XdevUsable(c *Ctx) bool {
	var a, b syscall.Stat_t
	if syscall.Stat("/dev/shm", &a) != nil || syscall.Stat(c35WorkDir(c), &b) != nil {
		return false
	}
	if a.Dev == b.Dev {
		return false
	}
	p := filepath.Join("/dev/shm", fmt.Sprintf("verif-c35-probe-%d", os.Getpid()))
	if err := os.WriteFile(p, nil, 0o600); err != nil {
		return false
	}
	os.Remove(p)
	return true
}

type c35Run struct {
	status   int
	killed   bool
	timedOut bool
	trace    string
	stderr   string
}

// c35Strace runs `shfmt -w <name>` under strace; inject is "" or e.g. "renameat:signal=KILL:when=2".
func c35Strace(c *Ctx, env c35Env, cs c35Case, inject string, id int) c35Run {
	tr := filepath.Join(filepath.Dir(env.dir), fmt.Sprintf("trace%d.txt", id))
	args := []string{"-f", "-qq", "-xx", "-s", "70000", "-o", tr, "-e", "trace=" + c35Syscalls}
	if inject != "" {
		args = append(args, "-e", "inject="+inject)
	}
	args = append(args, c35Bin, "-w", cs.name)
	script := fmt.Sprintf("umask %04o; exec strace \"$@\"", cs.umask)
	cmd := exec.Command("/bin/sh", append([]string{"-c", script, "sh"}, args...)...)
	cmd.Dir = env.dir
	cmd.Env = []string{"PATH=/usr/bin:/bin", "HOME=" + c35WorkDir(c), "TMPDIR=" + env.tmpdir, "LC_ALL=C"}
	var se bytes.Buffer
	cmd.Stderr = &se
	var r c35Run
	if err := cmd.Start(); err != nil {
		r.status = -1
		r.stderr = err.Error()
		return r
	}
	done := make(chan struct{})
	go func() { cmd.Wait(); close(done) }()
	select {
	case <-done:
	case <-time.After(240 * time.Second):
		cmd.Process.Kill()
		<-done
		r.timedOut = true
	}
	b, _ := os.ReadFile(tr)
	os.Remove(tr)
	r.trace = string(b)
	r.stderr = se.String()
	ws := cmd.ProcessState.Sys().(syscall.WaitStatus)
	r.status = cmd.ProcessState.ExitCode()
	// strace re-raises the tracee's fatal signal on itself
	r.killed = (ws.Signaled() && ws.Signal() == syscall.SIGKILL) || r.status == 137 || strings.Contains(r.trace, "+++ killed by SIGKILL +++")
	return r
}

// ---------------------------------------------------------------------------------------------
// trace canonicalisation

type c35Call struct {
	name string
	args string
	ret  string // text after " = "; "?" when the tracee died inside the call
}

var c35LineRe = regexp.MustCompile(`^(\d+)\s+(.*)$`)
var c35ResumedRe = regexp.MustCompile(`^<\.\.\. (\w+) resumed>(.*)$`)

func c35ParseTrace(trace string) []c35Call {
	var calls []c35Call
	pending := map[string]string{}
	for _, line := range strings.Split(trace, "\n") {
		m := c35LineRe.FindStringSubmatch(line)
		if m == nil {
			continue
		}
		pid, rest := m[1], m[2]
		if strings.HasPrefix(rest, "+++") || strings.HasPrefix(rest, "---") {
			continue
		}
		if strings.HasSuffix(rest, "<unfinished ...>") {
			pending[pid] = strings.TrimSuffix(rest, "<unfinished ...>")
			continue
		}
		if rm := c35ResumedRe.FindStringSubmatch(rest); rm != nil {
			rest = pending[pid] + rm[2]
			delete(pending, pid)
		}
		i := strings.IndexByte(rest, '(')
		j := strings.LastIndex(rest, " = ")
		if i < 0 || j < i {
			continue
		}
		k := strings.LastIndex(rest[:j], ")")
		if k < i {
			continue
		}
		calls = append(calls, c35Call{name: rest[:i], args: strings.TrimSpace(rest[i+1 : k]), ret: strings.TrimSpace(rest[j+3:])})
	}
	// calls the tracee died in (never resumed)
	for _, p := range pending {
		if i := strings.IndexByte(p, '('); i > 0 {
			calls = append(calls, c35Call{name: p[:i], args: strings.TrimSpace(p[i+1:]), ret: "?"})
		}
	}
	return calls
}

var c35StrRe = regexp.MustCompile(`"((?:\\x[0-9a-f]{2})*)"`)

func c35Unhex(s string) string {
	var sb strings.Builder
	for i := 0; i+3 < len(s)+1 && i < len(s); i += 4 {
		v, _ := strconv.ParseUint(s[i+2:i+4], 16, 8)
		sb.WriteByte(byte(v))
	}
	return sb.String()
}

func c35Strings(args string) []string {
	var out []string
	for _, m := range c35StrRe.FindAllStringSubmatch(args, -1) {
		out = append(out, c35Unhex(m[1]))
	}
	return out
}

type c35Canon struct {
	env       c35Env
	base      string
	sym       map[string]string // absolute temp path → P1 P2 X
	fds       map[string]int    // real fd → symbolic number
	nextFd    int
	ops       []string
	killedIn  string   // canonical rendering of the call the tracee died in, if it belongs to the script
	other     []string // unexpected calls touching the watched names
	targetOps []string // every call on the target's name (or on a descriptor opened on it for writing)
	failStage string   // which temporary-file creation failed: probetmp probedir temp
	cfg       string
}

func (k *c35Canon) abs(p string) string {
	if !filepath.IsAbs(p) {
		p = filepath.Join(k.env.dir, p)
	}
	return filepath.Clean(p)
}

var c35DigitsRe = regexp.MustCompile(`^[0-9]+$`)

// classify returns T, P1, P2, X or "" for paths that are not watched.
func (k *c35Canon) classify(p string, creating bool) string {
	a := k.abs(p)
	if a == k.env.target {
		return "T"
	}
	if s, ok := k.sym[a]; ok {
		return s
	}
	dir, b := filepath.Dir(a), filepath.Base(a)
	if !strings.HasPrefix(b, "."+k.base) || !c35DigitsRe.MatchString(strings.TrimPrefix(b, "."+k.base)) {
		return ""
	}
	if dir != k.env.dir && dir != filepath.Clean(k.env.tmpdir) {
		return ""
	}
	if !creating {
		return "?" + b
	}
	has := func(s string) bool {
		for _, v := range k.sym {
			if v == s {
				return true
			}
		}
		return false
	}
	s := "X"
	switch {
	case dir == filepath.Clean(k.env.tmpdir) && dir != k.env.dir && !has("P1") && !has("X"):
		s = "P1"
	case dir == k.env.dir && has("P1") && !has("P2") && !has("X"):
		s = "P2"
	}
	k.sym[a] = s
	return s
}

var c35ModeRe = regexp.MustCompile(`, (0[0-7]*)$`)

// c35Canonicalise keeps the calls on the target, the temp names and their descriptors.
func c35Canonicalise(env c35Env, cs c35Case, calls []c35Call) *c35Canon {
	k := &c35Canon{env: env, base: cs.name, sym: map[string]string{}, fds: map[string]int{}, cfg: cs.cfg}
	readFd := ""   // descriptor of the read-only open of the target (left out)
	targetFd := "" // descriptor of an open of the target that can write (never expected)
	hasSym := func(s string) bool {
		for _, v := range k.sym {
			if v == s {
				return true
			}
		}
		return false
	}
	defer func() {
		for _, op := range k.ops {
			if op == "lstat:T" || strings.HasSuffix(op, ":T") || strings.HasPrefix(op, "rename:T:") || strings.HasPrefix(op, "renamexdev:T:") {
				k.targetOps = append(k.targetOps, op)
			}
		}
	}()
	for _, cl := range calls {
		died := cl.ret == "?"
		ok := died || (!strings.HasPrefix(cl.ret, "-1"))
		op := ""
		strs := c35Strings(cl.args)
		switch cl.name {
		case "newfstatat", "lstat", "stat":
			if len(strs) < 1 {
				continue
			}
			s := k.classify(strs[0], false)
			if s == "" {
				continue
			}
			if cl.name == "stat" || (cl.name == "newfstatat" && !strings.Contains(cl.args, "AT_SYMLINK_NOFOLLOW")) {
				continue // stat through the link: only made for an explicit symlink argument
			}
			if !ok {
				continue
			}
			op = "lstat:" + s
		case "openat":
			if len(strs) < 1 {
				continue
			}
			excl := strings.Contains(cl.args, "O_CREAT") && strings.Contains(cl.args, "O_EXCL")
			if excl && !ok && k.failStage == "" && !strings.Contains(cl.ret, "EEXIST") {
				// a temporary file could not be created: where did the atomic path give up?
				a := k.abs(strs[0])
				dir, b := filepath.Dir(a), filepath.Base(a)
				inTmp := dir == filepath.Clean(k.env.tmpdir) && dir != k.env.dir
				switch {
				case !strings.HasPrefix(b, "."+k.base):
				case inTmp && k.cfg == "notmp" && strings.Contains(cl.ret, "ENOENT"):
					// the configuration itself: $TMPDIR does not exist
				case inTmp && !hasSym("P1"):
					k.failStage = "probetmp"
				case dir == k.env.dir && hasSym("P1") && !hasSym("P2") && !hasSym("X"):
					k.failStage = "probedir"
				default:
					k.failStage = "temp"
				}
			}
			s := k.classify(strs[0], excl && ok)
			if s == "" {
				continue
			}
			if !ok {
				continue
			}
			if !excl {
				if strings.Contains(cl.args, "O_WRONLY") || strings.Contains(cl.args, "O_RDWR") || strings.Contains(cl.args, "O_TRUNC") || strings.Contains(cl.args, "O_CREAT") {
					k.other = append(k.other, cl.name+"("+s+" "+c35Flags(cl.args)+")")
					if s == "T" {
						k.targetOps = append(k.targetOps, "openw:T:"+strings.ReplaceAll(c35Flags(cl.args), " ", ""))
						if !died {
							targetFd = cl.ret
						}
					}
				} else if !died {
					readFd = cl.ret // read-only open (the file itself, or the directory being walked)
				}
				continue
			}
			mode := "?"
			if m := c35ModeRe.FindStringSubmatch(cl.args); m != nil {
				mode = strings.TrimLeft(m[1], "0")
				if mode == "" {
					mode = "0"
				}
			}
			op = "openx:" + s + ":" + mode
			if !died {
				k.fds[cl.ret] = k.nextFd
				k.nextFd++
			}
		case "fstat", "fsync", "fdatasync", "close", "fchmod", "write", "pwrite64", "writev", "ftruncate":
			fd := cl.args
			if i := strings.IndexByte(fd, ','); i >= 0 {
				fd = fd[:i]
			}
			fd = strings.TrimSpace(fd)
			if fd == readFd && readFd != "" {
				if cl.name == "close" {
					readFd = ""
				}
				continue
			}
			if fd == targetFd && targetFd != "" {
				switch cl.name {
				case "close":
					targetFd = ""
				case "fstat", "fsync", "fdatasync":
				default:
					k.targetOps = append(k.targetOps, cl.name+"-in-place:T")
					k.other = append(k.other, cl.name+" on a descriptor of the target itself")
				}
				continue
			}
			n, tracked := k.fds[fd]
			if !tracked {
				continue
			}
			if !ok {
				k.other = append(k.other, cl.name+" failed: "+cl.ret)
				continue
			}
			switch cl.name {
			case "fstat", "fsync", "close":
				op = fmt.Sprintf("%s:%d", cl.name, n)
				if cl.name == "close" && !died {
					delete(k.fds, fd)
				}
			case "fchmod":
				mode := "?"
				if m := c35ModeRe.FindStringSubmatch(cl.args); m != nil {
					mode = strings.TrimLeft(m[1], "0")
				}
				op = fmt.Sprintf("fchmod:%d:%s", n, mode)
			case "write":
				data := ""
				if len(strs) > 0 {
					data = strs[0]
				}
				if !died && cl.ret != strconv.Itoa(len(data)) {
					k.other = append(k.other, "short write: "+cl.ret)
				}
				op = fmt.Sprintf("write:%d:%s", n, hx(data))
			default:
				k.other = append(k.other, cl.name+" on the pending file")
				continue
			}
		case "renameat", "renameat2", "rename":
			if len(strs) < 2 {
				continue
			}
			a, b := k.classify(strs[0], false), k.classify(strs[1], false)
			if a == "" && b == "" {
				continue
			}
			switch {
			case ok:
				op = "rename:" + a + ":" + b
			case strings.Contains(cl.ret, "EXDEV"):
				op = "renamexdev:" + a + ":" + b
			default:
				k.other = append(k.other, "rename failed: "+cl.ret)
				continue
			}
		case "unlinkat", "unlink":
			if len(strs) < 1 {
				continue
			}
			s := k.classify(strs[0], false)
			if s == "" {
				continue
			}
			if !ok {
				continue
			}
			op = "unlink:" + s
		case "chmod", "fchmodat", "truncate", "linkat", "symlinkat":
			for _, s := range strs {
				if c := k.classify(s, false); c != "" {
					k.other = append(k.other, cl.name+"("+c+")")
					if c == "T" {
						k.targetOps = append(k.targetOps, cl.name+":T")
					}
				}
			}
			continue
		default:
			continue
		}
		if op == "" {
			continue
		}
		if died {
			k.killedIn = op
			continue
		}
		k.ops = append(k.ops, op)
	}
	return k
}

func c35Flags(args string) string {
	p := strings.Split(args, ", ")
	if len(p) >= 3 {
		return p[2]
	}
	return ""
}

// ---------------------------------------------------------------------------------------------
// observation after a run

type c35Obs struct {
	content     string
	mode        os.FileMode
	kind        string
	names       []string          // every name in the target's directory and in $TMPDIR, as dir-tag/name
	temps       map[string]string // dir-tag/name → hex bytes ":" octal mode, for regular files other than the target
	ino         uint64            // inode number of the target
	linkOK      bool              // the hard link to the original inode still exists …
	linkContent string            // … and holds these bytes
	linkIno     uint64
}

func c35Observe(env c35Env) c35Obs {
	var o c35Obs
	if fi, err := os.Lstat(env.target); err != nil {
		o.kind = "missing"
	} else {
		o.mode = fi.Mode().Perm()
		if st, ok := fi.Sys().(*syscall.Stat_t); ok {
			o.ino = st.Ino
		}
		switch {
		case fi.Mode().IsRegular():
			o.kind = "reg"
			b, _ := os.ReadFile(env.target)
			o.content = string(b)
		case fi.Mode()&os.ModeSymlink != 0:
			o.kind = "symlink"
			t, _ := os.Readlink(env.target)
			o.content = t
		case fi.Mode()&os.ModeNamedPipe != 0:
			o.kind = "fifo"
		case fi.IsDir():
			o.kind = "dir"
		default:
			o.kind = "other"
		}
	}
	for _, d := range []struct{ tag, dir string }{{"d", env.dir}, {"tmp", env.tmpdir}} {
		des, _ := os.ReadDir(d.dir)
		for _, de := range des {
			o.names = append(o.names, d.tag+"/"+de.Name())
			p := filepath.Join(d.dir, de.Name())
			if fi, err := os.Lstat(p); err == nil && fi.Mode().IsRegular() && p != env.target {
				b, _ := os.ReadFile(p)
				if o.temps == nil {
					o.temps = map[string]string{}
				}
				o.temps[d.tag+"/"+de.Name()] = fmt.Sprintf("%s:%o", hx(string(b)), fi.Mode().Perm())
			}
		}
	}
	sort.Strings(o.names)
	if env.link != "" {
		if fi, err := os.Lstat(env.link); err == nil {
			b, _ := os.ReadFile(env.link)
			o.linkOK, o.linkContent = true, string(b)
			if st, ok := fi.Sys().(*syscall.Stat_t); ok {
				o.linkIno = st.Ino
			}
		}
	}
	return o
}

// ---------------------------------------------------------------------------------------------

type c35Line struct{ op, impl string }
type c35Result struct {
	ops     []c35Line
	fails   []Failure
	tags    []string
	covered map[string]bool // script positions at which a kill was delivered
	runs    int
	skipped string
	nontriv bool
	key     string
}

func c35KindWord(k string) string { return k }

// c35Formatted asks the binary itself for the formatted bytes (stdout mode).
func c35Formatted(c *Ctx, cs c35Case) (string, bool) {
	cmd := exec.Command(c35Bin, "--filename", cs.name)
	cmd.Dir = filepath.Join(c35WorkDir(c), "c35")
	cmd.Env = []string{"PATH=/usr/bin:/bin", "HOME=" + c35WorkDir(c)}
	cmd.Stdin = strings.NewReader(cs.old)
	out, err := cmd.Output()
	return string(out), err == nil
}

func c35RunCase(c *Ctx, cs c35Case) (res c35Result) {
	res.key = cs.witness()
	res.covered = map[string]bool{}
	wit := res.key
	fail := func(what string) { res.fails = append(res.fails, Failure{Witness: wit, What: what}) }
	newBytes, ok := c35Formatted(c, cs)
	if !ok {
		res.skipped = "source does not parse"
		return
	}
	perm := fmt.Sprintf("%o", cs.perm)
	umask := fmt.Sprintf("%o", cs.umask)
	kindWord := cs.kind

	// ---- reference run: the undisturbed script
	env, err := c35Setup(c, cs)
	if err != nil {
		res.skipped = "setup: " + err.Error()
		env.cleanup()
		return
	}
	before := c35Observe(env)
	ref := c35Strace(c, env, cs, "", 0)
	res.runs++
	if ref.timedOut {
		res.skipped = "timeout"
		env.cleanup()
		return
	}
	after := c35Observe(env)
	calls := c35ParseTrace(ref.trace)
	canon := c35Canonicalise(env, cs, calls)
	env.cleanup()
	if len(canon.other) > 0 {
		fail("unexpected calls on the target or its temporary files: " + strings.Join(canon.other, "; "))
	}
	scriptImpl := strings.Join(canon.ops, ";")
	// did the atomic path fail (a temporary file could not be created)?  Then shfmt must report the error
	// and leave the file alone: same inode, same bytes.
	failing := cs.kind == "reg" && newBytes != cs.old && canon.failStage != ""
	// the alphabet of calls on the target's name, checked by Lean (spec op) and here
	res.ops = append(res.ops, c35Line{"spectarget " + c35TargetOps(canon.targetOps), "ok"})
	for _, op := range canon.targetOps {
		if op != "lstat:T" && op != "rename:X:T" {
			fail("call on the target itself that is not part of an atomic replace: " + op)
			break
		}
	}
	if failing {
		res.tags = append(res.tags, "atomic-path-fails:"+canon.failStage)
		res.ops = append(res.ops, c35Line{fmt.Sprintf("failscript %s %s", cs.cfg, canon.failStage), scriptImpl})
		if ref.status == 0 {
			fail("the atomic replace failed (" + canon.failStage + ") but shfmt -w exited 0: " + firstLine35(ref.stderr))
		}
	} else if cs.kind != "reg" || newBytes != cs.old {
		res.ops = append(res.ops, c35Line{fmt.Sprintf("script %s %s %s %s %s", cs.cfg, kindWord, perm, umask, hx(newBytes)), scriptImpl})
	} else {
		// already formatted: nothing may be touched
		if scriptImpl != "lstat:T" {
			fail("already formatted file, yet the run made these calls: " + scriptImpl)
		}
	}
	// completed run: final state
	if failing {
		if after.kind != "reg" || after.content != cs.old || after.mode != cs.perm || after.ino != before.ino {
			fail(fmt.Sprintf("failed atomic replace (%s), yet the target changed: %s mode %o inode %d→%d, %d bytes (were %d): %q", canon.failStage, after.kind, after.mode, before.ino, after.ino, len(after.content), len(cs.old), c35Head(after.content)))
		}
	} else if cs.kind == "reg" {
		if after.kind != "reg" || after.content != newBytes || after.mode != cs.perm {
			fail(fmt.Sprintf("completed run: target is %s mode %o with %d bytes; expected the formatted %d bytes with mode %o", after.kind, after.mode, len(after.content), len(newBytes), cs.perm))
		}
		if newBytes != cs.old && after.ino == before.ino {
			fail(fmt.Sprintf("the file was rewritten in place (same inode %d): not an atomic replace", after.ino))
		}
	} else if after.kind != before.kind || after.content != before.content || after.mode != before.mode {
		fail(fmt.Sprintf("%s target was changed by shfmt -w (now %s mode %o)", cs.kind, after.kind, after.mode))
	}
	// hard-link witness: the original inode is never modified
	if cs.kind == "reg" && (!after.linkOK || after.linkContent != cs.old || after.linkIno != before.ino) {
		fail(fmt.Sprintf("the original inode was modified: a hard link to it now holds %d bytes (%q…), were %d", len(after.linkContent), c35Head(after.linkContent), len(cs.old)))
	}
	if strings.Join(after.names, " ") != strings.Join(before.names, " ") {
		fail(fmt.Sprintf("completed run changed the directory listing: before %v, after %v", before.names, after.names))
	}
	if cs.kind != "reg" {
		res.tags = append(res.tags, "nonregular:"+cs.kind)
		res.nontriv = true
		return
	}
	if newBytes == cs.old {
		res.tags = append(res.tags, "already-formatted")
		return
	}
	res.nontriv = true

	// ---- crash points: for every traced system call X and every k up to the number of X calls in the
	// reference run, kill on entering the k-th X (strace counts per thread; the script position actually
	// hit is read back from the trace and recorded as coverage)
	counts := map[string]int{}
	for _, cl := range calls {
		counts[cl.name]++
	}
	var injects []string
	names := make([]string, 0, len(counts))
	for n := range counts {
		names = append(names, n)
	}
	sort.Strings(names)
	for _, n := range names {
		for k := 1; k <= counts[n]; k++ {
			injects = append(injects, fmt.Sprintf("%s:signal=KILL:when=%d", n, k))
		}
	}
	if cs.sample && len(injects) > 14 {
		// keep the calls of the write path (everything but the many openat/close/newfstatat of start-up)
		r := (&Rand{s: uint64(len(cs.old))*7919 + uint64(cs.perm)}).Fork(cs.witness())
		var keep []string
		for _, in := range injects {
			if !strings.HasPrefix(in, "openat:") && !strings.HasPrefix(in, "close:") && !strings.HasPrefix(in, "newfstatat:") || r.Chance(25) {
				keep = append(keep, in)
			}
		}
		injects = keep
	}
	scriptLen := len(canon.ops)
	tried := 0
	for round := 0; round < 3; round++ {
		if round > 0 {
			// per-thread counting (and goroutines moving between threads) can leave script positions
			// without a kill: try again the system calls of the positions still missing
			if cs.sample {
				break
			}
			missing := map[string]bool{}
			for pos, op := range canon.ops {
				if !res.covered[fmt.Sprintf("%d", pos)] {
					missing[c35SyscallOf(op)] = true
				}
			}
			if len(missing) == 0 {
				break
			}
			var again []string
			for _, in := range injects {
				if missing[in[:strings.IndexByte(in, ':')]] {
					again = append(again, in)
				}
			}
			injects = again
			res.tags = append(res.tags, fmt.Sprintf("coverage-retry-round-%d", round))
		}
		for _, inj := range injects {
			tried++
			i := tried
			env, err := c35Setup(c, cs)
			if err != nil {
				env.cleanup()
				continue
			}
			rr := c35Strace(c, env, cs, inj, i+1)
			res.runs++
			if rr.timedOut {
				env.cleanup()
				res.tags = append(res.tags, "kill-run-timeout")
				continue
			}
			obs := c35Observe(env)
			kc := c35Canonicalise(env, cs, c35ParseTrace(rr.trace))
			env.cleanup()
			pos := len(kc.ops)
			// the property, on the observed state
			what := ""
			switch {
			case obs.kind != "reg":
				what = "target is no longer a regular file: " + obs.kind
			case obs.content != cs.old && obs.content != newBytes:
				what = fmt.Sprintf("target holds %d bytes that are neither the original nor the formatted bytes (%q…)", len(obs.content), c35Head(obs.content))
			case obs.mode != cs.perm:
				what = fmt.Sprintf("target's permission bits are %o, were %o", obs.mode, cs.perm)
			}
			var leftovers []string
			for _, n := range obs.names {
				b := n[strings.IndexByte(n, '/')+1:]
				if n == "d/"+cs.name {
					continue
				}
				if strings.HasPrefix(b, "."+cs.name) && c35DigitsRe.MatchString(strings.TrimPrefix(b, "."+cs.name)) {
					leftovers = append(leftovers, n)
					continue
				}
				what = "unexpected name after the run: " + n
			}
			if what == "" && (!obs.linkOK || obs.linkContent != cs.old) {
				what = fmt.Sprintf("the original inode was modified: a hard link to it now holds %d bytes (%q…)", len(obs.linkContent), c35Head(obs.linkContent))
			}
			for _, op := range kc.targetOps {
				if op != "lstat:T" && op != "rename:X:T" && what == "" {
					what = "call on the target itself that is not part of an atomic replace: " + op
				}
			}
			if !rr.killed {
				// the injection did not fire (no thread made k such calls): this is a completed run
				if kc.failStage != "" {
					if obs.content != cs.old && what == "" {
						what = "failed atomic replace (" + kc.failStage + "), yet the target changed"
					}
				} else if obs.content != newBytes && what == "" {
					what = "completed run left the original bytes"
				}
				if len(leftovers) > 0 {
					what = fmt.Sprintf("completed run left temporary files behind: %v", leftovers)
				}
				res.covered["completed"] = true
			}
			if what != "" {
				fail(fmt.Sprintf("kill on entering %s (after %d calls of the script, dying in %q): %s", inj, pos, kc.killedIn, what))
			}
			res.ops = append(res.ops, c35Line{fmt.Sprintf("speckill %s %s %s %s %o %s", perm, c35Digest(cs.old), c35Digest(newBytes), c35Digest(obs.content), obs.mode, obs.kind), "ok"})
			if !rr.killed {
				continue
			}
			if len(leftovers) > 0 {
				res.tags = append(res.tags, "leftover-after-kill")
			}
			// the killed prefix must be a prefix of the model's script for the path this run took (Lean decides)
			stage := kc.failStage
			if stage == "" {
				stage = "ok"
			}
			obsOps := make([]string, len(kc.ops))
			for j, op := range kc.ops {
				if strings.HasPrefix(op, "write:") && strings.HasSuffix(op, ":"+hx(newBytes)) {
					op = strings.TrimSuffix(op, hx(newBytes)) + hx("new")
				}
				obsOps[j] = op
			}
			res.ops = append(res.ops, c35Line{fmt.Sprintf("isprefix %s %s %s %s %s %s", cs.cfg, stage, perm, umask, hx("new"), c35TargetOps(obsOps)), "prefix"})
			if kc.failStage != "" || pos > scriptLen || strings.Join(kc.ops, ";") != strings.Join(canon.ops[:pos], ";") {
				// a different path than the reference run (the random suffix decides for names near the limit)
				res.tags = append(res.tags, "kill-on-other-path")
				continue
			}
			res.covered[fmt.Sprintf("%d", pos)] = true
			if failing {
				continue // states of a failing script: checked above (old bytes, original inode)
			}
			// state line
			tgt := hx(obs.content)
			if obs.content == cs.old {
				tgt = "old"
			} else if obs.content == newBytes {
				tgt = "new"
			}
			symNames := []string{"T"}
			tempState := "-"
			for _, n := range leftovers {
				abs := filepath.Join(env.dir, strings.TrimPrefix(n, "d/"))
				if strings.HasPrefix(n, "tmp/") {
					abs = filepath.Join(env.tmpdir, strings.TrimPrefix(n, "tmp/"))
				}
				sym := kc.sym[filepath.Clean(abs)]
				symNames = append(symNames, sym)
				if sym == "X" {
					tempState = obs.temps[n]
					switch {
					case strings.HasPrefix(tempState, hx(newBytes)+":"):
						tempState = "new" + tempState[len(hx(newBytes)):]
					case strings.HasPrefix(tempState, "-:"):
						tempState = "empty" + tempState[1:]
					}
				}
			}
			sort.Slice(symNames, func(i, j int) bool { return c35Rank(symNames[i]) < c35Rank(symNames[j]) })
			// the state is parametric in the bytes: short stand-ins keep the lines small
			res.ops = append(res.ops, c35Line{
				fmt.Sprintf("prefix %s %s %s %s %s %d", cs.cfg, perm, umask, hx("old"), hx("new"), pos),
				fmt.Sprintf("target=%s mode=%o names=%s temp=%s", tgt, obs.mode, strings.Join(symNames, ","), tempState)})
		}
	}
	return
}

// c35Digest: the bytes themselves when short, else their SHA-256 (equal digests = equal bytes).
func c35Digest(s string) string {
	if len(s) <= 1024 {
		return hx(s)
	}
	h := sha256.Sum256([]byte(s))
	return hx("sha256:" + string(h[:]))
}

// c35SyscallOf maps a canonical op back to the system call strace sees.
func c35SyscallOf(op string) string {
	switch op[:strings.IndexByte(op, ':')] {
	case "lstat":
		return "newfstatat"
	case "openx":
		return "openat"
	case "rename", "renamexdev":
		return "renameat"
	case "unlink":
		return "unlinkat"
	}
	return op[:strings.IndexByte(op, ':')]
}

func c35TargetOps(ops []string) string {
	if len(ops) == 0 {
		return "-"
	}
	return strings.Join(ops, " ")
}

func firstLine35(s string) string {
	if i := strings.IndexByte(s, '\n'); i >= 0 {
		s = s[:i]
	}
	if len(s) > 200 {
		s = s[:100] + "…" + s[len(s)-80:]
	}
	return s
}

func c35Rank(s string) int {
	switch s {
	case "T":
		return 0
	case "P1":
		return 1
	case "P2":
		return 2
	case "X":
		return 3
	}
	return 4
}

func c35Head(s string) string {
	if len(s) > 40 {
		return s[:40]
	}
	return s
}

// sources whose formatted output differs, of roughly the requested size
func c35Source(r *Rand, size int) string {
	if size == 0 {
		return r.Pick([]string{"\n", " ", "\n\n", "\t\n"})
	}
	var sb strings.Builder
	if r.Chance(40) {
		sb.WriteString(r.Pick([]string{"#!/bin/sh\n", "#!/bin/bash\n", "#!/usr/bin/env bash\n"}))
	}
	lines := []string{"echo   hi %d\n", "if true;then\n echo x%d\nfi\n", "foo%d(){ bar; }\n", "a%d &&\n b\n", "echo foo > bar%d\n", "x=%d;y=2\n", "# comment %d\n", "cat <<EOF\n  body %d\nEOF\n"}
	i := 0
	for sb.Len() < size {
		sb.WriteString(fmt.Sprintf(lines[r.Intn(len(lines))], i))
		i++
	}
	s := sb.String()
	if r.Chance(15) {
		s = strings.TrimSuffix(s, "\n")
	}
	return s
}

func c35GenCase(r *Rand, i int, xdev, imm, thorough bool) c35Case {
	perms := []os.FileMode{0o644, 0o755, 0o600, 0o444, 0o640, 0o666, 0o777, 0o400, 0o664, 0o700}
	umasks := []int{0o022, 0o077, 0o000, 0o027, 0o002}
	sizes := []int{0, 1, 10, 100, 1000, 4095, 4096, 4097, 8192, 32768, 65536}
	cs := c35Case{name: r.Pick([]string{"a.sh", "script.bash", "x", "long-name.with.dots.sh"}), kind: "reg"}
	cs.perm = perms[r.Intn(len(perms))]
	if r.Chance(40) {
		cs.perm = perms[r.Intn(2)]
	}
	cs.umask = umasks[r.Intn(len(umasks))]
	if r.Chance(40) {
		cs.umask = 0o022
	}
	cfgs := []string{"same", "same", "notmp"}
	if xdev {
		cfgs = append(cfgs, "xdev")
	}
	cs.cfg = cfgs[r.Intn(len(cfgs))]
	size := sizes[r.Intn(len(sizes))]
	if r.Chance(30) {
		size = r.Intn(65536)
	}
	cs.old = c35Source(r, size)
	if cs.name == "x" && !strings.HasPrefix(cs.old, "#!") {
		cs.name = "a.sh"
	}
	switch k := r.Intn(20); {
	case k == 0:
		cs.kind = "symlink"
	case k == 1:
		cs.kind = "fifo"
		cs.name = "pipe.sh"
	case k == 2:
		cs.kind = "dir"
		cs.name = "d.sh"
	case k == 3:
		cs.old = "echo already formatted\n"
	}
	// quick: every boundary for the first few files, a sample for the rest; thorough: every boundary
	cs.sample = !thorough && i >= 2
	// targets on which the atomic path FAILS: base names of 230..255 bytes (every length around the limit
	// of the 10-digit probe suffix and the 19-digit pending-file suffix), immutable directories
	switch {
	case cs.kind == "reg" && (i%6 == 2 || i%6 == 5 || r.Chance(10)):
		l := 230 + (i/3+r.Intn(26))%26
		cs.name = strings.Repeat("n", l-3) + ".sh"
		cs.sample = false
		if len(cs.old) > 2000 {
			cs.old = c35Source(r, 100)
		}
	case cs.kind == "reg" && imm && (i%6 == 4 || r.Chance(5)):
		cs.imm = true
		cs.sample = false
		if len(cs.old) > 2000 {
			cs.old = c35Source(r, 100)
		}
	}
	return cs
}

func c35(c *Ctx) {
	c.Rule = "a case is non-trivial when shfmt -w has to replace the file (formatted bytes differ) or the target is not a regular file; " +
		"sizes 0..64 KiB (page-size edges), 10 modes, 5 umasks, three temp-dir configurations (TMPDIR on the same file system, " +
		"TMPDIR missing, TMPDIR on another file system = /dev/shm), symlink/FIFO/directory targets; for each file a kill on entering " +
		"the k-th call of every traced system call"
	if msg := c35Build(c); msg != "" {
		fmt.Println(msg)
		os.Exit(3)
	}
	if _, err := exec.LookPath("strace"); err != nil {
		fmt.Println("strace not found")
		os.Exit(3)
	}
	xdev := c35XdevUsable(c)
	imm := c35ImmUsable(c)
	var cases []c35Case
	if c.Shard == 0 {
		for _, line := range c.CorpusLines() {
			if cs, ok := c35ParseCase(line); ok {
				if (cs.cfg == "xdev" && !xdev) || (cs.imm && !imm) {
					continue
				}
				cases = append(cases, cs)
			}
		}
	}
	for i := 0; i < c.N; i++ {
		cases = append(cases, c35GenCase(c.R.Fork(fmt.Sprintf("case%d", i)), i, xdev, imm, c.Thorough()))
	}
	results := parallelMap(len(cases), 4, func(i int) c35Result {
		var res c35Result
		if p := safely(func() { res = c35RunCase(c, cases[i]) }); p != "" {
			res.skipped = "harness-panic: " + p
		}
		return res
	})
	runs := 0
	coverage := map[string]map[string]bool{} // cfg → positions
	for i, res := range results {
		runs += res.runs
		cs := cases[i]
		if strings.HasPrefix(res.skipped, "harness-panic") {
			panic(res.skipped)
		}
		if res.skipped != "" {
			c.Case(res.key, false, "skipped:"+res.skipped)
			continue
		}
		for _, o := range res.ops {
			c.Op(o.op, o.impl)
		}
		for _, f := range res.fails {
			c.Fail(f.Witness, f.What)
		}
		if len(cs.name) >= 200 {
			res.tags = append(res.tags, fmt.Sprintf("namelen:%d", len(cs.name)))
		}
		if cs.imm {
			res.tags = append(res.tags, "immutable-dir")
		}
		tags := append(res.tags, "cfg:"+cs.cfg, fmt.Sprintf("perm:%o", cs.perm), fmt.Sprintf("umask:%o", cs.umask), c35SizeTag(len(cs.old)))
		c.Case(res.key, res.nontriv, dedupStrings(tags)...)
		if cs.kind == "reg" && res.nontriv {
			key := cs.cfg
			if coverage[key] == nil {
				coverage[key] = map[string]bool{}
			}
			for p := range res.covered {
				coverage[key][p] = true
			}
		}
	}
	c.Extra["strace_runs"] = runs
	for cfg, m := range coverage {
		var ps []int
		for p := range m {
			if n, err := strconv.Atoi(p); err == nil {
				ps = append(ps, n)
			}
		}
		sort.Ints(ps)
		c.Extra["kill_positions_"+cfg] = joinInts(ps)
	}
	if !imm {
		c.Extra["immutable"] = "skipped: chattr +i is not usable here"
	}
	if !xdev {
		c.Extra["xdev"] = "skipped: /dev/shm is not a separate writable file system"
	}
}

func c35SizeTag(n int) string {
	for _, b := range []int{1, 64, 1024, 4096, 16384, 65536} {
		if n <= b {
			return fmt.Sprintf("size<=%d", b)
		}
	}
	return "size>65536"
}

func dedupStrings(ss []string) []string {
	seen := map[string]bool{}
	var out []string
	for _, s := range ss {
		if !seen[s] {
			seen[s] = true
			out = append(out, s)
		}
	}
	return out
}
