//go:build c04 || all

package main

import (
	"bytes"
	"fmt"
	"os"
	"reflect"
	"runtime"
	"sort"
	"strings"

	"mvdan.cc/sh/v3/expand"
	"mvdan.cc/sh/v3/syntax"
)

// C04 — Simplify preserves behaviour.
//
// Streams (model ops):
//
//	simp <sexpr>          real syntax.Simplify on a parsed program: returned bool + positions-erased
//	                      dump of the tree afterwards = Lean model `simplify` on the dump before.
//	dqw <dollar> <hex>    Simplify on a hand-built Word{DblQuoted{Lit}} (the escape scanner alone).
//
// Spec op:
//
//	specword <dollar> <hex>  value (expand.Literal) of the word after Simplify = Lean `dqValue` of the
//	                      original double-quoted literal: the property itself for literals.
//
// Search leg (independent of Lean), per program:
//
//	reports-change        returned bool <=> an independent reflective dump of the tree changed
//	reparse               Parse(Print(Simplify t)) = Simplify t modulo positions (when t itself round-trips)
//	behaviour             stdout+status of Print(t) vs Print(Simplify t) under interp and under bash
func init() { register("C04", c04) }

// ---------------------------------------------------------------------------------------------
// Dump for the Lean model.

type c04N struct {
	Ty    string
	Attrs []uint64
	Val   string
	Kids  []*c04N
}

var c04Nil = &c04N{Ty: "nil"}

func c04B(b bool) uint64 {
	if b {
		return 1
	}
	return 0
}

func c04List(ns []*c04N) *c04N { return &c04N{Ty: "L", Kids: ns} }

// canonical test operator codes (ShVerif.C04.tsNot …), chosen from the symbolic constants.
func c04UnTestOp(op syntax.UnTestOperator) uint64 {
	switch op {
	case syntax.TsNot:
		return 1
	case syntax.TsEmpStr:
		return 2
	case syntax.TsNempStr:
		return 3
	}
	return 100 + uint64(op)
}

func c04BinTestOp(op syntax.BinTestOperator) uint64 {
	switch op {
	case syntax.TsMatch:
		return 4
	case syntax.TsNoMatch:
		return 5
	case syntax.TsMatchShort:
		return 6
	case syntax.TsReMatch:
		return 7
	case syntax.AndTest:
		return 8
	case syntax.OrTest:
		return 9
	}
	return 100 + uint64(op)
}

var c04CommentType = reflect.TypeOf(syntax.Comment{})

func c04IsNilNode(n syntax.Node) bool {
	if n == nil {
		return true
	}
	v := reflect.ValueOf(n)
	return v.Kind() == reflect.Pointer && v.IsNil()
}

func c04D(n syntax.Node) *c04N {
	if c04IsNilNode(n) {
		return c04Nil
	}
	switch n := n.(type) {
	case *syntax.Word:
		return &c04N{Ty: "Word", Kids: c04Parts(n.Parts)}
	case *syntax.Lit:
		return &c04N{Ty: "Lit", Val: n.Value}
	case *syntax.SglQuoted:
		return &c04N{Ty: "SglQuoted", Attrs: []uint64{c04B(n.Dollar)}, Val: n.Value}
	case *syntax.DblQuoted:
		return &c04N{Ty: "DblQuoted", Attrs: []uint64{c04B(n.Dollar)}, Kids: c04Parts(n.Parts)}
	case *syntax.ParamExp:
		a := []uint64{c04B(n.Short), c04B(n.Excl), c04B(n.Length), c04B(n.Width), c04B(n.IsSet),
			uint64(n.Split), uint64(n.GlobSubst), uint64(n.RcExpand), uint64(n.Names),
			c04B(n.Slice != nil), c04B(n.Repl != nil), 0, c04B(n.Exp != nil), 0, c04B(n.Dollar.IsValid())}
		var mods []*c04N
		for _, m := range n.Modifiers {
			mods = append(mods, c04D(m))
		}
		off, ln, orig, with, expw := c04Nil, c04Nil, c04Nil, c04Nil, c04Nil
		if n.Slice != nil {
			off, ln = c04D(n.Slice.Offset), c04D(n.Slice.Length)
		}
		if n.Repl != nil {
			a[11] = c04B(n.Repl.All)
			orig, with = c04D(n.Repl.Orig), c04D(n.Repl.With)
		}
		if n.Exp != nil {
			a[13] = uint64(n.Exp.Op)
			expw = c04D(n.Exp.Word)
		}
		return &c04N{Ty: "ParamExp", Attrs: a, Kids: []*c04N{c04D(n.Flags), c04D(n.Param), c04D(n.NestedParam),
			c04D(n.Index), c04List(mods), off, ln, orig, with, expw}}
	case *syntax.ArithmExp:
		return &c04N{Ty: "ArithmExp", Attrs: []uint64{c04B(n.Bracket), c04B(n.Unsigned)}, Kids: []*c04N{c04D(n.X)}}
	case *syntax.ArithmCmd:
		return &c04N{Ty: "ArithmCmd", Attrs: []uint64{c04B(n.Unsigned)}, Kids: []*c04N{c04D(n.X)}}
	case *syntax.ParenArithm:
		return &c04N{Ty: "ParenArithm", Kids: []*c04N{c04D(n.X)}}
	case *syntax.BinaryArithm:
		return &c04N{Ty: "BinaryArithm", Attrs: []uint64{uint64(n.Op)}, Kids: []*c04N{c04D(n.X), c04D(n.Y)}}
	case *syntax.UnaryArithm:
		return &c04N{Ty: "UnaryArithm", Attrs: []uint64{uint64(n.Op), c04B(n.Post)}, Kids: []*c04N{c04D(n.X)}}
	case *syntax.TestClause:
		return &c04N{Ty: "TestClause", Kids: []*c04N{c04D(n.X)}}
	case *syntax.ParenTest:
		return &c04N{Ty: "ParenTest", Kids: []*c04N{c04D(n.X)}}
	case *syntax.BinaryTest:
		return &c04N{Ty: "BinaryTest", Attrs: []uint64{c04BinTestOp(n.Op)}, Kids: []*c04N{c04D(n.X), c04D(n.Y)}}
	case *syntax.UnaryTest:
		return &c04N{Ty: "UnaryTest", Attrs: []uint64{c04UnTestOp(n.Op)}, Kids: []*c04N{c04D(n.X)}}
	case *syntax.Subshell:
		return &c04N{Ty: "Subshell", Kids: c04Stmts(n.Stmts)}
	case *syntax.CmdSubst:
		return &c04N{Ty: "CmdSubst", Attrs: []uint64{c04B(n.Backquotes), c04B(n.TempFile), c04B(n.ReplyVar)}, Kids: c04Stmts(n.Stmts)}
	case *syntax.Stmt:
		var rs []*c04N
		for _, r := range n.Redirs {
			rs = append(rs, c04D(r))
		}
		return &c04N{Ty: "Stmt", Attrs: []uint64{c04B(n.Negated), c04B(n.Background), c04B(n.Coprocess), c04B(n.Disown)},
			Kids: []*c04N{c04D(n.Cmd), c04List(rs)}}
	case *syntax.Assign:
		return &c04N{Ty: "Assign", Attrs: []uint64{c04B(n.Append), c04B(n.Naked)},
			Kids: []*c04N{c04D(n.Name), c04D(n.Value), c04D(n.Index), c04D(n.Array)}}
	case *syntax.Comment:
		return c04Nil
	}
	return c04Generic(n)
}

func c04Parts(ps []syntax.WordPart) []*c04N {
	var out []*c04N
	for _, p := range ps {
		out = append(out, c04D(p))
	}
	return out
}

func c04Stmts(ss []*syntax.Stmt) []*c04N {
	var out []*c04N
	for _, s := range ss {
		out = append(out, c04D(s))
	}
	return out
}

// c04Generic dumps any other node type by reflection: scalar fields (not positions) as an opaque
// fingerprint, every Node-typed field as a kid (comments skipped).
func c04Generic(n syntax.Node) *c04N {
	v := reflect.ValueOf(n)
	if v.Kind() == reflect.Pointer {
		v = v.Elem()
	}
	out := &c04N{Ty: v.Type().Name()}
	var fp strings.Builder
	var scal func(v reflect.Value, prefix string)
	scal = func(v reflect.Value, prefix string) {
		t := v.Type()
		for i := 0; i < t.NumField(); i++ {
			f := t.Field(i)
			if !f.IsExported() || f.Type == posType {
				continue
			}
			fv := v.Field(i)
			switch {
			case f.Type.Kind() == reflect.Slice:
				continue
			case isNodeType(f.Type):
				continue
			case f.Type.Kind() == reflect.Pointer && f.Type.Elem().Kind() == reflect.Struct:
				if fv.IsNil() {
					fmt.Fprintf(&fp, "%s%s=nil;", prefix, f.Name)
				} else {
					scal(fv.Elem(), prefix+f.Name+".")
				}
			default:
				fmt.Fprintf(&fp, "%s%s=%v;", prefix, f.Name, fv.Interface())
			}
		}
	}
	scal(v, "")
	out.Val = fp.String()
	for _, s := range slotsOfType(v.Type()) {
		fv, ok := fieldByPath(v, s.index)
		if !ok {
			out.Kids = append(out.Kids, c04Nil)
			continue
		}
		if s.IsList {
			if fv.Type().Elem() == c04CommentType {
				continue
			}
			var ks []*c04N
			for i := 0; i < fv.Len(); i++ {
				ev := fv.Index(i)
				if isNilNode(ev) {
					ks = append(ks, c04Nil)
					continue
				}
				ks = append(ks, c04D(asNode(ev)))
			}
			out.Kids = append(out.Kids, c04List(ks))
		} else {
			if isNilNode(fv) {
				out.Kids = append(out.Kids, c04Nil)
				continue
			}
			out.Kids = append(out.Kids, c04D(asNode(fv)))
		}
	}
	return out
}

func (n *c04N) render(sb *strings.Builder) {
	sb.WriteString("( ")
	sb.WriteString(n.Ty)
	sb.WriteByte(' ')
	if len(n.Attrs) == 0 {
		sb.WriteByte('-')
	} else {
		for i, a := range n.Attrs {
			if i > 0 {
				sb.WriteByte(',')
			}
			fmt.Fprintf(sb, "%d", a)
		}
	}
	sb.WriteByte(' ')
	sb.WriteString(hx(n.Val))
	for _, k := range n.Kids {
		sb.WriteByte(' ')
		k.render(sb)
	}
	sb.WriteString(" )")
}

func c04Render(n syntax.Node) string {
	var sb strings.Builder
	c04D(n).render(&sb)
	return sb.String()
}

// ---------------------------------------------------------------------------------------------
// Independent reflective dump (oracle for "changed" and for the re-parse comparison).

func c04Reflect(v reflect.Value, comments bool, sb *strings.Builder) {
	switch v.Kind() {
	case reflect.Interface, reflect.Pointer:
		if v.IsNil() {
			sb.WriteString("nil")
			return
		}
		c04Reflect(v.Elem(), comments, sb)
	case reflect.Slice:
		if !comments && v.Type().Elem() == c04CommentType {
			sb.WriteString("[]")
			return
		}
		sb.WriteByte('[')
		for i := 0; i < v.Len(); i++ {
			c04Reflect(v.Index(i), comments, sb)
			sb.WriteByte(',')
		}
		sb.WriteByte(']')
	case reflect.Struct:
		if v.Type() == posType {
			return
		}
		sb.WriteString(v.Type().Name())
		sb.WriteByte('{')
		for i := 0; i < v.NumField(); i++ {
			f := v.Type().Field(i)
			if !f.IsExported() || f.Type == posType {
				continue
			}
			if !comments && (f.Name == "Backquotes" || f.Name == "Bracket") {
				// the printer normalises `…` to $(…) and $[…] to $((…)): not part of the re-parse comparison
				continue
			}
			sb.WriteString(f.Name)
			sb.WriteByte(':')
			c04Reflect(v.Field(i), comments, sb)
			sb.WriteByte(';')
		}
		sb.WriteByte('}')
	case reflect.String:
		fmt.Fprintf(sb, "%q", v.String())
	default:
		fmt.Fprintf(sb, "%v", v.Interface())
	}
}

func c04Full(n syntax.Node, comments bool) string {
	var sb strings.Builder
	c04Reflect(reflect.ValueOf(n), comments, &sb)
	return sb.String()
}

// ---------------------------------------------------------------------------------------------
// Exclusions: regions of the input space where the unchanged tree is known to violate the
// property (known-findings.jsonl, ids C04-…).  They are decided on the *original* tree.

type c04Excl struct {
	dqInDqParam bool // C04-dq-in-quoted-param: rewritable "…" inside ${…} that is inside "…" or a here-document
	assoc       bool // C04-assoc-index: declare -A / typeset -A / local -A anywhere
	arithOrder  bool // C04-arith-expansion-order: inlined $x in an expression that also assigns x
	powDollar   bool // C04-bash-unevaluated-pow: an inlinable $x inside the exponent of **
	inlined     bool // some $x would be inlined (bash leg needs integer-valued variables)
	nondet      bool // not an exclusion of a finding: constructs whose output is not deterministic
	unsafe      bool // commands outside the whitelist: never executed
	subshellVar bool // BASH_SUBSHELL / BASHPID observe the nesting depth by design
}

func (e c04Excl) bashSkip() string {
	switch {
	case e.unsafe:
		return "unsafe"
	case e.nondet:
		return "nondet"
	case e.subshellVar:
		return "subshell-var"
	case e.dqInDqParam:
		return "excl-dq-in-quoted-param"
	case e.assoc:
		return "excl-assoc"
	case e.arithOrder:
		return "excl-arith-order"
	case e.powDollar:
		return "excl-pow-dollar"
	}
	return ""
}

var c04SafeCmds = map[string]bool{"echo": true, "printf": true, "true": true, "false": true, ":": true, "set": true,
	"test": true, "[": true, "shift": true, "return": true, "exit": true, "unset": true, "foo": true, "f": true, "g": true,
	"fn_1": true, "break": true, "continue": true, "eval": false, "cd": true, "export": true}

func c04LitHasBackslash(dq *syntax.DblQuoted) bool {
	if len(dq.Parts) != 1 {
		return false
	}
	l, ok := dq.Parts[0].(*syntax.Lit)
	return ok && strings.Contains(l.Value, "\\")
}

func c04InlinableName(x syntax.ArithmExpr) string {
	w, _ := x.(*syntax.Word)
	if w == nil || len(w.Parts) != 1 {
		return ""
	}
	pe, _ := w.Parts[0].(*syntax.ParamExp)
	if pe == nil || pe.Param == nil || !syntax.ValidName(pe.Param.Value) {
		return ""
	}
	if pe.Excl || pe.Length || pe.Width || pe.IsSet || pe.Index != nil || pe.Slice != nil || pe.Repl != nil ||
		pe.Names != 0 || pe.Exp != nil || pe.Flags != nil || pe.NestedParam != nil || len(pe.Modifiers) > 0 {
		return ""
	}
	return pe.Param.Value
}

// c04ArithInfo collects, for one maximal arithmetic expression, the $names in operand positions
// (candidates for inlining) and the names assigned (=, op=, ++, --).
func c04ArithInfo(x syntax.ArithmExpr, dollars, assigned map[string]bool) {
	if x == nil {
		return
	}
	syntax.Walk(x, func(n syntax.Node) bool {
		switch n := n.(type) {
		case *syntax.Word:
			if nm := c04InlinableName(n); nm != "" {
				dollars[nm] = true
			}
		case *syntax.BinaryArithm:
			if n.Op == syntax.Pow || n.Op == syntax.PowAssgn {
				syntax.Walk(n.Y, func(m syntax.Node) bool {
					if w, ok := m.(*syntax.Word); ok && c04InlinableName(w) != "" {
						assigned["**"] = true
					}
					return true
				})
			}
			switch n.Op {
			case syntax.Assgn, syntax.AddAssgn, syntax.SubAssgn, syntax.MulAssgn, syntax.QuoAssgn, syntax.RemAssgn,
				syntax.AndAssgn, syntax.OrAssgn, syntax.XorAssgn, syntax.ShlAssgn, syntax.ShrAssgn,
				syntax.AndBoolAssgn, syntax.OrBoolAssgn, syntax.XorBoolAssgn, syntax.PowAssgn:
				if w, ok := n.X.(*syntax.Word); ok {
					assigned[c04AssignedName(w)] = true
				}
			}
		case *syntax.UnaryArithm:
			if n.Op == syntax.Inc || n.Op == syntax.Dec {
				if w, ok := n.X.(*syntax.Word); ok {
					assigned[c04AssignedName(w)] = true
				}
			}
		}
		return true
	})
}

func c04AssignedName(w *syntax.Word) string {
	if len(w.Parts) == 1 {
		switch p := w.Parts[0].(type) {
		case *syntax.Lit:
			return p.Value
		case *syntax.ParamExp:
			if p.Param != nil {
				return p.Param.Value
			}
		}
	}
	return "?"
}

func c04Classify(f *syntax.File) c04Excl {
	var e c04Excl
	// stack of "inside double quotes / here-document body" and "inside ParamExp"
	type frame struct {
		n      syntax.Node
		quoted bool
		inPE   bool
	}
	var stack []frame
	hdocs := map[*syntax.Word]bool{}
	arithRoot := func(x syntax.ArithmExpr) {
		if x == nil {
			return
		}
		d, a := map[string]bool{}, map[string]bool{}
		c04ArithInfo(x, d, a)
		if len(d) > 0 {
			e.inlined = true
		}
		for nm := range d {
			if a[nm] || a["?"] {
				e.arithOrder = true
			}
		}
		if a["**"] {
			e.powDollar = true
		}
	}
	syntax.Walk(f, func(n syntax.Node) bool {
		if n == nil {
			stack = stack[:len(stack)-1]
			return true
		}
		top := frame{}
		if len(stack) > 0 {
			top = stack[len(stack)-1]
		}
		fr := frame{n: n, quoted: top.quoted, inPE: top.inPE}
		switch n := n.(type) {
		case *syntax.Redirect:
			if n.Hdoc != nil {
				hdocs[n.Hdoc] = true
			}
		case *syntax.Word:
			if hdocs[n] {
				fr.quoted = true
				fr.inPE = false
			}
		case *syntax.DblQuoted:
			if top.quoted && top.inPE && c04LitHasBackslash(n) {
				e.dqInDqParam = true
			}
			if !(top.quoted && top.inPE) {
				fr.quoted = true
				fr.inPE = false
			}
		case *syntax.ParamExp:
			fr.inPE = true
			switch {
			case n.Param != nil && (n.Param.Value == "BASH_SUBSHELL" || n.Param.Value == "BASHPID"):
				e.subshellVar = true
			case n.Param != nil && (n.Param.Value == "RANDOM" || n.Param.Value == "SRANDOM" || n.Param.Value == "SECONDS" ||
				n.Param.Value == "EPOCHSECONDS" || n.Param.Value == "EPOCHREALTIME" || n.Param.Value == "$" || n.Param.Value == "!" ||
				n.Param.Value == "PPID" || n.Param.Value == "LINENO" || n.Param.Value == "_" || n.Param.Value == "-"):
				e.nondet = true
			}
			if n.Slice != nil {
				arithRoot(n.Slice.Offset)
				arithRoot(n.Slice.Length)
			}
			arithRoot(n.Index)
		case *syntax.CmdSubst, *syntax.Subshell, *syntax.ProcSubst:
			fr.quoted, fr.inPE = false, false
			if _, ok := n.(*syntax.ProcSubst); ok {
				e.nondet = true
			}
		case *syntax.ArithmExp:
			arithRoot(n.X)
		case *syntax.ArithmCmd:
			arithRoot(n.X)
		case *syntax.LetClause:
			for _, x := range n.Exprs {
				arithRoot(x)
			}
		case *syntax.CStyleLoop:
			// the three expressions are evaluated at different times: treat them as one region
			d, a := map[string]bool{}, map[string]bool{}
			c04ArithInfo(n.Init, d, a)
			c04ArithInfo(n.Cond, d, a)
			c04ArithInfo(n.Post, d, a)
			if len(d) > 0 {
				e.inlined = true
			}
			for nm := range d {
				if a[nm] || a["?"] {
					e.arithOrder = true
				}
			}
			if a["**"] {
				e.powDollar = true
			}
		case *syntax.Assign:
			arithRoot(n.Index)
		case *syntax.ArrayElem:
			arithRoot(n.Index)
		case *syntax.DeclClause:
			for _, a := range n.Args {
				if a.Naked && a.Value != nil && strings.HasPrefix(a.Value.Lit(), "-") && strings.Contains(a.Value.Lit(), "A") {
					e.assoc = true
				}
			}
		case *syntax.Stmt:
			if n.Background || n.Coprocess || n.Disown {
				e.nondet = true
			}
		case *syntax.TimeClause, *syntax.CoprocClause:
			e.nondet = true
		case *syntax.WhileClause, *syntax.ForClause:
			// loops may not terminate within the oracle's time-out
			if w, ok := n.(*syntax.WhileClause); ok {
				_ = w
				e.nondet = true
			}
			if fc, ok := n.(*syntax.ForClause); ok && fc.Select {
				e.nondet = true
			}
		case *syntax.FuncDecl:
			e.nondet = true // recursion
		case *syntax.CallExpr:
			if len(n.Args) > 0 {
				name := n.Args[0].Lit()
				if !c04SafeCmds[name] {
					e.unsafe = true
				}
				if name == "cd" || name == "export" || name == "set" {
					// harmless in the scratch directory; `set -e` etc. still deterministic
				}
			}
		}
		stack = append(stack, fr)
		return true
	})
	return e
}

// ---------------------------------------------------------------------------------------------
// One program.

type c04Prog struct {
	src     string
	origin  string
	intVars bool // generated with integer-valued variables only (bash leg allowed with inlining)
}

type c04Run struct {
	witness          string
	origSrc, simpSrc string // printed original, printed simplified
	rawSrc           string // the source as written
	interp, bash     bool
	skip             string
	targeted         bool
}

func c04Print(f *syntax.File) (string, string) {
	var buf bytes.Buffer
	var err error
	p := safely(func() { err = syntax.NewPrinter().Print(&buf, f) })
	if p != "" {
		return "", "panic: " + p
	}
	if err != nil {
		return "", "error: " + err.Error()
	}
	return buf.String(), ""
}

func c04Parse(src string) *syntax.File {
	f, err, p := parseIn(src, syntax.LangBash, syntax.KeepComments(true))
	if err != nil || p != "" || f == nil {
		return nil
	}
	return f
}

func c04Witness(src string) string { return "prog " + hx(src) }

// c04Program ties one program and runs the cheap search checks; it returns the work item for
// the behaviour leg (executed later in parallel), or nil.
func c04Program(c *Ctx, pr c04Prog, lift bool) *c04Run {
	f := c04Parse(pr.src)
	if f == nil {
		if os.Getenv("C04_DEBUG") != "" && pr.origin == "targeted" {
			_, err, _ := parseIn(pr.src, syntax.LangBash)
			fmt.Fprintf(os.Stderr, "UNPARSABLE %v\n%s\n", err, pr.src)
		}
		c.Case("unparsable:"+pr.src, false, "src:"+pr.origin, "unparsable", "unparsable:"+pr.origin)
		return nil
	}
	before := c04Render(f)
	if len(before) > 200000 {
		return nil
	}
	fullBefore := c04Full(f, true)
	excl := c04Classify(f)
	origPrinted, perr := c04Print(f)
	var changed bool
	pan := safely(func() { changed = syntax.Simplify(f) })
	wit := c04Witness(pr.src)
	if pan != "" {
		c.Op("simp "+before, "panic")
		c.Fail(wit, "Simplify panicked: "+pan)
		return nil
	}
	after := c04Render(f)
	c.Op("simp "+before, fmt.Sprintf("%d %s", c04B(changed), after))
	fullAfter := c04Full(f, true)
	tags := []string{"src:" + pr.origin}
	if changed {
		tags = append(tags, "changed")
	} else {
		tags = append(tags, "unchanged")
	}
	for _, k := range []string{"ParenArithm", "ParenTest", "UnaryTest 1 ", "BinaryTest 6 ", "Subshell", "DblQuoted", "ArithmExp", "ArithmCmd", "TestClause"} {
		if strings.Contains(before, "( "+k) && changed {
			tags = append(tags, "has:"+strings.TrimSpace(k))
		}
	}
	c.Case(pr.src, changed, tags...)

	// reports-change: independent reflective comparison
	if changed != (fullBefore != fullAfter) {
		c.Fail(wit, fmt.Sprintf("Simplify returned %v but the tree (reflective dump, positions erased) changed=%v", changed, fullBefore != fullAfter))
	}
	if !changed {
		return nil
	}
	// still prints and re-parses to the same tree
	simpPrinted, perr2 := c04Print(f)
	if perr != "" {
		c.Hist["orig-print-failed"]++
		return nil
	}
	if perr2 != "" {
		c.Fail(wit, "printing the simplified tree failed: "+perr2)
		return nil
	}
	origRT := false
	if g := c04Parse(origPrinted); g != nil {
		f0 := c04Parse(pr.src)
		origRT = c04Full(g, false) == c04Full(f0, false)
	}
	if !origRT {
		c.Hist["orig-not-roundtrip"]++
		if os.Getenv("C04_DEBUG") != "" {
			fmt.Fprintf(os.Stderr, "NOT-RT %q\n  printed %q\n", pr.src, origPrinted)
		}
	} else {
		g := c04Parse(simpPrinted)
		if g == nil {
			c.Fail(wit, fmt.Sprintf("the simplified program does not re-parse: %q", simpPrinted))
			return nil
		} else if a, b := c04Full(g, false), c04Full(f, false); a != b {
			c.Fail(wit, fmt.Sprintf("Parse(Print(Simplify t)) differs from Simplify t; printed %q", simpPrinted))
			return nil
		}
		c.Hist["reparse-ok"]++
	}
	run := &c04Run{witness: wit, origSrc: origPrinted, simpSrc: simpPrinted, targeted: pr.origin == "targeted", rawSrc: pr.src}
	if s := excl.bashSkip(); s != "" {
		run.skip = s
		if !lift && (s == "unsafe" || s == "nondet" || s == "subshell-var") {
			c.Hist["run-skip:"+s]++
			return nil
		}
	}
	run.interp = true
	run.bash = pr.intVars || !excl.inlined
	return run
}

type c04RunRes struct {
	what string
	tags []string
}

// c04Same: a time-out on either side is inconclusive (the machine may be loaded; programs with
// unbounded loops are not executed at all), never a difference.
func c04Same(a, b ShellResult) bool {
	if a.TimedOut || b.TimedOut {
		return true
	}
	return a.Stdout == b.Stdout && a.Status == b.Status && (a.Panic != "") == (b.Panic != "")
}

func c04Show(r ShellResult) string {
	s := fmt.Sprintf("stdout=%q status=%d", r.Stdout, r.Status)
	if r.TimedOut {
		s += " timeout"
	}
	if r.Panic != "" {
		s += " panic=" + r.Panic
	}
	return s
}

// c04Behaviour executes the property's statement: same stdout and exit status.
func c04Behaviour(c *Ctx, run *c04Run, known bool) c04RunRes {
	var res c04RunRes
	interpOK := run.interp && (known || run.skip == "" || run.skip == "excl-dq-in-quoted-param" || run.skip == "excl-arith-order" || run.skip == "excl-assoc" || run.skip == "excl-pow-dollar")
	// interp: the exclusions that are bash-only findings do not restrict the interp leg, except
	// assoc (interp panics on its own there) — see c04Excl.
	if run.skip == "excl-assoc" && !known {
		interpOK = false
	}
	if interpOK {
		a := runInterp(c, syntax.LangBash, run.origSrc)
		b := runInterp(c, syntax.LangBash, run.simpSrc)
		res.tags = append(res.tags, "run:interp")
		if a.TimedOut || b.TimedOut {
			res.tags = append(res.tags, "run:interp-timeout")
		}
		if !c04Same(a, b) {
			// confirm (de-flake): the original must be deterministic and the difference reproducible
			a2 := runInterp(c, syntax.LangBash, run.origSrc)
			b2 := runInterp(c, syntax.LangBash, run.simpSrc)
			if raw := runInterp(c, syntax.LangBash, run.rawSrc); !raw.TimedOut && !c04Same(raw, a) {
				// printing alone already changes the behaviour of the original (a printer matter, e.g.
				// "${s:x - ${b}}" is printed "${s:x-${b}}", which bash reads as x--2 when b=-2): not
				// attributable to Simplify
				res.tags = append(res.tags, "run:printer-diverges")
			} else if !a2.TimedOut && !b2.TimedOut && c04Same(a, a2) && c04Same(b, b2) {
				res.what = fmt.Sprintf("interp: original %s, simplified %s; simplified program %q", c04Show(a), c04Show(b), run.simpSrc)
				return res
			} else {
				res.tags = append(res.tags, "run:flaky")
			}
			if os.Getenv("C04_DEBUG") != "" {
				fmt.Fprintf(os.Stderr, "FLAKY interp %q\n  %s\n  %s\n  %s\n  %s\n", run.origSrc, c04Show(a), c04Show(a2), c04Show(b), c04Show(b2))
			}
		}
	}
	if run.bash && (known || run.skip == "") {
		a := runShell(c, "bash", run.origSrc)
		b := runShell(c, "bash", run.simpSrc)
		res.tags = append(res.tags, "run:bash")
		if a.TimedOut || b.TimedOut {
			res.tags = append(res.tags, "run:bash-timeout")
		}
		if !c04Same(a, b) {
			a2 := runShell(c, "bash", run.origSrc)
			b2 := runShell(c, "bash", run.simpSrc)
			if raw := runShell(c, "bash", run.rawSrc); !raw.TimedOut && !c04Same(raw, a) {
				res.tags = append(res.tags, "run:printer-diverges")
			} else if !a2.TimedOut && !b2.TimedOut && c04Same(a, a2) && c04Same(b, b2) {
				res.what = fmt.Sprintf("bash: original %s, simplified %s; simplified program %q", c04Show(a), c04Show(b), run.simpSrc)
				return res
			} else {
				res.tags = append(res.tags, "run:flaky")
			}
		}
	} else if run.bash {
		res.tags = append(res.tags, "run:bash-skip:"+run.skip)
	} else {
		res.tags = append(res.tags, "run:bash-skip:non-integer-vars-possible")
	}
	return res
}

// ---------------------------------------------------------------------------------------------
// Literal streams.

func c04BuildDq(dollar bool, lit string) *syntax.Word {
	return &syntax.Word{Parts: []syntax.WordPart{&syntax.DblQuoted{Dollar: dollar, Parts: []syntax.WordPart{&syntax.Lit{Value: lit}}}}}
}

func c04DqwOp(c *Ctx, dollar bool, lit string) {
	w := c04BuildDq(dollar, lit)
	var changed bool
	p := safely(func() { changed = syntax.Simplify(w) })
	ans := "same"
	if p != "" {
		ans = "panic"
	} else if sq, ok := w.Parts[0].(*syntax.SglQuoted); ok {
		ans = fmt.Sprintf("sgl %d %s", c04B(sq.Dollar), hx(sq.Value))
		if !changed {
			ans += " but-false"
		}
	} else if changed {
		ans = "same but-true"
	}
	c.Op(fmt.Sprintf("dqw %d %s", c04B(dollar), hx(lit)), ans)
}

// c04SpecWord: lit must be the literal of a parser-produced "…" / $"…" with a single Lit part.
func c04SpecWord(c *Ctx, dollar bool, lit string) {
	w := c04BuildDq(dollar, lit)
	var val string
	var err error
	changed := false
	p := safely(func() {
		changed = syntax.Simplify(w)
		val, err = expand.Literal(nil, w)
	})
	if p == "" && !changed {
		// nothing rewritten: the value of the untouched word is the interpreter's business, not Simplify's
		return
	}
	ans := "val " + hx(val)
	if p != "" {
		ans = "panic"
	} else if err != nil {
		ans = "error"
	}
	c.Op(fmt.Sprintf("specword %d %s", c04B(dollar), hx(lit)), ans)
}

var c04DqAlpha = []string{"a", "b", " ", "\\", "\\", "$", "\"", "`", "'", "n", "t", "x", "0", "\n", "é", "\\\\", "\\$", "\\\"", "\\`", "#", "!", "*"}

// c04ParserLit returns the Lit of a parsed "body" when the double-quoted string has exactly one Lit part.
func c04ParserLit(dollar bool, body string) (string, bool) {
	src := "\"" + body + "\""
	if dollar {
		src = "$" + src
	}
	f := c04Parse("echo " + src)
	if f == nil || len(f.Stmts) != 1 {
		return "", false
	}
	ce, _ := f.Stmts[0].Cmd.(*syntax.CallExpr)
	if ce == nil || len(ce.Args) != 2 || len(ce.Args[1].Parts) != 1 {
		return "", false
	}
	dq, _ := ce.Args[1].Parts[0].(*syntax.DblQuoted)
	if dq == nil || len(dq.Parts) != 1 || dq.Dollar != dollar {
		return "", false
	}
	l, _ := dq.Parts[0].(*syntax.Lit)
	if l == nil {
		return "", false
	}
	return l.Value, true
}

// ---------------------------------------------------------------------------------------------
// Targeted generator: programs rich in the rewritten constructs; variables a b c n hold plain
// integers, s e p strings; only echo/printf/[[ ]]/(( ))/assignments are executed.

type c04Gen struct {
	r *Rand
	// avoid: regions of open findings (see c04Excl); the generator never produces them, so the
	// behaviour legs of generated programs are not skipped.
}

const c04Prelude = "a=3; b=-2; c=10; n=0; z=1; s='x y'; e=; p='*'; q='a[b]'; arr=(4 5 6); set -- u 'v w'\n"

func (g *c04Gen) intVar() string { return g.r.Pick([]string{"a", "b", "c", "n"}) }

func (g *c04Gen) arithLeaf() string {
	r := g.r
	switch k := r.Intn(20); {
	case k < 5:
		return "$" + g.intVar()
	case k < 7:
		return "${" + g.intVar() + "}"
	case k < 10:
		return g.intVar()
	case k < 14:
		return r.Pick([]string{"0", "1", "2", "7", "10", "0x1f", "010", "3"})
	case k == 14:
		return "${#s}"
	case k == 15:
		return "${e:-2}"
	case k == 16:
		return "$#"
	case k == 17:
		return "\"$" + g.intVar() + "\""
	case k == 18:
		return "arr[" + r.Pick([]string{"0", "1", "$n", "(1)", "n+1"}) + "]"
	default:
		return "$((" + g.arith(1, false) + "))"
	}
}

// arith: side effects only on z (never referenced with $), so that C04-arith-expansion-order is avoided.
func (g *c04Gen) arith(d int, top bool) string {
	r := g.r
	if d <= 0 || r.Chance(25) {
		return g.arithLeaf()
	}
	switch k := r.Intn(20); {
	case k < 4:
		n := 1 + r.Intn(3)
		return strings.Repeat("(", n) + g.arith(d-1, false) + strings.Repeat(")", n)
	case k < 6:
		return r.Pick([]string{"-", "!", "~", "+"}) + r.Pick([]string{"", " "}) + g.arith(d-1, false)
	case k == 6:
		return g.arith(d-1, false) + " ? " + g.arith(d-1, false) + " : " + g.arith(d-1, false)
	case k == 7:
		return "z " + r.Pick([]string{"=", "+=", "-=", "*=", "|="}) + " " + g.arith(d-1, false)
	case k == 8:
		return r.Pick([]string{"z++", "z--", "++z", "--z"})
	case k == 9:
		if r.Chance(30) {
			// ** only with a constant exponent (C04-bash-unevaluated-pow avoided)
			return g.arith(d-1, false) + " ** " + r.Pick([]string{"0", "1", "2", "(3)", "c"})
		}
		return g.arith(d-1, false) + " " + r.Pick([]string{"/", "%"}) + " " + r.Pick([]string{"3", "7", "$c", "c", "(2)"})
	default:
		return g.arith(d-1, false) + " " + r.Pick([]string{"+", "-", "*", "<", ">", "<=", ">=", "==", "!=", "&&", "||", "&", "|", "^", "<<", ","}) + " " + g.arith(d-1, false)
	}
}

func (g *c04Gen) dqBody() string {
	r := g.r
	n := 1 + r.Intn(4)
	var sb strings.Builder
	for i := 0; i < n; i++ {
		sb.WriteString(r.Pick([]string{"a", "b c", " ", "\\$", "\\\"", "\\\\", "\\`", "\\n", "\\a", "'", "$", "#", "*", "x", "\\$s", "é", "~", "\\\n", "!"}))
	}
	return sb.String()
}

func (g *c04Gen) testWord(rhs bool) string {
	r := g.r
	switch k := r.Intn(20); {
	case k < 3:
		return "\"$" + r.Pick([]string{"s", "e", "p", "q", "a", "@", "*", "1", "2"}) + "\""
	case k < 5:
		return "$" + r.Pick([]string{"s", "e", "p", "q", "a"})
	case k < 7:
		return "\"${" + r.Pick([]string{"s", "e", "p", "q"}) + "}\""
	case k == 7:
		// default words, also quote-sensitive ones ('x', ~, \x): kept quoted since fix 2e8be01
		return "\"${" + r.Pick([]string{"e", "s", "u"}) + r.Pick([]string{":-", "-", ":+", "+"}) + r.Pick([]string{"d", "x y", "", "*", "$s", "'x'", "~", "\\x", "'x y'"}) + "}\""
	case k == 8:
		return "\"${" + r.Pick([]string{"s", "q"}) + r.Pick([]string{"#", "%", "##", "%%"}) + r.Pick([]string{"x", "*", "?", "a"}) + "}\""
	case k == 9:
		return "\"${#s}\""
	case k == 10:
		return "\"${arr[" + r.Pick([]string{"0", "1", "@", "*"}) + "]}\""
	case k == 11:
		return "\"" + g.dqBody() + "\""
	case k == 12:
		return r.Pick([]string{"'x y'", "'*'", "''", "'a[b]'"})
	case k == 13 && rhs:
		return r.Pick([]string{"x*", "*", "?", "a\\[b\\]", "[a-z]*", "x\\ y"})
	case k == 14:
		return "\"$s\"\"$e\""
	case k == 15:
		return "$\"$s\""
	default:
		return r.Pick([]string{"x", "a", "3", "-2", "x\\ y", "10"})
	}
}

func (g *c04Gen) test(d int) string {
	r := g.r
	if d <= 0 || r.Chance(30) {
		switch k := r.Intn(12); {
		case k < 3:
			return r.Pick([]string{"-z", "-n", "-z", "-n", "-e", "-v", "-d"}) + " " + g.testWord(false)
		case k < 7:
			return g.testWord(false) + " " + r.Pick([]string{"==", "!=", "=", "==", "!="}) + " " + g.testWord(true)
		case k == 7:
			return g.testWord(false) + " =~ " + r.Pick([]string{"x.y", "^x", "\"$p\"", "$p", "\"x y\"", "[a-z]+", "\"\\.\""})
		case k == 8:
			return r.Pick([]string{"\"$a\"", "$a", "\"${b}\"", "3", "\"$c\""}) + " " + r.Pick([]string{"-eq", "-ne", "-lt", "-ge"}) + " " + r.Pick([]string{"\"$a\"", "$b", "\"${c}\"", "3", "-2"})
		case k == 9:
			return g.testWord(false) + " " + r.Pick([]string{"<", ">"}) + " " + g.testWord(false)
		default:
			return g.testWord(false)
		}
	}
	switch k := r.Intn(12); {
	case k < 4:
		return "! " + g.test(d-1)
	case k < 7:
		n := 1 + r.Intn(2)
		return strings.Repeat("( ", n) + g.test(d-1) + strings.Repeat(" )", n)
	case k < 10:
		return g.test(d-1) + " " + r.Pick([]string{"&&", "||"}) + " " + g.test(d-1)
	default:
		return "! ! " + g.test(d-1)
	}
}

func (g *c04Gen) word() string {
	r := g.r
	var sb strings.Builder
	for i, n := 0, 1+r.Intn(3); i < n; i++ {
		switch k := r.Intn(12); {
		case k < 6:
			sb.WriteString("\"" + g.dqBody() + "\"")
		case k == 6:
			sb.WriteString("'" + r.Pick([]string{"a", "$x", "\\", " "}) + "'")
		case k == 7:
			sb.WriteString(r.Pick([]string{"x", "\\$", "$s", "${e:-\"" + g.dqBody() + "\"}"}))
		case k == 8:
			// $"…", also with escapes: left alone since fix 16d3528
			sb.WriteString("$\"" + r.Pick([]string{"a b", "$s", "x", "a$", "a\\\\n", "\\$x", "\\\\", "q\\\"q"}) + "\"")
		case k == 9:
			sb.WriteString("\"$s\"")
		default:
			sb.WriteString("\"" + g.dqBody() + "\"")
		}
	}
	return sb.String()
}

func (g *c04Gen) simpleCmds(d int) string {
	r := g.r
	var ss []string
	for i, n := 0, 1+r.Intn(3); i < n; i++ {
		switch k := r.Intn(10); {
		case k < 3:
			ss = append(ss, "echo "+g.word())
		case k == 3:
			ss = append(ss, "z=$((z + 1))")
		case k == 4:
			ss = append(ss, "echo $z $n")
		case k == 5:
			ss = append(ss, r.Pick([]string{"exit 3", "false", "true", "exit 0", "n=5"}))
		case k == 6 && d > 0:
			ss = append(ss, g.subshell(d-1))
		case k == 7:
			ss = append(ss, "[[ "+g.test(1)+" ]]")
		default:
			ss = append(ss, "echo $(("+g.arith(1, true)+"))")
		}
	}
	return strings.Join(ss, "; ")
}

func (g *c04Gen) subshell(d int) string {
	r := g.r
	inner := g.simpleCmds(d)
	n := 1 + r.Intn(3)
	s := inner
	for i := 0; i < n; i++ {
		switch k := r.Intn(12); {
		case k < 8:
			s = "( " + s + " )"
		case k == 8:
			s = "( ! ( " + s + " ) )"
		case k == 9:
			s = "( ( " + s + " ) >/dev/null )"
		case k == 10:
			s = "( ( " + s + " ); echo $? )"
		default:
			s = "( ( " + s + " ) 2>&1 )"
		}
	}
	return s
}

func (g *c04Gen) stmt() string {
	r := g.r
	switch k := r.Intn(24); {
	case k < 5:
		return "echo $(( " + g.arith(3, true) + " ))"
	case k < 7:
		return "(( " + g.arith(3, true) + " )); echo $? $z"
	case k == 7:
		return "echo \"${s:" + g.arith(1, true) + "}\" \"${s:" + g.arith(1, true) + ":" + g.arith(1, true) + "}\" ${@:$a:1} ${arr[@]:(1):$z}"
	case k == 8:
		return "arr[" + g.arith(1, true) + "]=v; echo \"${arr[" + g.arith(1, true) + "]}\" ${#arr[@]}"
	case k == 9:
		return "let \"" + strings.ReplaceAll(g.arith(2, true), "\"", "") + "\"; echo $?"
	case k == 10:
		return "for ((i = " + g.arith(1, true) + "; i < $a + (2); i++)); do echo $i; done"
	case k < 16:
		return "[[ " + g.test(3) + " ]]; echo $?"
	case k < 19:
		return "echo " + g.word() + " " + g.word()
	case k == 19:
		return "x=" + g.word() + "; echo \"$x\"; case \"\\$\" in \"\\$\") echo m ;; esac"
	case k < 22:
		return g.subshell(2) + "; echo $?"
	case k == 22:
		return "echo $( " + g.subshell(1) + " ) `" + strings.ReplaceAll(g.subshell(0), "`", "") + "`"
	default:
		return "echo $(( (" + g.arith(2, true) + ") )) $(( (($a)) )) $[ ($b) ]"
	}
}

// Side-condition probes: for every rewrite site of simplify.go one statement shape on which
// dropping (or misplacing) the rewrite's side condition changes stdout/status.

// quoteProbe: [[ ]] operands whose variables hold glob / regex metacharacters, all of = == != =~,
// negation, the variable on either side, quoted and unquoted.  Unquoting the right-hand side of
// = == != (glob) or =~ (regex) flips the result for these values.
func (g *c04Gen) quoteProbe() string {
	r := g.r
	var sb strings.Builder
	for i, n := 0, 2+r.Intn(3); i < n; i++ {
		val := r.Pick([]string{"f*", "?oo", "[a-f]oo", "a|b", ".*", "foo", "f*o", "*", "fo+", "^f", "a.b"})
		subj := r.Pick([]string{"foo", "foo", "boo", "f*", "a|b", ".*", "a", "aXb", "fo+", "?oo", "[a-f]oo"})
		if r.Chance(25) {
			subj = val
		}
		op := r.Pick([]string{"=", "=", "==", "!=", "=~"})
		v := r.Pick([]string{"\"$gp\"", "\"$gp\"", "\"${gp}\"", "$gp", "${gp}"})
		neg := r.Pick([]string{"", "", "! ", "! ! "})
		var t string
		if r.Chance(75) {
			t = "'" + subj + "' " + op + " " + v
		} else {
			t = v + " " + op + " " + r.Pick([]string{"'" + subj + "'", "\"" + subj + "\"", "\"$gq\"", "$gq"})
		}
		if r.Chance(15) {
			t = "( " + t + " )"
		}
		if r.Chance(15) {
			t = t + " " + r.Pick([]string{"&&", "||"}) + " " + r.Pick([]string{"-n \"$gp\"", "! -z \"$gq\"", "\"$gq\" = \"$gp\""})
		}
		fmt.Fprintf(&sb, "gp='%s'; gq='%s'; [[ %s%s ]]; echo $?\n", val, subj, neg, t)
	}
	return strings.TrimSuffix(sb.String(), "\n")
}

// wordProbe: words made of several adjacent quoted parts whose contents are backslash runs of
// length 1-5 before $ " ` ' a and plain text, printed so that the value is observable.  The scan of
// one double-quoted part must not depend on how the scan of the previous part ended.
func (g *c04Gen) wordProbe() string {
	r := g.r
	dq := func() string {
		var sb strings.Builder
		for i, n := 0, 1+r.Intn(3); i < n; i++ {
			switch r.Intn(5) {
			case 0:
				sb.WriteString(r.Pick([]string{"a", "C:", "dir", "quoted", "x y", "#", "*", "it"}))
			default:
				n := 1 + r.Intn(5)
				ch := r.Pick([]string{"$", "\"", "`", "'", "a", "d", "'", "$", "\""})
				if (ch == "$" || ch == "\"" || ch == "`") && n%2 == 0 {
					n++ // an even run would leave the character active
				}
				sb.WriteString(strings.Repeat("\\", n) + ch)
				if ch == "$" {
					sb.WriteString(r.Pick([]string{"", "x", " "}))
				}
			}
		}
		return "\"" + sb.String() + "\""
	}
	word := func() string {
		var sb strings.Builder
		if r.Chance(25) {
			sb.WriteString(r.Pick([]string{"x", "a=", "-"}))
		}
		for i, n := 0, 2+r.Intn(3); i < n; i++ {
			switch k := r.Intn(10); {
			case k < 7:
				sb.WriteString(dq())
			case k == 7:
				sb.WriteString("'" + r.Pick([]string{"q", "\\", "$x", " "}) + "'")
			case k == 8:
				sb.WriteString(r.Pick([]string{"y", "\\$", "$e"}))
			default:
				sb.WriteString("$" + dq())
			}
		}
		return sb.String()
	}
	return "printf '%s\\n' " + word() + " " + word() + "; echo " + word()
}

var c04Probes = []string{
	// parentheses in arithmetic: only redundant ones may go (precedence, comma, assignment)
	"echo $(( 2 * (3 + $a) )) $(( (z = 2, 3) * 2 )) $(( -(1 - $b) )) $(( ((1, 2)) )) $(( (2 + 3) * (4 - 1) )) $z",
	"(( (z = 5) )); echo $? $z; (( (z = 0) )); echo $? $z; (( ((z += 2, 0)) )); echo $? $z",
	"echo \"${s:(1)}\" \"${s:(-1)}\" \"${s:( -2 ):(1)}\" \"${s: -1}\" \"${s:-1}\" ${arr[@]:(1)}",
	// subscripts: side effects and non-trivial expressions stay what they are
	"echo ${arr[z++]} ${arr[(z)]} ${arr[$n + 1]} ${arr[($n)]} $z; arr[(n++)]=v; arr[n + $n]=w; echo \"${arr[@]}\" $n",
	// inlineSimpleParams: only $name / ${name} with a valid name and nothing else
	"set -- 4 5; echo $(( $1 + $# )) $(( ${1} * 2 )) $(( $2$1 )) $(( ${#s} )) $(( ${e:-7} )) $(( ${arr[1]} )) $(( ${a}0 )) $(( $a$b )); set -- u 'v w'",
	"r=a; echo $(( ${!r} + 1 )) $(( ${#a} )) $(( ${a:0:1} )) $(( -$b )) $(( !$n )) $(( ~$a )) $(( \"$a\" + 1 ))",
	"echo $(( $a ? $b : $c )) $(( $n ? $b : $c )) $(( $a, $b )) $(( ($a) )) $(( ${a} )) $(( $a + ($b) * ${c} ))",
	// subshells: only a lone plain subshell statement is merged
	"( ! ( exit 3 ) ); echo $?; ( ( exit 3 ) ); echo $?; ( ( echo a ) >/dev/null ); echo $?; ( ( exit 3 ); echo $? ); ( ( z=9 ) ); echo $z",
	"echo $( ( echo a; exit 3 ) ) $?; echo $( ! ( exit 3 ) ) $?; echo $( ( echo b ) 2>&1 ); x=$( ( ( echo c ) ) ); echo $x $?",
	"( ( z=7; echo $z ); echo $z ); echo $z; ( ( ( z=8 ) ); echo $z )",
	// negations: only -z/-n/==/!= merge with !
	"[[ ! $a -lt 5 ]]; echo $?; [[ ! $s =~ ^x ]]; echo $?; [[ ! ( -z $e ) ]]; echo $?; [[ ! -e /nonexistent ]]; echo $?; [[ ! $e ]]; echo $?",
	"[[ ! -z $e ]]; echo $?; [[ ! -n $e ]]; echo $?; [[ ! ! -z $s ]]; echo $?; [[ ! $s == x* ]]; echo $?; [[ ! $s != x* ]]; echo $?; [[ ! $s = 'x y' ]]; echo $?",
	"[[ ! -z $e && ! -n $s || ! ( $a == 3 ) ]]; echo $?; [[ ( ( -n $s ) ) && ( ! ( ! -z $e ) ) ]]; echo $?",
	// unquoteParams: only a lone \"$param\" without operator word
	"[[ -n \"$e$e\" ]]; echo $?; [[ \"x$s\" == 'xx y' ]]; echo $?; [[ \"$s\" == 'x y' ]]; echo $?; [[ -z \"${e:-'q'}\" ]]; echo $?; [[ \"${e:-~}\" == '~' ]]; echo $?",
	"[[ \"$a\" -eq \"$a\" ]]; echo $?; [[ \"$s\" < \"$p\" ]]; echo $?; [[ \"$p\" == \"$p\" ]]; echo $?; [[ 'x' != \"$p\" ]]; echo $?; [[ x =~ \"$p\" ]]; echo $?",
	// double-quoted literals: only when no ' and every backslash is one the double quotes remove
	"echo \"it's \\$x\" \"a\\nb\" \"\\\\n\" \"\\$s\" \"\\`x\\`\" \"\\\"q\\\"\" \"a\\\\\" $\"a\\\\n\" $\"\\$s\" \"\\$\"'x'\"\\$\" \"a\"\"\\$\"",
}

func (g *c04Gen) program() string {
	var sb strings.Builder
	sb.WriteString(c04Prelude)
	sb.WriteString(g.quoteProbe())
	sb.WriteByte('\n')
	sb.WriteString(g.wordProbe())
	sb.WriteByte('\n')
	sb.WriteString(g.r.Pick(c04Probes))
	sb.WriteByte('\n')
	for i, n := 0, 1+g.r.Intn(4); i < n; i++ {
		sb.WriteString(g.stmt())
		sb.WriteByte('\n')
	}
	return sb.String()
}

// ---------------------------------------------------------------------------------------------

func c04(c *Ctx) {
	c.Rule = "programs parsed with LangBash: (1) corpus witnesses, (2) targeted generator (arithmetic depth<=3 with $var/${var}/parens/" +
		"assignments to z, [[ ]] depth<=3 with quoted params, negations, parens, = == != =~, double-quoted literals over escapes " +
		"\\$ \\\" \\\\ \\` \\n ' $ and $\"..\", nested subshells with !/redirections, slices, indices, let, C-style for), " +
		"(3) newProgGen programs, (4) the repository's test-table strings that parse; plus literal streams over the escape alphabet; " +
		"non-trivial = Simplify changed the tree; distinct by exact source"
	shellBudget := 60
	if c.Thorough() {
		shellBudget = 120 // per shard
	}
	if c.N == 0 {
		shellBudget = 1 << 30
	}
	var runs []*c04Run
	known := map[*c04Run]bool{}

	// (1) corpus: `prog <hex>` lines; the C04-known file lists open findings: replayed through the
	// full behaviour leg with the exclusions lifted.
	for _, l := range c.CorpusLines() {
		f := strings.Fields(l)
		if len(f) == 2 && f[0] == "prog" {
			src := unhx(f[1])
			run := c04Program(c, c04Prog{src: src, origin: "corpus", intVars: true}, true)
			if run != nil {
				runs = append(runs, run)
				known[run] = true
			}
		} else if len(f) == 3 && f[0] == "specword" {
			c04SpecWord(c, f[1] == "1", unhx(f[2]))
		} else if len(f) == 3 && f[0] == "dqw" {
			c04DqwOp(c, f[1] == "1", unhx(f[2]))
		}
	}
	nCorpus := len(runs)

	r := c.R
	g := &c04Gen{r: r}
	seeds := repoSeeds()
	for i := 0; i < c.N; i++ {
		var pr c04Prog
		switch k := r.Intn(20); {
		case k < 11:
			pr = c04Prog{src: g.program(), origin: "targeted", intVars: true}
		case k < 15:
			pg := newProgGen(r, true)
			pr = c04Prog{src: pg.Program(1 + r.Intn(4)), origin: "proggen"}
		default:
			if len(seeds) == 0 {
				continue
			}
			pr = c04Prog{src: seeds[r.Intn(len(seeds))], origin: "seed"}
		}
		if run := c04Program(c, pr, false); run != nil {
			runs = append(runs, run)
		}
		// literal streams
		if i%2 == 0 {
			lit := genFrom(r, c04DqAlpha, 8)
			c04DqwOp(c, r.Chance(20), lit)
			body := genFrom(r, c04DqAlpha, 8)
			if pl, ok := c04ParserLit(false, body); ok {
				c04SpecWord(c, false, pl)
				c.Hist["specword"]++
			}
			if pl, ok := c04ParserLit(true, body); ok {
				c04SpecWord(c, true, pl)
				c.Hist["specword-dollar"]++
			}
		}
	}

	// behaviour leg: corpus first, then a budgeted sample, preferring targeted programs
	rest := runs[nCorpus:]
	// unrestricted runs first; among them two targeted programs (side-condition probes) for every other one
	rank := func(r *c04Run) int {
		k := 0
		if r.skip != "" {
			k += 2
		}
		if !r.targeted {
			k++
		}
		return k
	}
	sort.SliceStable(rest, func(i, j int) bool { return rank(rest[i]) < rank(rest[j]) })
	{
		var tg, ot, mixed []*c04Run
		for _, r := range rest {
			if r.targeted && r.skip == "" {
				tg = append(tg, r)
			} else {
				ot = append(ot, r)
			}
		}
		for len(tg) > 0 || len(ot) > 0 {
			for k := 0; k < 2 && len(tg) > 0; k++ {
				mixed = append(mixed, tg[0])
				tg = tg[1:]
			}
			if len(ot) > 0 {
				mixed = append(mixed, ot[0])
				ot = ot[1:]
			}
		}
		rest = mixed
	}
	if len(rest) > shellBudget {
		rest = rest[:shellBudget]
	}
	sel := append(append([]*c04Run{}, runs[:nCorpus]...), rest...)
	workers := runtime.NumCPU()
	if workers > 4 {
		workers = 4
	}
	if c.Shards > 1 {
		workers = 2 // shards already run in parallel
	}
	results := parallelMap(len(sel), workers, func(i int) c04RunRes {
		return c04Behaviour(c, sel[i], known[sel[i]])
	})
	for i, res := range results {
		for _, t := range res.tags {
			c.Hist[t]++
		}
		if res.what != "" {
			c.Fail(sel[i].witness, res.what)
		}
	}
	c.Extra["behaviour_programs"] = len(sel)
}
