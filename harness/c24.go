//go:build c24 || all

package main

import (
	"context"
	"fmt"
	"os"
	"os/exec"
	"path/filepath"
	"strings"
	"time"
	"unicode/utf8"

	"mvdan.cc/sh/v3/expand"
	"mvdan.cc/sh/v3/syntax"
)

// C24 — printf and echo -e format like bash.
//
// Streams (see props/C24.notes.md):
//   fmt <nil> <format> <arg>*   hook expand.VerifFormatInto           = Lean model formatInto
//   printf <word>*              `printf` builtin through interp.Runner = Lean model printfBuiltin
//   echo <word>*                `echo` builtin through interp.Runner   = Lean model echoBuiltin
//   specprintf / spececho       the same implementation answers        = Lean *specification* of bash
//                               (only on the region where no known finding applies)
//   bashprintf / bashecho       real bash 5.2 answers                  = Lean specification
//                               (validates the specification itself, also on the divergent region)
// Search leg (independent of Lean): interp vs real bash, stdout bytes + exit status -> c.Fail.
func init() { register("C24", c24) }

// classes of generated material
const (
	c24Agree   = 0 // interp and bash are expected to agree (no known finding applies)
	c24Diverge = 1 // inside the specification's domain, but a recorded finding applies
	c24Outside = 2 // outside the property's directive set / malformed: model tie only
)

type c24Piece struct {
	s      string
	class  int
	verb   byte // consuming directive's verb, 0 otherwise
	width  bool // directive has a width or a 0 flag
	flag   string
	hungry int // 1: would absorb following [0-9]; 2: would absorb following hex digits
	tag    string
}

func c24Hook(format string, args []string, argsNil bool) string {
	var res string
	if args == nil && !argsNil {
		args = []string{} // non-nil empty slice, as the printf builtin passes
	}
	p := safely(func() {
		out, n, err := expand.VerifFormatInto(format, args, argsNil)
		e := "-"
		if err != nil {
			msg := err.Error()
			switch {
			case msg == "missing format char":
				e = "missing"
			case strings.HasPrefix(msg, "invalid format char: "):
				r, _ := utf8.DecodeRuneInString(strings.TrimPrefix(msg, "invalid format char: "))
				e = fmt.Sprintf("invalid:%02x", byte(r))
			default:
				e = "other:" + hx(msg)
			}
		}
		res = fmt.Sprintf("out=%s n=%d err=%s", hx(out), n, e)
	})
	if p != "" {
		return "panic"
	}
	return res
}

func c24Quote(s string) string { return "'" + strings.ReplaceAll(s, "'", `'\''`) + "'" }

func c24Script(cmd string, words []string) string {
	var sb strings.Builder
	sb.WriteString(cmd)
	for _, w := range words {
		sb.WriteByte(' ')
		sb.WriteString(c24Quote(w))
	}
	return sb.String()
}

func c24ShowShell(r ShellResult) string {
	if r.Panic != "" {
		return "panic"
	}
	if r.TimedOut {
		return "timeout"
	}
	if r.Err != "" {
		return "error:" + hx(r.Err)
	}
	return fmt.Sprintf("out=%s st=%d", hx(r.Stdout), r.Status)
}

func c24Short(s string) string {
	if len(s) > 160 {
		return s[:150] + fmt.Sprintf("…(%d bytes)", len(s))
	}
	return s
}

// c24RunBash runs the script under bash like runShell, but collects stdout in a file of the
// scratch directory (no copying goroutine, so nothing can be lost under machine load) and retries
// once on a time-out.
func c24RunBash(c *Ctx, script string) ShellResult {
	var res ShellResult
	for try := 0; try < 2; try++ {
		res = c24RunBashOnce(c, script)
		if !res.TimedOut {
			break
		}
	}
	return res
}

func c24RunBashOnce(c *Ctx, script string) ShellResult {
	dir := scratchDir(c)
	defer os.RemoveAll(dir)
	work := filepath.Join(dir, "w")
	os.MkdirAll(work, 0o755)
	outPath := filepath.Join(dir, "stdout")
	outF, err := os.Create(outPath)
	if err != nil {
		return ShellResult{Status: -1, Err: err.Error()}
	}
	defer outF.Close()
	ctx, cancel := context.WithTimeout(context.Background(), 8*time.Second)
	defer cancel()
	cmd := exec.CommandContext(ctx, "bash", "--norc", "--noprofile", "-c", script, "sh")
	cmd.Dir = work
	cmd.Env = shellEnv(c, work)
	cmd.Stdout = outF
	cmd.Stderr = nil
	cmd.Stdin = nil
	err = cmd.Run()
	var res ShellResult
	if ctx.Err() != nil {
		res.TimedOut = true
		return res
	}
	b, rerr := os.ReadFile(outPath)
	if rerr != nil {
		return ShellResult{Status: -1, Err: rerr.Error()}
	}
	res.Stdout = string(b)
	if err != nil {
		if ee, ok := err.(*exec.ExitError); ok {
			res.Status = ee.ExitCode()
		} else {
			res.Status = -1
			res.Err = err.Error()
		}
	}
	return res
}

// scriptable: the words can be put into a shell script (valid UTF-8, no NUL).
func c24Scriptable(words []string) bool {
	for _, w := range words {
		if !utf8.ValidString(w) || strings.ContainsRune(w, 0) {
			return false
		}
	}
	return true
}

type c24Job struct {
	cmd    string // "printf" or "echo"
	words  []string
	class  int
	interp string
	known  bool // corpus line: report any difference through c.Fail with the line as witness
}

// ---------- generators ----------

var c24Lits = []string{"a", "b", "Z", "x", "f", "0", "7", "8", "9", " ", "|", ":", "-", "+", "é", "€", "'", "\"", "$", "`", "n", "c", "\n", "#", ".", "*"}

func c24Lit(r *Rand) c24Piece {
	return c24Piece{s: r.Pick(c24Lits), tag: "lit"}
}

var c24TableEsc = []string{"a", "b", "e", "E", "f", "n", "r", "t", "v", "\\"}
var c24QuoteEsc = []string{"'", "\"", "?"}

const c24Oct = "01234567"
const c24Hex = "0123456789abcdefABCDEF"

func c24Digits(r *Rand, alphabet string, n int) string {
	var sb strings.Builder
	for i := 0; i < n; i++ {
		sb.WriteByte(alphabet[r.Intn(len(alphabet))])
	}
	return sb.String()
}

// mode: 0 = printf format string, 1 = %b argument, 2 = echo -e argument.
func c24Escape(r *Rand, mode int) c24Piece {
	switch k := r.Intn(20); {
	case k < 5:
		return c24Piece{s: "\\" + r.Pick(c24TableEsc), tag: "esc-table"}
	case k == 5:
		// \' \" \? : plain character in a format string; bash keeps the backslash in %b / echo -e
		// (finding C24-b-echo-quote-escapes)
		p := c24Piece{s: "\\" + r.Pick(c24QuoteEsc), tag: "esc-quote"}
		if mode != 0 {
			p.class = c24Diverge
		}
		return p
	case k < 9:
		// octal
		first := c24Oct[r.Intn(8)]
		n := r.Intn(3)
		s := string(first) + c24Digits(r, c24Oct, n)
		p := c24Piece{s: "\\" + s, tag: "esc-octal"}
		if n < 2 {
			p.hungry = 1
		}
		switch mode {
		case 0:
			// values above \377: interp writes 0xff, bash the low 8 bits (finding C24-octal-escape)
			if n == 2 && first >= '4' {
				p.class = c24Diverge
			}
		case 1:
			// %b: bash reads \0 + up to 3 digits (finding C24-b-octal-zero)
			if first == '0' && n == 2 {
				p.hungry = 1 // a 4th octal digit would be absorbed by bash
			}
			if n == 2 && first >= '4' {
				p.class = c24Diverge
			}
		case 2:
			// echo -e: only \0nnn is an escape in bash (finding C24-echo-octal)
			if first != '0' {
				p.class = c24Diverge
			} else if n == 2 {
				p.hungry = 1
			}
		}
		return p
	case k == 9:
		// octal escape followed by 8 or 9: interp treats them as octal digits (C24-octal-escape)
		return c24Piece{s: "\\" + string(c24Oct[r.Intn(8)]) + r.Pick([]string{"8", "9", "18", "78"}), class: c24Diverge, hungry: 1, tag: "esc-octal-89"}
	case k < 12:
		n := r.Intn(3)
		p := c24Piece{s: "\\x" + c24Digits(r, c24Hex, n), tag: "esc-hex"}
		if n < 2 {
			p.hungry = 2
		}
		return p
	case k < 14:
		// \u / \U
		max := 4
		l := "u"
		if r.Bool() {
			max, l = 8, "U"
		}
		var ds string
		switch r.Intn(6) {
		case 0:
			ds = ""
		case 1:
			ds = r.Pick([]string{"41", "e9", "20ac", "7f", "80", "7ff", "800", "ffff", "0"})
		case 2:
			if max == 8 {
				ds = r.Pick([]string{"0001F600", "10000", "10FFFF", "00000041"})
			} else {
				ds = r.Pick([]string{"00e9", "20AC", "D7FF", "E000"})
			}
		case 3:
			// surrogates / beyond U+10FFFF: interp writes U+FFFD (finding C24-unicode-invalid)
			if max == 8 {
				ds = r.Pick([]string{"110000", "FFFFFFFF", "0000D800", "7FFFFFFF", "80000000"})
			} else {
				ds = r.Pick([]string{"d800", "DFFF", "dc00"})
			}
		default:
			ds = c24Digits(r, c24Hex, r.Intn(max+1))
		}
		p := c24Piece{s: "\\" + l + ds, tag: "esc-unicode"}
		if len(ds) < max {
			p.hungry = 2
		}
		if len(ds) > 0 {
			var v uint64
			fmt.Sscanf(ds, "%x", &v)
			if v > 0x10FFFF || (v >= 0xD800 && v <= 0xDFFF) {
				p.class = c24Diverge
			}
		}
		return p
	case k == 14:
		// \c: literal in a format string; stops output in %b and echo -e (finding C24-backslash-c)
		p := c24Piece{s: "\\c", tag: "esc-c"}
		if mode != 0 {
			p.class = c24Diverge
		}
		return p
	case k == 15 && mode == 0:
		// backslash before %: bash writes the backslash and starts a directive (C24-backslash-percent)
		d := c24Directive(r)
		for d.class == c24Outside {
			d = c24Directive(r)
		}
		d.s, d.class, d.tag = "\\"+d.s, c24Diverge, "esc-percent"
		return d
	default:
		return c24Piece{s: "\\" + r.Pick([]string{"z", "-", " ", "8", "9", "A", "|", "$", "d", "s"}), tag: "esc-unknown"}
	}
}

var c24Flags = []string{"", "", "", "-", "+", " "}
var c24Widths = []string{"", "", "1", "2", "3", "5", "8", "10", "12", "20"}
var c24Zeros = []string{"", "", "", "0", "00"}

func c24Directive(r *Rand) c24Piece {
	switch k := r.Intn(40); {
	case k < 3:
		return c24Piece{s: "%%", tag: "dir-%%"}
	case k < 30:
		verb := "sbcdiuox"[r.Intn(8)]
		if r.Chance(40) {
			verb = "dioxus"[r.Intn(6)]
		}
		flag, zeros, width := r.Pick(c24Flags), r.Pick(c24Zeros), r.Pick(c24Widths)
		p := c24Piece{s: "%" + flag + zeros + width + string(verb), verb: verb, flag: flag,
			width: zeros != "" || width != "", tag: "dir-" + string(verb)}
		switch verb {
		case 's':
			if zeros != "" { // interp zero-pads strings (finding C24-zero-flag-string)
				p.class = c24Diverge
			}
		case 'c', 'b':
			if p.width { // width ignored (finding C24-width-ignored-c-b)
				p.class = c24Diverge
			}
		case 'u', 'o', 'x':
			if flag == "+" || flag == " " { // sign printed for unsigned (finding C24-unsigned-sign-flag)
				p.class = c24Diverge
			}
		}
		return p
	case k < 33:
		// several flags / flags in any order: valid in bash, rejected by interp (C24-multi-flags)
		verb := "sdiuoxcb"[r.Intn(8)]
		fl := r.Pick([]string{"-+", "+-", "- ", " -", "+ ", "0-", "-0", "0+", "+0", " 0", "0 ", "-+0", "--", "++", "00-"})
		return c24Piece{s: "%" + fl + r.Pick(c24Widths) + string(verb), class: c24Diverge, verb: verb, width: true, flag: fl, tag: "dir-multiflag"}
	case k < 35:
		// %% with flags or width: bash rejects
		return c24Piece{s: "%" + r.Pick([]string{"5", "-", "05", "+"}) + "%", class: c24Outside, tag: "dir-%%-width"}
	default:
		// outside the property's directive list or malformed
		s := r.Pick([]string{"%z", "%.3s", "%#x", "%X", "%*d", "%5-d", "%ld", "%5.2d", "%e", "%q", "%5\\nd", "%+\\td", "%B", "%1$s", "%5", "%-", "%"})
		return c24Piece{s: s, class: c24Outside, tag: "dir-malformed"}
	}
}

var c24NumGood = []string{"0", "1", "7", "-1", "42", "-42", "+5", "007", "010", "-010", "0x1F", "0XfF", "-0x10", "+0x10", "255",
	"1000000", "2147483648", "-2147483649", "9223372036854775807", "-9223372036854775808", "0x7fffffffffffffff", "-0", "00", ""}

// out of int64 range: %d clamps in both shells; unsigned verbs differ (finding C24-unsigned-range)
var c24NumBig = []string{"9223372036854775808", "-9223372036854775809", "18446744073709551615", "99999999999999999999", "0xffffffffffffffff", "-99999999999999999999", "01777777777777777777777", "0x8000000000000000"}

// invalid numbers: interp prints 0 with status 0 (finding C24-invalid-number) ...
var c24NumBad = []string{"abc", "12abc", "5 ", "1e3", "3.5", "0x", "0xg", "08", "09", "-", "+", "--5", "+-5", "é", "1 2", "x1", "0x1g", "1-"}

// ... Go-only literal syntax accepted (finding C24-go-int-syntax)
var c24NumGo = []string{"1_000", "0b11", "0o17", "0B1", "0O7", "0x_1", "0_7", "1__0", "_1", "1_"}

// ... leading white space and 'c character codes understood by bash only (finding C24-bash-number-forms)
var c24NumBashOnly = []string{" 5", "\t7", " -3", "'a", "\"a", "'", "'ab", " 0x10", "\n1"}

func c24NumArg(r *Rand, unsigned bool) (string, int, string) {
	switch k := r.Intn(20); {
	case k < 11:
		return r.Pick(c24NumGood), c24Agree, "num-good"
	case k < 13:
		n := int64(r.Uint64())
		if r.Bool() {
			n >>= uint(r.Intn(63))
		}
		switch r.Intn(3) {
		case 0:
			return fmt.Sprintf("%d", n), c24Agree, "num-random"
		case 1:
			if n < 0 {
				return fmt.Sprintf("-0x%x", uint64(-n)), c24Agree, "num-random"
			}
			return fmt.Sprintf("0x%x", n), c24Agree, "num-random"
		default:
			if n < 0 {
				return fmt.Sprintf("-0%o", uint64(-n)), c24Agree, "num-random"
			}
			return fmt.Sprintf("0%o", n), c24Agree, "num-random"
		}
	case k < 15:
		if unsigned {
			return r.Pick(c24NumBig), c24Diverge, "num-big"
		}
		return r.Pick(c24NumBig), c24Agree, "num-big"
	case k < 17:
		return r.Pick(c24NumBad), c24Diverge, "num-bad"
	case k < 18:
		return r.Pick(c24NumGo), c24Diverge, "num-go"
	default:
		return r.Pick(c24NumBashOnly), c24Diverge, "num-bashonly"
	}
}

var c24Strs = []string{"", "a", "abc", "hello world", "-n", "%d", "%s", "\\n", "a\\tb", "é", "€uro", "'", "a'b", "\"", "$x", "x y", "0", "-5", "\\", "abcdefghijklmnop", " ", "a\nb"}

func c24IsASCII(s string) bool {
	for i := 0; i < len(s); i++ {
		if s[i] >= 0x80 {
			return false
		}
	}
	return true
}

// c24Join concatenates pieces, inserting a separator where an escape would absorb the next piece.
func c24Join(ps []c24Piece) (string, int, []string) {
	var sb strings.Builder
	class := 0
	var tags []string
	hungry := 0
	for _, p := range ps {
		if p.s == "" {
			continue
		}
		if hungry != 0 {
			b := p.s[0]
			dec := b >= '0' && b <= '9'
			hexl := (b >= 'a' && b <= 'f') || (b >= 'A' && b <= 'F')
			if dec || (hungry == 2 && hexl) {
				sb.WriteByte('|')
			}
		}
		sb.WriteString(p.s)
		hungry = p.hungry
		if p.class > class {
			class = p.class
		}
		tags = append(tags, p.tag)
	}
	return sb.String(), class, tags
}

// c24EscString builds a %b / echo -e argument.
func c24EscString(r *Rand, mode int, clean bool) (string, int, []string) {
	n := r.Intn(5)
	var ps []c24Piece
	for i := 0; i < n; i++ {
		if r.Chance(55) {
			p := c24Escape(r, mode)
			for clean && p.class != c24Agree {
				p = c24Escape(r, mode)
			}
			ps = append(ps, p)
		} else {
			ps = append(ps, c24Lit(r))
		}
	}
	if r.Chance(8) {
		ps = append(ps, c24Piece{s: "\\", tag: "esc-trailing"})
	}
	return c24Join(ps)
}

func c24GenPrintf(r *Rand, thorough bool) (words []string, class int, tags []string) {
	// clean: draw only material on which interp and bash are expected to agree
	clean := r.Chance(55)
	maxp := 5
	if thorough {
		maxp = 8
	}
	n := 1 + r.Intn(maxp)
	var ps []c24Piece
	for i := 0; i < n; i++ {
		switch k := r.Intn(10); {
		case k < 5:
			p := c24Directive(r)
			for clean && p.class != c24Agree {
				p = c24Directive(r)
			}
			ps = append(ps, p)
		case k < 8:
			p := c24Escape(r, 0)
			for clean && p.class != c24Agree {
				p = c24Escape(r, 0)
			}
			ps = append(ps, p)
		default:
			ps = append(ps, c24Lit(r))
		}
	}
	if r.Chance(5) {
		ps = append(ps, c24Piece{s: "\\", tag: "esc-trailing"})
	}
	format, class, tags := c24Join(ps)
	if clean && strings.HasPrefix(format, "-") {
		format = "|" + format
	}
	if clean {
		tags = append(tags, "clean")
	}
	if strings.HasPrefix(format, "-") {
		// bash parses a leading -… word as an option (finding C24-no-option-parsing)
		if class < c24Diverge {
			class = c24Diverge
		}
		if strings.HasPrefix(format, "-v") {
			class = c24Outside
		}
		tags = append(tags, "format-dash")
	}
	var consuming []c24Piece
	for _, p := range ps {
		if p.verb != 0 && p.class != c24Outside {
			consuming = append(consuming, p)
		}
	}
	// number of arguments: exact, fewer (missing), more (reuse), none
	k := len(consuming)
	nargs := k
	switch r.Intn(10) {
	case 0:
		nargs = 0
	case 1, 2:
		if k > 0 {
			nargs = r.Intn(k + 1)
		}
	case 3, 4, 5:
		nargs = k*(1+r.Intn(3)) + r.Intn(k+1)
	case 6:
		nargs = k + 1 + r.Intn(2)
	}
	if nargs > 9 {
		nargs = 9
	}
	var args []string
	for i := 0; i < nargs; i++ {
		var p c24Piece
		if k > 0 {
			p = consuming[i%k]
		} else {
			p = c24Piece{verb: 's'}
		}
		var a string
		ac := c24Agree
		switch p.verb {
		case 'd', 'i':
			var t string
			a, ac, t = c24NumArg(r, false)
			for clean && ac != c24Agree {
				a, ac, t = c24NumArg(r, false)
			}
			tags = append(tags, t)
		case 'u', 'o', 'x':
			var t string
			a, ac, t = c24NumArg(r, true)
			for clean && ac != c24Agree {
				a, ac, t = c24NumArg(r, true)
			}
			tags = append(tags, t)
		case 'b':
			var ts []string
			a, ac, ts = c24EscString(r, 1, clean)
			tags = append(tags, "barg")
			_ = ts
		default:
			a = r.Pick(c24Strs)
			for clean && p.verb == 's' && p.width && !c24IsASCII(a) {
				a = r.Pick(c24Strs)
			}
			if p.verb == 's' && p.width && !c24IsASCII(a) {
				// interp pads by runes, bash by bytes (finding C24-width-counts-runes)
				ac = c24Diverge
				tags = append(tags, "sarg-nonascii-width")
			}
		}
		if ac > class {
			class = ac
		}
		args = append(args, a)
	}
	return append([]string{format}, args...), class, tags
}

func c24GenEcho(r *Rand) (words []string, class int, tags []string) {
	clean := r.Chance(55)
	// options
	k := r.Intn(12)
	for clean && (k == 6 || k == 7) {
		k = r.Intn(12)
	}
	switch k {
	case 0:
	case 1:
		words = append(words, "-n")
	case 2:
		words = append(words, "-E")
	case 3:
		words = append(words, "-n", "-e")
	case 4:
		words = append(words, "-e", "-n")
	case 5:
		words = append(words, "-E", "-e")
	case 6:
		// combined option words, -E after -e: bash semantics differ (finding C24-echo-options)
		words = append(words, r.Pick([]string{"-ne", "-en", "-nE", "-ee", "-neE", "-eE"}))
		class = c24Diverge
		tags = append(tags, "echo-combined")
	case 7:
		words = append(words, "-e", "-E")
		class = c24Diverge
		tags = append(tags, "echo-e-E")
	default:
		words = append(words, "-e")
	}
	n := r.Intn(4)
	for i := 0; i < n; i++ {
		if r.Chance(10) {
			words = append(words, r.Pick([]string{"-n", "-e", "--", "-", "-x", "-nx", ""}))
			if clean && i == 0 {
				words[len(words)-1] = "--"
			}
			// an option-like word after a non-option word is an ordinary argument in both shells,
			// but directly after the options it continues the option list
			continue
		}
		s, cl, ts := c24EscString(r, 2, clean)
		if cl > class {
			class = cl
		}
		tags = append(tags, ts...)
		words = append(words, s)
	}
	// a word like -nx / -ne / -ee in option position: classify conservatively
	for _, w := range words {
		if len(w) > 2 && w[0] == '-' && strings.Trim(w[1:], "neE") == "" {
			if class < c24Diverge {
				class = c24Diverge
			}
		}
	}
	return words, class, tags
}

// malformed stream: random strings over the metacharacters (model tie only).
func c24GenRaw(r *Rand) (format string, args []string) {
	alpha := []string{"%", "%", "\\", "\\", "0", "1", "5", "7", "8", "9", "-", "+", " ", "d", "s", "b", "c", "x", "u", "U", "o", "i", "n", "a", "f", "e",
		"\xff", "\xc3", "\xa9", "é", ".", "#", "*", "X", "\x00", "'", "g", "A", "F"}
	format = genFrom(r, alpha, 12)
	n := r.Intn(4)
	for i := 0; i < n; i++ {
		switch r.Intn(4) {
		case 0:
			args = append(args, genFrom(r, alpha, 6))
		case 1:
			a, _, _ := c24NumArg(r, false)
			args = append(args, a)
		case 2:
			args = append(args, r.Pick([]string{"\xff", "\xc3\xa9x", "\xe2\x82", "\xed\xa0\x80", "\xf0\x9f\x98\x80", "\xc0\x80", "a\x00b", "\xf4\x90\x80\x80"}))
		default:
			args = append(args, r.Pick(c24Strs))
		}
	}
	return
}

// ---------- one case ----------

func c24RunBuiltin(c *Ctx, cmd string, words []string) string {
	var got string
	for try := 0; try < 3; try++ {
		got = c24ShowShell(runInterp(c, syntax.LangBash, c24Script(cmd, words)))
		if got != "timeout" { // a time-out of an in-process printf can only be machine load
			break
		}
	}
	return got
}

func c24(c *Ctx) {
	c.Rule = "formats built from pieces (directives %[flag][0][width]{s,b,c,d,i,u,o,x}, %%, escapes \\a..\\v \\NNN \\xHH \\uHHHH \\UHHHHHHHH, literals incl. non-ASCII) " +
		"with argument lists (numeric incl. boundary/hex/octal, non-numeric, negative, empty, escape-bearing; fewer/equal/more than the directives consume), " +
		"echo option/argument lists, plus a malformed byte stream; non-trivial = a consuming directive or an escape is present; distinct by exact words"
	var jobs []c24Job
	budget := 250
	if c.Thorough() {
		budget = 600
	}
	addJob := func(cmd string, words []string, class int, interp string, known bool) {
		if known || len(jobs) < budget {
			jobs = append(jobs, c24Job{cmd, append([]string{}, words...), class, interp, known})
		}
	}
	// fmtCase: hook vs model
	fmtCase := func(format string, args []string) {
		c.Op("fmt 0 "+hx(format)+" "+hxs(args), c24Hook(format, args, false))
		c.Op("fmt 1 "+hx(format), c24Hook(format, nil, true))
	}
	builtinCase := func(cmd string, words []string, class int, known bool) {
		if !c24Scriptable(words) {
			return
		}
		got := c24RunBuiltin(c, cmd, words)
		if got == "timeout" {
			c.Hist["interp-timeout-skipped"]++
			return
		}
		c.Op(cmd+" "+hxs(words), got)
		if class == c24Agree && !known {
			c.Op("spec"+cmd+" "+hxs(words), got)
		}
		if class != c24Outside || known {
			addJob(cmd, words, class, got, known)
		}
	}

	// corpus: `printf <hex word>*`, `echo <hex word>*`, `fmt <hex format> <hex arg>*`
	for _, l := range c.CorpusLines() {
		f := strings.Fields(l)
		if len(f) < 1 {
			continue
		}
		var words []string
		for _, h := range f[1:] {
			words = append(words, unhx(h))
		}
		switch f[0] {
		case "sh":
			// a whole script, compared between interp and bash only
			if len(words) == 1 {
				script := words[0]
				got := c24ShowShell(runInterp(c, syntax.LangBash, script))
				want := c24ShowShell(c24RunBash(c, script))
				if got != "timeout" && want != "timeout" && !strings.HasPrefix(want, "error:") && got != want {
					c.Fail(l, fmt.Sprintf("%s: interp %s, bash %s", script, c24Short(got), c24Short(want)))
				}
				c.Case(l, true, "corpus")
			}
		case "printf", "echo":
			if f[0] == "printf" && len(words) > 0 {
				fmtCase(words[0], words[1:])
			}
			builtinCase(f[0], words, c24Diverge, true)
			c.Case(l, true, "corpus")
		case "fmt":
			if len(words) > 0 {
				fmtCase(words[0], words[1:])
			}
			c.Case(l, true, "corpus")
		}
	}

	for i := 0; i < c.N; i++ {
		r := c.R
		switch k := r.Intn(10); {
		case k < 6:
			words, class, tags := c24GenPrintf(r, c.Thorough())
			fmtCase(words[0], words[1:])
			builtinCase("printf", words, class, false)
			nontrivial := false
			for _, t := range tags {
				if strings.HasPrefix(t, "dir-") || strings.HasPrefix(t, "esc-") {
					nontrivial = true
				}
			}
			tags = append(tags, fmt.Sprintf("class=%d", class), fmt.Sprintf("args=%d", len(words)-1))
			c.Case("printf\x00"+strings.Join(words, "\x00"), nontrivial, tags...)
		case k < 8:
			words, class, tags := c24GenEcho(r)
			builtinCase("echo", words, class, false)
			for _, w := range words {
				c.Op("fmt 1 "+hx(w), c24Hook(w, nil, true))
			}
			tags = append(tags, fmt.Sprintf("echo-class=%d", class))
			c.Case("echo\x00"+strings.Join(words, "\x00"), len(words) > 1, tags...)
		default:
			format, args := c24GenRaw(r)
			fmtCase(format, args)
			builtinCase("printf", append([]string{format}, args...), c24Outside, false)
			c.Case("raw\x00"+format+"\x00"+strings.Join(args, "\x00"), strings.ContainsAny(format, "%\\"), "raw")
		}
	}

	// ---- bash leg ----
	res := parallelMap(len(jobs), 4, func(i int) string {
		j := jobs[i]
		return c24ShowShell(c24RunBash(c, c24Script(j.cmd, j.words)))
	})
	nb := 0
	for i, j := range jobs {
		bash := res[i]
		if strings.HasPrefix(bash, "timeout") || strings.HasPrefix(bash, "error:") {
			c.Hist["bash-skipped:"+bash[:7]]++
			if os.Getenv("C24_DEBUG") != "" {
				fmt.Fprintf(os.Stderr, "skipped %q: %s\n", c24Script(j.cmd, j.words), bash)
			}
			continue
		}
		nb++
		witness := j.cmd + " " + hxs(j.words)
		// the specification against real bash (validates the Lean spec, not the implementation);
		// skipped for the one huge-output witness
		if len(bash) < 1<<16 {
			c.Op("bash"+j.cmd+" "+hxs(j.words), bash)
		}
		if (j.known || j.class == c24Agree) && bash != j.interp {
			c.Fail(witness, fmt.Sprintf("%s: interp %s, bash %s", c24Script(j.cmd, j.words), c24Short(j.interp), c24Short(bash)))
		}
	}
	c.Extra["bash_runs"] = nb
}
