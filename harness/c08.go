//go:build c08 || all

package main

import (
	"bytes"
	"errors"
	"fmt"
	"io"
	"reflect"
	"strconv"
	"strings"
	"sync"
	"time"

	"mvdan.cc/sh/v3/syntax"
)

// C08 — Streaming, interactive and reused parsers agree with Parse.
//
// Correspondence streams (Lean driver ShVerif/Driver/C08.lean):
//   fields P|Q          reflection view of Parser/Printer = regenerated field list
//   psnap P|Q cfg…      field values after reset() following an arbitrary history = the values the
//                       regenerated reset() table predicts (scratch/entry fields excluded)
//   glue stop ev…       callbacks of the real InteractiveSeq (and the Go runtime panic) = model run
//                       over the event trace recorded from the real parser (StmtsSeq + probing reader)
//   axioms ev…          trace hypotheses A0/A1/A2 hold on the real trace
//   seq stop 0 step…    yields of the real StmtsSeq (consumer stopping at its k-th call) = model
//   specran / specseq   the property itself on the implementation
// Search leg (independent of Lean, all c.Fail):
//   seq     StmtsSeq statements (positions included) == Parse(...).Stmts, same error
//   inter   InteractiveSeq fed one line at a time: statements of the runnable callbacks == Parse's,
//           Incomplete() only while a statement is unfinished (sentinel-line oracle), no error
//   preuse  a Parser used on 1–5 earlier inputs (any entry point, stopped early, erroring, other
//           options) gives the same result as a fresh one
//   qreuse  the same for a Printer (earlier nodes, failing writers, other options)
func init() { register("C08", c08) }

// ---------------------------------------------------------------------------------------------
// options

type c08PO struct {
	lang syntax.LangVariant
	keep bool
	rec  int
	stop string
}

func c08LangByName(s string) (syntax.LangVariant, bool) {
	for _, l := range allLangs {
		if langName(l) == s {
			return l, true
		}
	}
	return 0, false
}

func (o c08PO) key() string {
	k := 0
	if o.keep {
		k = 1
	}
	return fmt.Sprintf("l=%s,kc=%d,rec=%d,stop=%s", langName(o.lang), k, o.rec, hx(o.stop))
}

func c08ParsePO(s string) (o c08PO, ok bool) {
	parts := strings.Split(s, ",")
	if len(parts) != 4 {
		return o, false
	}
	for _, p := range parts {
		kv := strings.SplitN(p, "=", 2)
		if len(kv) != 2 {
			return o, false
		}
		switch kv[0] {
		case "l":
			l, ok := c08LangByName(kv[1])
			if !ok {
				return o, false
			}
			o.lang = l
		case "kc":
			o.keep = kv[1] == "1"
		case "rec":
			n, err := strconv.Atoi(kv[1])
			if err != nil {
				return o, false
			}
			o.rec = n
		case "stop":
			o.stop = unhx(kv[1])
		default:
			return o, false
		}
	}
	return o, true
}

func (o c08PO) fresh() *syntax.Parser {
	opts := []syntax.ParserOption{syntax.Variant(o.lang), syntax.KeepComments(o.keep), syntax.RecoverErrors(o.rec)}
	if o.stop != "" {
		opts = append(opts, syntax.StopAt(o.stop))
	}
	return syntax.NewParser(opts...)
}

// applyTo sets the re-settable options on an existing parser (StopAt cannot be unset).
func (o c08PO) applyTo(p *syntax.Parser) {
	syntax.Variant(o.lang)(p)
	syntax.KeepComments(o.keep)(p)
	syntax.RecoverErrors(o.rec)(p)
}

type c08QO struct {
	indent                                       uint
	bin, swt, redir, pad, minify, single, funcNL bool
}

func (q c08QO) key() string {
	s := fmt.Sprintf("i%d", q.indent)
	for _, f := range []struct {
		b bool
		c string
	}{{q.bin, "b"}, {q.swt, "c"}, {q.redir, "r"}, {q.pad, "p"}, {q.minify, "m"}, {q.single, "s"}, {q.funcNL, "f"}} {
		if f.b {
			s += f.c
		}
	}
	return s
}

func c08ParseQO(s string) (q c08QO, ok bool) {
	if !strings.HasPrefix(s, "i") {
		return q, false
	}
	i := 1
	for i < len(s) && s[i] >= '0' && s[i] <= '9' {
		i++
	}
	n, err := strconv.Atoi(s[1:i])
	if err != nil {
		return q, false
	}
	q.indent = uint(n)
	for _, c := range s[i:] {
		switch c {
		case 'b':
			q.bin = true
		case 'c':
			q.swt = true
		case 'r':
			q.redir = true
		case 'p':
			q.pad = true
		case 'm':
			q.minify = true
		case 's':
			q.single = true
		case 'f':
			q.funcNL = true
		default:
			return q, false
		}
	}
	return q, true
}

func (q c08QO) opts() []syntax.PrinterOption {
	return []syntax.PrinterOption{syntax.Indent(q.indent), syntax.BinaryNextLine(q.bin), syntax.SwitchCaseIndent(q.swt),
		syntax.SpaceRedirects(q.redir), syntax.KeepPadding(q.pad), syntax.Minify(q.minify), syntax.SingleLine(q.single), syntax.FunctionNextLine(q.funcNL)}
}

func (q c08QO) applyTo(p *syntax.Printer) {
	for _, o := range q.opts() {
		o(p)
	}
}

func (q c08QO) cfg() []string {
	return []string{fmt.Sprintf("indentSpaces=%d", q.indent), fmt.Sprintf("binNextLine=%v", q.bin), fmt.Sprintf("swtCaseIndent=%v", q.swt),
		fmt.Sprintf("spaceRedirects=%v", q.redir), fmt.Sprintf("keepPadding=%v", q.pad), fmt.Sprintf("minify=%v", q.minify),
		fmt.Sprintf("singleLine=%v", q.single), fmt.Sprintf("funcNextLine=%v", q.funcNL)}
}

// ---------------------------------------------------------------------------------------------
// tree dump with full positions

var c08PosType = reflect.TypeOf(syntax.Pos{})

func c08DumpV(sb *strings.Builder, v reflect.Value) {
	switch v.Kind() {
	case reflect.Interface, reflect.Pointer:
		if v.IsNil() {
			sb.WriteString("nil")
			return
		}
		if v.Kind() == reflect.Pointer {
			sb.WriteByte('*')
		}
		c08DumpV(sb, v.Elem())
	case reflect.Slice:
		fmt.Fprintf(sb, "[%d:", v.Len())
		for i := 0; i < v.Len(); i++ {
			if i > 0 {
				sb.WriteByte(' ')
			}
			c08DumpV(sb, v.Index(i))
		}
		sb.WriteByte(']')
	case reflect.Struct:
		if v.Type() == c08PosType {
			p := v.Interface().(syntax.Pos)
			switch {
			case p.IsRecovered():
				sb.WriteString("@R")
			case !p.IsValid():
				sb.WriteString("@-")
			default:
				fmt.Fprintf(sb, "@%d:%d:%d", p.Offset(), p.Line(), p.Col())
			}
			return
		}
		t := v.Type()
		sb.WriteString(t.Name())
		sb.WriteByte('{')
		for i := 0; i < t.NumField(); i++ {
			if i > 0 {
				sb.WriteByte(' ')
			}
			sb.WriteString(t.Field(i).Name)
			sb.WriteByte('=')
			c08DumpV(sb, v.Field(i))
		}
		sb.WriteByte('}')
	case reflect.String:
		fmt.Fprintf(sb, "%q", v.String())
	case reflect.Bool:
		fmt.Fprint(sb, v.Bool())
	case reflect.Int, reflect.Int8, reflect.Int16, reflect.Int32, reflect.Int64:
		fmt.Fprint(sb, v.Int())
	case reflect.Uint, reflect.Uint8, reflect.Uint16, reflect.Uint32, reflect.Uint64:
		fmt.Fprint(sb, v.Uint())
	default:
		fmt.Fprintf(sb, "?%s", v.Kind())
	}
}

func c08Dump(n any) string {
	if n == nil {
		return "nil"
	}
	var sb strings.Builder
	c08DumpV(&sb, reflect.ValueOf(n))
	return sb.String()
}

func c08Err(err error) string {
	if err == nil {
		return "<nil>"
	}
	return err.Error()
}

func c08DumpStmts(ss []*syntax.Stmt) []string {
	out := make([]string, len(ss))
	for i, s := range ss {
		if s == nil {
			out[i] = "nil"
		} else {
			out[i] = c08Dump(s)
		}
	}
	return out
}

func c08FirstDiff(a, b []string) string {
	for i := 0; i < len(a) || i < len(b); i++ {
		var x, y string
		if i < len(a) {
			x = a[i]
		} else {
			x = "<missing>"
		}
		if i < len(b) {
			y = b[i]
		} else {
			y = "<missing>"
		}
		if x != y {
			return fmt.Sprintf("statement %d: %s vs %s", i, c08Short(x), c08Short(y))
		}
	}
	return ""
}

func c08Short(s string) string {
	if len(s) > 160 {
		return s[:160] + "…"
	}
	return s
}

// withTimeout runs f on its own goroutine; ok=false when it did not return in time (treated as
// "skip" by the callers: the machine may be loaded; hangs are C06's subject).
func c08Timeout(d time.Duration, f func()) (ok bool) {
	done := make(chan struct{})
	go func() {
		defer close(done)
		f()
	}()
	select {
	case <-done:
		return true
	case <-time.After(d):
		return false
	}
}

// ---------------------------------------------------------------------------------------------
// entry points on a given (possibly reused) parser; canonical result

var c08Entries = []string{"parse", "stmts", "stmts1", "inter", "inter1", "words", "words1", "doc", "arith", "stmtsfn", "interfn", "wordsfn"}

func c08RunEntry(p *syntax.Parser, entry, src string) (res string, panicked string) {
	var sb strings.Builder
	panicked = safely(func() {
		rd := strings.NewReader(src)
		switch entry {
		case "parse":
			f, err := p.Parse(rd, "")
			sb.WriteString(c08Dump(f) + " err=" + c08Err(err))
		case "stmts", "stmts1":
			for s, err := range p.StmtsSeq(rd) {
				sb.WriteString(c08Dump(s) + " err=" + c08Err(err) + ";")
				if entry == "stmts1" {
					break
				}
			}
		case "inter", "inter1":
			for ss, err := range p.InteractiveSeq(rd) {
				fmt.Fprintf(&sb, "cb inc=%v err=%s %s;", p.Incomplete(), c08Err(err), strings.Join(c08DumpStmts(ss), ","))
				if entry == "inter1" {
					break
				}
			}
		case "words", "words1":
			for w, err := range p.WordsSeq(rd) {
				sb.WriteString(c08Dump(w) + " err=" + c08Err(err) + ";")
				if entry == "words1" {
					break
				}
			}
		case "stmtsfn": // the deprecated callback wrappers
			n := 0
			err := p.Stmts(rd, func(s *syntax.Stmt) bool {
				sb.WriteString(c08Dump(s) + ";")
				n++
				return n < 3
			})
			sb.WriteString(" err=" + c08Err(err))
		case "interfn":
			n := 0
			err := p.Interactive(rd, func(ss []*syntax.Stmt) bool {
				fmt.Fprintf(&sb, "cb inc=%v %s;", p.Incomplete(), strings.Join(c08DumpStmts(ss), ","))
				n++
				return n < 3
			})
			sb.WriteString(" err=" + c08Err(err))
		case "wordsfn":
			n := 0
			err := p.Words(rd, func(w *syntax.Word) bool {
				sb.WriteString(c08Dump(w) + ";")
				n++
				return n < 3
			})
			sb.WriteString(" err=" + c08Err(err))
		case "doc":
			w, err := p.Document(rd)
			sb.WriteString(c08Dump(w) + " err=" + c08Err(err))
		case "arith":
			e, err := p.Arithmetic(rd)
			sb.WriteString(c08Dump(e) + " err=" + c08Err(err))
		default:
			panic("unknown entry " + entry)
		}
	})
	return sb.String(), panicked
}

// ---------------------------------------------------------------------------------------------
// line-at-a-time feeding

// c08Feeder hands out one chunk (a line, or a piece of a long line) per Read call: a Read call is
// exactly the moment the parser would block on a pipe that has been written one line at a time.
type c08Feeder struct {
	chunks    []string
	i         int
	calls     int
	maxCalls  int // ≥ 0: Read call number maxCalls (0-based) and all later ones return EOF
	linesDone int
	aligned   bool
	onRead    func(f *c08Feeder)
}

func c08Chunks(src string) []string {
	var out []string
	for _, l := range strings.SplitAfter(src, "\n") {
		for len(l) > 512 {
			out = append(out, l[:512])
			l = l[512:]
		}
		if l != "" {
			out = append(out, l)
		}
	}
	return out
}

func newC08Feeder(src string, maxCalls int) *c08Feeder {
	return &c08Feeder{chunks: c08Chunks(src), maxCalls: maxCalls, aligned: true}
}

func (f *c08Feeder) Read(p []byte) (int, error) {
	if f.onRead != nil {
		f.onRead(f)
	}
	call := f.calls
	f.calls++
	if f.maxCalls >= 0 && call >= f.maxCalls {
		return 0, io.EOF
	}
	if f.i >= len(f.chunks) {
		return 0, io.EOF
	}
	c := f.chunks[f.i]
	n := copy(p, c)
	if n < len(c) {
		f.chunks[f.i] = c[n:]
		f.aligned = false
		return n, nil
	}
	f.i++
	f.aligned = strings.HasSuffix(c, "\n")
	if f.aligned {
		f.linesDone++
	}
	return n, nil
}

type c08Cb struct {
	stmts    []*syntax.Stmt
	inc      bool
	err      error
	lines    int  // complete lines handed to the parser so far
	aligned  bool // everything handed over so far ends at a line end
	calls    int  // Read calls on the feeder so far
	fromRead bool // diagnostic only: the callback came while the parser was asking for bytes
}

// c08Sample: Parser.Incomplete() observed while the parser is blocked in a Read (every Read, not
// only those that lead to a callback), plus the literal buffer probed through the hook.
type c08Sample struct {
	lines   int
	aligned bool
	inc     bool
	litLen  int
	open    int
}

type c08InterRes struct {
	samples  []c08Sample
	cbs      []c08Cb
	panicked string
	calls    int // Read calls on the feeder when the consumer stopped (or at the end)
}

// c08Interactive runs the real InteractiveSeq over src fed one line per Read; the consumer
// returns false at its stopAt-th callback (0-based; <0: never).
func c08Interactive(p *syntax.Parser, src string, stopAt int) (r c08InterRes) {
	fd := newC08Feeder(src, -1)
	stopCalls := -1
	fd.onRead = func(f *c08Feeder) {
		pr := syntax.VerifC08ProbeParser(p)
		r.samples = append(r.samples, c08Sample{lines: f.linesDone, aligned: f.aligned, inc: p.Incomplete(), litLen: pr.LitLen, open: pr.OpenNodes})
	}
	r.panicked = safely(func() {
		for ss, err := range p.InteractiveSeq(fd) {
			cb := c08Cb{stmts: append([]*syntax.Stmt(nil), ss...), inc: p.Incomplete(), err: err, lines: fd.linesDone, aligned: fd.aligned, calls: fd.calls}
			r.cbs = append(r.cbs, cb)
			if len(r.cbs)-1 == stopAt {
				stopCalls = fd.calls
				break
			}
		}
	})
	r.calls = fd.calls
	if stopCalls >= 0 {
		r.calls = stopCalls
	}
	return r
}

// c08PipeProbe sits between the parser and an io.Pipe: it counts the Read calls that have
// started and completed (the parser is blocked on the empty pipe iff started > completed) and
// the bytes received.
type c08PipeProbe struct {
	mu        sync.Mutex
	r         io.Reader
	started   int
	completed int
	lines     int
	aligned   bool
}

func (p *c08PipeProbe) Read(b []byte) (int, error) {
	p.mu.Lock()
	p.started++
	p.mu.Unlock()
	n, err := p.r.Read(b)
	p.mu.Lock()
	p.completed++
	if n > 0 {
		p.lines += bytes.Count(b[:n], []byte{'\n'})
		p.aligned = b[n-1] == '\n'
	}
	p.mu.Unlock()
	return n, err
}

func (p *c08PipeProbe) blocked() bool {
	p.mu.Lock()
	defer p.mu.Unlock()
	return p.started > p.completed
}

// c08InteractivePipe feeds src through a real io.Pipe, one line per Write, each written only
// once the parser is blocked in a Read on the empty pipe (or has finished).  ok=false: some wait
// exceeded its time budget (machine load); the case is skipped.
func c08InteractivePipe(ps *syntax.Parser, src string) (r c08InterRes, ok bool) {
	pr, pw := io.Pipe()
	probe := &c08PipeProbe{r: pr, aligned: true}
	done := make(chan struct{})
	var mu sync.Mutex
	go func() {
		defer close(done)
		pn := safely(func() {
			for ss, err := range ps.InteractiveSeq(probe) {
				probe.mu.Lock()
				cb := c08Cb{stmts: append([]*syntax.Stmt(nil), ss...), inc: ps.Incomplete(), err: err, lines: probe.lines, aligned: probe.aligned, calls: probe.started}
				probe.mu.Unlock()
				mu.Lock()
				r.cbs = append(r.cbs, cb)
				mu.Unlock()
			}
		})
		mu.Lock()
		r.panicked = pn
		mu.Unlock()
		pr.Close()
	}()
	finished := func() bool {
		select {
		case <-done:
			return true
		default:
			return false
		}
	}
	waitBlocked := func() bool {
		deadline := time.Now().Add(20 * time.Second)
		for !probe.blocked() && !finished() {
			if time.Now().After(deadline) {
				return false
			}
			time.Sleep(20 * time.Microsecond)
		}
		return true
	}
	abort := func() (c08InterRes, bool) {
		pw.CloseWithError(errC08Write)
		select {
		case <-done:
		case <-time.After(20 * time.Second):
		}
		return c08InterRes{}, false
	}
	for _, ch := range c08Chunks(src) {
		if !waitBlocked() {
			return abort()
		}
		if finished() {
			break
		}
		wrote := make(chan struct{})
		go func() { pw.Write([]byte(ch)); close(wrote) }()
		select {
		case <-wrote:
		case <-done:
		case <-time.After(20 * time.Second):
			return abort()
		}
	}
	if !waitBlocked() {
		return abort()
	}
	pw.Close()
	select {
	case <-done:
	case <-time.After(20 * time.Second):
		return abort()
	}
	mu.Lock()
	defer mu.Unlock()
	return c08InterRes{cbs: r.cbs, panicked: r.panicked}, true
}

// c08Sentinel is a line that parses as one separate simple command exactly when the text before
// it ends between statements.
const c08Sentinel = "C08SENTINELWORD"

// c08Finished reports whether the first k lines end between statements: followed by a sentinel
// line they parse, and the sentinel is a separate last top-level statement on line k+1.
func c08Finished(o c08PO, lines []string, k int) bool {
	if k == 0 {
		return true
	}
	pre := strings.Join(lines[:k], "") + c08Sentinel + "\n"
	f, err, pn := parseIn(pre, o.lang, syntax.KeepComments(o.keep))
	if pn != "" || err != nil || f == nil || len(f.Stmts) == 0 {
		return false
	}
	s := f.Stmts[len(f.Stmts)-1]
	if s.Negated || s.Background || s.Coprocess || s.Disown || len(s.Redirs) > 0 || int(s.Pos().Line()) != k+1 {
		return false
	}
	ce, ok := s.Cmd.(*syntax.CallExpr)
	if !ok || len(ce.Assigns) != 0 || len(ce.Args) != 1 || len(ce.Args[0].Parts) != 1 {
		return false
	}
	l, ok := ce.Args[0].Parts[0].(*syntax.Lit)
	return ok && l.Value == c08Sentinel
}

// c08LastLineTerminated: src ends in a newline that is not escaped by a backslash.
func c08LastLineTerminated(src string) bool {
	if !strings.HasSuffix(src, "\n") {
		return false
	}
	i := len(src) - 2
	if i >= 0 && src[i] == '\r' {
		i-- // `\\\r\n` is an escaped newline too
	}
	n := 0
	for ; i >= 0 && src[i] == '\\'; i-- {
		n++
	}
	return n%2 == 0
}

func c08Lines(src string) []string {
	ls := strings.SplitAfter(src, "\n")
	if len(ls) > 0 && ls[len(ls)-1] == "" {
		ls = ls[:len(ls)-1]
	}
	return ls
}

// c08Trace records the parser event trace of StmtsSeq over src (Read calls from maxCalls on
// return EOF): what wrappedReader.Read and the InteractiveSeq loop would look at.
type c08TraceRes struct {
	evs      []string
	steps    []string
	stmts    []*syntax.Stmt
	panicked string
	noOracle bool // some nl-read happened at an unaligned point: no ghost available
	hasErr   bool
	fin      string // f:<err>:<open>:<lit>: the parser state when StmtsSeq has finished
}

func c08Trace(o c08PO, src string, maxCalls int, oracle bool) (t c08TraceRes) {
	p := o.fresh()
	lines := c08Lines(src)
	fd := newC08Feeder(src, maxCalls)
	b := func(x bool) string {
		if x {
			return "1"
		}
		return "0"
	}
	fin := map[int]bool{}
	fd.onRead = func(f *c08Feeder) {
		pr := syntax.VerifC08ProbeParser(p)
		ins := pr.OpenNodes > 0 || pr.LitLen > 0
		if pr.NL {
			if oracle && f.aligned && f.linesDone <= len(lines) {
				v, ok := fin[f.linesDone]
				if !ok {
					v = c08Finished(o, lines, f.linesDone)
					fin[f.linesDone] = v
				}
				ins = !v
			} else {
				t.noOracle = true
			}
		}
		if pr.HasErr {
			t.hasErr = true
		}
		t.evs = append(t.evs, fmt.Sprintf("r:%s:%d:%d:%d:%s:%s", b(pr.NL), pr.Line, pr.OpenNodes, pr.LitLen, b(pr.HasErr), b(ins)))
	}
	id := 0
	sawErr := false
	t.panicked = safely(func() {
		for s, err := range p.StmtsSeq(fd) {
			pr := syntax.VerifC08ProbeParser(p)
			ids := "-"
			if s != nil {
				ids = strconv.Itoa(id)
				id++
				t.stmts = append(t.stmts, s)
				t.steps = append(t.steps, fmt.Sprintf("s%s:%s", ids, b(err != nil)))
			} else if !sawErr {
				t.steps = append(t.steps, "n:1")
			}
			if err != nil {
				sawErr = true
				t.hasErr = true
			}
			t.evs = append(t.evs, fmt.Sprintf("s:%s:%s:%s:%d:%d:%d", ids, b(err != nil), b(pr.TokNewl), pr.Line, pr.OpenNodes, pr.LitLen))
		}
	})
	pr := syntax.VerifC08ProbeParser(p)
	t.fin = fmt.Sprintf("f:%s:%d:%d", b(pr.HasErr), pr.OpenNodes, pr.LitLen)
	return t
}

// c08ShowCbs renders real callbacks like the driver's showG: ids by first appearance.
func c08ShowCbs(r c08InterRes) (line string, ran []int) {
	ids := map[*syntax.Stmt]int{}
	var parts []string
	for _, cb := range r.cbs {
		var is []string
		for _, s := range cb.stmts {
			if s == nil {
				is = append(is, "x")
				continue
			}
			n, ok := ids[s]
			if !ok {
				n = len(ids)
				ids[s] = n
			}
			is = append(is, strconv.Itoa(n))
			if !cb.inc && cb.err == nil {
				ran = append(ran, n)
			}
		}
		l := "-"
		if len(is) > 0 {
			l = strings.Join(is, ",")
		}
		bi, be := "0", "0"
		if cb.inc {
			bi = "1"
		}
		if cb.err != nil {
			be = "1"
		}
		parts = append(parts, "c:"+l+":"+bi+":"+be)
	}
	if r.panicked != "" {
		parts = append(parts, "end=panic")
	} else {
		parts = append(parts, "end=ok")
	}
	return strings.Join(parts, " "), ran
}

func c08Ints(xs []int) string {
	if len(xs) == 0 {
		return "-"
	}
	ps := make([]string, len(xs))
	for i, x := range xs {
		ps[i] = strconv.Itoa(x)
	}
	return strings.Join(ps, ",")
}

// ---------------------------------------------------------------------------------------------
// the four search legs; each returns ("", …) or a description of the violation

// seq: StmtsSeq vs Parse, any input.
func c08CheckSeq(o c08PO, src string) (what string, parsed bool) {
	var f *syntax.File
	var perr error
	if pn := safely(func() { f, perr = o.fresh().Parse(strings.NewReader(src), "") }); pn != "" {
		return "", false // panics are C06's subject
	}
	var ss []*syntax.Stmt
	var last error
	n := 0
	if pn := safely(func() {
		for s, err := range o.fresh().StmtsSeq(strings.NewReader(src)) {
			n++
			if s != nil {
				ss = append(ss, s)
			}
			if err != nil {
				last = err
			}
		}
	}); pn != "" {
		return "", false
	}
	if d := c08FirstDiff(c08DumpStmts(ss), c08DumpStmts(f.Stmts)); d != "" {
		return "StmtsSeq and Parse disagree: " + d, perr == nil
	}
	if c08Err(last) != c08Err(perr) {
		return fmt.Sprintf("StmtsSeq's error %q differs from Parse's %q", c08Err(last), c08Err(perr)), perr == nil
	}
	return "", perr == nil
}

// inter: InteractiveSeq fed line by line vs Parse, parseable input.
func c08CheckInter(o c08PO, src string, pipe bool) (what string, stats map[string]int) {
	stats = map[string]int{}
	var f *syntax.File
	var perr error
	if pn := safely(func() { f, perr = o.fresh().Parse(strings.NewReader(src), "") }); pn != "" || perr != nil {
		stats["not-parseable"]++
		return "", stats
	}
	var r c08InterRes
	if pipe {
		var ok bool
		if r, ok = c08InteractivePipe(o.fresh(), src); !ok {
			stats["pipe-timeout-skipped"]++
			return "", stats
		}
		stats["fed-through-io.Pipe"]++
	} else {
		r = c08Interactive(o.fresh(), src, -1)
	}
	if r.panicked != "" {
		return "InteractiveSeq panicked: " + r.panicked, stats
	}
	lines := c08Lines(src)
	var ran []*syntax.Stmt
	for i, cb := range r.cbs {
		if cb.err != nil {
			return fmt.Sprintf("callback %d reports error %q for a program that parses", i, cb.err), stats
		}
		if cb.inc {
			stats["incomplete-callbacks"]++
			if cb.aligned && cb.lines <= len(lines) {
				if c08Finished(o, lines, cb.lines) {
					return fmt.Sprintf("callback %d after line %d reports Incomplete() although no statement is unfinished there (the first %d lines followed by a separate command parse with that command as its own statement)", i, cb.lines, cb.lines), stats
				}
			} else {
				stats["incomplete-unaligned-not-judged"]++
			}
			continue
		}
		if len(cb.stmts) == 0 {
			stats["empty-callbacks"]++
			if cb.aligned && cb.lines <= len(lines) && !c08Finished(o, lines, cb.lines) {
				stats["prompt-miss(not-incomplete-inside-statement)"]++
			}
		}
		ran = append(ran, cb.stmts...)
	}
	if d := c08FirstDiff(c08DumpStmts(ran), c08DumpStmts(f.Stmts)); d != "" {
		return "statements of the non-incomplete callbacks differ from Parse's: " + d, stats
	}
	stats["callbacks"] += len(r.cbs)
	return "", stats
}

// incl: Incomplete() after EVERY line, any input (parseable or not, reuse history or not): while
// the parser is blocked at the end of line k, Incomplete() may be true only if a statement is
// unfinished there (sentinel-line oracle on a fresh parser).  With a history, the parser was used
// before through other entry points.
func c08CheckIncompleteLines(p *syntax.Parser, o c08PO, src string) (what string, stats map[string]int) {
	stats = map[string]int{}
	r := c08Interactive(p, src, -1)
	if r.panicked != "" {
		return "", stats // C06's subject
	}
	lines := c08Lines(src)
	seen := map[int]bool{}
	for _, sm := range r.samples {
		if !sm.aligned || sm.lines > len(lines) {
			continue
		}
		stats["incl-samples"]++
		fin, ok := seen[sm.lines]
		if !ok {
			fin = c08Finished(o, lines, sm.lines)
			seen[sm.lines] = fin
		}
		if sm.inc {
			stats["incl-incomplete"]++
		}
		if fin && sm.inc {
			return fmt.Sprintf("blocked after line %d: Incomplete() is true (openNodes=%d, len(litBs)=%d) although no statement is unfinished there (the first %d lines followed by a separate command parse with that command as its own statement)", sm.lines, sm.open, sm.litLen, sm.lines), stats
		}
		if !fin && !sm.inc {
			stats["incl-prompt-miss(not-incomplete-inside-statement)"]++
		}
	}
	return "", stats
}

// c08LineSoup: programs built line by line from the things an interactive user types: comments
// (also ending in a backslash), blank lines, lone backslashes, continuation lines, unfinished and
// finished quotes / here-documents / compound commands.
var c08SoupLines = []string{
	"# c", "# ./configure --prefix=/usr \\", "#\\", "# a \\ b", "", "   ", "\t", "\\", " \\", "echo a", "echo a \\", "echo a # c \\", "a=1 # \\",
	"echo 'a", "b'", "echo \"a", "b\"", "cat <<EOF", "body # \\", "EOF", "cat <<-'E'", "\tE", "if a; then", "fi", "foo() {", "}", "echo $(", ")",
	"echo $(# c \\", "echo `a", "b`", "a &&", "b |", "c", "{ a; # x \\", "( # \\", "case x in # \\", "a) b ;; # \\", "esac", "[[ a ==", "b ]]", "echo a; # \\",
}

func (g *c08Gen) lineSoup() string {
	r := g.r
	var sb strings.Builder
	for i, n := 0, 2+r.Intn(7); i < n; i++ {
		sb.WriteString(r.Pick(c08SoupLines))
		if i < n-1 || r.Chance(80) {
			if r.Chance(5) {
				sb.WriteString("\r")
			}
			sb.WriteString("\n")
		}
	}
	return sb.String()
}

type c08Hist struct {
	entry string
	o     c08PO
	src   string
}

func (h c08Hist) key() string { return h.entry + "/" + h.o.key() + "/" + hx(h.src) }

func c08ParseHist(s string) (hs []c08Hist, ok bool) {
	if s == "-" || s == "" {
		return nil, true
	}
	for _, it := range strings.Split(s, "+") {
		p := strings.Split(it, "/")
		if len(p) != 3 {
			return nil, false
		}
		o, ok := c08ParsePO(p[1])
		if !ok {
			return nil, false
		}
		hs = append(hs, c08Hist{p[0], o, unhx(p[2])})
	}
	return hs, true
}

func c08HistKey(hs []c08Hist) string {
	if len(hs) == 0 {
		return "-"
	}
	ps := make([]string, len(hs))
	for i, h := range hs {
		ps[i] = h.key()
	}
	return strings.Join(ps, "+")
}

// c08UsedParser builds a parser with o's StopAt and runs the history on it.
func c08UsedParser(o c08PO, hist []c08Hist) (p *syntax.Parser, panics int) {
	p = c08PO{lang: syntax.LangBash, stop: o.stop}.fresh()
	for _, h := range hist {
		h.o.applyTo(p)
		if _, pn := c08RunEntry(p, h.entry, h.src); pn != "" {
			panics++
		}
	}
	o.applyTo(p)
	return p, panics
}

// preuse: reused parser vs fresh parser.
func c08CheckPReuse(o c08PO, entry, src string, hist []c08Hist) (what string, histPanics int) {
	p, panics := c08UsedParser(o, hist)
	got, pn1 := c08RunEntry(p, entry, src)
	want, pn2 := c08RunEntry(o.fresh(), entry, src)
	if pn1 != pn2 {
		return fmt.Sprintf("reused parser: panic %q, fresh parser: panic %q", pn1, pn2), panics
	}
	if got != want {
		return "reused parser gives " + c08Short(c08DiffAt(got, want)), panics
	}
	return "", panics
}

func c08DiffAt(a, b string) string {
	i := 0
	for i < len(a) && i < len(b) && a[i] == b[i] {
		i++
	}
	s := i - 60
	if s < 0 {
		s = 0
	}
	ea, eb := i+80, i+80
	if ea > len(a) {
		ea = len(a)
	}
	if eb > len(b) {
		eb = len(b)
	}
	return fmt.Sprintf("%q where a fresh one gives %q (first difference at byte %d of the canonical result)", a[s:ea], b[s:eb], i)
}

// printable nodes of a file in Walk order; index 0 is the file
func c08Printable(f *syntax.File) []syntax.Node {
	var out []syntax.Node
	syntax.Walk(f, func(n syntax.Node) bool {
		switch n.(type) {
		case *syntax.File, *syntax.Stmt, syntax.Command, *syntax.Word, syntax.WordPart, *syntax.Assign:
			out = append(out, n)
		}
		return true
	})
	return out
}

type c08QHist struct {
	q      c08QO
	lang   syntax.LangVariant
	sel    int
	failAt int
	src    string
}

func (h c08QHist) key() string {
	return fmt.Sprintf("%s/%s/%d/%d/%s", h.q.key(), langName(h.lang), h.sel, h.failAt, hx(h.src))
}

func c08ParseQHist(s string) (hs []c08QHist, ok bool) {
	if s == "-" || s == "" {
		return nil, true
	}
	for _, it := range strings.Split(s, "+") {
		p := strings.Split(it, "/")
		if len(p) != 5 {
			return nil, false
		}
		q, ok := c08ParseQO(p[0])
		l, ok2 := c08LangByName(p[1])
		sel, e1 := strconv.Atoi(p[2])
		fa, e2 := strconv.Atoi(p[3])
		if !ok || !ok2 || e1 != nil || e2 != nil {
			return nil, false
		}
		hs = append(hs, c08QHist{q, l, sel, fa, unhx(p[4])})
	}
	return hs, true
}

type c08FailWriter struct {
	left int
	w    io.Writer
}

var errC08Write = errors.New("c08: write failed")

func (w *c08FailWriter) Write(p []byte) (int, error) {
	if w.left < 0 {
		return w.w.Write(p)
	}
	if len(p) > w.left {
		n, _ := w.w.Write(p[:w.left])
		w.left = 0
		return n, errC08Write
	}
	w.left -= len(p)
	return w.w.Write(p)
}

func c08Node(src string, l syntax.LangVariant, sel int) syntax.Node {
	f, err, pn := parseIn(src, l, syntax.KeepComments(true))
	if pn != "" || err != nil || f == nil {
		return nil
	}
	ns := c08Printable(f)
	if sel < 0 || sel >= len(ns) {
		return nil
	}
	return ns[sel]
}

func c08Print(p *syntax.Printer, n syntax.Node, failAt int) (string, string) {
	var buf bytes.Buffer
	var err error
	pn := safely(func() { err = p.Print(&c08FailWriter{left: failAt, w: &buf}, n) })
	return buf.String() + "|err=" + c08Err(err), pn
}

func c08UsedPrinter(q c08QO, hist []c08QHist) (p *syntax.Printer, panics int) {
	p = syntax.NewPrinter()
	for _, h := range hist {
		n := c08Node(h.src, h.lang, h.sel)
		if n == nil {
			continue
		}
		h.q.applyTo(p)
		if _, pn := c08Print(p, n, h.failAt); pn != "" {
			panics++
		}
	}
	q.applyTo(p)
	return p, panics
}

var c08Dummy = &syntax.Stmt{Cmd: &syntax.CallExpr{Args: []*syntax.Word{{Parts: []syntax.WordPart{&syntax.Lit{Value: "x"}}}}}}

// qreuse: reused printer vs fresh printer.  normalise: work around the recorded finding
// C08-printer-stale-wrotesemi (see the exclusion note in c08()).
func c08CheckQReuse(q c08QO, n syntax.Node, hist []c08QHist, normalise bool) (what string, normalised bool, histPanics int) {
	p, panics := c08UsedPrinter(q, hist)
	if normalise {
		switch n.(type) {
		case *syntax.File, *syntax.Stmt:
		default:
			if syntax.VerifC08PrinterFields(p)["wroteSemi"] == "true" {
				p.Print(io.Discard, c08Dummy)
				normalised = true
			}
		}
	}
	got, pn1 := c08Print(p, n, -1)
	want, pn2 := c08Print(syntax.NewPrinter(q.opts()...), n, -1)
	if pn1 != pn2 {
		return fmt.Sprintf("reused printer: panic %q, fresh printer: panic %q", pn1, pn2), normalised, panics
	}
	if got != want {
		return fmt.Sprintf("reused printer writes %q where a fresh one writes %q", c08Short(got), c08Short(want)), normalised, panics
	}
	return "", normalised, panics
}

// ---------------------------------------------------------------------------------------------
// snapshots after reset()

func c08TruncatedFields(which string) map[string]bool {
	if which == "P" {
		return map[string]bool{"heredocs": true}
	}
	return map[string]bool{"pendingComments": true, "levelIncs": true, "pendingHdocs": true}
}

// fields that the model does not predict: initialised by the entry points, or scratch (hand-
// justified in lean/ShVerif/Expect/C08Scratch.lean), or the recorded defect.
func c08SkippedFields(which string) map[string]bool {
	if which == "P" {
		return map[string]bool{"src": true, "f": true, "spaced": true, "pos": true, "lastBquoteEsc": true, "rxOpenParens": true, "rxFirstPart": true, "readBuf": true, "litBuf": true}
	}
	return map[string]bool{"w": true, "tabWriter": true, "cols": true, "tabsPrinter": true}
}

func c08Snap(which string, names []string, fields map[string]string) string {
	trunc, skip := c08TruncatedFields(which), c08SkippedFields(which)
	var parts []string
	for _, n := range names {
		if skip[n] {
			continue
		}
		v := fields[n]
		if trunc[n] && v == "nil" {
			v = "len=0" // a fresh object: nil[:0] is nil; same for len/append/range
		}
		parts = append(parts, n+"="+v)
	}
	return strings.Join(parts, " ")
}

func (o c08PO) cfg() []string {
	stop := "nil"
	if o.stop != "" {
		stop = fmt.Sprintf("len=%d:%x", len(o.stop), o.stop)
	}
	return []string{fmt.Sprintf("keepComments=%v", o.keep), fmt.Sprintf("lang=%d", uint64(o.lang)), "stopAt=" + stop, fmt.Sprintf("recoverErrorsMax=%d", o.rec)}
}

// ---------------------------------------------------------------------------------------------

type c08Gen struct {
	r     *Rand
	seeds []string
	dash  bool // this case targets `<<-` here-documents (nested printer)
}

func (g *c08Gen) po(fancy bool) c08PO {
	o := c08PO{lang: allLangs[g.r.Intn(len(allLangs))], keep: g.r.Bool()}
	if g.r.Chance(45) {
		o.lang = syntax.LangBash
	}
	if fancy {
		if g.r.Chance(20) {
			o.rec = 1 + g.r.Intn(5)
		}
		if g.r.Chance(10) {
			o.stop = g.r.Pick([]string{"$$", "%%", "STOP", "}"})
		}
	}
	return o
}

func (g *c08Gen) qo() c08QO {
	r := g.r
	q := c08QO{}
	if r.Chance(40) {
		return q
	}
	if r.Chance(30) {
		q.indent = uint(1 + r.Intn(8))
	}
	q.bin, q.swt, q.redir, q.funcNL = r.Chance(30), r.Chance(30), r.Chance(30), r.Chance(30)
	q.pad = r.Chance(20)
	switch r.Intn(5) {
	case 0:
		q.minify = true
	case 1:
		q.single = true
	case 2:
		if r.Chance(10) {
			q.minify, q.single = true, true
		}
	}
	return q
}

// src draws an input: repository test strings, generated programs, mutations/truncations
// (erroring at various points), blank inputs.
func (g *c08Gen) src(l syntax.LangVariant) string {
	r := g.r
	switch x := r.Intn(100); {
	case x < 40:
		return g.seeds[r.Intn(len(g.seeds))]
	case x < 80:
		pg := newProgGen(r, l == syntax.LangBash || l == syntax.LangBats || l == syntax.LangZsh)
		return pg.Program(1 + r.Intn(4))
	case x < 86:
		s := g.seeds[r.Intn(len(g.seeds))]
		if len(s) > 1 {
			s = s[:1+r.Intn(len(s)-1)]
		}
		return s
	case x < 92:
		a, b := g.seeds[r.Intn(len(g.seeds))], g.seeds[r.Intn(len(g.seeds))]
		return a + r.Pick([]string{"\n", "; ", " ", " && ", "\n\n"}) + b
	case x < 96:
		return r.Pick([]string{"", " ", "\n", "\n\n", " \n ", "\t", "# c\n", "\\\n", "  \\\n\n", "$$", ";", "`", "'", "\"", "$(", "<<EOF\n"})
	default:
		toks := []string{"echo", " ", "\n", ";", "&", "|", "`", "\\`", "\"", "'", "$(", ")", "(", "{", "}", "if", "then", "fi", "for", "do", "done", "[[", "]]", "=~", "<<EOF", "EOF", "#", "$", "${", "a", "=", "((", "))", "\\\n", "case", "in", "esac", ";;"}
		var sb strings.Builder
		for i, n := 0, 1+r.Intn(12); i < n; i++ {
			sb.WriteString(toks[r.Intn(len(toks))])
			if r.Chance(50) {
				sb.WriteString(" ")
			}
		}
		return sb.String()
	}
}

// directed inputs for the fields reset() leaves alone: histories that leave spaced / pos /
// lastBquoteEsc / rxOpenParens / rxFirstPart (and the lexer buffers) in unusual states …
var c08DirtyInputs = []string{
	"echo ", "echo foo   ", "echo foo bar baz\n\n\n   x ", "a\nb\n      c", "echo `echo \\`a\\``", "echo \"`echo \\\"a\\\"`\"",
	"echo `a \\`b \\\\\\`c", "[[ a =~ ((b ]]", "[[ a =~ (b", "[[ a =~ ", "[[ a =~ b(c)) ]]", "echo `", "# `", "cat <<EOF\n`a\n", "x=(a b",
	"echo 'unterminated", "echo \"unterminated $(", "if a; then", "for i in", "cat <<-EOF\n\tx", "echo \xff\xfe", "a=$((1+", "${", "echo ${a:-`b", "{ a; ",
}

// … and inputs whose first tokens are _Newl/_EOF only, start with a backquote, a comment with a
// backquote, a regexp, or an array `[`
var c08ProbeInputs = []string{
	"", " ", "\n", "\n\n \n", "\t", "\\\n", " \\\n\n", "$$", "$$ echo", "#", "# `", "# c`\n", "`", "`a`", "``", "echo `a`", "echo `echo \\`b\\``",
	"[[ a =~ b ]]", "[[ a =~ (b) ]]", "[[ a =~ b) ]]", "[[ a =~ ) ]]", "[[ a =~ b c ]]", "a=([0]=x [1]=y)", "a=(b[1])", "cat <<EOF\n`a`\nEOF\n",
	"1 + 2", "+", ")", "\n)", "\n+", "a b", "\n a", "'", "\"", "$(", "foo #bar`\n",
}

func (g *c08Gen) parseable(o c08PO) (string, bool) {
	for try := 0; try < 20; try++ {
		s := g.src(o.lang)
		if _, err, pn := parseIn(s, o.lang, syntax.KeepComments(o.keep)); err == nil && pn == "" {
			return s, true
		}
	}
	return "", false
}

func (g *c08Gen) hist() []c08Hist {
	n := 1 + g.r.Intn(5)
	hs := make([]c08Hist, n)
	for i := range hs {
		o := g.po(true)
		o.stop = ""
		hs[i] = c08Hist{entry: c08Entries[g.r.Intn(len(c08Entries))], o: o, src: g.src(o.lang)}
		if g.r.Chance(40) {
			hs[i].entry = "parse"
		}
		if g.r.Chance(30) {
			hs[i].src = g.r.Pick(c08DirtyInputs)
		}
	}
	return hs
}

// c08DashBodies: bodies for tab-indented `<<-` here-documents whose printing goes through the
// nested printer (Printer.tabsPrinter): multi-line command substitutions in several shapes (closed
// on the last command's line, closed on a line of their own, opening one or two indentation levels
// on one line), single-line ones, plain text, nesting.
var c08DashBodies = []string{
	"$(foo |\n\t\tbar)", "$(a && {\n\t\tb\n\t})", "$(if a; then\n\t\tb\n\tfi)", "$(a &&\n\t\tb)", "$(a ||\n\t\tb | c)",
	"$(\n\t\ta\n\t)", "$(a\n\tb)", "$(a | b)", "plain $body", "x $(y) z", "$(x $(y |\n\t\tz))", "$(while a; do\n\t\tb\n\tdone)",
	"$(case x in\n\ta) b ;;\n\tesac)", "$( (a\n\tb) )", "$(f() {\n\t\ta\n\t}; f)", "usage: $(basename $0 &&\n\t\t\techo x)", "${a:-$(b |\n\t\tc)}",
	"`a |\n\t\tb`", "$(a && {\n\t\tb && {\n\t\t\tc\n\t\t}\n\t})", "$(for i in 1 2; do\n\t\techo $i\n\tdone) tail", "$(a |\n\t\tb) and $(c &&\n\t\td)",
}

// dashHdoc generates a program with one to three `<<-` here-documents (sometimes a plain `<<` one)
// whose bodies are drawn from c08DashBodies, at top level, inside a function, an if or a block.
func (g *c08Gen) dashHdoc() string {
	r := g.r
	var sb strings.Builder
	for i, n := 0, 1+r.Intn(3); i < n; i++ {
		op := "<<-"
		if r.Chance(10) {
			op = "<<"
		}
		var body strings.Builder
		for j, m := 0, 1+r.Intn(2); j < m; j++ {
			body.WriteString("\t" + r.Pick(c08DashBodies) + "\n")
		}
		hd := "cat " + op + "EOF\n" + body.String() + "EOF\n"
		switch r.Intn(6) {
		case 0:
			sb.WriteString("f() {\n" + hd + "}\n")
		case 1:
			sb.WriteString("if a; then\n" + hd + "fi\n")
		case 2:
			sb.WriteString("{\n" + hd + "}\n")
		default:
			sb.WriteString(hd)
		}
		if r.Chance(30) {
			sb.WriteString(r.Pick([]string{"echo unrelated\n", "foo | bar\n", "a &&\n\tb\n"}))
		}
	}
	return sb.String()
}

func (g *c08Gen) qhist() []c08QHist {
	var hs []c08QHist
	for i, n := 0, 1+g.r.Intn(5); i < n; i++ {
		l := allLangs[g.r.Intn(len(allLangs))]
		if g.r.Chance(50) {
			l = syntax.LangBash
		}
		src, ok := g.parseable(c08PO{lang: l, keep: true})
		dash := g.dash && g.r.Chance(60)
		if dash {
			src = g.dashHdoc()
			_, err, pn := parseIn(src, l, syntax.KeepComments(true))
			ok = err == nil && pn == ""
		}
		if !ok {
			continue
		}
		f, _, _ := parseIn(src, l, syntax.KeepComments(true))
		ns := c08Printable(f)
		h := c08QHist{q: g.qo(), lang: l, src: src, failAt: -1}
		if dash && g.r.Chance(70) {
			// the nested printer is only used with tab indentation and without Minify
			h.q.indent, h.q.minify = 0, false
		}
		if g.r.Chance(50) {
			h.sel = g.r.Intn(len(ns))
		}
		if g.r.Chance(25) {
			h.failAt = g.r.Intn(40)
		}
		hs = append(hs, h)
	}
	return hs
}

// c08Out collects what one case produces; it is committed by the main goroutine only when the
// case returned in time, so a case that is still running after its time budget cannot disturb
// the streams.
type c08Out struct {
	ops   [][2]string
	cases []func(c *Ctx)
	fails []Failure
	hist  map[string]int
}

func (o *c08Out) Op(op, impl string)      { o.ops = append(o.ops, [2]string{op, impl}) }
func (o *c08Out) Fail(w, what string)     { o.fails = append(o.fails, Failure{w, what}) }
func (o *c08Out) H(k string, n int)       { o.hist[k] += n }
func (o *c08Out) Case(key string, nontrivial bool, tags ...string) {
	o.cases = append(o.cases, func(c *Ctx) { c.Case(key, nontrivial, tags...) })
}
func (o *c08Out) commit(c *Ctx) {
	for _, op := range o.ops {
		c.Op(op[0], op[1])
	}
	for _, f := range o.cases {
		f(c)
	}
	for _, f := range o.fails {
		c.Fail(f.Witness, f.What)
	}
	for k, v := range o.hist {
		c.Hist[k] += v
	}
}

func c08(c *Ctx) {
	c.Rule = "inputs: the repository's test strings, grammar-generated programs (newProgGen), truncations/splices of those, blank inputs and token soup, in all five variants with and without KeepComments (StopAt/RecoverErrors for the seq and reuse legs); " +
		"four legs: seq (StmtsSeq vs Parse, any input), inter (InteractiveSeq fed one line per Read vs Parse + Incomplete() against the sentinel-line oracle, parseable newline-terminated programs), " +
		"preuse (parser used on 1–5 earlier inputs through any entry point, stopped early or erroring, with other options, vs a fresh parser), qreuse (the same for printers: earlier nodes, failing writers, other options); " +
		"tie: event traces of the real parser drive the Lean glue model (callbacks, Go runtime panic, trace hypotheses A0/A1/A2), reset() snapshots after histories vs the regenerated table; " +
		"non-trivial = the input under test parses and has at least one statement (seq/inter/preuse) or the node prints at least one byte (qreuse); distinct by (leg, options, input, history)"
	seeds := repoSeeds()
	if len(seeds) == 0 {
		panic("no repository seeds found")
	}
	pnames, qnames := syntax.VerifC08FieldNames(0), syntax.VerifC08FieldNames(1)
	if c.Shard == 0 {
		c.Op("fields P", strings.Join(pnames, " "))
		c.Op("fields Q", strings.Join(qnames, " "))
	}

	// --- the tie for one input: traces, glue, seq, axioms
	tie := func(out *c08Out, r *Rand, o c08PO, src string, stopAt int, inDomain bool) {
		real := c08Interactive(o.fresh(), src, stopAt)
		maxCalls := -1
		stop := "-"
		if stopAt >= 0 && stopAt < len(real.cbs) {
			maxCalls = real.calls
			stop = strconv.Itoa(stopAt)
		}
		tr := c08Trace(o, src, maxCalls, true)
		if tr.panicked != "" {
			out.H("trace-panicked", 1)
			return
		}
		line, ran := c08ShowCbs(real)
		evs := strings.Join(tr.evs, " ")
		if len(evs) > 60000 {
			out.H("trace-too-long", 1)
			return
		}
		out.Op("glue "+stop+" "+tr.fin+" "+evs, line)
		out.Op("a3 "+stop+" "+evs, "A3=1")
		if real.panicked != "" {
			out.H("glue-panic(yield after stop)", 1)
			if stopAt >= 0 {
				out.Fail(fmt.Sprintf("interstop %s %d %s", o.key(), stopAt, hx(src)), "InteractiveSeq calls the consumer again after it returned false: "+real.panicked)
			}
		}
		if stopAt >= 0 {
			return
		}
		if inDomain {
			out.Op("specran "+evs, c08Ints(ran))
			if !tr.noOracle && !tr.hasErr {
				out.Op("axioms "+evs, "A0=1 A1=1 A2=1")
			} else {
				out.H("axioms-not-judged(no oracle at an unaligned read)", 1)
			}
		}
		// StmtsSeq with a consumer that stops at its k-th call
		k := -1
		ks := "-"
		if len(tr.steps) > 0 && r.Chance(50) {
			k = r.Intn(len(tr.steps) + 1)
			ks = strconv.Itoa(k)
		}
		var ys []string
		n, id := 0, 0
		if pn := safely(func() {
			for s, err := range o.fresh().StmtsSeq(strings.NewReader(src)) {
				y := "y-"
				if s != nil {
					y = "y" + strconv.Itoa(id)
					id++
				}
				if err != nil {
					y += ":1"
				} else {
					y += ":0"
				}
				ys = append(ys, y)
				if n == k {
					break
				}
				n++
			}
		}); pn == "" {
			res := "-"
			if len(ys) > 0 {
				res = strings.Join(ys, " ")
			}
			out.Op("seq "+ks+" 0 "+strings.Join(tr.steps, " "), res)
		}
		// the property: Parse's statements are StmtsSeq's
		var f *syntax.File
		var err error
		if pn := safely(func() { f, err = o.fresh().Parse(strings.NewReader(src), "") }); pn == "" && f != nil {
			want := c08DumpStmts(tr.stmts)
			var ids []string
			for i, s := range c08DumpStmts(f.Stmts) {
				if i < len(want) && want[i] == s {
					ids = append(ids, strconv.Itoa(i))
				} else {
					ids = append(ids, "x")
				}
			}
			l := "-"
			if len(ids) > 0 {
				l = strings.Join(ids, ",")
			}
			e := "0"
			if err != nil {
				e = "1"
			}
			out.Op("specseq 0 "+strings.Join(tr.steps, " "), "ids="+l+" err="+e)
		}
	}

	// --- corpus replay (raw: no exclusions)
	replay := func(out *c08Out, r *Rand, line string) {
		fs := strings.Fields(line)
		if len(fs) == 0 {
			return
		}
		kv := map[string]string{}
		for _, f := range fs[1:] {
			if i := strings.Index(f, "="); i > 0 && !strings.Contains(f[:i], ",") {
				kv[f[:i]] = f[i+1:]
			}
		}
		switch fs[0] {
		case "seq", "inter":
			if len(fs) != 3 {
				return
			}
			o, ok := c08ParsePO(fs[1])
			if !ok {
				return
			}
			src := unhx(fs[2])
			if fs[0] == "seq" {
				what, parsed := c08CheckSeq(o, src)
				out.Case("seq\x00"+line, parsed, "leg=seq", "corpus")
				if what != "" {
					out.Fail(line, what)
				}
			} else {
				what, st := c08CheckInter(o, src, false)
				for k, v := range st {
					out.H(k, v)
				}
				out.Case("inter\x00"+line, true, "leg=inter", "corpus")
				if what != "" {
					out.Fail(line, what)
				}
				tie(out, r, o, src, -1, false)
			}
		case "incl":
			// incl <opts> hist=<history|-> <hex>
			if len(fs) != 4 {
				return
			}
			o, ok := c08ParsePO(fs[1])
			hist, ok2 := c08ParseHist(kv["hist"])
			if !ok || !ok2 {
				return
			}
			src := unhx(fs[3])
			p := o.fresh()
			if len(hist) > 0 {
				p, _ = c08UsedParser(o, hist)
			}
			what, st := c08CheckIncompleteLines(p, o, src)
			for k, v := range st {
				out.H(k, v)
			}
			out.Case("incl\x00"+line, true, "leg=incl", "corpus")
			if what != "" {
				out.Fail(line, what)
			}
			tie(out, r, o, src, -1, false)
		case "interstop":
			// interstop <opts> <k> <hex>: the consumer stops at its k-th callback
			if len(fs) != 4 {
				return
			}
			o, ok := c08ParsePO(fs[1])
			k, err := strconv.Atoi(fs[2])
			if !ok || err != nil {
				return
			}
			src := unhx(fs[3])
			res := c08Interactive(o.fresh(), src, k)
			out.Case("interstop\x00"+line, true, "leg=interstop", "corpus")
			if res.panicked != "" {
				out.Fail(line, "InteractiveSeq calls the consumer again after it returned false: "+res.panicked)
			}
			tie(out, r, o, src, k, false)
		case "preuse":
			if len(fs) < 2 {
				return
			}
			o, ok := c08ParsePO(fs[1])
			hist, ok2 := c08ParseHist(kv["hist"])
			if !ok || !ok2 {
				return
			}
			what, _ := c08CheckPReuse(o, kv["e"], unhx(kv["src"]), hist)
			out.Case("preuse\x00"+line, true, "leg=preuse", "corpus")
			if what != "" {
				out.Fail(line, what)
			}
		case "qreuse":
			q, ok := c08ParseQO(kv["o"])
			l, ok2 := c08LangByName(kv["l"])
			sel, e := strconv.Atoi(kv["n"])
			hist, ok3 := c08ParseQHist(kv["hist"])
			if !ok || !ok2 || !ok3 || e != nil {
				return
			}
			n := c08Node(unhx(kv["src"]), l, sel)
			if n == nil {
				return
			}
			what, _, _ := c08CheckQReuse(q, n, hist, false)
			out.Case("qreuse\x00"+line, true, "leg=qreuse", "corpus")
			if what != "" {
				out.Fail(line, what)
			}
		}
	}
	runCase := func(budget time.Duration, f func(out *c08Out)) {
		out := &c08Out{hist: map[string]int{}}
		if c08Timeout(budget, func() { f(out) }) {
			out.commit(c)
		} else {
			c.Hist["timeout-skipped"]++
		}
	}
	for i, l := range c.CorpusLines() {
		r := c.R.Fork(fmt.Sprint("corpus", i))
		runCase(120*time.Second, func(out *c08Out) { replay(out, r, l) })
	}

	// --- generated cases
	one := func(out *c08Out, r *Rand) {
		g := &c08Gen{r: r, seeds: seeds}
		switch x := r.Intn(100); {
		case x < 22: // seq
			o := g.po(true)
			src := g.src(o.lang)
			what, parsed := c08CheckSeq(o, src)
			out.Case("seq\x00"+o.key()+"\x00"+src, parsed, "leg=seq", "lang="+langName(o.lang), fmt.Sprintf("parses=%v", parsed), fmt.Sprintf("len<%d", bucket(len(src))))
			if what != "" {
				out.Fail("seq "+o.key()+" "+hx(src), what)
			}
		case x < 52: // inter
			o := g.po(false)
			src, ok := g.parseable(o)
			if !ok {
				out.H("inter-no-parseable-input", 1)
				return
			}
			// (the exclusions for the former finding C08-interactive-unterminated-last-line are gone:
			// InteractiveSeq now hands over an unterminated last line at EOF)
			if !c08LastLineTerminated(src) {
				out.H("inter-last-line-unterminated", 1)
			}
			what, st := c08CheckInter(o, src, r.Chance(15))
			for k, v := range st {
				out.H(k, v)
			}
			f, _, _ := parseIn(src, o.lang, syntax.KeepComments(o.keep))
			nl := strings.Count(src, "\n")
			out.Case("inter\x00"+o.key()+"\x00"+src, f != nil && len(f.Stmts) > 0, "leg=inter", "lang="+langName(o.lang), fmt.Sprintf("lines<%d", bucket(nl)))
			if what != "" {
				out.Fail("inter "+o.key()+" "+hx(src), what)
			}
			if what == "" {
				w2, st2 := c08CheckIncompleteLines(o.fresh(), o, src)
				for k, v := range st2 {
					out.H(k, v)
				}
				if w2 != "" {
					out.Fail("incl "+o.key()+" hist=- "+hx(src), w2)
				}
			}
			tie(out, r, o, src, -1, true)
			if r.Chance(30) {
				// The consumer stops at a random callback: it must never be called again (a second
				// call is the Go runtime panic; former finding C08-interactive-yield-after-stop).
				res := c08Interactive(o.fresh(), src, -1)
				if len(res.cbs) > 0 {
					tie(out, r, o, src, r.Intn(len(res.cbs)), false)
				}
			}
		case x < 60: // Incomplete() after every line + tie, on arbitrary (possibly erroring) input
			o := g.po(false)
			src := g.src(o.lang)
			if r.Chance(60) {
				src = g.lineSoup()
			}
			// half of the time on a parser that was used before (any entry point, other options)
			var hist []c08Hist
			p := o.fresh()
			if r.Chance(50) {
				hist = g.hist()
				p, _ = c08UsedParser(o, hist)
			}
			w2, st2 := c08CheckIncompleteLines(p, o, src)
			for k, v := range st2 {
				out.H(k, v)
			}
			_, perr, _ := parseIn(src, o.lang, syntax.KeepComments(o.keep))
			out.Case("incl\x00"+o.key()+"\x00"+src+"\x00"+c08HistKey(hist), perr == nil && strings.TrimSpace(src) != "", "leg=incl", fmt.Sprintf("keep=%v", o.keep), fmt.Sprintf("reused=%v", len(hist) > 0), fmt.Sprintf("lines<%d", bucket(strings.Count(src, "\n"))))
			if w2 != "" {
				out.Fail("incl "+o.key()+" hist="+c08HistKey(hist)+" "+hx(src), w2)
			}
			tie(out, r, o, src, -1, perr == nil)
			if r.Chance(50) {
				res := c08Interactive(o.fresh(), src, -1)
				if len(res.cbs) > 0 {
					tie(out, r, o, src, r.Intn(len(res.cbs)), false)
				}
			}
		case x < 82: // preuse
			o := g.po(true)
			entry := "parse"
			if r.Chance(40) {
				entry = c08Entries[r.Intn(len(c08Entries))]
			}
			src := g.src(o.lang)
			if r.Chance(30) {
				src = r.Pick(c08ProbeInputs)
				entry = c08Entries[r.Intn(len(c08Entries))]
			}
			hist := g.hist()
			what, panics := c08CheckPReuse(o, entry, src, hist)
			if panics > 0 {
				out.H("history-item-panicked", panics)
			}
			_, err, _ := parseIn(src, o.lang)
			out.Case("preuse\x00"+o.key()+"\x00"+entry+"\x00"+src+"\x00"+c08HistKey(hist), err == nil && strings.TrimSpace(src) != "", "leg=preuse", "entry="+entry, fmt.Sprintf("hist=%d", len(hist)))
			if what != "" {
				out.Fail(fmt.Sprintf("preuse %s e=%s src=%s hist=%s", o.key(), entry, hx(src), c08HistKey(hist)), what)
			}
			// snapshot after reset() following the history = the regenerated table's prediction
			p, _ := c08UsedParser(o, hist)
			if r.Chance(50) {
				c08RunEntry(p, entry, src)
			}
			syntax.VerifC08ResetParser(p)
			out.Op("psnap P "+strings.Join(o.cfg(), " "), c08Snap("P", pnames, syntax.VerifC08ParserFields(p)))
			if r.Chance(10) {
				fp := o.fresh()
				syntax.VerifC08ResetParser(fp)
				out.Op("psnap P "+strings.Join(o.cfg(), " "), c08Snap("P", pnames, syntax.VerifC08ParserFields(fp)))
			}
		default: // qreuse
			q := g.qo()
			l := allLangs[r.Intn(len(allLangs))]
			if r.Chance(50) {
				l = syntax.LangBash
			}
			src, ok := g.parseable(c08PO{lang: l, keep: true})
			// targeted: `<<-` here-documents with multi-line command substitutions, in the history
			// and in the input under test, tab indentation, no Minify (state of the nested printer)
			g.dash = r.Chance(35)
			if g.dash {
				src = g.dashHdoc()
				_, err, pn := parseIn(src, l, syntax.KeepComments(true))
				ok = err == nil && pn == ""
				if r.Chance(80) {
					q.indent, q.minify = 0, false
				}
				out.H("qreuse-dash-heredoc-targeted", 1)
			}
			if !ok {
				out.H("qreuse-no-parseable-input", 1)
				return
			}
			f, _, _ := parseIn(src, l, syntax.KeepComments(true))
			ns := c08Printable(f)
			sel := 0
			if r.Chance(60) && !(g.dash && r.Chance(70)) {
				sel = r.Intn(len(ns))
			}
			hist := g.qhist()
			// (the exclusion for the former finding C08-printer-stale-wrotesemi is gone: reset() now
			// clears wroteSemi, so no history is normalised any more)
			what, normalised, panics := c08CheckQReuse(q, ns[sel], hist, false)
			if normalised {
				out.H("qreuse-wroteSemi-normalised", 1)
			}
			if panics > 0 {
				out.H("history-item-panicked", panics)
			}
			res, _ := c08Print(syntax.NewPrinter(q.opts()...), ns[sel], -1)
			hk := make([]string, len(hist))
			for i, h := range hist {
				hk[i] = h.key()
			}
			hks := "-"
			if len(hk) > 0 {
				hks = strings.Join(hk, "+")
			}
			out.Case("qreuse\x00"+q.key()+"\x00"+src+"\x00"+hks+fmt.Sprint(sel), !strings.HasPrefix(res, "|err="), "leg=qreuse", "node="+strings.TrimPrefix(fmt.Sprintf("%T", ns[sel]), "*syntax."), fmt.Sprintf("hist=%d", len(hist)))
			if what != "" {
				out.Fail(fmt.Sprintf("qreuse o=%s l=%s n=%d src=%s hist=%s", q.key(), langName(l), sel, hx(src), hks), what)
			}
			p, _ := c08UsedPrinter(q, hist)
			if r.Chance(50) {
				c08Print(p, ns[sel], -1)
			}
			syntax.VerifC08ResetPrinter(p)
			out.Op("psnap Q "+strings.Join(q.cfg(), " "), c08Snap("Q", qnames, syntax.VerifC08PrinterFields(p)))
			if r.Chance(10) {
				fp := syntax.NewPrinter(q.opts()...)
				syntax.VerifC08ResetPrinter(fp)
				out.Op("psnap Q "+strings.Join(q.cfg(), " "), c08Snap("Q", qnames, syntax.VerifC08PrinterFields(fp)))
			}
		}
	}
	for i := 0; i < c.N; i++ {
		r := c.R.Fork(fmt.Sprint("case", i))
		runCase(60*time.Second, func(out *c08Out) { one(out, r) })
	}
}
