//go:build c26 || all

package main

import (
	"bytes"
	"context"
	"fmt"
	"go/ast"
	goparser "go/parser"
	"go/token"
	"os"
	"regexp"
	"path/filepath"
	"runtime"
	"strconv"
	"strings"
	"time"

	"mvdan.cc/sh/v3/expand"
	"mvdan.cc/sh/v3/interp"
	"mvdan.cc/sh/v3/syntax"
)

// C26 — the interpreter runs supported programs like bash (partial: control-flow skeleton).
//
// Streams
//   run       (model = code)   skeleton programs, rendered to shell text, parsed by syntax.Parser,
//                              the *parsed tree* converted to the skeleton term, run in-process by
//                              interp.Runner; the Lean model `runFile` must give the same stdout and
//                              status.  All generated programs, supported or not.
//   supported (model = code)   the Go port of the Lean predicate `supportedProg` (used only to
//                              route programs) agrees with the Lean definition.
//   spec      (property)       programs inside the proved fragment: the Lean `BashSem` must give what
//                              interp.Runner gives.
//   specbash  (spec validation) the Lean `BashSem` must give what real bash gives (any skeleton
//                              program that is deterministic under bash; a few hundred per run).
// Search leg (independent of Lean): interp vs real bash on (a) supported skeleton programs, (b)
// argument/value mutations of the repository's interpreter test programs without #IGNORE/#JUSTERR.
func init() { register("C26", c26) }

// ---------------------------------------------------------------------------------------------
// skeleton terms

type skPart struct {
	K byte // 'l' literal, 'v' variable, 's' $?
	S string
}

type skStmt struct {
	Neg bool
	C   *skCmd
}

type skElse struct {
	K    string // none els elif
	C, T []*skStmt
	E    *skElse
}

type skPat struct {
	Star bool
	S    string
}

type skItem struct {
	Op   string // brk fall resume
	Pats []skPat
	Body []*skStmt
}

type skCmd struct {
	K     string
	N     *int       // exit ret brk cont
	On    bool       // sete setpf, while: until
	TNeg  bool       // test
	P, P2 []*skStmt  // bodies (P2: then / loop body)
	X, Y  *skStmt    // and or pipe
	W     []skPart   // echo assign case; echosub: before the substitution
	W2    []skPart   // echosub: after the substitution
	Name  string     // variable / function name
	Lit   string     // test literal; "true" spelling
	Else  *skElse    // if
	Items []string   // for
	Case  []skItem   // case
	Body  *skStmt    // fn
}

func skHexParts(sb *strings.Builder, w []skPart) {
	for _, p := range w {
		switch p.K {
		case 'l':
			sb.WriteString(" ( lit " + hx(p.S) + " )")
		case 'v':
			sb.WriteString(" ( var " + hx(p.S) + " )")
		default:
			sb.WriteString(" ( st )")
		}
	}
}

func skProgSexp(sb *strings.Builder, p []*skStmt) {
	for _, s := range p {
		sb.WriteString(" ")
		skStmtSexp(sb, s)
	}
}

func b01(b bool) string {
	if b {
		return "1"
	}
	return "0"
}

func skStmtSexp(sb *strings.Builder, s *skStmt) {
	sb.WriteString("( s " + b01(s.Neg) + " ")
	skCmdSexp(sb, s.C)
	sb.WriteString(" )")
}

func skElseSexp(sb *strings.Builder, e *skElse) {
	switch e.K {
	case "none":
		sb.WriteString("( none )")
	case "els":
		sb.WriteString("( els")
		skProgSexp(sb, e.T)
		sb.WriteString(" )")
	default:
		sb.WriteString("( elif (")
		skProgSexp(sb, e.C)
		sb.WriteString(" ) (")
		skProgSexp(sb, e.T)
		sb.WriteString(" ) ")
		skElseSexp(sb, e.E)
		sb.WriteString(" )")
	}
}

func skCmdSexp(sb *strings.Builder, c *skCmd) {
	sb.WriteString("( " + c.K)
	switch c.K {
	case "true", "false":
	case "exit", "ret", "brk", "cont":
		if c.N != nil {
			sb.WriteString(" " + strconv.Itoa(*c.N))
		}
	case "sete", "setpf":
		sb.WriteString(" " + b01(c.On))
	case "trapexit", "traperr", "block", "subsh":
		skProgSexp(sb, c.P)
	case "echo":
		skHexParts(sb, c.W)
	case "echosub":
		sb.WriteString(" (")
		skHexParts(sb, c.W)
		sb.WriteString(" ) (")
		skProgSexp(sb, c.P)
		sb.WriteString(" ) (")
		skHexParts(sb, c.W2)
		sb.WriteString(" )")
	case "test":
		sb.WriteString(" " + hx(c.Name) + " " + b01(c.TNeg) + " " + hx(c.Lit))
	case "assign":
		sb.WriteString(" " + hx(c.Name))
		skHexParts(sb, c.W)
	case "asub":
		sb.WriteString(" " + hx(c.Name))
		skProgSexp(sb, c.P)
	case "call":
		sb.WriteString(" " + hx(c.Name))
	case "and", "or", "pipe":
		sb.WriteString(" ")
		skStmtSexp(sb, c.X)
		sb.WriteString(" ")
		skStmtSexp(sb, c.Y)
	case "if":
		sb.WriteString(" (")
		skProgSexp(sb, c.P)
		sb.WriteString(" ) (")
		skProgSexp(sb, c.P2)
		sb.WriteString(" ) ")
		skElseSexp(sb, c.Else)
	case "while":
		sb.WriteString(" " + b01(c.On) + " (")
		skProgSexp(sb, c.P)
		sb.WriteString(" ) (")
		skProgSexp(sb, c.P2)
		sb.WriteString(" )")
	case "for":
		sb.WriteString(" " + hx(c.Name) + " (")
		for _, it := range c.Items {
			sb.WriteString(" " + hx(it))
		}
		sb.WriteString(" )")
		skProgSexp(sb, c.P2)
	case "case":
		sb.WriteString(" (")
		skHexParts(sb, c.W)
		sb.WriteString(" )")
		for _, it := range c.Case {
			sb.WriteString(" ( item " + it.Op + " (")
			for _, p := range it.Pats {
				if p.Star {
					sb.WriteString(" ( star )")
				} else {
					sb.WriteString(" ( lit " + hx(p.S) + " )")
				}
			}
			sb.WriteString(" )")
			skProgSexp(sb, it.Body)
			sb.WriteString(" )")
		}
	case "fn":
		sb.WriteString(" " + hx(c.Name) + " ")
		skStmtSexp(sb, c.Body)
	default:
		panic("skCmdSexp: " + c.K)
	}
	sb.WriteString(" )")
}

func skSexp(p []*skStmt) string {
	var sb strings.Builder
	skProgSexp(&sb, p)
	return strings.TrimSpace(sb.String())
}

// ---------------------------------------------------------------------------------------------
// rendering to shell text

func skWordText(w []skPart) string {
	var sb strings.Builder
	sb.WriteString("\"")
	for _, p := range w {
		switch p.K {
		case 'l':
			sb.WriteString(p.S)
		case 'v':
			sb.WriteString("${" + p.S + "}")
		default:
			sb.WriteString("$?")
		}
	}
	sb.WriteString("\"")
	return sb.String()
}

func skProgText(p []*skStmt, sep string) string {
	parts := make([]string, len(p))
	for i, s := range p {
		parts[i] = skStmtText(s)
	}
	return strings.Join(parts, sep)
}

func skStmtText(s *skStmt) string {
	t := skCmdText(s.C)
	if s.Neg {
		if s.C.K == "and" || s.C.K == "or" {
			t = "{ " + t + "; }"
		}
		return "! " + t
	}
	return t
}

func skOperand(s *skStmt, allow ...string) string {
	t := skStmtText(s)
	k := s.C.K
	if k == "and" || k == "or" || k == "pipe" {
		ok := false
		for _, a := range allow {
			if a == k && !s.Neg {
				ok = true
			}
		}
		if !ok {
			return "{ " + t + "; }"
		}
	}
	return t
}

func skNum(n *int) string {
	if n == nil {
		return ""
	}
	return " " + strconv.Itoa(*n)
}

func skCmdText(c *skCmd) string {
	switch c.K {
	case "true":
		if c.Lit == ":" {
			return ":"
		}
		return "true"
	case "false":
		return "false"
	case "exit":
		if c.Lit != "" {
			return "exit " + c.Lit
		}
		return "exit" + skNum(c.N)
	case "ret":
		if c.Lit != "" {
			return "return " + c.Lit
		}
		return "return" + skNum(c.N)
	case "brk":
		return "break" + skNum(c.N)
	case "cont":
		return "continue" + skNum(c.N)
	case "sete":
		if c.On {
			return "set -e"
		}
		return "set +e"
	case "setpf":
		if c.On {
			return "set -o pipefail"
		}
		return "set +o pipefail"
	case "trapexit", "traperr":
		sig := "EXIT"
		if c.K == "traperr" {
			sig = "ERR"
		}
		if len(c.P) == 0 {
			return "trap - " + sig
		}
		return "trap '" + skProgText(c.P, "; ") + "' " + sig
	case "echo":
		return "echo " + skWordText(c.W)
	case "echosub":
		a, b := skWordText(c.W), skWordText(c.W2)
		return "echo " + a[:len(a)-1] + "$( " + skProgText(c.P, "; ") + " )" + b[1:]
	case "test":
		op := "="
		if c.TNeg {
			op = "!="
		}
		return "[ \"$" + c.Name + "\" " + op + " " + c.Lit + " ]"
	case "assign":
		return c.Name + "=" + skWordText(c.W)
	case "asub":
		return c.Name + "=$( " + skProgText(c.P, "; ") + " )"
	case "call":
		return c.Name
	case "block":
		return "{ " + skProgText(c.P, "; ") + "; }"
	case "subsh":
		return "( " + skProgText(c.P, "; ") + " )"
	case "and":
		return skOperand(c.X, "and", "or", "pipe") + " && " + skOperand(c.Y, "pipe")
	case "or":
		return skOperand(c.X, "and", "or", "pipe") + " || " + skOperand(c.Y, "pipe")
	case "pipe":
		return skOperand(c.X, "pipe") + " | " + skOperand(c.Y)
	case "if":
		var sb strings.Builder
		sb.WriteString("if " + skProgText(c.P, "; ") + "; then " + skProgText(c.P2, "; "))
		for e := c.Else; e != nil && e.K != "none"; e = e.E {
			if e.K == "els" {
				sb.WriteString("; else " + skProgText(e.T, "; "))
				break
			}
			sb.WriteString("; elif " + skProgText(e.C, "; ") + "; then " + skProgText(e.T, "; "))
		}
		sb.WriteString("; fi")
		return sb.String()
	case "while":
		kw := "while"
		if c.On {
			kw = "until"
		}
		return kw + " " + skProgText(c.P, "; ") + "; do " + skProgText(c.P2, "; ") + "; done"
	case "for":
		return "for " + c.Name + " in " + strings.Join(c.Items, " ") + "; do " + skProgText(c.P2, "; ") + "; done"
	case "case":
		var sb strings.Builder
		sb.WriteString("case " + skWordText(c.W) + " in ")
		for _, it := range c.Case {
			ps := make([]string, len(it.Pats))
			for i, p := range it.Pats {
				if p.Star {
					ps[i] = "*"
				} else {
					ps[i] = p.S
				}
			}
			sb.WriteString(strings.Join(ps, "|") + ") " + skProgText(it.Body, "; "))
			switch it.Op {
			case "fall":
				sb.WriteString(" ;& ")
			case "resume":
				sb.WriteString(" ;;& ")
			default:
				sb.WriteString(" ;; ")
			}
		}
		sb.WriteString("esac")
		return sb.String()
	case "fn":
		return c.Name + "() " + skStmtText(c.Body)
	}
	panic("skCmdText: " + c.K)
}

// ---------------------------------------------------------------------------------------------
// conversion of a parsed tree to the skeleton (the authoritative direction)

type skConv struct{ why string }

func (cv *skConv) fail(format string, a ...any) bool {
	if cv.why == "" {
		cv.why = fmt.Sprintf(format, a...)
	}
	return false
}

func skSafeLit(s string) bool {
	if s == "" {
		return false
	}
	for _, r := range s {
		switch {
		case r >= 'a' && r <= 'z', r >= 'A' && r <= 'Z', r >= '0' && r <= '9':
		case r == '_' || r == '.' || r == ',' || r == ':' || r == '+' || r == '-' || r == '/' || r == '%' || r == '@':
		default:
			return false
		}
	}
	return true
}

// skDqLit: text allowed as a literal inside double quotes (no escapes, no expansions).
func skDqLit(s string) bool {
	for _, r := range s {
		switch r {
		case '\\', '$', '`', '"', '\n', '!':
			return false
		}
		if r < 0x20 || r > 0x7e {
			return false
		}
	}
	return true
}

func (cv *skConv) param(pe *syntax.ParamExp) (skPart, bool) {
	if pe.Param == nil || pe.Flags != nil || pe.Excl || pe.Length || pe.Width || pe.IsSet || pe.NestedParam != nil ||
		pe.Index != nil || len(pe.Modifiers) != 0 || pe.Slice != nil || pe.Repl != nil || pe.Names != 0 || pe.Exp != nil {
		return skPart{}, cv.fail("parameter expansion with operators")
	}
	name := pe.Param.Value
	if name == "?" {
		return skPart{K: 's'}, true
	}
	if !syntax.ValidName(name) || skSpecialVar(name) {
		return skPart{}, cv.fail("special parameter %q", name)
	}
	return skPart{K: 'v', S: name}, true
}

// skSpecialVar: variables the shells set themselves.
func skSpecialVar(name string) bool {
	switch name {
	case "PWD", "OLDPWD", "HOME", "PATH", "IFS", "OPTIND", "OPTARG", "RANDOM", "SECONDS", "LINENO", "PPID", "UID", "EUID",
		"GID", "REPLY", "SHLVL", "TMPDIR", "LC_ALL", "BASH", "BASH_VERSION", "HOSTNAME", "FUNCNAME", "PIPESTATUS", "SHELLOPTS",
		"BASHOPTS", "BASHPID", "GROUPS", "DIRSTACK", "COLUMNS", "LINES", "PS1", "PS2", "PS3", "PS4", "_", "MAPFILE", "HOSTTYPE",
		"MACHTYPE", "OSTYPE", "TERM", "INTERP_GLOBAL", "GOSH_PROG", "GOSH_CMD":
		return true
	}
	return strings.HasPrefix(name, "BASH_") || strings.HasPrefix(name, "COMP_")
}

// word converts a word to parts; quoted says whether unquoted expansions are acceptable
// (assignment values are not split).
func (cv *skConv) word(w *syntax.Word, noSplit bool) ([]skPart, bool) {
	var out []skPart
	add := func(p skPart) {
		if p.K == 'l' && len(out) > 0 && out[len(out)-1].K == 'l' {
			out[len(out)-1].S += p.S
			return
		}
		out = append(out, p)
	}
	for _, wp := range w.Parts {
		switch x := wp.(type) {
		case *syntax.Lit:
			if !skSafeLit(x.Value) {
				return nil, cv.fail("unquoted literal %q", x.Value)
			}
			add(skPart{K: 'l', S: x.Value})
		case *syntax.SglQuoted:
			if x.Dollar || !skDqLit(x.Value) {
				return nil, cv.fail("single-quoted %q", x.Value)
			}
			add(skPart{K: 'l', S: x.Value})
		case *syntax.DblQuoted:
			if x.Dollar {
				return nil, cv.fail("$\"\"")
			}
			for _, q := range x.Parts {
				switch y := q.(type) {
				case *syntax.Lit:
					if !skDqLit(y.Value) {
						return nil, cv.fail("quoted literal %q", y.Value)
					}
					add(skPart{K: 'l', S: y.Value})
				case *syntax.ParamExp:
					p, ok := cv.param(y)
					if !ok {
						return nil, false
					}
					add(p)
				default:
					return nil, cv.fail("word part %T in quotes", q)
				}
			}
		case *syntax.ParamExp:
			if !noSplit {
				return nil, cv.fail("unquoted expansion")
			}
			p, ok := cv.param(x)
			if !ok {
				return nil, false
			}
			add(p)
		default:
			return nil, cv.fail("word part %T", wp)
		}
	}
	return out, true
}

func skIntArg(args []*syntax.Word) (*int, bool) {
	if len(args) == 0 {
		return nil, true
	}
	if len(args) != 1 {
		return nil, false
	}
	lit := args[0].Lit()
	n, err := strconv.Atoi(lit)
	// decimal digits only; leading zeros are still decimal for bash (`exit 010` is 10, `exit 08` is 8)
	canon := strings.TrimLeft(lit, "0")
	if canon == "" && lit != "" {
		canon = "0"
	}
	if err != nil || (lit != strconv.Itoa(n) && canon != strconv.Itoa(n)) || n > 100000 || n < -100000 {
		return nil, false
	}
	return &n, true
}

func (cv *skConv) prog(stmts []*syntax.Stmt) ([]*skStmt, bool) {
	out := make([]*skStmt, 0, len(stmts))
	for _, st := range stmts {
		s, ok := cv.stmt(st)
		if !ok {
			return nil, false
		}
		out = append(out, s)
	}
	return out, true
}

func (cv *skConv) stmt(st *syntax.Stmt) (*skStmt, bool) {
	if st.Background || st.Coprocess || st.Disown || len(st.Redirs) != 0 || st.Cmd == nil {
		return nil, cv.fail("statement with redirection/background")
	}
	c, ok := cv.cmd(st.Cmd)
	if !ok {
		return nil, false
	}
	return &skStmt{Neg: st.Negated, C: c}, true
}

func (cv *skConv) cmdSubstOnly(w *syntax.Word) *syntax.CmdSubst {
	if len(w.Parts) != 1 {
		return nil
	}
	p := w.Parts[0]
	if dq, ok := p.(*syntax.DblQuoted); ok && !dq.Dollar && len(dq.Parts) == 1 {
		p = dq.Parts[0]
	}
	cs, ok := p.(*syntax.CmdSubst)
	if !ok || cs.TempFile || cs.ReplyVar || len(cs.Stmts) == 0 {
		return nil
	}
	return cs
}

func (cv *skConv) call(ce *syntax.CallExpr) (*skCmd, bool) {
	if len(ce.Args) == 0 {
		if len(ce.Assigns) != 1 {
			return nil, cv.fail("several assignments")
		}
		as := ce.Assigns[0]
		if as.Append || as.Naked || as.Index != nil || as.Array != nil || as.Name == nil {
			return nil, cv.fail("assignment form")
		}
		name := as.Name.Value
		if !syntax.ValidName(name) || skSpecialVar(name) {
			return nil, cv.fail("assignment to %q", name)
		}
		if as.Value == nil {
			return &skCmd{K: "assign", Name: name}, true
		}
		if cs := cv.cmdSubstOnly(as.Value); cs != nil {
			p, ok := cv.prog(cs.Stmts)
			if !ok {
				return nil, false
			}
			return &skCmd{K: "asub", Name: name, P: p}, true
		}
		w, ok := cv.word(as.Value, true)
		if !ok {
			return nil, false
		}
		return &skCmd{K: "assign", Name: name, W: w}, true
	}
	if len(ce.Assigns) != 0 {
		return nil, cv.fail("command with assignments")
	}
	name := ce.Args[0].Lit()
	args := ce.Args[1:]
	switch name {
	case "true", ":":
		if len(args) != 0 {
			return nil, cv.fail("true with arguments")
		}
		return &skCmd{K: "true", Lit: name}, true
	case "false":
		if len(args) != 0 {
			return nil, cv.fail("false with arguments")
		}
		return &skCmd{K: "false"}, true
	case "exit", "return", "break", "continue":
		n, ok := skIntArg(args)
		if !ok {
			return nil, cv.fail("%s arguments", name)
		}
		if n != nil && *n < 0 && (name == "exit" || name == "return") {
			return nil, cv.fail("negative status")
		}
		k := map[string]string{"exit": "exit", "return": "ret", "break": "brk", "continue": "cont"}[name]
		pad := ""
		if n != nil && args[0].Lit() != strconv.Itoa(*n) {
			if name == "break" || name == "continue" {
				return nil, cv.fail("zero-padded loop count")
			}
			pad = args[0].Lit()
		}
		return &skCmd{K: k, N: n, Lit: pad}, true
	case "set":
		switch {
		case len(args) == 1 && args[0].Lit() == "-e":
			return &skCmd{K: "sete", On: true}, true
		case len(args) == 1 && args[0].Lit() == "+e":
			return &skCmd{K: "sete", On: false}, true
		case len(args) == 2 && args[0].Lit() == "-o" && args[1].Lit() == "pipefail":
			return &skCmd{K: "setpf", On: true}, true
		case len(args) == 2 && args[0].Lit() == "+o" && args[1].Lit() == "pipefail":
			return &skCmd{K: "setpf", On: false}, true
		}
		return nil, cv.fail("set arguments")
	case "trap":
		if len(args) != 2 {
			return nil, cv.fail("trap arguments")
		}
		k := ""
		switch args[1].Lit() {
		case "EXIT":
			k = "trapexit"
		case "ERR":
			k = "traperr"
		default:
			return nil, cv.fail("trap signal")
		}
		if args[0].Lit() == "-" {
			return &skCmd{K: k}, true
		}
		text := ""
		if sq, ok := args[0].Parts[0].(*syntax.SglQuoted); ok && len(args[0].Parts) == 1 && !sq.Dollar {
			text = sq.Value
		} else {
			w, ok := cv.word(args[0], false)
			if !ok {
				return nil, false
			}
			for _, p := range w {
				if p.K != 'l' {
					return nil, cv.fail("trap action with expansion at trap time")
				}
				text += p.S
			}
		}
		f, err := syntax.NewParser().Parse(strings.NewReader(text), "")
		if err != nil {
			return nil, cv.fail("trap action does not parse")
		}
		p, ok := cv.prog(f.Stmts)
		if !ok {
			return nil, false
		}
		return &skCmd{K: k, P: p}, true
	case "echo":
		if len(args) == 1 && len(args[0].Parts) == 1 {
			if dq, ok := args[0].Parts[0].(*syntax.DblQuoted); ok && !dq.Dollar {
				at := -1
				for i, q := range dq.Parts {
					if _, ok := q.(*syntax.CmdSubst); ok {
						if at >= 0 {
							return nil, cv.fail("two command substitutions in a word")
						}
						at = i
					}
				}
				if at >= 0 {
					cs := dq.Parts[at].(*syntax.CmdSubst)
					if cs.TempFile || cs.ReplyVar || len(cs.Stmts) == 0 {
						return nil, cv.fail("command substitution form")
					}
					part := func(ps []syntax.WordPart) ([]skPart, bool) {
						if len(ps) == 0 {
							return nil, true
						}
						return cv.word(&syntax.Word{Parts: []syntax.WordPart{&syntax.DblQuoted{Parts: ps}}}, false)
					}
					w1, ok1 := part(dq.Parts[:at])
					w2, ok2 := part(dq.Parts[at+1:])
					if !ok1 || !ok2 {
						return nil, false
					}
					p, ok := cv.prog(cs.Stmts)
					if !ok {
						return nil, false
					}
					return &skCmd{K: "echosub", W: w1, P: p, W2: w2}, true
				}
			}
		}
		var w []skPart
		for i, a := range args {
			if l := a.Lit(); l == "-n" || l == "-e" || l == "-E" || l == "-ne" || l == "-en" || (i == 0 && strings.HasPrefix(l, "-")) {
				return nil, cv.fail("echo flag")
			}
			ps, ok := cv.word(a, false)
			if !ok {
				return nil, false
			}
			if len(a.Parts) == 1 {
				if pe, ok := a.Parts[0].(*syntax.ParamExp); ok {
					_ = pe
					return nil, cv.fail("unquoted expansion")
				}
			}
			if i > 0 {
				ps = append([]skPart{{K: 'l', S: " "}}, ps...)
			}
			for _, p := range ps {
				if p.K == 'l' && len(w) > 0 && w[len(w)-1].K == 'l' {
					w[len(w)-1].S += p.S
				} else {
					w = append(w, p)
				}
			}
		}
		return &skCmd{K: "echo", W: w}, true
	case "[":
		if len(args) != 4 || args[3].Lit() != "]" {
			return nil, cv.fail("test form")
		}
		op := args[1].Lit()
		if op != "=" && op != "!=" {
			return nil, cv.fail("test operator")
		}
		l, ok := cv.word(args[0], false)
		if !ok || len(l) != 1 || l[0].K != 'v' {
			return nil, cv.fail("test left operand")
		}
		r, ok := cv.word(args[2], false)
		if !ok || len(r) != 1 || r[0].K != 'l' || !skSafeLit(r[0].S) || r[0].S == "-" {
			return nil, cv.fail("test right operand")
		}
		return &skCmd{K: "test", Name: l[0].S, TNeg: op == "!=", Lit: r[0].S}, true
	}
	if len(args) == 0 && syntax.ValidName(name) && !interp.IsBuiltin(name) && skFnName(name) {
		return &skCmd{K: "call", Name: name}, true
	}
	return nil, cv.fail("command %q", name)
}

// skFnName: names that are certainly not external commands on the test machine or stubs.
func skFnName(name string) bool {
	switch name {
	case "a", "b", "c", "d", "e", "f", "foo", "bar", "ls", "cat", "sh", "cp", "mv", "rm", "ln", "id", "wc", "du", "df", "dd", "ed", "ps", "w", "who", "yes", "env", "sed", "awk", "tr", "tee", "top", "vi", "ex", "x":
		return false
	}
	for _, d := range []string{"/usr/bin", "/bin", "/usr/local/bin"} {
		if _, err := os.Stat(filepath.Join(d, name)); err == nil {
			return false
		}
	}
	return true
}

func (cv *skConv) cmd(cm syntax.Command) (*skCmd, bool) {
	switch x := cm.(type) {
	case *syntax.CallExpr:
		return cv.call(x)
	case *syntax.Block:
		p, ok := cv.prog(x.Stmts)
		if !ok {
			return nil, false
		}
		return &skCmd{K: "block", P: p}, true
	case *syntax.Subshell:
		p, ok := cv.prog(x.Stmts)
		if !ok || len(p) == 0 {
			return nil, cv.fail("empty subshell")
		}
		return &skCmd{K: "subsh", P: p}, true
	case *syntax.BinaryCmd:
		k := ""
		switch x.Op {
		case syntax.AndStmt:
			k = "and"
		case syntax.OrStmt:
			k = "or"
		case syntax.Pipe:
			k = "pipe"
		default:
			return nil, cv.fail("|&")
		}
		a, ok := cv.stmt(x.X)
		if !ok {
			return nil, false
		}
		b, ok := cv.stmt(x.Y)
		if !ok {
			return nil, false
		}
		return &skCmd{K: k, X: a, Y: b}, true
	case *syntax.IfClause:
		c, ok := cv.prog(x.Cond)
		if !ok {
			return nil, false
		}
		t, ok := cv.prog(x.Then)
		if !ok {
			return nil, false
		}
		e, ok := cv.els(x.Else)
		if !ok {
			return nil, false
		}
		return &skCmd{K: "if", P: c, P2: t, Else: e}, true
	case *syntax.WhileClause:
		c, ok := cv.prog(x.Cond)
		if !ok {
			return nil, false
		}
		b, ok := cv.prog(x.Do)
		if !ok {
			return nil, false
		}
		return &skCmd{K: "while", On: x.Until, P: c, P2: b}, true
	case *syntax.ForClause:
		wi, ok := x.Loop.(*syntax.WordIter)
		if !ok || x.Select || x.Braces || !wi.InPos.IsValid() {
			return nil, cv.fail("for form")
		}
		if !syntax.ValidName(wi.Name.Value) || skSpecialVar(wi.Name.Value) {
			return nil, cv.fail("for variable")
		}
		var items []string
		for _, it := range wi.Items {
			l := it.Lit()
			if !skSafeLit(l) || len(it.Parts) != 1 {
				return nil, cv.fail("for item")
			}
			items = append(items, l)
		}
		b, ok := cv.prog(x.Do)
		if !ok {
			return nil, false
		}
		return &skCmd{K: "for", Name: wi.Name.Value, Items: items, P2: b}, true
	case *syntax.CaseClause:
		if x.Braces {
			return nil, cv.fail("case form")
		}
		w, ok := cv.word(x.Word, true)
		if !ok {
			return nil, false
		}
		var items []skItem
		for _, ci := range x.Items {
			it := skItem{}
			switch ci.Op {
			case syntax.Break:
				it.Op = "brk"
			case syntax.Fallthrough:
				it.Op = "fall"
			case syntax.Resume:
				it.Op = "resume"
			default:
				return nil, cv.fail("case operator")
			}
			for _, pw := range ci.Patterns {
				l := pw.Lit()
				if len(pw.Parts) == 1 && l == "*" {
					it.Pats = append(it.Pats, skPat{Star: true})
				} else if len(pw.Parts) == 1 && skSafeLit(l) {
					it.Pats = append(it.Pats, skPat{S: l})
				} else {
					return nil, cv.fail("case pattern")
				}
			}
			b, ok := cv.prog(ci.Stmts)
			if !ok {
				return nil, false
			}
			it.Body = b
			items = append(items, it)
		}
		return &skCmd{K: "case", W: w, Case: items}, true
	case *syntax.FuncDecl:
		if x.Name == nil || x.RsrvWord || !skFnName(x.Name.Value) || interp.IsBuiltin(x.Name.Value) || !syntax.ValidName(x.Name.Value) {
			return nil, cv.fail("function form")
		}
		b, ok := cv.stmt(x.Body)
		if !ok {
			return nil, false
		}
		return &skCmd{K: "fn", Name: x.Name.Value, Body: b}, true
	}
	return nil, cv.fail("command %T", cm)
}

func (cv *skConv) els(e *syntax.IfClause) (*skElse, bool) {
	if e == nil {
		return &skElse{K: "none"}, true
	}
	if !e.ThenPos.IsValid() && len(e.Cond) == 0 {
		t, ok := cv.prog(e.Then)
		if !ok {
			return nil, false
		}
		return &skElse{K: "els", T: t}, true
	}
	c, ok := cv.prog(e.Cond)
	if !ok {
		return nil, false
	}
	t, ok := cv.prog(e.Then)
	if !ok {
		return nil, false
	}
	r, ok := cv.els(e.Else)
	if !ok {
		return nil, false
	}
	return &skElse{K: "elif", C: c, T: t, E: r}, true
}

// skFromText parses text as bash and converts it; why explains a refusal.
func skFromText(text string) (prog []*skStmt, why string) {
	var f *syntax.File
	var err error
	p := safely(func() { f, err = syntax.NewParser().Parse(strings.NewReader(text), "") })
	if p != "" || err != nil {
		return nil, "parse error"
	}
	cv := &skConv{}
	out, ok := cv.prog(f.Stmts)
	if !ok {
		return nil, cv.why
	}
	return out, ""
}

// ---------------------------------------------------------------------------------------------
// Go port of ShVerif.C26.supportedProg (routing only; tied to the Lean definition by `supported` ops)

type skCtx struct {
	e, ign, unk, fn, top bool
	tl                          []bool
}

func skHeadFalse(tl []bool) []bool {
	if len(tl) == 0 {
		return tl
	}
	out := append([]bool{false}, tl[1:]...)
	return out
}

func skPure(c *skCmd) bool {
	switch c.K {
	case "true", "false", "echo", "test", "assign":
		return true
	}
	return false
}

func skZero(c *skCmd) bool {
	switch c.K {
	case "true", "echo", "assign", "sete", "setpf", "trapexit", "fn", "brk", "cont":
		return true
	}
	return false
}

func skSimpleTrap(p []*skStmt) bool {
	for _, s := range p {
		if s.Neg {
			return false
		}
		switch s.C.K {
		case "true":
		case "echo":
		default:
			return false
		}
	}
	return true
}

func skTailOkS(s *skStmt) bool {
	if s.Neg || s.C.K == "and" {
		return false
	}
	if s.C.K == "or" {
		return skTailOkS(s.C.Y)
	}
	return true
}

func skLevelsOk(tl []bool, n *int) bool {
	m := 1
	if n != nil {
		m = *n
	}
	if m < 1 || m > len(tl) {
		return false
	}
	for _, b := range tl[:m] {
		if !b {
			return false
		}
	}
	return true
}

func skSubCtx(k skCtx) skCtx { return skCtx{e: k.e} }
func skFnCtx(k skCtx) skCtx  { return skCtx{e: k.e, unk: true, fn: true} }

func skSupStmt(k skCtx, s *skStmt) bool {
	if s.Neg {
		if skPure(s.C) {
			return true
		}
		return !k.e && s.C.K == "subsh" && skSupProg(skSubCtx(k), false, s.C.P)
	}
	return skSupCmd(k, s.C)
}

func skSupCmd(k skCtx, c *skCmd) bool {
	cond := k
	cond.ign = true
	cond.tl = skHeadFalse(k.tl)
	switch c.K {
	case "true", "false", "echo", "test", "assign", "setpf", "exit", "call":
		return true
	case "sete":
		return !c.On || k.e
	case "ret":
		return c.N != nil && k.fn
	case "brk", "cont":
		return skLevelsOk(k.tl, c.N)
	case "trapexit":
		return k.top && skSimpleTrap(c.P)
	case "traperr":
		return len(c.P) == 0
	case "asub", "echosub":
		for _, pt := range c.W2 {
			if pt.K == 's' { // [finding C26-status-after-cmdsubst]
				return false
			}
		}
		return !(k.e && (k.ign || k.unk)) && skSupProg(skSubCtx(k), false, c.P)
	case "subsh":
		return !(k.e && (k.ign || k.unk)) && skSupProg(skSubCtx(k), false, c.P)
	case "block":
		return skSupProg(k, true, c.P)
	case "and", "or":
		return skSupStmt(cond, c.X) && skSupStmt(k, c.Y)
	case "pipe":
		return !(k.e && (k.ign || k.unk)) && !c.X.Neg && skSupCmd(skSubCtx(k), c.X.C) && !c.Y.Neg && skPure(c.Y.C) && c.Y.C.K != "assign"
	case "if":
		return skSupProg(cond, false, c.P) && skSupProg(k, true, c.P2) && skSupElse(k, c.Else)
	case "while":
		body := k
		body.tl = append([]bool{true}, k.tl...)
		lastZero := true
		if n := len(c.P2); n > 0 {
			lastZero = !c.P2[n-1].Neg && skZero(c.P2[n-1].C)
		}
		return skSupProg(cond, false, c.P) && skSupBody(body, c.P2) && lastZero
	case "for":
		body := k
		body.tl = append([]bool{true}, k.tl...)
		tailOk := true
		if n := len(c.P2); n > 0 {
			tailOk = skTailOkS(c.P2[n-1])
		}
		return skSupBody(body, c.P2) && (!k.e || k.ign || tailOk)
	case "case":
		chain := false
		for _, it := range c.Case {
			kk := k
			if it.Op != "brk" {
				kk.tl = skHeadFalse(k.tl)
			}
			if (chain && len(it.Body) == 0) || !skSupProg(kk, true, it.Body) {
				return false
			}
			if it.Op != "brk" {
				chain = true
			}
		}
		return true
	case "fn":
		return !c.Body.Neg && c.Body.C.K == "block" && skSupProg(skFnCtx(k), true, c.Body.C.P)
	}
	return false
}

func skSupProg(k skCtx, tailRule bool, p []*skStmt) bool {
	for i, s := range p {
		if i == len(p)-1 {
			if !skSupStmt(k, s) || !(!tailRule || !k.e || k.ign || skTailOkS(s)) {
				return false
			}
		} else {
			kk := k
			kk.tl = skHeadFalse(k.tl)
			if !skSupStmt(kk, s) {
				return false
			}
		}
	}
	return true
}

func skSupBody(k skCtx, p []*skStmt) bool {
	for _, s := range p {
		if !skSupStmt(k, s) {
			return false
		}
	}
	return true
}

func skSupElse(k skCtx, e *skElse) bool {
	switch e.K {
	case "none":
		return true
	case "els":
		return skSupProg(k, true, e.T)
	}
	cond := k
	cond.ign = true
	cond.tl = skHeadFalse(k.tl)
	return skSupProg(cond, false, e.C) && skSupProg(k, true, e.T) && skSupElse(k, e.E)
}

func skSupported(e bool, p []*skStmt) bool {
	return skSupProg(skCtx{e: e, top: true}, false, p)
}

// skHas reports whether some command of kind k occurs (with predicate f, if not nil).
func skWalk(p []*skStmt, f func(s *skStmt)) {
	var cmd func(c *skCmd)
	var els func(e *skElse)
	prog := func(p []*skStmt) { skWalk(p, f) }
	els = func(e *skElse) {
		if e == nil {
			return
		}
		prog(e.C)
		prog(e.T)
		els(e.E)
	}
	cmd = func(c *skCmd) {
		prog(c.P)
		prog(c.P2)
		if c.X != nil {
			prog([]*skStmt{c.X, c.Y})
		}
		els(c.Else)
		for _, it := range c.Case {
			prog(it.Body)
		}
		if c.Body != nil {
			prog([]*skStmt{c.Body})
		}
	}
	for _, s := range p {
		f(s)
		cmd(s.C)
	}
}

func skHasSetE(p []*skStmt) bool {
	has := false
	skWalk(p, func(s *skStmt) {
		if s.C.K == "sete" && s.C.On {
			has = true
		}
	})
	return has
}

// skBashRacy: under bash a non-last pipeline stage that writes may be killed by SIGPIPE before or
// after it finishes (observed: `set -o pipefail; echo x | true; echo $?` prints 0 or 141), so such
// programs are not compared with bash (oracle nondeterminism, not a divergence).
func skBashRacy(p []*skStmt) bool {
	racy := false
	var writes func(s *skStmt) bool
	writes = func(s *skStmt) bool {
		w := false
		skWalk([]*skStmt{s}, func(t *skStmt) {
			if t.C.K == "echo" || t.C.K == "echosub" || t.C.K == "call" {
				w = true
			}
		})
		return w
	}
	skWalk(p, func(s *skStmt) {
		if s.C.K == "pipe" && writes(s.C.X) {
			racy = true
		}
	})
	return racy
}

// ---------------------------------------------------------------------------------------------
// generator

type skGen struct {
	r      *Rand
	wild   int // percent of choices made without regard to the supported fragment
	e      bool
	nfn    int
	nloop  int
	budget int
}

var skVars = []string{"x", "y", "z"}
var skLits = []string{"a", "b", "ab", "aa", "1", "0", "x:y", "k"}

func (g *skGen) wildly() bool { return g.r.Intn(100) < g.wild }

func (g *skGen) word(closed bool) []skPart {
	r := g.r
	var w []skPart
	n := 1 + r.Intn(2)
	for i := 0; i < n; i++ {
		switch k := r.Intn(6); {
		case k < 2:
			w = append(w, skPart{K: 'l', S: r.Pick(skLits)})
		case k < 4:
			w = append(w, skPart{K: 's'})
		default:
			_ = closed
			w = append(w, skPart{K: 'v', S: r.Pick(append(skVars, "i", "j"))})
		}
	}
	// merge adjacent literals as the parser would
	var out []skPart
	for _, p := range w {
		if p.K == 'l' && len(out) > 0 && out[len(out)-1].K == 'l' {
			out[len(out)-1].S += p.S
		} else {
			out = append(out, p)
		}
	}
	return out
}

func intp(n int) *int { return &n }

func (g *skGen) pure() *skCmd {
	r := g.r
	switch r.Intn(10) {
	case 0:
		return &skCmd{K: "true", Lit: r.Pick([]string{"true", ":"})}
	case 1, 2:
		if g.e && r.Bool() {
			return &skCmd{K: "echo", W: g.word(false)}
		}
		return &skCmd{K: "false"}
	case 3, 4, 8, 9:
		return &skCmd{K: "echo", W: g.word(false)}
	case 5:
		return &skCmd{K: "test", Name: r.Pick(skVars), TNeg: r.Bool(), Lit: r.Pick(skLits)}
	default:
		return &skCmd{K: "assign", Name: r.Pick(skVars), W: g.word(false)}
	}
}

func (g *skGen) trapBody() []*skStmt {
	n := 1 + g.r.Intn(2)
	var p []*skStmt
	for i := 0; i < n; i++ {
		// wild trap actions: any simple command except traps (quoting) and break/continue/return
		// (their effect from inside a trap action on the interrupted loop/function is not modelled)
		if a := g.atom(skCtx{e: g.e}); g.wildly() && a.K != "trapexit" && a.K != "traperr" && a.K != "brk" && a.K != "cont" && a.K != "ret" {
			p = append(p, &skStmt{C: a})
		} else if g.r.Intn(4) == 0 {
			p = append(p, &skStmt{C: &skCmd{K: "true", Lit: "true"}})
		} else {
			p = append(p, &skStmt{C: &skCmd{K: "echo", W: append([]skPart{{K: 'l', S: "t"}}, g.word(true)...)}})
		}
	}
	// merge literals
	for _, s := range p {
		if s.C.K == "echo" {
			var out []skPart
			for _, pt := range s.C.W {
				if pt.K == 'l' && len(out) > 0 && out[len(out)-1].K == 'l' {
					out[len(out)-1].S += pt.S
				} else {
					out = append(out, pt)
				}
			}
			s.C.W = out
		}
	}
	return p
}

// atom: a simple command fit for the context (unless wild).
func (g *skGen) atom(k skCtx) *skCmd {
	r := g.r
	for {
		switch c := r.Intn(30); {
		case c < 12:
			return g.pure()
		case c < 14:
			if (k.top || k.unk) && r.Intn(4) != 0 {
				continue // exits of the main shell end the experiment early: keep them rare
			}
			if r.Bool() {
				return c26Padded(r, &skCmd{K: "exit", N: intp(c26PickInt(r, []int{0, 1, 2, 3, 7, 8, 10, 100, 255, 256, 300}))})
			}
			return &skCmd{K: "exit"}
		case c < 16:
			if k.fn || g.wildly() {
				if g.wildly() && r.Bool() {
					return &skCmd{K: "ret"}
				}
				return c26Padded(r, &skCmd{K: "ret", N: intp(c26PickInt(r, []int{0, 1, 2, 3, 8, 9, 10, 100, 257}))})
			}
		case c < 19:
			kind := r.Pick([]string{"brk", "cont"})
			if g.wildly() {
				if r.Bool() {
					return &skCmd{K: kind}
				}
				return &skCmd{K: kind, N: intp(c26PickInt(r, []int{-1, 0, 1, 2, 3, 5}))}
			}
			lv := 0
			for lv < len(k.tl) && k.tl[lv] {
				lv++
			}
			if lv > 0 {
				n := 1 + r.Intn(lv)
				if n == 1 && r.Bool() {
					return &skCmd{K: kind}
				}
				return &skCmd{K: kind, N: intp(n)}
			}
		case c < 21:
			on := r.Bool()
			if !on || g.e || g.wildly() {
				return &skCmd{K: "sete", On: on}
			}
		case c < 23:
			return &skCmd{K: "setpf", On: r.Intn(3) != 0}
		case c < 25:
			if k.top || g.wildly() {
				if r.Intn(5) == 0 {
					return &skCmd{K: "trapexit"}
				}
				return &skCmd{K: "trapexit", P: g.trapBody()}
			}
		case c < 26:
			if g.wildly() {
				if r.Intn(4) == 0 {
					return &skCmd{K: "traperr"}
				}
				return &skCmd{K: "traperr", P: g.trapBody()}
			}
		default:
			if g.nfn > 0 {
				return &skCmd{K: "call", Name: fmt.Sprintf("fn%d", 1+r.Intn(g.nfn))}
			}
			if r.Intn(8) == 0 {
				return &skCmd{K: "call", Name: "nofn"}
			}
		}
	}
}

// c26FailAtom: a command that ends a substitution with a non-zero status.
func c26FailAtom(r *Rand) *skCmd {
	if r.Bool() {
		return &skCmd{K: "false"}
	}
	return &skCmd{K: "exit", N: intp(c26PickInt(r, []int{1, 3, 7}))}
}

// c26Padded: the operand of exit/return is sometimes written with leading zeros (`07`, `010`,
// `08`, `0100`): still decimal for bash and for the interpreter's Atoi (seeded change C26-4 read
// them in base 0).
func c26Padded(r *Rand, c *skCmd) *skCmd {
	if r.Intn(3) == 0 {
		c.Lit = strings.Repeat("0", 1+r.Intn(2)) + strconv.Itoa(*c.N)
	}
	return c
}

func c26PickInt(r *Rand, s []int) int { return s[r.Intn(len(s))] }

func (g *skGen) prog(k skCtx, tailRule bool, depth, maxLen int) []*skStmt {
	n := 1 + g.r.Intn(maxLen)
	var p []*skStmt
	for i := 0; i < n; i++ {
		kk := k
		last := i == n-1
		if !last {
			kk.tl = skHeadFalse(k.tl)
		}
		s := g.stmt(kk, depth)
		if last && tailRule && k.e && !k.ign && !skTailOkS(s) && !g.wildly() {
			p = append(p, s, &skStmt{C: g.pure()})
			continue
		}
		p = append(p, s)
	}
	return p
}

func (g *skGen) body(k skCtx, depth int) []*skStmt {
	n := 1 + g.r.Intn(3)
	var p []*skStmt
	for i := 0; i < n; i++ {
		p = append(p, g.stmt(k, depth))
	}
	return p
}

func (g *skGen) stmt(k skCtx, depth int) *skStmt {
	r := g.r
	g.budget--
	if depth <= 0 || g.budget <= 0 || r.Intn(100) < 45 {
		c := g.atom(k)
		if r.Intn(8) == 0 && (skPure(c) || g.wildly()) {
			return &skStmt{Neg: true, C: c}
		}
		return &skStmt{C: c}
	}
	cond := k
	cond.ign = true
	cond.tl = skHeadFalse(k.tl)
	noSub := k.e && (k.ign || k.unk)
	for {
		switch c := r.Intn(22); {
		case c < 2:
			return &skStmt{C: &skCmd{K: "block", P: g.prog(k, true, depth-1, 3)}}
		case c < 4:
			if !noSub || g.wildly() {
				neg := !k.e && r.Intn(6) == 0
				return &skStmt{Neg: neg, C: &skCmd{K: "subsh", P: g.prog(skSubCtx(k), false, depth-1, 3)}}
			}
		case c < 6:
			if !noSub || g.wildly() {
				p := g.prog(skSubCtx(k), false, depth-1, 3)
				if r.Intn(5) < 2 {
					// a substitution in an argument: its status goes to lastExpandExit and must not
					// be seen by anything later; make it fail often
					if r.Bool() {
						p = append(p, &skStmt{C: c26FailAtom(r)})
					}
					var w1, w2 []skPart
					if r.Bool() {
						w1 = []skPart{{K: 'l', S: r.Pick(skLits)}}
					}
					if r.Intn(3) == 0 {
						for _, pt := range g.word(false) {
							if pt.K != 's' || g.wildly() {
								w2 = append(w2, pt)
							}
						}
					}
					return &skStmt{C: &skCmd{K: "echosub", W: w1, P: p, W2: w2}}
				}
				return &skStmt{C: &skCmd{K: "asub", Name: r.Pick(skVars), P: p}}
			}
		case c < 9:
			kind := r.Pick([]string{"and", "or"})
			x := skNoFnOperand(g.stmt(cond, depth-1))
			y := skNoFnOperand(g.stmt(k, depth-1))
			if y.C.K == "and" || y.C.K == "or" {
				y = &skStmt{C: &skCmd{K: "block", P: []*skStmt{y}}}
			}
			if x.C.K == "pipe" && x.Neg {
				x.Neg = false
			}
			return &skStmt{C: &skCmd{K: kind, X: x, Y: y}}
		case c < 11:
			if !noSub || g.wildly() {
				x := skNoFnOperand(g.stmt(skSubCtx(k), depth-1))
				x.Neg = false
				if x.C.K == "and" || x.C.K == "or" {
					x = &skStmt{C: &skCmd{K: "block", P: []*skStmt{x}}}
				}
				var y *skStmt
				if g.wildly() {
					y = skNoFnOperand(g.stmt(k, depth-1))
					y.Neg = false
					if y.C.K == "and" || y.C.K == "or" || y.C.K == "pipe" {
						y = &skStmt{C: &skCmd{K: "block", P: []*skStmt{y}}}
					}
				} else {
					y = &skStmt{C: g.pure()}
					for y.C.K == "assign" {
						y = &skStmt{C: g.pure()}
					}
				}
				return &skStmt{Neg: r.Intn(8) == 0 && (!k.e || g.wildly()) && false, C: &skCmd{K: "pipe", X: x, Y: y}}
			}
		case c < 14:
			e := &skElse{K: "none"}
			switch r.Intn(4) {
			case 0:
				e = &skElse{K: "els", T: g.prog(k, true, depth-1, 2)}
			case 1:
				e = &skElse{K: "elif", C: g.prog(cond, false, depth-1, 2), T: g.prog(k, true, depth-1, 2), E: &skElse{K: "none"}}
				if r.Bool() {
					e.E = &skElse{K: "els", T: g.prog(k, true, depth-1, 2)}
				}
			}
			return &skStmt{C: &skCmd{K: "if", P: g.prog(cond, false, depth-1, 2), P2: g.prog(k, true, depth-1, 3), Else: e}}
		case c < 16:
			// while/until over a private counter so that the loop terminates
			g.nloop++
			w := fmt.Sprintf("w%d", g.nloop)
			lim := r.Pick([]string{"a", "aa", "aaa"})
			until := r.Bool()
			body := k
			body.tl = append([]bool{true}, k.tl...)
			var c []*skStmt
			if r.Intn(4) == 0 {
				c = g.prog(cond, false, depth-1, 1)
			}
			c = append(c, &skStmt{C: &skCmd{K: "test", Name: w, TNeg: !until, Lit: lim}})
			b := []*skStmt{{C: &skCmd{K: "assign", Name: w, W: []skPart{{K: 'v', S: w}, {K: 'l', S: "a"}}}}}
			b = append(b, g.body(body, depth-1)...)
			if last := b[len(b)-1]; (last.Neg || !skZero(last.C)) && !g.wildly() {
				b = append(b, &skStmt{C: &skCmd{K: "echo", W: []skPart{{K: 'l', S: "w"}, {K: 'v', S: w}}}})
			}
			loop := &skStmt{C: &skCmd{K: "while", On: until, P: c, P2: b}}
			init := &skStmt{C: &skCmd{K: "assign", Name: w}}
			return &skStmt{C: &skCmd{K: "block", P: []*skStmt{init, loop}}}
		case c < 18:
			body := k
			body.tl = append([]bool{true}, k.tl...)
			nit := r.Intn(4)
			var items []string
			for i := 0; i < nit; i++ {
				items = append(items, r.Pick(skLits))
			}
			b := g.body(body, depth-1)
			if last := b[len(b)-1]; k.e && !k.ign && !skTailOkS(last) && !g.wildly() {
				b = append(b, &skStmt{C: g.pure()})
			}
			return &skStmt{C: &skCmd{K: "for", Name: r.Pick([]string{"i", "j"}), Items: items, P2: b}}
		case c < 20:
			var items []skItem
			chain := false
			n := 1 + r.Intn(3)
			for i := 0; i < n; i++ {
				it := skItem{Op: r.Pick([]string{"brk", "brk", "brk", "fall", "resume"})}
				np := 1 + r.Intn(2)
				for j := 0; j < np; j++ {
					if r.Intn(5) == 0 {
						it.Pats = append(it.Pats, skPat{Star: true})
					} else {
						it.Pats = append(it.Pats, skPat{S: r.Pick(skLits)})
					}
				}
				kk := k
				if it.Op != "brk" {
					kk.tl = skHeadFalse(k.tl)
				}
				if r.Intn(8) != 0 || (chain && !g.wildly()) {
					it.Body = g.prog(kk, true, depth-1, 2)
				}
				if it.Op != "brk" {
					chain = true
				}
				items = append(items, it)
			}
			return &skStmt{C: &skCmd{K: "case", W: g.word(false), Case: items}}
		default:
			if g.nfn < 3 && depth >= 2 {
				p := g.prog(skFnCtx(k), true, depth-1, 3)
				g.nfn++
				return &skStmt{C: &skCmd{K: "fn", Name: fmt.Sprintf("fn%d", g.nfn), Body: &skStmt{C: &skCmd{K: "block", P: p}}}}
			}
		}
	}
}

// skNoFnOperand: a function declaration directly followed by `&&`, `||` or `|` is read by the parser
// as a function whose body is the whole list (finding C26-funcdecl-list); with a call of the same
// function in the list that body recurses for ever.  Generated declarations are therefore always
// list-level statements; as operands they are wrapped in `{ }`.  (The finding's witness is replayed
// from the corpus.)
func skNoFnOperand(s *skStmt) *skStmt {
	if s.C.K == "fn" {
		return &skStmt{C: &skCmd{K: "block", P: []*skStmt{s}}}
	}
	return s
}

// staleExpand: the two-step shape "a failing command substitution in an argument … ordinary
// commands … a plain assignment whose status is observed" (`$?`, `||`, `set -e`, function return):
// the substitution's status (Runner.lastExpandExit) must not leak into the later assignment.
func (g *skGen) staleExpand(k skCtx) []*skStmt {
	r := g.r
	sub := []*skStmt{{C: &skCmd{K: "echo", W: []skPart{{K: 'l', S: r.Pick(skLits)}}}}, {C: c26FailAtom(r)}}
	if r.Bool() {
		sub = sub[1:]
	}
	seq := []*skStmt{{C: &skCmd{K: "echosub", W: []skPart{{K: 'l', S: "s"}}, P: sub}}}
	for i, m := 0, r.Intn(3); i < m; i++ {
		switch r.Intn(4) {
		case 0:
			seq = append(seq, &skStmt{C: &skCmd{K: "echo", W: g.word(false)}})
		case 1:
			seq = append(seq, &skStmt{C: &skCmd{K: "true", Lit: "true"}})
		case 2:
			seq = append(seq, &skStmt{C: &skCmd{K: "test", Name: "x", TNeg: true, Lit: "zz"}})
		default:
			seq = append(seq, &skStmt{C: &skCmd{K: "setpf", On: r.Bool()}})
		}
	}
	asg := &skStmt{C: &skCmd{K: "assign", Name: r.Pick(skVars), W: []skPart{{K: 'l', S: r.Pick(skLits)}}}}
	st := []skPart{{K: 'l', S: "q"}, {K: 's'}}
	switch r.Intn(4) {
	case 0: // $?
		seq = append(seq, asg, &skStmt{C: &skCmd{K: "echo", W: st}})
	case 1: // || branch
		seq = append(seq, &skStmt{C: &skCmd{K: "or", X: asg, Y: &skStmt{C: &skCmd{K: "echo", W: []skPart{{K: 'l', S: "stale"}}}}}})
	case 2: // if condition
		seq = append(seq, &skStmt{C: &skCmd{K: "if", P: []*skStmt{asg}, P2: []*skStmt{{C: &skCmd{K: "echo", W: []skPart{{K: 'l', S: "ok"}}}}},
			Else: &skElse{K: "els", T: []*skStmt{{C: &skCmd{K: "echo", W: []skPart{{K: 'l', S: "stale"}}}}}}}})
	default: // function return value (and errexit when set -e is on)
		if g.nfn < 3 && !k.unk {
			g.nfn++
			name := fmt.Sprintf("fn%d", g.nfn)
			body := append(append([]*skStmt{}, seq...), asg)
			return []*skStmt{{C: &skCmd{K: "fn", Name: name, Body: &skStmt{C: &skCmd{K: "block", P: body}}}},
				{C: &skCmd{K: "or", X: &skStmt{C: &skCmd{K: "call", Name: name}}, Y: &skStmt{C: &skCmd{K: "echo", W: st}}}},
				{C: &skCmd{K: "echo", W: st}}}
		}
		seq = append(seq, asg, &skStmt{C: &skCmd{K: "echo", W: st}})
	}
	return seq
}

func (g *skGen) program() []*skStmt {
	g.nfn, g.nloop = 0, 0
	g.budget = 40 + g.r.Intn(60)
	k := skCtx{e: g.e, top: true}
	var p []*skStmt
	if g.e && g.r.Intn(3) != 0 {
		p = append(p, &skStmt{C: &skCmd{K: "sete", On: true}})
	}
	n := 3 + g.r.Intn(6)
	at := -1
	if g.r.Intn(3) == 0 {
		at = g.r.Intn(n)
	}
	for i := 0; i < n; i++ {
		if i == at {
			p = append(p, g.staleExpand(k)...)
		}
		p = append(p, g.stmt(k, 3))
	}
	if g.r.Intn(3) == 0 {
		p = append(p, &skStmt{C: &skCmd{K: "echo", W: []skPart{{K: 'l', S: "end"}, {K: 's'}, {K: 'v', S: "x"}, {K: 'v', S: "i"}}}})
	}
	return p
}

// ---------------------------------------------------------------------------------------------
// running

const c26Fuel = 400

// The interpreter documents (interp/api.go bashOptsTable: inherit_errexit defaultState true, "off"
// not supported) that command substitutions inherit `-e`; bash is run the same way.
const c26BashPrefix = "shopt -s inherit_errexit\n"

func c26Res(r ShellResult) string {
	if r.TimedOut {
		return "timeout"
	}
	if r.Panic != "" {
		return "panic " + hx(r.Panic)
	}
	if r.Err != "" && !strings.HasPrefix(r.Err, "exit status") {
		return "error " + hx(r.Err)
	}
	return "ok " + hx(r.Stdout) + " " + strconv.Itoa(r.Status)
}

func c26Witness(text string) string { return "sh:" + strconv.Quote(text) }

type c26Case struct {
	wild      int
	text      string
	prog      []*skStmt
	sexp      string
	sup       bool // in the proved fragment (either mode)
	racy      bool
	in        ShellResult
	known     bool // from corpus/C26-known.txt
	forceBash bool
}

func c26(c *Ctx) {
	c.Rule = "a generated/replayed skeleton program counts as non-trivial when it contains at least one compound command or control builtin (exit/return/break/continue/set/trap) and is distinct as shell text; mutated repository programs count when distinct"
	dir := scratchDir(c)
	defer os.RemoveAll(dir)
	workers := runtime.NumCPU()
	if workers > 16 {
		workers = 16
	}
	if c.Shards > 1 {
		// the shards run side by side: share the cores
		if workers = workers / c.Shards; workers < 2 {
			workers = 2
		}
	}

	var cases []*c26Case
	seen := map[string]bool{}
	addText := func(text string, known bool, tags ...string) *c26Case {
		prog, why := skFromText(text)
		if prog == nil {
			c.Case("unconv:"+text, false, append(tags, "not-in-skeleton")...)
			_ = why
			return nil
		}
		cs := &c26Case{text: text, prog: prog, known: known}
		cs.sexp = skSexp(prog)
		e := skHasSetE(prog)
		cs.sup = skSupported(e, prog)
		cs.racy = skBashRacy(prog)
		// [finding C26-funcdecl-list] `f() { …; } && cmd` / `f() { …; } | cmd`: the parser makes the
		// whole list the function body, bash ends the definition at `}`.  The skeleton term is the
		// parser's reading, so BashSem cannot be validated against bash on such text.
		skWalk(prog, func(s *skStmt) {
			if s.C.K == "fn" && (s.C.Body.Neg || s.C.Body.C.K != "block") {
				cs.racy = true
			}
			// `continue` inside the condition list of while/until: bash's behaviour (the condition
			// "succeeds", pending `continuing` count) is not modelled by BashSem; such programs are
			// outside the supported fragment anyway (no break/continue in conditions) and are kept
			// out of the BashSem-vs-bash validation.
			if s.C.K == "while" {
				skWalk(s.C.P, func(t *skStmt) {
					if t.C.K == "cont" {
						cs.racy = true
					}
				})
			}
			// an ERR trap set inside a negated command: bash runs it for failures inside `! ( … )`
			// although it ignores -e there; BashSem uses one "ignored" notion for both.  ERR traps
			// are outside the theorem; these programs are kept out of the BashSem validation.
			// an EXIT trap set inside a pipeline stage: whether bash 5.2 runs it depends on whether the
			// stage got a process of its own (last stage of a pipeline that ends a subshell …); not
			// modelled, unsupported anyway (finding C26-exit-trap-subshell covers the interpreter side)
			if s.C.K == "pipe" {
				skWalk([]*skStmt{s.C.X, s.C.Y}, func(t *skStmt) {
					if t.C.K == "trapexit" && len(t.C.P) > 0 {
						cs.racy = true
					}
				})
			}
			// break/continue/return inside a trap action act on the interrupted loop/function in
			// bash; BashSem confines them to the action
			if s.C.K == "trapexit" || s.C.K == "traperr" {
				skWalk(s.C.P, func(t *skStmt) {
					if t.C.K == "brk" || t.C.K == "cont" || t.C.K == "ret" {
						cs.racy = true
					}
				})
			}
			if s.Neg {
				skWalk([]*skStmt{{C: s.C}}, func(t *skStmt) {
					if t.C.K == "traperr" && len(t.C.P) > 0 {
						cs.racy = true
					}
				})
			}
		})
		nontrivial := false
		skWalk(prog, func(s *skStmt) {
			if !skPure(s.C) {
				nontrivial = true
			}
		})
		if seen[text] {
			nontrivial = false
		}
		seen[text] = true
		t := append([]string{}, tags...)
		if cs.sup {
			t = append(t, "supported")
			if e {
				t = append(t, "supported-with-set-e")
			}
		} else {
			t = append(t, "outside-fragment")
		}
		skWalk(prog, func(s *skStmt) { t = append(t, "k:"+s.C.K) })
		c.Case(text, nontrivial, skDedupTags(t)...)
		cases = append(cases, cs)
		return cs
	}

	// 1. corpus: known witnesses and seeds (shell text, one per line, Go-quoted after "sh:")
	for _, l := range c.CorpusLines() {
		if strings.HasPrefix(l, "specsh:") {
			// BashSem validation only (the interpreter is known to differ: ERR traps): model tie and
			// specbash, no interp-vs-bash verdict
			if text, err := strconv.Unquote(strings.TrimPrefix(l, "specsh:")); err == nil {
				if cs := addText(text, false, "corpus-spec"); cs != nil {
					cs.forceBash = true
				}
			}
			continue
		}
		if !strings.HasPrefix(l, "sh:") {
			continue
		}
		text, err := strconv.Unquote(strings.TrimPrefix(l, "sh:"))
		if err != nil {
			continue
		}
		if cs := addText(text, true, "corpus"); cs != nil {
			cs.forceBash = true
		} else {
			// outside the skeleton: plain interp-vs-bash replay
			cases = append(cases, &c26Case{text: text, known: true, forceBash: true})
		}
	}

	// 2. generated skeleton programs
	for i := 0; i < c.N; i++ {
		g := &skGen{r: c.R, e: c.R.Intn(2) == 0, wild: []int{0, 0, 3, 10, 30}[c.R.Intn(5)]}
		p := g.program()
		text := skProgText(p, "\n") + "\n"
		mode := "gen-strict"
		if g.wild > 0 {
			mode = "gen-wild"
		}
		cs := addText(text, false, mode)
		if cs == nil {
			panic("C26 generator produced a program outside its own skeleton: " + text)
		}
		cs.wild = g.wild
	}

	// run interp on everything (in-process, fast)
	for _, cs := range cases {
		cs.in = runInterpIn(c, syntax.LangBash, dir, cs.text)
		if cs.in.TimedOut {
			// skeleton programs terminate: a 3 s timeout is the machine (16 shards, bash children),
			// not the interpreter; only a program that also exceeds 60 s is reported as hanging
			c.Hist["interp-slow-retry"]++
			cs.in, _ = c26RunInterpT(c, cs.text, 60*time.Second)
		}
	}
	// model = code
	var dbg *os.File
	if os.Getenv("C26_DEBUG") != "" {
		dbg, _ = os.Create(filepath.Join(c.Out, "optext.txt"))
		defer dbg.Close()
	}
	dbgLine := func(cs *c26Case) {
		if dbg != nil {
			fmt.Fprintln(dbg, strconv.Quote(cs.text))
		}
	}
	for _, cs := range cases {
		if cs.prog == nil {
			continue
		}
		dbgLine(cs)
		dbgLine(cs)
		if cs.sup {
			dbgLine(cs)
		}
		c.Op(fmt.Sprintf("run %d %s", c26Fuel, cs.sexp), c26Res(cs.in))
		c.Op("supported "+cs.sexp, b01(skSupported(false, cs.prog))+b01(skSupported(true, cs.prog)))
		if cs.sup {
			c.Op(fmt.Sprintf("spec %d %s", c26Fuel, cs.sexp), c26Res(cs.in))
		}
	}

	// bash legs: all corpus cases, then a budget of generated ones (supported first)
	bashBudget := 300
	if c.Thorough() {
		bashBudget = 1300
	}
	var bashIdx []int
	for i, cs := range cases {
		if cs.forceBash {
			bashIdx = append(bashIdx, i)
		}
	}
	nb := 0
	for i, cs := range cases {
		if cs.forceBash || cs.racy || nb >= bashBudget {
			continue
		}
		// two thirds supported programs (search leg), one third unsupported ones with few
		// unsupported features (spec validation; programs piling up several exotic constructs
		// mostly test bash corner cases nobody claims BashSem covers)
		if cs.sup || (nb%3 == 2 && cs.wild <= 3) {
			bashIdx = append(bashIdx, i)
			nb++
		}
	}
	bres := parallelMap(len(bashIdx), workers, func(i int) ShellResult {
		return runShellIn(c, "bash", dir, c26BashPrefix+cases[bashIdx[i]].text)
	})
	nBash := 0
	for j, i := range bashIdx {
		cs, sh := cases[i], bres[j]
		nBash++
		if sh.Err != "" || sh.Status < 0 {
			// bash could not be started (fork/exec failure on an overloaded machine): no oracle
			c.Hist["bash-unavailable"]++
			continue
		}
		if sh.TimedOut {
			c.Hist["bash-timeout"]++
			if l, _ := c.Extra["bash_timeout_samples"].([]string); len(l) < 5 {
				c.Extra["bash_timeout_samples"] = append(l, cs.text)
			}
			continue
		}
		if cs.prog != nil && !cs.racy {
			dbgLine(cs)
			c.Op(fmt.Sprintf("specbash %d %s", c26Fuel, cs.sexp), c26Res(sh))
		}
		same := cs.in.Panic == "" && !cs.in.TimedOut && cs.in.Stdout == sh.Stdout && cs.in.Status == sh.Status
		if same {
			continue
		}
		what := fmt.Sprintf("interp: stdout %q status %d%s; bash: stdout %q status %d", cs.in.Stdout, cs.in.Status, c26Extra(cs.in), sh.Stdout, sh.Status)
		if cs.known || cs.sup || cs.prog == nil {
			c.Fail(c26Witness(cs.text), what)
		} else {
			c.Hist["outside-fragment-differs-from-bash"]++
		}
	}
	c.Extra["bash_runs"] = nBash

	c26Mutations(c, dir, workers)
}

func c26Extra(r ShellResult) string {
	if r.Panic != "" {
		return " PANIC " + r.Panic
	}
	if r.TimedOut {
		return " TIMEOUT"
	}
	return ""
}

func skDedupTags(t []string) []string {
	seen := map[string]bool{}
	var out []string
	for _, x := range t {
		if !seen[x] {
			seen[x] = true
			out = append(out, x)
		}
	}
	return out
}

// ---------------------------------------------------------------------------------------------
// second search stream: argument/value mutations of the repository's interpreter test programs

type c26Seed struct{ in, want string }

// c26RunTests reads the {in, want} pairs of `runTests` in interp/interp_test.go.
func c26RunTests() []c26Seed {
	fset := token.NewFileSet()
	af, err := goparser.ParseFile(fset, filepath.Join(repoDir(), "interp", "interp_test.go"), nil, 0)
	if err != nil {
		return nil
	}
	var str func(e ast.Expr) (string, bool)
	str = func(e ast.Expr) (string, bool) {
		switch x := e.(type) {
		case *ast.BasicLit:
			if x.Kind != token.STRING {
				return "", false
			}
			v, err := strconv.Unquote(x.Value)
			return v, err == nil
		case *ast.BinaryExpr:
			if x.Op != token.ADD {
				return "", false
			}
			a, ok1 := str(x.X)
			b, ok2 := str(x.Y)
			return a + b, ok1 && ok2
		case *ast.ParenExpr:
			return str(x.X)
		}
		return "", false
	}
	var out []c26Seed
	for _, d := range af.Decls {
		gd, ok := d.(*ast.GenDecl)
		if !ok {
			continue
		}
		for _, sp := range gd.Specs {
			vs, ok := sp.(*ast.ValueSpec)
			if !ok || len(vs.Names) != 1 || vs.Names[0].Name != "runTests" || len(vs.Values) != 1 {
				continue
			}
			cl, ok := vs.Values[0].(*ast.CompositeLit)
			if !ok {
				continue
			}
			for _, el := range cl.Elts {
				e, ok := el.(*ast.CompositeLit)
				if !ok || len(e.Elts) != 2 {
					continue
				}
				in, ok1 := str(e.Elts[0])
				want, ok2 := str(e.Elts[1])
				if ok1 && ok2 {
					out = append(out, c26Seed{in, want})
				}
			}
		}
	}
	return out
}

// c26Nondet: programs whose output is not a function of the program text (DESIGN Appendix D), or
// that need the repository's test harness (its exec handler, its helper binaries, a terminal).
var c26Nondet = regexp.MustCompile(`\$\$|\$!|RANDOM|PPID|SECONDS|BASHPID|EPOCH|SRANDOM|\bdate\b|\btime\b|\btimes\b|\bsleep\b|&\s*($|[^&>|\s])|[^&|>]&$|\bwait\b|\bjobs\b|\bkill\b|\bbg\b|\bfg\b|GOSH_|ENV_PROG|INTERP_|\bpwd\b|PWD|HOME|~|/tmp|mktemp|TMPDIR|\$0|\$_|LINENO|BASH|FUNCNAME|\bcaller\b|\bhistory\b|\bselect\b|\bumask\b|\bulimit\b|\btype\b|\bcommand\b|\bwhich\b|\bhash\b|\bhelp\b|\buname\b|HOSTNAME|\bhostname\b|\bwhoami\b|\bid\b|GROUPS|UID|\bGID\b|\btty\b|/dev/|/proc|/etc|/usr|/bin|\bls\b|\bstat\b|\bfind\b|\benv\b|export -p|declare -p|\bdeclare$|\bset$|set [-+]o$|\bshopt\b|\btrap$|\balias$|\$-|\bdirs\b|\bpushd\b|\bpopd\b|\bcd\b|\bexec\b|\bsource\b|(^|[;&|\s])\.\s|\bcoproc\b|<\(|>\(|\bread\b|\bmapfile\b|\breadarray\b|\bgetopts\b|OPTIND|\bprintenv\b|\bsh\b|\bbash\b|\bchmod\b|\bmkfifo\b|\bln\b|\bpid_and_hang\b|_interactive_only|\bbuiltin\b|\beval\b|\$\{!|\$@|\$\*|\$#|\$[1-9]|\bshift\b|\bset --|\blet\b`)

// c26KnownRegion: seed programs inside the region of an open known finding that the mutations
// cannot be kept away from otherwise (C26-cstyle-for-status, C26-local-naked).
var c26KnownRegion = regexp.MustCompile(`for \(\(|\b(local|declare|typeset)( -[a-zA-Z]+)* [A-Za-z_][A-Za-z_0-9]*\s*(;|$|\n|\))`)

type c26Mut struct {
	seed int
	text string // mutated program ("" for the original)
	what string
}

// c26Mutants lists the argument/value mutations of one program: every literal argument word
// (not the command name, not an option) that is alphanumeric, and every literal assignment value,
// is replaced by each of two other literals of the same kind.  Arguments of the builtins whose
// known divergences are tracked elsewhere are left alone (see known-findings.jsonl, exclusions).
func c26Mutants(src string) []string {
	parse := func() *syntax.File {
		f, err := syntax.NewParser().Parse(strings.NewReader(src), "")
		if err != nil {
			return nil
		}
		return f
	}
	f := parse()
	if f == nil {
		return nil
	}
	isNum := func(s string) bool {
		if s == "" || len(s) > 3 {
			return false
		}
		for _, r := range s {
			if r < '0' || r > '9' {
				return false
			}
		}
		return true
	}
	isAlpha := func(s string) bool {
		if s == "" || len(s) > 8 {
			return false
		}
		for _, r := range s {
			if !(r >= 'a' && r <= 'z') {
				return false
			}
		}
		return true
	}
	// count candidate sites
	type site struct{ repl []string }
	var sites []site
	collect := func(f *syntax.File, apply int, repl string) {
		idx := 0
		visit := func(l *syntax.Lit) {
			var rs []string
			switch {
			case isNum(l.Value):
				for _, c := range []string{"0", "1", "2", "3"} {
					if c != l.Value && len(rs) < 2 {
						rs = append(rs, c)
					}
				}
			case isAlpha(l.Value):
				// replacement words that no seed program uses as a variable, function or file name:
				// a value that names a variable of the program creates reference cycles (`declare -n
				// foo=foo`, `a=a; $((a))`) — the first is the repository's own `#IGNORE`d case, the
				// second is finding C26-arith-self-reference
				for _, c := range []string{"qq", "zqz"} {
					if c != l.Value && len(rs) < 2 {
						rs = append(rs, c)
					}
				}
			default:
				return
			}
			if apply < 0 {
				sites = append(sites, site{rs})
			} else if idx == apply {
				l.Value = repl
			}
			idx++
		}
		syntax.Walk(f, func(n syntax.Node) bool {
			switch x := n.(type) {
			case *syntax.CallExpr:
				if len(x.Args) > 0 {
					switch x.Args[0].Lit() {
					case "break", "continue", "printf", "test", "[", "unset", "export", "readonly", "local", "declare", "typeset", "return", "trap", "set", "shopt", "alias", "unalias", "wait", "kill", "exit":
						// arguments with their own findings (break/continue levels, printf formats …) or
						// naming shell objects: not mutated
						for _, as := range x.Assigns {
							_ = as
						}
						return true
					}
				}
				for _, a := range x.Args[min(1, len(x.Args)):] {
					if len(a.Parts) == 1 {
						if l, ok := a.Parts[0].(*syntax.Lit); ok {
							visit(l)
						}
					}
				}
			case *syntax.Assign:
				if x.Value != nil && len(x.Value.Parts) == 1 && x.Index == nil && !x.Append {
					if l, ok := x.Value.Parts[0].(*syntax.Lit); ok {
						visit(l)
					}
				}
			}
			return true
		})
	}
	collect(f, -1, "")
	var out []string
	for i, st := range sites {
		for _, r := range st.repl {
			g := parse()
			collect(g, i, r)
			var sb strings.Builder
			if err := syntax.NewPrinter().Print(&sb, g); err == nil && sb.String() != src {
				out = append(out, sb.String())
			}
		}
	}
	return out
}

// c26RunInterpErr is runInterp that also returns what the interpreter wrote to stderr.
func c26RunInterpErr(c *Ctx, script string) (res ShellResult, stderr string) {
	return c26RunInterpT(c, script, 3*time.Second)
}

func c26RunInterpT(c *Ctx, script string, timeout time.Duration) (res ShellResult, stderr string) {
	dir := scratchDir(c)
	defer os.RemoveAll(dir)
	var errb bytes.Buffer
	p := safely(func() {
		f, err := syntax.NewParser().Parse(strings.NewReader(script), "")
		if err != nil {
			res.Err = "parse: " + err.Error()
			res.Status = 2
			return
		}
		var out bytes.Buffer
		r, err := interp.New(interp.StdIO(nil, &out, &errb), interp.Dir(dir), interp.Env(expand.ListEnviron(shellEnv(c, dir)...)))
		if err != nil {
			res.Err = "new: " + err.Error()
			return
		}
		ctx, cancel := context.WithTimeout(context.Background(), timeout)
		defer cancel()
		err = r.Run(ctx, f)
		res.Stdout = out.String()
		if ctx.Err() != nil {
			res.TimedOut = true
			return
		}
		if err != nil {
			var es interp.ExitStatus
			if asExit(err, &es) {
				res.Status = int(es)
			} else {
				res.Err = err.Error()
				res.Status = 1
			}
		}
	})
	res.Panic = p
	return res, errb.String()
}

// c26Agree: stdout and status agree; when the interpreter reported an error on stderr (the
// repository's `#JUSTERR` convention: bash words and numbers its errors differently) only the
// stdout and the fact of failing are compared.
func c26Agree(in ShellResult, inErr string, sh ShellResult) bool {
	if in.Panic != "" || in.Stdout != sh.Stdout {
		return false
	}
	if in.Status == sh.Status {
		return true
	}
	return (inErr != "" || in.Err != "") && in.Status != 0 && sh.Status != 0
}

func c26Mutations(c *Ctx, _ string, workers int) {
	var seeds []c26Seed
	for _, s := range c26RunTests() {
		if strings.Contains(s.want, "#IGNORE") || strings.Contains(s.want, "#JUSTERR") {
			c.Hist["repo-documented-difference"]++
			continue
		}
		if s.in == "" || c26Nondet.MatchString(s.in) {
			c.Hist["repo-nondeterministic-or-harness-bound"]++
			continue
		}
		if c26KnownRegion.MatchString(s.in) {
			c.Hist["repo-known-finding-region"]++
			continue
		}
		seeds = append(seeds, s)
	}
	c.Extra["repo_seed_programs"] = len(seeds)
	if len(seeds) == 0 {
		return
	}
	// the finite mutation space; quick samples it, thorough enumerates this shard's part of it
	var muts []c26Mut
	for i, s := range seeds {
		for _, m := range c26Mutants(s.in) {
			muts = append(muts, c26Mut{seed: i, text: m})
		}
	}
	c.Extra["repo_mutation_space"] = len(muts)
	var pick []c26Mut
	if c.Thorough() {
		for i, m := range muts {
			if c.Shards <= 1 || i%c.Shards == c.Shard {
				pick = append(pick, m)
			}
		}
	} else {
		n := 120
		if c.N == 0 {
			n = 0
		}
		for i := 0; i < n && len(muts) > 0; i++ {
			pick = append(pick, muts[c.R.Intn(len(muts))])
		}
	}
	type res struct {
		in, sh, in0, sh0 ShellResult
		inErr, inErr0    string
		origDiffers      bool
	}
	out := parallelMap(len(pick), workers, func(i int) res {
		var r res
		// the unmutated program first: seeds on which this bash (5.2) and the interpreter already
		// differ are version/environment differences of the repository's own expectations
		// (TestRunnerRunConfirm needs bash 5.3), not mutations
		r.in0, r.inErr0 = c26RunInterpErr(c, seeds[pick[i].seed].in)
		r.sh0 = runShell(c, "bash", c26BashPrefix+seeds[pick[i].seed].in)
		if r.in0.TimedOut || r.sh0.TimedOut || r.sh0.Err != "" || r.sh0.Status < 0 || !c26Agree(r.in0, r.inErr0, r.sh0) {
			r.origDiffers = true
			return r
		}
		r.in, r.inErr = c26RunInterpErr(c, pick[i].text)
		r.sh = runShell(c, "bash", c26BashPrefix+pick[i].text)
		return r
	})
	for i, r := range out {
		m := pick[i]
		if r.origDiffers {
			c.Case("orig:"+seeds[m.seed].in, false, "repo-original-differs-under-bash-5.2")
			if l, _ := c.Extra["orig_differs_samples"].([]string); len(l) < 40 && !r.in0.TimedOut && !r.sh0.TimedOut {
				c.Extra["orig_differs_samples"] = append(l, fmt.Sprintf("%q interp=%q/%d bash=%q/%d", seeds[m.seed].in, r.in0.Stdout, r.in0.Status, r.sh0.Stdout, r.sh0.Status))
			}
			continue
		}
		c.Case("mut:"+m.text, true, "repo-mutant")
		if r.sh.TimedOut || r.in.TimedOut || r.sh.Err != "" || r.sh.Status < 0 {
			c.Hist["repo-mutant-timeout"]++
			continue
		}
		if !c26Agree(r.in, r.inErr, r.sh) {
			c.Fail(c26Witness(m.text), fmt.Sprintf("mutant of repository test %q: interp stdout %q status %d%s; bash stdout %q status %d",
				seeds[m.seed].in, r.in.Stdout, r.in.Status, c26Extra(r.in), r.sh.Stdout, r.sh.Status))
		}
	}
}
