//go:build c31 || all

package main

import (
	"bytes"
	"encoding/json"
	"context"
	"errors"
	"fmt"
	"io"
	"os"
	"strconv"
	"strings"
	"sync"
	"sync/atomic"
	"time"

	"mvdan.cc/sh/v3/expand"
	"mvdan.cc/sh/v3/interp"
	"mvdan.cc/sh/v3/syntax"
)

// C31 — Cancelling the context stops any program promptly.
//
// Streams
//
//	run    skeleton programs (atoms `h <id>`, if/while/until/for/C-style for/subshell): the real
//	       Runner with a CallHandler that records the atoms, gives them their status from an oracle
//	       and cancels the context from inside the k-th atom, vs the Lean skeleton model: atoms
//	       executed, word-list `for` iterations started (xtrace lines), whether Run reports the
//	       cancellation.  Independent of Lean: no atom may start after the cancellation (c.Fail).
//
// Search leg (timed, independent of Lean)
//
//	timed  generated non-terminating / blocking programs × cancellation delays 0–300 ms: Run must
//	       return within killTimeout + margin after the cancellation, with a non-nil error when a
//	       statement follows the blocking point.  Every run sits behind a hard watchdog.
func init() { register("C31", c31) }

const (
	c31KillTimeout = 100 * time.Millisecond
	// Timing policy.  "Promptly" is judged in two steps so that a loaded machine cannot raise an
	// alarm: the first pass (several runs in parallel) only sorts runs into prompt / late / not
	// returned; anything but prompt is re-examined ALONE, up to three times, with a generous bound.
	// A genuinely non-cancellable program never returns, so generous bounds lose nothing; a run
	// that merely returned late under load is not a violation unless it is late alone every time.
	c31Margin     = 2 * time.Second  // first-pass margin on top of the kill timeout
	c31FirstLimit = 8 * time.Second  // first-pass watchdog
	c31AloneLimit = 30 * time.Second // watchdog of a run re-examined alone
	c31KnownLimit = 5 * time.Second  // watchdog for the open known findings replayed from the corpus
)

// c31AloneMargin is the lateness margin for runs re-examined alone: at least c31Margin, scaled up
// by the calibration (how long a trivial cancelled loop takes to return right now), at most 10 s.
var c31AloneMargin = c31Margin

// ---- skeleton programs ------------------------------------------------------------------------

type c31Sk struct {
	kind string // atom seq if while until forw forc sub
	id   int
	n    int
	kids []*c31Sk
}

func c31GenSk(r *Rand, depth int, next *int) *c31Sk {
	atom := func() *c31Sk { *next++; return &c31Sk{kind: "atom", id: *next} }
	if depth <= 0 {
		return atom()
	}
	switch k := r.Intn(20); {
	case k < 6:
		return atom()
	case k < 10:
		return &c31Sk{kind: "seq", kids: []*c31Sk{c31GenSk(r, depth-1, next), c31GenSk(r, depth-1, next)}}
	case k < 12:
		return &c31Sk{kind: "if", kids: []*c31Sk{c31GenSk(r, depth-1, next), c31GenSk(r, depth-1, next), c31GenSk(r, depth-1, next)}}
	case k < 14:
		return &c31Sk{kind: "while", kids: []*c31Sk{c31GenSk(r, depth-1, next), c31GenSk(r, depth-1, next)}}
	case k < 15:
		return &c31Sk{kind: "until", kids: []*c31Sk{c31GenSk(r, depth-1, next), c31GenSk(r, depth-1, next)}}
	case k < 17:
		return &c31Sk{kind: "forw", n: r.Intn(7), kids: []*c31Sk{c31GenSk(r, depth-1, next)}}
	case k < 19:
		n := r.Intn(5)
		if r.Chance(30) {
			n = 1000000 // for ((;;))-like
		}
		return &c31Sk{kind: "forc", n: n, kids: []*c31Sk{c31GenSk(r, depth-1, next)}}
	default:
		return &c31Sk{kind: "sub", kids: []*c31Sk{c31GenSk(r, depth-1, next)}}
	}
}

// postfix tokens for the Lean driver
func (s *c31Sk) tokens(out *[]string) {
	for _, k := range s.kids {
		k.tokens(out)
	}
	switch s.kind {
	case "atom":
		*out = append(*out, "a"+strconv.Itoa(s.id))
	case "seq":
		*out = append(*out, "S")
	case "if":
		*out = append(*out, "I")
	case "while":
		*out = append(*out, "W")
	case "until":
		*out = append(*out, "U")
	case "forw":
		*out = append(*out, "F"+strconv.Itoa(s.n))
	case "forc":
		*out = append(*out, "C"+strconv.Itoa(s.n))
	case "sub":
		*out = append(*out, "B")
	}
}

// shell text; loop variables are numbered by nesting level
func (s *c31Sk) shell(level int, brace *Rand) string {
	switch s.kind {
	case "atom":
		return "h " + strconv.Itoa(s.id)
	case "seq":
		return s.kids[0].shell(level, brace) + "\n" + s.kids[1].shell(level, brace)
	case "if":
		return "if " + s.kids[0].shell(level, brace) + "\nthen\n" + s.kids[1].shell(level, brace) + "\nelse\n" + s.kids[2].shell(level, brace) + "\nfi"
	case "while", "until":
		return s.kind + " " + s.kids[0].shell(level, brace) + "\ndo\n" + s.kids[1].shell(level, brace) + "\ndone"
	case "forw":
		items := make([]string, s.n)
		for i := range items {
			items[i] = strconv.Itoa(i + 1)
		}
		return fmt.Sprintf("for w%d in %s\ndo\n%s\ndone", level, strings.Join(items, " "), s.kids[0].shell(level+1, brace))
	case "forc":
		v := fmt.Sprintf("c%d", level)
		return fmt.Sprintf("for ((%s=0;%s<%d;%s++))\ndo\n%s\ndone", v, v, s.n, v, s.kids[0].shell(level+1, brace))
	case "sub":
		switch brace.Intn(3) {
		case 0:
			return "{\n" + s.kids[0].shell(level, brace) + "\n}"
		case 1:
			// a command substitution runs its statements through the long-lived r.ecfg.CmdSubst
			// callback: the place where a reused Runner could hold on to an old context
			return fmt.Sprintf("v%d=$(\n%s\n)", level, s.kids[0].shell(level, brace))
		}
		return "(\n" + s.kids[0].shell(level, brace) + "\n)"
	}
	return ":"
}

// ---- reused Runners -------------------------------------------------------------------------------
//
// A history is a string over: 'a' an earlier Run whose context stays alive, 'c' an earlier Run whose
// context is cancelled afterwards, 'R' Runner.Reset, 'S' continue on a Runner.Subshell() copy.
// The program under test then runs under a fresh context of its own.

const c31WarmSrc = "w=$(echo warm); g0() { :; }; echo \"$w\" >/dev/null\n"

var c31Hists = []string{"", "", "", "", "", "", "a", "a", "c", "ac", "ca", "aa", "aR", "cR", "aS", "acS", "Sa", "aRa", "Ra", "aSa"}

// c31ApplyHist plays the history on r and returns the Runner to use and a cleanup function that
// releases the contexts left alive.
func c31ApplyHist(r *interp.Runner, hist string) (*interp.Runner, func()) {
	var alive []context.CancelFunc
	warm, _ := syntax.NewParser().Parse(strings.NewReader(c31WarmSrc), "")
	for _, h := range hist {
		switch h {
		case 'a', 'c':
			ctx, cancel := context.WithCancel(context.Background())
			safely(func() { r.Run(ctx, warm) })
			if h == 'c' {
				cancel()
			} else {
				alive = append(alive, cancel)
			}
		case 'R':
			r.Reset()
		case 'S':
			r = r.Subshell()
		}
	}
	return r, func() {
		for _, c := range alive {
			c()
		}
	}
}

type c31SkResult struct {
	log            []string
	items          int
	cancelled      bool
	afterCalls     int // atoms started after the cancellation (must be 0)
	timedOut       bool
	neverCancelled bool // the k-th atom was never reached within the watchdog time (no atom in a long loop)
	elapsed        time.Duration
	panicked       string
}

// c31RunSk runs the skeleton program on the real Runner; the k-th atom cancels the context.
func c31RunSk(src string, k int, bits string, hist string, limit time.Duration) c31SkResult {
	var res c31SkResult
	f, err := syntax.NewParser().Parse(strings.NewReader(src), "")
	if err != nil {
		res.panicked = "parse: " + err.Error()
		return res
	}
	ctx, cancel := context.WithCancel(context.Background())
	defer cancel()
	var mu sync.Mutex
	calls := 0
	didCancel := false
	handler := func(hctx context.Context, args []string) ([]string, error) {
		if args[0] != "h" {
			return args, nil
		}
		mu.Lock()
		defer mu.Unlock()
		if didCancel {
			res.afterCalls++
		}
		idx := calls
		calls++
		res.log = append(res.log, args[1])
		if k > 0 && calls == k {
			didCancel = true
			cancel()
		}
		if idx < len(bits) && bits[idx] == '0' {
			return []string{"false"}, nil
		}
		return []string{"true"}, nil
	}
	var errBuf bytes.Buffer
	r, err := interp.New(interp.StdIO(nil, io.Discard, &errBuf), interp.CallHandler(handler),
		interp.Env(expand.ListEnviron("PATH=/nonexistent")), interp.Params("-x"))
	if err != nil {
		res.panicked = "new: " + err.Error()
		return res
	}
	r, release := c31ApplyHist(r, hist)
	defer release()
	errBuf.Reset()
	done := make(chan error, 1)
	go func() {
		var rerr error
		p := safely(func() { rerr = r.Run(ctx, f) })
		if p != "" {
			rerr = errors.New("panic: " + p)
		}
		done <- rerr
	}()
	t0 := time.Now()
	select {
	case rerr := <-done:
		res.elapsed = time.Since(t0)
		if rerr != nil && strings.HasPrefix(rerr.Error(), "panic: ") {
			res.panicked = rerr.Error()
		}
		res.cancelled = errors.Is(rerr, context.Canceled)
	case <-time.After(limit):
		mu.Lock()
		res.timedOut = didCancel // only a failure when the cancellation had been delivered
		res.neverCancelled = !didCancel
		mu.Unlock()
		cancel()
		return res
	}
	for _, l := range strings.Split(errBuf.String(), "\n") {
		if strings.HasPrefix(l, "+ for w") {
			res.items++
		}
	}
	return res
}

func c31SkCase(c *Ctx, r *Rand) {
	next := 0
	sk := c31GenSk(r, 1+r.Intn(4), &next)
	var toks []string
	sk.tokens(&toks)
	src := sk.shell(0, r.Fork("brace")) + "\n"
	nb := r.Intn(12)
	var bits strings.Builder
	for i := 0; i < nb; i++ {
		if r.Chance(35) {
			bits.WriteByte('0')
		} else {
			bits.WriteByte('1')
		}
	}
	k := 1 + r.Intn(14) // always cancel: skeleton programs may loop forever
	b := bits.String()
	if b == "" {
		b = "-"
	}
	hist := r.Pick(c31Hists)
	res := c31RunSk(src, k, bits.String(), hist, c31FirstLimit)
	if res.timedOut {
		// re-examined with the generous bound before judging (runs are sequential here)
		res = c31RunSk(src, k, bits.String(), hist, c31AloneLimit)
	}
	op := fmt.Sprintf("run %d 4000 %s %s", k, b, strings.Join(toks, " "))
	hs := hist
	if hs == "" {
		hs = "-"
	}
	witness := fmt.Sprintf("sk hist=%s k=%d bits=%s src=%s", hs, k, b, hx(src))
	if res.timedOut {
		// after the k-th atom cancelled the context the program must end
		c.Fail(witness, fmt.Sprintf("skeleton program still running %v after the context was cancelled inside atom %d", c31AloneLimit, k))
		c.Case(witness, true, "leg=sk", "sk-timeout")
		return
	}
	if res.neverCancelled || (len(res.log) < k && res.elapsed > 300*time.Millisecond && strings.Contains(src, "<1000000;")) {
		// a `for ((;;))`-like loop whose body never reaches an atom: the k-th atom, hence the
		// cancellation, never happens; the real loop runs its million iterations (or hits the
		// watchdog), the model would need that much fuel — nothing to compare
		c.Case(witness, false, "leg=sk", "sk-no-atom-loop-skipped")
		return
	}
	if res.panicked != "" {
		c.Case(witness, true, "leg=sk", "sk-panic")
		return
	}
	cn := "0"
	if res.cancelled {
		cn = "1"
	}
	c.Op(op, fmt.Sprintf("log=%s items=%d cancelled=%s", strings.Join(res.log, ","), res.items, cn))
	if res.afterCalls > 0 {
		c.Fail(witness, fmt.Sprintf("%d atomic command(s) started after the context was cancelled (inside atom %d)", res.afterCalls, k))
	}
	tags := []string{"leg=sk", fmt.Sprintf("atoms=%d", min(len(res.log), 15)), "hist=" + hs}
	if res.cancelled {
		tags = append(tags, "sk-cancel-recorded")
	}
	if len(res.log) >= k {
		tags = append(tags, "sk-cancelled")
	}
	c.Case(witness, len(res.log) >= k, tags...)
}

// ---- timed leg -----------------------------------------------------------------------------------

type c31Timed struct {
	delayMs int
	stdin   string // "pipe" (a pipe nobody writes to) or "nil"
	needErr bool   // a statement follows the blocking point: Run must report an error
	src     string
	hist    string // earlier use of the same Runner (see c31ApplyHist); "" = a new Runner
}

func (t c31Timed) witness() string {
	e := 0
	if t.needErr {
		e = 1
	}
	if t.hist != "" {
		return fmt.Sprintf("rtimed hist=%s delay=%d stdin=%s err=%d src=%s", t.hist, t.delayMs, t.stdin, e, hx(t.src))
	}
	return fmt.Sprintf("timed delay=%d stdin=%s err=%d src=%s", t.delayMs, t.stdin, e, hx(t.src))
}

func c31ParseTimed(line string) (c31Timed, bool) {
	var t c31Timed
	fs := strings.Fields(line)
	if len(fs) == 6 && fs[0] == "rtimed" {
		t.hist = strings.TrimPrefix(fs[1], "hist=")
		fs = append([]string{"timed"}, fs[2:]...)
	}
	if len(fs) != 5 || fs[0] != "timed" {
		return t, false
	}
	t.delayMs, _ = strconv.Atoi(strings.TrimPrefix(fs[1], "delay="))
	t.stdin = strings.TrimPrefix(fs[2], "stdin=")
	t.needErr = strings.TrimPrefix(fs[3], "err=") == "1"
	t.src = unhx(strings.TrimPrefix(fs[4], "src="))
	return t, true
}

var c31Leaked atomic.Int32

// exec handler under the harness's control: `hang` blocks until the context is cancelled,
// `slowhang` needs half the kill timeout more, `drain` reads its stdin to EOF or cancellation.
func c31Exec(next interp.ExecHandlerFunc) interp.ExecHandlerFunc {
	return func(ctx context.Context, args []string) error {
		hc := interp.HandlerCtx(ctx)
		switch args[0] {
		case "hang":
			<-ctx.Done()
			return ctx.Err()
		case "slowhang":
			<-ctx.Done()
			time.Sleep(c31KillTimeout / 2)
			return ctx.Err()
		case "drain":
			done := make(chan struct{})
			go func() {
				defer close(done)
				if len(args) > 1 { // file operands (process-substitution FIFOs): open and read them
					for _, p := range args[1:] {
						if f, err := os.Open(p); err == nil {
							go func() { <-ctx.Done(); f.Close() }()
							io.Copy(io.Discard, f)
							f.Close()
						}
					}
					return
				}
				if hc.Stdin != nil {
					io.Copy(io.Discard, hc.Stdin)
				}
			}()
			select {
			case <-done:
				return nil
			case <-ctx.Done():
				return ctx.Err()
			}
		}
		return next(ctx, args)
	}
}

type c31TimedResult struct {
	returned bool
	late     time.Duration // time from cancellation to return
	err      error
	panicked string
	parseErr bool
	finished bool // returned before the cancellation was due
	limit    time.Duration // the watchdog that expired, when !returned
}

func c31RunTimed(c *Ctx, t c31Timed, limit time.Duration) c31TimedResult {
	var res c31TimedResult
	f, err := syntax.NewParser().Parse(strings.NewReader(t.src), "")
	if err != nil {
		res.parseErr = true
		return res
	}
	dir := scratchDir(c)
	var in io.Reader
	var pw *os.File
	if t.stdin == "pipe" {
		pr, w, err := os.Pipe()
		if err != nil { // out of descriptors on a loaded machine: skip, do not run with a nil stdin
			res.parseErr = true
			return res
		}
		in, pw = pr, w
	}
	r, err := interp.New(interp.StdIO(in, io.Discard, io.Discard), interp.Dir(dir),
		interp.Env(expand.ListEnviron("PATH=/usr/bin:/bin", "HOME="+dir, "TMPDIR="+dir)),
		interp.ExecHandlers(c31Exec, func(interp.ExecHandlerFunc) interp.ExecHandlerFunc {
			return interp.DefaultExecHandler(c31KillTimeout)
		}))
	if err != nil {
		res.parseErr = true
		return res
	}
	r, release := c31ApplyHist(r, t.hist)
	defer release()
	ctx, cancel := context.WithCancel(context.Background())
	done := make(chan struct{})
	var rerr error
	var pan string
	var retAt time.Time
	var endedUncancelled bool
	go func() {
		pan = safely(func() { rerr = r.Run(ctx, f) })
		endedUncancelled = ctx.Err() == nil // Run came back before the cancellation was delivered
		retAt = time.Now()
		close(done)
	}()
	delay := time.Duration(t.delayMs) * time.Millisecond
	select {
	case <-done:
		res.finished = true
	case <-time.After(delay):
	}
	cancelAt := time.Now()
	cancel()
	select {
	case <-done:
		res.returned = true
		res.err, res.panicked = rerr, pan
		if endedUncancelled {
			res.finished = true
		}
		if !res.finished {
			res.late = retAt.Sub(cancelAt)
		}
		if pw != nil {
			pw.Close()
		}
		os.RemoveAll(dir)
	case <-time.After(limit):
		// give up: the goroutine (and its pipe/FIFO) is leaked on purpose
		c31Leaked.Add(1)
		res.limit = limit
	}
	return res
}

// c31Classify sorts one run: "" prompt and fine, "never" (watchdog expired), "late", "nilerr".
func c31Classify(t c31Timed, res c31TimedResult, margin time.Duration) (kind, what string) {
	if res.parseErr || res.finished {
		return "", ""
	}
	if !res.returned {
		return "never", fmt.Sprintf("Run did not return within %v after the context was cancelled (kill timeout %v)", res.limit, c31KillTimeout)
	}
	if res.panicked != "" {
		return "", "" // C28's business
	}
	if res.late > c31KillTimeout+margin {
		return "late", fmt.Sprintf("Run returned %v after the cancellation (limit: kill timeout %v + margin %v)", res.late.Round(time.Millisecond), c31KillTimeout, margin)
	}
	if t.needErr && res.err == nil {
		return "nilerr", "Run returned a nil error although the context was cancelled while the program was running"
	}
	return "", ""
}

// c31Judge turns a first-pass result into a verdict.  Everything suspicious is re-examined alone
// (the caller runs c31Judge sequentially, after the parallel first pass): a violation is reported
// only when the run alone never returns within c31AloneLimit, or is late / error-less alone three
// times in a row.
func c31Judge(c *Ctx, t c31Timed, first c31TimedResult) (what string, tags []string) {
	kind, what := c31Classify(t, first, c31Margin)
	if kind == "" {
		return "", nil
	}
	tags = append(tags, "timed-reexamined", "first="+kind)
	for try := 0; try < 3; try++ {
		res := c31RunTimed(c, t, c31AloneLimit)
		k2, w2 := c31Classify(t, res, c31AloneMargin)
		switch k2 {
		case "":
			return "", append(tags, "timed-reexamined-passed")
		case "never":
			// alone, with a generous bound: the program is not cancellable
			return w2 + " (re-examined alone)", append(tags, "timed-never-alone")
		}
		what = w2 + fmt.Sprintf(" (alone, attempt %d of 3)", try+1)
	}
	return what, append(tags, "timed-reproducible-alone")
}

// c31Calibrate measures how long a trivial cancelled loop takes to return right now and scales the
// margin used for re-examined runs.
func c31Calibrate(c *Ctx) time.Duration {
	worst := time.Duration(0)
	for i := 0; i < 3; i++ {
		res := c31RunTimed(c, c31Timed{delayMs: 20, stdin: "nil", src: "while :; do :; done\n"}, c31AloneLimit)
		if res.returned && res.late > worst {
			worst = res.late
		}
	}
	m := 40 * worst
	if m < c31Margin {
		m = c31Margin
	}
	if m > 10*time.Second {
		m = 10 * time.Second
	}
	c31AloneMargin = m
	return worst
}

// c31OpenKnown reads the witnesses of the open known findings of C31: they are expected to fail,
// so they are replayed once with a short watchdog and not re-examined.
func c31OpenKnown() map[string]bool {
	out := map[string]bool{}
	root := os.Getenv("VERIF_ROOT")
	if root == "" {
		root = "/verif"
	}
	b, err := os.ReadFile(root + "/known-findings.jsonl")
	if err != nil {
		return out
	}
	for _, l := range strings.Split(string(b), "\n") {
		var k struct{ Property, Status, Witness string }
		if json.Unmarshal([]byte(l), &k) == nil && k.Property == "C31" && k.Status == "open" {
			out[k.Witness] = true
		}
	}
	return out
}

var c31Blockers = []struct {
	src   string
	stdin string
	noErr bool // the blocking point itself completes with status 0 after cancellation is impossible to follow: see needErr
}{
	{"while :; do :; done", "nil", false},
	{"until false; do :; done", "nil", false},
	{"for ((;;)); do :; done", "nil", false},
	{"while true; do x=$((x+1)); done", "nil", false},
	// long word lists: since 7ead8d8 the word-list `for` consults stop() at the top of every iteration
	{"for i in {1..16000} {1..16000} {1..16000}; do :; done; while :; do :; done", "nil", false},
	{"for i in {1..9000}; do for j in {1..9000}; do :; done; done", "nil", false},
	{"for i in {1..16000} {1..16000} {1..16000} {1..16000} {1..16000} {1..16000}; do x=$i; done; while :; do :; done", "nil", false},
	{"read x", "pipe", false},
	// an external command or `test -t` first, then a blocking builtin — only the shapes that do NOT
	// call Fd() on the runner's stdin (an external command inheriting stdin is the open finding C31-read-after-fd-exec/-mapfile, replayed
	// from the corpus): stdin redirected away from the child, other descriptors tested
	{"/bin/true </dev/null; read x", "pipe", false},
	{"/bin/true </dev/null; mapfile -t a", "pipe", false},
	{"echo hi | /bin/cat >/dev/null; read x", "pipe", false},
	{"[ -t 1 ]; [ -t 2 ]; read x", "pipe", false},
	{"[ -t 0 ]; read x", "pipe", false}, // cancellable again since d41cde1
	{"test -t 0; mapfile -t a", "pipe", false},
	{"if [ -t 0 ]; then :; fi; select s in a b; do :; done", "pipe", false},
	{"test -t 1; while read l; do :; done", "pipe", false},
	{"true; select s in a b; do :; done", "pipe", false},
	{"/bin/true; while :; do :; done", "nil", false},
	{"/bin/true; hang", "pipe", false},
	{"read -r a b", "pipe", false},
	{"while read l; do :; done", "pipe", false},
	{"select s in a b; do :; done", "pipe", false},
	{"{ while :; do :; done; } & wait", "nil", false},
	{"( while :; do :; done ) & wait $!", "nil", false},
	{"read x & wait", "pipe", false},
	{"{ while :; do :; done; } & { until false; do :; done; } & wait", "nil", false},
	{"read x < <(while :; do :; done)", "nil", false},
	{"while read l; do :; done < <(while :; do echo y; done)", "nil", false},
	{"drain <(while :; do echo y; done)", "nil", false},
	{"drain < <(hang)", "nil", false},
	{"while :; do echo y; done > >(drain)", "nil", false},
	{"while :; do :; done | read x", "nil", false},
	{"read x | while :; do :; done", "pipe", false},
	{"while :; do echo xxxxxxxxxxxxxxxxxxxx; done | while :; do :; done", "nil", false},
	{"hang | hang", "nil", false},
	{"while :; do echo y; done | drain", "nil", false},
	{"hang | read x | drain", "nil", false},
	{"x=$(while :; do :; done)", "nil", false},
	{"echo $(hang) tail", "nil", false},
	{"eval 'while :; do :; done'", "nil", false},
	{"f() { while :; do :; done; }; f", "nil", false},
	{"hang", "nil", false},
	{"slowhang", "nil", false},
	{"sleep 30", "nil", false},
	{"sleep 30 | read x", "nil", false},
	{"while true; do hang; done", "nil", false},
	{"drain <<EOF\n$(hang)\nEOF", "nil", false},
	{"hang <<< \"$(printf '%70000s' x)\"", "nil", false},
	{"case x in x) while :; do :; done;; esac", "nil", false},
	{"if while :; do :; done; then :; fi", "nil", false},
	{"[[ -n $(hang) ]]", "nil", false},
	{"trap 'while :; do :; done' ERR; false", "nil", false},
	{"trap 'while :; do :; done' EXIT; echo body", "nil", false},
	{"mapfile -t arr", "pipe", false},
	{"readarray lines", "pipe", false},
	{"lf() { local v=$(while true; do :; done); }; lf", "nil", false},
	{"echo \"$(while true; do :; done)\"", "nil", false},
	{"true < <(hang); wait", "nil", false},
	{"v=${u:-$(hang)}", "nil", false},
}

func c31GenTimed(r *Rand) c31Timed {
	b := c31Blockers[r.Intn(len(c31Blockers))]
	body := b.src
	// nest the blocking point
	switch r.Intn(9) {
	case 0:
		body = "( " + body + " )"
	case 1:
		body = "{ " + body + "; }"
	case 2:
		body = "if true; then " + body + "; fi"
	case 3:
		body = "for k in 1 2; do " + body + "; done"
	case 4:
		body = "g() { " + body + "; }; g"
	case 5:
		body = "while true; do " + body + "; done"
	}
	if strings.Contains(b.src, "<<EOF") { // here-documents need their own lines
		body = b.src
	}
	pre := r.Pick([]string{"", "", "x=1\n", "echo start\n", "set -e\n", "set -o pipefail\n", "trap 'echo bye' EXIT\n", "y=$(echo hi)\n"})
	t := c31Timed{stdin: b.stdin, hist: r.Pick(c31Hists)}
	t.delayMs = r.Pick2([]int{0, 1, 5, 20, 50, 100, 200, 300})
	if r.Chance(75) {
		// a statement follows the blocking point, so some stop() check sees the cancellation
		t.src = pre + body + "\necho after\n"
		t.needErr = true
	} else {
		// the blocking point is the last command: since 7cff692 Run reports the cancellation at
		// its end even when that command (`wait`, a loop fed by a finished reader …) ends with 0
		t.src = pre + body + "\n"
		t.needErr = true
	}
	return t
}

func (r *Rand) Pick2(s []int) int { return s[r.Intn(len(s))] }

func c31(c *Ctx) {
	c.Rule = "sk: the k-th atom was reached (the context was cancelled during the run); timed: the program was still running when the cancellation was due"
	known := c31OpenKnown()
	c.Extra["calibration_ms"] = int(c31Calibrate(c) / time.Millisecond)
	c.Extra["alone_margin_ms"] = int(c31AloneMargin / time.Millisecond)
	// corpus: `timed …` / `rtimed …` witnesses, first pass in parallel
	var corpus []c31Timed
	for _, line := range c.CorpusLines() {
		if t, ok := c31ParseTimed(line); ok {
			corpus = append(corpus, t)
		}
	}
	results := parallelMap(len(corpus), 4, func(i int) c31TimedResult {
		if known[corpus[i].witness()] {
			return c31RunTimed(c, corpus[i], c31KnownLimit)
		}
		return c31RunTimed(c, corpus[i], c31FirstLimit)
	})
	for i, t := range corpus {
		var what string
		var tags []string
		if known[t.witness()] {
			// an open known finding: expected to fail, reported as it is (check matches the witness)
			_, what = c31Classify(t, results[i], c31Margin)
			tags = []string{"known-open"}
		} else {
			what, tags = c31Judge(c, t, results[i])
		}
		c.Case(t.witness(), !results[i].finished, append(tags, "corpus", "leg=timed")...)
		if what != "" {
			c.Fail(t.witness(), what)
		}
	}
	// generated: 1 timed run per 8 skeleton runs; the loop × body matrix first, then random shapes
	nTimed := c.N / 8
	timed := make([]c31Timed, nTimed)
	tr := c.R.Fork("timed")
	matrix := c31Matrix()
	for i := range timed {
		r := tr.Fork(strconv.Itoa(i))
		if i%3 == 0 {
			timed[i] = c31GenMatrix(r, matrix, i/3+c.Shard*7+int(c.Seed%97))
		} else {
			timed[i] = c31GenTimed(r)
		}
	}
	tres := parallelMap(len(timed), 4, func(i int) c31TimedResult { return c31RunTimed(c, timed[i], c31FirstLimit) })
	for i, t := range timed {
		res := tres[i]
		tags := []string{"leg=timed", fmt.Sprintf("delay=%d", t.delayMs), "needErr=" + strconv.FormatBool(t.needErr), "reused=" + strconv.FormatBool(t.hist != "")}
		switch {
		case res.parseErr:
			tags = append(tags, "timed-parse-error")
		case res.finished:
			tags = append(tags, "timed-finished-early")
		case res.returned:
			tags = append(tags, fmt.Sprintf("late<%s", c31Bucket(res.late)))
		}
		what, jt := c31Judge(c, t, res)
		c.Case(t.witness(), !res.finished && !res.parseErr, append(tags, jt...)...)
		if what != "" {
			c.Fail(t.witness(), what)
		}
	}
	for it := 0; it < c.N-nTimed; it++ {
		c31SkCase(c, c.R.Fork(fmt.Sprintf("sk%d", it)))
	}
	c.Extra["leaked_goroutines"] = int(c31Leaked.Load())
}

// c31Matrix: every loop kind × every body kind; either the body blocks by itself or the loop around
// a quick body never ends.
func c31Matrix() []string {
	loops := []string{
		"while true; do %s; done",
		"until false; do %s; done",
		"for ((;;)); do %s; done",
		"for ((i=0;i<1000000000;i++)); do %s; done",
		"for w in 1 2 3; do %s; done; while true; do %s; done",
	}
	bodies := []string{
		":",                                   // simple
		"{ :; true; }",                        // block
		"( : )",                               // subshell
		"( while true; do true; done )",       // subshell that blocks
		"true | true",                         // pipeline
		"while true; do true; done | true",    // pipeline that blocks
		"v=$(true)",                           // command substitution
		"v=$(while true; do true; done)",      // command substitution that blocks
		"qf",                                  // function call
		"bf",                                  // function call that blocks
		"{ ( until false; do :; done ); }",    // block around a blocking subshell
		"hang",                                // handler-controlled external command
	}
	var out []string
	for _, l := range loops {
		for _, b := range bodies {
			out = append(out, "qf() { :; }; bf() { while true; do true; done; }\n"+strings.ReplaceAll(l, "%s", b))
		}
	}
	return out
}

func c31GenMatrix(r *Rand, matrix []string, idx int) c31Timed {
	t := c31Timed{stdin: "nil", hist: r.Pick(c31Hists), needErr: true}
	t.delayMs = r.Pick2([]int{0, 5, 20, 50, 100, 200})
	t.src = matrix[idx%len(matrix)] + "\necho after\n"
	return t
}

func c31Bucket(d time.Duration) string {
	switch {
	case d < 10*time.Millisecond:
		return "10ms"
	case d < 50*time.Millisecond:
		return "50ms"
	case d < 150*time.Millisecond:
		return "150ms"
	case d < 500*time.Millisecond:
		return "500ms"
	}
	return "2s+"
}
