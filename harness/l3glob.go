//go:build c17 || c18 || all

package main

import (
	"errors"
	"fmt"
	"regexp"
	"strconv"
	"strings"
	"unicode/utf8"

	"mvdan.cc/sh/v3/pattern"
	"mvdan.cc/sh/v3/verifhook"
)

// Shared by C17 and C18 (layer L3: shell patterns).  Canonical renderings of what the real
// pattern package answers, string enumerations in the driver's order, and the bash oracles.

const (
	l3Shortest = int(pattern.Shortest)
	l3Files    = int(pattern.Filenames)
	l3Entire   = int(pattern.EntireString)
	l3NoCase   = int(pattern.NoGlobCase)
	l3NoStar   = int(pattern.NoGlobStar)
	l3DotGlob  = int(pattern.GlobLeadingDot)
	l3Ext      = int(pattern.ExtendedOperators)
)

// l3Err renders an error of pattern.Regexp the way the Lean driver renders the model's.
func l3Err(err error) string {
	var neg *pattern.NegExtGlobError
	if errors.As(err, &neg) {
		var sb strings.Builder
		sb.WriteString("err negext")
		for _, g := range neg.Groups {
			fmt.Fprintf(&sb, " %d:%d", g.Start, g.End)
		}
		return sb.String()
	}
	var se *pattern.SyntaxError
	if !errors.As(err, &se) {
		return "err other " + hx(err.Error())
	}
	msg := se.Error()
	switch {
	case msg == `\ at end of pattern`:
		return "err trailing-backslash"
	case strings.HasPrefix(msg, "invalid range: "):
		rest := strings.TrimPrefix(msg, "invalid range: ")
		lo, n := utf8.DecodeRuneInString(rest)
		rest = rest[n:]
		if !strings.HasPrefix(rest, "-") {
			return "err other " + hx(msg)
		}
		hi, _ := utf8.DecodeRuneInString(rest[1:])
		return fmt.Sprintf("err bad-range %d %d", lo, hi)
	case msg == "charClass invalid":
		inner := ""
		if u := se.Unwrap(); u != nil {
			inner = u.Error()
		}
		switch {
		case inner == "collating features not available":
			return "err class coll"
		case strings.HasPrefix(inner, "[[: was not matched"):
			return "err class unmatched"
		case strings.HasPrefix(inner, "invalid character class: "):
			name, err := strconv.Unquote(strings.TrimPrefix(inner, "invalid character class: "))
			if err != nil {
				return "err other " + hx(inner)
			}
			return "err class invalid:" + hx(name)
		}
		return "err other " + hx(inner)
	}
	return "err other " + hx(msg)
}

// l3Regexp runs the real pattern.Regexp.
func l3Regexp(p string, mode int) (line string, expr string, ok bool) {
	pn := safely(func() {
		e, err := pattern.Regexp(p, pattern.Mode(mode))
		if err != nil {
			line = l3Err(err)
			return
		}
		expr, ok = e, true
		line = "ok " + hx(e)
	})
	if pn != "" {
		return "panic", "", false
	}
	return
}

// l3Enum lists all strings of length ≤ n over the alphabet (a string of runes), shortest first,
// in alphabet order — the order of the driver's enumStrs.
func l3Enum(alpha string, n int) []string {
	rs := []rune(alpha)
	out := []string{""}
	prev := []string{""}
	for l := 1; l <= n; l++ {
		cur := make([]string, 0, len(prev)*len(rs))
		for _, p := range prev {
			for _, a := range rs {
				cur = append(cur, p+string(a))
			}
		}
		out = append(out, cur...)
		prev = cur
	}
	return out
}

func l3Bits(f func(string) bool, strs []string) string {
	b := make([]byte, len(strs))
	for i, s := range strs {
		if f(s) {
			b[i] = '1'
		} else {
			b[i] = '0'
		}
	}
	return string(b)
}

// l3Matcher runs the real internal.ExtendedPatternMatcher (through the verifhook re-export).
// kind: "ok", "panic", "unsupported", or the rendered Regexp error.
func l3Matcher(p string, mode int) (kind string, f func(string) bool) {
	pn := safely(func() {
		m, err := verifhook.ExtendedPatternMatcher(p, pattern.Mode(mode))
		if err != nil {
			msg := err.Error()
			if strings.HasPrefix(msg, "multiple extglob") || strings.HasPrefix(msg, "extglob !(...) is only supported") {
				kind = "unsupported"
				return
			}
			kind = l3Err(err)
			return
		}
		kind, f = "ok", m
	})
	if pn != "" {
		return "panic", nil
	}
	return
}

// l3MatcherBits applies the matcher to every string; a panic while matching is reported too.
func l3MatcherBits(p string, mode int, strs []string) string {
	kind, f := l3Matcher(p, mode)
	if kind != "ok" {
		return kind
	}
	var out string
	if pn := safely(func() { out = l3Bits(f, strs) }); pn != "" {
		return "panic"
	}
	return out
}

// l3RxBits: regexp.Compile + MatchString on the expression Regexp returned.
func l3RxBits(p string, mode int, strs []string) string {
	_, expr, ok := l3Regexp(p, mode)
	if !ok {
		return "na"
	}
	rx, err := regexp.Compile(expr)
	if err != nil {
		return "nocompile"
	}
	return l3Bits(rx.MatchString, strs)
}

// ---- bash oracles --------------------------------------------------------------------------

// l3BashScript evaluates pattern $1 against the strings $2… and prints one 0/1 per string.
// The pattern and the strings are only ever used through positional parameters.
// how: "case" (extglob as given) or "cond" ([[ ]], which always has extglob).
func l3BashScript(how string, extglob bool) string {
	sh := "shopt -u extglob\n"
	if extglob {
		sh = "shopt -s extglob\n"
	}
	sh += "p=$1; shift; o=\n"
	if how == "cond" {
		sh += `for s in "$@"; do if [[ $s == $p ]]; then o+=1; else o+=0; fi; done` + "\n"
	} else {
		sh += `for s in "$@"; do case $s in $p) o+=1;; *) o+=0;; esac; done` + "\n"
	}
	sh += `printf '%s' "$o"`
	return sh
}

// l3Bash asks bash which of strs the pattern matches. ok=false when bash failed or timed out.
func l3Bash(c *Ctx, how string, extglob bool, p string, strs []string) (string, bool) {
	args := append([]string{p}, strs...)
	res := runShell(c, "bash", l3BashScript(how, extglob), args...)
	if res.TimedOut || res.Status != 0 || len(res.Stdout) != len(strs) {
		return res.Stdout, false
	}
	return res.Stdout, true
}

// l3HasNul reports strings the shells cannot carry.
func l3ShellSafe(ss ...string) bool {
	for _, s := range ss {
		if strings.ContainsRune(s, 0) || !utf8.ValidString(s) {
			return false
		}
	}
	return true
}

func l3ASCIIUpper(s string) string {
	b := []byte(s)
	for i, x := range b {
		if 'a' <= x && x <= 'z' {
			b[i] = x - 32
		}
	}
	return string(b)
}
