//go:build c22 || all

package main

import (
	"fmt"
	"io"
	"strconv"
	"strings"
	"sync"
	"time"
	"unicode/utf8"

	"mvdan.cc/sh/v3/expand"
	"mvdan.cc/sh/v3/syntax"
)

// C22 — Field splitting and quote removal match bash.
//
// A case is (IFS, positional parameters, word) with the word given as parts:
//   L<hex> unquoted literal (source text, backslashes in)   S<hex> 'single quoted'
//   E<hex> unquoted ${v} with that value                    C<hex> unquoted $(cmd) printing that value
//   A unquoted $@    T unquoted $*    D( … ) double quotes with inner parts
//   l<hex> literal   e<hex> ${v}   c<hex> $(cmd)   a $@   t $*
// Streams: `wf`     model of Config.wordFields  vs expand.Fields on the parsed word (no ReadDir: no globbing)
//          `specwf` the Lean POSIX specification vs the same answer (outside the exclusion region only)
// Search leg: the word as argument of a printing function in a script run by interp and by bash
// (set -f); witness `sh <ifs|unset> <nparams> <param>* <token>*`.
func init() { register("C22", c22) }

type c22D struct {
	kind byte // l e c a t
	val  string
}
type c22P struct {
	kind byte // L S D E C A T O
	val  string
	ds   []c22D
	op   byte // kind 'O': a ${u0:-"val"}  b ${u0-'val'}  c ${s0:+"val"}  d ${s0+'val'}  (u0 unset, s0=5)
}
type c22Case struct {
	rawWord string // search leg only: the word as source text
	ifsSet  bool
	ifs    string
	params []string
	parts  []c22P
}

func (cs c22Case) ifsv() string {
	if cs.ifsSet {
		return cs.ifs
	}
	return " \t\n"
}

// effective value of an expansion part ($(…) loses trailing newlines)
func c22Eff(kind byte, v string) string {
	if kind == 'C' || kind == 'c' {
		return strings.TrimRight(v, "\n")
	}
	return v
}

// tokens for ops and witnesses; model=true rewrites C/c into E/e with the effective value.
func c22Tokens(parts []c22P, model bool) []string {
	var out []string
	for _, p := range parts {
		switch p.kind {
		case 'L', 'S':
			out = append(out, string(p.kind)+hx(p.val))
		case 'E', 'C':
			if model {
				out = append(out, "E"+hx(c22Eff(p.kind, p.val)))
			} else {
				out = append(out, string(p.kind)+hx(p.val))
			}
		case 'A', 'T':
			out = append(out, string(p.kind))
		case 'O':
			// a default / alternative expansion whose quoted operator word is substituted: for the
			// model it is an unquoted expansion with that value
			// (the driver reads `O<op><hex>` as `E<hex>`; the token keeps the witness replayable)
			out = append(out, "O"+string(p.op)+hx(p.val))
		case 'D':
			out = append(out, "D(")
			for _, d := range p.ds {
				switch d.kind {
				case 'l':
					out = append(out, "l"+hx(d.val))
				case 'e', 'c':
					if model {
						out = append(out, "e"+hx(c22Eff(d.kind, d.val)))
					} else {
						out = append(out, string(d.kind)+hx(d.val))
					}
				default:
					out = append(out, string(d.kind))
				}
			}
			out = append(out, ")")
		}
	}
	return out
}

func c22OpArgs(cs c22Case, model bool) string {
	parts := []string{c23IfsTokC22(cs.ifsSet, cs.ifs), strconv.Itoa(len(cs.params))}
	for _, p := range cs.params {
		parts = append(parts, hx(p))
	}
	parts = append(parts, c22Tokens(cs.parts, model)...)
	return strings.Join(parts, " ")
}

func c23IfsTokC22(set bool, ifs string) string {
	if !set {
		return "unset"
	}
	return hx(ifs)
}

func c22ParseCase(f []string) (cs c22Case, ok bool) {
	if len(f) < 2 {
		return cs, false
	}
	if f[0] != "unset" {
		cs.ifsSet, cs.ifs = true, unhx(f[0])
	}
	n, err := strconv.Atoi(f[1])
	if err != nil || len(f) < 2+n {
		return cs, false
	}
	cs.params = []string{}
	for _, h := range f[2 : 2+n] {
		cs.params = append(cs.params, unhx(h))
	}
	toks := f[2+n:]
	for i := 0; i < len(toks); i++ {
		t := toks[i]
		switch {
		case t == "D(":
			p := c22P{kind: 'D'}
			i++
			for ; i < len(toks) && toks[i] != ")"; i++ {
				d := toks[i]
				switch d[0] {
				case 'l', 'e', 'c':
					p.ds = append(p.ds, c22D{d[0], unhx(d[1:])})
				case 'a', 't':
					p.ds = append(p.ds, c22D{d[0], ""})
				default:
					return cs, false
				}
			}
			cs.parts = append(cs.parts, p)
		case t == "A" || t == "T":
			cs.parts = append(cs.parts, c22P{kind: t[0]})
		case t[0] == 'O' && len(t) >= 3:
			cs.parts = append(cs.parts, c22P{kind: 'O', op: t[1], val: unhx(t[2:])})
		case t[0] == 'L' || t[0] == 'S' || t[0] == 'E' || t[0] == 'C':
			cs.parts = append(cs.parts, c22P{kind: t[0], val: unhx(t[1:])})
		default:
			return cs, false
		}
	}
	return cs, true
}

// ---- source text of the word ----

// c22Word returns the shell source of the word and the values of the variables v0, v1, … it uses.
// shellStyle: command substitutions are written $(printf %s "$vN"); otherwise $(cN) (answered by
// the CmdSubst hook of the in-process expansion).
func c22Word(parts []c22P, shellStyle bool) (string, []string) {
	var sb strings.Builder
	var vars []string
	ref := func(kind byte, v string) string {
		vars = append(vars, v)
		i := len(vars) - 1
		if kind == 'C' || kind == 'c' {
			if shellStyle {
				return fmt.Sprintf(`$(printf %%s "$v%d")`, i)
			}
			return fmt.Sprintf("$(c%d)", i)
		}
		return fmt.Sprintf("${v%d}", i)
	}
	for _, p := range parts {
		switch p.kind {
		case 'L':
			if p.val == "" && !shellStyle {
				// an empty literal cannot be written in source (brace expansion makes them: {,x});
				// the in-process tie patches this placeholder to "" in the parsed word
				sb.WriteString(c22EmptyLit)
			} else {
				sb.WriteString(p.val)
			}
		case 'S':
			sb.WriteString("'" + p.val + "'")
		case 'E', 'C':
			sb.WriteString(ref(p.kind, p.val))
		case 'A':
			sb.WriteString("$@")
		case 'T':
			sb.WriteString("$*")
		case 'O':
			switch p.op {
			case 'a':
				sb.WriteString(`${u0:-"` + p.val + `"}`)
			case 'b':
				sb.WriteString(`${u0-'` + p.val + `'}`)
			case 'c':
				sb.WriteString(`${s0:+"` + p.val + `"}`)
			default:
				sb.WriteString(`${s0+'` + p.val + `'}`)
			}
		case 'D':
			sb.WriteString(`"`)
			for _, d := range p.ds {
				switch d.kind {
				case 'l':
					sb.WriteString(d.val)
				case 'e', 'c':
					sb.WriteString(ref(d.kind, d.val))
				case 'a':
					sb.WriteString("$@")
				case 't':
					sb.WriteString("$*")
				}
			}
			sb.WriteString(`"`)
		}
	}
	return sb.String(), vars
}

// ---- in-process expansion ----

const c22EmptyLit = "C22EMPTYLIT"

type c22Env map[string]expand.Variable

func (e c22Env) Get(name string) expand.Variable { return e[name] }
func (e c22Env) Each(f func(string, expand.Variable) bool) {
	for k, v := range e {
		if !f(k, v) {
			return
		}
	}
}

var c22ProbeOnce sync.Once
var c22Probe *syntax.Word

// c22ProbeWord: a word that exercises every accumulation path of wordFields.
func c22ProbeWord() *syntax.Word {
	c22ProbeOnce.Do(func() {
		f, err := syntax.NewParser().Parse(strings.NewReader(`p zz"q q"$@'y z'${s0:+"w"}$*`+"\n"), "")
		if err != nil {
			panic(err)
		}
		c22Probe = f.Stmts[0].Cmd.(*syntax.CallExpr).Args[1]
	})
	return c22Probe
}

func c22Fields(cs c22Case) string { return c22Expand(cs, 0) }

// c22Literal: expand.Literal on the same word (assignment context).
func c22Literal(cs c22Case) string { return c22Expand(cs, 1) }

// c22LiteralKeep: the unexported literalKeepEscapes (hook /repo/expand/verif_c22.go).
func c22LiteralKeep(cs c22Case) string { return c22Expand(cs, 2) }

func c22Expand(cs c22Case, mode int) string {
	src, vars := c22Word(cs.parts, false)
	var out string
	p := safely(func() {
		f, err := syntax.NewParser().Parse(strings.NewReader("p "+src+"\n"), "")
		if err != nil {
			out = "parse-error"
			return
		}
		if len(f.Stmts) != 1 {
			out = "parse-shape"
			return
		}
		call, ok := f.Stmts[0].Cmd.(*syntax.CallExpr)
		if !ok || len(call.Args) != 2 || f.Stmts[0].Redirs != nil {
			out = "parse-shape"
			return
		}
		for _, wp := range call.Args[1].Parts {
			if l, ok := wp.(*syntax.Lit); ok && l.Value == c22EmptyLit {
				l.Value = ""
			}
		}
		env := c22Env{}
		for i, v := range vars {
			env["v"+strconv.Itoa(i)] = expand.Variable{Set: true, Kind: expand.String, Str: v}
		}
		env["s0"] = expand.Variable{Set: true, Kind: expand.String, Str: "5"} // u0 stays unset
		if cs.ifsSet {
			env["IFS"] = expand.Variable{Set: true, Kind: expand.String, Str: cs.ifs}
		}
		ps := append([]string{}, cs.params...) // non-nil, as interp provides it
		env["@"] = expand.Variable{Set: true, Kind: expand.Indexed, List: ps}
		env["*"] = expand.Variable{Set: true, Kind: expand.Indexed, List: ps}
		env["#"] = expand.Variable{Set: true, Kind: expand.String, Str: strconv.Itoa(len(ps))}
		cfg := &expand.Config{
			Env: env,
			CmdSubst: func(w io.Writer, cs *syntax.CmdSubst) error {
				name := cs.Stmts[0].Cmd.(*syntax.CallExpr).Args[0].Lit()
				i, _ := strconv.Atoi(strings.TrimPrefix(name, "c"))
				io.WriteString(w, vars[i])
				return nil
			},
		}
		if mode != 0 {
			lit := expand.Literal
			if mode == 2 {
				lit = expand.VerifC22LiteralKeepEscapes
			}
			v, err := lit(cfg, call.Args[1])
			if err != nil {
				out = "error"
				return
			}
			out = hx(v)
			return
		}
		fields, err := expand.Fields(cfg, call.Args[1])
		if err != nil {
			out = "error"
			return
		}
		// aliasing probe: what one call returned must not change when another expansion on the same
		// Config follows (wordFields builds its result in per-Config scratch arrays)
		snap := strings.Join(fields, "\x00")
		if _, err := expand.Fields(cfg, c22ProbeWord(), call.Args[1]); err == nil {
			if now := strings.Join(fields, "\x00"); now != snap {
				out = fmt.Sprintf("aliased %q -> %q", snap, now)
				return
			}
		}
		out = strings.TrimSpace(strconv.Itoa(len(fields)) + " " + hxs(fields))
	})
	if p != "" {
		return "panic"
	}
	return out
}

// ---- exclusion region (mirror of ShVerif.C22.Clean) ----

// c22Excluded reports whether the case lies where the tree is known to differ from POSIX/bash
// (open finding C22-at-in-dquotes): `$@` inside double quotes together with other parts; or where the
// model makes no claim: a NUL byte in double-quoted literal text (mirror of ShVerif.C22.partOk).
// (The exclusions for non-white-space IFS delimiters, an empty "" next to an expansion, an empty
// unquoted literal and unquoted $@ with empty parameters went away with fe5aeee, d04d00a, 51168a7.)
func c22Excluded(cs c22Case) (bool, string) {
	ifsv := cs.ifsv()
	for i, p := range cs.parts {
		// ${u0:-"val"}: the model (and the value-based specification) see an unquoted expansion with
		// the value val.  That is the same thing as the quoted word only when val holds no IFS
		// character and, when val is empty, something before it already makes the field present.
		if p.kind == 'O' {
			for _, r := range p.val {
				if strings.ContainsRune(ifsv, r) {
					return true, "opword-abstraction"
				}
			}
			if p.val == "" && !(i > 0 && (cs.parts[i-1].kind == 'S' || cs.parts[i-1].kind == 'L' && cs.parts[i-1].val != "")) {
				return true, "opword-abstraction"
			}
		}
	}
	for _, p := range cs.parts {
		if p.kind != 'D' {
			continue
		}
		at := false
		for _, d := range p.ds {
			if d.kind == 'a' {
				at = true
			}
			if d.kind == 'l' && strings.ContainsRune(d.val, 0) {
				return true, "nul-in-literal"
			}
		}
		if at && len(p.ds) != 1 {
			return true, "at-in-mixed-dquotes"
		}
	}
	return false, ""
}

// ---- search leg ----

// single-quote a value for a script; a quote is written '"'"' (not '\'': the unchanged tree keeps
// that backslash in assignments, finding C22-assign-backslash).
func c22SQ(s string) string { return "'" + strings.ReplaceAll(s, "'", `'"'"'`) + "'" }

func c22Script(cs c22Case) string {
	src, vars := c22Word(cs.parts, true)
	if cs.rawWord != "" {
		src = cs.rawWord
	}
	var sb strings.Builder
	sb.WriteString("set -f\n")
	sb.WriteString(`p() { printf '%s:' "$#"; for a; do printf '<%s>' "$a"; done; }` + "\n")
	for i, v := range vars {
		fmt.Fprintf(&sb, "v%d=%s\n", i, c22SQ(v))
	}
	sb.WriteString("s0=5; unset u0\n")
	sb.WriteString("set --")
	for _, p := range cs.params {
		sb.WriteString(" " + c22SQ(p))
	}
	sb.WriteString("\n")
	if cs.ifsSet {
		sb.WriteString("IFS=" + c22SQ(cs.ifs) + "\n")
	} else {
		sb.WriteString("unset IFS\n")
	}
	sb.WriteString("p " + src + "\n")
	return sb.String()
}

// c22BashArtifact: bash 5.2 steps over the first byte only of a multi-byte non-white-space IFS
// character that follows IFS white space (subst.c list_string, `sindex++`) and then sees the
// continuation byte as a delimiter of its own: a spurious empty field.  Such inputs say nothing
// about the implementation.
func c22BashArtifact(cs c22Case) bool {
	ifsv := cs.ifsv()
	var multi []rune
	ws := false
	for _, r := range ifsv {
		if utf8.RuneLen(r) > 1 {
			multi = append(multi, r)
		}
		if r == ' ' || r == '\t' || r == '\n' {
			ws = true
		}
	}
	if len(multi) == 0 {
		return false
	}
	hasMulti := func(v string) bool {
		for _, m := range multi {
			if strings.ContainsRune(v, m) {
				return true
			}
		}
		return false
	}
	check := func(v string) bool {
		if !ws {
			return false
		}
		prevW := false
		for _, r := range v {
			in := strings.ContainsRune(ifsv, r)
			if in && (r == ' ' || r == '\t' || r == '\n') {
				prevW = true
				continue
			}
			if in && prevW && utf8.RuneLen(r) > 1 {
				return true
			}
			prevW = false
		}
		return false
	}
	quotedParams := false
	if f, _ := utf8.DecodeRuneInString(ifsv); utf8.RuneLen(f) > 1 && len(cs.params) >= 2 {
		// "$*" joins with the multi-byte first IFS character: quoted text containing it (see below)
		for _, p := range cs.parts {
			if p.kind == 'D' {
				for _, d := range p.ds {
					if d.kind == 't' {
						return true
					}
				}
			}
		}
	}
	for _, p := range cs.parts {
		switch p.kind {
		case 'L', 'S', 'O':
			// a multi-byte IFS character in quoted / literal text: bash protects (CTLESC) its first
			// byte only and splits the character in two
			if hasMulti(p.val) {
				return true
			}
		case 'D':
			for _, d := range p.ds {
				if d.kind == 'a' || d.kind == 't' {
					quotedParams = true
				} else if hasMulti(d.val) {
					return true
				}
			}
		case 'E', 'C':
			if check(p.val) {
				return true
			}
		case 'A', 'T':
			for _, v := range cs.params {
				if check(v) {
					return true
				}
			}
		}
	}
	if quotedParams {
		for _, v := range cs.params {
			if hasMulti(v) {
				return true
			}
		}
	}
	return false
}

// c22BashAtAfterDelim: words that contain $@ or $* (quoted or not) together with an unquoted expansion
// whose value has IFS white space directly followed by a non-white-space IFS character.  bash then drops
// the empty field that such a delimiter makes when no field has begun (`IFS=': '; x=' :'; set -- b c;
// $x$@` gives <b><c>; `set --; "$@"$x` gives nothing) although it keeps it without the $@ ($x$1 -> <><b>,
// $x -> <>) and for x=':' (<><b><c>); dash and POSIX give the empty field in all cases, as the
// implementation does.  A bash inconsistency, kept out of the oracle comparison (the Lean specification
// stream still covers these words).
func c22BashAtAfterDelim(cs c22Case) bool {
	ifsv := cs.ifsv()
	isW := func(r rune) bool { return (r == ' ' || r == '\t' || r == '\n') && strings.ContainsRune(ifsv, r) }
	isD := func(r rune) bool { return strings.ContainsRune(ifsv, r) && !isW(r) }
	hasWD := func(v string) bool {
		prevW := false
		for _, r := range v {
			if prevW && isD(r) {
				return true
			}
			prevW = isW(r)
		}
		return false
	}
	list, unq := false, false
	for _, p := range cs.parts {
		switch p.kind {
		case 'A', 'T':
			list, unq = true, true
		case 'D':
			for _, d := range p.ds {
				if d.kind == 'a' || d.kind == 't' {
					list = true
				}
			}
		}
	}
	if !list {
		return false
	}
	_ = unq
	// the splittable text of the word: unquoted values and the joined parameters, with a
	// placeholder for everything quoted or literal
	first, _ := utf8.DecodeRuneInString(ifsv)
	sep := ""
	if ifsv != "" {
		sep = string(first)
	}
	var sb strings.Builder
	for _, p := range cs.parts {
		switch p.kind {
		case 'E', 'C':
			sb.WriteString(c22Eff(p.kind, p.val))
		case 'A', 'T':
			sb.WriteString(strings.Join(cs.params, sep))
		case 'D':
			if len(p.ds) == 1 && p.ds[0].kind == 'a' && len(cs.params) == 0 {
				continue // "$@" without parameters is nothing at all
			}
			sb.WriteString("\x01")
		default:
			sb.WriteString("\x01")
		}
	}
	return hasWD(sb.String())
}

// assignment context: `v=WORD` then print.  witness `asg …`.
func c22AsgScript(cs c22Case) string {
	src, vars := c22Word(cs.parts, true)
	var sb strings.Builder
	sb.WriteString("set -f\n")
	for i, v := range vars {
		fmt.Fprintf(&sb, "v%d=%s\n", i, c22SQ(v))
	}
	sb.WriteString("set --")
	for _, p := range cs.params {
		sb.WriteString(" " + c22SQ(p))
	}
	sb.WriteString("\n")
	if cs.ifsSet {
		sb.WriteString("IFS=" + c22SQ(cs.ifs) + "\n")
	} else {
		sb.WriteString("unset IFS\n")
	}
	sb.WriteString("s0=5; unset u0\n")
	sb.WriteString("r=" + src + "\nprintf '%s:%s' \"${#r}\" \"$r\"\n")
	return sb.String()
}


func c22Search(c *Ctx, cs c22Case, asg bool) (bool, string) {
	script := c22Script(cs)
	if asg {
		script = c22AsgScript(cs)
	}
	bs, ok := c22Bash(c, script)
	if !ok {
		return false, "oracle-unavailable"
	}
	in := runInterp(c, syntax.LangBash, script)
	if in.TimedOut { // machine load: once more, then give the case up rather than blame the implementation
		in = runInterp(c, syntax.LangBash, script)
		if in.TimedOut {
			return false, "interp-timeout"
		}
	}
	if in.Panic != "" {
		return true, "interp panicked: " + in.Panic
	}
	if in.Stdout != bs.Stdout || in.Err != "" {
		src, _ := c22Word(cs.parts, true)
		if cs.rawWord != "" {
			src = cs.rawWord
		}
		ifs := "<unset>"
		if cs.ifsSet {
			ifs = strconv.Quote(cs.ifs)
		}
		ctx := "word"
		if asg {
			ctx = "assignment r="
		}
		return true, fmt.Sprintf("IFS=%s params=%q %s %s: interp gives %q %s, bash gives %q", ifs, cs.params, ctx, src, in.Stdout, in.Err, bs.Stdout)
	}
	return false, ""
}


// c22Bash runs the bash oracle; a run that could not be trusted (exec error, timeout, non-zero
// status with nothing printed — seen under heavy machine load) is retried, then reported as
// unavailable so that the case is skipped rather than blamed on the implementation.
func c22Bash(c *Ctx, script string, args ...string) (ShellResult, bool) {
	var bs ShellResult
	for try := 0; try < 3; try++ {
		bs = runShell(c, "bash", script, args...)
		if bs.Err == "" && !bs.TimedOut && !(bs.Status != 0 && bs.Stdout == "") {
			return bs, true
		}
		time.Sleep(time.Duration(50*(try+1)) * time.Millisecond)
	}
	return bs, false
}

// ---- generators ----

var c22IfsChoices = []string{" ", ":", ": ", ",;", "é", " \t\n", ":\t", "\n", " é", "x", ";\n ", "-", "\t", ":,", "é:"}

func c22GenIfs(r *Rand) (bool, string) {
	switch k := r.Intn(20); {
	case k < 4:
		return false, ""
	case k < 6:
		return true, ""
	case k == 6:
		return true, genFrom(r, []string{" ", ":", "\t", "\n", ",", "é", "a"}, 4)
	default:
		return true, r.Pick(c22IfsChoices)
	}
}

// value of a variable / parameter: IFS characters at the start, middle and end.
// clean: single non-white-space delimiters strictly between field characters.
func c22GenValue(r *Rand, ifsv string, clean bool) string {
	var ws, ds []string
	for _, ru := range ifsv {
		if ru == ' ' || ru == '\t' || ru == '\n' {
			ws = append(ws, string(ru))
		} else {
			ds = append(ds, string(ru))
		}
	}
	fa := []string{}
	for _, s := range []string{"a", "b", "c", "é", "0", "-", "世", ":", " ", ",", "*", "\\", "'", "\""} {
		if !strings.Contains(ifsv, s) {
			fa = append(fa, s)
		}
	}
	if len(fa) == 0 {
		fa = []string{"Q"}
	}
	var sb strings.Builder
	genWs := func(min int) {
		if len(ws) == 0 {
			return
		}
		for i, k := 0, min+r.Intn(2); i < k; i++ {
			sb.WriteString(r.Pick(ws))
		}
	}
	if clean {
		nf := r.Intn(4)
		if r.Chance(35) {
			genWs(1)
		}
		for i := 0; i < nf; i++ {
			if i > 0 {
				if len(ds) > 0 && (len(ws) == 0 || r.Chance(50)) {
					genWs(0)
					sb.WriteString(r.Pick(ds))
					genWs(0)
				} else {
					genWs(1)
				}
			}
			for j, k := 0, 1+r.Intn(2); j < k; j++ {
				sb.WriteString(r.Pick(fa))
			}
		}
		if r.Chance(35) {
			genWs(1)
		}
		return sb.String()
	}
	alpha := append([]string{}, fa[:min(len(fa), 4)]...)
	alpha = append(alpha, ws...)
	alpha = append(alpha, ds...)
	alpha = append(alpha, ds...)
	alpha = append(alpha, " ", ":")
	for i, k := 0, r.Intn(7); i < k; i++ {
		sb.WriteString(r.Pick(alpha))
	}
	return sb.String()
}

var c22LitPlain = []string{"a", "b", "x", "é", "0", ":", ",", ".", "-", "_", "/", "+", "%", "@", "世"}
var c22LitEsc = []string{" ", "\\", "$", "\"", "'", ":", "a", ";", "*", "\t", "#", "~", "é"}

func c22GenLit(r *Rand) string {
	var sb strings.Builder
	for i, k := 0, 1+r.Intn(3); i < k; i++ {
		if r.Chance(30) {
			sb.WriteString("\\" + r.Pick(c22LitEsc))
		} else {
			sb.WriteString(r.Pick(c22LitPlain))
		}
	}
	s := sb.String()
	if strings.HasPrefix(s, "~") {
		s = "a" + s
	}
	return s
}

func c22GenSgl(r *Rand, ifsv string) string {
	alpha := []string{"a", " ", ":", "$", "\\", "\"", "é", "\n", "*", ",", "\t", "x y"}
	for _, ru := range ifsv {
		if ru != '\'' {
			alpha = append(alpha, string(ru))
		}
	}
	return genFrom(r, alpha, 3)
}

func c22GenDqLit(r *Rand, ifsv string) string {
	alpha := []string{"a", " ", ":", "'", "é", ",", "\\\"", "\\\\", "\\$", "\\`", "\\a", "\\ ", "x", "\t", "*"}
	for _, ru := range ifsv {
		if ru != '"' && ru != '$' && ru != '`' && ru != '\\' {
			alpha = append(alpha, string(ru))
		}
	}
	var sb strings.Builder
	for i, k := 0, 1+r.Intn(3); i < k; i++ {
		sb.WriteString(r.Pick(alpha))
	}
	return sb.String()
}

func c22GenCase(r *Rand, clean bool, thorough bool) c22Case {
	var cs c22Case
	cs.ifsSet, cs.ifs = c22GenIfs(r)
	ifsv := cs.ifsv()
	np := r.Intn(4)
	if r.Chance(30) {
		np = 0
	}
	cs.params = []string{}
	for i := 0; i < np; i++ {
		if r.Chance(15) {
			cs.params = append(cs.params, "")
		} else {
			cs.params = append(cs.params, c22GenValue(r, ifsv, clean))
		}
	}
	maxParts := 4
	if thorough {
		maxParts = 6
	}
	n := 1 + r.Intn(maxParts)
	lastLit := false
	for i := 0; i < n; i++ {
		k := r.Intn(20)
		switch {
		case k < 4 && !lastLit:
			cs.parts = append(cs.parts, c22P{kind: 'L', val: c22GenLit(r)})
			lastLit = true
			continue
		case k < 6 && r.Chance(45):
			// default / alternative expansion with a quoted operator word that is substituted;
			// parts before and after it come from the other branches
			var alpha []string
			for _, a := range []string{"b", "q", "7", "é", "-", ".", ",", ":", " ", "x y"} {
				if !strings.ContainsAny(a, ifsv) || r.Chance(10) {
					alpha = append(alpha, a)
				}
			}
			v := ""
			if len(alpha) > 0 && !r.Chance(15) {
				v = genFrom(r, alpha, 2)
			}
			cs.parts = append(cs.parts, c22P{kind: 'O', op: "abcd"[r.Intn(4)], val: v})
		case k < 6:
			cs.parts = append(cs.parts, c22P{kind: 'S', val: c22GenSgl(r, ifsv)})
		case k < 11:
			kind := byte('E')
			if r.Chance(25) {
				kind = 'C'
			}
			v := c22GenValue(r, ifsv, clean)
			if r.Chance(10) {
				v = ""
			}
			if kind == 'C' && r.Chance(30) {
				v += "\n\n"
			}
			cs.parts = append(cs.parts, c22P{kind: kind, val: v})
		case k == 11:
			cs.parts = append(cs.parts, c22P{kind: 'A'})
		case k == 12:
			cs.parts = append(cs.parts, c22P{kind: 'T'})
		case k == 13:
			cs.parts = append(cs.parts, c22P{kind: 'D', ds: []c22D{{'a', ""}}})
		case k == 14:
			cs.parts = append(cs.parts, c22P{kind: 'D', ds: []c22D{{'t', ""}}})
		default:
			p := c22P{kind: 'D'}
			nd := r.Intn(4)
			dl := false
			for j := 0; j < nd; j++ {
				switch q := r.Intn(10); {
				case q < 4 && !dl:
					p.ds = append(p.ds, c22D{'l', c22GenDqLit(r, ifsv)})
					dl = true
					continue
				case q < 8:
					kind := byte('e')
					if r.Chance(25) {
						kind = 'c'
					}
					v := c22GenValue(r, ifsv, false)
					if r.Chance(15) {
						v = ""
					}
					p.ds = append(p.ds, c22D{kind, v})
				case q == 8:
					p.ds = append(p.ds, c22D{'t', ""})
				default:
					if clean {
						p.ds = append(p.ds, c22D{'t', ""})
					} else {
						p.ds = append(p.ds, c22D{'a', ""})
					}
				}
				dl = false
			}
			cs.parts = append(cs.parts, p)
		}
		lastLit = false
	}
	return cs
}

func c22RunCase(c *Ctx, cs c22Case, spec bool) {
	got := c22Fields(cs)
	if strings.HasPrefix(got, "aliased") {
		c.Fail("wf "+c22OpArgs(cs, false), "the fields returned by expand.Fields changed when a second expansion ran on the same Config: "+got)
	}
	c.Op("wf "+c22OpArgs(cs, true), got)
	ex, why := c22Excluded(cs)
	tags := []string{"wf", "ifs=" + func() string {
		switch {
		case !cs.ifsSet:
			return "unset"
		case cs.ifs == "":
			return "empty"
		case strings.Trim(cs.ifs, " \t\n") == "":
			return "whitespace"
		case !utf8.ValidString(cs.ifs) || len(cs.ifs) != utf8.RuneCountInString(cs.ifs):
			return "multibyte"
		case strings.ContainsAny(cs.ifs, " \t\n"):
			return "mixed"
		default:
			return "non-whitespace"
		}
	}()}
	if ex {
		tags = append(tags, "excluded:"+why)
	}
	for _, p := range cs.parts {
		tags = append(tags, "part="+string(p.kind))
	}
	nf, _ := strconv.Atoi(strings.SplitN(got, " ", 2)[0])
	c.Case("wf\x00"+c22OpArgs(cs, false), nf >= 2 || len(cs.parts) >= 2, tags...)
	if spec && !ex && got != "panic" && got != "error" && !strings.HasPrefix(got, "parse") {
		c.Op("specwf "+c22OpArgs(cs, true), got)
	}
	// the same word in assignment context (expand.Literal)
	lit := c22Literal(cs)
	c.Op("lit "+c22OpArgs(cs, true), lit)
	if spec && lit != "panic" && lit != "error" && !strings.HasPrefix(lit, "parse") {
		c.Op("speclit "+c22OpArgs(cs, true), lit)
	}
	c.Op("litkeep "+c22OpArgs(cs, true), c22LiteralKeep(cs))
}

func c22(c *Ctx) {
	c.Rule = "IFS ∈ {unset, empty, space, ':', ': ', ',;', 'é', newline/tab mixes, …}; 0–3 positional parameters; words of 1–4 (thorough 6) parts: " +
		"unquoted literal with backslash escapes, single quotes, double quotes (literals with \\\" \\\\ \\$ escapes, ${v}, $(cmd), $*, $@), unquoted ${v}, $(cmd), $@, $*, " +
		"\"$@\", \"$*\"; values with IFS characters at start/middle/end; half of the values 'clean' (no empty-field delimiters) so that the spec stream is busy; " +
		"non-trivial = ≥ 2 fields or ≥ 2 parts; distinct by exact case"
	type shCase struct {
		cs      c22Case
		witness string
		asg     bool
	}
	var shCases []shCase
	for _, l := range c.CorpusLines() {
		f := strings.Fields(l)
		if len(f) == 2 && f[0] == "raw" {
			// a word given as source text (for what the part notation cannot say, e.g. braces)
			shCases = append(shCases, shCase{c22Case{rawWord: unhx(f[1])}, l, false})
			continue
		}
		if len(f) < 3 {
			continue
		}
		cs, ok := c22ParseCase(f[1:])
		if !ok {
			continue
		}
		switch f[0] {
		case "wf", "specwf", "lit", "speclit", "litkeep":
			c22RunCase(c, cs, true)
		case "sh":
			shCases = append(shCases, shCase{cs, l, false})
			c22RunCase(c, cs, false)
		case "asg":
			shCases = append(shCases, shCase{cs, l, true})
			c22RunCase(c, cs, false)
		}
	}
	for i := 0; i < c.N; i++ {
		cs := c22GenCase(c.R, c.R.Chance(55), c.Thorough())
		c22RunCase(c, cs, true)
	}
	nsh := 260
	if c.Thorough() {
		nsh = 20000 / max(1, c.Shards)
	}
	if c.N == 0 {
		nsh = 0
	}
	rs := c.R.Fork("search")
	for i := 0; i < nsh; i++ {
		var cs c22Case
		for try := 0; ; try++ {
			cs = c22GenCase(rs, rs.Chance(70), c.Thorough())
			ex, _ := c22Excluded(cs)
			asg := i%5 == 4
			ok := !c22BashArtifact(cs)
			if !asg {
				ok = ok && !ex && !c22BashAtAfterDelim(cs)
			}
			// the script carries every value in single quotes: NUL cannot be written
			if ok || try > 30 {
				if !ok {
					cs = c22Case{parts: []c22P{{kind: 'L', val: "a"}}, params: []string{}}
				}
				break
			}
		}
		if i%5 == 4 {
			shCases = append(shCases, shCase{cs, "asg " + c22OpArgs(cs, false), true})
		} else {
			shCases = append(shCases, shCase{cs, "sh " + c22OpArgs(cs, false), false})
		}
	}
	type shRes struct {
		fail bool
		what string
	}
	results := parallelMap(len(shCases), 8, func(i int) shRes {
		f, w := c22Search(c, shCases[i].cs, shCases[i].asg)
		return shRes{f, w}
	})
	for i, sc := range shCases {
		if results[i].what == "oracle-unavailable" || results[i].what == "interp-timeout" {
			// visible in the evidence histogram; a real hang of `read`/expansion would show up as a
			// large `interp-timeout` count on an idle machine
			c.Case("sh\x00"+sc.witness, false, results[i].what)
			continue
		}
		c.Case("sh\x00"+sc.witness, true, "bash-compared")
		if results[i].fail {
			c.Fail(sc.witness, results[i].what)
		}
	}
	c.Extra["bash_runs"] = len(shCases)
}
