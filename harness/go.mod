module verif/harness

go 1.26.0

require mvdan.cc/sh/v3 v3.0.0

replace mvdan.cc/sh/v3 => /repo
