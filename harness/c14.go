//go:build c14 || all

package main

import (
	"fmt"
	"sort"
	"strings"

	"mvdan.cc/sh/v3/syntax"
)

// C14 — Walk and Preorder visit every node exactly once.
// Streams: `schema` (reflection view of every node struct = regenerated Gen table),
// `walk`/`prune` (real Walk callback trace = generic model walk over the dumped tree),
// `wf` (assume/guarantee: parser trees satisfy the model's well-formedness),
// `specvisit` (sorted ids entered by the real Walk = all ids of the reflection dump: the property).
// Search leg (independent of Lean): reflection enumeration vs real Walk/Preorder traces.
func init() { register("C14", c14) }

func c14Flag(parent syntax.Node, slot string, child syntax.Node) bool {
	c, ok := child.(*syntax.Comment)
	if !ok || slot != "Comments" {
		return false
	}
	switch p := parent.(type) {
	case *syntax.Stmt:
		return !p.End().After(c.Pos())
	case *syntax.CaseItem:
		return c.Pos().After(p.Pos())
	case *syntax.ArrayElem:
		return c.Pos().After(p.Pos())
	}
	return false
}

type c14Trace struct {
	events []string
	enters []int
	bad    string
}

func c14Walk(root syntax.Node, ids map[string]int, prune int, viaPreorder bool, stopAfter int) (tr c14Trace, panicked string) {
	var stack []int
	panicked = safely(func() {
		if viaPreorder {
			n := 0
			for node := range syntax.Preorder(root) {
				id, ok := ids[nodeKey(node)]
				if !ok {
					tr.bad = "Preorder yielded a node the reflection dump does not know: " + nodeKey(node)
					id = -1
				}
				tr.enters = append(tr.enters, id)
				tr.events = append(tr.events, fmt.Sprintf("e%d", id))
				n++
				if stopAfter >= 0 && n >= stopAfter {
					break
				}
			}
			return
		}
		syntax.Walk(root, func(n syntax.Node) bool {
			if n == nil {
				if len(stack) == 0 {
					tr.bad = "f(nil) with no open node"
					tr.events = append(tr.events, "l?")
					return true
				}
				top := stack[len(stack)-1]
				stack = stack[:len(stack)-1]
				tr.events = append(tr.events, fmt.Sprintf("l%d", top))
				return true
			}
			id, ok := ids[nodeKey(n)]
			if !ok {
				tr.bad = "Walk visited a node the reflection dump does not know: " + nodeKey(n)
				id = -1
			}
			tr.enters = append(tr.enters, id)
			tr.events = append(tr.events, fmt.Sprintf("e%d", id))
			if id == prune {
				return false
			}
			stack = append(stack, id)
			return true
		})
	})
	return
}

func c14(c *Ctx) {
	c.Rule = "programs: the repository's own test inputs (string literals of syntax/interp test tables) that parse in some variant, plus grammar-generated programs with comments/heredocs/bash constructs; each parsed in every variant it parses in; " +
		"non-trivial = tree has ≥ 8 nodes and ≥ 3 distinct node types; distinct by (variant, source)"
	types := allNodeStructs()
	tyIndex := map[string]int{}
	for i, t := range types {
		tyIndex[t.Name()] = i
	}
	// schema tie: reflection vs regenerated table
	for _, t := range types {
		var parts []string
		for _, s := range slotsOfType(t) {
			k := "S"
			if s.IsList {
				k = "L"
			}
			parts = append(parts, s.Path+":"+k)
		}
		c.Op(strings.TrimSpace(fmt.Sprintf("schema %d %s %s", tyIndex[t.Name()], t.Name(), strings.Join(parts, " "))), "ok")
	}
	var srcs []string
	for _, l := range c.CorpusLines() {
		srcs = append(srcs, unhx(strings.Fields(l)[0]))
	}
	srcs = append(srcs, variantSnippetSources()...)
	seeds := repoSeeds()
	nSeeds := c.N / 2
	for i := 0; i < nSeeds && len(seeds) > 0; i++ {
		srcs = append(srcs, seeds[c.R.Intn(len(seeds))])
	}
	for i := 0; i < c.N-nSeeds; i++ {
		g := newProgGen(c.R, c.R.Chance(70))
		srcs = append(srcs, g.Program(1+c.R.Intn(4)))
	}
	typesSeen := map[string]bool{}
	for _, src := range srcs {
		for _, lang := range allLangs {
			f, err, pn := parseIn(src, lang, syntax.KeepComments(true))
			if pn != "" || err != nil || f == nil {
				continue
			}
			d := &Dumper{Flag: c14Flag}
			root := d.Dump(f, 0, nil)
			ids := map[string]int{}
			dupKey := ""
			tset := map[string]bool{}
			for _, dn := range d.Nodes {
				k := nodeKey(dn.Node)
				if _, dup := ids[k]; dup {
					dupKey = k
				}
				ids[k] = dn.ID
				tset[dn.Type] = true
				typesSeen[dn.Type] = true
			}
			witness := "walk " + langName(lang) + " " + hx(src)
			c.Case(langName(lang)+"\x00"+src, len(d.Nodes) >= 8 && len(tset) >= 3, "lang="+langName(lang), fmt.Sprintf("nodes<%d", bucket(len(d.Nodes))))
			if dupKey != "" {
				// the same node reachable twice: the tree is a DAG; record, do not judge here
				c.Hist["shared-node"]++
				continue
			}
			var sb strings.Builder
			root.SExp(func(s string) int { return tyIndex[s] }, &sb)
			sexp := sb.String()
			tr, pn := c14Walk(f, ids, -1, false, -1)
			if pn != "" {
				c.Fail(witness, "Walk panicked: "+pn)
				continue
			}
			c.Op("wf "+sexp, "true")
			c.Op("walk all "+sexp, strings.Join(tr.events, " "))
			sorted := append([]int{}, tr.enters...)
			sort.Ints(sorted)
			c.Op("specvisit "+sexp, joinInts(sorted))
			// ---- search leg: the property itself, against the reflection dump ----
			if tr.bad != "" {
				c.Fail(witness, tr.bad)
			}
			if msg := c14Judge(d, tr); msg != "" {
				c.Fail(witness, msg)
			}
			// pruning at a sampled node; early termination of Preorder at a sampled position
			np := 1
			if c.Thorough() {
				np = 6
			}
			for j := 0; j < np && len(d.Nodes) > 1; j++ {
				p := c.R.Intn(len(d.Nodes))
				trp, pn := c14Walk(f, ids, p, false, -1)
				if pn != "" {
					c.Fail(witness, "Walk panicked when pruning: "+pn)
					continue
				}
				c.Op(fmt.Sprintf("walk %d %s", p, sexp), strings.Join(trp.events, " "))
				if msg := c14JudgePrune(d, trp, p); msg != "" {
					c.Fail(fmt.Sprintf("prune %d %s %s", p, langName(lang), hx(src)), msg)
				}
				stop := c.R.Intn(len(d.Nodes) + 1)
				tro, pn := c14Walk(f, ids, -1, true, stop)
				if pn != "" {
					c.Fail(witness, "Preorder panicked: "+pn)
					continue
				}
				c.Op(fmt.Sprintf("preorder %d %s", stop, sexp), joinInts(tro.enters))
				want := tr.enters
				if stop < len(want) && stop >= 0 {
					want = want[:max(stop, 1)]
				}
				if joinInts(tro.enters) != joinInts(want) {
					c.Fail(fmt.Sprintf("preorder %d %s %s", stop, langName(lang), hx(src)), "Preorder sequence differs from Walk's: "+joinInts(tro.enters)+" vs "+joinInts(want))
				}
			}
		}
	}
	c.Extra["node_types_seen"] = len(typesSeen)
}

// c14Judge checks the full-walk trace against the reflection dump: every node entered exactly
// once, parent before children, one f(nil) per node after all of its descendants' events.
func c14Judge(d *Dumper, tr c14Trace) string {
	count := map[int]int{}
	for _, id := range tr.enters {
		count[id]++
	}
	for _, dn := range d.Nodes {
		if count[dn.ID] != 1 {
			return fmt.Sprintf("node %d (%s, field slot %d of %s) visited %d times", dn.ID, dn.Type, dn.Slot, parentType(dn), count[dn.ID])
		}
	}
	// bracket structure: replay events on a stack; each enter must happen while its parent is the innermost open node
	var stack []int
	for _, ev := range tr.events {
		var id int
		fmt.Sscanf(ev[1:], "%d", &id)
		if ev[0] == 'e' {
			dn := d.Nodes[id]
			wantParent := -1
			if dn.Parent != nil {
				wantParent = dn.Parent.ID
			}
			top := -1
			if len(stack) > 0 {
				top = stack[len(stack)-1]
			}
			if top != wantParent {
				return fmt.Sprintf("node %d (%s in %s) entered while the innermost open node is %d, not its parent %d (f(nil) for the parent came before this child)", id, dn.Type, parentType(dn), top, wantParent)
			}
			stack = append(stack, id)
		} else {
			if len(stack) == 0 || stack[len(stack)-1] != id {
				return "f(nil) does not close the innermost open node"
			}
			stack = stack[:len(stack)-1]
		}
	}
	if len(stack) != 0 {
		return "missing f(nil)"
	}
	return ""
}

func parentType(dn *DNode) string {
	if dn.Parent == nil {
		return "root"
	}
	return dn.Parent.Type
}

func c14JudgePrune(d *Dumper, tr c14Trace, p int) string {
	// descendants of p must be absent, everything else present once
	under := map[int]bool{}
	var mark func(dn *DNode)
	mark = func(dn *DNode) {
		for _, k := range dn.Kids {
			under[k.ID] = true
			mark(k)
		}
	}
	mark(d.Nodes[p])
	count := map[int]int{}
	for _, id := range tr.enters {
		count[id]++
	}
	for _, dn := range d.Nodes {
		want := 1
		if under[dn.ID] {
			want = 0
		}
		if count[dn.ID] != want {
			return fmt.Sprintf("pruning at %d: node %d (%s) visited %d times, want %d", p, dn.ID, dn.Type, count[dn.ID], want)
		}
	}
	for _, ev := range tr.events {
		if ev == fmt.Sprintf("l%d", p) {
			return "f(nil) was called for the pruned node"
		}
	}
	return ""
}
