//go:build c07 || all

package main

import (
	"bytes"
	"fmt"
	"io"
	"regexp"
	"strconv"
	"strings"
	"time"

	"mvdan.cc/sh/v3/syntax"
	"mvdan.cc/sh/v3/syntax/typedjson"
)

// C07 — parsing does not depend on how input bytes arrive.
//
// Streams written for the Lean driver (lean/ShVerif/Driver/C07.lean):
//
//	run     — the chunked byte-source model (Model/L2ByteSrc.lean) against the real primitives of
//	          syntax/lexer.go driven through syntax.VerifLexer over an explicit read schedule;
//	          every result and a checksum of the parser's byte-source fields after every op.
//	specrun — the *unchunked* specification machine (Model/C07.lean) against the real primitives
//	          run over an arbitrary schedule, for client programs that respect the protocol
//	          under which the theorems hold (static filters in c07Ops, dynamic ones in c07SpecSkip; the Lean side recomputes `ok`): a difference is a violation of the
//	          property at the primitive level.
//
// Search leg (public API only): Parse's tree-with-positions / error under one-byte, single-split,
// random and zero-length-read schedules against the single-read result (c07Search).
func init() { register("C07", c07) }

// ---------------------------------------------------------------------------------------------
// the reader of the model: one schedule entry per Read call, chunk = min(entry, len(p), rest).

type c07Reader struct {
	data    []byte
	pos     int
	sched   []int
	i       int
	eofWith bool
	reads   int
}

func (r *c07Reader) Read(p []byte) (int, error) {
	r.reads++
	e, has := 0, false
	if r.i < len(r.sched) {
		e, has = r.sched[r.i], true
		r.i++
	}
	rem := len(r.data) - r.pos
	if rem == 0 {
		return 0, io.EOF
	}
	k := len(p)
	if has && e < k {
		k = e
	}
	if k > rem {
		k = rem
	}
	if k == 0 {
		if !has {
			panic("c07Reader: zero-length buffer") // the model's Fault.hang
		}
		return 0, nil
	}
	copy(p, r.data[r.pos:r.pos+k])
	r.pos += k
	if r.eofWith && r.pos == len(r.data) {
		return k, io.EOF
	}
	return k, nil
}

func c07SchedStr(s []int) string {
	if len(s) == 0 {
		return "-"
	}
	var sb strings.Builder
	for i, n := range s {
		if i > 0 {
			sb.WriteByte(',')
		}
		sb.WriteString(strconv.Itoa(n))
	}
	return sb.String()
}

func c07ParseSched(s string) []int {
	if s == "-" {
		return nil
	}
	var out []int
	for _, f := range strings.Split(s, ",") {
		n, _ := strconv.Atoi(f)
		out = append(out, n)
	}
	return out
}

// ---------------------------------------------------------------------------------------------
// running ops on the real lexer

func c07Mix(h uint32, v uint64) uint32 { return h*31 + uint32(v) }

func c07Cksum(st syntax.VerifLexState) uint32 {
	b2u := func(b bool) uint64 {
		if b {
			return 1
		}
		return 0
	}
	litTag := uint64(0)
	if !st.LitNil {
		if len(st.Lit) == 0 {
			litTag = 1
		} else {
			litTag = 2 + uint64(st.Lit[len(st.Lit)-1])
		}
	}
	errTag := uint64(0)
	if st.Err != "" {
		if st.ErrText == "invalid UTF-8 encoding" {
			errTag = 1
		} else {
			errTag = 2
		}
	}
	ahead := uint64(256)
	if len(st.Ahead) > 0 {
		ahead = uint64(st.Ahead[0])
	}
	h := uint32(7)
	for _, v := range []uint64{uint64(st.Bsp), uint64(st.Len), uint64(st.Offs), uint64(st.Line), uint64(st.Col),
		uint64(st.R), uint64(st.W), b2u(st.ReadEOF), b2u(st.ReadErr), litTag,
		uint64(st.LastBquoteEsc), uint64(st.OpenBquotes), uint64(st.OpenBquoteDbls), errTag, ahead} {
		h = c07Mix(h, v)
	}
	return h
}

func c07Err(st syntax.VerifLexState) string {
	switch {
	case st.Err == "":
		return "-"
	case st.ErrText == "invalid UTF-8 encoding":
		return fmt.Sprintf("u%d:%d:%d", st.ErrOffs, st.ErrLine, st.ErrCol)
	default:
		return "c"
	}
}

func c07Lit(st syntax.VerifLexState) string {
	if st.LitNil {
		return "~"
	}
	return hx(string(st.Lit))
}

func c07State(st syntax.VerifLexState) string {
	ahead := "!"
	if st.Bsp <= st.Len {
		ahead = hx(string(st.Ahead))
	}
	b := func(x bool) int {
		if x {
			return 1
		}
		return 0
	}
	return fmt.Sprintf("S %d %d %d %d %d %d %d %d %d %d %d %d %s %s %s", st.Bsp, st.Len, st.Offs, st.Line, st.Col,
		st.R, st.W, b(st.ReadEOF), b(st.ReadErr), st.LastBquoteEsc, st.OpenBquotes, st.OpenBquoteDbls,
		c07Err(st), c07Lit(st), ahead)
}

func c07SpecState(st syntax.VerifLexState) string {
	// ok=1: the harness only emits programs inside the client protocol (the Lean side recomputes it)
	return fmt.Sprintf("L %d %d %d %d %d %d %d %s %s ok=1", st.Line, st.Col, st.R, st.W,
		st.LastBquoteEsc, st.OpenBquotes, st.OpenBquoteDbls, c07Err(st), c07Lit(st))
}

// c07Step runs one op on the real lexer and returns its result token.
func c07Step(v *syntax.VerifLexer, op string) string {
	arg := op[1:]
	switch op[0] {
	case 'r':
		r, w := v.Rune()
		return fmt.Sprintf("r%d:%d", r, w)
	case 'k':
		n, _ := strconv.Atoi(arg)
		cnt := 0
		var last rune
		for cnt < n {
			last, _ = v.Rune()
			cnt++
			if last == syntax.VerifRuneEOF {
				break
			}
		}
		if n == 0 {
			last = v.State().R
		}
		return fmt.Sprintf("k%d:%d", cnt, last)
	case 'p':
		return fmt.Sprintf("p%d", v.Peek())
	case 't':
		a, b := v.PeekTwo()
		return fmt.Sprintf("t%d,%d", a, b)
	case 'z':
		if v.ZshNumRange() {
			return "z1"
		}
		return "z0"
	case 's':
		n, _ := strconv.Atoi(arg)
		if v.StopAtHere(rune(n)) {
			return "s1"
		}
		return "s0"
	case 'n':
		if arg == "c" {
			v.NewLit(v.State().R)
		} else {
			n, _ := strconv.Atoi(arg)
			v.NewLit(rune(n))
		}
		return "n"
	case 'e':
		return "e" + hx(v.EndLit())
	case 'q':
		_, _, _, raw := v.NextPos()
		st := v.State()
		return fmt.Sprintf("q%d,%d,%d", raw, st.Line, st.Col)
	case 'b':
		f := strings.Split(arg, ",")
		o, _ := strconv.Atoi(f[0])
		d, _ := strconv.Atoi(f[1])
		v.SetBquotes(o, d)
		return "b"
	case 'l':
		return "l" + c07Lit(v.State())
	case 'a':
		v.LitAppend([]byte(unhx(arg))...)
		return "a"
	case 'd':
		v.LitDrop()
		return "d"
	case 'x':
		v.ErrPass("client error")
		return "x"
	case 'f':
		return fmt.Sprintf("f%d", v.Fill())
	}
	panic("bad op " + op)
}

// c07SpecSkip reports whether op is outside the client protocol in the current (logical) state:
// nextPos after an error (the offset is then len(p.bs)+1, whatever the buffer holds), endLit with
// fewer literal bytes than the width of the current rune (Go panics).
func c07SpecSkip(st syntax.VerifLexState, op string) bool {
	if c07TieSkip(st, op) {
		return true
	}
	switch op[0] {
	case 'q':
		return st.Err != ""
	case 'z':
		return st.R == syntax.VerifRuneEOF // the cursor is past the buffer: p.bs[p.bsp:] panics
	case 'e':
		return st.R != syntax.VerifRuneEOF && st.R != syntax.VerifEscNewl && len(st.Lit) < st.W
	}
	return false
}

// c07TieSkip: nothing is skipped in the tie stream any more (newLit encodes its rune since cb62b3c and
// no longer reads the buffer).
func c07TieSkip(st syntax.VerifLexState, op string) bool { return false }

// c07Run runs ops over (input, sched, eofWith) and renders the answer like the Lean driver.
// In spec mode ops outside the protocol are dropped; the ops really executed are returned.
func c07Run(input string, sched []int, eofWith bool, stop string, ops []string, spec bool) (string, []string) {
	return c07RunDrop(input, sched, eofWith, stop, ops, spec, nil)
}

// c07Panicky: ops that make the Go code panic in the current state (kept in the tie stream with a
// small probability only, so that sequences are not cut short all the time).
func c07Panicky(st syntax.VerifLexState, op string) bool {
	switch op[0] {
	case 'z':
		return st.Bsp > st.Len
	case 'f':
		return st.Bsp > st.Len && !st.ReadEOF && st.R != syntax.VerifRuneEOF
	case 'e':
		return st.R != syntax.VerifRuneEOF && st.R != syntax.VerifEscNewl && len(st.Lit) < st.W
	}
	return false
}

func c07RunDrop(input string, sched []int, eofWith bool, stop string, ops []string, spec bool, drop func(syntax.VerifLexState, string) bool) (string, []string) {
	rd := &c07Reader{data: []byte(input), sched: sched, eofWith: eofWith}
	v := syntax.NewVerifLexer(rd, syntax.LangBash, stop)
	var out []string
	var done []string
	halted := false // the stop-word test fired: reading on is outside the protocol
	for _, op := range ops {
		if (spec && c07SpecSkip(v.State(), op)) || (!spec && c07TieSkip(v.State(), op)) || (drop != nil && drop(v.State(), op)) {
			continue
		}
		if spec && halted && strings.ContainsRune("rkptzsf", rune(op[0])) {
			continue
		}
		done = append(done, op)
		var res string
		p := safely(func() { res = c07Step(v, op) })
		if p != "" {
			if strings.Contains(p, "zero-length buffer") {
				out = append(out, "!hang")
			} else {
				out = append(out, "!panic")
			}
			return strings.Join(out, " "), done
		}
		if res == "s1" {
			halted = true
		}
		if spec {
			out = append(out, res)
		} else {
			out = append(out, fmt.Sprintf("%s/%d", res, c07Cksum(v.State())))
		}
	}
	if spec {
		out = append(out, "|", c07SpecState(v.State()))
	} else {
		out = append(out, "|", c07State(v.State()))
	}
	return strings.Join(out, " "), done
}

// ---------------------------------------------------------------------------------------------
// generators

var c07Alpha = []string{
	"a", "b", "x", "echo", " ", " ", "\n", "\n", "\r\n", "\r", "\x00", "\\", "\\", "\\\n", "\\\r\n", "`", "`",
	"$", "\"", "'", "<", "-", ">", "1", "10", "(", ")", "@", "=", "~", "^", "{", "}", "#", ";",
	"é", "€", "𝄞", "\xef\xbf\xbd",
}

// invalid / truncated encodings (an "invalid UTF-8 encoding" error ends the lexing)
var c07Bad = []string{"\xff", "\xc3", "\xe2\x82", "\xf0\x9d\x84", "\xed\xa0\x80", "\xc0\x80", "\xf4\x90\x80\x80"}

// c07Input draws an input; about a third are padded so that the interesting bytes sit around a
// multiple of the 1 KiB buffer size.
func c07Input(r *Rand, thorough bool) (string, int) {
	core := genFrom(r, c07Alpha, 24)
	if r.Chance(25) {
		core += r.Pick(c07Bad) + genFrom(r, c07Alpha, 4)
		if r.Chance(30) {
			core = r.Pick(c07Bad) + core
		}
	}
	switch r.Intn(10) {
	case 0, 1, 2:
		// pad to the buffer edge: the core starts a few bytes before k*bufSize
		k := 1 + r.Intn(2)
		if thorough && r.Chance(20) {
			k = 3
		}
		edge := k*syntax.VerifBufSize - r.Intn(12)
		if edge < 0 {
			edge = 0
		}
		var pad strings.Builder
		fill := r.Pick([]string{"a", "a", " ", "é", "\x00", "ab\n"})
		for pad.Len()+len(fill) <= edge {
			pad.WriteString(fill)
		}
		for pad.Len() < edge {
			pad.WriteByte('a')
		}
		return pad.String() + core + genFrom(r, c07Alpha, 6), pad.Len()
	case 3:
		return core + genFrom(r, c07Alpha, 60), 0
	}
	return core, 0
}

// c07Scheds returns the schedules to run an input under.
func c07Scheds(r *Rand, n int) [][]int {
	ones := make([]int, n+2)
	for i := range ones {
		ones[i] = 1
	}
	out := [][]int{nil, ones}
	if n > 1 {
		out = append(out, []int{1 + r.Intn(n-1)}) // single split
	}
	// random chunks, some zero-length
	var rc []int
	for left := n; left > 0; {
		k := r.Intn(7)
		if r.Chance(15) {
			k = r.Intn(1200)
		}
		rc = append(rc, k)
		left -= k
		if len(rc) > 4000 {
			break
		}
	}
	out = append(out, rc)
	// leading zero reads then a split near the buffer size
	out = append(out, []int{0, 0, 1020 + r.Intn(8), 0, 1 + r.Intn(5)})
	return out
}

func c07Ops(r *Rand, inputLen, padLen int, spec bool) []string {
	var ops []string
	if padLen > 8 && r.Chance(85) {
		// travel to the neighbourhood of the buffer edge first
		ops = append(ops, "r", fmt.Sprintf("k%d", padLen-1-r.Intn(8)))
	}
	n := 4 + r.Intn(40)
	for i := 0; i < n; i++ {
		x := r.Intn(100)
		var op string
		switch {
		case x < 42:
			op = "r"
		case x < 50:
			op = "p"
		case x < 57:
			op = "t"
		case x < 60:
			op = "z"
		case x < 63:
			op = "s" + r.Pick([]string{"36", "97", "233", "8364", "1114112", "92", "10"})
		case x < 68:
			op = "nc"
		case x < 71:
			op = "n" + r.Pick([]string{"97", "0", "1114112", "1114113", "233", "8364", "119070", "55296", "65533"})
		case x < 77:
			op = "e"
		case x < 85:
			op = "q"
		case x < 89:
			o := r.Intn(3)
			d := r.Intn(o + 1)
			op = fmt.Sprintf("b%d,%d", o, d)
		case x < 91:
			op = "l"
		case x < 93:
			op = "a" + hx(r.Pick([]string{"\\\n", "x", "é"}))
		case x < 94:
			op = "d"
		case x < 95:
			op = "x"
		case x < 97:
			op = "f"
		default:
			op = fmt.Sprintf("k%d", r.Intn(6))
		}
		if spec {
			switch op[0] {
			case 'f':
				continue // fill is internal to the primitives
			}
		}
		ops = append(ops, op)
	}
	ops = append(ops, "q")
	return ops
}

// ---------------------------------------------------------------------------------------------
// search leg: Parse through the public API under different schedules

func c07Dump(rd io.Reader, l syntax.LangVariant, stop string, keep bool) string {
	var out string
	p := safely(func() {
		opts := []syntax.ParserOption{syntax.Variant(l), syntax.KeepComments(keep)}
		if stop != "" {
			opts = append(opts, syntax.StopAt(stop))
		}
		f, err := syntax.NewParser(opts...).Parse(rd, "")
		var sb bytes.Buffer
		if f != nil {
			if e := typedjson.Encode(&sb, f); e != nil {
				sb.WriteString("encode-error:" + e.Error())
			}
		}
		out = fmt.Sprintf("err=%v tree=%s", err, strings.TrimSpace(sb.String()))
	})
	if p != "" {
		return "panic: " + p
	}
	return out
}

func c07LangByName(n string) syntax.LangVariant {
	for _, l := range allLangs {
		if langName(l) == n {
			return l
		}
	}
	return syntax.LangBash
}

// Exclusion of the search generator = exactly the region of the open known finding
// C07-zshnumrange-long: zsh inputs with a `<` followed by 60 or more digits / dashes.
var c07ZshLong = regexp.MustCompile(`<[0-9-]{60,}`)

func c07Excluded(src string, l syntax.LangVariant) string {
	if l == syntax.LangZsh && c07ZshLong.MatchString(src) {
		return "excl-zshrange-long"
	}
	return ""
}

func c07First(a, b string) string {
	i := 0
	for i < len(a) && i < len(b) && a[i] == b[i] {
		i++
	}
	lo := i - 60
	if lo < 0 {
		lo = 0
	}
	cut := func(s string) string {
		hi := i + 100
		if hi > len(s) {
			hi = len(s)
		}
		if lo > len(s) {
			return ""
		}
		return s[lo:hi]
	}
	return fmt.Sprintf("single read …%s… / this schedule …%s…", cut(a), cut(b))
}

// c07ParseCase compares Parse under the given schedule with the single-read result.
// witness format: parse <lang> <stop|-> <sched> <eofWith> <input-hex> [nokeep]   (nokeep = default options,
// comments discarded; without it KeepComments(true))
func c07ParseCase(c *Ctx, src string, l syntax.LangVariant, stop string, keep bool, sched []int, eofWith bool, base string) bool {
	got := c07Dump(&c07Reader{data: []byte(src), sched: sched, eofWith: eofWith}, l, stop, keep)
	if got == base {
		return true
	}
	st := hx(stop)
	ew := "0"
	if eofWith {
		ew = "1"
	}
	w := fmt.Sprintf("parse %s %s %s %s %s", langName(l), st, c07SchedStr(sched), ew, hx(src))
	if !keep {
		w += " nokeep"
	}
	c.Fail(w, "Parse differs from the single-read result: "+c07First(base, got))
	return false
}

func c07Ones(n int) []int {
	o := make([]int, n)
	for i := range o {
		o[i] = 1
	}
	return o
}

func c07SearchInput(c *Ctx, r *Rand, src string, l syntax.LangVariant, stop string, keep bool, tags []string) {
	if ex := c07Excluded(src, l); ex != "" {
		c.Case("x", false, ex)
		return
	}
	base := c07Dump(strings.NewReader(src), l, stop, keep)
	n := len(src)
	kinds := 0
	ok := c07ParseCase(c, src, l, stop, keep, c07Ones(n), false, base)
	ok = ok && c07ParseCase(c, src, l, stop, keep, nil, true, base) // iotest.DataErrReader
	ok = ok && c07ParseCase(c, src, l, stop, keep, c07Ones(n), true, base)
	kinds += 3
	// every single split point (at most 64, sampled around the buffer edges when longer)
	var splits []int
	if n-1 <= 64 {
		for i := 1; i < n; i++ {
			splits = append(splits, i)
		}
	} else {
		seen := map[int]bool{}
		for len(splits) < 64 {
			var at int
			if r.Chance(50) && n > syntax.VerifBufSize {
				at = syntax.VerifBufSize*(1+r.Intn(n/syntax.VerifBufSize)) - 8 + r.Intn(16)
			} else {
				at = 1 + r.Intn(n-1)
			}
			if at < 1 || at >= n || seen[at] {
				if len(seen) >= n-1 {
					break
				}
				seen[at] = true
				continue
			}
			seen[at] = true
			splits = append(splits, at)
		}
	}
	for _, at := range splits {
		if !ok {
			break
		}
		ok = c07ParseCase(c, src, l, stop, keep, []int{at}, false, base)
		kinds++
	}
	for i := 0; i < 3 && ok; i++ {
		var rc []int
		for left := n; left > 0 && len(rc) < 5000; {
			k := r.Intn(6)
			if r.Chance(10) {
				k = r.Intn(1100)
			}
			rc = append(rc, k)
			left -= k
		}
		ok = c07ParseCase(c, src, l, stop, keep, rc, r.Bool(), base)
		kinds++
	}
	nontrivial := strings.ContainsAny(src, "\\`$\"'<(\x00\r") || n > syntax.VerifBufSize-16
	c.Case("parse/"+langName(l)+"/"+src, nontrivial, append(tags, "search-"+langName(l), fmt.Sprintf("search-schedules=%d", c07Bucket(kinds)))...)
	c.Extra["search_parses"] = c07Int(c.Extra["search_parses"]) + kinds + 1
}

func c07Bucket(n int) int {
	switch {
	case n <= 8:
		return 8
	case n <= 32:
		return 32
	}
	return 64
}

func c07Int(v any) int {
	if i, ok := v.(int); ok {
		return i
	}
	return 0
}

// c07Pad places src so that it starts a few bytes before a multiple of the buffer size.
func c07Pad(r *Rand, src string) (string, string) {
	switch r.Intn(5) {
	case 0:
		return src, "pad-none"
	case 1:
		return src + "\n" + strings.Repeat("# filler\n", 120), "pad-after"
	}
	edge := syntax.VerifBufSize*(1+r.Intn(2)) - r.Intn(len(src)+2)
	if edge < 2 {
		return src, "pad-none"
	}
	var pad string
	switch r.Intn(3) {
	case 0:
		pad = "#" + strings.Repeat("c", edge-2) + "\n"
	case 1:
		pad = strings.Repeat(" ", edge-1) + "\n"
	default:
		// one long word / quoted string: few nodes, many bytes
		if r.Bool() {
			pad = ": '" + strings.Repeat("q", edge-5) + "'\n"
		} else {
			pad = ": " + strings.Repeat("w", edge-3) + "\n"
		}
		if edge < 6 {
			pad = strings.Repeat(" ", edge-1) + "\n"
		}
	}
	return pad + src, "pad-edge"
}

func c07Replay(c *Ctx, line string) {
	f := strings.Fields(line)
	switch {
	case (len(f) == 6 || (len(f) == 7 && f[6] == "nokeep")) && f[0] == "parse":
		keep := len(f) == 6
		l := c07LangByName(f[1])
		stop := unhx(f[2])
		src := unhx(f[5])
		base := c07Dump(strings.NewReader(src), l, stop, keep)
		c07ParseCase(c, src, l, stop, keep, c07ParseSched(f[3]), f[4] == "1", base)
		c.Case("corpus/"+line, true, "corpus-parse")
	case (len(f) == 6 || (len(f) == 7 && f[6] == "nokeep")) && f[0] == "entry":
		keep := len(f) == 6
		l := c07LangByName(f[2])
		src := unhx(f[5])
		base := c07DumpEntry(f[1], strings.NewReader(src), l, keep)
		c07EntryCase(c, f[1], src, l, keep, c07ParseSched(f[3]), f[4] == "1", base)
		c.Case("corpus/"+line, true, "corpus-entry")
	case len(f) >= 6 && f[0] == "run":
		ops := f[5:]
		got, done := c07Run(unhx(f[1]), c07ParseSched(f[2]), f[3] == "1", unhx(f[4]), ops, false)
		c.Op(strings.Join(append(f[:5:5], done...), " "), got)
		c.Case("corpus/"+line, true, "corpus-run")
	case len(f) >= 4 && f[0] == "specrun":
		// specrun <input> <stop> <ops…> : real code under the one-byte schedule
		in := unhx(f[1])
		got, done := c07Run(in, c07Ones(len(in)+2), false, unhx(f[2]), f[3:], true)
		c.Op(strings.Join(append(f[:3:3], done...), " "), got)
		c.Case("corpus/"+line, true, "corpus-specrun")
	}
}

// c07Lookahead: inputs whose lexing needs a two-byte lookahead or a lookahead loop.
var c07Lookahead = []struct {
	lang syntax.LangVariant
	src  string
}{
	{syntax.LangBash, "echo foo\\\r\nbar\n"}, {syntax.LangBash, "x\\\r\ny"}, {syntax.LangPOSIX, "a \\\r\n b\n"},
	{syntax.LangBash, "@() { :; }\n"}, {syntax.LangBash, "a+() { :; }\n"}, {syntax.LangBash, "echo @(a|b) +(c)\n"},
	{syntax.LangBash, "echo @() x\n"}, {syntax.LangMirBSDKorn, "echo *(x) !(y)\n"},
	{syntax.LangZsh, "echo ${=foo} ${~foo} ${^foo}\n"}, {syntax.LangZsh, "echo ${==foo} ${~~foo} ${^^foo} $=x\n"},
	{syntax.LangZsh, "echo <-> <1-10> foo<5->.txt <2-3\n"}, {syntax.LangBash, "echo `echo \\\\\\\\\\$x`\n"},
	{syntax.LangBash, "a=(b c)\n"}, {syntax.LangBash, "echo \xc3\xa9\xe2\x82\xac\n"},
}

// c07Entries: every public entry point of the parser that takes an io.Reader.
var c07Entries = []string{"Parse", "StmtsSeq", "InteractiveSeq", "WordsSeq", "Document", "Arithmetic"}

// c07DumpEntry parses rd through the named entry point and renders everything it delivers (typedjson with
// positions) plus the error text.  InteractiveSeq delivers statements in batches whose boundaries follow the
// Read calls by design; the batches are concatenated.
func c07DumpEntry(entry string, rd io.Reader, l syntax.LangVariant, keep bool) string {
	var out string
	pn := safely(func() {
		p := syntax.NewParser(syntax.Variant(l), syntax.KeepComments(keep))
		var sb bytes.Buffer
		enc := func(n syntax.Node) {
			if e := typedjson.Encode(&sb, n); e != nil {
				sb.WriteString("encode-error:" + e.Error())
			}
			sb.WriteByte(';')
		}
		var err error
		switch entry {
		case "Parse":
			var f *syntax.File
			f, err = p.Parse(rd, "")
			if f != nil {
				enc(f)
			}
		case "StmtsSeq":
			for st, e := range p.StmtsSeq(rd) {
				if e != nil {
					err = e
					break
				}
				enc(st)
			}
		case "InteractiveSeq":
			for sts, e := range p.InteractiveSeq(rd) {
				if e != nil {
					err = e
					break
				}
				for _, st := range sts {
					enc(st)
				}
			}
		case "WordsSeq":
			for w, e := range p.WordsSeq(rd) {
				if e != nil {
					err = e
					break
				}
				enc(w)
			}
		case "Document":
			var w *syntax.Word
			w, err = p.Document(rd)
			if w != nil {
				enc(w)
			}
		case "Arithmetic":
			var x syntax.ArithmExpr
			x, err = p.Arithmetic(rd)
			if x != nil {
				enc(x)
			}
		}
		out = fmt.Sprintf("err=%v out=%s", err, strings.ReplaceAll(sb.String(), "\n", ""))
	})
	if pn != "" {
		return "panic: " + pn
	}
	return out
}

// c07EntryCase compares an entry point under the given schedule with its single-read result.
// witness format: entry <name> <lang> <sched> <eofWith> <input-hex> [nokeep]
func c07EntryCase(c *Ctx, entry, src string, l syntax.LangVariant, keep bool, sched []int, eofWith bool, base string) bool {
	got := c07DumpEntry(entry, &c07Reader{data: []byte(src), sched: sched, eofWith: eofWith}, l, keep)
	if got == base {
		return true
	}
	ew := "0"
	if eofWith {
		ew = "1"
	}
	w := fmt.Sprintf("entry %s %s %s %s %s", entry, langName(l), c07SchedStr(sched), ew, hx(src))
	if !keep {
		w += " nokeep"
	}
	c.Fail(w, entry+" differs from the single-read result: "+c07First(base, got))
	return false
}

// c07PrefixBattery: inputs with special prefixes (byte order mark, parts of it, `#!` line, NUL, CR, blank
// lines, escaped newline) whose first read delivers 1, 2, 3 or 4 bytes, through every entry point.
func c07PrefixBattery(c *Ctx) {
	if c.Shard != 0 {
		return
	}
	prefixes := []string{"", "\xef\xbb\xbf", "\xef\xbb", "\xef", "\xef\xbb\xbf\xef\xbb\xbf", "#!/bin/sh\n", "\xef\xbb\xbf#!/bin/sh\n",
		"\x00", "\x00\x00\x00", "\r", "\r\n", "\n", "\n\n\n", " ", "\t \t", "\\\n", "\xc3\xa9", "# c\n"}
	bodies := map[string][]string{
		"Parse":          {"echo foo\n", "", "a=1 b; c\n"},
		"StmtsSeq":       {"echo foo\n", "", "a=1 b; c\n"},
		"InteractiveSeq": {"echo foo\n", "", "a; b\nc\n"},
		"WordsSeq":       {"foo bar\n", ""},
		"Document":       {"foo $bar\n", ""},
		"Arithmetic":     {"1+2", "a"},
	}
	scheds := [][]int{{1}, {2}, {3}, {4}, {1, 1}, {1, 2}, {2, 1}, {1, 1, 1}, {0, 1, 0, 2}}
	n := 0
	for _, entry := range c07Entries {
		for _, pre := range prefixes {
			for bi, body := range bodies[entry] {
				src := pre + body
				if src == "" {
					continue
				}
				keep := (bi+len(pre))%2 == 0
				l := allLangs[(bi+len(pre))%len(allLangs)]
				base := c07DumpEntry(entry, strings.NewReader(src), l, keep)
				for _, sc := range scheds {
					c07EntryCase(c, entry, src, l, keep, sc, false, base)
				}
				c07EntryCase(c, entry, src, l, keep, c07Ones(len(src)), false, base)
				c07EntryCase(c, entry, src, l, keep, nil, true, base)
				c07EntryCase(c, entry, src, l, keep, []int{2}, true, base)
				n++
			}
		}
	}
	c.Case("battery-prefix", true, "battery-prefix")
	c.Extra["prefix_battery_inputs"] = n
}

// c07BadTemplates: `@` is replaced by an invalid UTF-8 byte sequence.
var c07BadTemplates = []string{
	"# caf@ au lait\necho ok\n", "echo x # tail @\necho y\n", "echo a@b\n", "echo 'x@y'\n", "echo \"x@y\"\n",
	"cat <<EOF\nbody @\nEOF\n", "cat <<'EOF'\nbody @\nEOF\n", "echo $(echo @)\n", "echo `echo x # c@\n`\n",
	"echo ${x:-@}\n", "#@\n", "a=@ b\n", "echo $'x@'\n",
}

// invalid UTF-8: lone bytes 0x80–0xff, truncated sequences, overlong forms, surrogates, too large
var c07BadSeqs = []string{"\x80", "\xbf", "\xe9", "\xff", "\xfe", "\xc0", "\xc3", "\xe2\x82", "\xf0\x9f\x98",
	"\xc0\xaf", "\xc1\xbf", "\xe0\x80\xaf", "\xf0\x80\x80\xaf", "\xed\xa0\x80", "\xf4\x90\x80\x80", "\xf8\x88\x80\x80\x80"}

// c07LookaheadBattery runs, on every run, (a) the tie with a peekTwo / zshNumRange / stop-word op
// after every rune for every single split point (so that the lookahead happens with p.bsp > 0 and a
// read ending right before the byte looked at: `\` CR | LF, `@(` | `)`, `${=` | `foo}`), and
// (b) Parse for every single split, every pair of adjacent splits, one-byte and EOF-with-data.
func c07LookaheadBattery(c *Ctx) {
	if c.Shard != 0 {
		return
	}
	for _, in := range c07Lookahead {
		n := len(in.src)
		var ops []string
		for i := 0; i <= n && i < 40; i++ {
			ops = append(ops, "t", "q", "r")
		}
		ops2 := []string{"b1,1"}
		for i := 0; i <= n && i < 40; i++ {
			ops2 = append(ops2, "r", "z", "t")
		}
		for at := 1; at < n; at++ {
			for _, sc := range [][]int{{at}, {at, 1}, {at, 0, 1, 1}} {
				for _, o := range [][]string{ops, ops2} {
					ew := 0
					if at%2 == 0 {
						ew = 1
					}
					got, done := c07Run(in.src, sc, ew == 1, "", o, false)
					c.Op(fmt.Sprintf("run %s %s %d - %s", hx(in.src), c07SchedStr(sc), ew, strings.Join(done, " ")), got)
				}
			}
			got, done := c07Run(in.src, []int{at}, false, "", ops, true)
			c.Op(fmt.Sprintf("specrun %s - %s", hx(in.src), strings.Join(done, " ")), got)
		}
		c.Case("battery-tie/"+in.src, true, "battery-tie")
		for _, keep := range []bool{true, false} {
			base := c07Dump(strings.NewReader(in.src), in.lang, "", keep)
			for at := 1; at < n; at++ {
				c07ParseCase(c, in.src, in.lang, "", keep, []int{at}, false, base)
				c07ParseCase(c, in.src, in.lang, "", keep, []int{at, 1}, at%2 == 0, base)
			}
			c07ParseCase(c, in.src, in.lang, "", keep, c07Ones(n), false, base)
			c07ParseCase(c, in.src, in.lang, "", keep, nil, true, base)
		}
		c.Case("battery-parse/"+in.src, true, "battery-parse")
	}
	// invalid UTF-8 in every lexical context, with and without KeepComments: success / error (and the
	// error text with its position) must not depend on the schedule
	for _, tpl := range c07BadTemplates {
		for _, bad := range []string{"\xe9", "\xe2\x82", "\xc0\xaf"} {
			src := strings.ReplaceAll(tpl, "@", bad)
			n := len(src)
			for _, keep := range []bool{true, false} {
				base := c07Dump(strings.NewReader(src), syntax.LangBash, "", keep)
				for at := 1; at < n; at++ {
					c07ParseCase(c, src, syntax.LangBash, "", keep, []int{at}, at%2 == 0, base)
				}
				c07ParseCase(c, src, syntax.LangBash, "", keep, c07Ones(n), false, base)
			}
			c.Case("battery-badutf8/"+src, true, "battery-badutf8")
		}
	}
}

// c07NewLitBytes: since cb62b3c newLit writes the *encoding* of the rune instead of copying its bytes out
// of the read buffer.  Oracle = the source bytes: for every multi-byte rune that rune() returns, the literal
// started by newLit(r) must be exactly the bytes the rune occupied in the input (an invalid byte never gets
// here: rune() turns it into an error and returns runeEOF).
func c07NewLitBytes(c *Ctx, input string) {
	v := syntax.NewVerifLexer(&c07Reader{data: []byte(input)}, syntax.LangBash, "")
	for i := 0; i <= len(input)+1; i++ {
		r, w := v.Rune()
		if r == syntax.VerifRuneEOF {
			return
		}
		if r < 0x80 || r == syntax.VerifEscNewl {
			continue
		}
		_, _, _, raw := v.NextPos()
		v.NewLit(r)
		lit := string(v.State().Lit)
		if raw < 0 || int(raw)+w > len(input) || lit != input[raw:int(raw)+w] {
			c.Fail("newlit "+hx(input)+" "+strconv.Itoa(i), fmt.Sprintf("newLit(%U) started the literal with % x, the source has % x at offset %d", r, lit, input[raw:min(int(raw)+w, len(input))], raw))
			return
		}
		v.LitDrop()
	}
}

func c07(c *Ctx) {
	c.Rule = "tie: random byte strings over {NUL, CR, LF, CRLF, backslash, backslash-newline, backquote, $, quotes, <->, digits, " +
		"multi-byte and invalid UTF-8}, a third padded to the 1 KiB buffer edge, × random op sequences over the byte-source primitives " +
		"× schedules {single read, one byte, one split, random chunks with zero-length reads, zero reads + split at the buffer edge} " +
		"× EOF with/without the last data; spec: protocol-respecting op sequences vs the unchunked machine; search: Parse " +
		"(typedjson with positions, or error text) with and without KeepComments, of repository test inputs, generated programs and inputs with invalid UTF-8 (lone bytes, truncated, overlong) in comments/words/quotes/heredocs, padded around the buffer edge, " +
		"5 variants, optional StopAt words, one-byte / ≤64 single splits / 3 random chunkings / EOF with the last data vs single read; a fixed battery of two-byte-lookahead inputs under every split; a fixed battery of prefixes (BOM, partial BOM, #!, NUL, CR, blank lines) with a first read of 1–4 bytes through Parse, StmtsSeq, InteractiveSeq, WordsSeq, Document and Arithmetic; non-trivial = input has a metacharacter of the " +
		"byte layer or crosses the buffer edge; distinct by (variant, input)"
	for _, l := range c.CorpusLines() {
		c07Replay(c, l)
	}
	c07LookaheadBattery(c)
	c07PrefixBattery(c)
	r := c.R
	t0 := time.Now()
	defer func() { c.Extra["search_seconds"] = int(time.Since(t0).Seconds()) }()
	// ---- tie + spec streams ----
	for i := 0; i < c.N; i++ {
		input, padLen := c07Input(r, c.Thorough())
		stop := ""
		if r.Chance(25) {
			stop = r.Pick([]string{"$$", "a", "é", "\\x", "$$$$", "€", "a\n"})
		}
		eofWith := r.Chance(30)
		scheds := c07Scheds(r, len(input))
		// select the ops on the single-read schedule: panicking ops are mostly dropped
		_, ops := c07RunDrop(input, scheds[0], eofWith, stop, c07Ops(r, len(input), padLen, false), false,
			func(st syntax.VerifLexState, op string) bool { return c07Panicky(st, op) && r.Chance(93) })
		for si, sc := range scheds {
			got, done := c07Run(input, sc, eofWith, stop, ops, false)
			c.Op(fmt.Sprintf("run %s %s %s %s %s", hx(input), c07SchedStr(sc), map[bool]string{false: "0", true: "1"}[eofWith], hx(stop), strings.Join(done, " ")), got)
			if si == 0 {
				tags := []string{"tie"}
				if padLen > 0 {
					tags = append(tags, "tie-edge")
				}
				if strings.Contains(got, "!panic") {
					tags = append(tags, "tie-panic")
				}
				if strings.Contains(got, " u") {
					tags = append(tags, "tie-utf8-error")
				}
				c.Case("tie/"+input+"/"+strings.Join(ops, " "), len(input) > 0, tags...)
			}
		}
		c07NewLitBytes(c, input)
		// spec stream: protocol-respecting program, any schedule, EOF by a separate read
		sops := c07Ops(r, len(input), padLen, true)
		scs := c07Scheds(r, len(input))
		sc := scs[r.Intn(len(scs))]
		got, sdone := c07Run(input, sc, r.Chance(40), stop, sops, true)
		c.Op(fmt.Sprintf("specrun %s %s %s", hx(input), hx(stop), strings.Join(sdone, " ")), got)
		c.Case("spec/"+input+"/"+strings.Join(sops, " "), len(input) > 0, "spec")
	}
	c.Extra["tie_seconds"] = int(time.Since(t0).Seconds())
	t0 = time.Now()
	// ---- search leg ----
	seeds := repoSeeds()
	nSearch := c.N * 3 / 20
	if nSearch < 1 && c.N > 0 {
		nSearch = 1
	}
	sr := r.Fork("search")
	for i := 0; i < nSearch; i++ {
		var src string
		var tags []string
		switch sr.Intn(10) {
		case 0, 1, 2, 3:
			src = seeds[sr.Intn(len(seeds))]
			tags = append(tags, "search-seed")
		case 4, 5, 6:
			g := newProgGen(sr, sr.Bool())
			src = g.Program(1 + sr.Intn(4))
			tags = append(tags, "search-genprog")
		case 7:
			src = genFrom(sr, c07Alpha, 30)
			tags = append(tags, "search-bytes")
		default:
			// the constructs that use the lookahead primitives
			src = sr.Pick([]string{
				"echo @(a|b) *(x) ?(y) +(z) !(w)\n", "echo @() x\n", "a=(b c) d=(e)\n", "echo foo\\\r\nbar\n", "x\\\r\n",
				"echo ${=x} ${~x} ${^x} $=x\n", "echo `echo \\$x \\\\ \\`date\\``\n", "echo \"`echo \\\"a\\\"`\"\n",
				"cat <<-EOF\n\tfoo\n\tEOF\n", "echo <(ls) >(cat)\n", "echo ${#a[@]} ${a[1]//x/y}\n", "echo \x00a\x00b\n",
				"echo é€𝄞 'é' \"€\"\n", "echo \xff\n", "echo a\r\necho b\r\n", "# comment é\necho x # y\n", "echo $'a\\nb' $\"c\"\n",
				"echo 1<2 <3 2>4\n", "echo a=(1 2)\n", "[[ a =~ ^(b|c)$ ]]\n",
			}) + genFrom(sr, c07Alpha, 4)
			tags = append(tags, "search-lookahead")
		}
		if sr.Chance(12) {
			// invalid UTF-8 somewhere: inside a template context, or spliced into the drawn input
			bad := sr.Pick(c07BadSeqs)
			if sr.Bool() || len(src) == 0 {
				src = strings.ReplaceAll(sr.Pick(c07BadTemplates), "@", bad)
			} else {
				at := sr.Intn(len(src) + 1)
				src = src[:at] + bad + src[at:]
			}
			tags = append(tags, "search-badutf8")
		}
		if len(src) > 2000 {
			continue
		}
		padded, ptag := c07Pad(sr, src)
		tags = append(tags, ptag)
		if len(padded) > syntax.VerifBufSize-16 {
			tags = append(tags, "search-crosses-edge")
		}
		langs := allLangs
		if !c.Thorough() {
			langs = []syntax.LangVariant{allLangs[sr.Intn(len(allLangs))], allLangs[sr.Intn(len(allLangs))]}
		}
		stop := ""
		if sr.Chance(20) {
			stop = sr.Pick([]string{"%", "@", "}", "x", "$$", "é", "ab", "#!"})
			tags = append(tags, "search-stopat")
		}
		for _, l := range langs {
			// with KeepComments and with the default options (comments discarded) alternately
			keep := sr.Bool()
			kt := "search-keepcomments"
			if !keep {
				kt = "search-nokeep"
			}
			c07SearchInput(c, sr, padded, l, stop, keep, append(tags[:len(tags):len(tags)], kt))
		}
	}
}
