//go:build c01 || c02 || all

package main

// Shared Go layer of the L4 "syntax core" properties C01 (round trip) and C02 (idempotence):
// printer option sets, the positions-erased normalised dump `norm`, the input streams (repo
// seeds, grammar programs, layout mutations), the witness format, the delta-debugger and the
// table of recorded printer defects with their (options, tree shape) exclusion predicates.

import (
	"bytes"
	"fmt"
	"reflect"
	"sort"
	"strconv"
	"strings"

	"mvdan.cc/sh/v3/syntax"
)

// ---------------------------------------------------------------------------------------------
// printer options

type l4Opts struct {
	Indent                                                             uint
	BinNext, SwitchCase, SpaceRedir, KeepPad, FuncNext, Minify, Single bool
}

func (o l4Opts) String() string {
	s := fmt.Sprintf("i%d", o.Indent)
	for _, f := range []struct {
		on bool
		n  string
	}{{o.BinNext, "bn"}, {o.SwitchCase, "ci"}, {o.SpaceRedir, "sr"}, {o.KeepPad, "kp"}, {o.FuncNext, "fn"}, {o.Minify, "mn"}, {o.Single, "sl"}} {
		if f.on {
			s += "," + f.n
		}
	}
	return s
}

func parseL4Opts(s string) (o l4Opts, ok bool) {
	for i, p := range strings.Split(s, ",") {
		if i == 0 {
			if !strings.HasPrefix(p, "i") {
				return o, false
			}
			n, err := strconv.Atoi(p[1:])
			if err != nil || n < 0 {
				return o, false
			}
			o.Indent = uint(n)
			continue
		}
		switch p {
		case "bn":
			o.BinNext = true
		case "ci":
			o.SwitchCase = true
		case "sr":
			o.SpaceRedir = true
		case "kp":
			o.KeepPad = true
		case "fn":
			o.FuncNext = true
		case "mn":
			o.Minify = true
		case "sl":
			o.Single = true
		default:
			return o, false
		}
	}
	return o, true
}

func (o l4Opts) printer() *syntax.Printer {
	return syntax.NewPrinter(syntax.Indent(o.Indent), syntax.BinaryNextLine(o.BinNext), syntax.SwitchCaseIndent(o.SwitchCase),
		syntax.SpaceRedirects(o.SpaceRedir), syntax.KeepPadding(o.KeepPad), syntax.FunctionNextLine(o.FuncNext),
		syntax.Minify(o.Minify), syntax.SingleLine(o.Single))
}

// class is the option class used for reporting and for the per-class theorems.
func (o l4Opts) class() string {
	switch {
	case o.Minify && o.Single:
		return "minify+single"
	case o.KeepPad && o.Minify:
		return "keeppad+minify"
	case o.KeepPad && o.Single:
		return "keeppad+single"
	case o.KeepPad:
		return "keeppad"
	case o.Minify:
		return "minify"
	case o.Single:
		return "single"
	}
	return "layout"
}

// randOpts draws an option set.  The distribution is biased so that every class is frequent:
// 30 % pure layout options, 20 % Minify, 20 % SingleLine, 12 % KeepPadding (unless noKeepPad),
// rest uniformly random Booleans.
func randOpts(r *Rand, noKeepPad bool) l4Opts {
	var o l4Opts
	o.Indent = uint(r.Pick([]string{"0", "0", "0", "1", "2", "2", "3", "4", "4", "5", "6", "7", "8"})[0] - '0')
	o.BinNext, o.SwitchCase, o.SpaceRedir, o.FuncNext = r.Bool(), r.Bool(), r.Bool(), r.Bool()
	switch k := r.Intn(100); {
	case k < 30:
	case k < 50:
		o.Minify = true
	case k < 70:
		o.Single = true
	case k < 82:
		o.KeepPad = true
	default:
		o.Minify, o.Single, o.KeepPad = r.Chance(30), r.Chance(30), r.Chance(30)
	}
	if noKeepPad {
		o.KeepPad = false
	}
	return o
}

var l4DefaultOpts = l4Opts{}

// printNode prints with a fresh printer; panics are reported as a string.
func (o l4Opts) printNode(n syntax.Node) (out string, err error, panicked string) {
	var buf bytes.Buffer
	panicked = safely(func() { err = o.printer().Print(&buf, n) })
	return buf.String(), err, panicked
}

// ---------------------------------------------------------------------------------------------
// norm: positions-erased, comments-erased dump with exactly the documented cosmetic rewrites
//
//   * backquotes -> $( )            CmdSubst.Backquotes dropped
//   * $[ ] -> $(( ))                ArithmExp.Bracket dropped
//   * brace-style for -> do/done    ForClause.Braces dropped
//   * ${x} -> $x under Minify       ParamExp.Short dropped for simple expansions when minify
//   * escaped newlines              leave no trace in the tree besides positions
//   * <<- tab indentation           leading tabs of every body line of a <<- here-document dropped
//   * doubled trailing backslash    a Lit ending in an odd run of backslashes gets one more
//
// Positions are dropped, except for the three whose *validity* carries syntax the printer reads:
// WordIter.InPos (`for i` vs `for i in`), IfClause.ThenPos (elif vs else), ParamExp.Dollar
// (naked `a[i]` in arithmetic vs zsh `$a[i]`).

type normCfg struct{ minify bool }

var (
	commentType  = reflect.TypeOf(syntax.Comment{})
	stringerType = reflect.TypeOf((*fmt.Stringer)(nil)).Elem()
	wordPartType = reflect.TypeOf((*syntax.WordPart)(nil)).Elem()
)

func normDump(n syntax.Node, cfg normCfg) string {
	var sb strings.Builder
	normVal(&sb, reflect.ValueOf(n), cfg, false)
	return sb.String()
}

func paramSimple(p *syntax.ParamExp) bool {
	return p.Param != nil && p.Flags == nil && !p.Excl && !p.Length && !p.Width && !p.IsSet &&
		p.Split == syntax.OptUnset && p.GlobSubst == syntax.OptUnset && p.RcExpand == syntax.OptUnset &&
		p.NestedParam == nil && p.Index == nil && len(p.Modifiers) == 0 && p.Slice == nil &&
		p.Repl == nil && p.Names == 0 && p.Exp == nil
}

func normLitValue(s string) string {
	if n := len(s) - len(strings.TrimRight(s, `\`)); n%2 == 1 {
		return s + `\`
	}
	return s
}

// stripHdocTabs removes the tabs at the start of every line of a <<- body part; atLineStart says
// whether the part begins at a line start.
func stripHdocTabs(s string, atLineStart bool) string {
	var sb strings.Builder
	ls := atLineStart
	for i := 0; i < len(s); i++ {
		b := s[i]
		if ls && b == '\t' {
			continue
		}
		ls = b == '\n'
		sb.WriteByte(b)
	}
	return sb.String()
}

func normVal(sb *strings.Builder, v reflect.Value, cfg normCfg, dashHdoc bool) {
	switch v.Kind() {
	case reflect.Pointer, reflect.Interface:
		if v.IsNil() {
			sb.WriteString("nil")
			return
		}
		normVal(sb, v.Elem(), cfg, dashHdoc)
	case reflect.Slice:
		sb.WriteByte('[')
		if v.Type().Elem() == wordPartType {
			// adjacent literals are one literal split by an escaped newline
			first := true
			for i := 0; i < v.Len(); i++ {
				if !first {
					sb.WriteByte(' ')
				}
				first = false
				if l, ok := v.Index(i).Interface().(*syntax.Lit); ok && l != nil {
					val := l.Value
					for i+1 < v.Len() {
						l2, ok := v.Index(i + 1).Interface().(*syntax.Lit)
						if !ok || l2 == nil {
							break
						}
						val += l2.Value
						i++
					}
					if val == "" && v.Len() > 1 {
						// an empty literal next to other parts is what an escaped newline leaves
						// behind in a here-document body
						first = sb.Len() > 0 && sb.String()[sb.Len()-1] == '['
						if !first {
							s := sb.String()
							sb.Reset()
							sb.WriteString(strings.TrimSuffix(s, " "))
						}
						continue
					}
					sb.WriteString("(Lit Value=" + strconv.Quote(normLitValue(val)) + ")")
					continue
				}
				normVal(sb, v.Index(i), cfg, dashHdoc)
			}
			sb.WriteByte(']')
			return
		}
		for i := 0; i < v.Len(); i++ {
			if i > 0 {
				sb.WriteByte(' ')
			}
			normVal(sb, v.Index(i), cfg, dashHdoc)
		}
		sb.WriteByte(']')
	case reflect.String:
		sb.WriteString(strconv.Quote(v.String()))
	case reflect.Bool:
		if v.Bool() {
			sb.WriteByte('T')
		} else {
			sb.WriteByte('F')
		}
	case reflect.Uint, reflect.Uint8, reflect.Uint16, reflect.Uint32, reflect.Uint64:
		if v.Type().Implements(stringerType) {
			fmt.Fprintf(sb, "%d/%s", v.Uint(), strconv.Quote(v.Interface().(fmt.Stringer).String()))
		} else {
			fmt.Fprintf(sb, "%d", v.Uint())
		}
	case reflect.Int, reflect.Int8, reflect.Int16, reflect.Int32, reflect.Int64:
		fmt.Fprintf(sb, "%d", v.Int())
	case reflect.Struct:
		normStruct(sb, v, cfg, dashHdoc)
	default:
		fmt.Fprintf(sb, "?%s", v.Kind())
	}
}

func normStruct(sb *strings.Builder, v reflect.Value, cfg normCfg, dashHdoc bool) {
	t := v.Type()
	name := t.Name()
	sb.WriteByte('(')
	sb.WriteString(name)
	var pe *syntax.ParamExp
	if name == "ParamExp" {
		pe = v.Addr().Interface().(*syntax.ParamExp)
	}
	for i := 0; i < t.NumField(); i++ {
		f := t.Field(i)
		if !f.IsExported() {
			continue
		}
		fv := v.Field(i)
		if f.Type == posType {
			keep := (name == "WordIter" && f.Name == "InPos") || (name == "IfClause" && f.Name == "ThenPos") ||
				(pe != nil && f.Name == "Dollar" && pe.Short && pe.Index != nil)
			if keep {
				fmt.Fprintf(sb, " %s.valid=%v", f.Name, fv.Interface().(syntax.Pos).IsValid())
			}
			continue
		}
		if f.Type.Kind() == reflect.Slice && f.Type.Elem() == commentType {
			continue
		}
		switch {
		case name == "File" && f.Name == "Name",
			name == "CmdSubst" && f.Name == "Backquotes",
			name == "ArithmExp" && f.Name == "Bracket",
			name == "ForClause" && f.Name == "Braces":
			continue
		case pe != nil && f.Name == "Short" && cfg.minify && paramSimple(pe):
			continue
		}
		sb.WriteByte(' ')
		sb.WriteString(f.Name)
		sb.WriteByte('=')
		switch {
		case name == "Lit" && f.Name == "Value":
			sb.WriteString(strconv.Quote(normLitValue(fv.String())))
		case name == "Redirect" && f.Name == "Hdoc":
			op := v.FieldByName("Op").Interface().(syntax.RedirOperator)
			if !fv.IsNil() && hdocEmpty(fv.Interface().(*syntax.Word)) {
				// an empty body is nil or an empty literal depending on the indentation of the
				// closing delimiter of a <<- here-document (normDashHdoc does the same after
				// stripping tabs)
				sb.WriteString("nil")
			} else if op == syntax.DashHdoc && !fv.IsNil() {
				normDashHdoc(sb, fv.Interface().(*syntax.Word), cfg)
			} else {
				normVal(sb, fv, cfg, false)
			}
		default:
			normVal(sb, fv, cfg, false)
		}
	}
	sb.WriteByte(')')
}

func hdocEmpty(w *syntax.Word) bool {
	for _, p := range w.Parts {
		if l, ok := p.(*syntax.Lit); !ok || l.Value != "" {
			return false
		}
	}
	return true
}

// normDashHdoc dumps the body of a <<- here-document with the leading tabs of each line removed
// (the shell strips them; the printer re-indents them).
func normDashHdoc(sb *strings.Builder, w *syntax.Word, cfg normCfg) {
	// strip the tabs, then merge adjacent literals and drop empty ones
	type part struct {
		lit string
		wp  syntax.WordPart
	}
	var parts []part
	ls := true
	for _, p := range w.Parts {
		if l, ok := p.(*syntax.Lit); ok {
			s := stripHdocTabs(l.Value, ls)
			if l.Value != "" {
				ls = strings.HasSuffix(l.Value, "\n") || (ls && s == "")
			}
			if s == "" {
				continue
			}
			if n := len(parts); n > 0 && parts[n-1].wp == nil {
				parts[n-1].lit += s
			} else {
				parts = append(parts, part{lit: s})
			}
			continue
		}
		ls = false
		parts = append(parts, part{wp: p})
	}
	if len(parts) == 0 {
		sb.WriteString("nil")
		return
	}
	sb.WriteString("(HdocBody")
	for _, p := range parts {
		sb.WriteByte(' ')
		if p.wp == nil {
			sb.WriteString("(Lit Value=" + strconv.Quote(normLitValue(p.lit)) + ")")
		} else {
			normVal(sb, reflect.ValueOf(p.wp), cfg, false)
		}
	}
	sb.WriteByte(')')
}

// firstDiff renders the neighbourhood of the first difference of two dumps.
func firstDiff(a, b string) string {
	i := 0
	for i < len(a) && i < len(b) && a[i] == b[i] {
		i++
	}
	cut := func(s string) string {
		lo, hi := i-60, i+80
		if lo < 0 {
			lo = 0
		}
		if hi > len(s) {
			hi = len(s)
		}
		return s[lo:hi]
	}
	return fmt.Sprintf("want …%s… got …%s…", cut(a), cut(b))
}

// ---------------------------------------------------------------------------------------------
// cases and witnesses

type l4Case struct {
	Lang     syntax.LangVariant
	Opts     l4Opts
	Simplify bool
	Comments bool // parse with KeepComments
	Src      string
}

func (tc l4Case) witness(mode string) string {
	return fmt.Sprintf("%s l=%s o=%s s=%s c=%s src=%s", mode, tc.Lang, tc.Opts, b01(tc.Simplify), b01(tc.Comments), hx(tc.Src))
}

func b01(b bool) string {
	if b {
		return "1"
	}
	return "0"
}

func langByName(s string) (syntax.LangVariant, bool) {
	for _, l := range allLangs {
		if l.String() == s {
			return l, true
		}
	}
	return 0, false
}

// parseWitness is the inverse of witness; mode is the first token.
func parseWitness(line string) (mode string, tc l4Case, ok bool) {
	toks := strings.Fields(line)
	if len(toks) != 6 {
		return "", tc, false
	}
	mode = toks[0]
	get := func(t, k string) (string, bool) {
		if !strings.HasPrefix(t, k+"=") {
			return "", false
		}
		return t[len(k)+1:], true
	}
	l, ok1 := get(toks[1], "l")
	o, ok2 := get(toks[2], "o")
	s, ok3 := get(toks[3], "s")
	cm, ok4 := get(toks[4], "c")
	src, ok5 := get(toks[5], "src")
	if !(ok1 && ok2 && ok3 && ok4 && ok5) {
		return "", tc, false
	}
	var okl, oko bool
	tc.Lang, okl = langByName(l)
	tc.Opts, oko = parseL4Opts(o)
	if !okl || !oko {
		return "", tc, false
	}
	tc.Simplify, tc.Comments = s == "1", cm == "1"
	if p := safely(func() { tc.Src = unhx(src) }); p != "" {
		return "", tc, false
	}
	return mode, tc, true
}

func (tc l4Case) parse(src string) (*syntax.File, error, string) {
	f, err, p := parseIn(src, tc.Lang, syntax.KeepComments(tc.Comments))
	return f, err, p
}

// tree parses the case's source and applies Simplify when asked.
func (tc l4Case) tree() (*syntax.File, bool) {
	f, err, p := tc.parse(tc.Src)
	if err != nil || p != "" || f == nil {
		return nil, false
	}
	if tc.Simplify {
		if p := safely(func() { syntax.Simplify(f) }); p != "" {
			return nil, false
		}
	}
	return f, true
}

// ---------------------------------------------------------------------------------------------
// input streams

// layoutMutate rewrites the layout of a program without (intending to) change its tokens:
// `; ` <-> newline, blank lines, trailing blanks, tabs.  The result is only used if it parses.
func layoutMutate(r *Rand, src string) string {
	var sb strings.Builder
	inS, inD := false, false
	for i := 0; i < len(src); i++ {
		b := src[i]
		switch {
		case b == '\\' && !inS && i+1 < len(src):
			sb.WriteByte(b)
			i++
			sb.WriteByte(src[i])
			continue
		case b == '\'' && !inD:
			inS = !inS
		case b == '"' && !inS:
			inD = !inD
		}
		if inS || inD {
			sb.WriteByte(b)
			continue
		}
		switch {
		case b == '\n' && r.Chance(15):
			sb.WriteString("\n\n")
		case b == '\n' && r.Chance(10):
			sb.WriteString(" \n")
		case b == ' ' && r.Chance(8):
			sb.WriteString(r.Pick([]string{"  ", "\t", " \\\n", "   "}))
		case b == ';' && i+1 < len(src) && src[i+1] == ' ' && (i == 0 || src[i-1] != ';') && r.Chance(30):
			sb.WriteString("\n")
			i++
		case b == '(' && r.Chance(10):
			sb.WriteString("(\n")
		case b == ')' && r.Chance(10):
			sb.WriteString("\n)")
		case b == '|' && r.Chance(10) && i+1 < len(src) && src[i+1] == ' ':
			sb.WriteString("|\n")
		case b == '&' && i+1 < len(src) && src[i+1] == '&' && r.Chance(15):
			sb.WriteString("&&\n")
			i++
		default:
			sb.WriteByte(b)
		}
	}
	return sb.String()
}

// l4Program draws one generated program for a language variant.
func l4Program(r *Rand, lang syntax.LangVariant) (src string, kind string) {
	bash := lang == syntax.LangBash || lang == syntax.LangBats
	g := newProgGen(r, bash)
	g.Comments = r.Chance(50)
	g.Heredocs = r.Chance(50)
	g.Depth = 1 + r.Intn(4)
	src = g.Program(1 + r.Intn(4))
	kind = "gen"
	if r.Chance(12) {
		// shapes of recorded printer/parser findings and their neighbours, spliced into the program
		// so that every recorded class (and a later repair of it) stays within reach of the search
		src = l4Splice(r, lang, src)
		kind = "gen+shape"
	}
	if r.Chance(10) {
		// compound commands whose header carries a comment that is still pending when the nested
		// list starts, with bodies that start on the opener's line and span lines
		h := l4HeaderShape(r, lang)
		switch r.Intn(4) {
		case 0:
			src = h + "\n" + src
		case 1:
			src = strings.TrimRight(src, "\n") + "\n" + h + "\n"
		case 2:
			src = "{\n" + h + "\n}\n" + src
		default:
			src = h + "\n"
		}
		kind = "gen+header"
		if r.Chance(85) {
			return // keep the layout the shape was drawn with
		}
	}
	if r.Chance(40) {
		src = layoutMutate(r, src)
		kind = "gen+layout"
	}
	return
}

// l4HeaderShape draws one compound command (for / select / while / until / if / function / block /
// subshell / case item) with
//   - an optional comment where the printer still has it pending when the nested statement list
//     begins: after the loop header or condition, between a function name and its `{`, or right
//     after the opening keyword (`do`, `then`, `else`, `{`, `(`);
//   - a nested list of one statement (sometimes two) that starts on the opener's line or on the
//     next one and may span several lines: a quoted string with a newline, escaped-newline
//     continuations of arguments and redirections, a command substitution over two lines, a
//     binary command broken after its operator, a here-document;
//   - the closing keyword on the statement's last line or on a line of its own.
//
// These are the inputs of Printer.nestedStmts' decision whether the list starts on its own line.
func l4HeaderShape(r *Rand, lang syntax.LangVariant) string {
	bashLike := lang == syntax.LangBash || lang == syntax.LangBats || lang == syntax.LangZsh
	w := func() string { return []string{"a", "b", "foo", "x1", "bar"}[r.Intn(5)] }
	com := func() string {
		if r.Chance(85) {
			return " #" + []string{" c", "c", " a b", ""}[r.Intn(4)]
		}
		return ""
	}
	hdoc := false
	stmt := func() string {
		switch r.Intn(9) {
		case 0:
			return w() + " \"x\n" + w() + "\""
		case 1:
			return w() + " 'x\n" + w() + "'"
		case 2:
			return w() + " \\\n " + w()
		case 3:
			return w() + " >" + w() + " \\\n 2>" + w()
		case 4:
			return w() + " $(" + w() + "\n" + w() + ")"
		case 5:
			return w() + " &&\n " + w()
		case 6:
			return w() + " |\n " + w()
		case 7:
			hdoc = true
			return "cat <<EOF\n" + w() + "\nEOF"
		}
		return w() + " " + w()
	}
	// body(closer): the nested list and the closing keyword
	body := func(lead, closer string, semi bool) string {
		st := stmt()
		if r.Chance(12) {
			st = w() + "; " + st
		}
		if lead == "" {
			lead = []string{" ", " ", "\n", "\n\t"}[r.Intn(4)]
		}
		end := "\n" + closer
		if !hdoc && r.Chance(60) {
			if semi {
				end = "; " + closer
			} else {
				end = " " + closer
			}
		}
		return lead + st + end
	}
	n := 12
	if bashLike || lang == syntax.LangMirBSDKorn {
		n = 15
	}
	switch r.Intn(n) {
	case 0:
		return "for i in 1 2" + com() + "\ndo" + body("", "done", true)
	case 1:
		return "while " + w() + com() + "\ndo" + body("", "done", true)
	case 2:
		return "until " + w() + " " + w() + com() + "\ndo" + body("", "done", true)
	case 3:
		return w() + "()" + com() + "\n{" + body("", "}", true)
	case 4:
		return "if " + w() + com() + "\nthen" + body("", "fi", true)
	case 5:
		return "if " + w() + "; then" + com() + "\n" + body("\t", "fi", true)
	case 6:
		return "while " + w() + "; do" + com() + "\n" + body("\t", "done", true)
	case 7:
		return "{" + com() + "\n" + body("\t", "}", true)
	case 8:
		return "(" + com() + "\n" + body("\t", ")", false)
	case 9:
		return "if " + w() + "; then " + w() + "; else" + com() + "\n" + body("\t", "fi", true)
	case 10:
		return "case x in\na)" + com() + "\n" + body("\t", ";;\nesac", false)
	case 11:
		return "for i" + com() + "\ndo" + body("", "done", true)
	case 12:
		return "select i in 1 2" + com() + "\ndo" + body("", "done", true)
	case 13:
		if lang == syntax.LangMirBSDKorn {
			return "function f" + com() + "\n{" + body("", "}", true)
		}
		return "for ((i = 0; i < 2; i++))" + com() + "\ndo" + body("", "done", true)
	}
	return "function f" + com() + "\n{" + body("", "}", true)
}

// l4Splice adds one statement built from a table of layout-sensitive shapes to src: before it,
// after it, or wrapped in a block / subshell / if so that it is printed at a deeper indentation.
func l4Splice(r *Rand, lang syntax.LangVariant, src string) string {
	w := func() string { return []string{"a", "b", "x", "foo", "1", "a1"}[r.Intn(6)] }
	sign := func() string { return []string{"-", "+", "--", "++", "!", "~"}[r.Intn(6)] }
	ctl := func() string { return []string{"\v", "\f", "\t", " "}[r.Intn(4)] }
	shapes := []func() string{
		func() string { return "cat <<-EOF\n\t" + w() + ctl() + w() + "\n\tEOF" },
		func() string { return "cat <<EOF\n" + w() + ctl() + w() + "\nEOF" },
		func() string { return "echo ${" + w() + ":-\\\n" + w() + "}" },
		func() string { return "echo ${" + w() + "/x/\\\n" + w() + "}" },
		func() string { return "echo \"${" + w() + ":+\\\n" + w() + "}\"" },
		func() string { return "echo ${a: " + sign() + w() + "}" },
		func() string { return "echo ${a:1: " + sign() + w() + "}" },
		func() string { return "echo ${a:" + w() + sign() + " " + sign() + "1}" },
		func() string { return "echo $((" + sign() + " " + sign() + w() + "))" },
		func() string { return "echo $((" + w() + " " + sign() + " " + sign() + w() + "))" },
		func() string { return "let a=1+\\\n2" },
		func() string { return "let " + w() + "=" + sign() + "\\\n" + w() + " b=2" },
		func() string { return "cat <<EOF >$(a\nb)\nbody\nEOF" },
		func() string { return "cat <<EOF | b $(\n)\nbody\nEOF" },
		func() string { return "cat <<'EOF'; echo \"a\nb\"\nbody\nEOF" },
		func() string { return "cat <" + w() + "<(b)" },
		func() string { return "echo $(a)<(b) " + w() + ">(c)" },
		func() string { return "echo $`cmd` " + w() + "$`c`" },
		func() string { return "echo " + w() + "\\\r \n" + w() },
		func() string { return "((" + w() + "\n)) && " + w() },
		func() string { return "[[ " + w() + "\n]] && " + w() },
	}
	if lang == syntax.LangZsh {
		shapes = append(shapes,
			func() string { return "echo ${x:$" + w() + "} ${x:1:$" + w() + "}" },
			func() string { return "( () { " + w() + "; } )" },
			func() string { return "echo $( () { " + w() + "; } )" },
			func() string { return "( () " + w() + " )" },
			func() string { return w() + " > !" + w() + " >> !1" },
			func() string { return w() + " > (0)" },
			func() string { return "echo 1 $?[ab] \"$#[1]\"" },
			func() string { return "$ <<E (f)\nE" },
			func() string { return "echo `\"$#\\$\"`" },
		)
	}
	if lang == syntax.LangMirBSDKorn {
		shapes = append(shapes, func() string { return "case x { a) b ;; }" })
	}
	st := shapes[r.Intn(len(shapes))]()
	switch r.Intn(6) {
	case 0:
		return st + "\n" + src
	case 1:
		return "{\n" + st + "\n}\n" + src
	case 2:
		return "(\n" + st + "\n)\n" + src
	case 3:
		return "if " + w() + "; then\n" + st + "\nfi\n" + src
	case 4:
		return strings.TrimRight(src, "\n") + "\n" + st + "\n"
	}
	return strings.TrimRight(src, "\n") + "\nf() {\n" + st + "\n}\n"
}

// ---------------------------------------------------------------------------------------------
// delta debugging on source text

// ddmin shrinks src while pred(src) stays true.  Chunk removal at decreasing granularity, then a
// few token simplifications.  budget bounds the number of predicate calls.
func ddmin(src string, pred func(string) bool, budget int) string {
	calls := 0
	try := func(s string) bool {
		if calls >= budget {
			return false
		}
		calls++
		return pred(s)
	}
	cur := src
	for n := 2; len(cur) >= 2; {
		chunk := (len(cur) + n - 1) / n
		reduced := false
		for start := 0; start < len(cur); start += chunk {
			end := start + chunk
			if end > len(cur) {
				end = len(cur)
			}
			cand := cur[:start] + cur[end:]
			if cand != "" && try(cand) {
				cur = cand
				reduced = true
				if n > 2 {
					n--
				}
				break
			}
		}
		if calls >= budget {
			break
		}
		if !reduced {
			if chunk == 1 {
				break
			}
			n *= 2
			if n > len(cur) {
				n = len(cur)
			}
		}
	}
	// canonical renaming: shorten words
	for _, rep := range [][2]string{{"echo", ":"}, {"printf", ":"}, {"true", ":"}, {"false", ":"}, {"foo", "a"}, {"bar", "b"}, {"\t", " "}, {"  ", " "}} {
		if strings.Contains(cur, rep[0]) {
			if cand := strings.ReplaceAll(cur, rep[0], rep[1]); try(cand) {
				cur = cand
			}
		}
	}
	return cur
}

// ---------------------------------------------------------------------------------------------
// tree-shape helpers for the exclusion predicates

type shape struct {
	f     *syntax.File
	types map[string]int
}

func shapeOf(f *syntax.File) *shape {
	s := &shape{f: f, types: map[string]int{}}
	syntax.Walk(f, func(n syntax.Node) bool {
		if n != nil {
			s.types[typeName(n)]++
		}
		return true
	})
	return s
}

func (s *shape) has(t string) bool { return s.types[t] > 0 }

// any reports whether pred holds for some node.
func (s *shape) any(pred func(n syntax.Node) bool) bool {
	found := false
	safely(func() {
		syntax.Walk(s.f, func(n syntax.Node) bool {
			if found {
				return false
			}
			if n != nil && pred(n) {
				found = true
				return false
			}
			return true
		})
	})
	return found
}

// anyBelow reports whether pred holds for some node at or below root.
func anyBelow(root syntax.Node, pred func(n syntax.Node) bool) bool {
	found := false
	safely(func() {
		syntax.Walk(root, func(n syntax.Node) bool {
			if !found && n != nil && pred(n) {
				found = true
			}
			return !found
		})
	})
	return found
}

func sortedKeys(m map[string]int) []string {
	ks := make([]string, 0, len(m))
	for k := range m {
		ks = append(ks, k)
	}
	sort.Strings(ks)
	return ks
}

// hasHeredoc reports whether any redirect below n is a here-document.
func hasHeredoc(n syntax.Node) bool {
	found := false
	if n == nil || reflect.ValueOf(n).IsNil() {
		return false
	}
	syntax.Walk(n, func(x syntax.Node) bool {
		if r, ok := x.(*syntax.Redirect); ok && (r.Op == syntax.Hdoc || r.Op == syntax.DashHdoc) {
			found = true
		}
		return !found
	})
	return found
}

// ---------------------------------------------------------------------------------------------
// Recorded defects (known-findings.jsonl): exclusion predicates on (options, tree shape).
// Each predicate is documented next to it; a case matching one is skipped and counted under
// `excluded:<id>`; everything else is still checked, so a different failure is still reported.

// stmtLists calls fn for every statement list of the tree (in Walk order).
func stmtLists(n syntax.Node, fn func(stmts []*syntax.Stmt)) {
	safely(func() {
		syntax.Walk(n, func(x syntax.Node) bool {
			switch x := x.(type) {
			case *syntax.File:
				fn(x.Stmts)
			case *syntax.Block:
				fn(x.Stmts)
			case *syntax.Subshell:
				fn(x.Stmts)
			case *syntax.CmdSubst:
				fn(x.Stmts)
			case *syntax.ProcSubst:
				fn(x.Stmts)
			case *syntax.IfClause:
				fn(x.Cond)
				fn(x.Then)
			case *syntax.WhileClause:
				fn(x.Cond)
				fn(x.Do)
			case *syntax.ForClause:
				fn(x.Do)
			case *syntax.CaseItem:
				fn(x.Stmts)
			}
			return true
		})
	})
}

// hdocBodyStart: the source offset at which the body of r starts (for an empty body: the offset
// of the delimiter line), -1 when unknown.
func hdocBodyStart(src string, r *syntax.Redirect) int {
	if r.Hdoc != nil && len(r.Hdoc.Parts) > 0 {
		return int(r.Hdoc.Pos().Offset())
	}
	if r.Word == nil {
		return -1
	}
	delim := ""
	var lit func(ps []syntax.WordPart) bool
	lit = func(ps []syntax.WordPart) bool {
		for _, p := range ps {
			switch x := p.(type) {
			case *syntax.Lit:
				delim += strings.ReplaceAll(x.Value, "\\", "")
			case *syntax.SglQuoted:
				delim += x.Value
			case *syntax.DblQuoted:
				if !lit(x.Parts) {
					return false
				}
			default:
				return false
			}
		}
		return true
	}
	if !lit(r.Word.Parts) || delim == "" {
		return -1
	}
	from := int(r.Word.End().Offset())
	if from > len(src) {
		return -1
	}
	for i := from; i < len(src); i++ {
		if src[i] != '\n' {
			continue
		}
		line := src[i+1:]
		if j := strings.IndexByte(line, '\n'); j >= 0 {
			line = line[:j]
		}
		if r.Op == syntax.DashHdoc {
			line = strings.TrimLeft(line, "\t")
		}
		if line == delim {
			return i + 1
		}
	}
	return -1
}

func hdocDelimQuoted(w *syntax.Word) bool {
	for _, p := range w.Parts {
		l, ok := p.(*syntax.Lit)
		if !ok || strings.Contains(l.Value, "\\") {
			return true
		}
	}
	return false
}

func looksLikeAssign(w *syntax.Word) bool {
	if len(w.Parts) == 0 {
		return false
	}
	l, ok := w.Parts[0].(*syntax.Lit)
	if !ok {
		return false
	}
	i := 0
	for i < len(l.Value) && (l.Value[i] == '_' || l.Value[i] >= 'a' && l.Value[i] <= 'z' || l.Value[i] >= 'A' && l.Value[i] <= 'Z' || i > 0 && l.Value[i] >= '0' && l.Value[i] <= '9') {
		i++
	}
	if i == 0 || i >= len(l.Value) {
		return false
	}
	rest := l.Value[i:]
	return rest[0] == '=' || strings.HasPrefix(rest, "+=") || rest[0] == '['
}

// arithFirst returns the first byte the printer writes for an arithmetic expression (0 = unknown).
func arithFirst(x syntax.ArithmExpr) byte {
	switch x := x.(type) {
	case *syntax.Word:
		if len(x.Parts) > 0 {
			if l, ok := x.Parts[0].(*syntax.Lit); ok && l.Value != "" {
				return l.Value[0]
			}
		}
	case *syntax.BinaryArithm:
		return arithFirst(x.X)
	case *syntax.UnaryArithm:
		if x.Post {
			return arithFirst(x.X)
		}
		return x.Op.String()[0]
	case *syntax.ParenArithm:
		return '('
	}
	return 0
}

// arithGlue reports whether printing x glues two sign characters into another operator:
// a prefix + - ++ -- applied to an operand that starts with the same sign (every mode: the
// printer never separates a unary operator from its operand), or — when compact, i.e. under
// Minify, in ${a:off:len} and in comma subscripts — a binary operator ending in + or - followed
// by an operand starting with the same sign.
func arithGlue(x syntax.ArithmExpr, compact bool) bool {
	switch x := x.(type) {
	case *syntax.BinaryArithm:
		if compact {
			op := x.Op.String()
			if c := op[len(op)-1]; (c == '+' || c == '-') && arithFirst(x.Y) == c {
				return true
			}
		}
		return arithGlue(x.X, compact) || arithGlue(x.Y, compact)
	case *syntax.UnaryArithm:
		if !x.Post {
			if c := x.Op.String()[0]; (c == '+' || c == '-') && arithFirst(x.X) == c {
				return true
			}
		}
		return arithGlue(x.X, compact)
	case *syntax.ParenArithm:
		return arithGlue(x.X, false) // the printer resets compact inside parentheses
	case *syntax.FlagsArithm:
		if x.X != nil {
			return arithGlue(x.X, compact)
		}
	}
	return false
}

// anyArithGlue walks every arithmetic expression root of the tree.
func anyArithGlue(sh *shape, minify bool) bool {
	return sh.any(func(n syntax.Node) bool {
		switch x := n.(type) {
		case *syntax.ArithmExp:
			return x.X != nil && arithGlue(x.X, minify)
		case *syntax.ArithmCmd:
			return x.X != nil && arithGlue(x.X, minify)
		case *syntax.LetClause:
			for _, e := range x.Exprs {
				if arithGlue(e, true) {
					return true
				}
			}
		case *syntax.CStyleLoop:
			for _, e := range []syntax.ArithmExpr{x.Init, x.Cond, x.Post} {
				if e != nil && arithGlue(e, minify) {
					return true
				}
			}
		case *syntax.ParamExp:
			if x.Index != nil {
				b, ok := x.Index.(*syntax.BinaryArithm)
				if arithGlue(x.Index, minify || (ok && b.Op == syntax.Comma)) {
					return true
				}
			}
			if x.Slice != nil {
				if x.Slice.Offset != nil && arithGlue(x.Slice.Offset, true) {
					return true
				}
				if x.Slice.Length != nil && arithGlue(x.Slice.Length, true) {
					return true
				}
			}
		case *syntax.Assign:
			if x.Index != nil && arithGlue(x.Index, minify) {
				return true
			}
		case *syntax.ArrayElem:
			if x.Index != nil && arithGlue(x.Index, minify) {
				return true
			}
		}
		return false
	})
}

func containsType(n syntax.Node, t string) bool {
	found := false
	if n == nil || reflect.ValueOf(n).IsNil() {
		return false
	}
	safely(func() {
		syntax.Walk(n, func(x syntax.Node) bool {
			if x != nil && typeName(x) == t {
				found = true
			}
			return !found
		})
	})
	return found
}

// ---------------------------------------------------------------------------------------------
// failures and statistics shared by c01.go and c02.go

type l4Fail struct {
	Kind   string // print-panic | print-error | no-refusal | reparse-error | reparse-panic | tree-diff | count
	Mode   string // file | stmt#k | cmd#k | word#k
	Detail string
}

func (f *l4Fail) String() string { return f.Mode + ": " + f.Kind + ": " + f.Detail }

type l4Stats struct {
	unparseable int
	excluded    map[string]int
	subnodes    int
	reported    map[string]bool
	failKinds   map[string]int
}

func newL4Stats() *l4Stats {
	return &l4Stats{excluded: map[string]int{}, reported: map[string]bool{}, failKinds: map[string]int{}}
}

func (st *l4Stats) export(c *Ctx) {
	c.Extra["unparseable_skipped"] = st.unparseable
	c.Extra["subnodes_printed"] = st.subnodes
	for k, v := range st.excluded {
		c.Extra["excluded:"+k] = v
	}
	for k, v := range st.failKinds {
		c.Extra["fail:"+k] = v
	}
}

func clip(s string, n int) string {
	if len(s) > n {
		return s[:n] + "…"
	}
	return s
}

// ---------------------------------------------------------------------------------------------
// Recorded printer defects (known-findings.jsonl, property C01): exclusion predicates on
// (options, tree shape).  A case matching a predicate is skipped (counted under `excluded:<id>`).

func c01Excluded(tc l4Case, f *syntax.File, sh *shape) string {
	o := tc.Opts
	if o.Minify && o.Single {
		return "" // only the refusal is checked
	}
	// Repaired in /repo by fix: commits (witnesses replayed from corpus/C01-fixed.txt, no exclusion
	// any more): comment-backslash-newline, single-missing-semicolon, stale-wrotesemi-keyword,
	// dashhdoc-inner-tab, minify-last-case-op, tabwriter-vt-ff, zsh-minify-short-subscript,
	// minify-empty-block, command-first-newline, zsh-special-param-subscript, dashhdoc-vt-ff,
	// slice-offset-incdec, zsh-subshell-anon-func, and (by the parser fix a243c26: here-document
	// bodies are read after a buried newline) single-heredoc-buried, heredoc-pipe-test-let; zsh-modifier-tab (8504266).
	// C01-single-heredoc-nested (root cause in the parser): SingleLine defers a here-document body
	// to the next forced newline; when that newline is inside a later ( ), $( ), <( ) or case the
	// parser does not read the body there.  (The `[[ ]]` / let face was repaired by a243c26.)
	if o.Single && hasHeredoc(f) && (sh.has("CaseClause") || sh.has("Subshell") || sh.has("CmdSubst") || sh.has("ProcSubst")) {
		return "C01-single-heredoc-nested"
	}
	// C01-single-heredoc-in-heredoc: SingleLine prints a command substitution inside a
	// here-document body on one line, so a here-document inside it is flushed after the outer
	// delimiter.
	if o.Single && sh.any(func(n syntax.Node) bool {
		r, ok := n.(*syntax.Redirect)
		return ok && r.Hdoc != nil && hasHeredoc(r.Hdoc)
	}) {
		return "C01-single-heredoc-in-heredoc"
	}
	// C01-quoted-heredoc-backslash-newline: when the body of a here-document starts more than one
	// line below the printer's current line (escaped newline after the operator that the printer
	// drops; other bodies in between when a node is printed on its own), wordParts(quoted=true)
	// pads the gap with backslash-newlines *inside* the body — literal text if the delimiter is
	// quoted.  Over-approximated on the tree: body line > delimiter word line + 1.
	if sh.any(func(n syntax.Node) bool {
		r, ok := n.(*syntax.Redirect)
		return ok && r.Hdoc != nil && hdocDelimQuoted(r.Word) && r.Hdoc.Pos().Line() > r.Word.End().Line()+1
	}) {
		return "C01-quoted-heredoc-backslash-newline"
	}
	// C01-mksh-case-braces: `case x { … }` is printed as `case x in … esac` (Braces lost; by design,
	// not in the documented list).
	if sh.any(func(n syntax.Node) bool { cc, ok := n.(*syntax.CaseClause); return ok && cc.Braces }) {
		return "C01-mksh-case-braces"
	}
	// C01-procsubst-word-split: inside a word, a process substitution after a part that leaves
	// wantSpace=spaceRequired (anything but a literal or single quotes; literals do not clear it)
	// gets a space in front.
	if sh.any(func(n syntax.Node) bool {
		w, ok := n.(*syntax.Word)
		if !ok {
			return false
		}
		for i, p := range w.Parts {
			if _, ok := p.(*syntax.ProcSubst); ok && i > 0 {
				for _, q := range w.Parts[:i] {
					switch q.(type) {
					case *syntax.Lit, *syntax.SglQuoted:
					default:
						return true
					}
				}
			}
		}
		return false
	}) || sh.any(func(n syntax.Node) bool {
		// a redirection's word starts with wantSpace=spaceRequired, which literals do not clear
		r, ok := n.(*syntax.Redirect)
		if !ok || r.Word == nil {
			return false
		}
		for i, p := range r.Word.Parts {
			if _, ok := p.(*syntax.ProcSubst); ok && i > 0 {
				return true
			}
		}
		return false
	}) {
		return "C01-procsubst-word-split"
	}
	// C01-binnext-heredoc-nested: with a body pending, BinaryNextLine keeps the right operand on the
	// operator's line, and the first newline — where the printer writes the body — is then inside
	// the operand's ( ), $( ), <( ) or case.
	if o.BinNext && sh.any(func(n syntax.Node) bool {
		b, ok := n.(*syntax.BinaryCmd)
		if !ok || !hasHeredoc(b.X) {
			return false
		}
		for _, t := range []string{"Subshell", "CmdSubst", "ProcSubst", "CaseClause"} {
			if containsType(b.Y, t) {
				return true
			}
		}
		return false
	}) {
		return "C01-binnext-heredoc-nested"
	}
	// C01-function-word-body: zsh `function` NEWLINE `b` is parsed as an anonymous function
	// (no name) whose body is the simple command `b`; it is printed `function b`, which reads as the
	// header of a function named b.  Likewise `function f` NEWLINE `b` prints `function f b` (two
	// names; in bash/bats/mksh, where `function f` NEWLINE `b` is accepted too, a reparse error).
	if sh.any(func(n syntax.Node) bool {
		fd, ok := n.(*syntax.FuncDecl)
		if !ok || !fd.RsrvWord || fd.Parens || fd.Body == nil {
			return false
		}
		_, isBlock := fd.Body.Cmd.(*syntax.Block)
		return !isBlock
	}) {
		return "C01-function-word-body"
	}
	// C01-dashhdoc-nested-string-indent: with tab indentation the body of a <<- here-document is
	// re-indented line by line, also the lines *inside* a quoted string, an escaped newline or a
	// here-document nested in a command substitution / parameter expansion of the body: the tabs
	// land inside the string (or in front of the inner delimiter) and are not stripped there.
	if o.Indent == 0 && !o.Minify && sh.any(func(n syntax.Node) bool {
		r, ok := n.(*syntax.Redirect)
		if !ok || r.Op != syntax.DashHdoc || r.Hdoc == nil {
			return false
		}
		for _, part := range r.Hdoc.Parts {
			if _, isLit := part.(*syntax.Lit); isLit {
				continue
			}
			if anyBelow(part, func(m syntax.Node) bool {
				switch x := m.(type) {
				case *syntax.SglQuoted:
					return strings.Contains(x.Value, "\n")
				case *syntax.Lit:
					return strings.Contains(x.Value, "\n")
				case *syntax.Redirect:
					return x.Hdoc != nil
				}
				return false
			}) {
				return true
			}
		}
		return false
	}) {
		return "C01-dashhdoc-nested-string-indent"
	}
	// C01-hdoc-delim-tab: an escaped tab (vertical tab, form feed) in an unquoted here-document
	// delimiter: the closing delimiter line is written with the raw control character, which
	// text/tabwriter turns into a blank, so the body is never closed.
	if sh.any(func(n syntax.Node) bool {
		r, ok := n.(*syntax.Redirect)
		if !ok || (r.Op != syntax.Hdoc && r.Op != syntax.DashHdoc) || r.Word == nil {
			return false
		}
		for _, part := range r.Word.Parts {
			if l, ok := part.(*syntax.Lit); ok && strings.ContainsAny(l.Value, "\t\v\f") {
				return true
			}
		}
		return false
	}) {
		return "C01-hdoc-delim-tab"
	}
	// C01-dashhdoc-escaped-newline: an escaped newline inside the body of an unquoted <<-
	// here-document is re-created by the printer, and with tab indentation the continuation line
	// is indented with tabs that are not stripped (they are not at the start of a logical line).
	if o.Indent == 0 && !o.Minify && sh.any(func(n syntax.Node) bool {
		r, ok := n.(*syntax.Redirect)
		if !ok || r.Op != syntax.DashHdoc || r.Hdoc == nil {
			return false
		}
		for i := 0; i+1 < len(r.Hdoc.Parts); i++ {
			_, ok1 := r.Hdoc.Parts[i].(*syntax.Lit)
			_, ok2 := r.Hdoc.Parts[i+1].(*syntax.Lit)
			if ok1 && ok2 {
				return true
			}
		}
		return false
	}) {
		return "C01-dashhdoc-escaped-newline"
	}
	// C01-heredoc-then-multiline-subst: a here-document is pending and a command/process
	// substitution later on the same line gets a newline inside (it spans lines, holds two
	// statements, holds a function under FunctionNextLine, or — Minify — rightParen asks for one
	// whenever a here-document is pending): the pending body is flushed inside the substitution.
	if hasHeredoc(f) && !o.Single && sh.any(func(n syntax.Node) bool {
		owner, ok := n.(*syntax.Stmt)
		if !ok {
			return false
		}
		var r *syntax.Redirect
		for _, x := range owner.Redirs {
			if x.Op == syntax.Hdoc || x.Op == syntax.DashHdoc {
				r = x
			}
		}
		if r == nil {
			return false
		}
		return sh.any(func(m syntax.Node) bool {
			if nodeWithin(owner, m) {
				// the printer moves the here-document behind the words of its own command, but a
				// redirection that follows the operator stays behind it (`cat <<EOF >$(a` NEWLINE `b)`)
				later := false
				for _, x := range owner.Redirs {
					if x != r && x.Word != nil && x.OpPos.After(r.OpPos) && nodeWithin(x.Word, m) {
						later = true
					}
				}
				if !later {
					return false
				}
			}
			var left, right syntax.Pos
			var nst int
			switch c := m.(type) {
			case *syntax.CmdSubst:
				left, right, nst = c.Left, c.Right, len(c.Stmts)
			case *syntax.ProcSubst:
				left, right, nst = c.OpPos, c.Rparen, len(c.Stmts)
			default:
				return false
			}
			sameLine := left.Line() == r.OpPos.Line()
			if !sameLine {
				// or it starts before the body of the here-document: then no newline between the
				// operator and the substitution was one the parser read bodies at (line breaks
				// inside $(( )), buried constructs …), and the printer may join those lines
				if bs := hdocBodyStart(tc.Src, r); bs >= 0 && int(left.Offset()) < bs {
					sameLine = true
				}
			}
			if !sameLine {
				// or the substitution is in the right operand of a binary command that starts on
				// the operator's line (escaped newlines in between are dropped by the printer)
				sameLine = sh.any(func(bn syntax.Node) bool {
					b, ok := bn.(*syntax.BinaryCmd)
					return ok && b.Y.Pos().Line() <= r.OpPos.Line() && nodeWithin(b.X, owner) && nodeWithin(b.Y, m)
				})
			}
			return left.After(r.OpPos) && sameLine &&
				(right.Line() > left.Line() || nst > 1 || o.Minify || (o.FuncNext && containsType(m, "FuncDecl")))
		})
	}) {
		return "C01-heredoc-then-multiline-subst"
	}
	// C01-zsh-redirect-paren-word: zsh `> (0)` (redirection to a word starting with a parenthesis)
	// is printed `>(0)`, a process substitution.
	if tc.Lang == syntax.LangZsh && !o.SpaceRedir && sh.any(func(n syntax.Node) bool {
		r, ok := n.(*syntax.Redirect)
		if !ok || r.Word == nil || len(r.Word.Parts) == 0 || (r.Op != syntax.RdrOut && r.Op != syntax.RdrIn) {
			return false
		}
		l, ok := r.Word.Parts[0].(*syntax.Lit)
		return ok && strings.HasPrefix(l.Value, "(")
	}) {
		return "C01-zsh-redirect-paren-word"
	}
	// C01-zsh-redirect-bang-word: zsh `> !1` is printed `>!1`; `>!` `>>!` `>&!` `&>!` `&>>!` are the
	// zsh spellings of the clobbering operators.
	if tc.Lang == syntax.LangZsh && !o.SpaceRedir && sh.any(func(n syntax.Node) bool {
		r, ok := n.(*syntax.Redirect)
		if !ok || r.Word == nil || len(r.Word.Parts) == 0 {
			return false
		}
		switch r.Op {
		case syntax.RdrOut, syntax.AppOut, syntax.DplOut, syntax.RdrAll, syntax.AppAll:
		default:
			return false
		}
		l, ok := r.Word.Parts[0].(*syntax.Lit)
		return ok && strings.HasPrefix(l.Value, "!")
	}) {
		return "C01-zsh-redirect-bang-word"
	}
	// C01-zsh-dollar-hash-backquote-escape (root cause in the parser): inside backquotes the zsh
	// `$#name` look-ahead sees the raw backslash of `\$`, so `$#\$` is `$#` + `$…`; printed in
	// `$( )` form it is `$#$…`, the length of `$$`.
	if tc.Lang == syntax.LangZsh && strings.Contains(tc.Src, "#\\$") && sh.any(func(n syntax.Node) bool {
		cs, ok := n.(*syntax.CmdSubst)
		if !ok || !cs.Backquotes {
			return false
		}
		return anyBelow(cs, func(m syntax.Node) bool {
			var parts []syntax.WordPart
			switch x := m.(type) {
			case *syntax.Word:
				parts = x.Parts
			case *syntax.DblQuoted:
				parts = x.Parts
			}
			for i, p := range parts {
				pe, ok := p.(*syntax.ParamExp)
				if !ok || !pe.Short || pe.Length || pe.Param == nil || pe.Param.Value != "#" || i+1 >= len(parts) {
					continue
				}
				switch y := parts[i+1].(type) {
				case *syntax.Lit:
					if strings.HasPrefix(y.Value, "$") {
						return true
					}
				case *syntax.ParamExp, *syntax.CmdSubst, *syntax.ArithmExp:
					return true
				}
			}
			return false
		})
	}) {
		return "C01-zsh-dollar-hash-backquote-escape"
	}
	// C01-zsh-paren-arg-after-redirect (root cause in the parser): zsh reads `(f)` as an argument
	// word after a redirection, but `name (f)` as a function declaration; the printer moves
	// here-document operators behind the arguments, and a command printed on its own has no
	// redirections at all.
	if tc.Lang == syntax.LangZsh && sh.any(func(n syntax.Node) bool {
		c, ok := n.(*syntax.CallExpr)
		if !ok || len(c.Args) < 2 || len(c.Args[1].Parts) == 0 {
			return false
		}
		l, ok := c.Args[1].Parts[0].(*syntax.Lit)
		return ok && strings.HasPrefix(l.Value, "(")
	}) {
		return "C01-zsh-paren-arg-after-redirect"
	}
	// C01-paramexp-word-escaped-newline: a word inside ${a:-…} / ${a/x/…} that starts on a later
	// line than the operator (escaped newline in the source) is printed after backslash-newline
	// plus indentation (and a blank), and inside ${ } those bytes belong to the word.
	if !o.Single && sh.any(func(n syntax.Node) bool {
		pe, ok := n.(*syntax.ParamExp)
		if !ok || pe.Param == nil {
			return false
		}
		line := pe.Param.End().Line()
		later := func(w *syntax.Word) bool { return w != nil && len(w.Parts) > 0 && w.Pos().Line() > line }
		if pe.Exp != nil && later(pe.Exp.Word) {
			return true
		}
		if pe.Repl != nil && (later(pe.Repl.Orig) || later(pe.Repl.With)) {
			return true
		}
		return false
	}) {
		return "C01-paramexp-word-escaped-newline"
	}
	// C01-let-escaped-newline: an escaped newline inside one expression of `let` is printed as
	// blank + backslash + newline, and the blank ends the expression (`let a=1+ \`).
	if !o.Single && sh.any(func(n syntax.Node) bool {
		lc, ok := n.(*syntax.LetClause)
		if !ok {
			return false
		}
		for _, e := range lc.Exprs {
			line := e.Pos().Line()
			if anyBelow(e, func(m syntax.Node) bool { return m.Pos().IsValid() && m.Pos().Line() > line }) {
				return true
			}
		}
		return false
	}) {
		return "C01-let-escaped-newline"
	}
	// C01-zsh-simplify-slice-modifier (root cause in Simplify, C04's ground): Simplify turns the
	// slice offset `$a` of zsh ${x:$a} into the bare name `a`, and ${x:a} is the modifier `:a`.
	if tc.Lang == syntax.LangZsh && tc.Simplify && sh.any(func(n syntax.Node) bool {
		pe, ok := n.(*syntax.ParamExp)
		if !ok || pe.Slice == nil {
			return false
		}
		bare := func(x syntax.ArithmExpr) bool {
			w, ok := x.(*syntax.Word)
			if !ok || len(w.Parts) != 1 {
				return false
			}
			l, ok := w.Parts[0].(*syntax.Lit)
			return ok && syntax.ValidName(l.Value)
		}
		return bare(pe.Slice.Offset)
	}) {
		return "C01-zsh-simplify-slice-modifier"
	}
	// C01-escaped-cr-before-newline: a word ending in backslash + carriage return printed at the
	// end of a line makes `\` CR LF, which the lexer reads as an escaped newline.
	if strings.Contains(tc.Src, "\\\r") && sh.any(func(n syntax.Node) bool {
		l, ok := n.(*syntax.Lit)
		return ok && strings.HasSuffix(l.Value, "\\\r")
	}) {
		return "C01-escaped-cr-before-newline"
	}
	// C01-arith-sign-glue: `- -a`, `+ +a`, `- --a` print as `--a`, `++a`, `---a`; compact
	// printing (Minify, ${a:x:y}) also glues `a - -b` into `a--b`.
	if anyArithGlue(sh, o.Minify) {
		return "C01-arith-sign-glue"
	}
	// C01-dollar-backquote: a literal ending in `$` (or zsh `$#`) followed by a backquoted
	// substitution prints as `$$(` / `$#$(`, which re-parses as the parameter `$$` / `${#$}`.
	if sh.any(func(n syntax.Node) bool {
		var parts []syntax.WordPart
		switch x := n.(type) {
		case *syntax.Word:
			parts = x.Parts
		case *syntax.DblQuoted:
			parts = x.Parts
		}
		for i, p := range parts {
			if cs, ok := p.(*syntax.CmdSubst); ok && cs.Backquotes && i > 0 {
				if l, ok := parts[i-1].(*syntax.Lit); ok && strings.HasSuffix(l.Value, "$") {
					return true
				}
				if pe, ok := parts[i-1].(*syntax.ParamExp); ok && tc.Lang == syntax.LangZsh && pe.Short && pe.Param != nil && pe.Param.Value == "#" {
					return true
				}
			}
		}
		return false
	}) {
		return "C01-dollar-backquote"
	}
	// C01-funcdecl-leading-redirect: a redirection written before a function declaration is
	// printed after the body and re-parses as a redirection of the body.
	if sh.any(func(n syntax.Node) bool {
		st, ok := n.(*syntax.Stmt)
		if !ok || len(st.Redirs) == 0 {
			return false
		}
		_, isFn := st.Cmd.(*syntax.FuncDecl)
		return isFn
	}) {
		return "C01-funcdecl-leading-redirect"
	}
	// C01-coproc-name-assign (root cause in the parser): `coproc w a=` / `coproc a=` — the word
	// first taken as the coproc name is pushed back as a call argument although an assignment
	// follows or the word itself has assignment form.
	if sh.any(func(n syntax.Node) bool {
		cc, ok := n.(*syntax.CoprocClause)
		if !ok || cc.Name != nil || cc.Stmt == nil {
			return false
		}
		ce, ok := cc.Stmt.Cmd.(*syntax.CallExpr)
		if !ok || len(ce.Args) == 0 {
			return false
		}
		return len(ce.Assigns) > 0 || looksLikeAssign(ce.Args[0])
	}) {
		return "C01-coproc-name-assign"
	}
	return ""
}

// nodeWithin reports whether m is root or a descendant of root.
func nodeWithin(root, m syntax.Node) bool {
	found := false
	safely(func() {
		syntax.Walk(root, func(x syntax.Node) bool {
			if x == m {
				found = true
			}
			return !found
		})
	})
	return found
}

type subnode struct {
	mode string
	node syntax.Node
}

// subnodesOf lists every Stmt, every Stmt.Cmd and every CallExpr argument word, in Walk order.
func subnodesOf(f *syntax.File) []subnode {
	var out []subnode
	ns, nc, nw := 0, 0, 0
	safely(func() {
		syntax.Walk(f, func(n syntax.Node) bool {
			switch n := n.(type) {
			case *syntax.Stmt:
				out = append(out, subnode{fmt.Sprintf("stmt#%d", ns), n})
				ns++
				if n.Cmd != nil {
					out = append(out, subnode{fmt.Sprintf("cmd#%d", nc), n.Cmd})
					nc++
				}
			case *syntax.CallExpr:
				for _, w := range n.Args {
					out = append(out, subnode{fmt.Sprintf("word#%d", nw), w})
					nw++
				}
			}
			return true
		})
	})
	return out
}
