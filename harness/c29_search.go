//go:build c29 || all

package main

import (
	"bytes"
	"context"
	"fmt"
	"io"
	"os"
	"strings"
	"sync"
	"time"

	"mvdan.cc/sh/v3/expand"
	"mvdan.cc/sh/v3/interp"
	"mvdan.cc/sh/v3/syntax"
)

// ---- the property itself on the implementation --------------------------------------------------
//
// For a program P (parsed once): observe the tree (typed JSON, printed form, deep memory snapshot)
// and the Environ given to interp.Env (deep snapshot + write recorder), run P in one of the modes
// below, observe again.  Any difference is a violation of C29.
//
//   once    one Run on a new Runner
//   twice   Run, Run on the same Runner (state kept)
//   reset   Run, Reset, Run on the same Runner
//   two     one Run each on two Runners sharing the tree and the Environ
//   stmts   one Run per top-level statement (the tree's statements are handed over one by one)

var c29Modes = []string{"once", "twice", "reset", "two", "stmts"}

type c29Outcome struct {
	violation string // "" when the property held
	kind      string // tree | env | env-set | panic
	skipped   string // timeout | parse | panic (a panic that is not ours is C28's business)
	out       string
}

type c29SyncBuf struct {
	mu sync.Mutex
	b  bytes.Buffer
}

func (s *c29SyncBuf) Write(p []byte) (int, error) {
	s.mu.Lock()
	defer s.mu.Unlock()
	if s.b.Len() < 1<<16 {
		s.b.Write(p)
	}
	return len(p), nil
}

func c29ExecHandler(next interp.ExecHandlerFunc) interp.ExecHandlerFunc {
	return func(ctx context.Context, args []string) error {
		hc := interp.HandlerCtx(ctx)
		switch args[0] {
		case "cat":
			if len(args) == 1 && hc.Stdin != nil {
				io.Copy(hc.Stdout, hc.Stdin)
			}
			return nil
		}
		fmt.Fprintf(hc.Stderr, "%s: not found\n", args[0])
		return interp.ExitStatus(127)
	}
}

var c29WaitStmt = func() *syntax.File {
	f, err := syntax.NewParser().Parse(strings.NewReader("wait"), "")
	if err != nil {
		panic(err)
	}
	return f
}()

func c29RunProgram(c *Ctx, mode, envKind, src string) c29Outcome {
	var oc c29Outcome
	file, err := syntax.NewParser(syntax.Variant(syntax.LangBash)).Parse(strings.NewReader(src), "prog.sh")
	if err != nil {
		oc.skipped = "parse"
		return oc
	}
	dir := scratchDir(c)
	env := c29NewEnv(dir, stubDir(c), true)
	var given expand.Environ = env
	if envKind == "w" {
		given = c29WEnv{env}
	}
	out := &c29SyncBuf{}
	newRunner := func() *interp.Runner {
		r, err := interp.New(
			interp.StdIO(nil, out, out),
			interp.Dir(dir),
			interp.Env(given),
			interp.Params("--", "p1", "p 2"),
			interp.ExecHandlers(c29ExecHandler),
		)
		if err != nil {
			panic("interp.New: " + err.Error())
		}
		return r
	}

	tree0 := c29Observe(file)
	env0 := c29EnvState(env)

	ctx, cancel := context.WithTimeout(context.Background(), 8*time.Second)
	defer cancel()
	step := 0
	// check compares the current observations with the initial ones
	check := func(after string) bool {
		if ctx.Err() != nil {
			oc.skipped = "timeout"
			return false
		}
		if len(env.sets) > 0 {
			oc.kind, oc.violation = "env-set", fmt.Sprintf("%s: Set(%q, …) was called on the Environ given to interp.Env", after, env.sets[0])
			return false
		}
		if d := c29SnapDiff(env0, c29EnvState(env)); d != "" {
			oc.kind, oc.violation = "env", fmt.Sprintf("%s: storage of the Environ given to interp.Env changed: %s", after, d)
			return false
		}
		if d := c29TreeDiff(tree0, c29Observe(file)); d != "" {
			oc.kind, oc.violation = "tree", after+": "+d
			return false
		}
		return true
	}
	run := func(r *interp.Runner, node syntax.Node) bool {
		step++
		p := safely(func() {
			r.Run(ctx, node)
			if !r.Exited() {
				r.Run(ctx, c29WaitStmt) // let background jobs finish before looking
			}
		})
		if p != "" {
			if strings.Contains(p, "WriteEnviron") {
				oc.kind, oc.violation = "panic", "a Set was forwarded to the Environ given to interp.Env, which is not a WriteEnviron: "+p
			} else {
				oc.skipped = "panic"
				if os.Getenv("C29_DEBUG") != "" {
					fmt.Fprintf(os.Stderr, "PANIC %s :: %q\n", p, strings.Join(strings.Fields(fmt.Sprint(node)), " "))
				}
			}
			return false
		}
		return check(fmt.Sprintf("after Run #%d", step))
	}

	switch mode {
	case "once":
		run(newRunner(), file)
	case "twice":
		r := newRunner()
		_ = run(r, file) && run(r, file)
	case "reset":
		r := newRunner()
		if run(r, file) {
			r.Reset()
			if check("after Reset") {
				run(r, file)
			}
		}
	case "two":
		r1, r2 := newRunner(), newRunner()
		_ = run(r1, file) && run(r2, file) && run(r1, file)
	case "stmts":
		r := newRunner()
		for _, st := range file.Stmts {
			if !run(r, st) || r.Exited() {
				break
			}
		}
	default:
		panic("c29: unknown mode " + mode)
	}
	out.mu.Lock()
	oc.out = out.b.String()
	out.mu.Unlock()
	return oc
}

func c29Witness(mode, envKind string, stmts []string) string {
	return fmt.Sprintf("prog %s %s %s", mode, envKind, hx(strings.Join(stmts, "\n")))
}

// c29Minimise removes statements (then shortens the mode) while the same kind of violation remains.
func c29Minimise(c *Ctx, mode, envKind string, stmts []string, kind string) (string, []string, c29Outcome) {
	fails := func(m string, ss []string) (c29Outcome, bool) {
		if len(ss) == 0 {
			return c29Outcome{}, false
		}
		oc := c29RunProgram(c, m, envKind, strings.Join(ss, "\n"))
		return oc, oc.violation != "" && oc.kind == kind
	}
	best, _ := fails(mode, stmts)
	if _, ok := fails("once", stmts); ok {
		mode = "once"
	}
	for chunk := len(stmts) / 2; chunk >= 1; {
		removed := false
		for i := 0; i+chunk <= len(stmts); {
			cand := append(append([]string{}, stmts[:i]...), stmts[i+chunk:]...)
			if oc, ok := fails(mode, cand); ok {
				stmts, best, removed = cand, oc, true
			} else {
				i += chunk
			}
		}
		if !removed || chunk > len(stmts) {
			chunk /= 2
		}
	}
	// split `a; b` statements on top-level "; " once more (cheap textual attempt)
	for i := 0; i < len(stmts); i++ {
		parts := strings.Split(stmts[i], "; ")
		if len(parts) < 2 || strings.Contains(stmts[i], "\n") {
			continue
		}
		for j := 0; j < len(parts) && len(parts) > 1; {
			cp := append(append([]string{}, parts[:j]...), parts[j+1:]...)
			cand := append(append(append([]string{}, stmts[:i]...), strings.Join(cp, "; ")), stmts[i+1:]...)
			if oc, ok := fails(mode, cand); ok {
				parts, stmts, best = cp, cand, oc
			} else {
				j++
			}
		}
	}
	return mode, stmts, best
}

func c29Search(c *Ctx, n int) {
	type job struct {
		mode, envKind string
		stmts         []string
		tags          []string
		corpus        bool
		corpusKind    string // known | fixed | seed
	}
	var jobs []job
	for _, l := range c.CorpusLines() {
		f := strings.Fields(l)
		// corpus line: prog <mode> <envkind> <hex program>
		if len(f) == 4 && f[0] == "prog" {
			jobs = append(jobs, job{mode: f[1], envKind: f[2], stmts: strings.Split(unhx(f[3]), "\n"), corpus: true})
		}
	}
	r := c.R.Fork("search")
	for i := 0; i < n; i++ {
		stmts, tags := c29GenProgram(r)
		mode := c29Modes[r.Intn(len(c29Modes))]
		envKind := "w"
		if r.Chance(25) {
			envKind = "r"
		}
		jobs = append(jobs, job{mode: mode, envKind: envKind, stmts: stmts, tags: tags})
	}
	workers := 3
	res := parallelMap(len(jobs), workers, func(i int) c29Outcome {
		j := jobs[i]
		oc := c29RunProgram(c, j.mode, j.envKind, strings.Join(j.stmts, "\n"))
		if oc.skipped == "timeout" { // loaded machine: once more, alone-ish
			oc = c29RunProgram(c, j.mode, j.envKind, strings.Join(j.stmts, "\n"))
		}
		return oc
	})
	for i, oc := range res {
		j := jobs[i]
		tags := append([]string{"search:" + j.mode, "env:" + j.envKind}, j.tags...)
		if j.corpus {
			tags = append(tags, "search:corpus")
		}
		if oc.skipped != "" {
			c.Case("", false, "search:skipped-"+oc.skipped)
			continue
		}
		c.Case(c29Witness(j.mode, j.envKind, j.stmts), oc.out != "", tags...)
		if oc.violation == "" {
			continue
		}
		if j.corpus {
			c.Fail(c29Witness(j.mode, j.envKind, j.stmts), oc.violation)
			continue
		}
		// re-run alone before judging, then minimise
		again := c29RunProgram(c, j.mode, j.envKind, strings.Join(j.stmts, "\n"))
		if again.violation == "" || again.kind != oc.kind {
			c.Case("", false, "search:not-reproduced")
			continue
		}
		mode, stmts, best := c29Minimise(c, j.mode, j.envKind, j.stmts, oc.kind)
		c.Fail(c29Witness(mode, j.envKind, stmts), best.violation+" — program: "+strings.Join(stmts, " ⏎ "))
	}
}
