//go:build c16 || all

package main

import (
	"fmt"
	"math/big"
	"strconv"
	"strings"

	"mvdan.cc/sh/v3/expand"
	"mvdan.cc/sh/v3/syntax"
)

// C16 — Brace expansion matches bash.
//
// Model streams (implementation column = real mvdan/sh code, in-process):
//   split w    syntax.SplitBraces on the one-literal word: returned bool + resulting tree
//   braces w   expand.BracesSeq on the split tree: every yielded word by its literal parts, or
//              `limit` (the 16384 error) / `panic`
//   fields w   expand.Fields(nil, word)
// Spec streams (Lean runs the property's own statement):
//   specrender w   the printed form of the split word must be w
//   specreports w  the returned bool must say whether the tree contains a BraceExp
//   specbraces w   bash's brace expansion (Lean transcription of braces.c) vs SplitBraces+BracesSeq
//   specfields w   the same after quote removal / empty-word removal vs expand.Fields
//   bashref w      implementation column = REAL bash (`printf`-style observation): ties the Lean
//                  transcription of braces.c to bash 5.2 itself
// Search leg (independent of Lean): expand.Fields vs real bash on the same word; renderer and
// `reports` checks directly on the Go tree; Braces (deprecated) vs BracesSeq.
func init() { register("C16", c16) }

var c16Alpha = []byte("{},.\\-019az")

const c16Limit = 16384

func c16Word(s string) *syntax.Word {
	return &syntax.Word{Parts: []syntax.WordPart{&syntax.Lit{Value: s}}}
}

// c16Render is the "printed form" of a word with BraceExp parts (the Go printer has no case for
// BraceExp): literal values verbatim, `{a,b}` / `{x..y[..z]}`.
func c16Render(w *syntax.Word) string {
	var sb strings.Builder
	for _, p := range w.Parts {
		switch p := p.(type) {
		case *syntax.Lit:
			sb.WriteString(p.Value)
		case *syntax.BraceExp:
			sb.WriteByte('{')
			for i, e := range p.Elems {
				if i > 0 {
					if p.Sequence {
						sb.WriteString("..")
					} else {
						sb.WriteByte(',')
					}
				}
				sb.WriteString(c16Render(e))
			}
			sb.WriteByte('}')
		default:
			sb.WriteString("?")
		}
	}
	return sb.String()
}

func c16Dump(w *syntax.Word) string {
	var sb strings.Builder
	for _, p := range w.Parts {
		switch p := p.(type) {
		case *syntax.Lit:
			sb.WriteString("l" + hx(p.Value) + ";")
		case *syntax.BraceExp:
			if p.Sequence {
				sb.WriteString("{s")
			} else {
				sb.WriteString("{c")
			}
			for i, e := range p.Elems {
				if i > 0 {
					sb.WriteByte('|')
				}
				sb.WriteString(c16Dump(e))
			}
			sb.WriteByte('}')
		default:
			sb.WriteString("?")
		}
	}
	return sb.String()
}

// c16SingleSeq returns the sequence node of a word that is exactly one sequence.
func c16SingleSeq(w *syntax.Word) *syntax.BraceExp {
	if w == nil || len(w.Parts) == 0 || len(w.Parts) > 2 {
		return nil
	}
	br, ok := w.Parts[0].(*syntax.BraceExp)
	if !ok || !br.Sequence {
		return nil
	}
	if len(w.Parts) == 2 {
		if l, ok := w.Parts[1].(*syntax.Lit); !ok || l.Value != "" {
			return nil
		}
	}
	return br
}

func c16HasBrace(w *syntax.Word) bool {
	for _, p := range w.Parts {
		if _, ok := p.(*syntax.BraceExp); ok {
			return true
		}
	}
	return false
}

func c16ShowLits(w *syntax.Word) string {
	if len(w.Parts) == 0 {
		return "_"
	}
	parts := make([]string, len(w.Parts))
	for i, p := range w.Parts {
		if l, ok := p.(*syntax.Lit); ok {
			parts[i] = hx(l.Value)
		} else {
			parts[i] = "B"
		}
	}
	return strings.Join(parts, ".")
}

func c16ShowItems(xs []string) string {
	n := len(xs)
	shown := xs
	if n > 48 {
		shown = append(append(append([]string{}, xs[:40]...), "~"), xs[n-8:]...)
	}
	return strings.Join(append([]string{"ok " + strconv.Itoa(n)}, shown...), " ")
}

// c16SeqInfo describes what the Go loop does on one sequence node, computed with big integers.
type c16SeqInfo struct {
	overflow bool // n += incr leaves the int64 range while the loop condition still held (or |incr| = 2^63)
	count    *big.Int
	padBig   bool // zero padded with an endpoint outside int32 (bash formats through `int`)
	spanBig  bool // bash refuses: to-from outside [MIN+3, MAX-2], or more than INT_MAX-3 elements
	minIncr  bool // increment -2^63 (bash refuses when start < end)
	crossBS  bool // character range that contains the backslash
}

var (
	c16MaxI = big.NewInt(0).SetInt64(1<<63 - 1)
	c16MinI = big.NewInt(0).SetInt64(-1 << 63)
)

func c16Seq(br *syntax.BraceExp) c16SeqInfo {
	var inf c16SeqInfo
	fromLit, toLit := br.Elems[0].Lit(), br.Elems[1].Lit()
	from, err1 := strconv.ParseInt(fromLit, 10, 64)
	to, err2 := strconv.ParseInt(toLit, 10, 64)
	chars := false
	if err1 != nil || err2 != nil {
		chars = true
		from, to = int64(fromLit[0]), int64(toLit[0])
		lo, hi := min(from, to), max(from, to)
		inf.crossBS = lo <= '\\' && '\\' <= hi
	}
	incr := big.NewInt(1)
	if len(br.Elems) > 2 {
		n, _ := strconv.ParseInt(br.Elems[2].Lit(), 10, 64)
		if n == -1<<63 {
			inf.minIncr = true
		}
		b := big.NewInt(n)
		b.Abs(b)
		if b.Sign() != 0 {
			incr = b
		}
	}
	span := big.NewInt(0).Sub(big.NewInt(to), big.NewInt(from))
	lo := big.NewInt(0).Add(c16MinI, big.NewInt(3))
	hi := big.NewInt(0).Sub(c16MaxI, big.NewInt(2))
	if span.Cmp(lo) < 0 || span.Cmp(hi) > 0 {
		inf.spanBig = true
	}
	aspan := big.NewInt(0).Abs(span)
	k := big.NewInt(0).Div(aspan, incr)
	inf.count = big.NewInt(0).Add(k, big.NewInt(1))
	if k.Cmp(big.NewInt(1<<31-4)) > 0 {
		inf.spanBig = true
	}
	// last element and the value the Go loop computes next
	step := big.NewInt(0).Set(incr)
	if from > to {
		step.Neg(step)
	}
	last := big.NewInt(0).Add(big.NewInt(from), big.NewInt(0).Mul(k, step))
	next := big.NewInt(0).Add(last, step)
	if next.Cmp(c16MaxI) > 0 || next.Cmp(c16MinI) < 0 || inf.minIncr {
		inf.overflow = true
	}
	if !chars && (c16LeadingZeros(fromLit) || c16LeadingZeros(toLit)) {
		if from > 1<<31-1 || from < -1<<31 || to > 1<<31-1 || to < -1<<31 {
			inf.padBig = true
		}
	}
	return inf
}

func c16LeadingZeros(s string) bool {
	s = strings.TrimPrefix(s, "-")
	return len(s) > 1 && s[0] == '0'
}

// c16Regions are the regions of known findings / oracle repairs a word falls into.
type c16Regions struct {
	overflow   bool // finding C16-seq-int64-overflow
	bashLimits bool // oracle repair: bash's own arithmetic guards / int truncation / `\` from a range
	crossBS    bool // a character range that produces a backslash (bash then treats it as a quote)
	hasSeq     bool
	nested     bool
	nodes      int
}

func c16Walk(w *syntax.Word, depth int, r *c16Regions) {
	for _, p := range w.Parts {
		br, ok := p.(*syntax.BraceExp)
		if !ok {
			continue
		}
		r.nodes++
		if depth > 0 {
			r.nested = true
		}
		if br.Sequence {
			r.hasSeq = true
			inf := c16Seq(br)
			if inf.overflow {
				r.overflow = true
			}
			if inf.padBig || inf.spanBig || inf.minIncr || inf.crossBS {
				r.bashLimits = true
			}
			if inf.crossBS {
				r.crossBS = true
			}
			continue
		}
		for _, e := range br.Elems {
			c16Walk(e, depth+1, r)
		}
	}
}

// c16SeqTextValid: would `{amble}` (no nested braces, commas or backslashes) be a valid sequence
// for SplitBraces?
func c16SeqTextValid(amble string) bool {
	if strings.ContainsAny(amble, "{},\\") {
		return false
	}
	el := strings.Split(amble, "..")
	if len(el) < 2 || len(el) > 3 {
		return false
	}
	var chars [2]bool
	for i := 0; i < 2; i++ {
		if _, err := strconv.ParseInt(el[i], 10, 64); err == nil {
		} else if len(el[i]) == 1 && (('a' <= el[i][0] && el[i][0] <= 'z') || ('A' <= el[i][0] && el[i][0] <= 'Z')) {
			chars[i] = true
		} else {
			return false
		}
	}
	if len(el) == 3 {
		if _, err := strconv.ParseInt(el[2], 10, 64); err != nil {
			return false
		}
	}
	return chars[0] == chars[1]
}

// c16Irregular reports the two syntactic regions where SplitBraces groups braces differently
// from bash's brace_gobbler:
//
//	closeNoSep (finding C16-close-without-separator): a `}` closes a group that has no top-level
//	  `,` and no top-level `..` (bash does not accept that `}` as the end of the group and keeps
//	  scanning) and a later unescaped `}` exists for bash to close the group with;
//	seqNested (finding C16-invalid-seq-nested): a group without top-level comma whose `..` text is
//	  not a valid sequence but which contains a nested group that expands.
//
// Both are over-approximations of the words on which the results differ (documented in
// props/C16.notes.md); outside them Go, bash and the Lean transcription agree on everything explored.
func c16Irregular(s string) (closeNoSep, seqNested bool) {
	type fr struct {
		start, commas, dots int
		nested              bool
	}
	var stack []fr
	firstEvent := -1
	lastRB := -1
	for j := 0; j < len(s); j++ {
		switch s[j] {
		case '\\':
			j++
		case '{':
			stack = append(stack, fr{start: j})
		case ',':
			if len(stack) > 0 {
				stack[len(stack)-1].commas++
			}
		case '.':
			if len(stack) > 0 && j+1 < len(s) && s[j+1] == '.' && !(j+2 < len(s) && s[j+2] == '}') {
				stack[len(stack)-1].dots++
			}
		case '}':
			lastRB = j
			if len(stack) == 0 {
				continue
			}
			f := stack[len(stack)-1]
			stack = stack[:len(stack)-1]
			expands := f.commas > 0
			if f.commas == 0 && f.dots == 0 {
				if firstEvent < 0 {
					firstEvent = j
				}
			} else if f.commas == 0 {
				if c16SeqTextValid(s[f.start+1 : j]) {
					expands = true
				} else if f.nested {
					seqNested = true
				}
			}
			if len(stack) > 0 && (expands || f.nested) {
				stack[len(stack)-1].nested = true
			}
		}
	}
	closeNoSep = firstEvent >= 0 && firstEvent < lastRB
	return
}

// c16Unescape is bash's quote removal on an unquoted word without quotes: `\x` → x, a trailing
// lone backslash stays.
func c16Unescape(s string) string {
	if !strings.Contains(s, "\\") {
		return s
	}
	var sb strings.Builder
	for i := 0; i < len(s); i++ {
		if s[i] == '\\' && i+1 < len(s) {
			i++
		}
		sb.WriteByte(s[i])
	}
	return sb.String()
}

type c16Go struct {
	found     bool
	untouched bool // the word still has its single original Lit
	tree      *syntax.Word
	hasBrace  bool
	words     []*syntax.Word // yielded by BracesSeq (before the error, if any)
	rendered  []string
	limitErr  bool
	otherErr  string
	fields    []string
	fieldsErr string // "", "limit", or other text
	panicked  string
	reg       c16Regions
}

func c16RunGo(s string) c16Go {
	var g c16Go
	g.panicked = safely(func() {
		w := c16Word(s)
		lit := w.Parts[0]
		g.found = syntax.SplitBraces(w)
		g.untouched = len(w.Parts) == 1 && w.Parts[0] == lit
		g.tree = w
		g.hasBrace = c16HasBrace(w)
		c16Walk(w, 0, &g.reg)
		for x, err := range expand.BracesSeq(nil, w) {
			if err != nil {
				if strings.Contains(err.Error(), "would exceed") {
					g.limitErr = true
				} else {
					g.otherErr = err.Error()
				}
				break
			}
			g.words = append(g.words, x)
			g.rendered = append(g.rendered, c16Render(x))
		}
		orig := c16Word(s)
		lit0 := orig.Parts[0]
		f, err := expand.Fields(nil, orig)
		if err != nil {
			if strings.Contains(err.Error(), "would exceed") {
				g.fieldsErr = "limit"
			} else {
				g.fieldsErr = err.Error()
			}
		}
		g.fields = f
		// FieldsSeq works on a copy: the caller's word must be untouched.
		if len(orig.Parts) != 1 || orig.Parts[0] != lit0 || lit0.(*syntax.Lit).Value != s {
			g.otherErr = "Fields modified the caller's word"
		}
	})
	return g
}

// c16BashBatch runs real bash once on a batch of words and returns, per word, the fields that
// `cmd <word>` receives (nil, false when the run failed).
func c16BashBatch(c *Ctx, words []string) ([][]string, bool) {
	var sb strings.Builder
	sb.WriteString("f(){ local IFS=$'\\x01'; printf '%d\\t%s\\n' \"$#\" \"$*\"; }\n")
	sb.WriteString("while IFS= read -r w; do eval \"f $w\"; done <<'C16EOF'\n")
	for _, w := range words {
		sb.WriteString(w)
		sb.WriteByte('\n')
	}
	sb.WriteString("C16EOF\n")
	res := runShell(c, "bash", sb.String())
	if res.TimedOut || res.Status != 0 {
		return nil, false
	}
	lines := strings.Split(strings.TrimSuffix(res.Stdout, "\n"), "\n")
	if len(lines) != len(words) {
		return nil, false
	}
	out := make([][]string, len(words))
	for i, l := range lines {
		n, rest, ok := strings.Cut(l, "\t")
		cnt, err := strconv.Atoi(n)
		if !ok || err != nil {
			return nil, false
		}
		if cnt == 0 {
			out[i] = []string{}
		} else {
			out[i] = strings.Split(rest, "\x01")
		}
		if len(out[i]) != cnt {
			return nil, false
		}
	}
	return out, true
}

func c16ShellSafe(s string) bool {
	for i := 0; i < len(s); i++ {
		b := s[i]
		switch {
		case 'a' <= b && b <= 'z', 'A' <= b && b <= 'Z', '0' <= b && b <= '9':
		case strings.IndexByte("{},.\\-+", b) >= 0:
		default:
			return false
		}
	}
	return s != ""
}

type c16Item struct {
	s      string
	corpus string // kind of the corpus line that asked for this word ("" = generated)
	bash   bool   // also run real bash on it
	src    string // generator tag
}

func c16EqStrs(a, b []string) bool {
	if len(a) != len(b) {
		return false
	}
	for i := range a {
		if a[i] != b[i] {
			return false
		}
	}
	return true
}

func c16Show(xs []string) string {
	if len(xs) > 12 {
		return fmt.Sprintf("%q…(%d)", xs[:12], len(xs))
	}
	return fmt.Sprintf("%q", xs)
}

// c16Process runs the Go side of one item, emits its ops, and returns what the bash leg needs.
func c16Process(c *Ctx, it c16Item) c16Go {
	s := it.s
	h := hx(s)
	g := c16RunGo(s)
	closeNoSep, seqNested := c16Irregular(s)
	emptyWord := false
	for _, r := range g.rendered {
		if r == "" {
			emptyWord = true
		}
	}
	tags := []string{fmt.Sprintf("len=%d", min(len(s), 13)), "src=" + it.src}
	if g.hasBrace {
		tags = append(tags, "has-braceexp")
	}
	if g.reg.hasSeq {
		tags = append(tags, "has-sequence")
	}
	if g.reg.nested {
		tags = append(tags, "nested")
	}
	if g.limitErr {
		tags = append(tags, "limit-error")
	}
	if strings.Contains(s, "\\") {
		tags = append(tags, "backslash")
	}
	if !g.found && strings.Contains(s, "{") {
		tags = append(tags, "brace-char-without-braceexp")
	}
	if g.reg.overflow {
		tags = append(tags, "seq-ends-at-int64-limit")
	}
	if emptyWord {
		tags = append(tags, "empty-word-in-expansion")
	}
	if closeNoSep {
		tags = append(tags, "region:close-without-separator")
	}
	if seqNested {
		tags = append(tags, "region:invalid-seq-nested")
	}
	if g.reg.bashLimits {
		tags = append(tags, "oracle-repair:bash-arith-limits")
	}
	c.Case(s, strings.Contains(s, "{"), tags...)

	if g.panicked != "" {
		c.Op("split "+h, "panic")
		c.Fail("panic "+h, fmt.Sprintf("SplitBraces/BracesSeq/Fields panicked on %q: %s", s, g.panicked))
		return g
	}
	// --- model streams ---
	c.Op("split "+h, fmt.Sprintf("%v %s", g.found, c16Dump(g.tree)))
	var bracesImpl string
	switch {
	case g.limitErr:
		bracesImpl = "limit"
	case g.otherErr != "":
		bracesImpl = "error"
	default:
		lits := make([]string, len(g.words))
		for i, w := range g.words {
			lits[i] = c16ShowLits(w)
		}
		bracesImpl = c16ShowItems(lits)
	}
	c.Op("braces "+h, bracesImpl)
	var fieldsImpl string
	switch {
	case g.fieldsErr == "limit":
		fieldsImpl = "limit"
	case g.fieldsErr != "":
		fieldsImpl = "error"
	default:
		hs := make([]string, len(g.fields))
		for i, f := range g.fields {
			hs[i] = hx(f)
		}
		fieldsImpl = c16ShowItems(hs)
	}
	c.Op("fields "+h, fieldsImpl)
	if g.otherErr != "" || (g.fieldsErr != "" && g.fieldsErr != "limit") {
		c.Fail("error "+h, fmt.Sprintf("unexpected error on %q: %s %s", s, g.otherErr, g.fieldsErr))
	}
	// Deprecated Braces must agree with BracesSeq whenever the latter succeeds.
	if !g.limitErr && g.otherErr == "" {
		var all []string
		p := safely(func() {
			w := c16Word(s)
			syntax.SplitBraces(w)
			for _, x := range expand.Braces(w) {
				all = append(all, c16Render(x))
			}
		})
		if p != "" || !c16EqStrs(all, g.rendered) {
			c.Fail("braces-vs-seq "+h, fmt.Sprintf("Braces(%q)=%s BracesSeq=%s %s", s, c16Show(all), c16Show(g.rendered), p))
		}
	}

	// --- property: printed form unchanged ---
	rendered := c16Render(g.tree)
	c.Op("specrender "+h, hx(rendered))
	if rendered != s {
		c.Fail("render "+h, fmt.Sprintf("SplitBraces changed the printed form of %q to %q", s, rendered))
	}
	// --- property: the bool reports whether a brace expansion was found, and a word without one
	// is left untouched (fixed finding C16-reports-true-without-braceexp) ---
	c.Op("specreports "+h, fmt.Sprintf("%v", g.found))
	if g.found != g.hasBrace {
		c.Fail("reports "+h, fmt.Sprintf("SplitBraces(%q) returned %v, result has a BraceExp: %v (doc: \"Otherwise, the word is left untouched and the function returns false\")", s, g.found, g.hasBrace))
	}
	if !g.found && !g.untouched {
		c.Fail("reports "+h, fmt.Sprintf("SplitBraces(%q) returned false but changed the word", s))
	}

	// --- property: expansion = bash's brace expansion (Lean transcription) ---
	var specImpl string
	if g.limitErr {
		specImpl = "limit"
	} else {
		hs := make([]string, len(g.rendered))
		for i, r := range g.rendered {
			hs[i] = hx(r)
		}
		specImpl = c16ShowItems(hs)
	}
	inBraceRegion := closeNoSep || seqNested
	if !inBraceRegion {
		c.Op("specbraces "+h, specImpl)
		// A range like {Z..a} produces a backslash: at the brace level Go and bash agree, but bash
		// later takes the produced backslash for a quote character (oracle repair, not a finding).
		if !g.reg.crossBS {
			c.Op("specfields "+h, fieldsImpl)
		}
	}
	// Hypothesis `seqsAgree` of bash_equiv_partial: whenever SplitBraces accepts `{…}` as one
	// sequence, bash's expand_seqterm (Lean transcription) must read the same parameters.
	if br := c16SingleSeq(g.tree); br != nil {
		c.Op("specseqagree "+h, "true")
	}
	// seq_exact / limit_iff on the implementation, with big-integer arithmetic as oracle:
	// a word that is exactly one sequence must yield count elements (or the limit error iff
	// count > 16384).
	if br := c16SingleSeq(g.tree); br != nil {
		inf := c16Seq(br)
		wantLimit := inf.count.Cmp(big.NewInt(c16Limit)) > 0
		bad := wantLimit != g.limitErr || (!wantLimit && int64(len(g.rendered)) != inf.count.Int64())
		if bad {
			what := fmt.Sprintf("%q has %s elements; BracesSeq: %d words, limit error=%v", s, inf.count, len(g.rendered), g.limitErr)
			if inf.overflow { // the shape of fixed finding C16-seq-int64-overflow
				c.Fail("overflow "+h, what)
			} else {
				c.Fail("seq "+h, what)
			}
		}
	}
	return g
}

// c16CompareBash is the independent search leg: expand.Fields vs real bash.
func c16CompareBash(c *Ctx, it c16Item, g c16Go, bashFields []string) {
	s := it.s
	h := hx(s)
	if g.panicked != "" {
		return
	}
	closeNoSep, seqNested := c16Irregular(s)
	emptyWord := false
	for _, r := range g.rendered {
		if r == "" {
			emptyWord = true
		}
	}
	c.Hist["bash-compared"]++
	// Tie of the Lean transcription of braces.c to bash itself (not where bash's own integer
	// guards / int truncation / `\` produced by a range make it leave the ideal semantics).
	if !g.reg.bashLimits {
		hs := make([]string, len(bashFields))
		for i, f := range bashFields {
			hs[i] = hx(f)
		}
		c.Op("bashref "+h, c16ShowItems(hs))
	} else {
		c.Hist["bash-oracle-repaired"]++
		return
	}
	if g.fieldsErr == "" && c16EqStrs(g.fields, bashFields) {
		return
	}
	what := fmt.Sprintf("word %q: expand.Fields=%s err=%q, bash=%s", s, c16Show(g.fields), g.fieldsErr, c16Show(bashFields))
	c.Hist["bash-differs"]++
	// classify
	var nonEmpty []string
	for _, f := range g.fields {
		if f != "" {
			nonEmpty = append(nonEmpty, f)
		}
	}
	switch {
	case closeNoSep:
		c.Hist["bash-differs:close-without-separator"]++
		if it.corpus == "bash-close" {
			c.Fail("bash-close "+h, what)
		}
	case seqNested:
		c.Hist["bash-differs:invalid-seq-nested"]++
		if it.corpus == "bash-seqnested" {
			c.Fail("bash-seqnested "+h, what)
		}
	case g.reg.overflow: // the shape of fixed finding C16-seq-int64-overflow
		c.Fail("overflow "+h, what)
	case emptyWord && g.fieldsErr == "" && c16EqStrs(nonEmpty, bashFields):
		// the shape of fixed finding C16-empty-word-becomes-field
		c.Fail("emptyfield "+h, what)
	default:
		c.Fail("bash "+h, what)
	}
}

// ---- generators ----

func c16Num(r *Rand) string {
	switch r.Intn(14) {
	case 0:
		return strconv.FormatInt(1<<63-1-int64(r.Intn(4)), 10)
	case 1:
		return strconv.FormatInt(-1<<63+int64(r.Intn(4)), 10)
	case 2:
		return []string{"9223372036854775808", "-9223372036854775809", "18446744073709551616", "99999999999999999999"}[r.Intn(4)]
	case 3:
		return "0" + strconv.Itoa(r.Intn(120))
	case 4:
		return "-0" + strconv.Itoa(r.Intn(30))
	case 5:
		return "00" + strconv.Itoa(r.Intn(12))
	case 6:
		return "+" + strconv.Itoa(r.Intn(20))
	case 7:
		return strconv.Itoa(r.Intn(40) - 20)
	case 8:
		return strconv.FormatInt(int64(1<<31-2+r.Intn(4)), 10)
	case 9:
		return strconv.FormatInt(int64(r.Intn(2000)), 10)
	case 10:
		return []string{"0", "-0", "1", "-1", "9", "10"}[r.Intn(6)]
	case 11:
		return strconv.FormatInt(1<<62+int64(r.Intn(3)), 10)
	default:
		return strconv.Itoa(r.Intn(12))
	}
}

func c16Incr(r *Rand) string {
	switch r.Intn(10) {
	case 0:
		return "0"
	case 1:
		return "-0"
	case 2:
		return "-" + strconv.Itoa(1+r.Intn(5))
	case 3:
		return "9223372036854775807"
	case 4:
		return "-9223372036854775808"
	case 5:
		return strconv.FormatInt(1<<62+int64(r.Intn(5)), 10)
	case 6:
		return strconv.FormatInt(1<<63-1-int64(r.Intn(3)), 10)
	case 7:
		return "0" + strconv.Itoa(1+r.Intn(4))
	default:
		return strconv.Itoa(1 + r.Intn(6))
	}
}

func c16Letter(r *Rand, upper bool) string {
	if upper {
		return string(rune('A' + r.Intn(26)))
	}
	return string(rune('a' + r.Intn(26)))
}

func c16SeqText(r *Rand) string {
	var a, b string
	switch r.Intn(10) {
	case 0, 1, 2:
		up := r.Chance(20)
		a, b = c16Letter(r, up), c16Letter(r, up)
	case 3: // near each other at the int64 limits
		base := int64(1<<63 - 1)
		if r.Bool() {
			x := base - int64(r.Intn(6))
			y := base - int64(r.Intn(6))
			a, b = strconv.FormatInt(x, 10), strconv.FormatInt(y, 10)
		} else {
			x := -base - 1 + int64(r.Intn(6))
			y := -base - 1 + int64(r.Intn(6))
			a, b = strconv.FormatInt(x, 10), strconv.FormatInt(y, 10)
		}
	case 4: // mixed / malformed endpoints
		a = r.Pick([]string{"a", "1", "", "ab", "-", "+", "1a", "a1", "0x1", "1.5", "--1", "z"})
		b = r.Pick([]string{"a", "1", "", "ab", "-", "+", "1a", "Z", "9"})
	default:
		a, b = c16Num(r), c16Num(r)
		// mostly short spans: a huge span only costs time (limit error after 16384 words)
		if x, err := strconv.ParseInt(a, 10, 64); err == nil && !r.Chance(12) {
			d := int64(r.Intn(41) - 20)
			if y := x + d; (d >= 0) == (y >= x) {
				b = strconv.FormatInt(y, 10)
				if r.Chance(15) {
					b = "0" + strings.TrimPrefix(b, "-")
				}
			}
		}
	}
	s := a + ".." + b
	switch r.Intn(8) {
	case 0, 1, 2:
		s += ".." + c16Incr(r)
	case 3:
		s += r.Pick([]string{"..", "..a", "..1..2", ".", "...1", "..-", "..+2"})
	}
	return s
}

var c16Plain = []string{"a", "b", "z", "0", "1", "9", "-", ".", "x", "", "", "ab", "\\,", "\\{", "\\}", "\\\\", "\\.", "\\a", "+"}

// c16Expr generates a mostly well-formed brace expression of bounded depth.
func c16Expr(r *Rand, depth int) string {
	var sb strings.Builder
	n := 1 + r.Intn(3)
	for i := 0; i < n; i++ {
		switch k := r.Intn(10); {
		case k < 4 || depth <= 0:
			sb.WriteString(r.Pick(c16Plain))
		case k < 7:
			m := 2 + r.Intn(3)
			if r.Chance(10) {
				m = 1
			}
			sb.WriteByte('{')
			for j := 0; j < m; j++ {
				if j > 0 {
					sb.WriteByte(',')
				}
				if !r.Chance(15) {
					sb.WriteString(c16Expr(r, depth-1))
				}
			}
			sb.WriteByte('}')
		case k < 9:
			sb.WriteString("{" + c16SeqText(r) + "}")
		default:
			sb.WriteString(r.Pick([]string{"{", "}", ",", "..", "{}", "{,", ",}", "{..}", "}{", "\\"}))
		}
	}
	return sb.String()
}

func c16Mutate(r *Rand, s string) string {
	if s == "" {
		return s
	}
	b := []byte(s)
	switch r.Intn(4) {
	case 0: // delete a byte
		i := r.Intn(len(b))
		b = append(b[:i], b[i+1:]...)
	case 1: // insert a metacharacter
		i := r.Intn(len(b) + 1)
		ch := c16Alpha[r.Intn(len(c16Alpha))]
		b = append(b[:i], append([]byte{ch}, b[i:]...)...)
	case 2: // replace
		b[r.Intn(len(b))] = c16Alpha[r.Intn(len(c16Alpha))]
	default: // truncate
		b = b[:r.Intn(len(b))+1]
	}
	return string(b)
}

// c16Costly: words with 16+ digit numbers mostly end in the limit error after 16384 yielded words
// (tens of milliseconds in Go and in the Lean model); they are thinned out, not excluded.
func c16Costly(s string) bool {
	run := 0
	for i := 0; i < len(s); i++ {
		if '0' <= s[i] && s[i] <= '9' {
			run++
			if run >= 16 {
				return true
			}
		} else {
			run = 0
		}
	}
	return false
}

func c16Random(r *Rand) (string, string) {
	for {
		s, src := c16Random1(r)
		if c16Costly(s) && !r.Chance(15) {
			continue
		}
		// bounded length: long generated expressions only multiply the number of results
		if (len(s) > 28 && !c16Costly(s)) || len(s) > 90 {
			continue
		}
		return s, src
	}
}

func c16Random1(r *Rand) (string, string) {
	switch k := r.Intn(20); {
	case k < 5:
		n := 5 + r.Intn(8)
		b := make([]byte, n)
		for i := range b {
			b[i] = c16Alpha[r.Intn(len(c16Alpha))]
		}
		return string(b), "random-alphabet"
	case k < 9:
		return r.Pick([]string{"", "a", "x-", "\\"}) + "{" + c16SeqText(r) + "}" + r.Pick([]string{"", "", "b", "{a,b}", "\\"}), "sequence"
	case k < 16:
		return c16Expr(r, 1+r.Intn(3)), "expr"
	case k < 18:
		return c16Mutate(r, c16Expr(r, 1+r.Intn(3))), "expr-mutated"
	default:
		return "{" + c16SeqText(r) + "}{" + c16SeqText(r) + "}", "sequence-product"
	}
}

func c16(c *Ctx) {
	c.Rule = "one-literal words: all words up to length L over the alphabet `{ } , . \\ - 0 1 9 a z` (quick L=4, thorough L=6 sharded) + random words: " +
		"alphabet strings of length 5..12, single sequences with endpoints near ±2^63 / zero padding / increments 0, negative, ±2^63 / letters / malformed endpoints, " +
		"generated nested brace expressions (depth ≤ 3, escapes, empty alternatives) and their byte mutations; non-trivial = the word contains `{` (the stack machine of SplitBraces runs); distinct by word"
	var items []c16Item
	for _, l := range c.CorpusLines() {
		f := strings.Fields(l)
		if len(f) != 2 {
			continue
		}
		items = append(items, c16Item{s: unhx(f[1]), corpus: f[0], bash: true, src: "corpus"})
	}
	if c.N > 0 {
		maxLen := 4
		if c.Thorough() {
			maxLen = 6
		}
		idx := 0
		var rec func(prefix []byte, l int)
		rec = func(prefix []byte, l int) {
			if len(prefix) == l {
				if idx%max(c.Shards, 1) == c.Shard {
					items = append(items, c16Item{s: string(prefix), bash: true, src: "exhaustive"})
				}
				idx++
				return
			}
			for _, b := range c16Alpha {
				rec(append(prefix, b), l)
			}
		}
		for l := 1; l <= maxLen; l++ {
			rec(nil, l)
		}
		bashBudget := 600
		if c.Thorough() {
			bashBudget = 20000 / max(c.Shards, 1)
		}
		for i := 0; i < c.N; i++ {
			s, src := c16Random(c.R)
			if s == "" {
				continue
			}
			it := c16Item{s: s, src: src}
			if bashBudget > 0 && c16ShellSafe(s) {
				it.bash = true
				bashBudget--
			}
			items = append(items, it)
		}
	}
	// Go side, sequentially (expand.Fields(nil, …) shares one zero Config).
	gos := make([]c16Go, len(items))
	var bashIdx []int
	for i, it := range items {
		gos[i] = c16Process(c, it)
		gos[i].words, gos[i].tree = nil, nil
		g := gos[i]
		if it.bash && c16ShellSafe(it.s) && g.panicked == "" && !g.limitErr && len(g.rendered) <= 3000 {
			bashIdx = append(bashIdx, i)
		}
	}
	// bash side, in parallel batches.
	const batch = 400
	nb := (len(bashIdx) + batch - 1) / batch
	type bres struct {
		out [][]string
		ok  bool
	}
	results := parallelMap(nb, 4, func(b int) bres {
		lo, hi := b*batch, min((b+1)*batch, len(bashIdx))
		ws := make([]string, hi-lo)
		for k := lo; k < hi; k++ {
			ws[k-lo] = items[bashIdx[k]].s
		}
		out, ok := c16BashBatch(c, ws)
		if !ok { // retry in small pieces so that one slow word does not lose the whole batch
			out = make([][]string, len(ws))
			ok = true
			for k := 0; k < len(ws); k += 20 {
				part, pok := c16BashBatch(c, ws[k:min(k+20, len(ws))])
				if !pok {
					ok = false
					break
				}
				copy(out[k:], part)
			}
		}
		return bres{out, ok}
	})
	for b, r := range results {
		lo, hi := b*batch, min((b+1)*batch, len(bashIdx))
		if !r.ok {
			c.Hist["bash-batch-failed"]++
			continue
		}
		for k := lo; k < hi; k++ {
			i := bashIdx[k]
			c16CompareBash(c, items[i], gos[i], r.out[k-lo])
		}
	}
}
