//go:build c20 || all

package main

import (
	"fmt"
	"go/ast"
	goparser "go/parser"
	"go/token"
	"math/big"
	"os"
	"path/filepath"
	"reflect"
	"runtime"
	"sort"
	"strconv"
	"strings"

	"mvdan.cc/sh/v3/expand"
	"mvdan.cc/sh/v3/syntax"
)

// C20 — arithmetic evaluation.
//
// Correspondence streams (model of the code): atoi, binarit, intpow, fmtint (hooks), eval
// (expand.Arithm with a map-backed WriteEnviron on hand-built and on parsed trees), parse / print
// (syntax parser vs parseArith on token lists), prectable (binding order read from
// parser_arithm.go with go/ast), status (interp `(( ))`, `let`, `$(( ))` vs the runner model).
// Specification stream: speceval (the Lean BashArith spec against expand.Arithm) on the
// property's domain minus the documented exclusions.
// Search leg: interp vs bash 5.2 (and an independent big.Int oracle written here) on
// `echo $((e))`, `((e))`, `let`, array subscripts and `for ((…))`, with variable dumps.
func init() { register("C20", c20) }

// ---------------------------------------------------------------------------------------------
// expression trees

type aExpr struct {
	kind byte // 'w' word, 'p' paren, 'u' unary, 'b' binary
	w    string
	op   string // model operator name
	post bool
	x, y *aExpr
}

type c20BinInfo struct {
	name string
	op   syntax.BinAritOperator
	txt  string // "" = not lexed in the bash variant
	lvl  int    // level in the parser chain (-1 = special)
}

var c20Bins = []c20BinInfo{
	{"add", syntax.Add, "+", 11}, {"sub", syntax.Sub, "-", 11}, {"mul", syntax.Mul, "*", 12},
	{"quo", syntax.Quo, "/", 12}, {"rem", syntax.Rem, "%", 12}, {"pow", syntax.Pow, "**", 13},
	{"eql", syntax.Eql, "==", 8}, {"gtr", syntax.Gtr, ">", 9}, {"lss", syntax.Lss, "<", 9},
	{"neq", syntax.Neq, "!=", 8}, {"leq", syntax.Leq, "<=", 9}, {"geq", syntax.Geq, ">=", 9},
	{"and", syntax.And, "&", 7}, {"or", syntax.Or, "|", 5}, {"xor", syntax.Xor, "^", 6},
	{"shr", syntax.Shr, ">>", 10}, {"shl", syntax.Shl, "<<", 10},
	{"andL", syntax.AndArit, "&&", 4}, {"orL", syntax.OrArit, "||", 3}, {"xorBool", syntax.XorBool, "^^", 3},
	{"comma", syntax.Comma, ",", 0}, {"ternQuest", syntax.TernQuest, "?", 2}, {"ternColon", syntax.TernColon, ":", -1},
	{"assgn", syntax.Assgn, "=", 1}, {"addAssgn", syntax.AddAssgn, "+=", 1}, {"subAssgn", syntax.SubAssgn, "-=", 1},
	{"mulAssgn", syntax.MulAssgn, "*=", 1}, {"quoAssgn", syntax.QuoAssgn, "/=", 1}, {"remAssgn", syntax.RemAssgn, "%=", 1},
	{"andAssgn", syntax.AndAssgn, "&=", 1}, {"orAssgn", syntax.OrAssgn, "|=", 1}, {"xorAssgn", syntax.XorAssgn, "^=", 1},
	{"shlAssgn", syntax.ShlAssgn, "<<=", 1}, {"shrAssgn", syntax.ShrAssgn, ">>=", 1},
	{"andBoolAssgn", syntax.AndBoolAssgn, "", 1}, {"orBoolAssgn", syntax.OrBoolAssgn, "", 1},
	{"xorBoolAssgn", syntax.XorBoolAssgn, "", 1}, {"powAssgn", syntax.PowAssgn, "", 1},
}

// symbol names of the model's `Sym` for the binary operators
var c20SymName = map[string]string{
	"add": "plus", "sub": "minus", "mul": "star", "quo": "slash", "rem": "perc", "pow": "power",
	"eql": "equal", "neq": "nequal", "lss": "lss", "gtr": "gtr", "leq": "leq", "geq": "geq",
	"and": "and", "or": "or", "xor": "caret", "shl": "shl", "shr": "shr", "andL": "andAnd",
	"orL": "orOr", "xorBool": "dblCaret", "comma": "comma", "ternQuest": "quest", "ternColon": "colon",
	"assgn": "assgn", "addAssgn": "addAssgn", "subAssgn": "subAssgn", "mulAssgn": "mulAssgn",
	"quoAssgn": "quoAssgn", "remAssgn": "remAssgn", "andAssgn": "andAssgn", "orAssgn": "orAssgn",
	"xorAssgn": "xorAssgn", "shlAssgn": "shlAssgn", "shrAssgn": "shrAssgn",
}

type c20UnInfo struct {
	name string
	op   syntax.UnAritOperator
	txt  string
	sym  string
}

var c20Uns = []c20UnInfo{
	{"not", syntax.Not, "!", "exclMark"}, {"bitNeg", syntax.BitNegation, "~", "tilde"},
	{"inc", syntax.Inc, "++", "addAdd"}, {"dec", syntax.Dec, "--", "subSub"},
	{"plus", syntax.Plus, "+", "plus"}, {"minus", syntax.Minus, "-", "minus"},
}

func c20Bin(name string) *c20BinInfo {
	for i := range c20Bins {
		if c20Bins[i].name == name {
			return &c20Bins[i]
		}
	}
	panic("bin " + name)
}
func c20BinByOp(op syntax.BinAritOperator) *c20BinInfo {
	for i := range c20Bins {
		if c20Bins[i].op == op {
			return &c20Bins[i]
		}
	}
	return nil
}
func c20Un(name string) *c20UnInfo {
	for i := range c20Uns {
		if c20Uns[i].name == name {
			return &c20Uns[i]
		}
	}
	panic("un " + name)
}

func aW(w string) *aExpr                { return &aExpr{kind: 'w', w: w} }
func aP(x *aExpr) *aExpr                { return &aExpr{kind: 'p', x: x} }
func aU(op string, post bool, x *aExpr) *aExpr { return &aExpr{kind: 'u', op: op, post: post, x: x} }
func aB(op string, x, y *aExpr) *aExpr  { return &aExpr{kind: 'b', op: op, x: x, y: y} }

// encode is the prefix encoding understood by the Lean driver.
func (e *aExpr) encode(sb *strings.Builder) {
	switch e.kind {
	case 'w':
		sb.WriteString(" W " + hx(e.w))
	case 'p':
		sb.WriteString(" P")
		e.x.encode(sb)
	case 'u':
		p := "0"
		if e.post {
			p = "1"
		}
		sb.WriteString(" U " + e.op + " " + p)
		e.x.encode(sb)
	case 'b':
		sb.WriteString(" B " + e.op)
		e.x.encode(sb)
		e.y.encode(sb)
	}
}
func (e *aExpr) enc() string {
	var sb strings.Builder
	e.encode(&sb)
	return strings.TrimPrefix(sb.String(), " ")
}

func (e *aExpr) words(into map[string]bool) {
	switch e.kind {
	case 'w':
		into[e.w] = true
	case 'p', 'u':
		e.x.words(into)
	case 'b':
		e.x.words(into)
		e.y.words(into)
	}
}

func (e *aExpr) size() int {
	switch e.kind {
	case 'w':
		return 1
	case 'p', 'u':
		return 1 + e.x.size()
	}
	return 1 + e.x.size() + e.y.size()
}

// toSyntax builds the syntax tree by hand (so that shapes the parser never produces are covered).
func (e *aExpr) toSyntax() syntax.ArithmExpr {
	switch e.kind {
	case 'w':
		return &syntax.Word{Parts: []syntax.WordPart{&syntax.Lit{Value: e.w}}}
	case 'p':
		return &syntax.ParenArithm{X: e.x.toSyntax()}
	case 'u':
		return &syntax.UnaryArithm{Op: c20Un(e.op).op, Post: e.post, X: e.x.toSyntax()}
	default:
		return &syntax.BinaryArithm{Op: c20Bin(e.op).op, X: e.x.toSyntax(), Y: e.y.toSyntax()}
	}
}

// fromSyntax converts a parsed tree; ok=false when it contains something outside the model.
func c20FromSyntax(x syntax.ArithmExpr) (*aExpr, bool) {
	switch x := x.(type) {
	case *syntax.Word:
		if len(x.Parts) != 1 {
			return nil, false
		}
		l, ok := x.Parts[0].(*syntax.Lit)
		if !ok {
			return nil, false
		}
		return aW(l.Value), true
	case *syntax.ParenArithm:
		a, ok := c20FromSyntax(x.X)
		if !ok {
			return nil, false
		}
		return aP(a), true
	case *syntax.UnaryArithm:
		a, ok := c20FromSyntax(x.X)
		if !ok {
			return nil, false
		}
		for _, u := range c20Uns {
			if u.op == x.Op {
				return aU(u.name, x.Post, a), true
			}
		}
		return nil, false
	case *syntax.BinaryArithm:
		a, ok1 := c20FromSyntax(x.X)
		b, ok2 := c20FromSyntax(x.Y)
		bi := c20BinByOp(x.Op)
		if !ok1 || !ok2 || bi == nil {
			return nil, false
		}
		return aB(bi.name, a, b), true
	}
	return nil, false
}

// tokens mirrors the model's printArith: (model token names, source texts); ok=false when an
// operator has no bash spelling.
func (e *aExpr) tokens(names, texts *[]string) bool {
	switch e.kind {
	case 'w':
		*names = append(*names, "W "+hx(e.w))
		*texts = append(*texts, e.w)
		return true
	case 'p':
		*names = append(*names, "LP")
		*texts = append(*texts, "(")
		if !e.x.tokens(names, texts) {
			return false
		}
		*names = append(*names, "RP")
		*texts = append(*texts, ")")
		return true
	case 'u':
		u := c20Un(e.op)
		if e.post {
			if !e.x.tokens(names, texts) {
				return false
			}
			*names = append(*names, u.sym)
			*texts = append(*texts, u.txt)
			return true
		}
		*names = append(*names, u.sym)
		*texts = append(*texts, u.txt)
		return e.x.tokens(names, texts)
	}
	if e.op == "ternQuest" && e.y.kind == 'b' && e.y.op == "ternColon" {
		ok := e.x.tokens(names, texts)
		*names = append(*names, "quest")
		*texts = append(*texts, "?")
		ok = e.y.x.tokens(names, texts) && ok
		*names = append(*names, "colon")
		*texts = append(*texts, ":")
		return e.y.y.tokens(names, texts) && ok
	}
	b := c20Bin(e.op)
	if b.txt == "" {
		return false
	}
	ok := e.x.tokens(names, texts)
	*names = append(*names, c20SymName[e.op])
	*texts = append(*texts, b.txt)
	return e.y.tokens(names, texts) && ok
}

// level of the outermost construct in the parser's chain (15 = value).
func (e *aExpr) level() int {
	switch e.kind {
	case 'w', 'p':
		return 15
	case 'u':
		if e.op == "inc" || e.op == "dec" {
			return 15
		}
		return 14
	}
	return c20Bin(e.op).lvl
}

func c20ValidName(s string) bool { return syntax.ValidName(s) }

// parenthesize inserts ParenArithm nodes so that printing the tree and parsing it again gives the
// same tree (the parser's binding order, as modelled by `WF` in Lean).
func (e *aExpr) parenthesize() *aExpr {
	need := func(c *aExpr, lvl int) *aExpr {
		c = c.parenthesize()
		if c.level() < lvl {
			return aP(c)
		}
		return c
	}
	switch e.kind {
	case 'w':
		return e
	case 'p':
		return aP(e.x.parenthesize())
	case 'u':
		if e.op == "inc" || e.op == "dec" {
			return e // operand is a name by construction
		}
		return aU(e.op, false, need(e.x, 14))
	}
	switch {
	case e.op == "ternQuest":
		return aB("ternQuest", need(e.x, 3), aB("ternColon", need(e.y.x, 0), need(e.y.y, 2)))
	case e.op == "pow":
		return aB("pow", need(e.x, 14), need(e.y, 13))
	case c20Bin(e.op).lvl == 1:
		return aB(e.op, e.x, need(e.y, 1))
	default:
		l := c20Bin(e.op).lvl
		return aB(e.op, need(e.x, l), need(e.y, l+1))
	}
}

// source text: tokens joined by blanks (non-compact) or glued (compact, for `let`); ok=false when
// gluing would change the tokenisation.
func c20Text(texts []string, compact bool) (string, bool) {
	if !compact {
		return strings.Join(texts, " "), true
	}
	for i := 0; i+1 < len(texts); i++ {
		a, b := texts[i], texts[i+1]
		la, fb := a[len(a)-1], b[0]
		if strings.ContainsRune("+-*<>&|=!^", rune(la)) && strings.ContainsRune("+-*<>&|=^", rune(fb)) {
			return "", false
		}
	}
	return strings.Join(texts, ""), true
}

// ---------------------------------------------------------------------------------------------
// environment for in-process evaluation

type c20Env struct {
	m  map[string]string
	ro map[string]bool
}

type c20SetErr struct{}

func (c20SetErr) Error() string { return "c20: read-only" }

func (e *c20Env) Get(name string) expand.Variable {
	if v, ok := e.m[name]; ok {
		return expand.Variable{Set: true, Kind: expand.String, Str: v}
	}
	return expand.Variable{}
}
func (e *c20Env) Each(f func(string, expand.Variable) bool) {
	for k, v := range e.m {
		if !f(k, expand.Variable{Set: true, Kind: expand.String, Str: v}) {
			return
		}
	}
}
func (e *c20Env) Set(name string, vr expand.Variable) error {
	if e.ro[name] {
		return c20SetErr{}
	}
	e.m[name] = vr.Str
	return nil
}

// c20ROEnv is an Environ that is not a WriteEnviron.
type c20ROEnv struct{ e *c20Env }

func (r c20ROEnv) Get(name string) expand.Variable              { return r.e.Get(name) }
func (r c20ROEnv) Each(f func(string, expand.Variable) bool) { r.e.Each(f) }

type c20Var struct {
	name, val string
	ro        bool
}

func c20ErrClass(err error) string {
	if err == nil {
		return ""
	}
	m := err.Error()
	switch {
	case m == "division by zero":
		return "divZero"
	case m == "exponent less than 0":
		return "negExp"
	case strings.HasPrefix(m, "unsupported unary"):
		return "unsupUnary"
	case strings.HasPrefix(m, "unsupported binary"):
		return "unsupBinary"
	case m == "c20: read-only" || m == "environment is read-only":
		return "readOnly"
	case strings.HasPrefix(m, "unsupported assignment target"):
		return "unsupTarget"
	case m == "expression recursion level exceeded":
		return "recursion"
	case strings.HasPrefix(m, "syntax error in expression"):
		return "syntaxErr"
	}
	return "other:" + strings.ReplaceAll(m, " ", "_")
}

// c20Eval runs expand.Arithm; the answer has the driver's format.
func c20Eval(vars []c20Var, roAll bool, x syntax.ArithmExpr) string {
	env := &c20Env{m: map[string]string{}, ro: map[string]bool{}}
	for _, v := range vars {
		if v.val != "" {
			env.m[v.name] = v.val
		}
		if v.ro {
			env.ro[v.name] = true
		}
	}
	cfg := &expand.Config{Env: env}
	if roAll {
		cfg.Env = c20ROEnv{env}
	}
	var res string
	p := safely(func() {
		n, err := expand.Arithm(cfg, x)
		if err != nil {
			res = "err " + c20ErrClass(err)
		} else {
			res = "ok " + strconv.Itoa(n)
		}
	})
	if p != "" {
		res = "panic"
	}
	vals := make([]string, len(vars))
	for i, v := range vars {
		vals[i] = hx(env.m[v.name])
	}
	return res + " ; " + strings.Join(vals, " ")
}

func c20EnvArgs(vars []c20Var, roAll bool) string {
	var sb strings.Builder
	sb.WriteString(strconv.Itoa(len(vars)))
	for _, v := range vars {
		ro := "0"
		if v.ro {
			ro = "1"
		}
		sb.WriteString(" " + hx(v.name) + " " + hx(v.val) + " " + ro)
	}
	if roAll {
		sb.WriteString(" 1")
	} else {
		sb.WriteString(" 0")
	}
	return sb.String()
}

// completeVars appends every word of the expression (and every name a value mentions) that is not
// yet listed, with an empty value, so that the final environment is observed on all of them.
func c20CompleteVars(vars []c20Var, e *aExpr) []c20Var {
	seen := map[string]bool{}
	for _, v := range vars {
		seen[v.name] = true
	}
	ws := map[string]bool{}
	e.words(ws)
	var extra []string
	for w := range ws {
		if !seen[w] && !strings.ContainsAny(w, " \t\n") {
			extra = append(extra, w)
		}
	}
	sort.Strings(extra)
	for _, w := range extra {
		vars = append(vars, c20Var{name: w})
	}
	return vars
}

// ---------------------------------------------------------------------------------------------
// parsing with the real parser

// c20Parse parses `(( text ))` as a program and returns the expression of the ArithmCmd.
func c20Parse(text string) (syntax.ArithmExpr, bool) {
	var out syntax.ArithmExpr
	ok := false
	p := safely(func() {
		f, err := syntax.NewParser(syntax.Variant(syntax.LangBash)).Parse(strings.NewReader("(( "+text+" ))"), "")
		if err != nil || len(f.Stmts) != 1 {
			return
		}
		ac, isAC := f.Stmts[0].Cmd.(*syntax.ArithmCmd)
		if !isAC || ac.X == nil || f.Stmts[0].Negated || f.Stmts[0].Background || len(f.Stmts[0].Redirs) > 0 {
			return
		}
		out, ok = ac.X, true
	})
	if p != "" {
		return nil, false
	}
	return out, ok
}

func c20ParseAnswer(text string) string {
	x, ok := c20Parse(text)
	if !ok {
		return "err"
	}
	a, ok := c20FromSyntax(x)
	if !ok {
		return "err-outside-model"
	}
	return a.enc()
}

// ---------------------------------------------------------------------------------------------
// binding-order table read from the source

func c20PrecTable() string {
	repo := os.Getenv("VERIF_REPO")
	if repo == "" {
		repo = "/repo"
	}
	fset := token.NewFileSet()
	f, err := goparser.ParseFile(fset, filepath.Join(repo, "syntax", "parser_arithm.go"), nil, 0)
	if err != nil {
		return "unreadable: " + err.Error()
	}
	funcs := map[string]*ast.FuncDecl{}
	for _, d := range f.Decls {
		if fd, ok := d.(*ast.FuncDecl); ok && fd.Body != nil {
			funcs[fd.Name.Name] = fd
		}
	}
	goName := map[string]string{
		"Add": "add", "Sub": "sub", "Mul": "mul", "Quo": "quo", "Rem": "rem", "Pow": "pow", "Eql": "eql",
		"Gtr": "gtr", "Lss": "lss", "Neq": "neq", "Leq": "leq", "Geq": "geq", "And": "and", "Or": "or",
		"Xor": "xor", "Shr": "shr", "Shl": "shl", "AndArit": "andL", "OrArit": "orL", "XorBool": "xorBool",
		"Comma": "comma", "TernQuest": "ternQuest", "TernColon": "ternColon", "Assgn": "assgn",
		"AddAssgn": "addAssgn", "SubAssgn": "subAssgn", "MulAssgn": "mulAssgn", "QuoAssgn": "quoAssgn",
		"RemAssgn": "remAssgn", "AndAssgn": "andAssgn", "OrAssgn": "orAssgn", "XorAssgn": "xorAssgn",
		"ShlAssgn": "shlAssgn", "ShrAssgn": "shrAssgn", "AndBoolAssgn": "andBoolAssgn",
		"OrBoolAssgn": "orBoolAssgn", "XorBoolAssgn": "xorBoolAssgn", "PowAssgn": "powAssgn",
		"Not": "not", "BitNegation": "bitNeg", "Plus": "plus", "Minus": "minus", "Inc": "inc", "Dec": "dec",
	}
	ops := func(es []ast.Expr) string {
		var out []string
		for _, e := range es {
			id, ok := e.(*ast.Ident)
			if !ok {
				out = append(out, "?")
				continue
			}
			if n, ok := goName[id.Name]; ok {
				out = append(out, n)
			} else {
				out = append(out, "?"+id.Name)
			}
		}
		return strings.Join(out, ",")
	}
	// callee returns the method name of a call `p.<name>(…)`.
	callee := func(e ast.Expr) (string, *ast.CallExpr) {
		c, ok := e.(*ast.CallExpr)
		if !ok {
			return "", nil
		}
		s, ok := c.Fun.(*ast.SelectorExpr)
		if !ok {
			return "", nil
		}
		return s.Sel.Name, c
	}
	selName := func(e ast.Expr) string {
		if s, ok := e.(*ast.SelectorExpr); ok {
			return s.Sel.Name
		}
		return ""
	}
	var items []string
	cur := "arithmExpr"
	for steps := 0; steps < 40 && cur != ""; steps++ {
		fd := funcs[cur]
		if fd == nil {
			items = append(items, "missing:"+cur)
			break
		}
		next := ""
		item := ""
		// shape 1: single `return p.f(compact, …)`
		if len(fd.Body.List) == 1 {
			if rs, ok := fd.Body.List[0].(*ast.ReturnStmt); ok && len(rs.Results) == 1 {
				name, call := callee(rs.Results[0])
				switch {
				case name == "arithmExprBinary" && len(call.Args) >= 3:
					next = selName(call.Args[1])
					item = "L:" + ops(call.Args[2:])
				case name != "" && len(call.Args) == 1:
					next = name // plain delegation (arithmExpr → arithmExprComma)
				}
			}
		}
		if next == "" {
			// shape 2: `value := p.next(compact)` first, then special handling
			var firstCall string
			var caseOps []ast.Expr
			var cmpOp string
			ast.Inspect(fd.Body, func(n ast.Node) bool {
				switch n := n.(type) {
				case *ast.AssignStmt:
					if firstCall == "" && len(n.Rhs) == 1 {
						if name, call := callee(n.Rhs[0]); call != nil && strings.HasPrefix(name, "arithmExpr") {
							firstCall = name
						}
					}
				case *ast.CaseClause:
					if caseOps == nil {
						caseOps = n.List
					}
				case *ast.BinaryExpr:
					if n.Op == token.NEQ && cmpOp == "" {
						if id, ok := n.Y.(*ast.Ident); ok {
							if _, known := goName[id.Name]; known {
								cmpOp = goName[id.Name]
							}
						}
					}
				}
				return true
			})
			switch cur {
			case "arithmExprAssign":
				item, next = "assign:"+ops(caseOps), firstCall
			case "arithmExprTernary":
				if cmpOp == "ternQuest" {
					item = "ternary"
				} else {
					item = "ternary?" + cmpOp
				}
				next = firstCall
			case "arithmExprPower":
				item, next = "power:"+cmpOp, firstCall
			case "arithmExprUnary":
				item = "unary:" + ops(caseOps)
				// falls through to p.arithmExprValue in its last return
				next = "arithmExprValue"
			case "arithmExprValue":
				item, next = "value", ""
			default:
				item = "unknown:" + cur
			}
		}
		if item != "" {
			items = append(items, item)
		}
		if cur == "arithmExprValue" {
			break
		}
		cur = next
	}
	return strings.Join(items, " ")
}

// ---------------------------------------------------------------------------------------------
// generators

var c20Names = []string{"x", "y", "z", "w", "_a1", "A"}

var c20BoundaryInts = []int64{0, 1, -1, 2, -2, 3, 7, 8, 10, 31, 32, 62, 63, 64, 65, 100, 255, 256, 1 << 31, -(1 << 31),
	1<<32 - 1, 1 << 32, 3037000499, 3037000500, 1<<62 - 1, 1 << 62, -(1 << 62), 1<<63 - 1, -(1<<63 - 1), -1 << 63}

func c20PickInt(r *Rand) int64 {
	switch r.Intn(10) {
	case 0, 1, 2, 3, 4:
		return int64(r.Intn(13)) - 2
	case 5, 6:
		return c20BoundaryInts[r.Intn(len(c20BoundaryInts))]
	case 7:
		return int64(r.Uint64())
	case 8:
		return int64(r.Uint64() >> uint(r.Intn(64)))
	default:
		return -int64(r.Uint64() >> uint(1+r.Intn(63)))
	}
}

const c20Digits64 = "0123456789abcdefghijklmnopqrstuvwxyzABCDEFGHIJKLMNOPQRSTUVWXYZ@_"

// c20Lit renders n ≥ 0 as an unsigned literal in one of bash's forms.
func c20Lit(r *Rand, n uint64) string {
	switch r.Intn(12) {
	case 0:
		return "0x" + strconv.FormatUint(n, 16)
	case 1:
		return "0X" + strings.ToUpper(strconv.FormatUint(n, 16))
	case 2:
		return "0" + strconv.FormatUint(n, 8)
	case 3:
		base := 2 + r.Intn(63)
		var ds []byte
		for m := n; ; m /= uint64(base) {
			d := c20Digits64[m%uint64(base)]
			if base <= 36 && r.Bool() && d >= 'a' && d <= 'z' {
				d = d - 'a' + 'A'
			}
			ds = append([]byte{d}, ds...)
			if m < uint64(base) {
				break
			}
		}
		return strconv.Itoa(base) + "#" + string(ds)
	default:
		return strconv.FormatUint(n, 10)
	}
}

var c20JunkWords = []string{"08", "09", "1x", "2#2", "65#1", "1#0", "0x", "0X", "0xg", "7#", "#5", "10#", "64#@_", "63#_",
	"37#Z", "36#Z", "36#z", "010#1", "0#5", "9223372036854775807", "9223372036854775808", "18446744073709551615",
	"18446744073709551616", "99999999999999999999", "99999999999999999999z", "0x7fffffffffffffff", "0x8000000000000000",
	"0xffffffffffffffff", "0x10000000000000000", "01777777777777777777777", "2#1111111111111111111111111111111111111111111111111111111111111111",
	"64#7________________", "64#8000000000", "64#__________0", "1_0", "1e3", "é", "0b11", "0o7", "-", "+", "-+1", "+-1", "--1", "5", "+5", "-5", " 5", "5 ",
	"\t-5\n", "- 5", "1 2", "128#1", "-2#1", "+16#ff", "16#-f", "16#+f", "16#", "127#1", "00#1", "02#1", "2#", "0x-1", "0-1", "00", "007", "0x0x1",
	"\v7\f", "\r7", "x#1", "1##2", "1#2#3", "36#-z", "4#123", "4#124"}

var c20ExprTexts = []string{"1+2", "y+1", "x", "y", "z", "y++", "(3)", "1 + 2", "2*3", "-y", "+z", " x ", "0 ? 1 : 2", "y=4", "1/0", "a b", "1 2", ")", "x+", "x+1", "w*=2", "z , 3", "--5", "2**3**2", "x+=x++", "08+1", "1x"}

// wild value of a variable for the model/code correspondence: anything goes.
func c20WildValue(r *Rand) string {
	switch r.Intn(12) {
	case 0:
		return ""
	case 1, 2:
		return r.Pick(c20Names)
	case 3:
		return r.Pick(c20ExprTexts)
	case 4, 5:
		return r.Pick(c20JunkWords)
	case 6:
		s := ""
		for i, n := 0, r.Intn(6); i < n; i++ {
			s += r.Pick([]string{"0", "1", "7", "8", "9", "a", "f", "z", "Z", "x", "X", "#", "@", "_", "-", "+", " ", "2", "36", "64", "10"})
		}
		return s
	default:
		v := c20PickInt(r)
		sp := r.Pick([]string{"", "", "", " ", "\t", "\n"})
		if v < 0 {
			return sp + "-" + c20Lit(r, uint64(-v)) + sp
		}
		return sp + r.Pick([]string{"", "", "+"}) + c20Lit(r, uint64(v)) + sp
	}
}

func c20WildWord(r *Rand) string {
	switch r.Intn(10) {
	case 0, 1, 2, 3:
		return r.Pick(c20Names)
	case 4:
		return r.Pick(c20JunkWords)
	case 5:
		return r.Pick([]string{"q", "x1", "_", "nosuch", "X", "a_b"})
	default:
		v := c20PickInt(r)
		if v < 0 {
			v = -(v + 1)
		}
		return c20Lit(r, uint64(v))
	}
}

var c20AllBinNames, c20BashBinNames, c20PlainBinNames []string

func init() {
	for _, b := range c20Bins {
		c20AllBinNames = append(c20AllBinNames, b.name)
		if b.txt != "" && b.name != "xorBool" && b.name != "ternColon" {
			c20BashBinNames = append(c20BashBinNames, b.name)
			if b.lvl != 1 && b.name != "ternQuest" {
				c20PlainBinNames = append(c20PlainBinNames, b.name)
			}
		}
	}
}

// wild tree: every node kind and operator, including shapes the parser never builds.
func c20WildExpr(r *Rand, depth int) *aExpr {
	if depth <= 0 || r.Intn(4) == 0 {
		return aW(c20WildWord(r))
	}
	switch k := r.Intn(20); {
	case k == 0:
		return aP(c20WildExpr(r, depth-1))
	case k < 4:
		u := c20Uns[r.Intn(len(c20Uns))]
		if u.name == "inc" || u.name == "dec" {
			if r.Intn(8) == 0 {
				return aU(u.name, r.Bool(), c20WildExpr(r, depth-1)) // non-word operand: panic path
			}
			return aU(u.name, r.Bool(), aW(c20WildWord(r)))
		}
		return aU(u.name, r.Intn(10) == 0, c20WildExpr(r, depth-1))
	case k < 7:
		op := c20Bins[23+r.Intn(11)].name // assignments
		if r.Intn(10) == 0 {
			return aB(op, c20WildExpr(r, depth-1), c20WildExpr(r, depth-1))
		}
		return aB(op, aW(c20WildWord(r)), c20WildExpr(r, depth-1))
	case k == 7:
		if r.Intn(6) == 0 {
			return aB("ternQuest", c20WildExpr(r, depth-1), c20WildExpr(r, depth-1)) // malformed
		}
		return aB("ternQuest", c20WildExpr(r, depth-1), aB("ternColon", c20WildExpr(r, depth-1), c20WildExpr(r, depth-1)))
	case k == 8:
		return aB(r.Pick(c20AllBinNames), c20WildExpr(r, depth-1), c20WildExpr(r, depth-1))
	default:
		return aB(r.Pick(c20PlainBinNames), c20WildExpr(r, depth-1), c20WildExpr(r, depth-1))
	}
}

// ---------------------------------------------------------------------------------------------
// streams

func c20HookStreams(c *Ctx, i int) {
	r := c.R
	// atoi
	s := c20WildValue(r)
	if r.Intn(3) == 0 {
		s = r.Pick(c20JunkWords)
	}
	c.Op("atoi "+hx(s), strconv.FormatInt(expand.VerifAtoi(s), 10))
	// binArit / intPow on boundary values
	x, y := c20PickInt(r), c20PickInt(r)
	b := c20Bins[r.Intn(len(c20Bins))]
	if r.Intn(3) == 0 {
		y = int64(r.Intn(70)) - 3
	}
	var ans string
	p := safely(func() {
		v, err := expand.VerifBinArit(b.op, int(x), int(y))
		if err != nil {
			ans = "err " + c20ErrClass(err)
		} else {
			ans = "ok " + strconv.Itoa(v)
		}
	})
	if p != "" {
		ans = "panic"
	}
	c.Op(fmt.Sprintf("binarit %s %d %d", b.name, x, y), ans)
	pa, pb := c20PickInt(r), int64(r.Intn(70))
	if r.Intn(4) == 0 {
		pb = c20PickInt(r)
		if pb > 1<<20 || pb < 0 {
			pb = int64(r.Intn(1 << 20))
		}
	}
	c.Op(fmt.Sprintf("intpow %d %d", pa, pb), strconv.Itoa(expand.VerifIntPow(int(pa), int(pb))))
	c.Op(fmt.Sprintf("fmtint %d", x), hx(strconv.FormatInt(x, 10)))
	c.Case(fmt.Sprintf("hook/%s/%s/%d/%d", s, b.name, x, y), true, "hooks")
}

// c20ModelText reports whether a variable value stays inside the alphabet of the model of
// cfg.arithmValue (word characters, blanks, operators, parentheses); `$`, quotes, backslashes,
// brackets, control and non-ASCII bytes are lexed by the real parser in ways the model does not
// cover, and so are `^^` and a token starting with `#`.
func c20ModelText(v string) bool {
	for i := 0; i < len(v); i++ {
		ch := v[i]
		switch {
		case ch >= '0' && ch <= '9', ch >= 'a' && ch <= 'z', ch >= 'A' && ch <= 'Z':
		case strings.IndexByte("_@# \t\n+-*/%<>=!&|^~?:,()", ch) >= 0:
		default:
			return false
		}
		if ch == '#' && (i == 0 || strings.IndexByte("_@#", v[i-1]) < 0 && !(v[i-1] >= '0' && v[i-1] <= '9' || v[i-1] >= 'a' && v[i-1] <= 'z' || v[i-1] >= 'A' && v[i-1] <= 'Z')) {
			return false
		}
	}
	return !strings.Contains(v, "^^")
}

func c20WildEnv(r *Rand) ([]c20Var, bool) {
	var vars []c20Var
	n := r.Intn(5)
	perm := append([]string{}, c20Names...)
	for i := 0; i < n; i++ {
		j := i + r.Intn(len(perm)-i)
		perm[i], perm[j] = perm[j], perm[i]
		val := c20WildValue(r)
		if !c20ModelText(val) {
			val = r.Pick([]string{"1 2", "x+", ")", "-x", " y ", "y +1", "(z)*2", "q=3", "x++"})
		}
		vars = append(vars, c20Var{name: perm[i], val: val, ro: r.Intn(25) == 0})
	}
	return vars, r.Intn(40) == 0
}

// long name chains around the maxNameRefDepth boundary
func c20ChainCase(r *Rand) ([]c20Var, *aExpr) {
	n := 95 + r.Intn(10)
	var vars []c20Var
	for i := 0; i < n; i++ {
		vars = append(vars, c20Var{name: fmt.Sprintf("v%d", i), val: fmt.Sprintf("v%d", i+1)})
	}
	vars = append(vars, c20Var{name: fmt.Sprintf("v%d", n), val: r.Pick([]string{"7", "", "v0", "1+1"})})
	return vars, aB("add", aW("v0"), aW(fmt.Sprintf("v%d", r.Intn(n+1))))
}

func c20EvalCase(c *Ctx, vars []c20Var, roAll bool, e *aExpr, tags ...string) {
	vars = c20CompleteVars(vars, e)
	got := c20Eval(vars, roAll, e.toSyntax())
	c.Op("eval "+c20EnvArgs(vars, roAll)+" "+e.enc(), got)
	tag := "eval-ok"
	switch {
	case strings.HasPrefix(got, "err"):
		tag = "eval-" + strings.Fields(got)[1]
	case strings.HasPrefix(got, "panic"):
		tag = "eval-panic"
	}
	c.Case("eval/"+c20EnvArgs(vars, roAll)+"/"+e.enc(), e.size() >= 3, append(tags, tag)...)
}

// texts that are syntax errors both for bash and for the code (no complete first expression)
var c20IncompleteText = map[string]bool{"3 +": true, "1 +": true, "* 2": true, "y +": true}

// c20AssignStress: the TARGET of an assignment (plain `=`, and op= / ++ / -- for contrast) holds
// expression text with a side effect, text that fails to evaluate, or a name chain.  bash never
// evaluates the target of a plain `=`; the other operators read it (as a word) before the
// right-hand side.  `reads` says whether the target is read.
func c20AssignStress(r *Rand) (vars []c20Var, e *aExpr, reads bool) {
	texts := []string{"y++", "z = 9", "w += 1", "y++ + z", "--y", "z = y = 4", // side effects
		"1/0", "2 ** -1", "3 +", "a b", "y +", "/tmp/work dir", // fail to evaluate (or, for `a b`, trailing tokens)
		"u", "u2", "y + 1", "7", ""} // name chain, pure expression, literal, unset
	txt := texts[r.Intn(len(texts))]
	vars = []c20Var{{name: "t", val: txt}, {name: "y", val: strconv.Itoa(1 + r.Intn(5))}, {name: "z", val: strconv.Itoa(r.Intn(4))},
		{name: "w", val: strconv.Itoa(r.Intn(9))}, {name: "u", val: r.Pick([]string{"y", "3", "y++", ""})}, {name: "u2", val: "u"}}
	rhs := []*aExpr{aW("5"), aW("0"), aW("y"), aB("add", aW("y"), aW("1")), aW("u"), aB("mul", aW("2"), aW("3"))}[r.Intn(6)]
	var core *aExpr
	switch k := r.Intn(10); {
	case k < 5:
		core = aB("assgn", aW("t"), rhs)
	case k < 8:
		core = aB(c20Bins[24+r.Intn(10)].name, aW("t"), rhs)
		reads = true
	default:
		core = aU(r.Pick([]string{"inc", "dec"}), r.Bool(), aW("t"))
		reads = true
	}
	switch r.Intn(5) {
	case 0:
		e = aB("add", core, aW("y"))
	case 1:
		e = aB("comma", aB("assgn", aW("w"), aW("y")), core)
	case 2:
		e = aB("ternQuest", aW("y"), aB("ternColon", core, aW("0")))
	default:
		e = core
	}
	return vars, e.parenthesize(), reads
}

// c20BaseLit: a valid base#digits constant for every base 2..64 (boundary bases favoured), digits
// from the whole alphabet of the base in both cases (bases <= 36 are case-insensitive; 37..64 use
// a-z = 10..35, A-Z = 36..61, @ = 62, _ = 63), always including the digit base-1.
func c20BaseLit(r *Rand) string {
	bases := []int{2, 8, 10, 11, 16, 35, 36, 36, 36, 37, 61, 62, 63, 64}
	base := bases[r.Intn(len(bases))]
	if r.Intn(3) == 0 {
		base = 2 + r.Intn(63)
	}
	digit := func(d int) byte {
		ch := c20Digits64[d]
		if base <= 36 && ch >= 'a' && ch <= 'z' && r.Bool() {
			ch = ch - 'a' + 'A'
		}
		return ch
	}
	n := 1 + r.Intn(4)
	ds := []byte{digit(base - 1)}
	for i := 1; i < n; i++ {
		ds = append(ds, digit(r.Intn(base)))
	}
	if r.Bool() {
		ds[0], ds[len(ds)-1] = ds[len(ds)-1], ds[0]
	}
	return strconv.Itoa(base) + "#" + string(ds)
}

// c20ShiftStress builds a grammatical expression around shifts whose count is negative, >= 64 or
// huge, given literally, through unary minus, through a variable, or with <<= / >>=.  The values of
// such shifts are outside the property's domain (bash is platform-defined there), so only "no Go
// panic, and the model agrees with the code" is checked on them.
func c20ShiftStress(r *Rand) ([]c20Var, *aExpr) {
	counts := []int64{-1, -2, -63, -64, -65, -128, 64, 65, 127, 128, 1 << 32, 1 << 40, -(1 << 40), 1<<63 - 1, -(1<<63 - 1), 63, 0}
	cnt := counts[r.Intn(len(counts))]
	if r.Intn(4) == 0 {
		cnt = int64(r.Intn(300)) - 150
	}
	lit := func(v int64) *aExpr {
		if v < 0 {
			return aU("minus", false, aW(strconv.FormatInt(-v, 10)))
		}
		return aW(strconv.FormatInt(v, 10))
	}
	vars := []c20Var{{name: "x", val: strconv.Itoa(r.Intn(40) - 20)}, {name: "y", val: strconv.FormatInt(cnt, 10)}}
	var count *aExpr
	switch r.Intn(4) {
	case 0:
		count = lit(cnt)
	case 1:
		count = aW("y")
	case 2:
		count = aP(aB("sub", aW("0"), lit(-cnt)))
	default:
		vars = append(vars, c20Var{name: "z", val: "y"})
		count = aW("z")
	}
	left := []*aExpr{aW("1"), aW("x"), lit(-8), aW("255"), aP(aB("add", aW("x"), aW("3")))}[r.Intn(5)]
	var e *aExpr
	switch r.Intn(5) {
	case 0:
		e = aB("shl", left, count)
	case 1:
		e = aB("shr", left, count)
	case 2:
		e = aB("shlAssgn", aW("x"), count)
	case 3:
		e = aB("shrAssgn", aW("x"), count)
	default:
		e = aB("add", aB(r.Pick([]string{"shl", "shr"}), left, count), aB(r.Pick([]string{"shlAssgn", "shrAssgn"}), aW("x"), count))
	}
	if r.Intn(3) == 0 {
		e = aB("ternQuest", aW("1"), aB("ternColon", e, aW("0")))
	}
	return vars, e.parenthesize()
}

// c20NoPanic evaluates a grammatical expression in process and fails on a Go panic.
func c20NoPanic(c *Ctx, vars []c20Var, e *aExpr, tag string) {
	vars = c20CompleteVars(vars, e)
	got := c20Eval(vars, false, e.toSyntax())
	c.Op("eval "+c20EnvArgs(vars, false)+" "+e.enc(), got)
	c.Case("stress/"+c20EnvArgs(vars, false)+"/"+e.enc(), true, tag)
	if strings.HasPrefix(got, "panic") {
		c.Fail("eval "+c20EnvArgs(vars, false)+" "+e.enc(), "expand.Arithm panics on a grammatical expression")
	}
}

func c20ParseStreams(c *Ctx, e *aExpr) {
	r := c.R
	// print: the model's printArith tokens parsed by both sides
	var names, texts []string
	if e.tokens(&names, &texts) {
		ws := map[string]bool{}
		e.words(ws)
		ok := true
		for w := range ws {
			if !c20WordSafe(w) {
				ok = false
			}
		}
		if ok {
			text, _ := c20Text(texts, false)
			c.Op("print "+e.enc(), c20ParseAnswer(text))
		}
	}
	// parse: random token soup and perturbed well-formed token lists
	var tn, tt []string
	if r.Intn(3) == 0 {
		n := r.Intn(9)
		for i := 0; i < n; i++ {
			c20RandTok(r, &tn, &tt)
		}
	} else {
		w := c20DomainExpr(r, 3, &c20DomOpts{}).parenthesize()
		w.tokens(&tn, &tt)
		for k := r.Intn(3); k > 0 && len(tn) > 0; k-- {
			i := r.Intn(len(tn))
			switch r.Intn(3) {
			case 0: // delete
				tn = append(tn[:i:i], tn[i+1:]...)
				tt = append(tt[:i:i], tt[i+1:]...)
			case 1: // replace
				var an, at []string
				c20RandTok(r, &an, &at)
				tn[i], tt[i] = an[0], at[0]
			default: // insert
				var an, at []string
				c20RandTok(r, &an, &at)
				tn = append(tn[:i:i], append(an, tn[i:]...)...)
				tt = append(tt[:i:i], append(at, tt[i:]...)...)
			}
		}
	}
	text, _ := c20Text(tt, false)
	ans := c20ParseAnswer(text)
	c.Op("parse "+strings.Join(tn, " "), ans)
	tag := "parse-ok"
	if ans == "err" {
		tag = "parse-err"
	}
	c.Case("parse/"+text, len(tn) >= 3, tag)
}

// words that the lexer keeps as one literal token in arithmetic mode
func c20WordSafe(w string) bool {
	for i := 0; i < len(w); i++ {
		ch := w[i]
		switch {
		case ch >= '0' && ch <= '9', ch >= 'a' && ch <= 'z', ch >= 'A' && ch <= 'Z', ch == '_', ch == '@':
		case ch == '#' && i > 0:
		default:
			return false
		}
	}
	return w != ""
}

func c20RandTok(r *Rand, names, texts *[]string) {
	switch k := r.Intn(10); {
	case k < 4:
		w := r.Pick([]string{"x", "y", "1", "2", "0x1F", "16#ff", "08", "z", "10"})
		*names = append(*names, "W "+hx(w))
		*texts = append(*texts, w)
	case k == 4:
		*names = append(*names, "LP")
		*texts = append(*texts, "(")
	case k == 5:
		*names = append(*names, "RP")
		*texts = append(*texts, ")")
	case k == 6:
		u := c20Uns[r.Intn(len(c20Uns))]
		*names = append(*names, u.sym)
		*texts = append(*texts, u.txt)
	default:
		for {
			b := c20Bins[r.Intn(len(c20Bins))]
			if b.txt == "" {
				continue
			}
			*names = append(*names, c20SymName[b.name])
			*texts = append(*texts, b.txt)
			return
		}
	}
}

// ---------------------------------------------------------------------------------------------
// domain generator: the property's domain minus the documented exclusions (see c20 below)

type c20DomOpts struct {
	names   []string        // variables that may be read
	lvals   []string        // variables that may be targets of op=, ++, -- (hold a literal or nothing)
	letSafe bool            // only operators without shell metacharacters (unquoted `let` arguments)
	noErr   bool            // avoid / % ** (which may raise errors)
	small   bool            // small literals only
	_       map[string]bool // reserved
}

func c20DomLit(r *Rand, o *c20DomOpts) string {
	if o.small || r.Intn(4) != 0 {
		return strconv.Itoa(r.Intn(12))
	}
	v := c20PickInt(r)
	if v < 0 {
		v = -(v + 1)
	}
	if r.Intn(3) == 0 {
		v = v % 100000
	}
	return c20Lit(r, uint64(v))
}

func c20DomainExpr(r *Rand, depth int, o *c20DomOpts) *aExpr {
	names := o.names
	if len(names) == 0 {
		names = []string{"x", "y"}
	}
	lvals := o.lvals
	if len(lvals) == 0 {
		lvals = names
	}
	leaf := func() *aExpr {
		if r.Intn(2) == 0 {
			return aW(r.Pick(names))
		}
		return aW(c20DomLit(r, o))
	}
	if depth <= 0 || r.Intn(5) == 0 {
		return leaf()
	}
	sub := func() *aExpr { return c20DomainExpr(r, depth-1, o) }
	for {
		switch k := r.Intn(24); {
		case k < 2:
			if o.letSafe {
				continue
			}
			return aP(sub())
		case k < 4:
			op := r.Pick([]string{"not", "bitNeg", "plus", "minus"})
			if o.letSafe && (op == "bitNeg" || op == "not") {
				continue
			}
			return aU(op, false, sub())
		case k < 6:
			return aU(r.Pick([]string{"inc", "dec"}), r.Bool(), aW(r.Pick(lvals)))
		case k < 8:
			return aB("assgn", aW(r.Pick(names)), sub())
		case k < 10:
			op := c20Bins[24+r.Intn(10)].name
			if o.letSafe && strings.ContainsAny(c20Bin(op).txt, "<>&|") {
				continue
			}
			if o.noErr && (op == "quoAssgn" || op == "remAssgn") {
				continue
			}
			return aB(op, aW(r.Pick(lvals)), sub())
		case k == 10:
			return aB("ternQuest", sub(), aB("ternColon", sub(), sub()))
		case k == 11:
			return aB("comma", sub(), sub())
		default:
			op := r.Pick(c20PlainBinNames)
			if op == "comma" {
				continue
			}
			if o.letSafe && strings.ContainsAny(c20Bin(op).txt, "<>&|") {
				continue
			}
			if o.noErr && (op == "quo" || op == "rem" || op == "pow") {
				continue
			}
			return aB(op, sub(), sub())
		}
	}
}

// domain environment: literals (all of bash's forms, optional sign and blanks), unset, and name
// chains to earlier variables; `lvals` are the variables holding a literal or nothing.
func c20DomainEnv(r *Rand) (vars []c20Var, names, lvals []string) {
	n := 1 + r.Intn(4)
	pool := []string{"x", "y", "z", "w"}
	for i := 0; i < n; i++ {
		name := pool[i]
		names = append(names, name)
		switch k := r.Intn(12); {
		case k == 0:
			vars = append(vars, c20Var{name: name})
			lvals = append(lvals, name)
		case k <= 2 && i > 0:
			vars = append(vars, c20Var{name: name, val: pool[r.Intn(i)]})
			if c20LvalChainMode {
				lvals = append(lvals, name)
			}
		case c20ExprTextMode && k <= 5 && i > 0:
			// an expression over the earlier variables (no assignments to keep the oracle simple)
			sub := c20DomainExpr(r, 1+r.Intn(2), &c20DomOpts{names: pool[:i], lvals: []string{"qq"}, small: true}).parenthesize()
			if text, ok := c20ExprText(sub, false); ok && !strings.Contains(text, "qq") {
				vars = append(vars, c20Var{name: name, val: text})
			} else {
				vars = append(vars, c20Var{name: name, val: "3"})
				lvals = append(lvals, name)
			}
		default:
			v := int64(r.Intn(20)) - 4
			if r.Intn(4) == 0 {
				v = c20PickInt(r)
				if v == -1<<63 {
					v++
				}
			}
			sp1 := r.Pick([]string{"", "", "", "", " ", "\t"})
			sp2 := r.Pick([]string{"", "", "", "", " ", "\n"})
			var s string
			if v < 0 {
				s = "-" + c20Lit(r, uint64(-v))
			} else {
				s = r.Pick([]string{"", "", "", "+"}) + c20Lit(r, uint64(v))
			}
			vars = append(vars, c20Var{name: name, val: sp1 + s + sp2})
			lvals = append(lvals, name)
		}
	}
	return
}

// ---------------------------------------------------------------------------------------------
// independent oracle: bash's arithmetic on mathematical integers (big.Int), written from the bash
// manual; reports when a case leaves the property's domain (overflow, shift count) or the
// generator's documented exclusions.

type c20Oracle struct {
	env   map[string]string
	ood   bool   // outside the property's domain: signed overflow / shift count
	excl  string // outside the generator's domain (a documented exclusion)
	err   string // bash error class
	dead  bool   // an unevaluated branch contains `**` with a computed exponent
	depth int
}

var c20Min64 = new(big.Int).Lsh(big.NewInt(-1), 63)
var c20Max64 = new(big.Int).Sub(new(big.Int).Lsh(big.NewInt(1), 63), big.NewInt(1))

func (o *c20Oracle) fit(v *big.Int) *big.Int {
	if v.Cmp(c20Min64) < 0 || v.Cmp(c20Max64) > 0 {
		o.ood = true
	}
	return v
}

// number parses an unsigned bash literal; ok=false when bash would reject it.
func c20OracleNumber(s string) (*big.Int, bool) {
	if s == "" || s[0] < '0' || s[0] > '9' {
		return nil, false
	}
	base := 10
	digits := s
	switch {
	case strings.HasPrefix(s, "0x") || strings.HasPrefix(s, "0X"):
		base, digits = 16, s[2:]
		if digits == "" {
			return big.NewInt(0), true // bash accepts `0x` as 0
		}
	case s[0] == '0':
		base, digits = 8, s[1:]
		if digits == "" {
			return big.NewInt(0), true
		}
	default:
		if i := strings.IndexByte(s, '#'); i >= 0 {
			b, err := strconv.Atoi(s[:i])
			if err != nil || b < 2 || b > 64 || s[0] == '0' {
				return nil, false
			}
			base, digits = b, s[i+1:]
			if digits == "" {
				return nil, false
			}
		}
	}
	v := new(big.Int)
	for i := 0; i < len(digits); i++ {
		ch := digits[i]
		var d int
		switch {
		case ch >= '0' && ch <= '9':
			d = int(ch - '0')
		case ch >= 'a' && ch <= 'z':
			d = int(ch-'a') + 10
		case ch >= 'A' && ch <= 'Z':
			if base <= 36 {
				d = int(ch-'A') + 10
			} else {
				d = int(ch-'A') + 36
			}
		case ch == '@':
			d = 62
		case ch == '_':
			d = 63
		default:
			return nil, false
		}
		if d >= base {
			return nil, false
		}
		v.Mul(v, big.NewInt(int64(base)))
		v.Add(v, big.NewInt(int64(d)))
	}
	return v, true
}

// value of a variable: blank-trimmed optionally signed literal, or a name (followed), or nothing.
func (o *c20Oracle) readVar(name string, hops int) *big.Int {
	v := strings.Trim(o.env[name], " \t\n")
	if v == "" {
		return big.NewInt(0)
	}
	if c20ValidName(v) {
		if hops > 90 {
			o.excl = "chain"
			return big.NewInt(0)
		}
		return o.readVar(v, hops+1)
	}
	neg := false
	if v[0] == '+' || v[0] == '-' {
		neg = v[0] == '-'
		v = v[1:]
	}
	n, ok := c20OracleNumber(v)
	if !ok {
		if c20ExprTextMode && hops < 20 {
			// repair-validation mode (C20-expr-text-value): the text is an expression
			if x, ok := c20Parse(strings.Trim(o.env[name], " \t\n")); ok {
				if sub, ok := c20FromSyntax(x); ok {
					o.depth++
					defer func() { o.depth-- }()
					if o.depth > 20 {
						o.excl = "chain"
						return big.NewInt(0)
					}
					return o.eval(sub)
				}
			}
		}
		if c20IncompleteText[strings.Trim(o.env[name], " \t\n")] {
			// an incomplete expression: a syntax error in bash and in the code
			o.err = "syntaxErr"
			return big.NewInt(0)
		}
		o.excl = "value-not-literal"
		return big.NewInt(0)
	}
	o.fit(n)
	if neg {
		n = new(big.Int).Neg(n)
	}
	return n
}

// c20ExprTextMode: some variables of the domain stream hold printed expressions over earlier
// variables (C20-expr-text-value is repaired); C20_EXPR_TEXT_VALUES=0 switches it off.
var c20ExprTextMode = os.Getenv("C20_EXPR_TEXT_VALUES") != "0"

// c20LvalChainMode: targets of op=, ++, -- may hold names (C20-lvalue-no-chase is repaired);
// C20_LVALUE_CHAINS=0 switches it off.
var c20LvalChainMode = os.Getenv("C20_LVALUE_CHAINS") != "0"

func c20Bool(b bool) *big.Int {
	if b {
		return big.NewInt(1)
	}
	return big.NewInt(0)
}

func (o *c20Oracle) set(name string, v *big.Int) {
	o.fit(v)
	o.env[name] = v.String()
}

func (o *c20Oracle) binop(op string, x, y *big.Int) *big.Int {
	z := new(big.Int)
	switch op {
	case "add":
		return o.fit(z.Add(x, y))
	case "sub":
		return o.fit(z.Sub(x, y))
	case "mul":
		return o.fit(z.Mul(x, y))
	case "quo", "rem":
		if y.Sign() == 0 {
			o.err = "divZero"
			return z
		}
		if op == "quo" {
			return o.fit(z.Quo(x, y))
		}
		return z.Rem(x, y)
	case "pow":
		if y.Sign() < 0 {
			o.err = "negExp"
			return z
		}
		if y.BitLen() > 20 {
			// huge exponent: only 0, 1, -1 stay in range
			if x.CmpAbs(big.NewInt(1)) > 0 {
				o.ood = true
				return z
			}
		}
		return o.fit(z.Exp(x, y, nil))
	case "eql":
		return c20Bool(x.Cmp(y) == 0)
	case "neq":
		return c20Bool(x.Cmp(y) != 0)
	case "lss":
		return c20Bool(x.Cmp(y) < 0)
	case "gtr":
		return c20Bool(x.Cmp(y) > 0)
	case "leq":
		return c20Bool(x.Cmp(y) <= 0)
	case "geq":
		return c20Bool(x.Cmp(y) >= 0)
	case "and":
		return z.And(x, y)
	case "or":
		return z.Or(x, y)
	case "xor":
		return z.Xor(x, y)
	case "shl", "shr":
		if y.Sign() < 0 || y.Cmp(big.NewInt(63)) > 0 {
			o.ood = true
			return z
		}
		if op == "shl" {
			return o.fit(z.Lsh(x, uint(y.Int64())))
		}
		return z.Rsh(x, uint(y.Int64()))
	case "comma":
		return y
	}
	o.excl = "operator " + op
	return z
}

func (o *c20Oracle) stop() bool { return o.ood || o.err != "" || o.excl != "" }

var c20AssignArith = map[string]string{"addAssgn": "add", "subAssgn": "sub", "mulAssgn": "mul", "quoAssgn": "quo",
	"remAssgn": "rem", "andAssgn": "and", "orAssgn": "or", "xorAssgn": "xor", "shlAssgn": "shl", "shrAssgn": "shr"}

func (o *c20Oracle) eval(e *aExpr) *big.Int {
	zero := big.NewInt(0)
	if o.stop() {
		return zero
	}
	switch e.kind {
	case 'w':
		if c20ValidName(e.w) {
			return o.readVar(e.w, 0)
		}
		n, ok := c20OracleNumber(e.w)
		if !ok {
			o.excl = "invalid-literal"
			return zero
		}
		return o.fit(n)
	case 'p':
		return o.eval(e.x)
	case 'u':
		if e.op == "inc" || e.op == "dec" {
			if e.x.kind != 'w' || !c20ValidName(e.x.w) {
				o.excl = "incdec-nonname"
				return zero
			}
			if !c20LvalChainMode && c20ValidName(strings.Trim(o.env[e.x.w], " \t\n")) {
				o.excl = "lvalue-holds-name"
				return zero
			}
			old := o.readVar(e.x.w, 0)
			if o.stop() {
				return zero
			}
			d := int64(1)
			if e.op == "dec" {
				d = -1
			}
			nv := new(big.Int).Add(old, big.NewInt(d))
			o.set(e.x.w, nv)
			if e.post {
				return old
			}
			return nv
		}
		v := o.eval(e.x)
		if o.stop() {
			return zero
		}
		switch e.op {
		case "not":
			return c20Bool(v.Sign() == 0)
		case "bitNeg":
			return new(big.Int).Not(v)
		case "plus":
			return v
		case "minus":
			return o.fit(new(big.Int).Neg(v))
		}
	case 'b':
		switch {
		case e.op == "assgn" || c20AssignArith[e.op] != "":
			if e.x.kind != 'w' || !c20ValidName(e.x.w) {
				o.excl = "assign-nonname"
				return zero
			}
			var cur *big.Int
			if e.op != "assgn" {
				if !c20LvalChainMode && c20ValidName(strings.Trim(o.env[e.x.w], " \t\n")) {
					o.excl = "lvalue-holds-name"
					return zero
				}
				cur = o.readVar(e.x.w, 0)
			}
			v := o.eval(e.y)
			if o.stop() {
				return zero
			}
			if e.op != "assgn" {
				v = o.binop(c20AssignArith[e.op], cur, v)
				if o.stop() {
					return zero
				}
			}
			o.set(e.x.w, v)
			return v
		case e.op == "ternQuest":
			if e.y.kind != 'b' || e.y.op != "ternColon" {
				o.excl = "ternary-shape"
				return zero
			}
			cnd := o.eval(e.x)
			if o.stop() {
				return zero
			}
			if cnd.Sign() != 0 {
				o.dead = o.dead || c20HasNonLitPow(e.y.y)
				return o.eval(e.y.x)
			}
			o.dead = o.dead || c20HasNonLitPow(e.y.x)
			return o.eval(e.y.y)
		case e.op == "andL" || e.op == "orL":
			l := o.eval(e.x)
			if o.stop() {
				return zero
			}
			if e.op == "andL" && l.Sign() == 0 {
				o.dead = o.dead || c20HasNonLitPow(e.y)
				return zero
			}
			if e.op == "orL" && l.Sign() != 0 {
				o.dead = o.dead || c20HasNonLitPow(e.y)
				return big.NewInt(1)
			}
			rr := o.eval(e.y)
			if o.stop() {
				return zero
			}
			return c20Bool(rr.Sign() != 0)
		default:
			l := o.eval(e.x)
			if o.stop() {
				return zero
			}
			rr := o.eval(e.y)
			if o.stop() {
				return zero
			}
			return o.binop(e.op, l, rr)
		}
	}
	o.excl = "shape"
	return zero
}

// c20OracleRun evaluates e from vars; answer in the driver's format when the case is inside the
// domain, "" otherwise (tag says why).
func c20OracleRun(vars []c20Var, e *aExpr) (ans string, tag string, o *c20Oracle) {
	o = &c20Oracle{env: map[string]string{}}
	for _, v := range vars {
		o.env[v.name] = v.val
	}
	v := o.eval(e)
	switch {
	case o.excl != "":
		return "", "excluded:" + o.excl, o
	case o.ood:
		return "", "out-of-domain", o
	}
	vals := make([]string, len(vars))
	for i, vr := range vars {
		vals[i] = hx(o.env[vr.name])
	}
	if o.err != "" {
		return "err " + o.err + " ; " + strings.Join(vals, " "), "err", o
	}
	return "ok " + v.String() + " ; " + strings.Join(vals, " "), "ok", o
}

// ---------------------------------------------------------------------------------------------
// shell search leg

type c20ShellCase struct {
	script  string
	ctx     string
	witness string
	noBash  bool // interpreter only (model tie of the status rules on a documented exclusion)
	// when set, the interpreter's status and variable dump are also compared with the runner model
	// (`status`) and, if specToo, with the bash status rules of the Lean spec (`specstatus`)
	statusKind string
	specToo    bool
	vars       []c20Var
	e          *aExpr
	e2         *aExpr // second argument of `let` (statusKind "let2")
}

func c20Esc(s string) string {
	return strings.NewReplacer("\\", "\\\\", "\n", "\\n", "\t", "\\t").Replace(s)
}
func c20Unesc(s string) string {
	var sb strings.Builder
	for i := 0; i < len(s); i++ {
		if s[i] == '\\' && i+1 < len(s) {
			i++
			switch s[i] {
			case 'n':
				sb.WriteByte('\n')
			case 't':
				sb.WriteByte('\t')
			default:
				sb.WriteByte(s[i])
			}
			continue
		}
		sb.WriteByte(s[i])
	}
	return sb.String()
}

func c20Assignments(vars []c20Var) string {
	var sb strings.Builder
	for _, v := range vars {
		if v.val == "" || !c20ValidName(v.name) {
			continue
		}
		q, err := syntax.Quote(v.val, syntax.LangBash)
		if err != nil {
			q = "'" + v.val + "'"
		}
		sb.WriteString(v.name + "=" + q + "\n")
	}
	return sb.String()
}

func c20Dump(vars []c20Var) string {
	var sb strings.Builder
	sb.WriteString("echo \"st=$?\"\necho \"")
	for _, v := range vars {
		if c20ValidName(v.name) {
			sb.WriteString(v.name + "=[$" + v.name + "] ")
		}
	}
	sb.WriteString("\"\n")
	return sb.String()
}

// c20ParseDump reads "st=N" and the "name=[value] " dump back from the interpreter's output.
func c20ParseDump(out string, vars []c20Var) (string, bool) {
	i := strings.Index(out, "st=")
	if i < 0 {
		return "", false
	}
	rest := out[i+3:]
	nl := strings.IndexByte(rest, '\n')
	if nl < 0 {
		return "", false
	}
	st := rest[:nl]
	rest = rest[nl+1:]
	vals := make([]string, len(vars))
	for k, v := range vars {
		if !c20ValidName(v.name) {
			vals[k] = "-"
			continue
		}
		pre := v.name + "=["
		if !strings.HasPrefix(rest, pre) {
			return "", false
		}
		rest = rest[len(pre):]
		j := strings.Index(rest, "] ")
		if j < 0 {
			return "", false
		}
		vals[k] = hx(rest[:j])
		rest = rest[j+2:]
	}
	return st + " ; " + strings.Join(vals, " "), true
}

// c20Compare runs every script in the interpreter and in bash and compares stdout (which carries
// the value, the status and the variable dump).
func c20Compare(c *Ctx, cases []c20ShellCase) {
	type out struct{ in, sh ShellResult }
	workers := runtime.NumCPU()
	if workers > 4 {
		workers = 4 // the machine is shared: keep the parallelism modest
	}
	res := parallelMap(len(cases), workers, func(i int) out {
		var o out
		o.in = runInterp(c, syntax.LangBash, cases[i].script)
		if !cases[i].noBash {
			o.sh = runShell(c, "bash", cases[i].script)
			// a loaded machine can exceed the 3 s budget of a trivial script: retry before judging
			for k := 0; k < 2 && o.sh.TimedOut; k++ {
				o.sh = runShell(c, "bash", cases[i].script)
			}
		}
		for k := 0; k < 2 && o.in.TimedOut; k++ {
			o.in = runInterp(c, syntax.LangBash, cases[i].script)
		}
		return o
	})
	for i, r := range res {
		cs := cases[i]
		if cs.statusKind != "" && r.in.Panic == "" && !r.in.TimedOut {
			if ans, ok := c20ParseDump(r.in.Stdout, cs.vars); ok {
				args := cs.statusKind + " " + c20EnvArgs(cs.vars, false) + " " + cs.e.enc()
				if cs.e2 != nil {
					args += " " + cs.e2.enc()
				}
				c.Op("status "+args, ans)
				if cs.specToo {
					c.Op("specstatus "+args, ans)
				}
				c.Hist["status:"+cs.statusKind]++
			}
		}
		if cs.noBash {
			// interpreter only (inputs outside the property's domain, e.g. shift counts outside
			// 0..63, where bash is platform-defined): a Go panic is a failure whatever the domain
			if r.in.Panic != "" {
				c.Fail(cs.witness, fmt.Sprintf("interpreter panics (%s)", r.in.Panic))
			}
			c.Hist["shell-nopanic:"+cs.ctx]++
			continue
		}
		if r.sh.TimedOut || r.in.TimedOut {
			// a timeout on a loaded machine is not evidence: skip (non-termination findings are
			// replayed from the corpus in their terminating variants)
			c.Hist["shell-timeout"]++
			continue
		}
		if r.in.Panic == "" && r.in.Stdout != r.sh.Stdout {
			// re-run the mismatching case alone before judging
			r.in = runInterp(c, syntax.LangBash, cs.script)
			r.sh = runShell(c, "bash", cs.script)
			if r.sh.TimedOut || r.in.TimedOut {
				c.Hist["shell-timeout"]++
				continue
			}
		}
		c.Hist["shell:"+cs.ctx]++
		c.Case("sh/"+cs.script, cs.e == nil || cs.e.size() >= 3, "shell")
		switch {
		case r.in.Panic != "":
			c.Fail(cs.witness, fmt.Sprintf("interpreter panics (%s); bash prints %q", r.in.Panic, r.sh.Stdout))
		case r.in.Stdout != r.sh.Stdout:
			c.Hist["shell-mismatch:"+cs.ctx]++
			c.Fail(cs.witness, fmt.Sprintf("interp prints %q, bash prints %q", r.in.Stdout, r.sh.Stdout))
		}
	}
}

func c20ExprText(e *aExpr, compact bool) (string, bool) {
	var names, texts []string
	if !e.tokens(&names, &texts) {
		return "", false
	}
	text, ok := c20Text(texts, compact)
	if !ok || (compact && strings.ContainsAny(text, "()")) {
		return "", false
	}
	return text, true
}

func c20ShellScript(vars []c20Var, e *aExpr, ctx string) (string, bool) {
	text, ok := c20ExprText(e, ctx == "let")
	if !ok {
		return "", false
	}
	pre := c20Assignments(vars)
	switch ctx {
	case "exp":
		return pre + "echo \"v=$(( " + text + " ))\"\n" + c20Dump(vars), true
	case "cmd":
		return pre + "(( " + text + " ))\n" + c20Dump(vars), true
	case "let":
		return pre + "let " + text + "\n" + c20Dump(vars), true
	case "idxset":
		return pre + "arr=(a b c d e f g h)\narr[( " + text + " ) & 7]=Q\n" + c20Dump(vars) + "echo \"${arr[@]}\"\n", true
	case "idxget":
		return pre + "arr=(a b c d e f g h)\necho \"e=${arr[( " + text + " ) & 7]}\"\n" + c20Dump(vars), true
	case "for":
		return pre + "for (( i = ( " + text + " ) & 3; i < 6; i += 2 )); do echo \"i=$i\"; done\n" + c20Dump(vars), true
	}
	return "", false
}

// c20AssignScript puts an assign-target stress expression into one of the contexts; the dump
// carries the status and every variable (the side-effect variables included).
func c20AssignScript(r *Rand, vars []c20Var, e *aExpr, tag, errClass string, reads bool) (c20ShellCase, bool) {
	ctxs := []string{"cmd", "let", "forinit", "forpost"}
	if tag == "ok" {
		ctxs = append(ctxs, "exp", "exp", "idxget", "idxset")
	} else if errClass == "divZero" || errClass == "negExp" {
		ctxs = append(ctxs, "exp") // other error classes leave status 0 in $(( )): C20-value-error-status
	}
	ctx := r.Pick(ctxs)
	text, ok := c20ExprText(e, ctx == "let")
	if ctx == "let" && ok && strings.ContainsAny(text, "<>&|;!~ ") {
		ok = false // shell metacharacters in an unquoted `let` argument
	}
	if !ok {
		ctx = "cmd"
		if text, ok = c20ExprText(e, false); !ok {
			return c20ShellCase{}, false
		}
	}
	pre := c20Assignments(vars)
	var body string
	switch ctx {
	case "exp":
		body = "echo \"v=$(( " + text + " ))\"\n"
	case "cmd":
		body = "(( " + text + " ))\n"
	case "let":
		body = "let " + text + "\n"
	case "forinit":
		body = "for (( " + text + ", i = 0; i < 2; i++ )); do echo \"i=$i\"; done\n"
	case "forpost":
		body = "for (( i = 0; i < 2; i++, " + text + " )); do echo \"i=$i\"; done\n"
	case "idxget":
		body = "arr=(a b c d)\necho \"e=${arr[( " + text + " ) & 3]}\"\n"
	case "idxset":
		body = "arr=(a b c d)\narr[( " + text + " ) & 3]=Q\necho \"${arr[@]}\"\n"
	}
	script := pre + body + c20Dump(vars)
	return c20ShellCase{script: script, ctx: "assign-" + ctx, witness: "sh " + c20Esc(script)}, true
}

// deadPow reports whether a subtree that bash parses in "noeval" mode (the unselected branch of
// `?:`, the short-circuited operand of `&&`/`||`) contains `**` with a non-literal exponent: bash
// 5.2 raises "exponent less than 0" there from the constant-folded value (documented exclusion
// C20-dead-branch-negexp).
func c20HasNonLitPow(e *aExpr) bool {
	switch e.kind {
	case 'w':
		return false
	case 'p', 'u':
		return c20HasNonLitPow(e.x)
	}
	if e.op == "pow" && e.y.kind != 'w' {
		return true
	}
	return c20HasNonLitPow(e.x) || c20HasNonLitPow(e.y)
}

// ---------------------------------------------------------------------------------------------
// history: many evaluations on ONE Config / Runner

// c20ArithmDepth reads the unexported nesting counter of a Config (0 between evaluations).
func c20ArithmDepth(cfg *expand.Config) (int, bool) {
	f := reflect.ValueOf(cfg).Elem().FieldByName("arithmDepth")
	if !f.IsValid() || !f.CanInt() {
		return 0, false
	}
	return int(f.Int()), true
}

type c20HistStep struct {
	e    *aExpr
	text string
}

// c20HistoryPlan: variables whose values fail at various nesting depths (division by zero, negative
// exponent, syntax error, behind chains of expression texts) mixed with valid ones, and a sequence of
// K evaluations over them.
func c20HistoryPlan(r *Rand) ([]c20Var, []c20HistStep) {
	vars := []c20Var{{name: "tot", val: "12"}, {name: "p", val: "0"}, {name: "res", val: ""},
		{name: "g", val: "tot*2+1"}, {name: "g2", val: "g + 1"}, {name: "g3", val: "g2 * g"},
		{name: "f1", val: "tot/p"}, {name: "f2", val: "2 ** (p - 1)"}, {name: "f3", val: "tot +"}, {name: "f4", val: "f1 + 1"}}
	depth := 1 + r.Intn(7)
	if r.Intn(6) == 0 {
		depth = 40 + r.Intn(25)
	}
	fail := r.Pick([]string{"tot/p", "2 ** (p - 1)", "tot % p", "tot +"})
	for i := 0; i < depth; i++ {
		val := fmt.Sprintf("c%d + 0", i+1)
		if i == depth-1 {
			val = fail
		}
		vars = append(vars, c20Var{name: fmt.Sprintf("c%d", i), val: val})
	}
	failing := []string{"f1", "f2", "f3", "f4", "c0", "c0", "c0"}
	valid := []string{"g", "g2", "g3", "tot", "7"}
	k := 1 + r.Intn(40)
	switch r.Intn(3) {
	case 0:
		k = 1 + r.Intn(300)
	case 1:
		k = 100 + r.Intn(200)
	}
	pFail := 20 + r.Intn(78)
	var steps []c20HistStep
	for i := 0; i < k; i++ {
		var e *aExpr
		switch {
		case i == k-1 || !r.Chance(pFail):
			w := aW(r.Pick(valid))
			switch r.Intn(4) {
			case 0:
				e = aB("add", w, aW("1"))
			case 1:
				e = aB("comma", aU("inc", true, aW("tot")), w)
			default:
				e = w
			}
		default:
			w := aW(r.Pick(failing))
			switch r.Intn(4) {
			case 0:
				e = aB("mul", aW("2"), w)
			case 1:
				e = aB("orL", aW("0"), w)
			default:
				e = w
			}
		}
		e = aB("assgn", aW("res"), e).parenthesize()
		text, _ := c20ExprText(e, false)
		steps = append(steps, c20HistStep{e: e, text: text})
	}
	return vars, steps
}

func c20HistoryScript(vars []c20Var, steps []c20HistStep, upto int) string {
	var sb strings.Builder
	sb.WriteString(c20Assignments(vars))
	for i := 0; i < upto && i < len(steps); i++ {
		sb.WriteString("(( " + steps[i].text + " ))\necho \"st=$? res=$res tot=$tot\"\n")
	}
	return sb.String()
}

// c20HistoryCase runs the sequence on ONE expand.Config: every result must equal the result on a
// fresh Config with the same environment (and the stateless model's, through the eval ops), and the
// nesting counter must be back to 0 after every evaluation.
func c20HistoryCase(c *Ctx, vars []c20Var, steps []c20HistStep) {
	env := &c20Env{m: map[string]string{}, ro: map[string]bool{}}
	for _, v := range vars {
		if v.val != "" {
			env.m[v.name] = v.val
		}
	}
	cfg := &expand.Config{Env: env}
	names := make([]string, len(vars))
	for i, v := range vars {
		names[i] = v.name
	}
	maxDepth, probed, failed := 0, true, false
	for i, st := range steps {
		cur := make([]c20Var, len(names))
		for j, n := range names {
			cur[j] = c20Var{name: n, val: env.m[n]}
		}
		fresh := c20Eval(cur, false, st.e.toSyntax())
		var res string
		p := safely(func() {
			n, err := expand.Arithm(cfg, st.e.toSyntax())
			if err != nil {
				res = "err " + c20ErrClass(err)
			} else {
				res = "ok " + strconv.Itoa(n)
			}
		})
		if p != "" {
			res = "panic"
		}
		vals := make([]string, len(names))
		for j, n := range names {
			vals[j] = hx(env.m[n])
		}
		got := res + " ; " + strings.Join(vals, " ")
		if i < 3 || i == len(steps)-1 || i%25 == 0 || got != fresh {
			c.Op("eval "+c20EnvArgs(cur, false)+" "+st.e.enc(), got)
		}
		if d, ok := c20ArithmDepth(cfg); !ok {
			probed = false
		} else if d > maxDepth {
			maxDepth = d
		}
		if got != fresh && !failed {
			failed = true
			c.Fail("sh "+c20Esc(c20HistoryScript(vars, steps, i+1)),
				fmt.Sprintf("evaluation %d of %d on one expand.Config gives %q, the same evaluation on a fresh Config gives %q", i+1, len(steps), got, fresh))
		}
	}
	ans := strconv.Itoa(maxDepth)
	if !probed {
		ans = "no-arithmDepth-field"
	}
	// invariant of the model (it is stateless): the nesting counter is 0 between evaluations
	c.Op("depthafter", ans)
	c.Case(fmt.Sprintf("history/%d/%s", len(steps), c20HistoryScript(vars, steps, len(steps))), len(steps) >= 3, "history", fmt.Sprintf("history-k<=%d", (len(steps)/100+1)*100))
}

// c20CounterPairs reads expand/*.go and interp/*.go: every increment of a struct field (a nesting /
// depth counter such as Config.arithmDepth) must be paired with a deferred decrement, or with a
// decrement later in the same block with no return statement in between.  Answer: "unpaired" and
// the offending sites (none on a sound tree).
func c20CounterPairs(c *Ctx) string {
	repo := os.Getenv("VERIF_REPO")
	if repo == "" {
		repo = "/repo"
	}
	var unpaired, all []string
	for _, dir := range []string{"expand", "interp"} {
		files, _ := filepath.Glob(filepath.Join(repo, dir, "*.go"))
		sort.Strings(files)
		// a nesting counter is a field that is decremented somewhere in the package too; fields that
		// only ever grow (cursors such as getopts' argidx) are not counters
		decremented := map[string]bool{}
		for _, file := range files {
			if base := filepath.Base(file); strings.HasSuffix(base, "_test.go") || strings.HasPrefix(base, "verif_") {
				continue
			}
			if f, err := goparser.ParseFile(token.NewFileSet(), file, nil, 0); err == nil {
				ast.Inspect(f, func(n ast.Node) bool {
					if ids, ok := n.(*ast.IncDecStmt); ok && ids.Tok == token.DEC {
						if se, ok := ids.X.(*ast.SelectorExpr); ok {
							decremented[se.Sel.Name] = true
						}
					}
					return true
				})
			}
		}
		for _, file := range files {
			base := filepath.Base(file)
			if strings.HasSuffix(base, "_test.go") || strings.HasPrefix(base, "verif_") {
				continue
			}
			fset := token.NewFileSet()
			f, err := goparser.ParseFile(fset, file, nil, 0)
			if err != nil {
				return "unreadable: " + base
			}
			selText := func(e ast.Expr) string {
				se, ok := e.(*ast.SelectorExpr)
				if !ok {
					return ""
				}
				id, ok := se.X.(*ast.Ident)
				if !ok {
					return ""
				}
				return id.Name + "." + se.Sel.Name
			}
			isStep := func(st ast.Stmt, tok token.Token) string {
				if ids, ok := st.(*ast.IncDecStmt); ok && ids.Tok == tok {
					return selText(ids.X)
				}
				return ""
			}
			hasReturn := func(st ast.Stmt) bool {
				found := false
				ast.Inspect(st, func(n ast.Node) bool {
					switch n.(type) {
					case *ast.FuncLit:
						return false
					case *ast.ReturnStmt:
						found = true
					}
					return true
				})
				return found
			}
			deferDec := func(st ast.Stmt, sel string) bool {
				ds, ok := st.(*ast.DeferStmt)
				if !ok {
					return false
				}
				found := false
				ast.Inspect(ds, func(n ast.Node) bool {
					if s2, ok := n.(ast.Stmt); ok && isStep(s2, token.DEC) == sel {
						found = true
					}
					return true
				})
				return found
			}
			for _, d := range f.Decls {
				fd, ok := d.(*ast.FuncDecl)
				if !ok || fd.Body == nil {
					continue
				}
				ast.Inspect(fd.Body, func(n ast.Node) bool {
					blk, ok := n.(*ast.BlockStmt)
					if !ok {
						return true
					}
					for i, st := range blk.List {
						sel := isStep(st, token.INC)
						if sel == "" || !decremented[sel[strings.IndexByte(sel, '.')+1:]] {
							continue
						}
						how := "UNPAIRED"
						for j := i + 1; j < len(blk.List); j++ {
							if deferDec(blk.List[j], sel) {
								how = "defer"
								break
							}
							if isStep(blk.List[j], token.DEC) == sel {
								how = "straight"
								break
							}
							if hasReturn(blk.List[j]) {
								break
							}
						}
						site := dir + "/" + base + ":" + fd.Name.Name + ":" + sel + ":" + how
						all = append(all, site)
						if how == "UNPAIRED" {
							unpaired = append(unpaired, site)
						}
					}
					return true
				})
			}
		}
	}
	c.Extra["counter_sites"] = strings.Join(all, " ")
	return strings.TrimSpace("unpaired " + strings.Join(unpaired, " "))
}

// ---------------------------------------------------------------------------------------------

func c20(c *Ctx) {
	c.Rule = "streams: hook boundary values (atoi/binArit/intPow), wild trees over every node kind/operator with wild variable values (model=code), " +
		"domain trees (valid literals, variables holding literals / short acyclic name chains, no overflow, shifts 0..63; big.Int oracle decides membership) for spec ops and bash comparison; " +
		"non-trivial = tree with ≥ 3 nodes (eval/spec/shell) or ≥ 3 tokens (parse); distinct by exact op line"
	r := c.R

	// Generator exclusions of the domain stream and of the bash comparison (each is an open known
	// finding replayed from corpus/C20-known.txt; the wild model=code stream has no exclusions
	// beyond the alphabet of value texts, see c20ModelText):
	//  * quoted `let` arguments (C20-let-quoted)
	//  * invalid number literals such as 08, 2#2, 1x (C20-invalid-literal-no-error)
	//  * value texts with tokens after a complete expression (C20-value-trailing-tokens)
	//  * errors other than division by zero / negative exponent inside $(( )) (C20-value-error-status)
	//  * cyclic or > 98-link name chains (C20-name-cycle, documented upstream)
	//  * `**` with a computed exponent inside an unevaluated branch (C20-dead-branch-negexp)
	//  * array-element lvalues `a[1]++` (C28: "unsupported assignment target", bash supports them)
	// Repaired and no longer excluded: expression-text values, name-valued targets of op=/++/--,
	// error-raising expressions in $(( )), let, for ((;;)) headers and subscripts.
	var shellCases []c20ShellCase
	for _, l := range c.CorpusLines() {
		kind, rest, _ := strings.Cut(l, " ")
		switch kind {
		case "sh":
			shellCases = append(shellCases, c20ShellCase{script: c20Unesc(rest), ctx: "corpus", witness: l})
		case "atoi":
			s := unhx(rest)
			c.Op("atoi "+hx(s), strconv.FormatInt(expand.VerifAtoi(s), 10))
		case "shnopanic":
			// interpreter only: must not panic (input outside the domain, bash platform-defined)
			shellCases = append(shellCases, c20ShellCase{script: c20Unesc(rest), ctx: "corpus-nopanic", witness: l, noBash: true})
		case "parseerr":
			// an expression the parser must reject and bash must fail on
			_, accepted := c20Parse(rest)
			sh := runShell(c, "bash", "x=1; y=2; (( "+rest+" ))")
			if accepted || (!sh.TimedOut && sh.Status == 0) {
				c.Fail(l, fmt.Sprintf("parser accepts: %v, bash status %d (expected: rejected, non-zero)", accepted, sh.Status))
			}
		}
	}
	c.Op("prectable", c20PrecTable())
	c.Op("counterpairs", c20CounterPairs(c))

	nShell := 200
	if c.Thorough() {
		nShell = 16000 / max(1, c.Shards)
	}
	if c.N == 0 {
		nShell = 0
	}
	shellEvery := max(1, c.N/max(1, nShell))

	for i := 0; i < c.N; i++ {
		c20HookStreams(c, i)

		// wild: model = code
		var vars []c20Var
		var roAll bool
		var e *aExpr
		if r.Intn(60) == 0 {
			vars, e = c20ChainCase(r)
		} else {
			vars, roAll = c20WildEnv(r)
			e = c20WildExpr(r, 1+r.Intn(5))
		}
		c20EvalCase(c, vars, roAll, e, "wild")
		c20ParseStreams(c, e)

		// base#digits constants, all bases and both letter cases, as literals and as variable values
		if i%5 == 0 {
			l1, l2 := c20BaseLit(r), c20BaseLit(r)
			bvars := []c20Var{{name: "x", val: r.Pick([]string{"", " ", "-", "+"}) + l1}, {name: "y", val: "x"}}
			var be *aExpr
			switch r.Intn(5) {
			case 0:
				be = aW(l2)
			case 1:
				be = aB("add", aW("x"), aW("1"))
			case 2:
				be = aB("sub", aW(l2), aW("y"))
			case 3:
				be = aB("addAssgn", aW("x"), aW(l2))
			default:
				be = aB("eql", aW(l2), aW(strings.ToLower(l2)))
			}
			be = be.parenthesize()
			bvars = c20CompleteVars(bvars, be)
			bgot := c20Eval(bvars, false, be.toSyntax())
			c.Op("eval "+c20EnvArgs(bvars, false)+" "+be.enc(), bgot)
			c.Case("baselit/"+c20EnvArgs(bvars, false)+"/"+be.enc(), true, "base-literal")
			if bans, btag, _ := c20OracleRun(bvars, be); bans != "" {
				c.Op("speceval "+c20EnvArgs(bvars, false)+" "+be.enc(), bgot)
				if bgot != bans {
					c.Fail("eval "+c20EnvArgs(bvars, false)+" "+be.enc(), fmt.Sprintf("expand.Arithm gives %q, big.Int oracle of bash arithmetic gives %q", bgot, bans))
				}
				if i%(5*max(1, shellEvery/2)) == 0 && len(shellCases) < nShell+220 && btag == "ok" {
					if script, ok := c20ShellScript(bvars, be, r.Pick([]string{"exp", "cmd"})); ok {
						shellCases = append(shellCases, c20ShellCase{script: script, ctx: "base-literal", witness: "sh " + c20Esc(script)})
					}
				}
			}
		}

		// history: K evaluations on one Config; a few of them also as one script in interp vs bash
		if i%40 == 0 {
			hvars, hsteps := c20HistoryPlan(r)
			c20HistoryCase(c, hvars, hsteps)
			if i%320 == 0 && len(hsteps) >= 20 {
				script := c20HistoryScript(hvars, hsteps, len(hsteps))
				shellCases = append(shellCases, c20ShellCase{script: script, ctx: "history", witness: "sh " + c20Esc(script)})
			}
		}

		// assignment targets holding side-effect / failing texts: model = code, oracle, and bash
		if i%3 == 0 {
			avars, ae, reads := c20AssignStress(r)
			avars = c20CompleteVars(avars, ae)
			agot := c20Eval(avars, false, ae.toSyntax())
			c.Op("eval "+c20EnvArgs(avars, false)+" "+ae.enc(), agot)
			c.Case("assign-target/"+c20EnvArgs(avars, false)+"/"+ae.enc(), true, "assign-target")
			aans, atag, aorc := c20OracleRun(avars, ae)
			c.Hist["assign-target:"+atag]++
			if aans != "" {
				c.Op("speceval "+c20EnvArgs(avars, false)+" "+ae.enc(), agot)
				if agot != aans {
					c.Fail("eval "+c20EnvArgs(avars, false)+" "+ae.enc(), fmt.Sprintf("expand.Arithm gives %q, big.Int oracle of bash arithmetic gives %q", agot, aans))
				}
				if i%(3*max(1, shellEvery/2)) == 0 && len(shellCases) < nShell+160 && !aorc.dead {
					if sc, ok := c20AssignScript(r, avars, ae, atag, aorc.err, reads); ok {
						shellCases = append(shellCases, sc)
					}
				}
			}
		}

		// shifts with counts outside 0..63 (outside the domain): no panic, model = code
		if i%4 == 0 {
			svars, se := c20ShiftStress(r)
			c20NoPanic(c, svars, se, "shift-stress")
			if i%(4*max(1, shellEvery)) == 0 && len(shellCases) < nShell+80 {
				if text, ok := c20ExprText(se, false); ok {
					script := c20Assignments(svars) + r.Pick([]string{"echo \"v=$(( " + text + " ))\"\n", "(( " + text + " ))\necho \"st=$?\"\n", "arr=(a b c)\necho \"${arr[( " + text + " ) & 1]}\"\n"})
					shellCases = append(shellCases, c20ShellCase{script: script, ctx: "shift-stress", witness: "sh " + c20Esc(script), noBash: true})
				}
			}
		}

		// domain: spec = code, and interp = bash
		dvars, names, lvals := c20DomainEnv(r)
		depth := 1 + r.Intn(5)
		if c.Thorough() {
			depth = 1 + r.Intn(6)
		}
		ctx := r.Pick([]string{"exp", "exp", "cmd", "cmd", "let", "let2", "idxset", "idxget", "for"})
		opts := &c20DomOpts{names: names, lvals: lvals, letSafe: ctx == "let" || ctx == "let2", small: r.Intn(3) != 0}
		if len(lvals) == 0 {
			opts.lvals = []string{"q"}
			dvars = append(dvars, c20Var{name: "q"})
		}
		de := c20DomainExpr(r, depth, opts).parenthesize()
		dvars = c20CompleteVars(dvars, de)
		ans, tag, orc := c20OracleRun(dvars, de)
		c.Hist["domain:"+tag]++
		if ans == "" {
			if tag == "out-of-domain" {
				// overflow / shift count outside 0..63: no bash comparison, but the code must not
				// panic and the model must agree
				c20NoPanic(c, dvars, de, "ood-nopanic")
			}
			continue
		}
		got := c20Eval(dvars, false, de.toSyntax())
		c.Op("speceval "+c20EnvArgs(dvars, false)+" "+de.enc(), got)
		c.Case("spec/"+c20EnvArgs(dvars, false)+"/"+de.enc(), de.size() >= 3, "domain", "domain-"+tag)
		if got != ans {
			c.Fail("eval "+c20EnvArgs(dvars, false)+" "+de.enc(), fmt.Sprintf("expand.Arithm gives %q, big.Int oracle of bash arithmetic gives %q", got, ans))
		}
		// parse(print(e)) = e on the real parser (the binding order, independently of the model)
		var tn, tt []string
		if de.tokens(&tn, &tt) {
			text, _ := c20Text(tt, false)
			if pa := c20ParseAnswer(text); pa != de.enc() {
				c.Fail("parse "+strings.Join(tn, " "), fmt.Sprintf("parser gives %q for %q, binding order of bash gives %q", pa, text, de.enc()))
			}
		}
		if i%shellEvery != 0 || len(shellCases) >= nShell+50 {
			continue
		}
		hasNL := false
		for _, v := range dvars {
			if strings.Contains(v.val, "\n") {
				hasNL = true
			}
		}
		if orc.dead {
			c.Hist["shell-skip:dead-branch-pow"]++
			continue
		}
		if ctx == "let2" {
			// two arguments; the second is evaluated in the environment the first leaves (bash and
			// the interpreter stop at the first error)
			var vars2 []c20Var
			for _, v := range dvars {
				vars2 = append(vars2, c20Var{name: v.name, val: orc.env[v.name]})
			}
			e2 := c20DomainExpr(r, 1+r.Intn(3), opts).parenthesize()
			w2 := map[string]bool{}
			e2.words(w2)
			known := map[string]bool{}
			for _, v := range dvars {
				known[v.name] = true
			}
			ok2 := true
			for w := range w2 {
				if !known[w] {
					ok2 = false
				}
			}
			tag2, dead2 := "ok", false
			if tag != "err" {
				var orc2 *c20Oracle
				_, tag2, orc2 = c20OracleRun(vars2, e2)
				dead2 = orc2.dead
			}
			t1, okA := c20ExprText(de, true)
			t2, okB := c20ExprText(e2, true)
			if !ok2 || (tag2 != "ok" && tag2 != "err") || dead2 || !okA || !okB {
				continue
			}
			script := c20Assignments(dvars) + "let " + t1 + " " + t2 + "\n" + c20Dump(dvars)
			sc := c20ShellCase{script: script, ctx: ctx, witness: "sh " + c20Esc(script), vars: dvars, e: de, e2: e2}
			if !hasNL {
				sc.statusKind, sc.specToo = "let2", true
			}
			shellCases = append(shellCases, sc)
			continue
		}
		sc := c20ShellCase{ctx: ctx, vars: dvars, e: de}
		if tag == "err" && (ctx == "idxset" || ctx == "idxget") {
			// `bash -c` exits at a failing assignment statement: not comparable line by line
			ctx = "cmd"
			sc.ctx = ctx
		}
		script, ok := c20ShellScript(dvars, de, ctx)
		if !ok {
			continue
		}
		sc.script, sc.witness = script, "sh "+c20Esc(script)
		if !hasNL && !sc.noBash && (ctx == "exp" || ctx == "cmd" || ctx == "let") {
			sc.statusKind, sc.specToo = ctx, true
		}
		shellCases = append(shellCases, sc)
	}
	c20Compare(c, shellCases)
}
