package main

import (
	"bufio"
	"encoding/hex"
	"encoding/json"
	"fmt"
	"os"
	"path/filepath"
	"runtime/debug"
	"sort"
	"strings"
)

// Rand is splitmix64; every random choice of a run derives from one seed.
type Rand struct{ s uint64 }

func (r *Rand) Uint64() uint64 {
	r.s += 0x9e3779b97f4a7c15
	z := r.s
	z = (z ^ (z >> 30)) * 0xbf58476d1ce4e5b9
	z = (z ^ (z >> 27)) * 0x94d049bb133111eb
	return z ^ (z >> 31)
}
func (r *Rand) Intn(n int) int {
	if n <= 0 {
		return 0
	}
	return int(r.Uint64() % uint64(n))
}
func (r *Rand) Bool() bool          { return r.Uint64()&1 == 1 }
func (r *Rand) Chance(p int) bool   { return r.Intn(100) < p } // p percent
func (r *Rand) Pick(s []string) string { return s[r.Intn(len(s))] }
func (r *Rand) Fork(label string) *Rand {
	h := r.s
	for _, b := range []byte(label) {
		h = (h ^ uint64(b)) * 0x100000001b3
	}
	return &Rand{s: h ^ 0x5851f42d4c957f2d}
}

// Failure is a concrete input on which the property's own statement failed on the implementation.
type Failure struct {
	Witness string `json:"witness"` // canonical, replayable description of the input
	What    string `json:"what"`    // observed vs expected
}

type Ctx struct {
	ID     string
	Seed   uint64
	N      int
	Tier   string
	Out    string
	Corpus string
	Shard  int
	Shards int
	R      *Rand

	ops, impl *bufio.Writer
	opsF, implF *os.File
	lines       int

	Evaluations int
	distinct    map[string]struct{}
	Hist        map[string]int
	Samples     []any
	Failures    []Failure
	Rule        string
	Extra       map[string]any
}

func newCtx(id string, seed uint64, n int, tier, out, corpus string, shard, shards int) *Ctx {
	os.MkdirAll(out, 0o755)
	c := &Ctx{ID: id, Seed: seed, N: n, Tier: tier, Out: out, Corpus: corpus, Shard: shard, Shards: shards}
	c.R = (&Rand{s: seed}).Fork(fmt.Sprintf("%s/%d", id, shard))
	var err error
	c.opsF, err = os.Create(filepath.Join(out, "ops.txt"))
	if err != nil {
		panic(err)
	}
	c.implF, err = os.Create(filepath.Join(out, "impl.txt"))
	if err != nil {
		panic(err)
	}
	c.ops = bufio.NewWriterSize(c.opsF, 1<<20)
	c.impl = bufio.NewWriterSize(c.implF, 1<<20)
	c.distinct = map[string]struct{}{}
	c.Hist = map[string]int{}
	c.Extra = map[string]any{}
	return c
}

// Thorough reports whether the run is the thorough tier.
func (c *Ctx) Thorough() bool { return c.Tier == "thorough" }

// Op records one model operation and the implementation's canonical answer.
// op must not contain newlines; it is sent to the Lean driver prefixed with the property id.
func (c *Ctx) Op(op string, implOut string) {
	if strings.ContainsAny(op, "\n\r") || strings.ContainsAny(implOut, "\n\r") {
		panic("newline in op/impl line: " + op)
	}
	fmt.Fprintf(c.ops, "%s %s\n", c.ID, op)
	fmt.Fprintf(c.impl, "%s\n", implOut)
	c.lines++
	if len(c.Samples) < 12 && (c.lines < 4 || c.lines%97 == 0) {
		c.Samples = append(c.Samples, map[string]string{"op": c.ID + " " + op, "impl": implOut})
	}
}

// Case counts one generated case; key identifies it for distinctness, nontrivial says whether
// it reached a non-trivial branch by the property's stated rule.
func (c *Ctx) Case(key string, nontrivial bool, tags ...string) {
	c.Evaluations++
	if nontrivial {
		c.distinct[key] = struct{}{}
	} else {
		c.Hist["trivial"]++
	}
	for _, t := range tags {
		c.Hist[t]++
	}
}

func (c *Ctx) Fail(witness, what string) {
	for _, f := range c.Failures {
		if f.Witness == witness {
			return // one entry per distinct witness (class witnesses repeat)
		}
	}
	if len(c.Failures) < 200 {
		c.Failures = append(c.Failures, Failure{Witness: witness, What: what})
	}
}

func (c *Ctx) finish() {
	c.ops.Flush()
	c.impl.Flush()
	c.opsF.Close()
	c.implF.Close()
	meta := map[string]any{
		"property":            c.ID,
		"seed":                c.Seed,
		"tier":                c.Tier,
		"evaluations":         c.Evaluations,
		"distinct_nontrivial": len(c.distinct),
		"rule":                c.Rule,
		"samples":             c.Samples,
		"histogram":           c.Hist,
		"failures":            c.Failures,
		"lines":               c.lines,
		"extra":               c.Extra,
	}
	b, _ := json.MarshalIndent(meta, "", " ")
	os.WriteFile(filepath.Join(c.Out, "meta.json"), b, 0o644)
}

// CorpusLines returns the non-comment lines of corpus/<ID>*.txt, sorted by file name.
func (c *Ctx) CorpusLines() []string {
	if c.Corpus == "" {
		return nil
	}
	files, _ := filepath.Glob(filepath.Join(c.Corpus, c.ID+"*.txt"))
	sort.Strings(files)
	var out []string
	for _, f := range files {
		b, err := os.ReadFile(f)
		if err != nil {
			continue
		}
		for _, l := range strings.Split(string(b), "\n") {
			l = strings.TrimSpace(l)
			if l == "" || strings.HasPrefix(l, "#") {
				continue
			}
			out = append(out, l)
		}
	}
	return out
}

func hx(s string) string {
	if s == "" {
		return "-"
	}
	return hex.EncodeToString([]byte(s))
}

func unhx(s string) string {
	if s == "-" {
		return ""
	}
	b, err := hex.DecodeString(s)
	if err != nil {
		panic("bad hex " + s)
	}
	return string(b)
}

func hxs(ss []string) string {
	parts := make([]string, len(ss))
	for i, s := range ss {
		parts[i] = hx(s)
	}
	return strings.Join(parts, " ")
}

// safely runs f and reports a panic as a string (with the top of the stack).
func safely(f func()) (panicked string) {
	defer func() {
		if r := recover(); r != nil {
			st := string(debug.Stack())
			if len(st) > 1500 {
				st = st[:1500]
			}
			panicked = fmt.Sprint(r)
			_ = st
		}
	}()
	f()
	return ""
}

// genBytes draws a string of length < maxLen from alphabet (each element may be multi-byte).
func genFrom(r *Rand, alphabet []string, maxLen int) string {
	n := r.Intn(maxLen + 1)
	var sb strings.Builder
	for i := 0; i < n; i++ {
		sb.WriteString(alphabet[r.Intn(len(alphabet))])
	}
	return sb.String()
}

// parallelMap runs f(i) for i in [0,n) on `workers` goroutines and returns the results in order.
func parallelMap[T any](n, workers int, f func(i int) T) []T {
	out := make([]T, n)
	if workers < 1 {
		workers = 1
	}
	ch := make(chan int)
	done := make(chan struct{})
	for w := 0; w < workers; w++ {
		go func() {
			for i := range ch {
				out[i] = f(i)
			}
			done <- struct{}{}
		}()
	}
	for i := 0; i < n; i++ {
		ch <- i
	}
	close(ch)
	for w := 0; w < workers; w++ {
		<-done
	}
	return out
}

func bucket(n int) int {
	for _, b := range []int{4, 8, 16, 32, 64, 128, 1 << 30} {
		if n < b {
			return b
		}
	}
	return 0
}

func joinInts(xs []int) string {
	parts := make([]string, len(xs))
	for i, x := range xs {
		parts[i] = fmt.Sprint(x)
	}
	if len(parts) == 0 {
		return "-"
	}
	return strings.Join(parts, ",")
}

