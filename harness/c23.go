//go:build c23 || all

package main

import (
	"bytes"
	"context"
	"fmt"
	"io"
	"os"
	"strconv"
	"strings"
	"sync"
	"time"
	"unicode/utf8"

	"mvdan.cc/sh/v3/expand"
	"mvdan.cc/sh/v3/interp"
	"mvdan.cc/sh/v3/syntax"
)

// C23 — read splits lines like bash.
//
// Streams (model ops, any input):
//   rf   <ifs|unset> <line> <n> <raw>        expand.ReadFields in-process
//   read <ifs|unset> <raw> <k|a|bare> <input> the `read` builtin through interp.Runner (stdin = pipe),
//                                             followed by `IFS= read -r` to observe what was consumed
// Streams (spec ops, the property itself; only outside the documented exclusion region):
//   specrf, specread                          same observations, answered by the Lean specification
// Search leg (independent oracle = bash 5.2): a script performing the read and printing the
// values, run by interp and by bash;  witness `sh <style> <ifs|unset> <raw> <k|a|bare> <input>`.
func init() { register("C23", c23) }

type c23Case struct {
	ifsSet bool
	ifs    string
	raw    bool
	mode   string // "1".."5", "a", "bare"
	input  string
}

func c23IfsTok(set bool, ifs string) string {
	if !set {
		return "unset"
	}
	return hx(ifs)
}

func b01(b bool) string {
	if b {
		return "1"
	}
	return "0"
}

func c23Cfg(set bool, ifs string) *expand.Config {
	if set {
		return &expand.Config{Env: expand.ListEnviron("IFS=" + ifs)}
	}
	return &expand.Config{Env: expand.ListEnviron("X=y")}
}

func c23ReadFields(set bool, ifs, line string, n int, raw bool) (string, []string) {
	var fs []string
	p := safely(func() { fs = expand.ReadFields(c23Cfg(set, ifs), line, n, raw) })
	if p != "" {
		return "panic", nil
	}
	return strings.TrimSpace("ok " + hxs(fs)), fs
}

// ---- the exclusion region (mirrors the hypotheses of readfields_spec_partial) ----

type c23Tok byte // 'C' field character, 'W' IFS white space, 'D' other IFS character

func c23Tokens(ifsv string, line string, raw bool) (toks []c23Tok, loneBackslash bool) {
	rs := []rune(line)
	isIfs := func(r rune) bool { return strings.ContainsRune(ifsv, r) }
	for i := 0; i < len(rs); i++ {
		r := rs[i]
		if !raw && r == '\\' {
			if i+1 >= len(rs) {
				return toks, true
			}
			i++
			toks = append(toks, 'C')
			continue
		}
		switch {
		case !isIfs(r):
			toks = append(toks, 'C')
		case r == ' ' || r == '\t' || r == '\n':
			toks = append(toks, 'W')
		default:
			toks = append(toks, 'D')
		}
	}
	return toks, false
}

// c23Excluded reports whether (ifs, line, raw) lies in the region where the unchanged tree is known
// to differ from POSIX/bash (known findings C23-*): a non-white-space IFS delimiter that is not
// strictly between two field characters (modulo IFS white space) — i.e. adjacent, leading or
// trailing non-white-space delimiters —, a backslash in IFS without -r, or a line ending in an
// unpaired backslash (unspecified by POSIX; bash leaks \001 there).
func c23Excluded(set bool, ifs, line string, raw bool) (bool, string) {
	ifsv := " \t\n"
	if set {
		ifsv = ifs
	}
	if !raw && strings.ContainsRune(ifsv, '\\') {
		return true, "backslash-in-ifs"
	}
	toks, lone := c23Tokens(ifsv, line, raw)
	if lone {
		return true, "lone-backslash"
	}
	prev := byte('D') // start of line counts as a delimiter
	sawD := false
	for _, t := range toks {
		switch t {
		case 'W':
			continue
		case 'D':
			sawD = true
			if prev == 'D' {
				return true, "empty-field-delim"
			}
		}
		prev = byte(t)
	}
	if sawD && prev == 'D' {
		return true, "trailing-delim"
	}
	return false, ""
}

// ---- the builtin through interp ----

var c23ParseCache sync.Map

func c23Parse(src string) *syntax.File {
	if f, ok := c23ParseCache.Load(src); ok {
		return f.(*syntax.File)
	}
	f, err := syntax.NewParser().Parse(strings.NewReader(src), "")
	if err != nil {
		panic("c23 script does not parse: " + err.Error())
	}
	c23ParseCache.Store(src, f)
	return f
}

func c23Names(k int) []string { return []string{"a", "b", "c", "d", "e", "f"}[:k] }

func c23ReadCmd(cs c23Case) string {
	cmd := "read"
	if cs.raw {
		cmd += " -r"
	}
	switch cs.mode {
	case "a":
		cmd += " -a arr"
	case "bare":
	default:
		k, _ := strconv.Atoi(cs.mode)
		cmd += " " + strings.Join(c23Names(k), " ")
	}
	return cmd
}

// c23Builtin runs the builtin in-process with stdin = a pipe holding input.
func c23Builtin(cs c23Case) string {
	src := "unset IFS\n"
	if cs.ifsSet {
		src = "IFS=$1\n"
	}
	src += c23ReadCmd(cs) + "\nc23st=$?\nIFS= read -r c23rest\n"
	f := c23Parse(src)
	var res string
	p := safely(func() {
		pr, pw, err := os.Pipe()
		if err != nil {
			panic(err)
		}
		defer pr.Close()
		go func() { pw.Write([]byte(cs.input)); pw.Close() }()
		r, err := interp.New(interp.StdIO(pr, io.Discard, io.Discard),
			interp.Env(expand.ListEnviron("PATH=/nonexistent")),
			interp.Params("--", cs.ifs))
		if err != nil {
			panic(err)
		}
		ctx, cancel := context.WithTimeout(context.Background(), 5*time.Second)
		defer cancel()
		r.Run(ctx, f)
		var vals []string
		switch cs.mode {
		case "a":
			vals = r.Vars["arr"].List
		case "bare":
			vals = []string{r.Vars["REPLY"].Str}
		default:
			k, _ := strconv.Atoi(cs.mode)
			for _, nm := range c23Names(k) {
				vals = append(vals, r.Vars[nm].Str)
			}
		}
		parts := []string{"st=" + r.Vars["c23st"].Str}
		for _, v := range vals {
			parts = append(parts, hx(v))
		}
		// the model reports the unread input; the implementation shows its first line only,
		// so the model side is asked for the same thing (see `rest` handling below).
		parts = append(parts, "rest", hx(r.Vars["c23rest"].Str))
		res = strings.Join(parts, " ")
	})
	if p != "" {
		return "panic"
	}
	return res
}

// ---- search leg: interp vs bash ----

func c23Script(cs c23Case, style int) (script string, args []string) {
	var sb strings.Builder
	if cs.ifsSet {
		sb.WriteString("IFS=$1\n")
	} else {
		sb.WriteString("unset IFS\n")
	}
	body := c23ReadCmd(cs) + "; st=$?\n"
	switch cs.mode {
	case "a":
		// (not `for e in "${arr[@]}"`: an empty array expands to one empty field in interp — C22's business)
		body += `printf '%s|' "${#arr[@]}"; i=0; while [ "$i" -lt "${#arr[@]}" ]; do e=${arr[i]}; printf '%s:%s;' "${#e}" "$e"; i=$((i+1)); done` + "\n"
	case "bare":
		body += `printf '%s:%s;' "${#REPLY}" "$REPLY"` + "\n"
	default:
		k, _ := strconv.Atoi(cs.mode)
		for _, nm := range c23Names(k) {
			body += fmt.Sprintf(`printf '%%s:%%s;' "${#%s}" "$%s"`+"\n", nm, nm)
		}
	}
	body += `IFS= read -r rest; printf 'st=%s st2=%s %s:%s' "$st" "$?" "${#rest}" "$rest"` + "\n"
	switch style {
	case 0: // pipe, input exactly as given (may lack the final newline)
		sb.WriteString(`printf '%s' "$2" | {` + "\n" + body + "}\n")
	case 1: // here-string (appends a newline)
		sb.WriteString("{\n" + body + `} <<< "$2"` + "\n")
	default: // quoted here-document (input + newline)
		sb.WriteString("{\n" + body + "} <<'C23_EOF'\n" + cs.input + "\nC23_EOF\n")
	}
	return sb.String(), []string{cs.ifs, cs.input}
}

func c23Witness(cs c23Case, style int) string {
	return fmt.Sprintf("sh %d %s %s %s %s", style, c23IfsTok(cs.ifsSet, cs.ifs), b01(cs.raw), cs.mode, hx(cs.input))
}

// c23BashArtifact: regions where bash 5.2 itself departs from POSIX (checked by hand against dash and
// the bash sources), so that a difference there says nothing about the implementation:
//   * a multi-byte non-white-space IFS character preceded by IFS white space: bash's
//     get_word_from_string/list_string step over its first byte only (`sindex++`) and then see the
//     continuation byte as another delimiter -> a spurious empty field;
//   * the last field character of the line is a backslash-escaped IFS white space character: bash keeps
//     it when the last name takes a single word (`read a <<<'x\ '` -> "x ") but strips it in the
//     "rest of the line" path (strip_trailing_ifs_whitespace steps over CTLESC); dash keeps it always.
func c23BashArtifact(ifsv, line string, raw bool) bool {
	rs := []rune(line)
	isIfs := func(r rune) bool { return strings.ContainsRune(ifsv, r) }
	isW := func(r rune) bool { return (r == ' ' || r == '\t' || r == '\n') && isIfs(r) }
	prevW := false
	lastEscW := false
	for i := 0; i < len(rs); i++ {
		r := rs[i]
		if !raw && r == '\\' {
			if i+1 < len(rs) {
				i++
				lastEscW = isW(rs[i])
				if isIfs(rs[i]) && utf8.RuneLen(rs[i]) > 1 {
					return true // escaped multi-byte IFS character: bash protects its first byte only
				}
			}
			prevW = false
			continue
		}
		if isW(r) {
			prevW = true
			continue
		}
		if isIfs(r) && prevW && utf8.RuneLen(r) > 1 {
			return true
		}
		prevW = false
		lastEscW = false
	}
	return lastEscW
}

// c23BashComparable: inputs the bash oracle can be asked about at all.
//   * NUL cannot be passed in argv and bash drops it from input;
//   * here-document style needs the delimiter line not to occur and no NUL.
func c23BashComparable(cs c23Case, style int) bool {
	if strings.ContainsRune(cs.input, 0) || strings.ContainsRune(cs.ifs, 0) {
		return false
	}
	if style == 2 && strings.Contains(cs.input, "C23_EOF") {
		return false
	}
	return true
}

func c23RunSearch(c *Ctx, cs c23Case, style int) (fail bool, what string) {
	script, args := c23Script(cs, style)
	bs, ok := c23Bash(c, script, args...)
	if !ok {
		return false, "oracle-unavailable"
	}
	in := runInterp(c, syntax.LangBash, script, args...)
	if in.TimedOut { // machine load: once more, then give the case up rather than blame the implementation
		in = runInterp(c, syntax.LangBash, script, args...)
		if in.TimedOut {
			return false, "interp-timeout"
		}
	}
	if in.Panic != "" {
		return true, "interp panicked: " + in.Panic
	}
	if in.Stdout != bs.Stdout {
		return true, fmt.Sprintf("IFS=%s %s on input %q: interp prints %q, bash prints %q",
			func() string {
				if cs.ifsSet {
					return strconv.Quote(cs.ifs)
				}
				return "<unset>"
			}(), c23ReadCmd(cs), cs.input, in.Stdout, bs.Stdout)
	}
	return false, ""
}


// ---- read into PRE-EXISTING targets (bash leg only; the Lean model is about values, not attributes) ----

// c23Pre: the target of the read (arr for -a, a for names, REPLY for bare read) exists in some state
// before the read; afterwards attributes (${v@a}), indices (${!v[*]}) and every element are compared with bash.
// witness `pre <state> <mode> <raw> <input-hex>`.
type c23Pre struct {
	state int
	mode  string // "a", "bare", "1".."3"
	raw   bool
	input string
}

var c23PreStates = []string{
	0:  "unset",
	1:  "scalar",
	2:  "exported",
	3:  "dense-array",
	4:  "sparse-array",
	5:  "array-with-hole",
	6:  "assoc-array",
	7:  "readonly",
	8:  "nameref-to-unset",
	9:  "nameref-to-scalar",
	10: "nameref-to-sparse-array",
	11: "local-scalar",
	12: "local-sparse-array",
}

func (p c23Pre) target() string {
	switch p.mode {
	case "a":
		return "arr"
	case "bare":
		return "REPLY"
	}
	return "a"
}

func c23PreWitness(p c23Pre) string {
	return fmt.Sprintf("pre %d %s %s %s", p.state, p.mode, b01(p.raw), hx(p.input))
}

func c23PreScript(p c23Pre) string {
	T := p.target()
	var setup, local string
	switch p.state {
	case 0:
		setup = "unset " + T
	case 1:
		setup = T + "=old"
	case 2:
		setup = "export " + T + "=old"
	case 3:
		setup = T + "=(1 2 3 4)"
	case 4:
		setup = T + "=([3]=p [7]=q)"
	case 5:
		setup = T + "=(1 2 3); unset '" + T + "[1]'"
	case 6:
		setup = "declare -A " + T + "=([k]=v)"
	case 7:
		setup = "readonly " + T + "=old"
	case 8:
		setup = "unset tgt; declare -n " + T + "=tgt"
	case 9:
		setup = "tgt=old; declare -n " + T + "=tgt"
	case 10:
		setup = "tgt=([2]=p [5]=q); declare -n " + T + "=tgt"
	case 11:
		setup = T + "=glob"
		local = "local " + T + "=old"
	case 12:
		setup = T + "=glob"
		local = "local " + T + "=([2]=p [5]=q)"
	}
	cmd := "read"
	if p.raw {
		cmd += " -r"
	}
	names := []string{T}
	switch p.mode {
	case "a":
		cmd += " -a arr"
	case "bare":
	default:
		k, _ := strconv.Atoi(p.mode)
		names = c23Names(k)
		cmd += " " + strings.Join(names, " ")
	}
	var sb strings.Builder
	// o NAME: attributes, then indices and elements of an array, or set-ness and value of a scalar
	// (`${!v[*]}` of a scalar is "0" in bash and empty in interp — not this property's business)
	sb.WriteString(`o() { eval "case \"\${$1@a}\" in *[aA]*) printf '%s:attr=%s;idx=%s;' \"$1\" \"\${$1@a}\" \"\${!$1[*]}\"; for i in \"\${!$1[@]}\"; do printf '[%s]=%s;' \"\$i\" \"\${$1[\$i]}\"; done;; *) printf '%s:attr=%s;%s=%s;' \"$1\" \"\${$1@a}\" \"\${$1+set}\" \"\${$1}\";; esac"; echo; }` + "\n")
	sb.WriteString("unset IFS\n")
	sb.WriteString("f() {\n")
	if local != "" {
		sb.WriteString(local + "\n")
	}
	sb.WriteString(cmd + ` <<< "$1"; echo "st=$?"` + "\n")
	for _, n := range names {
		sb.WriteString("o " + n + "\n")
	}
	sb.WriteString("}\n")
	sb.WriteString(setup + "\n")
	sb.WriteString(`f "$1"` + "\n")
	sb.WriteString("o " + T + "\n")
	if p.state >= 8 && p.state <= 10 {
		sb.WriteString("o tgt\ndeclare -p " + T + " 2>&1\n")
	}
	return sb.String()
}

// c23PreExcluded: target states in which the unchanged tree is known to differ from bash (findings
// C23-read-drops-export, C23-read-a-assoc, C23-read-readonly-status, C23-read-nameref,
// C23-read-name-into-array); their witnesses are replayed from corpus/C23-known.txt.
func c23PreExcluded(p c23Pre) (bool, string) {
	switch p.state {
	case 2:
		return true, "export"
	case 6:
		return true, "assoc"
	case 7:
		return true, "readonly"
	case 8, 9, 10:
		return true, "nameref"
	case 3, 4, 5, 12:
		if p.mode != "a" {
			return true, "name-into-array"
		}
	}
	return false, ""
}

func c23PreSearch(c *Ctx, p c23Pre) (bool, string) {
	script := c23PreScript(p)
	bs, ok := c23Bash(c, script, p.input)
	if !ok {
		return false, "oracle-unavailable"
	}
	in := runInterp(c, syntax.LangBash, script, p.input)
	if in.TimedOut {
		in = runInterp(c, syntax.LangBash, script, p.input)
		if in.TimedOut {
			return false, "interp-timeout"
		}
	}
	if in.Panic != "" {
		return true, fmt.Sprintf("target %s, read mode %s, input %q: interp panicked: %s", c23PreStates[p.state], p.mode, p.input, in.Panic)
	}
	if in.Stdout != bs.Stdout {
		return true, fmt.Sprintf("target %s, read mode %s, input %q: interp prints %q, bash prints %q", c23PreStates[p.state], p.mode, p.input, in.Stdout, bs.Stdout)
	}
	return false, ""
}

// c23Bash runs the bash oracle; a run that could not be trusted (exec error, timeout, non-zero
// status with nothing printed — seen under heavy machine load) is retried, then reported as
// unavailable so that the case is skipped rather than blamed on the implementation.
func c23Bash(c *Ctx, script string, args ...string) (ShellResult, bool) {
	var bs ShellResult
	for try := 0; try < 3; try++ {
		bs = runShell(c, "bash", script, args...)
		if bs.Err == "" && !bs.TimedOut && !(bs.Status != 0 && bs.Stdout == "") {
			return bs, true
		}
		time.Sleep(time.Duration(50*(try+1)) * time.Millisecond)
	}
	return bs, false
}

// ---- generators ----

var c23IfsChoices = []string{" ", ":", ": ", ",;", "é", " \t\n", ":\t", "\n", " é:", "x", ";\n ", "-", "\t", "::", "é "}

func c23GenIfs(r *Rand) (bool, string) {
	switch k := r.Intn(20); {
	case k < 4:
		return false, ""
	case k == 4:
		return true, ""
	case k == 5:
		return true, "\\ " // backslash in IFS (excluded from spec/bash legs when not raw)
	case k == 6:
		return true, genFrom(r, []string{" ", ":", "\t", "\n", ",", "é", "a", "\\", "\r"}, 4)
	default:
		return true, r.Pick(c23IfsChoices)
	}
}

// c23GenLine draws a line biased to the IFS characters, backslashes and field characters.
// clean = build the line so that it avoids the exclusion region by construction.
func c23GenLine(r *Rand, set bool, ifs string, raw bool, clean bool, maxLen int) string {
	ifsv := " \t\n"
	if set {
		ifsv = ifs
	}
	var ws, ds []string
	for _, ru := range ifsv {
		if ru == ' ' || ru == '\t' || ru == '\n' {
			if ru != '\n' {
				ws = append(ws, string(ru))
			}
		} else if ru != '\\' {
			ds = append(ds, string(ru))
		}
	}
	fieldAlpha := []string{"a", "b", "x", "y", "é", "z", "0", "-", "世"}
	var fa []string
	for _, s := range fieldAlpha {
		if !strings.Contains(ifsv, s) {
			fa = append(fa, s)
		}
	}
	if len(fa) == 0 {
		fa = []string{"Q"}
	}
	// candidates for escaped characters
	escAlpha := append([]string{"\\", " ", "a", "\t"}, ds...)
	escAlpha = append(escAlpha, ws...)
	var sb strings.Builder
	genWs := func(min int) {
		if len(ws) == 0 {
			return
		}
		k := min + r.Intn(3)
		for i := 0; i < k; i++ {
			sb.WriteString(r.Pick(ws))
		}
	}
	genField := func() {
		k := 1 + r.Intn(3)
		for i := 0; i < k; i++ {
			switch {
			case !raw && r.Chance(25):
				sb.WriteString("\\" + r.Pick(escAlpha))
			case raw && r.Chance(15):
				sb.WriteString("\\")
			default:
				sb.WriteString(r.Pick(fa))
			}
		}
	}
	if clean {
		// [W*] field (delim field)* [W*]  with delim = W+ | W* D W*
		nf := r.Intn(maxLen/2 + 1)
		if r.Chance(40) {
			genWs(1)
		}
		for i := 0; i < nf; i++ {
			if i > 0 {
				if len(ds) > 0 && (len(ws) == 0 || r.Chance(50)) {
					genWs(0)
					sb.WriteString(r.Pick(ds))
					genWs(0)
				} else if len(ws) > 0 {
					genWs(1)
				}
				// IFS empty or made only of field-less characters: fields simply concatenate
			}
			genField()
		}
		if r.Chance(40) {
			genWs(1)
		}
		return sb.String()
	}
	alpha := append([]string{}, fa...)
	alpha = append(alpha, ws...)
	alpha = append(alpha, ws...)
	alpha = append(alpha, ds...)
	alpha = append(alpha, ds...)
	alpha = append(alpha, "\\", "\\", " ", ":")
	n := r.Intn(maxLen + 1)
	for i := 0; i < n; i++ {
		sb.WriteString(r.Pick(alpha))
	}
	return sb.String()
}

func c23GenMode(r *Rand) string {
	switch k := r.Intn(12); {
	case k == 0:
		return "bare"
	case k <= 2:
		return "a"
	default:
		return strconv.Itoa(1 + r.Intn(4))
	}
}

// c23GenInput: a few lines (continuations, trailing/no trailing newline).
func c23GenInput(r *Rand, set bool, ifs string, raw bool, clean bool) string {
	var sb strings.Builder
	nl := r.Intn(3) + 1
	for i := 0; i < nl; i++ {
		sb.WriteString(c23GenLine(r, set, ifs, raw, clean, 8))
		if i < nl-1 {
			if r.Chance(35) {
				sb.WriteString("\\") // continuation (or a literal backslash with -r)
			}
			sb.WriteString("\n")
		} else if r.Chance(80) {
			sb.WriteString("\n")
		}
	}
	return sb.String()
}

// the first line as the builtin sees it (computed by the harness only to evaluate the exclusion
// predicate; plain Go, independent of the implementation).
func c23FirstLine(input string, raw bool) string {
	var line []byte
	for i := 0; i < len(input); i++ {
		b := input[i]
		if !raw && b == '\\' && i+1 < len(input) {
			if input[i+1] == '\n' {
				i++
				continue
			}
			line = append(line, b, input[i+1])
			i++
			continue
		}
		if b == '\n' {
			break
		}
		line = append(line, b)
	}
	return string(line)
}

func c23ModeN(mode string) int {
	switch mode {
	case "a":
		return -1
	case "bare":
		return 1
	}
	k, _ := strconv.Atoi(mode)
	return k
}

func c23PadHex(fs []string, k int) string {
	out := make([]string, k)
	for i := range out {
		if i < len(fs) {
			out[i] = fs[i]
		}
	}
	return strings.TrimSpace("ok " + hxs(out))
}

// one ReadFields case: model op always, spec op when outside the exclusion region.
func c23FieldsCase(c *Ctx, set bool, ifs, line string, n int, raw bool, spec bool) {
	got, fs := c23ReadFields(set, ifs, line, n, raw)
	c.Op(fmt.Sprintf("rf %s %s %d %s", c23IfsTok(set, ifs), hx(line), n, b01(raw)), got)
	ex, why := c23Excluded(set, ifs, line, raw)
	tags := []string{"rf", fmt.Sprintf("n=%d", n), "raw=" + b01(raw)}
	if ex {
		tags = append(tags, "excluded:"+why)
	}
	if !utf8.ValidString(line) {
		tags = append(tags, "invalid-utf8")
	}
	c.Case("rf\x00"+ifs+"\x00"+line+fmt.Sprint(set, n, raw), len(fs) >= 2 || strings.Contains(line, "\\"), tags...)
	if !spec || ex || got == "panic" {
		return
	}
	if n >= 1 {
		c.Op(fmt.Sprintf("specrf %s %s %d %s", c23IfsTok(set, ifs), hx(line), n, b01(raw)), c23PadHex(fs, n))
	} else if n == -1 {
		c.Op(fmt.Sprintf("specrf %s %s a %s", c23IfsTok(set, ifs), hx(line), b01(raw)), got)
	}
}

func c23BuiltinCase(c *Ctx, cs c23Case, spec bool) {
	got := c23Builtin(cs)
	// The implementation shows only the first line of what it left unread; make the op say so.
	c.Op(fmt.Sprintf("read %s %s %s %s", c23IfsTok(cs.ifsSet, cs.ifs), b01(cs.raw), cs.mode, hx(cs.input)), got)
	line := c23FirstLine(cs.input, cs.raw)
	ex, why := false, ""
	if cs.mode != "bare" {
		ex, why = c23Excluded(cs.ifsSet, cs.ifs, line, cs.raw)
	}
	tags := []string{"read", "mode=" + cs.mode, "raw=" + b01(cs.raw)}
	if ex {
		tags = append(tags, "excluded:"+why)
	}
	if strings.Contains(cs.input, "\\\n") {
		tags = append(tags, "backslash-newline")
	}
	if !strings.HasSuffix(cs.input, "\n") {
		tags = append(tags, "no-final-newline")
	}
	c.Case("read\x00"+cs.ifs+"\x00"+cs.input+fmt.Sprint(cs.ifsSet, cs.raw, cs.mode), strings.ContainsAny(cs.input, "\\\n"), tags...)
	if spec && !ex && got != "panic" {
		c.Op(fmt.Sprintf("specread %s %s %s %s", c23IfsTok(cs.ifsSet, cs.ifs), b01(cs.raw), cs.mode, hx(cs.input)), got)
	}
}

func c23ParseIfsTok(tok string) (bool, string) {
	if tok == "unset" {
		return false, ""
	}
	return true, unhx(tok)
}

func c23(c *Ctx) {
	c.Rule = "IFS ∈ {unset, empty, space, ':', ': ', ',;', 'é', newline/tab mixes, backslash, random}; lines over field chars, IFS chars, " +
		"backslashes (escapes, continuations), multi-byte runes; n ∈ {-1, 1..5} (+ rare 0, -2, 99); raw both; " +
		"half of the lines built 'clean' (single non-white-space delimiters strictly between fields) so that the spec stream is busy, half free; " +
		"non-trivial = ≥ 2 fields or a backslash / newline in the input; distinct by exact (IFS, line, n, raw)"

	type shCase struct {
		cs      c23Case
		style   int
		witness string
		known   bool
	}
	var shCases []shCase
	var preCases []c23Pre

	// ---- corpus: replayed first ----
	for _, l := range c.CorpusLines() {
		f := strings.Fields(l)
		switch {
		case len(f) == 5 && f[0] == "rf":
			set, ifs := c23ParseIfsTok(f[1])
			n, _ := strconv.Atoi(f[3])
			c23FieldsCase(c, set, ifs, unhx(f[2]), n, f[4] == "1", true)
		case len(f) == 5 && f[0] == "read":
			set, ifs := c23ParseIfsTok(f[1])
			c23BuiltinCase(c, c23Case{set, ifs, f[2] == "1", f[3], unhx(f[4])}, true)
		case len(f) == 5 && f[0] == "pre":
			st, _ := strconv.Atoi(f[1])
			if st >= 0 && st < len(c23PreStates) {
				preCases = append(preCases, c23Pre{st, f[2], f[3] == "1", unhx(f[4])})
			}
		case len(f) == 6 && f[0] == "sh":
			set, ifs := c23ParseIfsTok(f[2])
			st, _ := strconv.Atoi(f[1])
			cs := c23Case{set, ifs, f[3] == "1", f[4], unhx(f[5])}
			shCases = append(shCases, shCase{cs, st, l, true})
			// model ops for the same input (the model must agree with the code there too)
			c23BuiltinCase(c, cs, false)
		}
	}

	// ---- correspondence streams ----
	for i := 0; i < c.N; i++ {
		r := c.R
		set, ifs := c23GenIfs(r)
		raw := r.Chance(40)
		clean := r.Chance(50)
		maxLen := 10
		if c.Thorough() {
			maxLen = 16
		}
		line := c23GenLine(r, set, ifs, raw, clean, maxLen)
		if r.Chance(3) {
			// malformed stream: invalid UTF-8, NUL, lone continuation bytes
			line += r.Pick([]string{"\xff", "\x00", "\xc3", "\xe2\x82", "\xed\xa0\x80", "a\xffb"})
		}
		var n int
		switch k := r.Intn(40); {
		case k == 0:
			n = 0
		case k == 1:
			n = -2
		case k == 2:
			n = 99
		case k < 10:
			n = -1
		default:
			n = 1 + r.Intn(5)
		}
		c23FieldsCase(c, set, ifs, line, n, raw, true)

		if i%4 == 0 {
			set, ifs := c23GenIfs(r)
			raw := r.Chance(40)
			cs := c23Case{set, ifs, raw, c23GenMode(r), c23GenInput(r, set, ifs, raw, r.Chance(50))}
			if strings.ContainsRune(cs.ifs, 0) {
				cs.ifs = strings.ReplaceAll(cs.ifs, "\x00", ":")
			}
			c23BuiltinCase(c, cs, true)
		}
	}

	// ---- search leg: interp vs bash on generated scripts ----
	nsh := 240
	if c.Thorough() {
		nsh = 20000 / max(1, c.Shards)
	}
	if c.N == 0 {
		nsh = 0
	}
	rs := c.R.Fork("search")
	for i := 0; i < nsh; i++ {
		set, ifs := c23GenIfs(rs)
		raw := rs.Chance(40)
		mode := c23GenMode(rs)
		var input string
		for try := 0; ; try++ {
			input = c23GenInput(rs, set, ifs, raw, rs.Chance(60))
			line := c23FirstLine(input, raw)
			ex := false
			if mode != "bare" {
				ex, _ = c23Excluded(set, ifs, line, raw)
			} else if !raw {
				_, ex = c23Tokens("", line, raw) // a lone trailing backslash at end of input: bash leaks \001
			}
			// bash 5.2 treats every isspace() character of IFS as IFS white space (\r \v \f);
			// finding C23-ifs-cr: keep such IFS values out of the generated stream.
			if strings.ContainsAny(ifs, "\r\v\f") {
				ex = true
			}
			ifsv := " \t\n"
			if set {
				ifsv = ifs
			}
			if mode != "bare" && c23BashArtifact(ifsv, line, raw) {
				ex = true
			}
			if !ex && utf8.ValidString(input) && utf8.ValidString(ifs) {
				break
			}
			if try > 20 {
				input = "a b\n"
				set, ifs = false, ""
				break
			}
		}
		cs := c23Case{set, ifs, raw, mode, input}
		style := rs.Intn(3)
		if !c23BashComparable(cs, style) {
			continue
		}
		shCases = append(shCases, shCase{cs, style, c23Witness(cs, style), false})
	}
	type shRes struct {
		fail bool
		what string
	}
	results := parallelMap(len(shCases), 8, func(i int) shRes {
		f, w := c23RunSearch(c, shCases[i].cs, shCases[i].style)
		return shRes{f, w}
	})
	nb := 0
	for i, sc := range shCases {
		if results[i].what == "oracle-unavailable" || results[i].what == "interp-timeout" {
			// visible in the evidence histogram; a real hang of `read`/expansion would show up as a
			// large `interp-timeout` count on an idle machine
			c.Case("sh\x00"+sc.witness, false, results[i].what)
			continue
		}
		nb++
		c.Case("sh\x00"+sc.witness, true, "bash-compared", fmt.Sprintf("style=%d", sc.style))
		if results[i].fail {
			c.Fail(sc.witness, results[i].what)
		}
	}
	// ---- read into pre-existing targets ----
	npre := 60
	if c.Thorough() {
		npre = 2000 / max(1, c.Shards)
	}
	if c.N == 0 {
		npre = 0
	}
	rp := c.R.Fork("pre")
	for i := 0; i < npre; i++ {
		var p c23Pre
		for {
			p = c23Pre{state: rp.Intn(len(c23PreStates)), mode: rp.Pick([]string{"a", "a", "a", "bare", "1", "2", "3"}), raw: rp.Chance(30)}
			if ex, _ := c23PreExcluded(p); !ex {
				break
			}
		}
		nf := rp.Intn(6)
		var fs []string
		for j := 0; j < nf; j++ {
			fs = append(fs, rp.Pick([]string{"x", "yy", "z1", "w", "é"}))
		}
		p.input = strings.Join(fs, rp.Pick([]string{" ", "  ", "\t"}))
		if rp.Chance(20) {
			p.input = " " + p.input + " "
		}
		preCases = append(preCases, p)
	}
	preRes := parallelMap(len(preCases), 8, func(i int) shRes {
		f, w := c23PreSearch(c, preCases[i])
		return shRes{f, w}
	})
	for i, p := range preCases {
		w := c23PreWitness(p)
		if preRes[i].what == "oracle-unavailable" || preRes[i].what == "interp-timeout" {
			c.Case("pre\x00"+w, false, preRes[i].what)
			continue
		}
		nb++
		c.Case("pre\x00"+w, true, "bash-compared", "pre="+c23PreStates[p.state], "premode="+p.mode)
		if preRes[i].fail {
			c.Fail(w, preRes[i].what)
		}
	}
	c.Extra["bash_runs"] = nb
	_ = bytes.MinRead
}
