//go:build c15 || all

package main

import (
	"bytes"
	"encoding"
	"encoding/hex"
	"encoding/json"
	"fmt"
	"math"
	"math/big"
	"reflect"
	"sort"
	"strconv"
	"strings"
	"unicode/utf8"
	"unsafe"

	"mvdan.cc/sh/v3/syntax"
	"mvdan.cc/sh/v3/syntax/typedjson"
)

// C15 — typed JSON round-trips syntax trees.
//
// Correspondence streams (model op = Lean driver, answer = the real code):
//   fields / impl        reflection view of the node schema = regenerated Gen tables
//   opstr / unm          real String()/UnmarshalText of every operator type = regenerated tables
//   newpos / posparts    syntax.NewPos / Offset / Line / Col / IsValid / IsRecovered = bit-packing model
//   sanitize             encoding/json's string coercion = model
//   encode               typedjson.Encode (re-read in order) = model encode of the reflective dump
//   wf                   the harness's own JsonWF predicate = the model's
//   decode / errkind     typedjson.Decode on encoded and on mutated documents = model decode
//   specroundtrip        model Decode(Encode v) = the Go tree with recovered positions cleared
// Search leg (independent of Lean): reflect.DeepEqual(Decode(Encode(t)), t with recovered
// positions cleared), byte equality of the re-encoding, and no panic of Decode on mutated and on
// corrupted documents.
func init() { register("C15", c15) }

var (
	c15Stringer    = reflect.TypeOf((*fmt.Stringer)(nil)).Elem()
	c15Unmarshaler = reflect.TypeOf((*encoding.TextUnmarshaler)(nil)).Elem()
)

// ---- raw view of syntax.Pos --------------------------------------------------------------

func c15PosRaw(p syntax.Pos) (offs, lineCol uint32) {
	v := reflect.ValueOf(p)
	return uint32(v.Field(0).Uint()), uint32(v.Field(1).Uint())
}

func c15MakePos(offs, lineCol uint32) syntax.Pos {
	var p syntax.Pos
	if unsafe.Sizeof(p) != 8 {
		panic("syntax.Pos is no longer two uint32s")
	}
	*(*[2]uint32)(unsafe.Pointer(&p)) = [2]uint32{offs, lineCol}
	return p
}

// ---- reflective dump into the driver's value syntax ----------------------------------------

func c15IsOp(t reflect.Type) bool {
	return t.Implements(c15Stringer) || reflect.PointerTo(t).Implements(c15Unmarshaler)
}

func c15Dump(sb *strings.Builder, v reflect.Value, ann bool) {
	switch v.Kind() {
	case reflect.Pointer:
		if v.IsNil() {
			sb.WriteString("N")
			return
		}
		sb.WriteString("( R ")
		c15Dump(sb, v.Elem(), ann)
		sb.WriteString(" )")
	case reflect.Interface:
		if v.IsNil() {
			sb.WriteString("IN")
			return
		}
		sb.WriteString("( I ")
		c15Dump(sb, v.Elem(), ann)
		sb.WriteString(" )")
	case reflect.Struct:
		if v.Type() == posType {
			fmt.Fprintf(sb, "( P %d %d )", v.Field(0).Uint(), v.Field(1).Uint())
			return
		}
		sb.WriteString("( T " + v.Type().Name() + " ")
		pe := "-"
		if ann && v.CanAddr() {
			if n, ok := v.Addr().Interface().(syntax.Node); ok {
				po, pl := c15PosRaw(n.Pos())
				eo, el := c15PosRaw(n.End())
				pe = fmt.Sprintf("( %d %d %d %d )", po, pl, eo, el)
			}
		}
		sb.WriteString(pe)
		for i := 0; i < v.NumField(); i++ {
			sb.WriteString(" ( " + v.Type().Field(i).Name + " ")
			c15Dump(sb, v.Field(i), ann)
			sb.WriteString(" )")
		}
		sb.WriteString(" )")
	case reflect.Slice:
		if v.IsNil() {
			sb.WriteString("SN")
			return
		}
		sb.WriteString("( L")
		for i := 0; i < v.Len(); i++ {
			sb.WriteString(" ")
			c15Dump(sb, v.Index(i), ann)
		}
		sb.WriteString(" )")
	case reflect.Bool:
		if v.Bool() {
			sb.WriteString("( B 1 )")
		} else {
			sb.WriteString("( B 0 )")
		}
	case reflect.String:
		sb.WriteString("( S " + hx(v.String()) + " )")
	case reflect.Uint8, reflect.Uint32:
		op := "-"
		if c15IsOp(v.Type()) {
			op = v.Type().Name()
		}
		fmt.Fprintf(sb, "( U %d %s %d )", v.Type().Bits(), op, v.Uint())
	default:
		sb.WriteString("O")
	}
}

func c15DumpNode(n syntax.Node, ann bool) string {
	var sb strings.Builder
	c15Dump(&sb, reflect.ValueOf(n), ann)
	return sb.String()
}

func c15TypeStr(t reflect.Type) string {
	switch {
	case t == posType:
		return "pos"
	case t == reflect.TypeOf(true):
		return "bool"
	case t == reflect.TypeOf(""):
		return "str"
	case t.Kind() == reflect.Uint8 || t.Kind() == reflect.Uint32:
		op := "-"
		if c15IsOp(t) {
			op = t.Name()
		}
		return fmt.Sprintf("( u %d %s )", t.Bits(), op)
	case t.Kind() == reflect.Pointer && t.Elem().Kind() == reflect.Struct && t.Elem() != posType:
		return "( p " + t.Elem().Name() + " )"
	case t.Kind() == reflect.Interface && t.Name() != "":
		return "( i " + t.Name() + " )"
	case t.Kind() == reflect.Slice:
		return "( sl " + c15TypeStr(t.Elem()) + " )"
	case t.Kind() == reflect.Struct:
		return "( sv " + t.Name() + " )"
	}
	return "( o )"
}

// c15Structs: node structs plus every struct reachable through field types, sorted by name.
func c15Structs() []reflect.Type {
	seen := map[reflect.Type]bool{}
	var todo []reflect.Type
	todo = append(todo, allNodeStructs()...)
	var out []reflect.Type
	var visit func(t reflect.Type)
	visit = func(t reflect.Type) {
		switch t.Kind() {
		case reflect.Pointer, reflect.Slice:
			visit(t.Elem())
		case reflect.Struct:
			if t != posType && !seen[t] {
				todo = append(todo, t)
			}
		}
	}
	for len(todo) > 0 {
		t := todo[0]
		todo = todo[1:]
		if seen[t] {
			continue
		}
		seen[t] = true
		out = append(out, t)
		for i := 0; i < t.NumField(); i++ {
			visit(t.Field(i).Type)
		}
	}
	sort.Slice(out, func(i, j int) bool { return out[i].Name() < out[j].Name() })
	return out
}

var c15Ifaces = []reflect.Type{
	reflect.TypeOf((*syntax.Node)(nil)).Elem(), reflect.TypeOf((*syntax.Command)(nil)).Elem(),
	reflect.TypeOf((*syntax.WordPart)(nil)).Elem(), reflect.TypeOf((*syntax.ArithmExpr)(nil)).Elem(),
	reflect.TypeOf((*syntax.TestExpr)(nil)).Elem(), reflect.TypeOf((*syntax.Loop)(nil)).Elem(),
}

// ---- JSON documents in the driver's syntax ------------------------------------------------

func c15Num(f float64) string {
	if f == math.Trunc(f) && !math.IsInf(f, 0) && !math.IsNaN(f) {
		bi, _ := new(big.Float).SetFloat64(f).Int(nil)
		return "( n " + bi.String() + " )"
	}
	return "frac"
}

// c15JAny renders a decoded JSON value with object keys sorted (Go maps have no order).
func c15JAny(sb *strings.Builder, x any) {
	switch x := x.(type) {
	case nil:
		sb.WriteString("null")
	case bool:
		if x {
			sb.WriteString("true")
		} else {
			sb.WriteString("false")
		}
	case float64:
		sb.WriteString(c15Num(x))
	case string:
		sb.WriteString("( s " + hx(x) + " )")
	case []any:
		sb.WriteString("( a")
		for _, e := range x {
			sb.WriteString(" ")
			c15JAny(sb, e)
		}
		sb.WriteString(" )")
	case map[string]any:
		keys := make([]string, 0, len(x))
		for k := range x {
			keys = append(keys, k)
		}
		sort.Strings(keys)
		sb.WriteString("( o")
		for _, k := range keys {
			sb.WriteString(" ( " + hx(k) + " ")
			c15JAny(sb, x[k])
			sb.WriteString(" )")
		}
		sb.WriteString(" )")
	default:
		sb.WriteString("?")
	}
}

// c15JOrdered re-reads JSON text keeping the order of object keys.
func c15JOrdered(sb *strings.Builder, dec *json.Decoder) error {
	tok, err := dec.Token()
	if err != nil {
		return err
	}
	switch t := tok.(type) {
	case json.Delim:
		switch t {
		case '{':
			sb.WriteString("( o")
			for dec.More() {
				k, err := dec.Token()
				if err != nil {
					return err
				}
				sb.WriteString(" ( " + hx(k.(string)) + " ")
				if err := c15JOrdered(sb, dec); err != nil {
					return err
				}
				sb.WriteString(" )")
			}
			sb.WriteString(" )")
			_, err = dec.Token()
			return err
		case '[':
			sb.WriteString("( a")
			for dec.More() {
				sb.WriteString(" ")
				if err := c15JOrdered(sb, dec); err != nil {
					return err
				}
			}
			sb.WriteString(" )")
			_, err = dec.Token()
			return err
		}
		return fmt.Errorf("unexpected delimiter")
	case nil:
		sb.WriteString("null")
	case bool:
		if t {
			sb.WriteString("true")
		} else {
			sb.WriteString("false")
		}
	case float64:
		sb.WriteString(c15Num(t))
	case string:
		sb.WriteString("( s " + hx(t) + " )")
	}
	return nil
}

// ---- the harness's own JsonWF and the expected result of the round trip ----------------------

func c15WF(v reflect.Value) bool {
	switch v.Kind() {
	case reflect.Pointer, reflect.Interface:
		if v.IsNil() {
			return true
		}
		return c15WF(v.Elem())
	case reflect.Struct:
		if v.Type() == posType {
			p := v.Interface().(syntax.Pos)
			return p.IsValid() || p == (syntax.Pos{}) || p.IsRecovered()
		}
		for i := 0; i < v.NumField(); i++ {
			if !c15WF(v.Field(i)) {
				return false
			}
		}
		return true
	case reflect.Slice:
		for i := 0; i < v.Len(); i++ {
			e := v.Index(i)
			if e.IsZero() && e.Kind() != reflect.Struct {
				return false
			}
			if e.Kind() == reflect.Slice && e.Len() == 0 {
				return false
			}
			if !c15WF(e) {
				return false
			}
		}
		return true
	case reflect.String:
		return utf8.ValidString(v.String())
	case reflect.Uint8, reflect.Uint32:
		if v.Uint() == 0 || !c15IsOp(v.Type()) {
			return true
		}
		s, ok := v.Interface().(fmt.Stringer)
		if !ok {
			return false
		}
		nv := reflect.New(v.Type())
		u, ok := nv.Interface().(encoding.TextUnmarshaler)
		if !ok || u.UnmarshalText([]byte(s.String())) != nil {
			return false
		}
		return nv.Elem().Uint() == v.Uint()
	case reflect.Bool:
		return true
	}
	return false
}

// c15HasRecovered reports a recovered position anywhere in the tree.
func c15HasRecovered(v reflect.Value) bool {
	switch v.Kind() {
	case reflect.Pointer, reflect.Interface:
		return !v.IsNil() && c15HasRecovered(v.Elem())
	case reflect.Struct:
		if v.Type() == posType {
			return v.Interface().(syntax.Pos).IsRecovered()
		}
		for i := 0; i < v.NumField(); i++ {
			if c15HasRecovered(v.Field(i)) {
				return true
			}
		}
	case reflect.Slice:
		for i := 0; i < v.Len(); i++ {
			if c15HasRecovered(v.Index(i)) {
				return true
			}
		}
	}
	return false
}

// c15SameModuloDerived compares two documents after removing every "Pos" and "End" key (the
// results of the Pos()/End() methods; no struct field has such a name).
func c15SameModuloDerived(a, b string) bool {
	var x, y any
	if json.Unmarshal([]byte(a), &x) != nil || json.Unmarshal([]byte(b), &y) != nil {
		return false
	}
	var strip func(v any)
	strip = func(v any) {
		switch v := v.(type) {
		case map[string]any:
			delete(v, "Pos")
			delete(v, "End")
			for _, e := range v {
				strip(e)
			}
		case []any:
			for _, e := range v {
				strip(e)
			}
		}
	}
	strip(x)
	strip(y)
	return reflect.DeepEqual(x, y)
}

// c15HasEmptySlice reports an empty-but-non-nil slice anywhere in the tree.
func c15HasEmptySlice(v reflect.Value) bool {
	switch v.Kind() {
	case reflect.Pointer, reflect.Interface:
		return !v.IsNil() && c15HasEmptySlice(v.Elem())
	case reflect.Struct:
		if v.Type() == posType {
			return false
		}
		for i := 0; i < v.NumField(); i++ {
			if c15HasEmptySlice(v.Field(i)) {
				return true
			}
		}
	case reflect.Slice:
		if !v.IsNil() && v.Len() == 0 {
			return true
		}
		for i := 0; i < v.Len(); i++ {
			if c15HasEmptySlice(v.Index(i)) {
				return true
			}
		}
	}
	return false
}

// c15Clone deep-copies a tree, clearing recovered positions.  Empty slices become nil: a nil and
// an empty-but-non-nil slice hold the same elements and are not distinguished by the property
// (reflect.DeepEqual would; the parser leaves either, e.g. IfClause.Last).
func c15Clone(v reflect.Value) reflect.Value {
	switch v.Kind() {
	case reflect.Pointer:
		if v.IsNil() {
			return v
		}
		n := reflect.New(v.Type().Elem())
		n.Elem().Set(c15Clone(v.Elem()))
		return n
	case reflect.Interface:
		if v.IsNil() {
			return v
		}
		n := reflect.New(v.Type()).Elem()
		n.Set(c15Clone(v.Elem()))
		return n
	case reflect.Struct:
		if v.Type() == posType {
			if v.Interface().(syntax.Pos).IsRecovered() {
				return reflect.Zero(posType)
			}
			return v
		}
		n := reflect.New(v.Type()).Elem()
		for i := 0; i < v.NumField(); i++ {
			n.Field(i).Set(c15Clone(v.Field(i)))
		}
		return n
	case reflect.Slice:
		if v.IsNil() || v.Len() == 0 {
			return reflect.Zero(v.Type())
		}
		n := reflect.MakeSlice(v.Type(), v.Len(), v.Len())
		for i := 0; i < v.Len(); i++ {
			n.Index(i).Set(c15Clone(v.Index(i)))
		}
		return n
	}
	return v
}

// ---- error classes --------------------------------------------------------------------------

func c15ErrKind(err error) string {
	m := err.Error()
	switch {
	case strings.HasPrefix(m, "cannot decode JSON ") && strings.HasSuffix(m, " into a position"):
		return "posKind"
	case strings.HasPrefix(m, "cannot decode JSON ") && strings.Contains(m, " into the position field "):
		return "posFieldKind"
	case strings.HasPrefix(m, "unknown type: "):
		return "unknownType"
	case strings.HasPrefix(m, `missing "Type" to decode`):
		return "missingType"
	case strings.HasPrefix(m, "cannot decode JSON object into "):
		return "objInto"
	case strings.HasPrefix(m, "unknown field for "):
		return "unknownField"
	case strings.HasPrefix(m, "cannot decode JSON array into "):
		return "arrInto"
	case strings.HasPrefix(m, "cannot decode JSON string into "):
		return "strInto"
	case strings.HasPrefix(m, "invalid ") && strings.Contains(m, "Operator: "):
		return "badOp"
	case strings.HasPrefix(m, "cannot decode JSON number into ") && strings.HasSuffix(m, "; a string is required"):
		return "numOp"
	case strings.HasPrefix(m, "cannot decode the JSON number "):
		return "numRange"
	case strings.HasPrefix(m, "cannot decode JSON number into "):
		return "numInto"
	case strings.HasPrefix(m, "cannot decode JSON null into a syntax node"):
		return "nullRoot"
	case strings.HasPrefix(m, "cannot decode JSON boolean into "):
		return "valInto"
	case strings.HasPrefix(m, "a position must contain exactly the fields"):
		return "posLen"
	case strings.HasPrefix(m, "a position must contain the field "):
		return "posField"
	case strings.HasPrefix(m, "the position field "):
		return "posRange"
	case strings.HasPrefix(m, "cannot decode JSON "):
		return "other:" + m
	case strings.HasPrefix(m, "cannot decode "):
		return "notAssignable"
	}
	return "other:" + m
}

// ---- mutation of JSON documents ------------------------------------------------------------

type c15Slot struct {
	set   func(any)
	inPos bool // a member of a position object ({"Offset":…,"Line":…,"Col":…})
}

// c15Slots lists a setter for every value position of the document (root first).
func c15Slots(x any, set func(any), inPos bool, out *[]c15Slot) {
	*out = append(*out, c15Slot{set: set, inPos: inPos})
	switch x := x.(type) {
	case map[string]any:
		keys := make([]string, 0, len(x))
		for k := range x {
			keys = append(keys, k)
		}
		sort.Strings(keys)
		_, isPos := x["Offset"]
		for _, k := range keys {
			k := k
			c15Slots(x[k], func(v any) { x[k] = v }, isPos, out)
		}
	case []any:
		for i := range x {
			i := i
			c15Slots(x[i], func(v any) { x[i] = v }, false, out)
		}
	}
}

func c15Copy(x any) any {
	switch x := x.(type) {
	case map[string]any:
		m := make(map[string]any, len(x))
		for k, v := range x {
			m[k] = c15Copy(v)
		}
		return m
	case []any:
		a := make([]any, len(x))
		for i, v := range x {
			a[i] = c15Copy(v)
		}
		return a
	}
	return x
}

var c15NodeNames = func() []string {
	var out []string
	for _, t := range allNodeStructs() {
		out = append(out, t.Name())
	}
	return out
}()

func c15Scalar(r *Rand) any {
	pool := []any{nil, true, false, 0.0, 1.0, 2.0, -1.0, 1.5, 255.0, 256.0, 4294967295.0, 4294967296.0, 1e300, -0.0,
		"", "x", "&&", ">", "-eq", "token(3)", "Lit", "é ", []any{}, []any{nil}, []any{[]any{}}, map[string]any{},
		map[string]any{"Type": "Lit"}, map[string]any{"Type": "Nope"}, map[string]any{"Type": 3.0}, map[string]any{"Type": ""},
		map[string]any{"Type": "Word", "Parts": []any{map[string]any{"Type": "Lit", "Value": "v"}}},
		map[string]any{"Offset": 1.0, "Line": 1.0, "Col": 1.0}, map[string]any{"Offset": 4294967295.0, "Line": 262144.0, "Col": 16384.0},
		map[string]any{"Offset": 4294967284.0, "Line": 262143.0, "Col": 16383.0}, map[string]any{"Offset": 7.0, "Line": 0.0, "Col": 0.0}}
	return c15Copy(pool[r.Intn(len(pool))])
}

// c15Mutate applies one random structural mutation to doc (in place where possible) and returns the new root.
func c15Mutate(r *Rand, doc any) (any, string) {
	var slots []c15Slot
	root := doc
	c15Slots(doc, func(v any) { root = v }, false, &slots)
	if r.Chance(80) { // positions dominate every document: usually aim elsewhere
		var other []c15Slot
		for _, s := range slots {
			if !s.inPos {
				other = append(other, s)
			}
		}
		slots = other
	}
	// collect containers
	var maps []map[string]any
	var walk func(x any)
	walk = func(x any) {
		switch x := x.(type) {
		case map[string]any:
			maps = append(maps, x)
			keys := make([]string, 0, len(x))
			for k := range x {
				keys = append(keys, k)
			}
			sort.Strings(keys)
			for _, k := range keys {
				walk(x[k])
			}
		case []any:
			for _, e := range x {
				walk(e)
			}
		}
	}
	walk(doc)
	s := slots[r.Intn(len(slots))]
	switch k := r.Intn(12); {
	case k < 3:
		s.set(c15Scalar(r))
		return root, "replace"
	case k == 3 && len(maps) > 0:
		m := maps[r.Intn(len(maps))]
		keys := make([]string, 0, len(m))
		for k := range m {
			keys = append(keys, k)
		}
		if len(keys) == 0 {
			m["Bogus"] = 1.0
			return root, "addkey"
		}
		sort.Strings(keys)
		delete(m, keys[r.Intn(len(keys))])
		return root, "delkey"
	case k == 4 && len(maps) > 0:
		m := maps[r.Intn(len(maps))]
		m[r.Pick([]string{"Bogus", "value", "offs", "lineCol", "Pos", "End", "Value", "Op", "X", "Stmts", "Parts", "", "Typé"})] = c15Scalar(r)
		return root, "addkey"
	case k == 5 && len(maps) > 0:
		m := maps[r.Intn(len(maps))]
		switch r.Intn(4) {
		case 0:
			m["Type"] = r.Pick(c15NodeNames)
		case 1:
			delete(m, "Type")
		case 2:
			m["Type"] = r.Pick([]string{"", "Nope", "Slice", "Replace", "Expansion", "Pos", "Node", "lit"})
		default:
			m["Type"] = c15Scalar(r)
		}
		return root, "type"
	case k == 6:
		var val any
		all := []any{}
		var coll func(x any)
		coll = func(x any) {
			all = append(all, x)
			switch x := x.(type) {
			case map[string]any:
				keys := make([]string, 0, len(x))
				for k := range x {
					keys = append(keys, k)
				}
				sort.Strings(keys)
				for _, k := range keys {
					coll(x[k])
				}
			case []any:
				for _, e := range x {
					coll(e)
				}
			}
		}
		coll(doc)
		val = c15Copy(all[r.Intn(len(all))])
		s.set(val)
		return root, "graft"
	case k == 7:
		s.set([]any{c15Scalar(r)})
		return root, "wrap"
	case k == 8 && len(maps) > 0:
		// position tweaks
		var poss []map[string]any
		for _, m := range maps {
			if _, ok := m["Offset"]; ok {
				poss = append(poss, m)
			}
		}
		if len(poss) == 0 {
			s.set(c15Scalar(r))
			return root, "replace"
		}
		m := poss[r.Intn(len(poss))]
		f := r.Pick([]string{"Offset", "Line", "Col"})
		switch r.Intn(6) {
		case 0:
			delete(m, f)
		case 1:
			m["Extra"] = 1.0
		case 2:
			m[f] = "1"
		case 3:
			m[f] = []float64{-1, 1.5, 4294967296, 1e300}[r.Intn(4)]
		case 4:
			m[f] = []float64{0, 16383, 16384, 262143, 262144, 4294967283, 4294967284, 4294967285, 4294967295}[r.Intn(9)]
		default:
			delete(m, f)
			m["Extra"] = 1.0
		}
		return root, "pos"
	case k == 9:
		// operator-like strings and numbers into any slot
		s.set([]any{"+", "&&", "|&", ";;", "<(", "!(", "-nt", "=~", ":-", "@", "*", 63.0, 1.0, 2.0, 3.0, 255.0}[r.Intn(16)])
		return root, "op"
	default:
		s.set(c15Scalar(r))
		return root, "replace"
	}
}

// ---- main ----------------------------------------------------------------------------------

func c15Encode(n syntax.Node) (text string, panicked string, err error) {
	var buf bytes.Buffer
	panicked = safely(func() { err = typedjson.Encode(&buf, n) })
	return buf.String(), panicked, err
}

func c15Decode(text string) (n syntax.Node, panicked string, err error) {
	panicked = safely(func() { n, err = typedjson.Decode(strings.NewReader(text)) })
	return
}

func c15DecodeAnswer(n syntax.Node, err error) string {
	if err != nil {
		return "err"
	}
	// the decoded node lives in a syntax.Node interface
	holder := new(syntax.Node)
	*holder = n
	var sb strings.Builder
	sb.WriteString("ok ")
	c15Dump(&sb, reflect.ValueOf(holder).Elem(), false)
	return sb.String()
}

func c15JText(text string) (string, bool) {
	var x any
	if err := json.Unmarshal([]byte(text), &x); err != nil {
		return "", false
	}
	var sb strings.Builder
	c15JAny(&sb, x)
	return sb.String(), true
}

func c15Tables(c *Ctx) {
	// schema: fields of every struct, interface implementations
	for _, t := range c15Structs() {
		var parts []string
		for i := 0; i < t.NumField(); i++ {
			parts = append(parts, t.Field(i).Name+" "+c15TypeStr(t.Field(i).Type))
		}
		c.Op("fields "+t.Name(), strings.Join(parts, " ; "))
		for _, it := range c15Ifaces {
			c.Op("impl "+it.Name()+" "+t.Name(), fmt.Sprint(reflect.PointerTo(t).Implements(it)))
		}
	}
	// operator types found by reflection in the schema
	opTypes := map[string]reflect.Type{}
	for _, t := range c15Structs() {
		for i := 0; i < t.NumField(); i++ {
			ft := t.Field(i).Type
			if (ft.Kind() == reflect.Uint8 || ft.Kind() == reflect.Uint32) && c15IsOp(ft) {
				opTypes[ft.Name()] = ft
			}
		}
	}
	var names []string
	for n := range opTypes {
		names = append(names, n)
	}
	sort.Strings(names)
	c.Op("optypes", strings.Join(names, " "))
	// String(): all operator types share token's table; ask each type for every value
	strs := map[string]bool{}
	for n := 0; n < 160; n++ {
		var first string
		for i, name := range names {
			v := reflect.New(opTypes[name]).Elem()
			v.SetUint(uint64(n))
			s := v.Interface().(fmt.Stringer).String()
			if i == 0 {
				first = s
				c.Op(fmt.Sprintf("opstr %d", n), hx(s))
				strs[s] = true
			} else if s != first {
				c.Fail(fmt.Sprintf("opstr %s %d", name, n), "operator types disagree on String(): "+s+" vs "+first)
			}
		}
	}
	for _, n := range []uint64{1000, 65535, 4294967295} {
		v := reflect.New(opTypes[names[0]]).Elem()
		v.SetUint(n)
		c.Op(fmt.Sprintf("opstr %d", n), hx(v.Interface().(fmt.Stringer).String()))
	}
	var all []string
	for s := range strs {
		all = append(all, s)
	}
	all = append(all, "", " ", "&& ", "token(63)", "\x00", "é")
	sort.Strings(all)
	for _, name := range names {
		for _, s := range all {
			nv := reflect.New(opTypes[name])
			err := nv.Interface().(encoding.TextUnmarshaler).UnmarshalText([]byte(s))
			ans := "err"
			if err == nil {
				ans = fmt.Sprint(nv.Elem().Uint())
			}
			c.Op("unm "+name+" "+hx(s), ans)
		}
	}
	// the round trip of the tables, on the implementation (search leg)
	for _, name := range names {
		for n := 1; n < 160; n++ {
			v := reflect.New(opTypes[name]).Elem()
			v.SetUint(uint64(n))
			s := v.Interface().(fmt.Stringer).String()
			nv := reflect.New(opTypes[name])
			if err := nv.Interface().(encoding.TextUnmarshaler).UnmarshalText([]byte(s)); err == nil && nv.Elem().Uint() != uint64(n) {
				// two values with one string: only a defect if both are constants of the type, which
				// the Lean table obligation op_unmarshal_string decides; recorded for the histogram.
				c.Hist["opstring-shared"]++
			}
		}
	}
}

// c15PosLits round-trips a literal placed at boundary positions of the Pos packing (large offsets
// cannot be reached by parsing cheaply).  Judged only for valid positions; witness `poslit O L C`.
func c15PosLits(c *Ctx, cases [][3]uint64) {
	if cases == nil {
		offs := []uint64{0, 1, 65535, 65536, 1 << 24, 1<<31 - 1, 1 << 31, 4294967283, 4294967284}
		lines := []uint64{1, 16383, 16384, 65535, 65536, 131072, 262142, 262143}
		cols := []uint64{1, 255, 256, 16382, 16383}
		for _, o := range offs {
			cases = append(cases, [3]uint64{o, lines[c.R.Intn(len(lines))], cols[c.R.Intn(len(cols))]})
		}
		for _, l := range lines {
			cases = append(cases, [3]uint64{offs[c.R.Intn(len(offs))], l, cols[c.R.Intn(len(cols))]})
		}
		for _, cl := range cols {
			cases = append(cases, [3]uint64{offs[c.R.Intn(len(offs))], lines[c.R.Intn(len(lines))], cl})
		}
		cases = append(cases, [3]uint64{7, 0, 9}, [3]uint64{7, 9, 0}) // one half unknown, still valid
	}
	for _, k := range cases {
		witness := fmt.Sprintf("poslit %d %d %d", k[0], k[1], k[2])
		p := syntax.NewPos(uint(k[0]), uint(k[1]), uint(k[2]))
		if !p.IsValid() {
			continue
		}
		lit := &syntax.Lit{ValuePos: p, ValueEnd: p, Value: "x"}
		text, pn, err := c15Encode(lit)
		if pn != "" || err != nil {
			c.Fail(witness, "Encode of a literal at a valid position fails: "+pn+fmt.Sprint(err))
			continue
		}
		c.Hist["poslit"]++
		dn, pn, derr := c15Decode(text)
		if js, ok := c15JText(text); ok && pn == "" {
			c.Op("decode "+js, c15DecodeAnswer(dn, derr))
		}
		switch {
		case pn != "":
			c.Fail(witness, "Decode panicked on Encode's output: "+pn)
		case derr != nil:
			c.Fail(witness, "Decode rejects Encode's output: "+derr.Error())
		case !reflect.DeepEqual(dn, syntax.Node(lit)):
			c.Fail(witness, "Decode(Encode(lit)) differs: "+c15Diff(reflect.ValueOf(dn), reflect.ValueOf(syntax.Node(lit)), "node"))
		}
	}
}

func c15PosOps(c *Ctx, n int) {
	edge := []uint64{0, 1, 2, 16382, 16383, 16384, 16385, 262142, 262143, 262144, 262145, 1 << 20, 4294967283, 4294967284, 4294967285, 4294967286, 4294967295, 4294967296, 1 << 40}
	pick := func() uint64 {
		if c.R.Chance(60) {
			return edge[c.R.Intn(len(edge))]
		}
		return c.R.Uint64() >> uint(c.R.Intn(64))
	}
	for i := 0; i < n; i++ {
		o, l, col := pick(), pick(), pick()
		p := syntax.NewPos(uint(o), uint(l), uint(col))
		a, b := c15PosRaw(p)
		c.Op(fmt.Sprintf("newpos %d %d %d", o, l, col), fmt.Sprintf("( P %d %d )", a, b))
		ra, rb := uint32(pick()), uint32(pick())
		if c.R.Chance(30) {
			rb = 0
		}
		q := c15MakePos(ra, rb)
		c.Op(fmt.Sprintf("posparts %d %d", ra, rb), fmt.Sprintf("%d %d %d %v %v", q.Offset(), q.Line(), q.Col(), q.IsValid(), q.IsRecovered()))
		// search leg: NewPos(Offset, Line, Col) gives the position back unless it is invalid
		if q.IsValid() {
			if back := syntax.NewPos(q.Offset(), q.Line(), q.Col()); back != q {
				c.Fail(fmt.Sprintf("pos %d %d", ra, rb), "NewPos(Offset, Line, Col) differs from the valid position")
			}
		}
	}
}

func c15SanitizeOps(c *Ctx, n int) {
	alpha := []string{"a", "\x00", "\x7f", "\x80", "\xbf", "\xc0", "\xc1", "\xc2", "\xdf", "\xe0", "\xa0", "\x9f", "\xed", "\xef", "\xbf\xbd", "\xf0", "\x90", "\x8f", "\xf4", "\xf5", "\xff", "é", "€", "\U0001F600", "�", " ", "\"", "\\", "<", "\n"}
	for i := 0; i < n; i++ {
		s := genFrom(c.R, alpha, 6)
		b, err := json.Marshal(s)
		var back string
		if err == nil {
			err = json.Unmarshal(b, &back)
		}
		if err != nil {
			continue
		}
		c.Op("sanitize "+hx(s), hx(back))
	}
}

type c15Stats struct {
	trees, wfTrees, strictTrees, recTrees, recPosTrees int
}

type c15Src struct {
	src     string
	big     string // fixed witness of a corpus case replaying a known finding (root node only)
	recOnly bool   // such a case that is parsed with RecoverErrors only
	corpus  bool
	onlyOne bool
}

func c15(c *Ctx) {
	c.Rule = "programs: the repository's own test inputs that parse in some variant and grammar-generated programs, each parsed in every variant with KeepComments, with and without RecoverErrors; " +
		"the root and sampled sub-nodes are encoded; every encoded document is decoded, and mutated copies (type confusion, out-of-range numbers, nulls, unknown fields, wrong Type, broken positions) are decoded; " +
		"non-trivial = tree has ≥ 8 struct values and ≥ 3 distinct struct types; distinct by (variant, recover, source)"
	if c.Shard == 0 {
		// a change to the operator types can make the reflective table dump itself panic; that
		// is reported through the tie (lines missing) and must not stop the search leg
		if p := safely(func() { c15Tables(c) }); p != "" {
			c.Hist["tables-dump-panicked"]++
			c.Op("tables-dump-panicked", p)
		}
	}
	c15PosOps(c, 40+c.N/4)
	c15SanitizeOps(c, 40+c.N/4)

	var srcs []c15Src
	for _, l := range c.CorpusLines() {
		f := strings.Fields(l)
		switch {
		case len(f) == 4 && f[0] == "big":
			nl, _ := strconv.Atoi(f[1])
			nc, _ := strconv.Atoi(f[2])
			srcs = append(srcs, c15Src{src: strings.Repeat("\n", nl) + strings.Repeat(" ", nc) + unhx(f[3]), big: l, corpus: true, onlyOne: true})
		case len(f) == 4 && f[0] == "poslit":
			o, _ := strconv.ParseUint(f[1], 10, 64)
			ln, _ := strconv.ParseUint(f[2], 10, 64)
			cl, _ := strconv.ParseUint(f[3], 10, 64)
			c15PosLits(c, [][3]uint64{{o, ln, cl}})
		case len(f) == 2 && f[0] == "rec":
			srcs = append(srcs, c15Src{src: unhx(f[1]), big: l, corpus: true, onlyOne: true, recOnly: true})
		case len(f) >= 1:
			if _, err := hex.DecodeString(f[0]); err == nil || f[0] == "-" {
				srcs = append(srcs, c15Src{src: unhx(f[0]), corpus: true})
			}
		}
	}
	for _, v := range variantSnippetSources() {
		srcs = append(srcs, c15Src{src: v, corpus: true})
	}
	// Boundaries of the Pos packing (18 bits of line, 14 of column), reached cheaply: N newlines
	// and a long line before a tiny program (LangBash, root node only; witness `big N C hex`).
	// Generator exclusion (known finding C15-invalid-pos-dropped): the line AND the column never
	// overflow together — beyond line 262143 every column stays ≤ 16383, end positions included.
	if c.Shard == 0 {
		prog := "foo"
		for _, b := range [][2]int{{0, 16380}, {0, 16383}, {16383, 0}, {16384, 3}, {65534, 0}, {65535, 0}, {65536, 16379},
			{70000, 0}, {262141, 0}, {262142, 16390}, {262143, 0}, {262144, 5}, {300000, 16000}} {
			srcs = append(srcs, c15Src{src: strings.Repeat("\n", b[0]) + strings.Repeat(" ", b[1]) + prog,
				big: fmt.Sprintf("big %d %d %s", b[0], b[1], hx(prog)), corpus: true, onlyOne: true})
		}
		c15PosLits(c, nil)
	}
	seeds := repoSeeds()
	nSeeds := c.N / 2
	for i := 0; i < nSeeds && len(seeds) > 0; i++ {
		srcs = append(srcs, c15Src{src: seeds[c.R.Intn(len(seeds))]})
	}
	for i := 0; i < c.N-nSeeds; i++ {
		g := newProgGen(c.R, c.R.Chance(70))
		// Generator exclusion (known finding C15-invalid-pos-dropped): inputs never have more than
		// 262143 lines together with a line longer than 16383 bytes, so every position keeps a
		// non-zero line or column; the corpus replays that region.
		srcs = append(srcs, c15Src{src: g.Program(1 + c.R.Intn(4))})
	}
	var errTrees int
	var st c15Stats
	typesSeen := map[string]bool{}
	for _, s := range srcs {
		// variants: bash always; one other variant drawn per program (the corpus: all variants)
		langs := []syntax.LangVariant{syntax.LangBash, allLangs[1+c.R.Intn(len(allLangs)-1)]}
		if s.corpus {
			langs = allLangs
		}
		if s.onlyOne {
			langs = allLangs[:1]
		}
		for _, lang := range langs {
			for _, rec := range []bool{false, true} {
				if s.onlyOne && rec != s.recOnly {
					continue
				}
				opts := []syntax.ParserOption{syntax.KeepComments(true)}
				if rec {
					opts = append(opts, syntax.RecoverErrors(3+c.R.Intn(20)))
				}
				f, err, pn := parseIn(s.src, lang, opts...)
				if pn != "" || f == nil {
					continue
				}
				if err != nil {
					// a partial tree next to a parse error is outside the property ("every parsed
					// tree"); it still ties the model on unusual values (invalid UTF-8, nil children)
					errTrees++
					if !s.corpus && !c.R.Chance(15) {
						continue
					}
					c15Tree(c, s, lang, rec, f, false, typesSeen, &st)
					continue
				}
				st.trees++
				if rec {
					st.recTrees++
				}
				c15Tree(c, s, lang, rec, f, true, typesSeen, &st)
			}
		}
	}
	c15Corrupt(c)
	c.Extra["parsed_trees"] = st.trees
	c.Extra["parsed_trees_jsonwf"] = st.wfTrees
	c.Extra["parsed_trees_jsonwf_and_no_empty_slice"] = st.strictTrees
	c.Extra["parsed_trees_with_recovered_pos"] = st.recPosTrees
	c.Extra["parsed_trees_recovering_parser"] = st.recTrees
	c.Extra["error_trees_seen"] = errTrees
	c.Extra["struct_types_seen"] = len(typesSeen)
}

// c15Tree runs every stream on one tree; judged says whether the property applies (err == nil).
// It reports whether the whole tree satisfies JsonWF.
func c15Tree(c *Ctx, s c15Src, lang syntax.LangVariant, rec bool, f *syntax.File, judged bool, typesSeen map[string]bool, st *c15Stats) {
	var nodes []syntax.Node
	safely(func() {
		syntax.Walk(f, func(n syntax.Node) bool {
			if n != nil {
				if _, isC := n.(*syntax.Comment); !isC { // Walk hands out copies of comments
					nodes = append(nodes, n)
				}
			}
			return true
		})
	})
	if len(nodes) == 0 {
		nodes = []syntax.Node{f}
	}
	nstruct, tset := 0, map[string]bool{}
	var count func(v reflect.Value)
	count = func(v reflect.Value) {
		switch v.Kind() {
		case reflect.Pointer, reflect.Interface:
			if !v.IsNil() {
				count(v.Elem())
			}
		case reflect.Struct:
			if v.Type() == posType {
				return
			}
			nstruct++
			tset[v.Type().Name()] = true
			typesSeen[v.Type().Name()] = true
			for i := 0; i < v.NumField(); i++ {
				count(v.Field(i))
			}
		case reflect.Slice:
			for i := 0; i < v.Len(); i++ {
				count(v.Index(i))
			}
		}
	}
	count(reflect.ValueOf(f))
	recS := "0"
	if rec {
		recS = "1"
	}
	tags := []string{"lang=" + langName(lang), "recover=" + recS, fmt.Sprintf("structs<%d", c15Bucket(nstruct))}
	if !judged {
		tags = append(tags, "error-tree")
	}
	c.Case(langName(lang)+recS+"\x00"+s.src, nstruct >= 8 && len(tset) >= 3, tags...)

	picks := []int{0}
	extra := 2
	if c.Thorough() {
		extra = 5
	}
	for j := 0; j < extra && len(nodes) > 1; j++ {
		picks = append(picks, 1+c.R.Intn(len(nodes)-1))
	}
	if s.big != "" {
		picks = []int{0}
	}
	var docs []string // encoded documents of this tree, candidates for mutation
	for pi, idx := range picks {
		n := nodes[idx]
		witness := fmt.Sprintf("rt %s %s %d %s", langName(lang), recS, idx, hx(s.src))
		if s.big != "" {
			witness = s.big
		}
		wfGo := c15WF(reflect.ValueOf(n))
		if pi == 0 && judged {
			if wfGo {
				st.wfTrees++
				if !c15HasEmptySlice(reflect.ValueOf(n)) {
					st.strictTrees++
				}
			} else {
				c.Hist["jsonwf-false"]++
			}
			if strings.Contains(c15DumpNode(n, false), fmt.Sprintf("( P %d 0 )", uint32(math.MaxUint32-10))) {
				st.recPosTrees++
			}
		}
		text, pn, err := c15Encode(n)
		small := len(text) < 30000
		var dumpAnn string
		if small {
			// Pos()/End() of a partial tree (next to a parse error) may panic; such trees are skipped
			if dp := safely(func() { dumpAnn = c15DumpNode(n, true) }); dp != "" {
				small = false
				c.Hist["posend-panic"]++
			} else {
				c.Op("wf ( i Node ) ( I "+dumpAnn+" )", fmt.Sprint(wfGo))
			}
		}
		if pn != "" {
			if judged {
				c.Fail(witness, "Encode panicked: "+pn)
			}
			if small {
				c.Op("encode "+dumpAnn, "panic")
			}
			continue
		}
		if err != nil {
			if judged {
				c.Fail(witness, "Encode failed: "+err.Error())
			}
			continue
		}
		if small {
			var sb strings.Builder
			if err := c15JOrdered(&sb, json.NewDecoder(strings.NewReader(text))); err == nil {
				c.Op("encode "+dumpAnn, sb.String())
			}
		}
		// ---- decode what was encoded ----
		dn, pn, derr := c15Decode(text)
		if pn != "" {
			c.Fail(witness, "Decode panicked on Encode's output: "+pn)
			continue
		}
		if small {
			if js, ok := c15JText(text); ok {
				c.Op("decode "+js, c15DecodeAnswer(dn, derr))
			}
		}
		want := c15Clone(reflect.ValueOf(n)).Interface().(syntax.Node)
		if small && wfGo && judged {
			holder := new(syntax.Node)
			*holder = want
			var sb strings.Builder
			sb.WriteString("ok ")
			c15Dump(&sb, reflect.ValueOf(holder).Elem(), false)
			c.Op("specroundtrip "+dumpAnn, sb.String())
		}
		// ---- search leg: the property's own statement on the implementation ----
		if judged {
			if derr != nil {
				c.Fail(witness, "Decode rejects Encode's output: "+derr.Error())
				continue
			}
			if !reflect.DeepEqual(dn, want) {
				c.Fail(witness, "Decode(Encode(tree)) differs from the tree with recovered positions cleared: "+c15Diff(reflect.ValueOf(dn), reflect.ValueOf(want), "node"))
			}
			text2, pn2, err2 := c15Encode(dn)
			if pn2 != "" || err2 != nil {
				c.Fail(witness, "re-encoding the decoded tree fails: "+pn2+fmt.Sprint(err2))
			} else if text2 != text {
				// Generator exclusion (known finding C15-reencode-recovered-posend): when the tree
				// holds a recovered position and the two documents differ only in the derived
				// "Pos"/"End" keys, the case is counted, not judged; the corpus replays it.
				if s.big == "" && c15HasRecovered(reflect.ValueOf(n)) && c15SameModuloDerived(text, text2) {
					c.Hist["known-region:reencode-recovered-posend"]++
				} else {
					c.Fail(witness, "re-encoding the decoded tree is not byte-identical")
				}
			}
		} else if derr == nil && dn != nil {
			// tie only: the re-encoding of whatever was decoded
			if text2, pn2, err2 := c15Encode(dn); pn2 == "" && err2 == nil && len(text2) < 60000 {
				var sb strings.Builder
				if c15JOrdered(&sb, json.NewDecoder(strings.NewReader(text2))) == nil {
					c.Op("encode "+c15DumpNode(dn, true), sb.String())
				}
			}
		}
		if small {
			docs = append(docs, text)
		}
	}
	// ---- mutated documents: prefer the smaller (sub-node) documents ----
	sort.Slice(docs, func(i, j int) bool { return len(docs[i]) < len(docs[j]) })
	nm := 3
	if c.Thorough() {
		nm = 8
	}
	for j := 0; j < nm && len(docs) > 0; j++ {
		text := docs[c.R.Intn(len(docs))]
		if len(text) > 6000 {
			text = docs[0]
		}
		if len(text) > 20000 {
			break
		}
		var doc any
		if json.Unmarshal([]byte(text), &doc) != nil {
			continue
		}
		var kinds []string
		for k := 0; k < 1+c.R.Intn(2); k++ {
			var kind string
			doc, kind = c15Mutate(c.R, doc)
			kinds = append(kinds, kind)
		}
		b, err := json.Marshal(doc)
		if err != nil {
			continue
		}
		c15DecodeCase(c, string(b), "mut="+kinds[0])
	}
}

func c15DecodeCase(c *Ctx, text string, tag string) {
	mn, mpn, merr := c15Decode(text)
	if mpn != "" {
		c.Fail("decode "+hx(text), "Decode panicked: "+mpn)
		return
	}
	js, ok := c15JText(text)
	if !ok {
		c.Hist["mutated-not-json"]++
		return
	}
	c.Hist[tag]++
	ans := c15DecodeAnswer(mn, merr)
	c.Op("decode "+js, ans)
	if merr != nil {
		k := c15ErrKind(merr)
		c.Hist["err="+strings.SplitN(k, ":", 2)[0]]++
		c.Op("errkind "+k2(k)+" "+js, "in")
	} else {
		c.Hist["decoded-ok"]++
		// whatever decodes must encode again or fail cleanly; never judged, only observed
	}
}

func k2(k string) string {
	if strings.HasPrefix(k, "other:") {
		return "other"
	}
	return k
}

// c15Corrupt: raw corruptions of JSON text and adversarial shapes; Decode must not panic.
func c15Corrupt(c *Ctx) {
	base := []string{
		`{"Type":"File","Stmts":[{"Cmd":{"Type":"CallExpr","Args":[{"Parts":[{"Type":"Lit","Value":"echo"}]}]},"Position":{"Offset":0,"Line":1,"Col":1}}]}`,
		`{"Type":"BinaryCmd","Op":"&&","X":{"Cmd":{"Type":"CallExpr"}},"Y":{}}`,
		`{"Type":"ParamExp","Split":1,"Names":"*","Exp":{"Op":":-","Word":{}},"Slice":{"Offset":{"Type":"Word"}}}`,
		`null`, `[]`, `{}`, `"x"`, `1`, `true`, `{"Type":null}`, `{"Type":"Pos"}`, `{"Type":"File","Name":null,"Stmts":null,"Last":[{}]}`,
		`{"Type":"Lit","ValuePos":{"Offset":1e3,"Line":1.0,"Col":2}}`, `{"Type":"Lit","ValuePos":{"Offset":-0,"Line":1,"Col":2}}`,
		`{"Type":"Lit","Type":"Word"}`, `{"Type":"Lit","Value":"a","Value":"b"}`, `{"Type":"Word","Parts":[{"Type":"Lit"}],"Parts":[{"Type":"SglQuoted"}]}`,
		`{"Type":"Lit"} trailing`, `{"Type":"Lit","Value":"\ud800"}`, `{"Type":"Lit","Value":"` + "\xff" + `"}`,
		`{"Type":"UnaryTest","Op":"!","X":{"Type":"Word"}}`, `{"Type":"CaseItem","Op":3}`, `{"Type":"ParamExp","Split":256}`, `{"Type":"ParamExp","Split":255}`, `{"Type":"ParamExp","Split":"x"}`,
		`{"Type":"Stmt","Comments":[{"Type":"Comment"}]}`, `{"Type":"Stmt","Comments":[{"Text":"x","Hash":{"Offset":1,"Line":1,"Col":2}}]}`,
		`{"Type":"Comment","Hash":{"Offset":1,"Line":1,"Col":2,"Extra":1}}`, `{"Type":"Comment","Hash":[1,1,2]}`, `{"Type":"Comment","Hash":null}`,
	}
	for _, b := range base {
		c15DecodeCase(c, b, "handmade")
	}
	for _, depth := range []int{10, 1000, 9999, 10001, 100000} {
		for _, shape := range []string{"[", `{"Type":"File","Stmts":[`, `{"Type":"Word","Parts":[{"Type":"DblQuoted","Parts":[`, `{"X":`} {
			text := strings.Repeat(shape, depth)
			if pn := safely(func() { typedjson.Decode(strings.NewReader(text)) }); pn != "" {
				c.Fail(fmt.Sprintf("deep %d %s", depth, hx(shape)), "Decode panicked: "+pn)
			}
			closer := map[string]string{"[": "]", `{"X":`: "}"}[shape]
			if closer != "" && depth <= 10001 {
				inner := "1"
				if shape == `{"X":` {
					inner = "null"
				}
				full := text + inner + strings.Repeat(closer, depth)
				if depth <= 1000 {
					c15DecodeCase(c, full, "deep")
				} else if pn := safely(func() { typedjson.Decode(strings.NewReader(full)) }); pn != "" {
					c.Fail(fmt.Sprintf("deepfull %d %s", depth, hx(shape)), "Decode panicked: "+pn)
				}
			}
			c.Hist["deep"]++
		}
	}
	n := 200
	if c.Thorough() {
		n = 4000
	}
	for i := 0; i < n; i++ {
		b := []byte(base[c.R.Intn(3)])
		for k := 0; k < 1+c.R.Intn(3); k++ {
			switch c.R.Intn(4) {
			case 0:
				b[c.R.Intn(len(b))] = byte(c.R.Intn(256))
			case 1:
				p := c.R.Intn(len(b))
				b = append(b[:p], b[p+1:]...)
			case 2:
				p := c.R.Intn(len(b))
				b = append(b[:p], append([]byte(c.R.Pick([]string{"{", "}", "[", "]", ",", ":", "\"", "null", "1e999", "-", "\\u0000"})), b[p:]...)...)
			default:
				b = b[:c.R.Intn(len(b)+1)]
			}
			if len(b) == 0 {
				b = []byte("0")
			}
		}
		text := string(b)
		if _, ok := c15JText(text); ok {
			c15DecodeCase(c, text, "corrupt-json")
			continue
		}
		c.Hist["corrupt-notjson"]++
		var err error
		if pn := safely(func() { _, err = typedjson.Decode(strings.NewReader(text)) }); pn != "" {
			c.Fail("decode "+hx(text), "Decode panicked: "+pn)
		}
		_ = err
	}
}

// c15Diff locates the first difference between two trees (for the failure message).
func c15Diff(a, b reflect.Value, path string) string {
	if a.Kind() != b.Kind() {
		return path + ": kinds differ"
	}
	switch a.Kind() {
	case reflect.Pointer, reflect.Interface:
		if a.IsNil() != b.IsNil() {
			return fmt.Sprintf("%s: nil=%v vs nil=%v", path, a.IsNil(), b.IsNil())
		}
		if a.IsNil() {
			return ""
		}
		if a.Elem().Type() != b.Elem().Type() {
			return path + ": dynamic types differ"
		}
		return c15Diff(a.Elem(), b.Elem(), path)
	case reflect.Struct:
		if a.Type() == posType {
			ao, al := c15PosRaw(a.Interface().(syntax.Pos))
			bo, bl := c15PosRaw(b.Interface().(syntax.Pos))
			if ao != bo || al != bl {
				return fmt.Sprintf("%s: position {offs:%d lineCol:%d} vs {offs:%d lineCol:%d}", path, ao, al, bo, bl)
			}
			return ""
		}
		for i := 0; i < a.NumField(); i++ {
			if d := c15Diff(a.Field(i), b.Field(i), path+"."+a.Type().Field(i).Name); d != "" {
				return d
			}
		}
	case reflect.Slice:
		if a.IsNil() != b.IsNil() || a.Len() != b.Len() {
			return fmt.Sprintf("%s: slice nil=%v len=%d vs nil=%v len=%d", path, a.IsNil(), a.Len(), b.IsNil(), b.Len())
		}
		for i := 0; i < a.Len(); i++ {
			if d := c15Diff(a.Index(i), b.Index(i), fmt.Sprintf("%s[%d]", path, i)); d != "" {
				return d
			}
		}
	case reflect.String:
		if a.String() != b.String() {
			return fmt.Sprintf("%s: %q vs %q", path, a.String(), b.String())
		}
	case reflect.Bool:
		if a.Bool() != b.Bool() {
			return path + ": bools differ"
		}
	case reflect.Uint8, reflect.Uint32:
		if a.Uint() != b.Uint() {
			return fmt.Sprintf("%s: %d vs %d", path, a.Uint(), b.Uint())
		}
	}
	return ""
}

func c15Bucket(n int) int {
	for _, b := range []int{4, 8, 16, 32, 64, 128, 512, 1 << 30} {
		if n < b {
			return b
		}
	}
	return 0
}
